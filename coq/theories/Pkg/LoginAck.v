(* TDS_LOGINACK (tds/packageLoginAck.go, tds/version.go).
   The writer emits the struct fields Length and NameLength verbatim (it computes neither); the reader
   reads Length and never compares it with anything.  Versions are 4 raw bytes (NewVersion only fails on a
   length other than 4, which cannot happen after a successful ch.Bytes(4)). *)
From Coq Require Import ZArith List Bool Lia.
Import ListNotations.
From V Require Import Base.Tree Base.Bytes Base.BytesFacts Base.Parser Base.ParserFacts.
Open Scope Z_scope.

Record loginack := {
  la_length : Z; la_status : Z; la_version : bytes; la_namelen : Z; la_name : bytes; la_progversion : bytes }.

(* ReadFrom (entered after the token byte) *)
Definition dec_loginack : parser loginack :=
  let* len := u16 in
  let* st := u8 in
  let* v := take 4 in
  let* nl := u8 in
  let* nm := take nl in
  let* pv := take 4 in
  ret {| la_length := len; la_status := st; la_version := v; la_namelen := nl; la_name := nm; la_progversion := pv |}.

Definition tok_loginack : Z := 173.
(* WriteTo: pkg.Length, pkg.NameLength as stored (uint16 / uint8 fields), then the name in full *)
Definition enc_loginack_body (p : loginack) : bytes :=
  bytes_of_le 2 (la_length p mod 65536) ++ bytes_of_le 1 (la_status p mod 256) ++ la_version p ++
  bytes_of_le 1 (la_namelen p mod 256) ++ la_name p ++ la_progversion p.
Definition enc_loginack (p : loginack) : option bytes := Some (tok_loginack :: enc_loginack_body p).

(* every integer fits its field, the versions are 4 bytes, and the name length byte is the length of the name *)
Definition wf_loginack (p : loginack) : Prop :=
  0 <= la_length p < 65536 /\ 0 <= la_status p < 256 /\ zlen (la_version p) = 4 /\
  la_namelen p = zlen (la_name p) /\ zlen (la_name p) < 256 /\ zlen (la_progversion p) = 4.
(* the Length field is what a TDS 5.0 writer has to put there: everything after the length field *)
Definition loginack_length_ok (p : loginack) : Prop := la_length p = 10 + zlen (la_name p).

Lemma dec_loginack_streamable : streamable dec_loginack.
Proof. unfold dec_loginack. streamable_tac. Qed.

Lemma loginack_roundtrip p r : wf_loginack p -> dec_loginack (enc_loginack_body p ++ r) = POk p r.
Proof.
  intros [Hl [Hs [Hv [Hn [Hn2 Hp]]]]]. unfold dec_loginack, enc_loginack_body. rewrite <- !app_assoc.
  pose proof (zlen_nonneg (la_name p)) as Hnn.
  assert (Hnl : 0 <= la_namelen p < 256) by lia.
  rewrite !Z.mod_small by lia.
  rewrite (bind_ok _ _ _ _ _ (u16_enc _ _ Hl)).
  rewrite (bind_ok _ _ _ _ _ (u8_enc _ _ Hs)).
  rewrite (bind_ok _ _ _ _ _ (take_app_n 4 _ _ Hv)).
  rewrite (bind_ok _ _ _ _ _ (u8_enc _ _ Hnl)).
  rewrite (bind_ok _ _ _ _ _ (take_app_n (la_namelen p) _ _ (eq_sym Hn))).
  rewrite (bind_ok _ _ _ _ _ (take_app_n 4 _ _ Hp)).
  destruct p; reflexivity.
Qed.

(* the number of bytes after the 2-byte length field; it equals the written Length exactly when
   loginack_length_ok holds (the writer does not establish it) *)
Lemma enc_loginack_len p : wf_loginack p -> zlen (enc_loginack_body p) = 2 + (10 + zlen (la_name p)).
Proof.
  intros [Hl [Hs [Hv [Hn [Hn2 Hp]]]]]. unfold enc_loginack_body. rewrite !zlen_app, !zlen_bytes_of_le, Hv, Hp. change (Z.of_nat 2) with 2. change (Z.of_nat 1) with 1. lia.
Qed.

(* the reader ignores Length: any value decodes to the same remaining fields *)
Lemma loginack_length_unchecked p r l' : wf_loginack p -> 0 <= l' < 65536 ->
  dec_loginack (enc_loginack_body {| la_length := l'; la_status := la_status p; la_version := la_version p;
      la_namelen := la_namelen p; la_name := la_name p; la_progversion := la_progversion p |} ++ r)
  = POk {| la_length := l'; la_status := la_status p; la_version := la_version p;
      la_namelen := la_namelen p; la_name := la_name p; la_progversion := la_progversion p |} r.
Proof.
  intros [Hl [Hs [Hv [Hn [Hn2 Hp]]]]] Hl'. apply loginack_roundtrip. unfold wf_loginack; cbn. repeat split; try lia; assumption.
Qed.

Definition loginack_tree (p : loginack) : tree :=
  TL [TI (la_length p); TI (la_status p); TB (la_version p); TI (la_namelen p); TB (la_name p); TB (la_progversion p)].
Definition loginack_of_tree (t : tree) : loginack :=
  {| la_length := t_int (t_nth 0 t); la_status := t_int (t_nth 1 t); la_version := t_bytes (t_nth 2 t);
     la_namelen := t_int (t_nth 3 t); la_name := t_bytes (t_nth 4 t); la_progversion := t_bytes (t_nth 5 t) |}.
