(* TDS_PARAMFMT / TDS_PARAMFMT2 (tds/packageParamFmt.go), TDS_ROWFMT / TDS_ROWFMT2 (tds/packageRowFmt.go),
   TDS_PARAMS / TDS_ROW (tds/packageParams.go).  No proofs here. *)
From Coq Require Import ZArith List Bool.
Import ListNotations.
From V Require Import Base.Tree Base.Bytes Base.Parser Base.ParserFacts Pkg.GenTypes Gen.GenPkg Pkg.Field.
Open Scope Z_scope.

Definition tok_paramfmt : Z := 236.   Definition tok_paramfmt2 : Z := 32.
Definition tok_rowfmt : Z := 238.     Definition tok_rowfmt2 : Z := 97.
Definition tok_params : Z := 215.     Definition tok_row : Z := 209.

(* ---------------- ParamFmtPackage.ReadFromField: (format, n) *)
Definition dec_paramfmt_field (wide : bool) : parser (ffmt * Z) :=
  let* nl := u8 in let* name := take nl in
  let* status := (if wide then u32 else u8) in
  let* ut := i32 in
  let* dt := u8 in
  let* tl := dec_fmt_tail dt in
  let* ll := u8 in let* loc := take ll in
  ret (mk_fmt dt name status ut loc (fst tl) [] [] [] [],
       1 + nl + (if wide then 4 else 1) + 4 + 1 + snd tl + 1 + ll).

(* the per-field check of ParamFmtPackage.ReadFrom: readBytes != formatByteLength is an error *)
Definition paramfmt_field_checked (wide : bool) : parser (ffmt * Z) :=
  let* fn := dec_paramfmt_field wide in
  let f := fst fn in
  let fbl := 1 + zlen (f_name f) + 1 + 4 + 1 +
             format_byte_length (f_dt f) {| t_maxlen := f_maxlen f; t_prec := f_prec f; t_scale := f_scale f;
                                            t_blobtype := f_blobtype f; t_classid := f_classid f; t_tabname := f_tabname f |}
             + 1 + zlen (f_locale f) + (if wide then 3 else 0) in
  if snd fn =? fbl then ret fn else fail 30.

Definition dec_paramfmt (wide : bool) : parser (list ffmt) :=
  let* total := (if wide then u32 else u16) in
  let* cnt := u16 in
  let* fs := repeat_n (Z.to_nat cnt) (paramfmt_field_checked wide) in
  let n := 2 + zsum (map snd fs) in
  if total <? n then fail 31 else ret (map fst fs).

(* ParamFmtPackage.WriteTo *)
Definition enc_paramfmt_field (wide : bool) (f : ffmt) : bytes :=
  lp8 (f_name f) ++
  (if wide then bytes_of_le 4 (f_status f mod 4294967296) else bytes_of_le 1 (f_status f mod 256)) ++
  bytes_of_le 4 (f_usertype f mod 4294967296) ++
  bytes_of_le 1 (f_dt f mod 256) ++
  enc_fmt_tail f ++
  lp8 (f_locale f).
Definition paramfmt_length (wide : bool) (fs : list ffmt) : Z :=
  2 + zsum (map (fun f => 1 + zlen (f_name f) + 1 + 4 + 1 +
                          format_byte_length (f_dt f) {| t_maxlen := f_maxlen f; t_prec := f_prec f; t_scale := f_scale f;
                                                         t_blobtype := f_blobtype f; t_classid := f_classid f; t_tabname := f_tabname f |}
                          + 1 + zlen (f_locale f) + (if wide then 3 else 0)) fs).
Definition enc_paramfmt (wide : bool) (fs : list ffmt) : option bytes :=
  let length := paramfmt_length wide fs in
  let body := concat (map (enc_paramfmt_field wide) fs) in
  (* "if n > length" error of the writer: n = 2 + bytes written for the fields *)
  if length <? 2 + zlen body then None else
  Some ((if wide then tok_paramfmt2 else tok_paramfmt) ::
        (if wide then bytes_of_le 4 (length mod 4294967296) else bytes_of_le 2 (length mod 65536)) ++
        bytes_of_le 2 (zlen fs mod 65536) ++ body).

(* ---------------- RowFmtPackage *)
Definition dec_rowfmt_field (wide : bool) : parser (ffmt * Z) :=
  let* w := (if wide
             then let* l1 := u8 in let* label := take l1 in
                  let* l2 := u8 in let* cat := take l2 in
                  let* l3 := u8 in let* sch := take l3 in
                  let* l4 := u8 in let* tab := take l4 in
                  ret (label, cat, sch, tab, 4 + l1 + l2 + l3 + l4)
             else ret ([], [], [], [], 0)) in
  let '(label, cat, sch, tab, n0) := w in
  let* nl := u8 in let* name := take nl in
  let* status := (if wide then u32 else u8) in
  let* ut := i32 in
  let* tk := i8 in
  let dt := tk mod 256 in
  let* tl := dec_fmt_tail dt in
  let* ll := u8 in let* loc := take ll in
  ret (mk_fmt dt name status ut loc (fst tl) label cat sch tab,
       n0 + 1 + nl + (if wide then 4 else 1) + 4 + 1 + snd tl + 1 + ll).

Definition dec_rowfmt (wide : bool) : parser (list ffmt) :=
  let* total := (if wide then u32 else u16) in
  let* cnt := u16 in
  let* fs := repeat_n (Z.to_nat cnt) (dec_rowfmt_field wide) in
  let n := 2 + zsum (map snd fs) in
  if n =? total then ret (map fst fs) else fail 32.

(* ---------------- ParamsPackage / RowPackage: fields read with the formats of the preceding package *)
Fixpoint dec_fields (fs : list ffmt) : parser (list fdata) :=
  match fs with
  | [] => ret []
  | f :: r => let* v := dec_fdata f in let* vs := dec_fields r in ret (v :: vs)
  end.
(* LastPkg: LookupFieldData fails for a format whose data type has no data class *)
Definition params_ctx_ok (fs : list ffmt) : bool := forallb (fun f => negb (data_class (f_dt f) =? 0)) fs.
Definition dec_params (ctx : option (list ffmt)) : parser (list fdata) :=
  match ctx with
  | None => fail 40                       (* no preceding format package *)
  | Some fs => if params_ctx_ok fs then dec_fields fs else fail 41
  end.
Definition enc_params (tok : Z) (fs : list ffmt) (vs : list fdata) : bytes :=
  tok :: concat (map (fun fv => enc_fdata (fst fv) (snd fv)) (combine fs vs)).
