(* TDS_DONE / TDS_DONEPROC / TDS_DONEINPROC  (tds/packageDone.go).
   TEMPLATE for a package file:  record, decoder (one combinator per read site, in read order),
   encoder (what WriteTo writes, token byte included), well-formedness, streamable, round trip, tree view. *)
From Coq Require Import ZArith List Bool Lia.
Import ListNotations.
From V Require Import Base.Tree Base.Bytes Base.BytesFacts Base.Parser Base.ParserFacts.
Open Scope Z_scope.

Record done := { d_status : Z; d_tran : Z; d_count : Z }.

(* ReadFrom (entered after the token byte has been consumed by the channel) *)
Definition dec_done : parser done :=
  let* st := u16 in
  let* tr := u16 in
  let* c := i32 in
  ret {| d_status := st; d_tran := tr; d_count := c |}.

(* WriteTo: always the TDS_DONE token (DoneProc/DoneInProc are aliases of DonePackage) *)
Definition tok_done : Z := 253.
Definition enc_done_body (d : done) : bytes :=
  bytes_of_le 2 (d_status d mod 65536) ++ bytes_of_le 2 (d_tran d mod 65536) ++ bytes_of_le 4 (d_count d mod 4294967296).
Definition enc_done (d : done) : bytes := tok_done :: enc_done_body d.

Definition wf_done (d : done) : Prop :=
  0 <= d_status d < 65536 /\ 0 <= d_tran d < 65536 /\ -2147483648 <= d_count d < 2147483648.

Lemma dec_done_streamable : streamable dec_done.
Proof. unfold dec_done. streamable_tac. Qed.

Lemma done_roundtrip d r : wf_done d -> dec_done (enc_done_body d ++ r) = POk d r.
Proof.
  intros [Hs [Ht Hc]]. unfold dec_done, enc_done_body. rewrite <- !app_assoc.
  rewrite !Z.mod_small by lia.
  rewrite (bind_ok _ _ _ _ _ (u16_enc _ _ Hs)).
  rewrite (bind_ok _ _ _ _ _ (u16_enc _ _ Ht)).
  rewrite <- (Z.mod_small (d_count d mod 4294967296) 4294967296) by (apply Z.mod_pos_bound; lia).
  rewrite Z.mod_mod by lia.
  rewrite (bind_ok _ _ _ _ _ (i32_enc _ _ Hc)). destruct d; reflexivity.
Qed.

Lemma enc_done_len d : zlen (enc_done_body d) = 8.
Proof. unfold enc_done_body. rewrite !zlen_app, !zlen_bytes_of_le. reflexivity. Qed.

Definition done_tree (d : done) : tree := TL [TI (d_status d); TI (d_tran d); TI (d_count d)].
Definition done_of_tree (t : tree) : done :=
  {| d_status := t_int (t_nth 0 t); d_tran := t_int (t_nth 1 t); d_count := t_int (t_nth 2 t) |}.
