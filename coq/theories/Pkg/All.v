(* The package registry and the dispatch functions shared by C06 / C07 / C10. No proofs here. *)
From Coq Require Import ZArith List Bool.
Import ListNotations.
From V Require Import Base.Tree Base.Bytes Base.Parser Pkg.Iface Pkg.RegCore Pkg.RegB1 Pkg.RegB2.
Open Scope Z_scope.

Definition kinds_all : list kind := kinds_core ++ kinds_b1 ++ kinds_b2.

(* writers that panic in Go (known finding: KEY writer passes the width of the length prefix as data length) *)
Definition enc_panics (tok : Z) (fields : tree) : bool := enc_panics_b2 tok fields.

Definition class_tree {A} (r : pres A) : Z :=
  match r with POk _ _ => 0 | PNeb => 1 | PErr _ _ => 2 | PPanic => -1 end.

Definition dec_run (tok : Z) (ctx : tree) (body : bytes) : pres tree :=
  match find_kind tok kinds_all with
  | Some k => k_dec k ctx body
  | None => PErr 999 body
  end.

Definition prefixes (body : bytes) : list bytes := map (fun n => firstn n body) (seq 0 (length body)).

Definition pkg_run (fn : Z) (i : tree) : tree :=
  let tok := t_int (t_nth 0 i) in
  match fn with
  | 1 => match find_kind tok kinds_all with
         | Some k => if enc_panics tok (t_nth 1 i) then TL [TI (-1)] else
                     match k_enc k (t_nth 1 i) with
                     | Some bs => TL [TI 0; TB bs; TI 1]
                     | None => TL [TI 2]
                     end
         | None => tbad
         end
  | 2 => let body := t_bytes (t_nth 1 i) in
         match dec_run tok (t_nth 2 i) body with
         | POk t r => TL [TI 0; TI (zlen body - zlen r); t]
         | PNeb => TL [TI 1; TI 0; TL []]
         | PErr _ _ => TL [TI 2; TI 0; TL []]
         | PPanic => TL [TI (-1); TI 0; TL []]
         end
  | 3 => let body := t_bytes (t_nth 1 i) in
         TL (map (fun p => TI (class_tree (dec_run tok (t_nth 2 i) p))) (prefixes body))
  | 4 => TL [TI (class_tree (dec_run tok (t_nth 2 i) (t_bytes (t_nth 1 i))))]
  | 5 => TL [TI 0; TI 0]     (* fuzz of readers incl. unmodelled ones: no panic, no over-allocation (claim, not computed) *)
  | _ => tbad
  end.

Definition pkg_spec (fn : Z) (i o : tree) : bool :=
  match fn with
  | 1 => if (match t_nth 2 i with TI 0 => true | _ => false end) then true else   (* outside the domain of the property: nothing claimed *)
         match o with
         | TL [TI 0; TB _; TI ok] => ok =? 1            (* the independent decoder accepted the bytes *)
         | TL [TI 2] =>                                  (* the writer refused: only where the model says it must *)
             match find_kind (t_int (t_nth 0 i)) kinds_all with
             | Some k => match k_enc k (t_nth 1 i) with None => true | Some _ => false end
             | None => false
             end
         | _ => false
         end
  | 2 => if (match t_nth 4 i with TI 0 => true | _ => false end) then true else
         tree_eqb o (TL [TI 0; TI (zlen (t_bytes (t_nth 1 i))); t_nth 3 i])    (* ok, all bytes consumed, fields as sent *)
  | 3 => (* a valid encoding (parsed completely, also by the model): every proper prefix is not-enough-bytes *)
         let body := t_bytes (t_nth 1 i) in
         let model_valid := match dec_run (t_int (t_nth 0 i)) (t_nth 2 i) body with POk _ [] => true | _ => false end in
         if (t_int (t_nth 3 i) =? 1) || model_valid
         then forallb (fun c => tree_eqb c (TI 1)) (t_list o) else true
  | 4 => match o with TL [TI c] => negb (c =? -1) | _ => false end             (* never a panic *)
  | 5 => tree_eqb o (TL [TI 0; TI 0])
  | _ => false
  end.
