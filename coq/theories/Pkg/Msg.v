(* TDS_MSG (tds/packageMsg.go).  The reader reads the length byte and discards it (no accounting);
   the writer always writes length 3. *)
From Coq Require Import ZArith List Bool Lia.
Import ListNotations.
From V Require Import Base.Tree Base.Bytes Base.BytesFacts Base.Parser Base.ParserFacts.
Open Scope Z_scope.

Record msg := { m_status : Z; m_id : Z }.

Definition dec_msg : parser msg :=
  let* _len := u8 in
  let* st := u8 in
  let* id := u16 in
  ret {| m_status := st; m_id := id |}.

Definition tok_msg : Z := 101.
Definition enc_msg_body (m : msg) : bytes :=
  bytes_of_le 1 3 ++ bytes_of_le 1 (m_status m mod 256) ++ bytes_of_le 2 (m_id m mod 65536).
Definition enc_msg (m : msg) : option bytes := Some (tok_msg :: enc_msg_body m).

Definition wf_msg (m : msg) : Prop := 0 <= m_status m < 256 /\ 0 <= m_id m < 65536.

Lemma dec_msg_streamable : streamable dec_msg.
Proof. unfold dec_msg. streamable_tac. Qed.

Lemma msg_roundtrip m r : wf_msg m -> dec_msg (enc_msg_body m ++ r) = POk m r.
Proof.
  intros [Hs Hi]. unfold dec_msg, enc_msg_body. rewrite <- !app_assoc. rewrite !Z.mod_small by lia.
  assert (H3 : 0 <= 3 < 256) by lia.
  rewrite (bind_ok _ _ _ _ _ (u8_enc 3 _ H3)).
  rewrite (bind_ok _ _ _ _ _ (u8_enc _ _ Hs)).
  rewrite (bind_ok _ _ _ _ _ (u16_enc _ _ Hi)). destruct m; reflexivity.
Qed.

(* the length byte written (3) is the number of bytes that follow it *)
Lemma enc_msg_len m : exists rest, enc_msg_body m = 3 :: rest /\ zlen rest = 3.
Proof. eexists. split; [reflexivity|]. reflexivity. Qed.

Definition msg_tree (m : msg) : tree := TL [TI (m_status m); TI (m_id m)].
Definition msg_of_tree (t : tree) : msg := {| m_status := t_int (t_nth 0 t); m_id := t_int (t_nth 1 t) |}.
