(* SCRATCH (builder B2): dispatch used to validate the B2 package models against the implementation
   until the coordinator's registry glue exists.  Case functions as documented in harness/pk/pk.go. *)
From Coq Require Import ZArith List Bool.
Import ListNotations.
From V Require Import Base.Tree Base.Bytes Base.Parser Pkg.Iface Pkg.RegB2.
Open Scope Z_scope.

Definition pclass {A} (p : pres A) : Z :=
  match p with POk _ _ => 0 | PNeb => 1 | PErr _ => 2 | PPanic => -1 end.

Definition run (fn : Z) (i : tree) : tree :=
  let tok := t_int (t_nth 0 i) in
  match find_kind tok kinds_b2 with
  | None => tbad
  | Some k =>
    match fn with
    | 1 => let fields := t_nth 1 i in
           if enc_panics_b2 tok fields then TL [TI (-1)]
           else match k_enc k fields with
                | Some bs => TL [TI 0; TB bs; TI 1]
                | None => TL [TI 2]
                end
    | 2 => let body := t_bytes (t_nth 1 i) in
           match k_dec k (t_nth 2 i) body with
           | POk t r => TL [TI 0; TI (zlen body - zlen r); t]
           | p => TL [TI (pclass p); TI 0; TL []]
           end
    | 3 => let body := t_bytes (t_nth 1 i) in
           TL (map (fun n => TI (pclass (k_dec k (t_nth 2 i) (firstn n body)))) (seq 0 (length body)))
    | 4 => TL [TI (pclass (k_dec k (t_nth 2 i) (t_bytes (t_nth 1 i))))]
    | _ => tbad
    end
  end.

Definition spec (fn : Z) (i o : tree) : bool := true.
