(* TDS_CURINFO 0x83 / TDS_CURINFO3 0x88 (tds/packageCurInfo.go), wide = CURINFO3:
   token | length u16 (also when wide) | cursor id i32 | [name length u8 | name] (iff id = 0) | command u8
         | status u16 (u32 when wide) | [row number i32 | total rows i32] (iff wide) | [row count i32] (iff status has ROWCNT 0x20) *)
From Coq Require Import ZArith List Bool Lia.
Import ListNotations.
From V Require Import Base.Tree Base.Bytes Base.BytesFacts Base.Parser Base.ParserFacts Pkg.CurCommon.
Open Scope Z_scope.

Record curinfo := { ci_id : Z; ci_name : bytes; ci_cmd : Z; ci_status : Z;
                    ci_rownum : Z; ci_totalrows : Z; ci_rowcount : Z }.

(* pkg.Status&TDS_CUR_ISTAT_ROWCNT == TDS_CUR_ISTAT_ROWCNT *)
Definition info_has_rowcnt (st : Z) : bool := Z.land st 32 =? 32.

Definition dec_curinfo (wide : bool) : parser curinfo :=
  let* total := u16 in
  let* hn := counted p_cur_head in
  let* cmd := u8 in
  let* st := (if wide then u32 else u16) in
  let* rt := (if wide then (let* a := i32 in let* b := i32 in ret (a, b)) else ret (0, 0)) in
  let* rc := (if info_has_rowcnt st then i32 else ret 0) in
  check_total (snd hn + 1 + (if wide then 4 else 2) + (if wide then 8 else 0) + (if info_has_rowcnt st then 4 else 0)) total
    {| ci_id := fst (fst hn); ci_name := snd (fst hn); ci_cmd := cmd; ci_status := st;
       ci_rownum := fst rt; ci_totalrows := snd rt; ci_rowcount := rc |}.

Definition tok_curinfo (wide : bool) : Z := if wide then 136 else 131.
(* totalLength := 4 + 1 + 2; id == 0: += 1 + len(Name); ROWCNT: += 4; wide: += 2 + 4 + 4.
   The writer tests the untruncated Status (a Go uint) and writes uint16(Status) / uint32(Status). *)
Definition curinfo_total (wide : bool) (c : curinfo) : Z :=
  cur_head_total (ci_id c) (ci_name c) + 1 + 2
  + (if info_has_rowcnt (ci_status c) then 4 else 0) + (if wide then 10 else 0).
Definition enc_curinfo_payload (wide : bool) (c : curinfo) : bytes :=
  enc_cur_head (ci_id c) (ci_name c) ++ bytes_of_le 1 (ci_cmd c mod 256)
  ++ (if wide then bytes_of_le 4 (ci_status c mod 4294967296) else bytes_of_le 2 (ci_status c mod 65536))
  ++ (if wide then bytes_of_le 4 (ci_rownum c mod 4294967296) ++ bytes_of_le 4 (ci_totalrows c mod 4294967296) else [])
  ++ (if info_has_rowcnt (ci_status c) then bytes_of_le 4 (ci_rowcount c mod 4294967296) else []).
Definition enc_curinfo_body (wide : bool) (c : curinfo) : bytes :=
  bytes_of_le 2 (curinfo_total wide c mod 65536) ++ enc_curinfo_payload wide c.
Definition enc_curinfo (wide : bool) (c : curinfo) : option bytes :=
  Some (tok_curinfo wide :: enc_curinfo_body wide c).

Definition int32_ok (v : Z) : Prop := -2147483648 <= v < 2147483648.

Definition wf_curinfo (wide : bool) (c : curinfo) : Prop :=
  wf_cur_head (ci_id c) (ci_name c) /\ 0 <= ci_cmd c < 256 /\
  0 <= ci_status c < (if wide then 4294967296 else 65536) /\
  int32_ok (ci_rownum c) /\ int32_ok (ci_totalrows c) /\ int32_ok (ci_rowcount c) /\
  (wide = false -> ci_rownum c = 0 /\ ci_totalrows c = 0) /\
  (info_has_rowcnt (ci_status c) = false -> ci_rowcount c = 0) /\
  curinfo_total wide c < 65536.

Lemma dec_curinfo_streamable wide : streamable (dec_curinfo wide).
Proof. unfold dec_curinfo. streamable_tac; try apply p_cur_head_streamable; apply check_total_streamable. Qed.

Lemma enc_curinfo_len wide c : zlen (enc_curinfo_payload wide c) = curinfo_total wide c.
Proof.
  unfold enc_curinfo_payload, curinfo_total.
  destruct wide; destruct (info_has_rowcnt (ci_status c));
    rewrite ?zlen_app, ?zlen_enc_cur_head, ?zlen_bytes_of_le, ?(@zlen_nil Z); cbn [Z.of_nat Pos.of_succ_nat Pos.succ]; lia.
Qed.

Lemma curinfo_total_nonneg wide c : 0 <= curinfo_total wide c.
Proof. rewrite <- enc_curinfo_len. apply zlen_nonneg. Qed.

Lemma curinfo_rowcnt_part c r (k total : Z) (x : Z -> curinfo) :
  int32_ok (ci_rowcount c) -> (info_has_rowcnt (ci_status c) = false -> ci_rowcount c = 0) ->
  k + (if info_has_rowcnt (ci_status c) then 4 else 0) = total ->
  (let* rc := (if info_has_rowcnt (ci_status c) then i32 else ret 0) in
   check_total (k + (if info_has_rowcnt (ci_status c) then 4 else 0)) total (x rc))
    ((if info_has_rowcnt (ci_status c) then bytes_of_le 4 (ci_rowcount c mod 4294967296) else []) ++ r)
  = POk (x (ci_rowcount c)) r.
Proof.
  intros Hrc Hz E. rewrite E. destruct (info_has_rowcnt (ci_status c)).
  - rewrite (bind_ok _ _ _ _ _ (i32_enc _ _ Hrc)). apply check_total_ok.
  - cbn [app]. unfold bind, ret at 1. rewrite check_total_ok. rewrite (Hz eq_refl). reflexivity.
Qed.

Lemma curinfo_roundtrip wide c r : wf_curinfo wide c -> dec_curinfo wide (enc_curinfo_body wide c ++ r) = POk c r.
Proof.
  intros [Hh [Hc [Hst [Hrn [Htr [Hrc [Hn [Hz Ht]]]]]]]]. pose proof (curinfo_total_nonneg wide c) as Hnn.
  unfold dec_curinfo, enc_curinfo_body, enc_curinfo_payload. rewrite <- !app_assoc.
  rewrite (Z.mod_small (curinfo_total wide c)) by lia. rewrite (Z.mod_small (ci_cmd c)) by lia.
  rewrite (bind_ok _ _ _ _ _ (u16_enc _ _ (conj Hnn Ht))).
  rewrite (bind_ok _ _ _ _ _ (cur_head_counted _ _ _ Hh)).
  rewrite (bind_ok _ _ _ _ _ (u8_enc _ _ Hc)).
  cbn [fst snd]. unfold curinfo_total.
  destruct wide.
  - rewrite (Z.mod_small (ci_status c)) by lia. rewrite <- !app_assoc.
    rewrite (bind_ok _ _ _ _ _ (u32_enc _ _ Hst)).
    match goal with |- bind ?p _ _ = _ =>
      assert (Hin : forall r', p (bytes_of_le 4 (ci_rownum c mod 4294967296) ++ bytes_of_le 4 (ci_totalrows c mod 4294967296) ++ r')
                    = POk (ci_rownum c, ci_totalrows c) r')
    end.
    { intros r'. rewrite (bind_ok _ _ _ _ _ (i32_enc _ _ Hrn)). rewrite (bind_ok _ _ _ _ _ (i32_enc _ _ Htr)). reflexivity. }
    rewrite (bind_ok _ _ _ _ _ (Hin _)). cbn [fst snd].
    rewrite (curinfo_rowcnt_part c r _ _
               (fun rc => {| ci_id := ci_id c; ci_name := ci_name c; ci_cmd := ci_cmd c; ci_status := ci_status c;
                             ci_rownum := ci_rownum c; ci_totalrows := ci_totalrows c; ci_rowcount := rc |}) Hrc Hz) by lia.
    destruct c; reflexivity.
  - rewrite (Z.mod_small (ci_status c)) by lia.
    rewrite (bind_ok _ _ _ _ _ (u16_enc _ _ Hst)).
    cbn [app]. unfold bind at 1, ret at 1. cbn [fst snd].
    destruct (Hn eq_refl) as [E1 E2].
    rewrite (curinfo_rowcnt_part c r _ _
               (fun rc => {| ci_id := ci_id c; ci_name := ci_name c; ci_cmd := ci_cmd c; ci_status := ci_status c;
                             ci_rownum := 0; ci_totalrows := 0; ci_rowcount := rc |}) Hrc Hz) by lia.
    rewrite <- E1 at 1. rewrite <- E2 at 1. destruct c; reflexivity.
Qed.

Definition curinfo_tree (c : curinfo) : tree :=
  TL [TI (ci_id c); TB (ci_name c); TI (ci_cmd c); TI (ci_status c);
      TI (ci_rownum c); TI (ci_totalrows c); TI (ci_rowcount c)].
Definition curinfo_of_tree (t : tree) : curinfo :=
  {| ci_id := t_int (t_nth 0 t); ci_name := t_bytes (t_nth 1 t); ci_cmd := t_int (t_nth 2 t);
     ci_status := t_int (t_nth 3 t); ci_rownum := t_int (t_nth 4 t); ci_totalrows := t_int (t_nth 5 t);
     ci_rowcount := t_int (t_nth 6 t) |}.

Lemma curinfo_of_tree_tree c : curinfo_of_tree (curinfo_tree c) = c.
Proof. destruct c; reflexivity. Qed.
