(* TDS_EED (tds/packageEED.go) and TDS_ENVCHANGE (tds/packageEnvChange.go).  No proofs here. *)
From Coq Require Import ZArith List Bool.
Import ListNotations.
From V Require Import Base.Tree Base.Bytes Base.Parser Base.ParserFacts.
Open Scope Z_scope.

Definition tok_eed : Z := 229.  Definition tok_envchange : Z := 227.

Record eed := { e_msgnr : Z; e_state : Z; e_class : Z; e_sqlstate : bytes; e_status : Z; e_tran : Z;
                e_msg : bytes; e_server : bytes; e_proc : bytes; e_line : Z }.

(* strings.TrimSuffix(msg, "\n") *)
Definition trim_nl (m : bytes) : bytes :=
  match rev m with 10 :: r => rev r | _ => m end.

Definition dec_eed : parser eed :=
  let* length := u16 in
  let* nr := u32 in let* st := u8 in let* cl := u8 in
  let* sl := u8 in let* sq := take sl in
  let* status := u8 in let* tr := u16 in
  let* ml := u16 in let* msg := take ml in
  let* svl := u8 in let* sv := take svl in
  let* pl := u8 in let* pr := take pl in
  let* line := u16 in
  let n := 4 + 1 + 1 + 1 + sl + 1 + 2 + 2 + ml + 1 + svl + 1 + pl + 2 in
  if n =? length
  then ret {| e_msgnr := nr; e_state := st; e_class := cl; e_sqlstate := sq; e_status := status; e_tran := tr;
              e_msg := trim_nl msg; e_server := sv; e_proc := pr; e_line := line |}
  else fail 50.

Definition enc_eed (e : eed) : bytes :=
  let length := 16 + zlen (e_sqlstate e) + zlen (e_msg e) + zlen (e_server e) + zlen (e_proc e) in
  tok_eed :: bytes_of_le 2 (length mod 65536) ++ bytes_of_le 4 (e_msgnr e mod 4294967296) ++
  bytes_of_le 1 (e_state e mod 256) ++ bytes_of_le 1 (e_class e mod 256) ++
  lp8 (e_sqlstate e) ++ bytes_of_le 1 (e_status e mod 256) ++ bytes_of_le 2 (e_tran e mod 65536) ++
  lp16 (e_msg e) ++ lp8 (e_server e) ++ lp8 (e_proc e) ++ bytes_of_le 2 (e_line e mod 65536).

Definition eed_tree (e : eed) : tree :=
  TL [TI (e_msgnr e); TI (e_state e); TI (e_class e); TB (e_sqlstate e); TI (e_status e); TI (e_tran e);
      TB (e_msg e); TB (e_server e); TB (e_proc e); TI (e_line e)].
Definition eed_of_tree (t : tree) : eed :=
  {| e_msgnr := t_int (t_nth 0 t); e_state := t_int (t_nth 1 t); e_class := t_int (t_nth 2 t); e_sqlstate := t_bytes (t_nth 3 t);
     e_status := t_int (t_nth 4 t); e_tran := t_int (t_nth 5 t); e_msg := t_bytes (t_nth 6 t); e_server := t_bytes (t_nth 7 t);
     e_proc := t_bytes (t_nth 8 t); e_line := t_int (t_nth 9 t) |}.

(* ---------------- ENVCHANGE: members until the declared length is used up *)
Record envmember := { m_type : Z; m_new : bytes; m_old : bytes }.

Definition dec_envmember : parser (envmember * Z) :=
  let* ty := u8 in
  let* l1 := u8 in let* nv := (if 0 <? l1 then take l1 else ret []) in
  let* l2 := u8 in let* ov := (if 0 <? l2 then take l2 else ret []) in
  ret ({| m_type := ty; m_new := nv; m_old := ov |}, 3 + l1 + l2).

(* for n < length { member; n += uint16(i) }: n is a uint16, so it wraps at 65536 *)
Fixpoint env_loop (fuel : nat) (length n : Z) (acc : list envmember) : parser (list envmember) :=
  match fuel with
  | O => fail 98
  | S k =>
    if n <? length then
      let* mn := dec_envmember in
      env_loop k length ((n + snd mn) mod 65536) (acc ++ [fst mn])
    else if length <? n then fail 51 else ret acc
  end.

(* every member advances the counter by at least 3, so length/3 + 2 iterations suffice unless the uint16 counter
   wraps (which needs a member ending beyond 65535 declared bytes); fuel exhaustion is the error 98 *)
Definition dec_envchange : parser (list envmember) :=
  let* length := u16 in env_loop (Z.to_nat (length / 3 + 2)) length 0 [].

Definition enc_envmember (m : envmember) : bytes :=
  bytes_of_le 1 (m_type m mod 256) ++ lp8 (m_new m) ++ lp8 (m_old m).
Definition enc_envchange (ms : list envmember) : bytes :=
  let total := zsum (map (fun m => 3 + zlen (m_new m) + zlen (m_old m)) ms) in
  tok_envchange :: bytes_of_le 2 (total mod 65536) ++ concat (map enc_envmember ms).

Definition envmember_tree (m : envmember) : tree := TL [TI (m_type m); TB (m_new m); TB (m_old m)].
Definition envmember_of_tree (t : tree) : envmember :=
  {| m_type := t_int (t_nth 0 t); m_new := t_bytes (t_nth 1 t); m_old := t_bytes (t_nth 2 t) |}.
