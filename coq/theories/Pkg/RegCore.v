(* Registry entries of the core packages. *)
From Coq Require Import ZArith List Bool.
Import ListNotations.
From V Require Import Base.Tree Base.Bytes Base.Parser Base.ParserFacts Pkg.Iface Pkg.Field Pkg.Fmts Pkg.Done Pkg.Eed.
Open Scope Z_scope.

(* context tree of TDS_PARAMS / TDS_ROW: () = no preceding format, (1 (fmt ...)) = formats *)
Definition ctx_fmts (ctx : tree) : option (list ffmt) :=
  match ctx with
  | TL [TI _; TL fs] => Some (map ffmt_of_tree fs)
  | _ => None
  end.

Definition k_done (tok : Z) : kind :=
  {| k_tok := tok; k_dec := fun _ => pmap done_tree dec_done; k_enc := fun t => Some (enc_done (done_of_tree t)) |}.
Definition k_eed : kind :=
  {| k_tok := tok_eed; k_dec := fun _ => pmap eed_tree dec_eed; k_enc := fun t => Some (enc_eed (eed_of_tree t)) |}.
Definition k_envchange : kind :=
  {| k_tok := tok_envchange; k_dec := fun _ => pmap (fun ms => TL (map envmember_tree ms)) dec_envchange;
     k_enc := fun t => Some (enc_envchange (map envmember_of_tree (t_list t))) |}.
Definition k_paramfmt (wide : bool) : kind :=
  {| k_tok := if wide then tok_paramfmt2 else tok_paramfmt;
     k_dec := fun _ => pmap (fun fs => TL (map ffmt_tree fs)) (dec_paramfmt wide);
     k_enc := fun t => enc_paramfmt wide (map ffmt_of_tree (t_list t)) |}.
Definition k_rowfmt (wide : bool) : kind :=
  {| k_tok := if wide then tok_rowfmt2 else tok_rowfmt;
     k_dec := fun _ => pmap (fun fs => TL (map ffmt_tree fs)) (dec_rowfmt wide);
     k_enc := fun _ => None |}.                         (* WriteTo: not implemented *)
(* enc input for params/row: ((fmt ...) (data ...)) *)
Definition k_params (tok : Z) : kind :=
  {| k_tok := tok;
     k_dec := fun ctx => pmap (fun vs => TL (map fdata_tree vs)) (dec_params (ctx_fmts ctx));
     k_enc := fun t => Some (enc_params tok (map ffmt_of_tree (t_list (t_nth 0 t))) (map fdata_of_tree (t_list (t_nth 1 t)))) |}.

Definition kinds_core : list kind :=
  [k_done 253; k_done 254; k_done 255; k_eed; k_envchange;
   k_paramfmt false; k_paramfmt true; k_rowfmt false; k_rowfmt true; k_params tok_params; k_params tok_row].
