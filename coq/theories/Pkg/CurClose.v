(* TDS_CURCLOSE 0x80 (tds/packageCurClose.go; NOT reachable from LookupPackage):
   token | length u16 | cursor id i32 | [name length u8 | name]  (iff id = 0) | options u8 *)
From Coq Require Import ZArith List Bool Lia.
Import ListNotations.
From V Require Import Base.Tree Base.Bytes Base.BytesFacts Base.Parser Base.ParserFacts Pkg.CurCommon.
Open Scope Z_scope.

Record curclose := { cc_id : Z; cc_name : bytes; cc_options : Z }.

Definition dec_curclose : parser curclose :=
  let* total := u16 in
  let* hn := counted p_cur_head in
  let* st := u8 in
  check_total (snd hn + 1) total {| cc_id := fst (fst hn); cc_name := snd (fst hn); cc_options := st |}.

Definition tok_curclose : Z := 128.
(* totalLength := 4 + 1; if CursorID == 0 { totalLength += 1 + len(Name) } *)
Definition curclose_total (c : curclose) : Z := cur_head_total (cc_id c) (cc_name c) + 1.
Definition enc_curclose_payload (c : curclose) : bytes :=
  enc_cur_head (cc_id c) (cc_name c) ++ bytes_of_le 1 (cc_options c mod 256).
Definition enc_curclose_body (c : curclose) : bytes :=
  bytes_of_le 2 (curclose_total c mod 65536) ++ enc_curclose_payload c.
Definition enc_curclose (c : curclose) : option bytes := Some (tok_curclose :: enc_curclose_body c).

Definition wf_curclose (c : curclose) : Prop :=
  wf_cur_head (cc_id c) (cc_name c) /\ 0 <= cc_options c < 256 /\ curclose_total c < 65536.

Lemma dec_curclose_streamable : streamable dec_curclose.
Proof. unfold dec_curclose. streamable_tac; try apply p_cur_head_streamable; apply check_total_streamable. Qed.

Lemma enc_curclose_len c : zlen (enc_curclose_payload c) = curclose_total c.
Proof. unfold enc_curclose_payload, curclose_total. rewrite zlen_app, zlen_enc_cur_head, zlen_bytes_of_le. lia. Qed.

Lemma curclose_total_nonneg c : 0 <= curclose_total c.
Proof. rewrite <- enc_curclose_len. apply zlen_nonneg. Qed.

Lemma curclose_roundtrip c r : wf_curclose c -> dec_curclose (enc_curclose_body c ++ r) = POk c r.
Proof.
  intros [Hh [Hs Ht]]. pose proof (curclose_total_nonneg c) as Hnn.
  unfold dec_curclose, enc_curclose_body, enc_curclose_payload. rewrite <- !app_assoc.
  rewrite !Z.mod_small by lia.
  rewrite (bind_ok _ _ _ _ _ (u16_enc _ _ (conj Hnn Ht))).
  rewrite (bind_ok _ _ _ _ _ (cur_head_counted _ _ _ Hh)).
  rewrite (bind_ok _ _ _ _ _ (u8_enc _ _ Hs)).
  cbn [fst snd]. unfold curclose_total. rewrite check_total_ok. destruct c; reflexivity.
Qed.

Definition curclose_tree (c : curclose) : tree := TL [TI (cc_id c); TB (cc_name c); TI (cc_options c)].
Definition curclose_of_tree (t : tree) : curclose :=
  {| cc_id := t_int (t_nth 0 t); cc_name := t_bytes (t_nth 1 t); cc_options := t_int (t_nth 2 t) |}.

Lemma curclose_of_tree_tree c : curclose_of_tree (curclose_tree c) = c.
Proof. destruct c; reflexivity. Qed.
