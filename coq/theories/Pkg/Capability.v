(* TDS_CAPABILITY (tds/packageCapability.go), token 0xE2, and the value mask.
   A value mask is a []bool indexed by capability number.
     parseValueMask bs : len(bs)*8 + 1 booleans; walking bs from its LAST byte to its first, bits 0..7 of each;
                         the final (extra) boolean is false.
     Bytes()           : ceil(n/8) bytes for n booleans; capability k is bit (k mod 8) of byte (len-1 - k/8).
   The package holds a map type -> mask.  LookupPackage builds it with NewCapabilityPackage(nil,nil,nil): types
   1 (request, 107 booleans), 2 (response, 74 booleans), 3 (security, 1 boolean), all false.  The map is
   unordered in Go; here it is an association list kept sorted by type (the harness renders it sorted).
   ReadFrom: uint16 total; while length < total { type, len, mask bytes; length += 2+len; map[type] = parse };
             afterwards  length > total  is a plain error.
   WriteTo : masks with isEmpty (one boolean only, or no true boolean) are skipped; total = sum of 2+len(Bytes())
             written as uint16; per type: type byte, uint8(len(Bytes())), the bytes (in the order of the map
             iteration - unspecified in Go; the model writes ascending types). *)
From Coq Require Import ZArith List Bool Lia.
Import ListNotations.
From V Require Import Base.Tree Base.Bytes Base.BytesFacts Base.Parser Base.ParserFacts.
Open Scope Z_scope.

Definition mask := list bool.
Definition capmap := list (Z * mask).
Record capability := { cp_caps : capmap }.

(* ---------------------------------------------------------------- value mask *)
Definition bits8 (b : Z) : list bool := map (Z.testbit b) [0; 1; 2; 3; 4; 5; 6; 7].
Definition parse_mask (bs : bytes) : mask := flat_map bits8 (rev bs) ++ [false].

Definition b2z (b : bool) : Z := if b then 1 else 0.
(* up to 8 booleans, least significant bit first *)
Fixpoint pack8 (l : list bool) : Z :=
  match l with [] => 0 | b :: r => b2z b + 2 * pack8 r end.
(* groups of 8 booleans (the last group may be shorter), first group first *)
Fixpoint chunks8 (fuel : nat) (l : list bool) : list Z :=
  match fuel with
  | O => []
  | S f => match l with [] => [] | _ => pack8 (firstn 8 l) :: chunks8 f (skipn 8 l) end
  end.
Definition mask_bytes (m : mask) : bytes := rev (chunks8 (length m) m).

Definition get_cap (k : Z) (m : mask) : bool := if k <? 0 then false else nth (Z.to_nat k) m false.
Definition mask_is_empty (m : mask) : bool := (length m =? 1)%nat || negb (existsb (fun b => b) m).

(* ---------------------------------------------------------------- the map *)
Fixpoint cap_set (t : Z) (m : mask) (cm : capmap) : capmap :=
  match cm with
  | [] => [(t, m)]
  | (t', m') :: r => if t <? t' then (t, m) :: cm else if t =? t' then (t, m) :: r else (t', m') :: cap_set t m r
  end.
Definition n_request : nat := 107.
Definition n_response : nat := 74.
Definition n_security : nat := 1.
Definition cap_init : capmap := [(1, repeat false n_request); (2, repeat false n_response); (3, repeat false n_security)].

(* ---------------------------------------------------------------- ReadFrom *)
Fixpoint cap_loop (fuel : nat) (total len : Z) (cm : capmap) : parser capmap :=
  match fuel with
  | O => fail 99
  | S f =>
      if len <? total then
        let* t := u8 in
        let* cl := u8 in
        let* bs := take cl in
        cap_loop f total (len + 1 + 1 + cl) (cap_set t (parse_mask bs) cm)
      else if total <? len then fail 2
      else ret cm
  end.

(* every iteration adds at least 2 to len, so total/2 + 2 iterations always suffice *)
Definition cap_fuel (total : Z) : nat := Z.to_nat (Z.max total 0 / 2 + 2).

Definition dec_capability : parser capability :=
  let* total := u16 in
  let* cm := cap_loop (cap_fuel total) total 0 cap_init in
  ret {| cp_caps := cm |}.

(* ---------------------------------------------------------------- WriteTo *)
Definition tok_capability : Z := 226.
Definition cap_block (e : Z * mask) : bytes :=
  if mask_is_empty (snd e) then []
  else bytes_of_le 1 (fst e mod 256) ++ bytes_of_le 1 (zlen (mask_bytes (snd e)) mod 256) ++ mask_bytes (snd e).
Definition cap_block_len (e : Z * mask) : Z :=
  if mask_is_empty (snd e) then 0 else 2 + zlen (mask_bytes (snd e)).
Definition cap_bytes_to_write (cm : capmap) : Z := zsum (map cap_block_len cm).
Definition enc_capability_body (c : capability) : bytes :=
  bytes_of_le 2 (cap_bytes_to_write (cp_caps c) mod 65536) ++ concat (map cap_block (cp_caps c)).
Definition enc_capability (c : capability) : option bytes := Some (tok_capability :: enc_capability_body c).

(* ---------------------------------------------------------------- trees: ((type #booleans) ...) ascending *)
Definition mask_tree (m : mask) : tree := TB (map b2z m).
Definition mask_of_tree (t : tree) : mask := map (fun z => negb (z =? 0)) (t_bytes t).
Definition capability_tree (c : capability) : tree :=
  TL [TL (map (fun e => TL [TI (fst e); mask_tree (snd e)]) (cp_caps c))].
Definition capability_of_tree (t : tree) : capability :=
  {| cp_caps := map (fun e => (t_int (t_nth 0 e), mask_of_tree (t_nth 1 e))) (t_list (t_nth 0 t)) |}.

(* ---------------------------------------------------------------- streamable *)
Lemma cap_loop_streamable fuel : forall total len cm, streamable (cap_loop fuel total len cm).
Proof.
  induction fuel as [|f IH]; intros total len cm; cbn [cap_loop].
  - apply streamable_fail.
  - destruct (len <? total).
    + apply streamable_bind; [apply streamable_u8|]. intros t.
      apply streamable_bind; [apply streamable_u8|]. intros cl.
      apply streamable_bind; [apply streamable_take|]. intros bs. apply IH.
    + destruct (total <? len); [apply streamable_fail|apply streamable_ret].
Qed.

Lemma dec_capability_streamable : streamable dec_capability.
Proof.
  unfold dec_capability. apply streamable_bind; [apply streamable_u16|]. intros total.
  apply streamable_bind; [apply cap_loop_streamable|]. intros cm. apply streamable_ret.
Qed.
