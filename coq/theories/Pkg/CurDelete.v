(* TDS_CURDELETE 0x81 (tds/packageCurDelete.go):
   token | length u16 | cursor id i32 | [name length u8 | name]  (iff id = 0) | status u8 | table name length u8 | table name *)
From Coq Require Import ZArith List Bool Lia.
Import ListNotations.
From V Require Import Base.Tree Base.Bytes Base.BytesFacts Base.Parser Base.ParserFacts Pkg.CurCommon.
Open Scope Z_scope.

Record curdelete := { cx_id : Z; cx_name : bytes; cx_status : Z; cx_table : bytes }.

Definition dec_curdelete : parser curdelete :=
  let* total := u16 in
  let* hn := counted p_cur_head in
  let* st := u8 in
  let* tl := u8 in
  let* tn := take tl in
  check_total (snd hn + 1 + 1 + tl) total
    {| cx_id := fst (fst hn); cx_name := snd (fst hn); cx_status := st; cx_table := tn |}.

Definition tok_curdelete : Z := 129.
(* totalLength := 4 + 1 + 1 + len(TableName); if CursorID == 0 { totalLength += 1 + len(Name) } *)
Definition curdelete_total (c : curdelete) : Z := cur_head_total (cx_id c) (cx_name c) + 1 + 1 + zlen (cx_table c).
Definition enc_curdelete_payload (c : curdelete) : bytes :=
  enc_cur_head (cx_id c) (cx_name c) ++ bytes_of_le 1 (cx_status c mod 256) ++ lp8 (cx_table c).
Definition enc_curdelete_body (c : curdelete) : bytes :=
  bytes_of_le 2 (curdelete_total c mod 65536) ++ enc_curdelete_payload c.
Definition enc_curdelete (c : curdelete) : option bytes := Some (tok_curdelete :: enc_curdelete_body c).

Definition wf_curdelete (c : curdelete) : Prop :=
  wf_cur_head (cx_id c) (cx_name c) /\ 0 <= cx_status c < 256 /\ zlen (cx_table c) < 256 /\ curdelete_total c < 65536.

Lemma dec_curdelete_streamable : streamable dec_curdelete.
Proof. unfold dec_curdelete. streamable_tac; try apply p_cur_head_streamable; apply check_total_streamable. Qed.

Lemma enc_curdelete_len c : zlen (enc_curdelete_payload c) = curdelete_total c.
Proof.
  unfold enc_curdelete_payload, curdelete_total.
  rewrite !zlen_app, zlen_enc_cur_head, zlen_bytes_of_le, zlen_lp8. lia.
Qed.

Lemma curdelete_total_nonneg c : 0 <= curdelete_total c.
Proof. rewrite <- enc_curdelete_len. apply zlen_nonneg. Qed.

Lemma curdelete_roundtrip c r : wf_curdelete c -> dec_curdelete (enc_curdelete_body c ++ r) = POk c r.
Proof.
  intros [Hh [Hs [Htl Ht]]]. pose proof (curdelete_total_nonneg c) as Hnn. pose proof (zlen_nonneg (cx_table c)) as Hl.
  unfold dec_curdelete, enc_curdelete_body, enc_curdelete_payload, lp8. rewrite <- !app_assoc.
  rewrite !Z.mod_small by lia.
  rewrite (bind_ok _ _ _ _ _ (u16_enc _ _ (conj Hnn Ht))).
  rewrite (bind_ok _ _ _ _ _ (cur_head_counted _ _ _ Hh)).
  rewrite (bind_ok _ _ _ _ _ (u8_enc _ _ Hs)).
  rewrite (bind_ok _ _ _ _ _ (u8_enc _ _ (conj Hl Htl))).
  rewrite (bind_ok _ _ _ _ _ (take_app _ _)).
  cbn [fst snd]. unfold curdelete_total. rewrite check_total_ok. destruct c; reflexivity.
Qed.

Definition curdelete_tree (c : curdelete) : tree :=
  TL [TI (cx_id c); TB (cx_name c); TI (cx_status c); TB (cx_table c)].
Definition curdelete_of_tree (t : tree) : curdelete :=
  {| cx_id := t_int (t_nth 0 t); cx_name := t_bytes (t_nth 1 t); cx_status := t_int (t_nth 2 t);
     cx_table := t_bytes (t_nth 3 t) |}.

Lemma curdelete_of_tree_tree c : curdelete_of_tree (curdelete_tree c) = c.
Proof. destruct c; reflexivity. Qed.
