(* Scratch dispatch for validating the B1 models against the implementation before the coordinator's
   registry glue exists (fn as documented in harness/pk/pk.go). *)
From Coq Require Import ZArith List Bool.
Import ListNotations.
From V Require Import Base.Tree Base.Bytes Base.Parser Pkg.Iface Pkg.RegB1.
Open Scope Z_scope.

Definition cls {A} (r : pres A) : Z := match r with POk _ _ => 0 | PNeb => 1 | PErr _ => 2 | PPanic => -1 end.

Fixpoint prefixes_cls (p : parser tree) (done todo : bytes) : list tree :=
  match todo with
  | [] => []
  | b :: r => TI (cls (p done)) :: prefixes_cls p (done ++ [b]) r
  end.

Definition run (fn : Z) (i : tree) : tree :=
  match find_kind (t_int (t_nth 0 i)) kinds_b1 with
  | None => tbad
  | Some k =>
      match fn with
      | 1 => match k_enc k (t_nth 1 i) with
             | Some bs => TL [TI 0; TB bs; TI 1]
             | None => TL [TI 2]
             end
      | 2 => let body := t_bytes (t_nth 1 i) in
             match k_dec k (t_nth 2 i) body with
             | POk t r => TL [TI 0; TI (zlen body - zlen r); t]
             | PNeb => TL [TI 1; TI 0; TL []]
             | PErr _ => TL [TI 2; TI 0; TL []]
             | PPanic => TL [TI (-1); TI 0; TL []]
             end
      | 3 => TL (prefixes_cls (k_dec k (t_nth 2 i)) [] (t_bytes (t_nth 1 i)))
      | 4 => TL [TI (cls (k_dec k (t_nth 2 i) (t_bytes (t_nth 1 i))))]
      | _ => tbad
      end
  end.

(* fn 2: the decoded fields are the expected ones; everything else is model equality only *)
Definition spec (fn : Z) (i o : tree) : bool :=
  match fn with
  | 2 => if t_int (t_nth 0 o) =? 0 then tree_eqb (t_nth 2 o) (t_nth 3 i) else true
  | _ => true
  end.
