(* Scratch dispatch for validating the B1 models against the implementation before the coordinator's
   registry glue exists (fn as documented in harness/pk/pk.go). *)
From Coq Require Import ZArith List Bool.
Import ListNotations.
From V Require Import Base.Tree Base.Bytes Base.Parser Pkg.Iface Pkg.RegB1.
Open Scope Z_scope.

Definition cls {A} (r : pres A) : Z := match r with POk _ _ => 0 | PNeb => 1 | PErr _ => 2 | PPanic => -1 end.

Fixpoint prefixes_cls (p : parser tree) (done todo : bytes) : list tree :=
  match todo with
  | [] => []
  | b :: r => TI (cls (p done)) :: prefixes_cls p (done ++ [b]) r
  end.

Definition run (fn : Z) (i : tree) : tree :=
  match find_kind (t_int (t_nth 0 i)) kinds_b1 with
  | None => tbad
  | Some k =>
      match fn with
      | 1 => match k_enc k (t_nth 1 i) with
             | Some bs => TL [TI 0; TB bs; TI 1]
             | None => TL [TI 2]
             end
      | 2 => let body := t_bytes (t_nth 1 i) in
             match k_dec k (t_nth 2 i) body with
             | POk t r => TL [TI 0; TI (zlen body - zlen r); t]
             | PNeb => TL [TI 1; TI 0; TL []]
             | PErr _ => TL [TI 2; TI 0; TL []]
             | PPanic => TL [TI (-1); TI 0; TL []]
             end
      | 3 => TL (prefixes_cls (k_dec k (t_nth 2 i)) [] (t_bytes (t_nth 1 i)))
      | 4 => TL [TI (cls (k_dec k (t_nth 2 i) (t_bytes (t_nth 1 i))))]
      | _ => tbad
      end
  end.

(* same predicates as the coordinator's Pkg/All.v, except fn 1: a writer that returns an error ("(2)": oversized
   login fields, writeString beyond its slot, ORDERBY which has no writer) is accepted here - the model has to
   agree on it (model equality is checked on every line anyway) *)
Definition spec (fn : Z) (i o : tree) : bool :=
  match fn with
  | 1 => match o with TL [TI 0; TB _; TI ok] => ok =? 1 | TL [TI 2] => true | _ => false end
  | 2 => tree_eqb o (TL [TI 0; TI (zlen (t_bytes (t_nth 1 i))); t_nth 3 i])
  | 3 => match find_kind (t_int (t_nth 0 i)) kinds_b1 with
         | None => false
         | Some k =>
             let model_valid := match k_dec k (t_nth 2 i) (t_bytes (t_nth 1 i)) with POk _ [] => true | _ => false end in
             if model_valid then forallb (fun c => tree_eqb c (TI 1)) (t_list o) else true
         end
  | 4 => match o with TL [TI c] => negb (c =? -1) | _ => false end
  | _ => false
  end.
