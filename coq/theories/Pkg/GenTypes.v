(* types used by the generated tables (Gen/GenPkg.v) and generic table lookup *)
From Coq Require Import ZArith List Bool.
Import ListNotations.
Open Scope Z_scope.

Inductive vspec := VAll | VEven | VList (l : list Z).

Fixpoint zassoc {A} (k : Z) (tab : list (Z * A)) (d : A) : A :=
  match tab with
  | [] => d
  | (k', v) :: r => if Z.eqb k k' then v else zassoc k r d
  end.

Definition vspec_ok (v : vspec) (n : Z) : bool :=
  match v with
  | VAll => true
  | VEven => Z.even n
  | VList l => existsb (Z.eqb n) l
  end.
