(* TDS_DYNAMIC 0xE7 / TDS_DYNAMIC2 0x62 (tds/packageDynamic.go), wide = DYNAMIC2:
   token | length u16 (u32) | type u8 | status u8 | id length u8 | id
         | [statement length u16 (u32) | statement]   iff type has PREPARE 0x01 or EXEC_IMMED 0x08 *)
From Coq Require Import ZArith List Bool Lia.
Import ListNotations.
From V Require Import Base.Tree Base.Bytes Base.BytesFacts Base.Parser Base.ParserFacts Pkg.CurCommon Pkg.WideCommon.
Open Scope Z_scope.

Record dynamic := { dy_type : Z; dy_status : Z; dy_id : bytes; dy_stmt : bytes }.

(* pkg.Type&TDS_DYN_PREPARE == TDS_DYN_PREPARE || pkg.Type&TDS_DYN_EXEC_IMMED == TDS_DYN_EXEC_IMMED *)
Definition dyn_has_stmt (ty : Z) : bool := (Z.land ty 1 =? 1) || (Z.land ty 8 =? 8).

Definition dec_dynamic (wide : bool) : parser dynamic :=
  let* total := p_len wide in
  let* ty := u8 in
  let* st := u8 in
  let* il := u8 in
  let* id := take il in
  let* sn := (if dyn_has_stmt ty
              then (let* sl := p_len wide in let* s := take sl in ret (s, len_width wide + sl))
              else ret ([], 0)) in
  check_total (1 + 1 + 1 + il + snd sn) total
    {| dy_type := ty; dy_status := st; dy_id := id; dy_stmt := fst sn |}.

Definition tok_dynamic (wide : bool) : Z := if wide then 98 else 231.
(* totalLength := 3 + len(ID); with statement: += 2 + len(Stmt), and += 2 more when wide *)
Definition dynamic_total (wide : bool) (d : dynamic) : Z :=
  3 + zlen (dy_id d)
  + (if dyn_has_stmt (dy_type d) then 2 + zlen (dy_stmt d) + (if wide then 2 else 0) else 0).
(* maxLength := math.MaxInt16 / math.MaxInt32 *)
Definition dynamic_max (wide : bool) : Z := if wide then 2147483647 else 32767.
Definition enc_dynamic_payload (wide : bool) (d : dynamic) : bytes :=
  bytes_of_le 1 (dy_type d mod 256) ++ bytes_of_le 1 (dy_status d mod 256) ++ lp8 (dy_id d)
  ++ (if dyn_has_stmt (dy_type d) then lpw wide (dy_stmt d) else []).
Definition enc_dynamic_body (wide : bool) (d : dynamic) : bytes :=
  enc_len wide (dynamic_total wide d) ++ enc_dynamic_payload wide d.
(* Type == TDS_DYN_INVALID: error before anything is written; totalLength >= maxLength: error after the token byte.
   The closing  n != totalLength  of the writer compares two identical sums and never fires. *)
Definition enc_dynamic (wide : bool) (d : dynamic) : option bytes :=
  if dy_type d =? 0 then None
  else if dynamic_max wide <=? dynamic_total wide d then None
  else Some (tok_dynamic wide :: enc_dynamic_body wide d).

Definition wf_dynamic (wide : bool) (d : dynamic) : Prop :=
  0 <= dy_type d < 256 /\ 0 <= dy_status d < 256 /\ zlen (dy_id d) < 256 /\
  (dyn_has_stmt (dy_type d) = false -> dy_stmt d = []) /\
  dynamic_total wide d < len_bound wide.

Lemma dec_dynamic_streamable wide : streamable (dec_dynamic wide).
Proof. unfold dec_dynamic. streamable_tac; try apply p_len_streamable; apply check_total_streamable. Qed.

Lemma enc_dynamic_len wide d : zlen (enc_dynamic_payload wide d) = dynamic_total wide d.
Proof.
  unfold enc_dynamic_payload, dynamic_total.
  rewrite !zlen_app, !zlen_bytes_of_le, zlen_lp8.
  destruct (dyn_has_stmt (dy_type d)); [rewrite zlen_lpw; unfold len_width; destruct wide|rewrite (@zlen_nil Z)];
    cbn [Z.of_nat Pos.of_succ_nat Pos.succ]; lia.
Qed.

Lemma dynamic_total_nonneg wide d : 0 <= dynamic_total wide d.
Proof. rewrite <- enc_dynamic_len. apply zlen_nonneg. Qed.

Lemma dynamic_roundtrip wide d r : wf_dynamic wide d -> dec_dynamic wide (enc_dynamic_body wide d ++ r) = POk d r.
Proof.
  intros [Hty [Hst [Hil [Hz Ht]]]]. pose proof (dynamic_total_nonneg wide d) as Hnn.
  pose proof (zlen_nonneg (dy_id d)) as Hl. pose proof (zlen_nonneg (dy_stmt d)) as Hsl.
  unfold dec_dynamic, enc_dynamic_body, enc_dynamic_payload, lp8. rewrite <- !app_assoc.
  rewrite (Z.mod_small (dy_type d)) by lia. rewrite (Z.mod_small (dy_status d)) by lia.
  rewrite (Z.mod_small (zlen (dy_id d))) by lia.
  rewrite (bind_ok _ _ _ _ _ (p_len_enc wide _ _ (conj Hnn Ht))).
  rewrite (bind_ok _ _ _ _ _ (u8_enc _ _ Hty)).
  rewrite (bind_ok _ _ _ _ _ (u8_enc _ _ Hst)).
  rewrite (bind_ok _ _ _ _ _ (u8_enc _ _ (conj Hl Hil))).
  rewrite (bind_ok _ _ _ _ _ (take_app _ _)).
  unfold dynamic_total in *.
  destruct (dyn_has_stmt (dy_type d)) eqn:E.
  - assert (Hsb : zlen (dy_stmt d) < len_bound wide) by (destruct wide; lia).
    match goal with |- bind ?p _ _ = _ =>
      assert (Hin : p (lpw wide (dy_stmt d) ++ r) = POk (dy_stmt d, len_width wide + zlen (dy_stmt d)) r)
    end.
    { unfold lpw. rewrite <- app_assoc.
      rewrite (bind_ok _ _ _ _ _ (p_len_enc wide _ _ (conj Hsl Hsb))).
      rewrite (bind_ok _ _ _ _ _ (take_app _ _)). reflexivity. }
    rewrite (bind_ok _ _ _ _ _ Hin). cbn [fst snd].
    match goal with |- check_total ?a ?b _ _ = _ => replace a with b by (unfold len_width; destruct wide; lia) end.
    rewrite check_total_ok. destruct d; reflexivity.
  - cbn [app]. unfold bind at 1, ret at 1. cbn [fst snd].
    match goal with |- check_total ?a ?b _ _ = _ => replace a with b by lia end.
    rewrite check_total_ok. rewrite <- (Hz eq_refl). destruct d; reflexivity.
Qed.

(* the form used by the registry: whatever the writer accepts is read back *)
Definition wf_dynamic_fields (d : dynamic) : Prop :=
  0 <= dy_type d < 256 /\ 0 <= dy_status d < 256 /\ zlen (dy_id d) < 256 /\
  (dyn_has_stmt (dy_type d) = false -> dy_stmt d = []).

Lemma dynamic_roundtrip_enc wide d bs r : wf_dynamic_fields d -> enc_dynamic wide d = Some bs ->
  bs = tok_dynamic wide :: enc_dynamic_body wide d /\ dec_dynamic wide (enc_dynamic_body wide d ++ r) = POk d r.
Proof.
  intros [Hty [Hst [Hil Hz]]] He. unfold enc_dynamic in He.
  destruct (dy_type d =? 0); [discriminate|].
  destruct (Z.leb_spec (dynamic_max wide) (dynamic_total wide d)) as [Hge|Hlt]; [discriminate|].
  inversion He; subst bs. split; [reflexivity|]. apply dynamic_roundtrip.
  repeat split; try assumption; try lia. unfold dynamic_max in Hlt. unfold len_bound. destruct wide; lia.
Qed.

Definition dynamic_tree (d : dynamic) : tree := TL [TI (dy_type d); TI (dy_status d); TB (dy_id d); TB (dy_stmt d)].
Definition dynamic_of_tree (t : tree) : dynamic :=
  {| dy_type := t_int (t_nth 0 t); dy_status := t_int (t_nth 1 t); dy_id := t_bytes (t_nth 2 t);
     dy_stmt := t_bytes (t_nth 3 t) |}.

Lemma dynamic_of_tree_tree d : dynamic_of_tree (dynamic_tree d) = d.
Proof. destruct d; reflexivity. Qed.
