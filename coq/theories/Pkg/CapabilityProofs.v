(* CAPABILITY: value mask laws (what round-trips and what does not), the length field, and the read-back of
   what WriteTo writes. *)
From Coq Require Import ZArith List Bool Lia.
Import ListNotations.
From V Require Import Base.Tree Base.Bytes Base.BytesFacts Base.Range Base.Parser Base.ParserFacts Pkg.Capability.
Open Scope Z_scope.

(* ---------------------------------------------------------------- one byte <-> 8 booleans *)
Lemma pack8_bits8 b : 0 <= b < 256 -> pack8 (bits8 b) = b.
Proof.
  intros H. assert (E : forallb (fun x => pack8 (bits8 x) =? x) (zrange 0 255) = true) by (vm_compute; reflexivity).
  apply Z.eqb_eq. apply (forallb_zrange _ 0 255 E). lia.
Qed.

Lemma bits8_pack8 l : (length l <= 8)%nat -> bits8 (pack8 l) = l ++ repeat false (8 - length l).
Proof.
  intros H.
  destruct l as [|b0 l]; [reflexivity|]. destruct l as [|b1 l]; [destruct b0; reflexivity|].
  destruct l as [|b2 l]; [destruct b0, b1; reflexivity|].
  destruct l as [|b3 l]; [destruct b0, b1, b2; reflexivity|].
  destruct l as [|b4 l]; [destruct b0, b1, b2, b3; reflexivity|].
  destruct l as [|b5 l]; [destruct b0, b1, b2, b3, b4; reflexivity|].
  destruct l as [|b6 l]; [destruct b0, b1, b2, b3, b4, b5; reflexivity|].
  destruct l as [|b7 l]; [destruct b0, b1, b2, b3, b4, b5, b6; reflexivity|].
  destruct l as [|b8 l]; [destruct b0, b1, b2, b3, b4, b5, b6, b7; reflexivity|].
  cbn [length] in H. lia.
Qed.

Lemma pack8_byte l : (length l <= 8)%nat -> 0 <= pack8 l < 256.
Proof.
  intros H.
  assert (G : forall (n : nat) (m : list bool), (length m <= n)%nat -> 0 <= pack8 m < 2 ^ Z.of_nat n).
  { induction n as [|n IH]; intros m Hm.
    - destruct m; [cbn; lia|cbn in Hm; lia].
    - destruct m as [|x m]; [cbn [pack8]; split; [lia|apply Z.pow_pos_nonneg; lia]|].
      cbn [pack8 length] in *. assert (Hm' : (length m <= n)%nat) by lia. specialize (IH m Hm').
      rewrite Nat2Z.inj_succ, Z.pow_succ_r by lia. destruct x; cbn [b2z]; lia. }
  apply (G 8%nat l H).
Qed.

Lemma chunks8_nil fuel : chunks8 fuel [] = [].
Proof. destruct fuel; reflexivity. Qed.

Lemma length_bits8 b : length (bits8 b) = 8%nat.
Proof. reflexivity. Qed.

(* ---------------------------------------------------------------- Bytes after parse: a leading zero byte appears *)
Lemma chunks8_flat_bits l : Forall (fun b => 0 <= b < 256) l -> forall fuel, (length l < fuel)%nat ->
  chunks8 fuel (flat_map bits8 l ++ [false]) = l ++ [0].
Proof.
  induction 1 as [|b l Hb Hl IH]; intros fuel Hf.
  - destruct fuel as [|f]; [lia|]. cbn. rewrite chunks8_nil. reflexivity.
  - destruct fuel as [|f]; [lia|]. cbn [flat_map]. rewrite <- app_assoc.
    assert (E1 : firstn 8 (bits8 b ++ flat_map bits8 l ++ [false]) = bits8 b) by reflexivity.
    assert (E2 : skipn 8 (bits8 b ++ flat_map bits8 l ++ [false]) = flat_map bits8 l ++ [false]) by reflexivity.
    cbn [chunks8]. remember (flat_map bits8 l ++ [false]) as Y eqn:EY.
    assert (Hne : bits8 b ++ Y = Z.testbit b 0 :: tl (bits8 b ++ Y)) by reflexivity.
    rewrite Hne at 1. rewrite E1, E2, (pack8_bits8 b Hb). subst Y. cbn [app]. f_equal. apply IH. cbn [length] in Hf. lia.
Qed.

Lemma length_flat_bits l : length (flat_map bits8 l) = (8 * length l)%nat.
Proof. induction l as [|b l IH]; [reflexivity|]. cbn [flat_map]. rewrite app_length, IH, length_bits8. cbn [length]. lia. Qed.

Lemma bytes_ok_Forall bs : bytes_ok bs = true -> Forall (fun b => 0 <= b < 256) bs.
Proof.
  unfold bytes_ok. rewrite forallb_forall. intros H. apply Forall_forall. intros x Hx. specialize (H x Hx).
  unfold byte_ok in H. apply andb_prop in H. destruct H as [H1 H2]. apply Z.leb_le in H1. apply Z.ltb_lt in H2. lia.
Qed.

Lemma length_parse_mask bs : length (parse_mask bs) = (8 * length bs + 1)%nat.
Proof. unfold parse_mask. rewrite app_length, length_flat_bits, rev_length. cbn [length]. lia. Qed.

(* parseValueMask then Bytes: NOT the identity - one extra leading zero byte (8n+1 booleans need n+1 bytes) *)
Theorem mask_bytes_parse_mask bs : bytes_ok bs = true -> mask_bytes (parse_mask bs) = 0 :: bs.
Proof.
  intros H. unfold mask_bytes. rewrite length_parse_mask. unfold parse_mask.
  rewrite chunks8_flat_bits.
  - rewrite rev_app_distr, rev_involutive. reflexivity.
  - apply Forall_rev. apply bytes_ok_Forall. exact H.
  - rewrite rev_length. lia.
Qed.

Corollary mask_bytes_parse_mask_not_id bs : bytes_ok bs = true -> mask_bytes (parse_mask bs) <> bs.
Proof.
  intros H E. rewrite (mask_bytes_parse_mask bs H) in E. apply (f_equal (@length Z)) in E. cbn [length] in E. lia.
Qed.

(* ---------------------------------------------------------------- parse after Bytes: padding with false *)
Lemma flat_bits_chunks8 fuel : forall m, (length m <= fuel)%nat ->
  exists k q, (k < 8)%nat /\ (length m + k = 8 * q)%nat /\ length (chunks8 fuel m) = q /\
              flat_map bits8 (chunks8 fuel m) = m ++ repeat false k.
Proof.
  induction fuel as [|f IH]; intros m Hm.
  - destruct m; [|cbn in Hm; lia]. exists 0%nat, 0%nat. cbn. repeat split; lia.
  - destruct m as [|x m'] eqn:Em.
    + exists 0%nat, 0%nat. cbn. repeat split; lia.
    + rewrite <- Em in *. assert (Hne : chunks8 (S f) m = pack8 (firstn 8 m) :: chunks8 f (skipn 8 m)) by (subst m; reflexivity).
      rewrite Hne. cbn [flat_map length].
      assert (Hl8 : (length (firstn 8 m) <= 8)%nat) by (rewrite firstn_length; lia).
      rewrite (bits8_pack8 _ Hl8).
      destruct (Nat.le_gt_cases 8 (length m)) as [Hge|Hlt].
      * assert (Hs : (length (skipn 8 m) <= f)%nat) by (rewrite skipn_length; lia).
        destruct (IH _ Hs) as [k [q [Hk [Hq [Hlen Hflat]]]]].
        exists k, (S q). rewrite skipn_length in Hq. rewrite Hflat, firstn_length, Hlen.
        replace (8 - Nat.min 8 (length m))%nat with 0%nat by lia. cbn [repeat]. rewrite app_nil_r, app_assoc, firstn_skipn.
        repeat split; lia.
      * assert (Hf : firstn 8 m = m) by (apply firstn_all2; lia).
        assert (Hs : skipn 8 m = []) by (apply skipn_all2; lia).
        rewrite Hf, Hs, chunks8_nil. cbn [flat_map length]. rewrite app_nil_r.
        assert (Hpos : (0 < length m)%nat) by (subst m; cbn; lia).
        exists (8 - length m)%nat, 1%nat. repeat split; lia.
Qed.

(* Bytes then parseValueMask: the mask comes back followed by 1..8 false booleans (up to the next multiple of 8,
   plus the extra one); the byte string has ceil(n/8) bytes *)
Theorem parse_mask_mask_bytes m :
  exists k q, (k < 8)%nat /\ (length m + k = 8 * q)%nat /\ length (mask_bytes m) = q /\
              parse_mask (mask_bytes m) = m ++ repeat false (S k).
Proof.
  destruct (flat_bits_chunks8 (length m) m (le_n _)) as [k [q [Hk [Hq [Hlen Hflat]]]]].
  exists k, q. split; [exact Hk|]. split; [exact Hq|]. split; [unfold mask_bytes; rewrite rev_length; exact Hlen|].
  unfold parse_mask, mask_bytes. rewrite rev_involutive, Hflat, <- app_assoc. f_equal.
  change [false] with (repeat false 1). rewrite <- repeat_app. f_equal. lia.
Qed.

Corollary parse_mask_mask_bytes_not_id m : parse_mask (mask_bytes m) <> m.
Proof.
  destruct (parse_mask_mask_bytes m) as [k [q [_ [_ [_ E]]]]]. rewrite E. intros H.
  apply (f_equal (@length bool)) in H. rewrite app_length in H. cbn [repeat length] in H. lia.
Qed.

Lemma get_cap_app_false k m j : get_cap k (m ++ repeat false j) = get_cap k m.
Proof.
  unfold get_cap. destruct (k <? 0); [reflexivity|].
  destruct (Nat.lt_ge_cases (Z.to_nat k) (length m)) as [Hlt|Hge].
  - apply app_nth1. exact Hlt.
  - rewrite app_nth2 by exact Hge. rewrite (nth_overflow m) by exact Hge.
    destruct (Nat.lt_ge_cases (Z.to_nat k - length m) j) as [H1|H1].
    + apply nth_repeat.
    + apply nth_overflow. rewrite repeat_length. exact H1.
Qed.

(* as a SET of capability numbers the mask survives writing and reading *)
Theorem get_cap_roundtrip m k : get_cap k (parse_mask (mask_bytes m)) = get_cap k m.
Proof. destruct (parse_mask_mask_bytes m) as [j [q [_ [_ [_ E]]]]]. rewrite E. apply get_cap_app_false. Qed.

Lemma get_cap_bytes_roundtrip bs k : bytes_ok bs = true ->
  get_cap k (parse_mask (mask_bytes (parse_mask bs))) = get_cap k (parse_mask bs).
Proof. intros _. apply get_cap_roundtrip. Qed.

(* ---------------------------------------------------------------- the length field *)
Lemma zlen_cap_block e : zlen (cap_block e) = cap_block_len e.
Proof.
  unfold cap_block, cap_block_len. destruct (mask_is_empty (snd e)); [reflexivity|].
  rewrite !zlen_app, !zlen_bytes_of_le. change (Z.of_nat 1) with 1. lia.
Qed.

Lemma cap_block_len_nonneg e : 0 <= cap_block_len e.
Proof. unfold cap_block_len. destruct (mask_is_empty (snd e)); [lia|]. pose proof (zlen_nonneg (mask_bytes (snd e))). lia. Qed.

Lemma cap_bytes_nonneg l : 0 <= cap_bytes_to_write l.
Proof.
  unfold cap_bytes_to_write. induction l as [|e l IH]; [cbn; lia|]. cbn [map zsum fold_right].
  pose proof (cap_block_len_nonneg e). unfold zsum in IH. lia.
Qed.

Lemma zlen_cap_blocks l : zlen (concat (map cap_block l)) = cap_bytes_to_write l.
Proof.
  unfold cap_bytes_to_write. rewrite zlen_concat, map_map. f_equal. apply map_ext. intros e. apply zlen_cap_block.
Qed.

(* the 2-byte length written equals the number of bytes that follow it (as long as it fits 16 bits) *)
Theorem enc_capability_len c : cap_bytes_to_write (cp_caps c) < 65536 ->
  enc_capability_body c = bytes_of_le 2 (zlen (concat (map cap_block (cp_caps c)))) ++ concat (map cap_block (cp_caps c)).
Proof.
  intros H. unfold enc_capability_body. rewrite zlen_cap_blocks. pose proof (cap_bytes_nonneg (cp_caps c)).
  rewrite Z.mod_small by lia. reflexivity.
Qed.

(* ---------------------------------------------------------------- reading back what WriteTo wrote *)
Definition wf_cap_entry (e : Z * mask) : Prop :=
  0 <= fst e < 256 /\ (mask_is_empty (snd e) = false -> zlen (mask_bytes (snd e)) < 256).
Definition wf_capability (c : capability) : Prop :=
  Forall wf_cap_entry (cp_caps c) /\ cap_bytes_to_write (cp_caps c) < 65536.

(* what the reader's map holds afterwards *)
Definition cap_read_step (cm : capmap) (e : Z * mask) : capmap :=
  if mask_is_empty (snd e) then cm else cap_set (fst e) (parse_mask (mask_bytes (snd e))) cm.
Definition cap_read_back (l : capmap) (cm : capmap) : capmap := fold_left cap_read_step l cm.

Fixpoint cap_sent (l : capmap) : nat :=
  match l with [] => O | e :: r => if mask_is_empty (snd e) then cap_sent r else S (cap_sent r) end.

Lemma cap_sent_bound l : 2 * Z.of_nat (cap_sent l) <= cap_bytes_to_write l.
Proof.
  unfold cap_bytes_to_write. induction l as [|e l IH]; [cbn; lia|]. cbn [cap_sent map zsum fold_right]. unfold zsum in IH.
  unfold cap_block_len at 1. destruct (mask_is_empty (snd e)); [lia|].
  pose proof (zlen_nonneg (mask_bytes (snd e))). lia.
Qed.

Lemma cap_loop_blocks l : Forall wf_cap_entry l -> forall fuel total len cm r,
  (cap_sent l < fuel)%nat -> 0 <= len -> len + cap_bytes_to_write l = total ->
  cap_loop fuel total len cm (concat (map cap_block l) ++ r) = POk (cap_read_back l cm) r.
Proof.
  induction 1 as [|e l He Hl IH]; intros fuel total len cm r Hf Hlen Ht.
  - destruct fuel as [|f]; [lia|]. cbn [cap_loop map concat app cap_read_back fold_left].
    unfold cap_bytes_to_write in Ht. cbn in Ht.
    replace (len <? total) with false by (symmetry; apply Z.ltb_ge; lia).
    replace (total <? len) with false by (symmetry; apply Z.ltb_ge; lia). reflexivity.
  - cbn [map concat cap_read_back fold_left]. unfold cap_bytes_to_write in Ht. cbn [map zsum fold_right] in Ht.
    fold (zsum (map cap_block_len l)) in Ht. fold (cap_bytes_to_write l) in Ht.
    cbn [cap_sent] in Hf. unfold cap_read_step at 2. unfold cap_block at 1. unfold cap_block_len in Ht.
    destruct He as [Hty Hmb]. destruct (mask_is_empty (snd e)) eqn:Eemp.
    + cbn [app]. apply IH; [exact Hf|exact Hlen|lia].
    + specialize (Hmb eq_refl). pose proof (zlen_nonneg (mask_bytes (snd e))) as Hnn.
      pose proof (cap_bytes_nonneg l) as Hrest.
      destruct fuel as [|f]; [lia|]. cbn [cap_loop].
      replace (len <? total) with true by (symmetry; apply Z.ltb_lt; lia).
      rewrite <- !app_assoc. rewrite !Z.mod_small by lia.
      assert (B2 : 0 <= zlen (mask_bytes (snd e)) < 256) by lia.
      rewrite (bind_ok _ _ _ _ _ (u8_enc _ _ Hty)).
      rewrite (bind_ok _ _ _ _ _ (u8_enc _ _ B2)).
      rewrite (bind_ok _ _ _ _ _ (take_app _ _)).
      apply IH; [lia|lia|lia].
Qed.

(* WriteTo then ReadFrom: every transmitted mask comes back padded (parse_mask (mask_bytes m)), types whose mask
   is empty are not transmitted and keep whatever the reader started with; exactly the written bytes are consumed *)
Theorem capability_readback c r : wf_capability c ->
  dec_capability (enc_capability_body c ++ r) = POk {| cp_caps := cap_read_back (cp_caps c) cap_init |} r.
Proof.
  intros [Hwf Htot]. unfold dec_capability, enc_capability_body. rewrite <- app_assoc.
  pose proof (cap_bytes_nonneg (cp_caps c)) as Hnn. rewrite Z.mod_small by lia.
  assert (B : 0 <= cap_bytes_to_write (cp_caps c) < 65536) by lia.
  rewrite (bind_ok _ _ _ _ _ (u16_enc _ _ B)).
  assert (Hfuel : (cap_sent (cp_caps c) < cap_fuel (cap_bytes_to_write (cp_caps c)))%nat).
  { unfold cap_fuel. rewrite Z.max_l by lia. pose proof (cap_sent_bound (cp_caps c)) as Hs.
    assert (D0 : (2:Z) <> 0) by lia. assert (D1 : 0 < (2:Z)) by lia.
    pose proof (Z.div_mod (cap_bytes_to_write (cp_caps c)) 2 D0) as Hd.
    pose proof (Z.mod_pos_bound (cap_bytes_to_write (cp_caps c)) 2 D1) as Hm.
    apply Nat2Z.inj_lt. rewrite Z2Nat.id by lia. lia. }
  assert (Hsum : 0 + cap_bytes_to_write (cp_caps c) = cap_bytes_to_write (cp_caps c)) by lia.
  rewrite (bind_ok _ _ _ _ _ (cap_loop_blocks (cp_caps c) Hwf _ _ 0 cap_init r Hfuel (Z.le_refl 0) Hsum)).
  reflexivity.
Qed.

(* the capability numbers of every transmitted type survive *)
Corollary capability_readback_caps c r : wf_capability c ->
  exists cm, dec_capability (enc_capability_body c ++ r) = POk {| cp_caps := cm |} r /\ cm = cap_read_back (cp_caps c) cap_init.
Proof. intros H. eexists. split; [apply capability_readback; exact H|reflexivity]. Qed.

(* read-modify-write is not stable: what was read is written one byte longer per mask *)
Example capability_grows :
  let body := [3; 0; 1; 1; 40] in     (* length 3, type 1, mask length 1, mask 0x28 *)
  match dec_capability body with
  | POk c _ => enc_capability_body {| cp_caps := [(1, parse_mask [40])] |} = [4; 0; 1; 2; 0; 40]
  | _ => False
  end.
Proof. vm_compute. reflexivity. Qed.

(* ---------------------------------------------------------------- the fuel of the read loop never runs out *)
Lemma take_not_err n s e r : take n s <> PErr e r.
Proof. unfold take. destruct (n <? 0); [discriminate|]. destruct (zlen s <? n); discriminate. Qed.

Lemma take_ok_nonneg n s a r : take n s = POk a r -> 0 <= n.
Proof. unfold take. destruct (Z.ltb_spec n 0) as [H|H]; [discriminate|]. intros _. exact H. Qed.

Lemma u8_not_err s e r : u8 s <> PErr e r.
Proof.
  unfold u8, pmap, bind. destruct (take 1 s) as [a r0| |e0 r0|] eqn:E; try discriminate.
  exfalso. exact (take_not_err _ _ _ _ E).
Qed.

Lemma u16_not_err s e r : u16 s <> PErr e r.
Proof.
  unfold u16, pmap, bind. destruct (take 2 s) as [a r0| |e0 r0|] eqn:E; try discriminate.
  exfalso. exact (take_not_err _ _ _ _ E).
Qed.

Lemma cap_loop_fuel_enough fuel : forall total len cm s, (1 <= fuel)%nat -> total - len + 2 <= 2 * Z.of_nat fuel ->
  forall r, cap_loop fuel total len cm s <> PErr 99 r.
Proof.
  induction fuel as [|f IH]; intros total len cm s H1 H2 r; [lia|]. cbn [cap_loop].
  destruct (Z.ltb_spec len total) as [Hlt|Hge].
  - unfold bind at 1. destruct (u8 s) as [t r1| |e1 r1|] eqn:E1; try discriminate.
    + unfold bind at 1. destruct (u8 r1) as [cl r2| |e2 r2|] eqn:E2; try discriminate.
      * unfold bind at 1. destruct (take cl r2) as [bs r3| |e3 r3|] eqn:E3; try discriminate.
        -- pose proof (take_ok_nonneg _ _ _ _ E3) as Hcl. apply IH; lia.
        -- exfalso. exact (take_not_err _ _ _ _ E3).
      * exfalso. exact (u8_not_err _ _ _ E2).
    + exfalso. exact (u8_not_err _ _ _ E1).
  - destruct (total <? len); discriminate.
Qed.

Theorem dec_capability_fuel s r : dec_capability s <> PErr 99 r.
Proof.
  unfold dec_capability. unfold bind at 1. destruct (u16 s) as [total r0| |e r0|] eqn:E; try discriminate.
  - unfold bind at 1. destruct (cap_loop (cap_fuel total) total 0 cap_init r0) as [cm r2| |e2 r2|] eqn:E2; try discriminate.
    intros H. inversion H; subst e2 r2. revert E2. apply cap_loop_fuel_enough.
    + unfold cap_fuel. assert (0 <= Z.max total 0 / 2) by (apply Z.div_pos; lia). lia.
    + unfold cap_fuel. assert (D0 : (2:Z) <> 0) by lia. assert (D1 : 0 < (2:Z)) by lia.
      pose proof (Z.div_mod (Z.max total 0) 2 D0) as Hd. pose proof (Z.mod_pos_bound (Z.max total 0) 2 D1) as Hm.
      rewrite Z2Nat.id by lia. lia.
  - exfalso. exact (u16_not_err _ _ _ E).
Qed.

(* ---------------------------------------------------------------- the bit position formula *)
Lemma nth_flat_bits l : forall q j, (j < 8)%nat -> (q < length l)%nat ->
  nth (8 * q + j) (flat_map bits8 l) false = Z.testbit (nth q l 0) (Z.of_nat j).
Proof.
  induction l as [|b l IH]; intros q j Hj Hq; [cbn in Hq; lia|].
  destruct q as [|q'].
  - cbn [flat_map nth Nat.mul Nat.add]. unfold bits8. cbn [map app].
    do 8 (destruct j as [|j]; [reflexivity|]). lia.
  - replace (8 * S q' + j)%nat with (S (S (S (S (S (S (S (S (8 * q' + j))))))))) by lia.
    cbn [flat_map]. unfold bits8 at 1. cbn [map app nth]. apply IH; [exact Hj|cbn [length] in Hq; lia].
Qed.

(* capability k is bit (k mod 8) of byte (len - 1 - k/8) of Bytes() *)
Theorem mask_bit_position m k : (k < length m)%nat ->
  Z.testbit (nth (length (mask_bytes m) - 1 - k / 8) (mask_bytes m) 0) (Z.of_nat (k mod 8)) = nth k m false.
Proof.
  intros Hk. destruct (flat_bits_chunks8 (length m) m (le_n _)) as [pad [Q [Hpad [HQ [Hlen Hflat]]]]].
  assert (D8 : (8 <> 0)%nat) by lia.
  pose proof (Nat.div_mod k 8 D8) as Hdm. pose proof (Nat.mod_upper_bound k 8 D8) as Hj.
  assert (Hq : (k / 8 < Q)%nat) by lia.
  unfold mask_bytes. rewrite rev_length, Hlen.
  rewrite rev_nth by (rewrite Hlen; lia). rewrite Hlen.
  replace (Q - S (Q - 1 - k / 8))%nat with (k / 8)%nat by lia.
  rewrite <- (nth_flat_bits (chunks8 (length m) m) (k / 8) (k mod 8) Hj) by (rewrite Hlen; exact Hq).
  rewrite <- Hdm, Hflat. apply app_nth1. exact Hk.
Qed.

(* non-vacuity: the two masks of the library's unit test *)
Example mask_unit_test_1 : parse_mask [40] = [false; false; false; true; false; true; false; false; false].
Proof. reflexivity. Qed.
Example mask_unit_test_2 : mask_bytes [true; true; true; false; true; true; true; false; false; false; true; true; false; false; false; true] = [140; 119].
Proof. reflexivity. Qed.
