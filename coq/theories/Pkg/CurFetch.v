(* TDS_CURFETCH 0x82 (tds/packageCurFetch.go):
   token | length u16 | cursor id i32 | [name length u8 | name]  (iff id = 0) | fetch type u8 | [row number i32] (iff type ABS=5 / REL=6)
   The read site of the fetch type returns the queue's own error unwrapped; the queue only ever returns
   ErrNotEnoughBytes there, so it is the same class as the other sites. *)
From Coq Require Import ZArith List Bool Lia.
Import ListNotations.
From V Require Import Base.Tree Base.Bytes Base.BytesFacts Base.Parser Base.ParserFacts Pkg.CurCommon.
Open Scope Z_scope.

Record curfetch := { cf_id : Z; cf_name : bytes; cf_type : Z; cf_rownum : Z }.

(* pkg.Type == TDS_CUR_ABS || pkg.Type == TDS_CUR_REL *)
Definition fetch_has_row (ty : Z) : bool := (ty =? 5) || (ty =? 6).

Definition dec_curfetch : parser curfetch :=
  let* total := u16 in
  let* hn := counted p_cur_head in
  let* ty := u8 in
  let* rn := (if fetch_has_row ty then i32 else ret 0) in
  check_total (snd hn + 1 + (if fetch_has_row ty then 4 else 0)) total
    {| cf_id := fst (fst hn); cf_name := snd (fst hn); cf_type := ty; cf_rownum := rn |}.

Definition tok_curfetch : Z := 130.
(* the writer tests the untruncated Type (a Go uint) and then writes uint8(Type) *)
Definition curfetch_total (c : curfetch) : Z :=
  cur_head_total (cf_id c) (cf_name c) + 1 + (if fetch_has_row (cf_type c) then 4 else 0).
Definition enc_curfetch_payload (c : curfetch) : bytes :=
  enc_cur_head (cf_id c) (cf_name c) ++ bytes_of_le 1 (cf_type c mod 256)
  ++ (if fetch_has_row (cf_type c) then bytes_of_le 4 (cf_rownum c mod 4294967296) else []).
Definition enc_curfetch_body (c : curfetch) : bytes :=
  bytes_of_le 2 (curfetch_total c mod 65536) ++ enc_curfetch_payload c.
Definition enc_curfetch (c : curfetch) : option bytes := Some (tok_curfetch :: enc_curfetch_body c).

Definition wf_curfetch (c : curfetch) : Prop :=
  wf_cur_head (cf_id c) (cf_name c) /\ 0 <= cf_type c < 256 /\ -2147483648 <= cf_rownum c < 2147483648 /\
  (fetch_has_row (cf_type c) = false -> cf_rownum c = 0) /\ curfetch_total c < 65536.

Lemma dec_curfetch_streamable : streamable dec_curfetch.
Proof. unfold dec_curfetch. streamable_tac; try apply p_cur_head_streamable; apply check_total_streamable. Qed.

Lemma enc_curfetch_len c : zlen (enc_curfetch_payload c) = curfetch_total c.
Proof.
  unfold enc_curfetch_payload, curfetch_total.
  rewrite !zlen_app, zlen_enc_cur_head, zlen_bytes_of_le.
  destruct (fetch_has_row (cf_type c)); [rewrite zlen_bytes_of_le|rewrite zlen_nil]; lia.
Qed.

Lemma curfetch_total_nonneg c : 0 <= curfetch_total c.
Proof. rewrite <- enc_curfetch_len. apply zlen_nonneg. Qed.

Lemma curfetch_roundtrip c r : wf_curfetch c -> dec_curfetch (enc_curfetch_body c ++ r) = POk c r.
Proof.
  intros [Hh [Hty [Hrn [Hz Ht]]]]. pose proof (curfetch_total_nonneg c) as Hnn.
  unfold dec_curfetch, enc_curfetch_body, enc_curfetch_payload. rewrite <- !app_assoc.
  rewrite (Z.mod_small (curfetch_total c)) by lia. rewrite (Z.mod_small (cf_type c)) by lia.
  rewrite (bind_ok _ _ _ _ _ (u16_enc _ _ (conj Hnn Ht))).
  rewrite (bind_ok _ _ _ _ _ (cur_head_counted _ _ _ Hh)).
  rewrite (bind_ok _ _ _ _ _ (u8_enc _ _ Hty)).
  cbn [fst snd]. unfold curfetch_total.
  destruct (fetch_has_row (cf_type c)) eqn:E.
  - rewrite (bind_ok _ _ _ _ _ (i32_enc _ _ Hrn)). rewrite check_total_ok. destruct c; reflexivity.
  - cbn [app]. unfold bind at 1, ret at 1. rewrite check_total_ok. rewrite <- (Hz eq_refl). destruct c; reflexivity.
Qed.

Definition curfetch_tree (c : curfetch) : tree :=
  TL [TI (cf_id c); TB (cf_name c); TI (cf_type c); TI (cf_rownum c)].
Definition curfetch_of_tree (t : tree) : curfetch :=
  {| cf_id := t_int (t_nth 0 t); cf_name := t_bytes (t_nth 1 t); cf_type := t_int (t_nth 2 t);
     cf_rownum := t_int (t_nth 3 t) |}.

Lemma curfetch_of_tree_tree c : curfetch_of_tree (curfetch_tree c) = c.
Proof. destruct c; reflexivity. Qed.
