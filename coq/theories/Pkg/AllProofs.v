From Coq Require Import ZArith List Bool.
Import ListNotations.
From V Require Import Base.Tree Base.Bytes Base.Parser Pkg.Iface Pkg.RegCore Pkg.CoreProofs Pkg.RegB1 Pkg.RegB2 Pkg.All.

Theorem kinds_all_streamable : kinds_streamable kinds_all.
Proof.
  unfold kinds_all, kinds_streamable. apply Forall_app. split; [exact kinds_core_streamable|].
  apply Forall_app. split; [exact kinds_b1_streamable|exact kinds_b2_streamable].
Qed.
