(* Registry interface of the package layer.  A kind is identified by its token (the login record,
   which has no token, uses 1000).  Decoders are entered AFTER the token byte (as the channel does);
   encoders return everything WriteTo writes (token byte included).  Field trees are the exchange
   format with the harness. *)
From Coq Require Import ZArith List Bool.
Import ListNotations.
From V Require Import Base.Tree Base.Bytes Base.Parser.
Open Scope Z_scope.

Record kind := {
  k_tok : Z;
  k_dec : tree -> parser tree;          (* context (formats for PARAMS/ROW, () otherwise) -> fields *)
  k_enc : tree -> option bytes          (* fields -> bytes, None = WriteTo returns an error *)
}.

Fixpoint find_kind (tok : Z) (ks : list kind) : option kind :=
  match ks with
  | [] => None
  | k :: r => if Z.eqb tok (k_tok k) then Some k else find_kind tok r
  end.

Definition kinds_streamable (ks : list kind) : Prop :=
  Forall (fun k => forall ctx, streamable (k_dec k ctx)) ks.
