(* Round trips of the core packages the library both writes and reads: reading back what WriteTo wrote
   reproduces the fields and consumes exactly the bytes written; the length fields equal what follows. *)
From Coq Require Import ZArith List Bool Lia.
Import ListNotations.
From V Require Import Base.Tree Base.Bytes Base.BytesFacts Base.Range Base.Parser Base.ParserFacts
  Pkg.GenTypes Gen.GenPkg Pkg.Iface Pkg.Field Pkg.Fmts Pkg.Done Pkg.Eed.
Open Scope Z_scope.

Ltac step_u8 := erewrite bind_ok by (apply u8_enc; lia).
Ltac step_u16 := erewrite bind_ok by (apply u16_enc; lia).
Ltac step_u32 := erewrite bind_ok by (apply u32_enc; lia).
Ltac step_take := erewrite bind_ok by (apply take_app).

Definition wf_eed (e : eed) : Prop :=
  0 <= e_msgnr e < 4294967296 /\ 0 <= e_state e < 256 /\ 0 <= e_class e < 256 /\ zlen (e_sqlstate e) < 256 /\
  0 <= e_status e < 256 /\ 0 <= e_tran e < 65536 /\ zlen (e_msg e) < 65536 /\ zlen (e_server e) < 256 /\
  zlen (e_proc e) < 256 /\ 0 <= e_line e < 65536 /\
  16 + zlen (e_sqlstate e) + zlen (e_msg e) + zlen (e_server e) + zlen (e_proc e) < 65536 /\
  trim_nl (e_msg e) = e_msg e.           (* the reader drops one trailing newline: documented, excluded here *)

Definition enc_eed_body (e : eed) : bytes := tl (enc_eed e).

Lemma eed_roundtrip e r : wf_eed e -> dec_eed (enc_eed_body e ++ r) = POk e r.
Proof.
  intros [H1 [H2 [H3 [H4 [H5 [H6 [H7 [H8 [H9 [H10 [H11 H12]]]]]]]]]]].
  pose proof (zlen_nonneg (e_sqlstate e)). pose proof (zlen_nonneg (e_msg e)).
  pose proof (zlen_nonneg (e_server e)). pose proof (zlen_nonneg (e_proc e)).
  unfold enc_eed_body, enc_eed, dec_eed, lp8, lp16. cbn [tl]. rewrite <- !app_assoc.
  rewrite !Z.mod_small by lia.
  step_u16. step_u32. step_u8. step_u8. step_u8. step_take. step_u8. step_u16. step_u16. step_take.
  step_u8. step_take. step_u8. step_take. step_u16.
  match goal with |- (if ?c then _ else _) _ = _ => replace c with true by (symmetry; apply Z.eqb_eq; lia) end.
  unfold ret. rewrite H12. destruct e; reflexivity.
Qed.

(* the length field written by EEDPackage.WriteTo equals the number of bytes that follow it *)
Lemma enc_eed_len e :
  16 + zlen (e_sqlstate e) + zlen (e_msg e) + zlen (e_server e) + zlen (e_proc e) < 65536 ->
  exists rest, enc_eed_body e = bytes_of_le 2 (zlen rest) ++ rest.
Proof.
  intros H. pose proof (zlen_nonneg (e_sqlstate e)). pose proof (zlen_nonneg (e_msg e)).
  pose proof (zlen_nonneg (e_server e)). pose proof (zlen_nonneg (e_proc e)).
  unfold enc_eed_body, enc_eed. cbn [tl]. eexists. f_equal. f_equal.
  rewrite Z.mod_small by lia.
  rewrite !zlen_app, !zlen_bytes_of_le, !zlen_lp8, zlen_lp16. lia.
Qed.

(* ------------------------------------------------------------------ PARAMFMT / PARAMFMT2 *)
Definition lb_bound (lb : Z) : Z := if lb =? 4 then 4294967296 else if lb =? 2 then 65536 else 256.
Definition lb_width (lb : Z) : Z := if lb =? 4 then 4 else if lb =? 2 then 2 else 1.

Lemma read_len_enc lb v r : 0 <= v < lb_bound lb -> read_len lb (write_len lb v ++ r) = POk v r.
Proof.
  unfold read_len, write_len, lb_bound. intros H.
  destruct (lb =? 4); [rewrite Z.mod_small by lia; apply u32_enc; lia|].
  destruct (lb =? 2); [rewrite Z.mod_small by lia; apply u16_enc; lia|].
  rewrite Z.mod_small by lia. apply u8_enc; lia.
Qed.
Lemma zlen_write_len lb v : zlen (write_len lb v) = lb_width lb.
Proof. unfold write_len, lb_width. destruct (lb =? 4); [apply zlen_bytes_of_le|]. destruct (lb =? 2); apply zlen_bytes_of_le. Qed.

Lemma fixed_only_plain : forallb (fun dt => (fmt_class dt =? 1) || (fmt_class dt =? 0) || negb (is_fixed dt)) (Base.Range.zrange 0 255) = true.
Proof. vm_compute. reflexivity. Qed.

(* a format the reader can reproduce: every length fits its prefix, members that are not on the wire for the
   format's class are at their defaults, and the declared width of the length prefix is the one the table gives *)
Definition wf_ffmt (wide : bool) (f : ffmt) : Prop :=
  let dt := f_dt f in
  0 <= dt < 256 /\ zlen (f_name f) < 256 /\ zlen (f_locale f) < 256 /\
  0 <= f_status f < (if wide then 4294967296 else 256) /\ -2147483648 <= f_usertype f < 2147483648 /\
  f_label f = [] /\ f_cat f = [] /\ f_schema f = [] /\ f_table f = [] /\ f_blobtype f = 0 /\ f_classid f = [] /\
  (fmt_class dt = 1 \/ fmt_class dt = 2 \/ fmt_class dt = 3 \/ fmt_class dt = 5) /\
  (fmt_class dt <> 1 -> is_fixed dt = false) /\       (* true of the tables: see fixed_only_plain *)
  (if is_fixed dt then f_maxlen f = preset_maxlen dt
   else 0 <= f_maxlen f < lb_bound (length_bytes dt) /\ length_bytes dt = lb_width (length_bytes dt)) /\
  (fmt_class dt = 1 -> f_prec f = 0 /\ f_scale f = 0 /\ f_tabname f = []) /\
  (fmt_class dt = 2 -> f_prec f = 0 /\ 0 <= f_scale f < 256 /\ f_tabname f = []) /\
  (fmt_class dt = 3 -> 0 <= f_prec f < 256 /\ 0 <= f_scale f < 256 /\ f_tabname f = []) /\
  (fmt_class dt = 5 -> f_prec f = 0 /\ f_scale f = 0 /\ zlen (f_tabname f) < 65536).

Definition tail_of (f : ffmt) : ftail :=
  {| t_maxlen := f_maxlen f; t_prec := f_prec f; t_scale := f_scale f; t_blobtype := f_blobtype f;
     t_classid := f_classid f; t_tabname := f_tabname f |}.

Lemma read_base_enc dt m r :
  (if is_fixed dt then m = preset_maxlen dt else 0 <= m < lb_bound (length_bytes dt)) ->
  read_base dt ((if is_fixed dt then [] else write_len (length_bytes dt) m) ++ r)
  = POk (m, if is_fixed dt then 0 else length_bytes dt) r.
Proof.
  unfold read_base. destruct (is_fixed dt); intros H.
  - subst m. reflexivity.
  - erewrite bind_ok by (apply read_len_enc; exact H). reflexivity.
Qed.

Lemma dec_fmt_tail_enc wide f r : wf_ffmt wide f ->
  dec_fmt_tail (f_dt f) (enc_fmt_tail f ++ r) = POk (tail_of f, format_byte_length (f_dt f) (tail_of f)) r.
Proof.
  intros [Hdt [Hn [Hl [Hs [Hu [Hla [Hca [Hsc [Hta [Hbt [Hci [Hcls [Hfx [Hml [C1 [C2 [C3 C5]]]]]]]]]]]]]]]]].
  unfold dec_fmt_tail, enc_fmt_tail, format_byte_length, tail_of.
  assert (Hbase : forall r', read_base (f_dt f) ((if is_fixed (f_dt f) then [] else write_len (length_bytes (f_dt f)) (f_maxlen f)) ++ r')
                   = POk (f_maxlen f, if is_fixed (f_dt f) then 0 else length_bytes (f_dt f)) r').
  { intros r'. apply read_base_enc. destruct (is_fixed (f_dt f)); [exact Hml|apply Hml]. }
  destruct Hcls as [E|[E|[E|E]]]; rewrite E.
  - destruct (C1 E) as [P [S T]]. erewrite bind_ok by (apply Hbase). unfold ret, tail0. cbn [fst snd].
    rewrite P, S, T, Hbt, Hci. destruct (is_fixed (f_dt f)); reflexivity.
  - destruct (C2 E) as [P [S T]]. rewrite <- app_assoc. erewrite bind_ok by (apply Hbase).
    rewrite Z.mod_small by lia. step_u8. unfold ret. cbn [fst snd]. rewrite P, T, Hbt, Hci.
    rewrite (Hfx ltac:(lia)) in *. f_equal. f_equal. lia.
  - destruct (C3 E) as [P [S T]]. rewrite <- !app_assoc. erewrite bind_ok by (apply Hbase).
    rewrite !Z.mod_small by lia. step_u8. step_u8. unfold ret. cbn [fst snd]. rewrite T, Hbt, Hci.
    rewrite (Hfx ltac:(lia)) in *. f_equal. f_equal. lia.
  - destruct (C5 E) as [P [S T]]. pose proof (zlen_nonneg (f_tabname f)). unfold lp16. rewrite <- !app_assoc.
    erewrite bind_ok by (apply Hbase). rewrite Z.mod_small by lia. step_u16. step_take.
    unfold ret. cbn [fst snd t_tabname]. rewrite P, S, Hbt, Hci.
    rewrite (Hfx ltac:(lia)) in *. f_equal. f_equal. lia.
Qed.

Definition fbl (wide : bool) (f : ffmt) : Z :=
  1 + zlen (f_name f) + 1 + 4 + 1 + format_byte_length (f_dt f) (tail_of f) + 1 + zlen (f_locale f) + (if wide then 3 else 0).

Lemma mk_fmt_id wide f : wf_ffmt wide f ->
  mk_fmt (f_dt f) (f_name f) (f_status f) (f_usertype f) (f_locale f) (tail_of f) [] [] [] [] = f.
Proof.
  intros [_ [_ [_ [_ [_ [Hla [Hca [Hsc [Hta _]]]]]]]]]. unfold mk_fmt, tail_of. cbn [t_maxlen t_prec t_scale t_blobtype t_classid t_tabname].
  destruct f; cbn in *; subst; reflexivity.
Qed.

Definition nin (wide : bool) (f : ffmt) : Z :=
  1 + zlen (f_name f) + (if wide then 4 else 1) + 4 + 1 + format_byte_length (f_dt f) (tail_of f) + 1 + zlen (f_locale f).
Lemma nin_fbl wide f : nin wide f = fbl wide f.
Proof. unfold nin, fbl. destruct wide; lia. Qed.

Lemma dec_paramfmt_field_enc wide f r : wf_ffmt wide f ->
  dec_paramfmt_field wide (enc_paramfmt_field wide f ++ r) = POk (f, nin wide f) r.
Proof.
  intros Hwf. pose proof Hwf as [Hdt [Hn [Hl [Hs [Hu _]]]]].
  pose proof (zlen_nonneg (f_name f)). pose proof (zlen_nonneg (f_locale f)).
  unfold dec_paramfmt_field, enc_paramfmt_field, lp8. rewrite <- !app_assoc.
  rewrite !(Z.mod_small (zlen _)) by lia.
  step_u8. step_take.
  erewrite bind_ok by (destruct wide; [rewrite Z.mod_small by lia; apply u32_enc; lia|rewrite Z.mod_small by lia; apply u8_enc; lia]).
  erewrite bind_ok by (apply i32_enc; lia).
  rewrite (Z.mod_small (f_dt f)) by lia. step_u8.
  erewrite bind_ok by (apply (dec_fmt_tail_enc wide); exact Hwf).
  step_u8. step_take. unfold ret. cbn [fst snd]. rewrite (mk_fmt_id wide f Hwf). reflexivity.
Qed.

Lemma paramfmt_field_enc wide f r : wf_ffmt wide f ->
  paramfmt_field_checked wide (enc_paramfmt_field wide f ++ r) = POk (f, fbl wide f) r.
Proof.
  intros Hwf. unfold paramfmt_field_checked.
  erewrite bind_ok by (apply dec_paramfmt_field_enc; exact Hwf).
  cbn [fst snd]. fold (tail_of f). fold (fbl wide f). rewrite nin_fbl, Z.eqb_refl. reflexivity.
Qed.

Lemma zlen_enc_fmt_tail wide f : wf_ffmt wide f -> zlen (enc_fmt_tail f) = format_byte_length (f_dt f) (tail_of f).
Proof.
  intros [Hdt [Hn [Hl [Hs [Hu [Hla [Hca [Hsc [Hta [Hbt [Hci [Hcls [Hfx [Hml [C1 [C2 [C3 C5]]]]]]]]]]]]]]]]].
  unfold enc_fmt_tail, format_byte_length, tail_of. cbn [t_tabname t_classid].
  assert (Hbase : zlen (if is_fixed (f_dt f) then [] else write_len (length_bytes (f_dt f)) (f_maxlen f))
                  = if is_fixed (f_dt f) then 0 else length_bytes (f_dt f)).
  { destruct (is_fixed (f_dt f)); [reflexivity|]. rewrite zlen_write_len. symmetry. apply Hml. }
  destruct Hcls as [E|[E|[E|E]]]; rewrite E.
  - exact Hbase.
  - rewrite zlen_app, Hbase, zlen_bytes_of_le. rewrite (Hfx ltac:(lia)). lia.
  - rewrite !zlen_app, Hbase, !zlen_bytes_of_le. rewrite (Hfx ltac:(lia)). lia.
  - rewrite zlen_app, Hbase, zlen_lp16. rewrite (Hfx ltac:(lia)). lia.
Qed.

Lemma zlen_enc_paramfmt_field wide f : wf_ffmt wide f -> zlen (enc_paramfmt_field wide f) = fbl wide f.
Proof.
  intros Hwf. unfold enc_paramfmt_field, fbl. rewrite !zlen_app, !zlen_lp8, (zlen_enc_fmt_tail wide f Hwf), !zlen_bytes_of_le.
  destruct wide; rewrite zlen_bytes_of_le; lia.
Qed.

Lemma paramfmt_length_fbl wide fs : paramfmt_length wide fs = 2 + zsum (map (fbl wide) fs).
Proof. reflexivity. Qed.

Lemma zlen_paramfmt_body wide fs : Forall (wf_ffmt wide) fs ->
  zlen (concat (map (enc_paramfmt_field wide) fs)) = zsum (map (fbl wide) fs).
Proof.
  induction fs as [|f fs IH]; intros H; [reflexivity|]. inversion H as [|? ? Hf Hfs]; subst.
  cbn [map concat zsum fold_right]. rewrite zlen_app, (zlen_enc_paramfmt_field wide f Hf), (IH Hfs). reflexivity.
Qed.

(* TDS_PARAMFMT / TDS_PARAMFMT2: what the library writes for well-formed formats it reads back unchanged,
   consuming exactly the bytes written; the total length and the count written equal what follows *)
Theorem paramfmt_roundtrip wide fs r : Forall (wf_ffmt wide) fs -> zlen fs < 65536 ->
  paramfmt_length wide fs < (if wide then 4294967296 else 65536) ->
  exists body, enc_paramfmt wide fs = Some ((if wide then tok_paramfmt2 else tok_paramfmt) :: body) /\
               dec_paramfmt wide (body ++ r) = POk fs r /\
               zlen body = (if wide then 4 else 2) + paramfmt_length wide fs.
Proof.
  intros Hwf Hcnt Hlen. pose proof (zlen_nonneg fs) as Hn.
  assert (Hfbl : 0 <= zsum (map (fbl wide) fs)).
  { rewrite <- (zlen_paramfmt_body wide fs Hwf). apply zlen_nonneg. }
  unfold enc_paramfmt. rewrite (zlen_paramfmt_body wide fs Hwf), paramfmt_length_fbl.
  replace (2 + zsum (map (fbl wide) fs) <? 2 + zsum (map (fbl wide) fs)) with false by (symmetry; apply Z.ltb_irrefl).
  eexists. split; [reflexivity|]. rewrite paramfmt_length_fbl in Hlen. split.
  - unfold dec_paramfmt. rewrite <- !app_assoc.
    erewrite bind_ok by (destruct wide; [rewrite Z.mod_small by lia; apply u32_enc; lia|rewrite Z.mod_small by lia; apply u16_enc; lia]).
    rewrite Z.mod_small by lia. step_u16.
    assert (Hl : Z.to_nat (zlen fs) = length (map (fun f => (f, fbl wide f)) fs)) by (rewrite map_length; unfold zlen; lia).
    rewrite Hl.
    assert (Hc : concat (map (enc_paramfmt_field wide) fs)
                 = concat (map (fun fn : ffmt * Z => enc_paramfmt_field wide (fst fn)) (map (fun f => (f, fbl wide f)) fs))).
    { rewrite map_map. reflexivity. }
    rewrite Hc.
    erewrite bind_ok.
    2:{ apply (repeat_n_enc (paramfmt_field_checked wide) (fun fn : ffmt * Z => enc_paramfmt_field wide (fst fn))).
        intros [f n] r' Hin. apply in_map_iff in Hin. destruct Hin as [f0 [E Hin0]]. inversion E; subst.
        cbn [fst]. apply paramfmt_field_enc. rewrite Forall_forall in Hwf. apply Hwf. exact Hin0. }
    rewrite !map_map. cbn [fst snd].
    replace (2 + zsum (map (fbl wide) fs) <? 2 + zsum (map (fun x => fbl wide x) fs)) with false by (symmetry; apply Z.ltb_irrefl).
    unfold ret. rewrite map_id. reflexivity.
  - rewrite !zlen_app, zlen_bytes_of_le, (zlen_paramfmt_body wide fs Hwf). destruct wide; rewrite zlen_bytes_of_le; lia.
Qed.

(* ------------------------------------------------------------------ PARAMS / ROW data fields *)
Definition wf_fdata (f : ffmt) (v : fdata) : Prop :=
  let dt := f_dt f in
  (if has_colstatus f then 0 <= v_status v < 256 else v_status v = 0) /\
  v_serial v = 0 /\ v_subclass v = [] /\ v_locator v = [] /\
  ((data_class dt = 1 \/ data_class dt = 2) /\ v_txtptr v = [] /\ v_timestamp v = [] /\
    (if is_fixed dt then zlen (v_data v) = length_bytes dt else zlen (v_data v) < lb_bound (length_bytes dt)) /\
    value_len_ok dt (zlen (v_data v)) = true
   \/ data_class dt = 4 /\ zlen (v_txtptr v) < 256 /\ zlen (v_timestamp v) = 8 /\ zlen (v_data v) < 4294967296).

Lemma read_status_enc f v r : (if has_colstatus f then 0 <= v_status v < 256 else v_status v = 0) ->
  read_status f ((if has_colstatus f then bytes_of_le 1 (v_status v mod 256) else []) ++ r) = POk (v_status v) r.
Proof.
  unfold read_status. destruct (has_colstatus f); intros H.
  - rewrite Z.mod_small by lia. apply u8_enc. lia.
  - rewrite H. reflexivity.
Qed.

Lemma dec_fdata_enc f v r : wf_fdata f v -> dec_fdata f (enc_fdata f v ++ r) = POk v r.
Proof.
  intros [Hst [Hser [Hsub [Hloc Hcls]]]]. pose proof (zlen_nonneg (v_data v)) as Hd0.
  unfold dec_fdata, enc_fdata. rewrite <- app_assoc.
  destruct Hcls as [[Hc [Htp [Hts [Hlen Hok]]]]|[Hc [Htp [Hts Hlen]]]].
  - assert (E4 : (data_class (f_dt f) =? 4) = false) by (apply Z.eqb_neq; lia). rewrite E4.
    assert (Hbody : forall r', (let* len := (if is_fixed (f_dt f) then ret (length_bytes (f_dt f)) else read_len (length_bytes (f_dt f))) in
                                let* bs := take len in
                                if value_len_ok (f_dt f) len then ret (data0 (v_status v) bs) else fail 20)
                               (((if is_fixed (f_dt f) then [] else write_len (length_bytes (f_dt f)) (zlen (v_data v))) ++ v_data v) ++ r')
                               = POk v r').
    { intros r'. rewrite <- app_assoc. destruct (is_fixed (f_dt f)).
      - cbn [app]. unfold ret at 1. unfold bind at 1. rewrite <- Hlen. step_take. rewrite Hok.
        unfold ret, data0. destruct v; cbn in *; subst; reflexivity.
      - erewrite bind_ok by (apply read_len_enc; lia). step_take. rewrite Hok.
        unfold ret, data0. destruct v; cbn in *; subst; reflexivity. }
    destruct Hc as [Hc|Hc]; rewrite Hc; (erewrite bind_ok by (apply read_status_enc; exact Hst)); apply Hbody.
  - rewrite Hc. cbn [Z.eqb Pos.eqb]. pose proof (zlen_nonneg (v_txtptr v)).
    erewrite bind_ok by (apply read_status_enc; exact Hst).
    unfold lp8, lp32. rewrite <- !app_assoc. rewrite !Z.mod_small by lia.
    step_u8. step_take. erewrite bind_ok by (apply (take_app_n 8); exact Hts). step_u32. step_take.
    unfold ret. destruct v; cbn in *; subst; reflexivity.
Qed.

Lemma dec_fields_enc : forall fs vs r, Forall2 wf_fdata fs vs ->
  dec_fields fs (concat (map (fun fv => enc_fdata (fst fv) (snd fv)) (combine fs vs)) ++ r) = POk vs r.
Proof.
  induction fs as [|f fs IH]; intros vs r H; inversion H as [|? v ? vs' Hf Hfs]; subst; [reflexivity|].
  cbn [combine map concat dec_fields fst snd]. rewrite <- app_assoc.
  erewrite bind_ok by (apply dec_fdata_enc; exact Hf).
  erewrite bind_ok by (apply IH; exact Hfs). reflexivity.
Qed.

(* TDS_PARAMS: what the client writes for its parameters (formats + data) is read back field by field *)
Theorem params_roundtrip tok fs vs r : params_ctx_ok fs = true -> Forall2 wf_fdata fs vs ->
  exists body, enc_params tok fs vs = tok :: body /\ dec_params (Some fs) (body ++ r) = POk vs r.
Proof.
  intros Hctx H. unfold enc_params. eexists. split; [reflexivity|]. unfold dec_params. rewrite Hctx. apply dec_fields_enc. exact H.
Qed.

(* ------------------------------------------------------------------ ENVCHANGE *)
Definition wf_envmember (m : envmember) : Prop := 0 <= m_type m < 256 /\ zlen (m_new m) < 256 /\ zlen (m_old m) < 256.
Definition env_size (m : envmember) : Z := 3 + zlen (m_new m) + zlen (m_old m).

Lemma dec_envmember_enc m r : wf_envmember m -> dec_envmember (enc_envmember m ++ r) = POk (m, env_size m) r.
Proof.
  intros [Ht [Hn Ho]]. pose proof (zlen_nonneg (m_new m)). pose proof (zlen_nonneg (m_old m)).
  unfold dec_envmember, enc_envmember, lp8. rewrite <- !app_assoc. rewrite !Z.mod_small by lia.
  step_u8. step_u8.
  erewrite bind_ok.
  2:{ destruct (Z.ltb_spec 0 (zlen (m_new m))); [apply take_app|].
      assert (E : m_new m = []) by (apply zlen_zero_nil; lia). rewrite E. reflexivity. }
  step_u8.
  erewrite bind_ok.
  2:{ destruct (Z.ltb_spec 0 (zlen (m_old m))); [apply take_app|].
      assert (E : m_old m = []) by (apply zlen_zero_nil; lia). rewrite E. reflexivity. }
  unfold ret, env_size. destruct m; reflexivity.
Qed.

Lemma env_loop_enc : forall ms fuel total n acc r, Forall wf_envmember ms ->
  (length ms < fuel)%nat -> 0 <= n -> n + zsum (map env_size ms) = total -> total < 65536 ->
  env_loop fuel total n acc (concat (map enc_envmember ms) ++ r) = POk (acc ++ ms) r.
Proof.
  induction ms as [|m ms IH]; intros fuel total n acc r Hwf Hfuel Hn Hsum Htot.
  - destruct fuel as [|k]; [cbn in Hfuel; lia|]. cbn [env_loop map concat zsum fold_right app] in *.
    replace (n <? total) with false by (symmetry; apply Z.ltb_ge; lia).
    replace (total <? n) with false by (symmetry; apply Z.ltb_ge; lia). rewrite app_nil_r. reflexivity.
  - destruct fuel as [|k]; [cbn in Hfuel; lia|]. inversion Hwf as [|? ? Hm Hms]; subst.
    cbn [map concat zsum fold_right] in *. rewrite <- app_assoc. cbn [env_loop].
    assert (Hsz : 3 <= env_size m) by (unfold env_size; pose proof (zlen_nonneg (m_new m)); pose proof (zlen_nonneg (m_old m)); lia).
    assert (Hrest : 0 <= zsum (map env_size ms)).
    { clear. induction ms as [|x l IHl]; [cbn; lia|]. cbn [map zsum fold_right]. unfold env_size at 1.
      pose proof (zlen_nonneg (m_new x)). pose proof (zlen_nonneg (m_old x)). unfold zsum in IHl. lia. }
    unfold zsum in *.
    replace (n <? n + (env_size m + fold_right Z.add 0 (map env_size ms))) with true by (symmetry; apply Z.ltb_lt; lia).
    erewrite bind_ok by (apply dec_envmember_enc; exact Hm). cbn [fst snd].
    rewrite Z.mod_small by lia.
    rewrite (IH k (n + (env_size m + fold_right Z.add 0 (map env_size ms))) (n + env_size m) (acc ++ [m]) r Hms); [|cbn in Hfuel; lia|lia|unfold zsum; lia|lia].
    rewrite <- app_assoc. reflexivity.
Qed.

Theorem envchange_roundtrip ms r : Forall wf_envmember ms -> zsum (map env_size ms) < 65536 ->
  exists body, enc_envchange ms = tok_envchange :: body /\ dec_envchange (body ++ r) = POk ms r /\
               zlen body = 2 + zsum (map env_size ms).
Proof.
  intros Hwf Htot.
  assert (Hrest : 0 <= zsum (map env_size ms) /\ 3 * zlen ms <= zsum (map env_size ms)).
  { clear. induction ms as [|x l IHl]; [cbn; lia|]. cbn [map zsum fold_right]. rewrite zlen_cons. unfold env_size at 1 3.
    pose proof (zlen_nonneg (m_new x)). pose proof (zlen_nonneg (m_old x)). unfold zsum in *. lia. }
  unfold enc_envchange. eexists. split; [reflexivity|]. split.
  - unfold dec_envchange. rewrite <- app_assoc.
    change (fun m : envmember => 3 + zlen (m_new m) + zlen (m_old m)) with env_size.
    rewrite Z.mod_small by lia. step_u16.
    rewrite (env_loop_enc ms _ (zsum (map env_size ms)) 0 [] r Hwf); [reflexivity| |lia|lia|exact Htot].
    destruct Hrest as [H0 H3]. unfold zlen in H3.
    assert (Hq : Z.of_nat (length ms) <= zsum (map env_size ms) / 3) by (apply Z.div_le_lower_bound; lia).
    lia.
  - change (fun m : envmember => 3 + zlen (m_new m) + zlen (m_old m)) with env_size.
    rewrite zlen_app, zlen_bytes_of_le. f_equal.
    clear. induction ms as [|x l IHl]; [reflexivity|]. cbn [map concat zsum fold_right]. rewrite zlen_app, IHl.
    unfold enc_envmember, env_size. rewrite !zlen_app, zlen_bytes_of_le, !zlen_lp8. unfold zsum. lia.
Qed.
