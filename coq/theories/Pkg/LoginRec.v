(* The fixed-layout TDS 5.0 login record: LoginConfig.pack (tds/loginConfig.go), writeString (tds/helper.go),
   writeBasedOnEndian (tds/binary.go, endian = little).  Kind id 1000 (no token).  The library has no reader.
     enc_login            the model of pack()                         (None = pack returns an error)
     parse_login_record   an independent strict decoder of the TDS 5.0 layout
     fields               what a server must see for a configuration
   pack() never writes anything into the remote-password slot and ignores LoginConfig.RemoteServers
   (they travel later as parameters of the encrypted login). *)
From Coq Require Import ZArith List Bool Lia.
Import ListNotations.
From V Require Import Base.Tree Base.Bytes Base.BytesFacts Base.Parser Base.ParserFacts.
Open Scope Z_scope.

Record login_cfg := {
  lc_hostname : bytes; lc_username : bytes; lc_password : bytes; lc_hostproc : bytes;
  lc_appname : bytes; lc_servname : bytes; lc_language : bytes; lc_charset : bytes;
  lc_encrypt : Z; lc_remote : list (bytes * bytes) }.

(* ---------------------------------------------------------------- model of the writer *)
(* writeString(stream, s, padTo): error if len(s) > padTo; else s, padTo-len(s) zero bytes, byte(len(s)) *)
Definition slot (pad : Z) (s : bytes) : option bytes :=
  if pad <? zlen s then None else Some (s ++ zeros (pad - zlen s) ++ [zlen s mod 256]).

Definition obind {A B} (o : option A) (f : A -> option B) : option B :=
  match o with Some a => f a | None => None end.

(* TDS_MSG_SEC_ENCRYPT = 1, ENCRYPT2 = 14, ENCRYPT3 = 30, ENCRYPT4 = 35 *)
Definition enc_mode (e : Z) : bool := (e =? 1) || (e =? 14) || (e =? 30) || (e =? 35).
Definition seclogin_of (e : Z) : Z :=
  if e =? 1 then 1 else if e =? 14 then 33 else if (e =? 30) || (e =? 35) then 161 else 0.
Definition library_name : bytes := [103; 111; 45; 97; 115; 101; 47; 116; 100; 115].   (* "go-ase/tds" *)
Definition library_version : bytes := [0; 1; 0; 0].
Definition packet_size_text : bytes := [53; 49; 50].                                    (* "512" *)
Definition written_password (c : login_cfg) : bytes := if enc_mode (lc_encrypt c) then [] else lc_password c.

Definition enc_login (c : login_cfg) : option bytes :=
  obind (slot 30 (lc_hostname c)) (fun hostname =>
  obind (slot 30 (lc_username c)) (fun username =>
  obind (slot 30 (written_password c)) (fun password =>
  obind (slot 30 (lc_hostproc c)) (fun hostproc =>
  obind (slot 30 (lc_appname c)) (fun appname =>
  obind (slot 30 (lc_servname c)) (fun servname =>
  obind (slot 255 []) (fun rempw =>
  obind (slot 10 library_name) (fun progname =>
  obind (slot 30 (lc_language c)) (fun language =>
  obind (slot 30 (lc_charset c)) (fun charset =>
  obind (slot 6 packet_size_text) (fun packetsize =>
  Some (hostname ++ username ++ password ++ hostproc ++
        (* lint2 lint4 lchar lflt ldate lusedb ldmpld linterfacespare ltype *)
        3 :: 1 :: 6 :: 10 :: 9 :: 1 :: 1 :: 0 :: 0 ::
        zeros 4 ++ zeros 3 ++                                (* lbufsize, lspare *)
        appname ++ servname ++ rempw ++
        5 :: 0 :: 0 :: 0 ::                                  (* ltds *)
        progname ++ library_version ++
        0 :: 13 :: 17 ::                                     (* lnoshort lflt4 ldate4 *)
        language ++
        1 :: zeros 2 ++                                      (* lsetlang, loldsecure *)
        seclogin_of (lc_encrypt c) :: 1 :: 1 ::              (* lseclogin lsecbulk lhalogin *)
        zeros 6 ++ zeros 2 ++                                (* lhasessionid, lsecspare *)
        charset ++
        1 ::                                                 (* lsetcharset *)
        packetsize ++ zeros 4)))))))))))).

Definition fits (pad : Z) (s : bytes) : Prop := zlen s <= pad.
Definition fields_fit (c : login_cfg) : Prop :=
  fits 30 (lc_hostname c) /\ fits 30 (lc_username c) /\ fits 30 (written_password c) /\ fits 30 (lc_hostproc c) /\
  fits 30 (lc_appname c) /\ fits 30 (lc_servname c) /\ fits 30 (lc_language c) /\ fits 30 (lc_charset c).
Definition fitsb (pad : Z) (s : bytes) : bool := zlen s <=? pad.
Definition fields_fitb (c : login_cfg) : bool :=
  fitsb 30 (lc_hostname c) && fitsb 30 (lc_username c) && fitsb 30 (written_password c) && fitsb 30 (lc_hostproc c) &&
  fitsb 30 (lc_appname c) && fitsb 30 (lc_servname c) && fitsb 30 (lc_language c) && fitsb 30 (lc_charset c).

Definition login_record_length : Z := 568.

(* ---------------------------------------------------------------- independent decoder (TDS 5.0 layout) *)
Record login_fields := {
  lf_hostname : bytes; lf_username : bytes; lf_password : bytes; lf_hostproc : bytes;
  lf_int2 : Z; lf_int4 : Z; lf_char : Z; lf_flt : Z; lf_date : Z; lf_usedb : Z; lf_dmpld : Z;
  lf_interfacespare : Z; lf_type : Z; lf_bufsize : bytes; lf_spare : bytes;
  lf_appname : bytes; lf_servname : bytes; lf_rempw : bytes;
  lf_tds : bytes; lf_progname : bytes; lf_progvers : bytes;
  lf_noshort : Z; lf_flt4 : Z; lf_date4 : Z;
  lf_language : bytes; lf_setlang : Z; lf_oldsecure : bytes; lf_seclogin : Z; lf_secbulk : Z; lf_halogin : Z;
  lf_hasessionid : bytes; lf_secspare : bytes;
  lf_charset : bytes; lf_setcharset : Z; lf_packetsize : bytes; lf_dummy : bytes }.

Definition all_zero (bs : bytes) : bool := forallb (Z.eqb 0) bs.

(* a name slot: pad bytes followed by the length byte; the length must not exceed pad and the bytes
   after the name must be zero *)
Definition p_slot (pad : Z) : parser bytes :=
  let* body := take pad in
  let* n := u8 in
  if pad <? n then fail 1
  else if all_zero (zdrop n body) then ret (ztake n body) else fail 1.

Definition p_login : parser login_fields :=
  let* hostname := p_slot 30 in
  let* username := p_slot 30 in
  let* password := p_slot 30 in
  let* hostproc := p_slot 30 in
  let* int2 := u8 in let* int4 := u8 in let* char := u8 in let* flt := u8 in let* date := u8 in
  let* usedb := u8 in let* dmpld := u8 in let* interfacespare := u8 in let* type := u8 in
  let* bufsize := take 4 in
  let* spare := take 3 in
  let* appname := p_slot 30 in
  let* servname := p_slot 30 in
  let* rempw := p_slot 255 in
  let* tdsv := take 4 in
  let* progname := p_slot 10 in
  let* progvers := take 4 in
  let* noshort := u8 in let* flt4 := u8 in let* date4 := u8 in
  let* language := p_slot 30 in
  let* setlang := u8 in
  let* oldsecure := take 2 in
  let* seclogin := u8 in let* secbulk := u8 in let* halogin := u8 in
  let* hasessionid := take 6 in
  let* secspare := take 2 in
  let* charset := p_slot 30 in
  let* setcharset := u8 in
  let* packetsize := p_slot 6 in
  let* dummy := take 4 in
  ret {| lf_hostname := hostname; lf_username := username; lf_password := password; lf_hostproc := hostproc;
         lf_int2 := int2; lf_int4 := int4; lf_char := char; lf_flt := flt; lf_date := date; lf_usedb := usedb;
         lf_dmpld := dmpld; lf_interfacespare := interfacespare; lf_type := type; lf_bufsize := bufsize;
         lf_spare := spare; lf_appname := appname; lf_servname := servname; lf_rempw := rempw; lf_tds := tdsv;
         lf_progname := progname; lf_progvers := progvers; lf_noshort := noshort; lf_flt4 := flt4;
         lf_date4 := date4; lf_language := language; lf_setlang := setlang; lf_oldsecure := oldsecure;
         lf_seclogin := seclogin; lf_secbulk := secbulk; lf_halogin := halogin; lf_hasessionid := hasessionid;
         lf_secspare := secspare; lf_charset := charset; lf_setcharset := setcharset;
         lf_packetsize := packetsize; lf_dummy := dummy |}.

(* the whole record, nothing left over *)
Definition parse_login_record (bs : bytes) : option login_fields :=
  match p_login bs with POk f [] => Some f | _ => None end.

(* what the server must find for a configuration: little-endian / IEEE / ASCII markers, TDS 5.0.0.0, the
   library's name and version, notification flags set, packet size "512", empty remote-password slot *)
Definition fields (c : login_cfg) : login_fields :=
  {| lf_hostname := lc_hostname c; lf_username := lc_username c; lf_password := written_password c;
     lf_hostproc := lc_hostproc c;
     lf_int2 := 3; lf_int4 := 1; lf_char := 6; lf_flt := 10; lf_date := 9; lf_usedb := 1; lf_dmpld := 1;
     lf_interfacespare := 0; lf_type := 0; lf_bufsize := [0; 0; 0; 0]; lf_spare := [0; 0; 0];
     lf_appname := lc_appname c; lf_servname := lc_servname c; lf_rempw := [];
     lf_tds := [5; 0; 0; 0]; lf_progname := library_name; lf_progvers := library_version;
     lf_noshort := 0; lf_flt4 := 13; lf_date4 := 17;
     lf_language := lc_language c; lf_setlang := 1; lf_oldsecure := [0; 0];
     lf_seclogin := seclogin_of (lc_encrypt c); lf_secbulk := 1; lf_halogin := 1;
     lf_hasessionid := [0; 0; 0; 0; 0; 0]; lf_secspare := [0; 0];
     lf_charset := lc_charset c; lf_setcharset := 1; lf_packetsize := packet_size_text; lf_dummy := [0; 0; 0; 0] |}.

(* ---------------------------------------------------------------- trees *)
(* configuration: (hostname username password hostproc appname servname language charset encrypt ((name pw) ...)) *)
Definition login_cfg_of_tree (t : tree) : login_cfg :=
  {| lc_hostname := t_bytes (t_nth 0 t); lc_username := t_bytes (t_nth 1 t); lc_password := t_bytes (t_nth 2 t);
     lc_hostproc := t_bytes (t_nth 3 t); lc_appname := t_bytes (t_nth 4 t); lc_servname := t_bytes (t_nth 5 t);
     lc_language := t_bytes (t_nth 6 t); lc_charset := t_bytes (t_nth 7 t); lc_encrypt := t_int (t_nth 8 t);
     lc_remote := map (fun e => (t_bytes (t_nth 0 e), t_bytes (t_nth 1 e))) (t_list (t_nth 9 t)) |}.
Definition login_cfg_tree (c : login_cfg) : tree :=
  TL [TB (lc_hostname c); TB (lc_username c); TB (lc_password c); TB (lc_hostproc c); TB (lc_appname c);
      TB (lc_servname c); TB (lc_language c); TB (lc_charset c); TI (lc_encrypt c);
      TL (map (fun e => TL [TB (fst e); TB (snd e)]) (lc_remote c))].
Definition login_fields_tree (f : login_fields) : tree :=
  TL [TB (lf_hostname f); TB (lf_username f); TB (lf_password f); TB (lf_hostproc f);
      TI (lf_int2 f); TI (lf_int4 f); TI (lf_char f); TI (lf_flt f); TI (lf_date f); TI (lf_usedb f); TI (lf_dmpld f);
      TI (lf_interfacespare f); TI (lf_type f); TB (lf_bufsize f); TB (lf_spare f);
      TB (lf_appname f); TB (lf_servname f); TB (lf_rempw f); TB (lf_tds f); TB (lf_progname f); TB (lf_progvers f);
      TI (lf_noshort f); TI (lf_flt4 f); TI (lf_date4 f); TB (lf_language f); TI (lf_setlang f); TB (lf_oldsecure f);
      TI (lf_seclogin f); TI (lf_secbulk f); TI (lf_halogin f); TB (lf_hasessionid f); TB (lf_secspare f);
      TB (lf_charset f); TI (lf_setcharset f); TB (lf_packetsize f); TB (lf_dummy f)].

(* kind 1001: writeString on its own, fields (padTo #s) *)
Definition enc_slot_tree (t : tree) : option bytes :=
  let pad := t_int (t_nth 0 t) in
  if pad <? 0 then None else slot pad (t_bytes (t_nth 1 t)).
