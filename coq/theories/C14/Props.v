(* C14 — transport failure yields a clean prefix and then an error.  Property theorems only. *)
From Coq Require Import ZArith List Bool.
Import ListNotations.
From V Require Import Base.Tree Base.Bytes Rx.Model Rx.Transport Rx.TransportProofs Rx.TransportPrefix Rx.PrefixProofs.
Open Scope Z_scope.

(* whatever the partition into reads, the reader yields the packets of the stream it received *)
Theorem C14_reader_yields_stream_packets : forall fuel segs, nonempty_segs segs ->
  read_all fuel segs = parse_stream fuel (concat segs).
Proof. exact transport_independent. Qed.

(* If the transport fails after the first k bytes of a stream, the reader yields a prefix of the packets of the
   whole stream — every packet completely contained in those bytes and no other — and then the failure: a packet
   is never built from incomplete data. *)
Theorem C14_prefix_then_failure : forall fuel bs more,
  exists pre, parse_stream fuel bs = pre ++ [IFail] /\ Forall (fun i => i <> IFail) pre /\
              exists post, parse_stream (fuel + length more) (bs ++ more) = pre ++ post.
Proof. exact parse_stream_prefix. Qed.

(* ... and that prefix is maximal: what is left of the received bytes after the yielded packets is not a complete
   packet (shorter than a header, or shorter than the length its header announces) *)
Theorem C14_every_complete_packet : forall fuel bs, (length bs < fuel)%nat ->
  exists pre, parse_stream fuel bs = pre ++ [IFail] /\ Forall not_fail pre /\
              0 <= zsum (map wire pre) <= zlen bs /\ incomplete (zdrop (zsum (map wire pre)) bs).
Proof. exact parse_stream_maximal. Qed.

(* Channel: what the consumer gets from the packets received before the failure is a prefix of what it gets from
   the whole response ... *)
Theorem C14_channel_prefix : forall need nenv ps1 ps2 st, exists more,
  fst (rx_run need nenv st (ps1 ++ ps2)) = fst (rx_run need nenv st ps1) ++ more.
Proof. exact rx_prefix. Qed.

(* ... and as long as no end-of-message packet has been received, no final DONE is synthesised — for every byte
   content of the packets, complete packages or not *)
Theorem C14_no_spurious_final_done : forall need nenv ps st, eom st = false -> Forall (fun p => p_eom p = false) ps ->
  let '(ess, st') := rx_run need nenv st ps in forallb not_synth (concat ess) = true /\ eom st' = false.
Proof. exact no_spurious_done. Qed.

Print Assumptions C14_reader_yields_stream_packets.
Print Assumptions C14_every_complete_packet.
Print Assumptions C14_channel_prefix.
Print Assumptions C14_no_spurious_final_done.
Print Assumptions C14_prefix_then_failure.
