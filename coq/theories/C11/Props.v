(* C11 — server messages and environment changes are surfaced exactly once.  Property theorems only. *)
From Coq Require Import ZArith List Bool.
Import ListNotations.
From V Require Import Base.Tree Base.Bytes Pkg.Eed Rx.Model Rx.Generic Rx.Proofs Rx.Semantics Rx.Consumer Rx.ConsumerProofs.
Open Scope Z_scope.

(* Every parsed package yields exactly one of: (ENVCHANGE) hook / packet-size events only, nothing delivered, the
   remembered package unchanged; (informational EED) nothing at all; (anything else) the package delivered exactly
   once, for an EED preceded by one call of every registered hook in registration order. *)
Theorem C11_events_of_a_package : forall need nenv l tok body es l1 r, rx_step need nenv l tok body = SOk es l1 r ->
  (tok = tok_envchange /\ l1 = l /\ forallb (fun e => negb (is_deliver e)) es = true) \/
  (tok = tok_eed /\ es = [] /\ l1 = l) \/
  (tok <> tok_envchange /\ exists fields lp lr,
     l1 = Some {| l_tok := tok; l_fields := fields; l_param := lp; l_row := lr |} /\
     es = (if tok =? tok_eed then hook_calls need (fun i => EvEedHook i fields) else []) ++ [EvDeliver tok fields]).
Proof. exact step_events_shape. Qed.

(* each registered hook is called exactly once for a delivered message *)
Theorem C11_hook_once : forall n i fields, (0 <= i < Z.of_nat n) ->
  length (filter (is_eed_hook i) (hook_calls n (fun j => EvEedHook j fields))) = 1%nat.
Proof. exact hook_calls_filter. Qed.

(* exactly once also under fragmentation: the events of a message (hook calls included) do not depend on how it is
   cut into packets — a failed attempt on an incomplete package emits nothing *)
Theorem C11_exactly_once_under_fragmentation : forall need nenv chunks st,
  chunks <> [] -> Forall (fun c => c <> []) chunks -> eom st = false ->
  clean (rx_step need nenv) (lastp st) (buf st ++ concat chunks) = true ->
  flat_run need nenv st (mk_packets chunks) = flat_run need nenv st (mk_packets [concat chunks]).
Proof. exact rx_fragmentation_independent. Qed.

(* if the consumer's callback fails, the returned error carries all messages received so far, in order *)
Theorem C11_error_carries_messages : forall a x b d rest cb errs wait fuel nc eeds,
  resp_ok (a ++ x :: b) d \/ (b = [] /\ x = d /\ resp_ok a d) ->
  is_eed x = false -> continues cb nc a -> cb (nc + shown a)%nat x = CbErr ->
  (2 * (length a + length b) + 4 < fuel)%nat ->
  until fuel (a ++ x :: (match b with [] => (if is_done_final x then [] else [d]) | _ => b ++ [d] end) ++ rest) errs wait (Some cb) nc eeds
  = (UCbError (eeds ++ eeds_of a), rest, errs).
Proof. exact until_cb_error. Qed.

Print Assumptions C11_events_of_a_package.
Print Assumptions C11_hook_once.
Print Assumptions C11_exactly_once_under_fragmentation.
Print Assumptions C11_error_carries_messages.
