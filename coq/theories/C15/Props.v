(* C15 — the packet queue behaves as a byte FIFO across packet boundaries.
   Property theorems only; the model (C15/Model.v) is compared with tds/packetQueue.go on every run. *)
From Coq Require Import ZArith List Bool.
Import ListNotations.
From V Require Import Base.Tree Base.Bytes C15.Model C15.Spec C15.Proofs C15.ProofsTx.
Open Scope Z_scope.

(* (1) Reads return exactly the next unread bytes, across packet boundaries; a read beyond the
   available bytes reports not-enough-bytes (returning what was there) and leaves the packets untouched. *)
Theorem C15_read : forall n q, wfq q -> 0 < n ->
  (n <= zlen (rest q) -> exists q',
      qbytes n q = ROk (ztake n (rest q)) q' /\ rest q' = zdrop n (rest q) /\ same_frame q q' /\ wfq q') /\
  (zlen (rest q) < n -> exists q',
      qbytes n q = RNeb (rest q) q' /\ rest q' = [] /\ same_frame q q' /\ wfq q' /\ all_consumed q' = true).
Proof. exact qbytes_spec. Qed.

(* (2) Restoring the position saved before a failed read restores the identical state:
   all unread bytes are readable again. *)
Theorem C15_rollback : forall n q q' bs, qbytes n q = RNeb bs q' -> wfq q -> 0 < n ->
  set_position (ip q) (id q) q' = q.
Proof. exact rollback_exact. Qed.

(* (3) Discarding consumed data never drops an unread byte. *)
Theorem C15_discard : forall q, wfq q ->
  exists q', discard q = Some q' /\ rest q' = rest q /\ wfq q' /\ eom q' = eom q.
Proof. exact discard_rest. Qed.

(* (4) Every history of enqueued packets, reads of any size, typed reads, discards, resets and
   save/read/restore attempts, of any length, is observationally a flat byte FIFO. *)
Theorem C15_fifo : forall ops, conc_run empty_pq ops = fifo_run [] ops.
Proof. intros ops. apply fifo_refinement; [exact wfq_empty|reflexivity]. Qed.

(* (5) Writing (any packet size >= 9 per write, i.e. also changing between writes) appends exactly the
   written bytes; all packets before the position are completely filled with written bytes ([before] takes
   them whole), new packets are opened with the size in force, nothing else changes. *)
Theorem C15_write : forall ps bs q, 9 <= ps -> txw q ->
  exists q', write_bytes ps bs q = Some q' /\ txw q' /\ before q' = before q ++ bs /\ eom q' = eom q /\
    (bs <> [] -> 1 <= id q') /\ exists j, map plen (pkts q') = map plen (pkts q) ++ repeat ps j.
Proof. exact write_bytes_spec. Qed.

(* (6) Written bytes read back in order after a rewind, across the packets they were laid out in. *)
Theorem C15_write_rewind_read : forall ps bs n, 9 <= ps -> 0 < n <= zlen bs ->
  exists q' q'', write_bytes ps bs empty_pq = Some q' /\
    qbytes n (set_position 0 0 q') = ROk (ztake n bs) q''.
Proof. exact write_rewind_read. Qed.

(* (7) The full statement "a read beyond the available bytes reports not-enough-bytes" is REFUTED for
   bytes written into a tx packet: the packet's zero padding is returned as data (known finding
   C15/read-past-written-returns-padding; the model mirrors the code). *)
Theorem C15_pastwrite_refuted : exists q', write_bytes 18 [1; 2; 3] empty_pq = Some q' /\
  exists q'', qbytes 10 (set_position 0 0 q') = ROk [1; 2; 3; 0; 0; 0; 0; 0; 0; 0] q''.
Proof. eexists. split; [vm_compute; reflexivity|]. eexists. vm_compute. reflexivity. Qed.

(* non-vacuity: a reachable rx state with packets of different sizes, and a reachable tx state *)
Example C15_wfq_example :
  wfq (add_packet {| plen := 11; pdata := [4; 5; 6] |} true (add_packet {| plen := 10; pdata := [1; 2] |} false empty_pq)).
Proof. unfold wfq. vm_compute. repeat split; discriminate. Qed.
Example C15_txw_example : exists q, write_bytes 10 [1; 2; 3] empty_pq = Some q /\ txw q /\ npk q = 2.
Proof.
  destruct (write_bytes_spec 10 [1; 2; 3] empty_pq ltac:(discriminate) txw_empty) as [q [E [T _]]].
  exists q. split; [exact E|]. split; [exact T|]. vm_compute in E. inversion E. reflexivity.
Qed.

Print Assumptions C15_read.
Print Assumptions C15_rollback.
Print Assumptions C15_discard.
Print Assumptions C15_fifo.
Print Assumptions C15_write.
Print Assumptions C15_write_rewind_read.
Print Assumptions C15_pastwrite_refuted.
