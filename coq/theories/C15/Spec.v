(* C15: the abstract view of a packet queue (a flat byte tape with a cursor) and the
   executable specification predicates.  No proofs here. *)
From Coq Require Import ZArith List Bool.
Import ListNotations.
From V Require Import Base.Tree Base.Bytes C15.Model.
Open Scope Z_scope.

Definition pk_ok (p : packet) : Prop := plen p = 8 + zlen (pdata p).

(* all bytes held by the queue, in order *)
Definition flat (q : pq) : bytes := concat (map pdata (pkts q)).
(* the bytes behind the position: what reads will return *)
Definition rest (q : pq) : bytes :=
  zdrop (id q) (pdata (pkt_at q (ip q))) ++ concat (map pdata (zdrop (ip q + 1) (pkts q))).
(* the bytes before the position *)
Definition before (q : pq) : bytes :=
  concat (map pdata (ztake (ip q) (pkts q))) ++ ztake (id q) (pdata (pkt_at q (ip q))).

(* position inside the queue *)
Definition wfq (q : pq) : Prop :=
  0 <= ip q <= npk q /\ 0 <= id q <= zlen (pdata (pkt_at q (ip q))).

(* a queue that is only written to: position in the last packet *)
Definition txq (q : pq) : Prop :=
  Forall pk_ok (pkts q) /\
  ((pkts q = [] /\ ip q = 0 /\ id q = 0) \/
   (pkts q <> [] /\ ip q = npk q - 1 /\ 1 <= id q <= zlen (pdata (pkt_at q (ip q))))).

(* ---------- abstract tape: data + cursor; the reference the harness is compared with ---------- *)
Record tape := { tdata : bytes; tcur : Z }.
Definition tape_of (q : pq) : tape := {| tdata := flat q; tcur := zlen (before q) |}.
Definition tape_read (n : Z) (t : tape) : (Z * bytes) * tape :=
  let avail := zdrop (tcur t) (tdata t) in
  if n <=? zlen avail then ((0, ztake n avail), {| tdata := tdata t; tcur := tcur t + n |})
  else ((1, avail), {| tdata := tdata t; tcur := zlen (tdata t) |}).

(* ---------- executable spec predicate for rx-style histories (fn 2) ----------
   ops restricted to Add / Bytes / Read / typed reads / Discard / Reset / "try" (save, read, restore on
   shortage): the observable results must be those of a flat FIFO of the added bytes. *)
Inductive fop := FAdd (d : bytes) | FBytes (n : Z) | FLe (w : Z) | FDiscard | FReset | FTry (n : Z).

Fixpoint fifo_run (unreadb : bytes) (ops : list fop) : list tree :=
  match ops with
  | [] => []
  | FAdd d :: r => TL [] :: fifo_run (unreadb ++ d) r
  | FBytes n :: r =>
      if n =? 0 then TL [TI 0; TB []] :: fifo_run unreadb r
      else if n <? 0 then TL [TI 2; TB []] :: fifo_run unreadb r
      else if n <=? zlen unreadb then TL [TI 0; TB (ztake n unreadb)] :: fifo_run (zdrop n unreadb) r
      else TL [TI 1; TB unreadb] :: fifo_run [] r
  | FLe w :: r =>
      if w <? 0 then TL [TI 2; TI 0] :: fifo_run unreadb r
      else if w <=? zlen unreadb then TL [TI 0; TI (le_of_bytes (ztake w unreadb))] :: fifo_run (zdrop w unreadb) r
      else TL [TI 1; TI 0] :: fifo_run [] r
  | FDiscard :: r => TL [] :: fifo_run unreadb r
  | FReset :: r => TL [] :: fifo_run [] r
  | FTry n :: r =>
      if n =? 0 then TL [TI 0; TB []] :: fifo_run unreadb r
      else if n <? 0 then TL [TI 2; TB []] :: fifo_run unreadb r
      else if n <=? zlen unreadb then TL [TI 0; TB (ztake n unreadb)] :: fifo_run (zdrop n unreadb) r
      else TL [TI 1; TB unreadb] :: fifo_run unreadb r      (* restored: everything readable again *)
  end.

Definition fop_of_tree (t : tree) : fop :=
  match t with
  | TL [TI 1; TB d] => FAdd d
  | TL [TI 4; TI n] => FBytes n
  | TL [TI 5; TI n] => FBytes n      (* Read(p) = Bytes(len p) copied into p *)
  | TL [TI 6; TI w] => FLe w
  | TL [TI 3] => FDiscard
  | TL [TI 0] => FReset
  | TL [TI 8; TI n] => FTry n
  | _ => FReset
  end.

(* the same history on the concrete model *)
Fixpoint conc_run (q : pq) (ops : list fop) : list tree :=
  match ops with
  | [] => []
  | FAdd d :: r => TL [] :: conc_run (add_packet {| plen := 8 + zlen d; pdata := d |} false q) r
  | FBytes n :: r =>
      match qbytes n q with
      | ROk bs q' => TL [TI 0; TB bs] :: conc_run q' r
      | RNeb bs q' => TL [TI 1; TB bs] :: conc_run q' r
      | RErr q' => TL [TI 2; TB []] :: conc_run q' r
      | RPanic => [TL [TI (-1)]]
      end
  | FLe w :: r =>
      match qle w q with
      | ROk v q' => TL [TI 0; TI v] :: conc_run q' r
      | RNeb v q' => TL [TI 1; TI v] :: conc_run q' r
      | RErr q' => TL [TI 2; TI 0] :: conc_run q' r
      | RPanic => [TL [TI (-1)]]
      end
  | FDiscard :: r => match discard q with Some q' => TL [] :: conc_run q' r | None => [TL [TI (-1)]] end
  | FReset :: r => TL [] :: conc_run (reset q) r
  | FTry n :: r =>
      match qbytes n q with
      | ROk bs q' => TL [TI 0; TB bs] :: conc_run q' r
      | RNeb bs q' => TL [TI 1; TB bs] :: conc_run (set_position (ip q) (id q) q') r
      | RErr q' => TL [TI 2; TB []] :: conc_run q' r
      | RPanic => [TL [TI (-1)]]
      end
  end.

(* ---------- fn 4: the same with position save / restore as operations of their own (a restore may come any number of
   operations after the save, e.g. after further packets were enqueued); reference = a tape (bytes since the last
   discard, cursor, saved cursor).  A discard or reset invalidates the saved cursor (the harness does not restore then). *)
Inductive top := TOp (f : fop) | TSave | TRestore.
Record tstate := { ts_all : bytes; ts_cur : Z; ts_saved : option Z }.

Fixpoint tape_run (s : tstate) (ops : list top) : list tree :=
  match ops with
  | [] => []
  | TSave :: r => TL [] :: tape_run {| ts_all := ts_all s; ts_cur := ts_cur s; ts_saved := Some (ts_cur s) |} r
  | TRestore :: r =>
      TL [] :: tape_run {| ts_all := ts_all s; ts_cur := match ts_saved s with Some c => c | None => ts_cur s end; ts_saved := ts_saved s |} r
  | TOp f :: r =>
    let avail := zdrop (ts_cur s) (ts_all s) in
    let stay := s in
    let adv n := {| ts_all := ts_all s; ts_cur := ts_cur s + n; ts_saved := ts_saved s |} in
    let toend := {| ts_all := ts_all s; ts_cur := zlen (ts_all s); ts_saved := ts_saved s |} in
    match f with
    | FAdd d => TL [] :: tape_run {| ts_all := ts_all s ++ d; ts_cur := ts_cur s; ts_saved := ts_saved s |} r
    | FBytes n =>
        if n =? 0 then TL [TI 0; TB []] :: tape_run stay r
        else if n <? 0 then TL [TI 2; TB []] :: tape_run stay r
        else if n <=? zlen avail then TL [TI 0; TB (ztake n avail)] :: tape_run (adv n) r
        else TL [TI 1; TB avail] :: tape_run toend r
    | FLe w =>
        if w <? 0 then TL [TI 2; TI 0] :: tape_run stay r
        else if w <=? zlen avail then TL [TI 0; TI (le_of_bytes (ztake w avail))] :: tape_run (adv w) r
        else TL [TI 1; TI 0] :: tape_run toend r
    | FDiscard => TL [] :: tape_run {| ts_all := avail; ts_cur := 0; ts_saved := None |} r
    | FReset => TL [] :: tape_run {| ts_all := []; ts_cur := 0; ts_saved := None |} r
    | FTry n =>
        if n =? 0 then TL [TI 0; TB []] :: tape_run stay r
        else if n <? 0 then TL [TI 2; TB []] :: tape_run stay r
        else if n <=? zlen avail then TL [TI 0; TB (ztake n avail)] :: tape_run (adv n) r
        else TL [TI 1; TB avail] :: tape_run stay r
    end
  end.

Definition top_of_tree (t : tree) : top :=
  match t with
  | TL [TI 9] => TSave
  | TL [TI 10] => TRestore
  | _ => TOp (fop_of_tree t)
  end.

(* the same history on the concrete model; the saved position is the (packet index, data index) pair of Position() *)
Fixpoint conc_run4 (q : pq) (saved : option (Z * Z)) (ops : list top) : list tree :=
  match ops with
  | [] => []
  | TSave :: r => TL [] :: conc_run4 q (Some (ip q, id q)) r
  | TRestore :: r => TL [] :: conc_run4 (match saved with Some (a, b) => set_position a b q | None => q end) saved r
  | TOp f :: r =>
    match conc_run q [f] with
    | [o] =>
      let q' := match f with
                | FAdd d => Some (add_packet {| plen := 8 + zlen d; pdata := d |} false q)
                | FBytes n => match qbytes n q with ROk _ q' | RNeb _ q' | RErr q' => Some q' | RPanic => None end
                | FLe w => match qle w q with ROk _ q' | RNeb _ q' | RErr q' => Some q' | RPanic => None end
                | FDiscard => discard q
                | FReset => Some (reset q)
                | FTry n => match qbytes n q with
                            | ROk _ q' => Some q' | RNeb _ q' => Some (set_position (ip q) (id q) q') | RErr q' => Some q' | RPanic => None end
                end in
      match q' with
      | Some q1 => o :: conc_run4 q1 (match f with FDiscard | FReset => None | _ => saved end) r
      | None => [o]
      end
    | l => l
    end
  end.

(* tx-style history (fn 3): writes at constant packet size from an empty queue, then rewind and one read *)
Definition tx_layout_ok (ps : Z) (total : Z) (q : pq) : bool :=
  let body := ps - 8 in
  let full := total / body in
  let remn := total mod body in
  forallb (fun p => plen p =? ps) (pkts q) &&
  forallb (fun p => zlen (pdata p) =? body) (pkts q) &&
  (if total =? 0 then (npk q =? 0)
   else if remn =? 0 then (npk q =? full) && (ip q =? full - 1) && (id q =? body)
   else (npk q =? full + 1) && (ip q =? full) && (id q =? remn)).

(* ------------------------------------------------------------------ dispatch for the driver *)
Definition pkt_of_tree (t : tree) : packet :=
  match t with TL [TI l; TB d] => {| plen := l; pdata := d |} | _ => nil_packet end.
Definition pq_of_view (t : tree) : pq :=
  match t with
  | TL (TL ps :: TI a :: TI b :: TI e :: _) => {| pkts := map pkt_of_tree ps; ip := a; id := b; eom := negb (e =? 0) |}
  | _ => empty_pq
  end.

(* independent layout reference for writes with a packet size per write:
   packets as (capacity, written bytes), each filled completely before the next is opened *)
Fixpoint lay_bytes (fuel : nat) (ps : Z) (bs : bytes) (acc : list (Z * bytes)) : list (Z * bytes) :=
  match fuel with
  | O => acc
  | S f =>
    match bs with
    | [] => acc
    | _ :: _ =>
      match rev acc with
      | (c, w) :: racc =>
          if zlen w <? c
          then let k := zmin (zlen bs) (c - zlen w) in
               lay_bytes f ps (zdrop k bs) (rev racc ++ [(c, w ++ ztake k bs)])
          else lay_bytes f ps bs (acc ++ [(ps - 8, [])])
      | [] => lay_bytes f ps bs [(ps - 8, [])]
      end
    end
  end.
Fixpoint lay_all (ws : list (Z * bytes)) (acc : list (Z * bytes)) : list (Z * bytes) :=
  match ws with
  | [] => acc
  | (ps, bs) :: r => lay_all r (lay_bytes (2 * length bs + 2) ps bs acc)
  end.
Definition layout_matches (lay : list (Z * bytes)) (q : pq) : bool :=
  (zlen lay =? npk q) &&
  forallb (fun pr => let '((c, w), p) := pr in
             (plen p =? c + 8) && (zlen (pdata p) =? c) && list_Z_eqb (ztake (zlen w) (pdata p)) w)
          (combine lay (pkts q)) &&
  match rev lay with
  | [] => (ip q =? 0) && (id q =? 0)
  | (c, w) :: _ => (ip q =? npk q - 1) && (id q =? zlen w)
  end.

Definition writes_of_tree (t : tree) : list (Z * bytes) :=
  map (fun x => match x with TL [TI ps; TB bs] => (ps, bs) | _ => (0, []) end) (t_list t).

(* fn 1: arbitrary operation sequence, step results + state views  (model equality only)
   fn 2: rx-style history, observables                                (spec: flat FIFO)
   fn 3: writes (packet size per write) from an empty queue, then rewind and Bytes(n):
         input ((ps bytes)...) n ; output (view-after-writes read-result)
         (spec: layout reference; the read returns the written bytes, a read past them is not-enough-bytes) *)
Definition run (fn : Z) (i : tree) : tree :=
  match fn with
  | 1 => TL (run_ops empty_pq (map op_of_tree (t_list i)))
  | 2 => TL (conc_run empty_pq (map fop_of_tree (t_list i)))
  | 4 => TL (conc_run4 empty_pq None (map top_of_tree (t_list i)))
  | 3 =>
      let ws := writes_of_tree (t_nth 0 i) in
      let n := t_int (t_nth 1 i) in
      let q := fold_left (fun (oq : option pq) w => match oq with Some q => write_bytes (fst w) (snd w) q | None => None end)
                         ws (Some empty_pq) in
      match q with
      | None => TL [TI (-1)]
      | Some q =>
          match step (set_position 0 0 q) (OBytes n) with
          | (_, v) => TL [view q; obs_tree v]
          end
      end
  | _ => tbad
  end.

Definition spec (fn : Z) (i o : tree) : bool :=
  match fn with
  | 1 => true
  | 2 => tree_eqb o (TL (fifo_run [] (map fop_of_tree (t_list i))))
  | 4 => tree_eqb o (TL (tape_run {| ts_all := []; ts_cur := 0; ts_saved := None |} (map top_of_tree (t_list i))))
  | 3 =>
      let ws := writes_of_tree (t_nth 0 i) in
      let n := t_int (t_nth 1 i) in
      let written := concat (map snd ws) in
      let q := pq_of_view (t_nth 0 o) in
      layout_matches (lay_all ws []) q &&
      tree_eqb (t_nth 1 o)
        (if n =? 0 then TL [TI 0; TB []]
         else if n <=? zlen written then TL [TI 0; TB (ztake n written)]
         else TL [TI 1; TB written])
  | _ => false
  end.
