From Coq Require Import ZArith List Bool Lia.
Import ListNotations.
From V Require Import Base.Tree Base.Bytes Base.BytesFacts C15.Model C15.Spec.
Open Scope Z_scope.

Local Ltac zb :=
  repeat match goal with
  | H : (_ <? _) = true |- _ => apply Z.ltb_lt in H
  | H : (_ <? _) = false |- _ => apply Z.ltb_ge in H
  | H : (_ <=? _) = true |- _ => apply Z.leb_le in H
  | H : (_ <=? _) = false |- _ => apply Z.leb_gt in H
  | H : (_ =? _) = true |- _ => apply Z.eqb_eq in H
  | H : (_ =? _) = false |- _ => apply Z.eqb_neq in H
  end.

Lemma npk_nonneg q : 0 <= npk q.
Proof. unfold npk. apply zlen_nonneg. Qed.

Lemma pkt_at_out q i : npk q <= i -> pkt_at q i = nil_packet.
Proof. intros H. unfold pkt_at. apply znth_out. exact H. Qed.

(* the packets from i on, unfolded once *)
Lemma later_unfold (ps : list packet) i : 0 <= i ->
  concat (map pdata (zdrop i ps)) = pdata (znth i ps nil_packet) ++ concat (map pdata (zdrop (i + 1) ps)).
Proof.
  intros Hi. destruct (Z_lt_le_dec i (zlen ps)) as [Hlt|Hge].
  - rewrite (zdrop_cons_nth i ps nil_packet) by lia. reflexivity.
  - rewrite zdrop_all by lia. rewrite zdrop_all by lia. rewrite znth_out by lia. reflexivity.
Qed.

Lemma rest_next q : 0 <= ip q ->
  rest {| pkts := pkts q; ip := ip q + 1; id := 0; eom := eom q |}
  = concat (map pdata (zdrop (ip q + 1) (pkts q))).
Proof.
  intros Hi. unfold rest, pkt_at. cbn [pkts ip id]. rewrite zdrop_0.
  rewrite (later_unfold (pkts q) (ip q + 1)) by lia. reflexivity.
Qed.

Lemma all_consumed_rest q : wfq q -> all_consumed q = true -> rest q = [].
Proof.
  intros [[Hi1 Hi2] [Hd1 Hd2]] H. unfold all_consumed in H.
  apply orb_true_iff in H. destruct H as [H|H].
  - apply orb_true_iff in H. destruct H as [H|H].
    + apply andb_true_iff in H. destruct H as [H H3]. apply andb_true_iff in H. destruct H as [H1 H2]. zb.
      unfold rest. rewrite (pkt_at_out q (ip q)) by lia. cbn [pdata nil_packet]. rewrite zdrop_nil.
      rewrite zdrop_all by (fold (npk q); lia). reflexivity.
    + zb. unfold rest. rewrite (pkt_at_out q (ip q)) by lia. cbn [pdata nil_packet]. rewrite zdrop_nil.
      rewrite zdrop_all by (fold (npk q); lia). reflexivity.
  - apply andb_true_iff in H. destruct H as [H1 H2]. zb.
    unfold rest. rewrite zdrop_all by lia. rewrite zdrop_all by (fold (npk q); lia). reflexivity.
Qed.

Lemma not_consumed_lt q : wfq q -> all_consumed q = false -> ip q < npk q.
Proof.
  intros [[Hi1 Hi2] _] H. unfold all_consumed in H.
  apply orb_false_iff in H. destruct H as [H _]. apply orb_false_iff in H. destruct H as [_ H]. zb. lia.
Qed.

Definition same_frame (q q' : pq) : Prop := pkts q' = pkts q /\ eom q' = eom q.

Lemma loop_spec n : forall fuel q acc,
  wfq q -> npk q - ip q < Z.of_nat fuel -> zlen acc < n ->
  let need := n - zlen acc in
  (need <= zlen (rest q) -> exists q',
      bytes_loop fuel n acc q = ROk (acc ++ ztake need (rest q)) q' /\
      rest q' = zdrop need (rest q) /\ same_frame q q' /\ wfq q') /\
  (zlen (rest q) < need -> exists q',
      bytes_loop fuel n acc q = RNeb (acc ++ rest q) q' /\
      rest q' = [] /\ same_frame q q' /\ wfq q' /\ all_consumed q' = true).
Proof.
  induction fuel as [|fuel IH]; intros q acc Hwf Hfuel Hacc need.
  - pose proof (npk_nonneg q). destruct Hwf as [[? ?] _]. lia.
  - cbn [bytes_loop]. destruct (all_consumed q) eqn:Hac.
    + pose proof (all_consumed_rest q Hwf Hac) as Hr. rewrite Hr. cbn [zlen length]. split.
      * intros Hle. unfold need in Hle. change (zlen (@nil Z)) with 0 in Hle. lia.
      * intros _. exists q. rewrite app_nil_r. split; [reflexivity|]. split; [exact Hr|].
        split; [split; reflexivity|]. split; [exact Hwf|exact Hac].
    + pose proof (not_consumed_lt q Hwf Hac) as Hlt.
      destruct Hwf as [[Hi1 Hi2] [Hd1 Hd2]].
      assert (G1 : (ip q <? 0) || (npk q <=? ip q) = false).
      { apply orb_false_iff. split; [apply Z.ltb_ge; lia|apply Z.leb_gt; lia]. }
      rewrite G1.
      set (data := pdata (pkt_at q (ip q))) in *.
      set (later := concat (map pdata (zdrop (ip q + 1) (pkts q)))).
      assert (Hrest : rest q = zdrop (id q) data ++ later) by reflexivity.
      assert (Hdl : zlen (zdrop (id q) data) = zlen data - id q) by (apply zlen_zdrop; lia).
      fold need.
      destruct (Z.ltb_spec (zlen data) (id q + need)) as [Hbig|Hsmall].
      * (* the rest of this packet is taken entirely *)
        assert (G2 : (id q <? 0) || (zlen data <? id q) = false).
        { apply orb_false_iff. split; apply Z.ltb_ge; lia. }
        rewrite G2. rewrite Z.eqb_refl.
        assert (Hsl : zslice (id q) (zlen data) data = zdrop (id q) data).
        { unfold zslice. apply ztake_all. lia. }
        rewrite Hsl.
        set (q1 := {| pkts := pkts q; ip := ip q + 1; id := 0; eom := eom q |}).
        assert (Hr1 : rest q1 = later) by (apply rest_next; lia).
        assert (Hwf1 : wfq q1).
        { unfold wfq, q1, npk, pkt_at. cbn [ip id pkts]. fold (npk q). split; [lia|]. split; [lia|apply zlen_nonneg]. }
        rewrite zlen_app, Hdl.
        destruct (Z.eqb_spec (zlen acc + (zlen data - id q)) n) as [Heq|Hne].
        -- lia.
        -- assert (Hacc' : zlen (acc ++ zdrop (id q) data) < n) by (rewrite zlen_app, Hdl; lia).
           assert (Hfuel' : npk q1 - ip q1 < Z.of_nat fuel) by (unfold q1, npk; cbn [pkts ip]; fold (npk q); lia).
           destruct (IH q1 (acc ++ zdrop (id q) data) Hwf1 Hfuel' Hacc') as [IHok IHneb].
           rewrite zlen_app, Hdl in IHok, IHneb. rewrite Hr1 in IHok, IHneb.
           rewrite Hrest, zlen_app, Hdl. split.
           ++ intros Hle. destruct IHok as [q' [E [R [F W]]]]; [unfold need in *; lia|].
              exists q'. split; [|split; [|split; [|exact W]]].
              ** rewrite E. f_equal. rewrite <- app_assoc. f_equal.
                 rewrite ztake_app_r by lia. f_equal. f_equal. unfold need. lia.
              ** rewrite R. rewrite zdrop_app_r by lia. f_equal. unfold need. lia.
              ** exact F.
           ++ intros Hgt. destruct IHneb as [q' [E [R [F [W A]]]]]; [unfold need in *; lia|].
              exists q'. split; [|split; [|split; [|split; [exact W|exact A]]]].
              ** rewrite E. rewrite <- app_assoc. reflexivity.
              ** exact R.
              ** exact F.
      * (* the request ends inside (or exactly at the end of) this packet *)
        assert (Hneedpos : 0 < need) by (unfold need; lia).
        assert (G2 : (id q <? 0) || (id q + need <? id q) = false).
        { apply orb_false_iff. split; apply Z.ltb_ge; lia. }
        rewrite G2.
        assert (Hsl : zslice (id q) (id q + need) data = ztake need (zdrop (id q) data)).
        { unfold zslice. f_equal. lia. }
        rewrite Hsl.
        assert (Htl : zlen (ztake need (zdrop (id q) data)) = need) by (apply zlen_ztake; lia).
        rewrite zlen_app, Htl.
        replace (zlen acc + need =? n) with true by (symmetry; apply Z.eqb_eq; unfold need; lia).
        pose proof (zlen_nonneg later) as Hlater.
        rewrite Hrest, zlen_app, Hdl. split; [|intros; lia].
        intros _. rewrite ztake_app_l by lia. rewrite zdrop_app_l by lia.
        destruct (Z.eqb_spec (id q + need) (zlen data)) as [Heq|Hne].
        -- eexists. split; [reflexivity|]. split; [|split; [split; reflexivity|]].
           ++ rewrite rest_next by lia. fold later. rewrite zdrop_all by lia. reflexivity.
           ++ unfold wfq, npk, pkt_at. cbn [ip id pkts]. fold (npk q). split; [lia|]. split; [lia|apply zlen_nonneg].
        -- eexists. split; [reflexivity|]. split; [|split; [split; reflexivity|]].
           ++ unfold rest. cbn [ip id pkts]. fold data. fold later. rewrite zdrop_zdrop by lia.
              f_equal. f_equal. lia.
           ++ unfold wfq, npk, pkt_at. cbn [ip id pkts]. fold (npk q). fold (pkt_at q (ip q)). fold data. lia.
Qed.

Lemma unread_spec q : wfq q -> unread q = Some (zlen (rest q)).
Proof.
  intros [[Hi1 Hi2] [Hd1 Hd2]]. unfold unread.
  replace (ip q <? 0) with false by (symmetry; apply Z.ltb_ge; lia).
  f_equal. unfold rest. rewrite zlen_app, zlen_concat, map_map.
  destruct (Z.ltb_spec (ip q) (npk q)) as [Hlt|Hge].
  - rewrite (zdrop_cons_nth (ip q) (pkts q) nil_packet) by (fold (npk q); lia).
    cbn [map zsum fold_right]. fold (pkt_at q (ip q)). rewrite zlen_zdrop by lia.
    unfold zsum. lia.
  - rewrite zdrop_all by (fold (npk q); lia). rewrite (zdrop_all (ip q + 1)) by (fold (npk q); lia).
    rewrite pkt_at_out by lia. cbn [pdata nil_packet map zsum fold_right].
    assert (E : zdrop (id q) (@nil Z) = []) by (unfold zdrop; destruct (Z.to_nat (id q)); reflexivity).
    rewrite E. reflexivity.
Qed.

(* Reading n > 0 bytes: exactly the next n unread bytes, or everything that is left + not-enough-bytes.
   The packets themselves are never changed by a read. *)
Lemma qbytes_spec n q : wfq q -> 0 < n ->
  (n <= zlen (rest q) -> exists q',
      qbytes n q = ROk (ztake n (rest q)) q' /\ rest q' = zdrop n (rest q) /\ same_frame q q' /\ wfq q') /\
  (zlen (rest q) < n -> exists q',
      qbytes n q = RNeb (rest q) q' /\ rest q' = [] /\ same_frame q q' /\ wfq q' /\ all_consumed q' = true).
Proof.
  intros Hwf Hn. unfold qbytes.
  replace (n =? 0) with false by (symmetry; apply Z.eqb_neq; lia).
  replace (n <? 0) with false by (symmetry; apply Z.ltb_ge; lia).
  rewrite (unread_spec q Hwf).
  assert (G : ((if zlen (rest q) <? n then zlen (rest q) else n) <? 0) = false).
  { apply Z.ltb_ge. pose proof (zlen_nonneg (rest q)). destruct (zlen (rest q) <? n); lia. }
  rewrite G.
  assert (Hfuel : npk q - ip q < Z.of_nat (S (length (pkts q)))).
  { destruct Hwf as [[? ?] _]. unfold npk, zlen. lia. }
  assert (Hacc : zlen (@nil Z) < n) by (cbn; lia).
  destruct (loop_spec n (S (length (pkts q))) q [] Hwf Hfuel Hacc) as [A B].
  cbn [zlen length app] in A, B. change (Z.of_nat 0) with 0 in A, B. rewrite Z.sub_0_r in A, B.
  split; [exact A|exact B].
Qed.

(* restoring the position saved before a failed read gives back the identical state *)
Lemma rollback_exact n q q' bs : qbytes n q = RNeb bs q' -> wfq q -> 0 < n ->
  set_position (ip q) (id q) q' = q.
Proof.
  intros H Hwf Hn. destruct (qbytes_spec n q Hwf Hn) as [A B].
  destruct (Z_le_gt_dec n (zlen (rest q))) as [Hle|Hgt].
  - destruct (A Hle) as [q1 [E _]]. rewrite E in H. discriminate.
  - destruct (B ltac:(lia)) as [q1 [E [_ [[F1 F2] _]]]]. rewrite E in H. inversion H; subst q1.
    unfold set_position. rewrite F1, F2. destruct q; reflexivity.
Qed.

(* adding a packet appends its data to the unread bytes *)
Lemma add_rest d e q : wfq q -> ip q < npk q \/ (ip q = npk q /\ id q = 0) ->
  rest (add_packet {| plen := 8 + zlen d; pdata := d |} e q) = rest q ++ d
  /\ wfq (add_packet {| plen := 8 + zlen d; pdata := d |} e q).
Proof.
  intros [[Hi1 Hi2] [Hd1 Hd2]] Hpos. unfold wfq, rest, add_packet, npk, pkt_at in *. cbn [pkts ip id].
  destruct Hpos as [Hlt|[Heq Hid]].
  - rewrite znth_app_l by lia. split.
    + rewrite zdrop_app_l by lia. rewrite map_app, concat_app. cbn [map concat].
      rewrite app_nil_r, app_assoc. reflexivity.
    + rewrite zlen_app. pose proof (zlen_nonneg [{| plen := 8 + zlen d; pdata := d |}]). lia.
  - rewrite Heq, Hid. unfold npk. rewrite znth_app_exact. cbn [pdata]. rewrite zdrop_0.
    rewrite (znth_out (zlen (pkts q)) (pkts q)) by lia. cbn [pdata nil_packet].
    rewrite (zdrop_all (zlen (pkts q) + 1) (pkts q ++ _)) by (rewrite zlen_app; change (zlen [{| plen := 8 + zlen d; pdata := d |}]) with 1; lia).
    rewrite (zdrop_all (zlen (pkts q) + 1) (pkts q)) by lia. cbn [map concat]. rewrite zdrop_nil.
    split; [rewrite app_nil_r; reflexivity|].
    assert (Hone : zlen [{| plen := 8 + zlen d; pdata := d |}] = 1) by reflexivity.
    rewrite zlen_app, Hone.
    pose proof (zlen_nonneg d). pose proof (zlen_nonneg (pkts q)). lia.
Qed.

(* discarding consumed packets never drops an unread byte *)
Lemma discard_rest q : wfq q -> exists q', discard q = Some q' /\ rest q' = rest q /\ wfq q' /\ eom q' = eom q.
Proof.
  intros [[Hi1 Hi2] [Hd1 Hd2]]. unfold discard.
  replace ((ip q <? 0) || (npk q <? ip q)) with false
    by (symmetry; apply orb_false_iff; split; apply Z.ltb_ge; lia).
  destruct (Z.ltb_spec (ip q) (npk q)) as [Hlt|Hge].
  - rewrite (zdrop_cons_nth (ip q) (pkts q) nil_packet) by (fold (npk q); lia). fold (pkt_at q (ip q)).
    destruct (Z.leb_spec (zlen (pdata (pkt_at q (ip q)))) (id q)) as [Hfull|Hpart].
    + eexists. split; [reflexivity|]. split; [|split; [|reflexivity]].
      * unfold rest, pkt_at. cbn [pkts ip id]. rewrite zdrop_0.
        rewrite <- (later_unfold (zdrop (ip q + 1) (pkts q)) 0) by lia. rewrite zdrop_0.
        fold (pkt_at q (ip q)). rewrite (zdrop_all (id q)) by lia. reflexivity.
      * unfold wfq, npk. cbn [pkts ip id]. split; [pose proof (zlen_nonneg (zdrop (ip q + 1) (pkts q))); lia|].
        split; [lia|apply zlen_nonneg].
    + eexists. split; [reflexivity|]. split; [|split; [|reflexivity]].
      * unfold rest. cbn [pkts ip id]. reflexivity.
      * unfold wfq, npk. cbn [pkts ip id]. rewrite zlen_cons.
        change (pkt_at {| pkts := pkt_at q (ip q) :: zdrop (ip q + 1) (pkts q); ip := 0; id := id q; eom := eom q |} 0)
          with (pkt_at q (ip q)).
        pose proof (zlen_nonneg (zdrop (ip q + 1) (pkts q))). lia.
  - rewrite zdrop_all by (fold (npk q); lia). eexists. split; [reflexivity|]. split; [|split; [|reflexivity]].
    + unfold rest, pkt_at. cbn [pkts ip id]. rewrite znth_out by (cbn; lia). cbn [pdata nil_packet].
      rewrite (znth_out (ip q)) by (fold (npk q); lia). cbn [pdata nil_packet].
      rewrite (zdrop_all (ip q + 1)) by (fold (npk q); lia).
      assert (E : forall k, zdrop k (@nil Z) = []) by (intros k; unfold zdrop; destruct (Z.to_nat k); reflexivity).
      rewrite !E. reflexivity.
    + unfold wfq, npk, pkt_at. cbn. lia.
Qed.

(* ------------------------------------------------------------------ histories *)
Lemma wfq_empty : wfq empty_pq.
Proof. unfold wfq, empty_pq, npk, pkt_at. cbn. lia. Qed.
Lemma rest_empty : rest empty_pq = [].
Proof. reflexivity. Qed.

Lemma wfq_pos q : wfq q -> ip q < npk q \/ (ip q = npk q /\ id q = 0).
Proof.
  intros [[Hi1 Hi2] [Hd1 Hd2]]. destruct (Z_lt_le_dec (ip q) (npk q)) as [H|H]; [left; exact H|right].
  split; [lia|]. rewrite pkt_at_out in Hd2 by lia. cbn in Hd2. lia.
Qed.

Lemma qbytes_zero q : qbytes 0 q = ROk [] q.
Proof. reflexivity. Qed.
Lemma qbytes_neg n q : n < 0 -> qbytes n q = RErr q.
Proof.
  intros H. unfold qbytes. replace (n =? 0) with false by (symmetry; apply Z.eqb_neq; lia).
  replace (n <? 0) with true by (symmetry; apply Z.ltb_lt; lia). reflexivity.
Qed.

Theorem fifo_refinement : forall ops q u, wfq q -> rest q = u -> conc_run q ops = fifo_run u ops.
Proof.
  induction ops as [|o ops IH]; intros q u Hwf Hr; [reflexivity|].
  destruct o as [d|n|w| | |n]; cbn [conc_run fifo_run].
  - (* add *)
    destruct (add_rest d false q Hwf (wfq_pos q Hwf)) as [R W]. f_equal. apply IH; [exact W|]. rewrite R, Hr. reflexivity.
  - (* bytes *)
    destruct (Z.eqb_spec n 0) as [E0|N0].
    + subst n. rewrite qbytes_zero. f_equal. apply IH; assumption.
    + destruct (Z.ltb_spec n 0) as [Hneg|Hpos].
      * rewrite qbytes_neg by lia. f_equal. apply IH; assumption.
      * destruct (qbytes_spec n q Hwf ltac:(lia)) as [A B]. rewrite Hr in A, B.
        destruct (Z.leb_spec n (zlen u)) as [Hle|Hgt].
        -- destruct (A Hle) as [q' [E [R [_ W]]]]. rewrite E. f_equal. apply IH; assumption.
        -- destruct (B Hgt) as [q' [E [R [_ [W _]]]]]. rewrite E. f_equal. apply IH; assumption.
  - (* typed read *)
    unfold qle. destruct (Z.ltb_spec w 0) as [Hneg|Hpos].
    + rewrite qbytes_neg by lia. f_equal. apply IH; assumption.
    + destruct (Z.eqb_spec w 0) as [E0|N0].
      * subst w. rewrite qbytes_zero. replace (0 <=? zlen u) with true by (symmetry; apply Z.leb_le; apply zlen_nonneg).
        rewrite ztake_neg by lia. rewrite zdrop_0. f_equal. apply IH; assumption.
      * destruct (qbytes_spec w q Hwf ltac:(lia)) as [A B]. rewrite Hr in A, B.
        destruct (Z.leb_spec w (zlen u)) as [Hle|Hgt].
        -- destruct (A Hle) as [q' [E [R [_ W]]]]. rewrite E. f_equal. apply IH; assumption.
        -- destruct (B Hgt) as [q' [E [R [_ [W _]]]]]. rewrite E. f_equal. apply IH; assumption.
  - (* discard *)
    destruct (discard_rest q Hwf) as [q' [E [R [W _]]]]. rewrite E. f_equal. apply IH; [exact W|]. rewrite R. exact Hr.
  - (* reset *)
    f_equal. apply IH; [exact wfq_empty|reflexivity].
  - (* try: save, read, restore on shortage *)
    destruct (Z.eqb_spec n 0) as [E0|N0].
    + subst n. rewrite qbytes_zero. f_equal. apply IH; assumption.
    + destruct (Z.ltb_spec n 0) as [Hneg|Hpos].
      * rewrite qbytes_neg by lia. f_equal. apply IH; assumption.
      * destruct (qbytes_spec n q Hwf ltac:(lia)) as [A B]. rewrite Hr in A, B.
        destruct (Z.leb_spec n (zlen u)) as [Hle|Hgt].
        -- destruct (A Hle) as [q' [E [R [_ W]]]]. rewrite E. f_equal. apply IH; assumption.
        -- destruct (B Hgt) as [q' [E _]]. rewrite E.
           rewrite (rollback_exact n q q' u E Hwf ltac:(lia)). f_equal. apply IH; assumption.
Qed.
