(* C15: concrete model of tds/packetQueue.go (PacketQueue) as it is coded:
   a list of packets (header length + data slice), ONE shared read/write position
   (indexPacket, indexData), the recvEOM flag.  Slice operations that panic in Go
   are the outcome RPanic.  No proofs in this file. *)
From Coq Require Import ZArith List Bool.
Import ListNotations.
From V Require Import Base.Tree Base.Bytes.
Open Scope Z_scope.

Record packet := { plen : Z; pdata : bytes }.          (* Header.Length, Data *)
Record pq := { pkts : list packet; ip : Z; id : Z; eom : bool }.

Definition empty_pq : pq := {| pkts := []; ip := 0; id := 0; eom := false |}.
Definition new_packet (ps : Z) : packet := {| plen := ps; pdata := zeros (ps - 8) |}.
Definition nil_packet : packet := {| plen := 0; pdata := [] |}.
Definition pkt_at (q : pq) (i : Z) : packet := znth i (pkts q) nil_packet.
Definition npk (q : pq) : Z := zlen (pkts q).

Inductive res (A : Type) : Type :=
| ROk (a : A) (q : pq)
| RNeb (a : A) (q : pq)        (* ErrNotEnoughBytes, with the bytes that were available *)
| RErr (q : pq)                (* any other error *)
| RPanic.
Arguments ROk {A}. Arguments RNeb {A}. Arguments RErr {A}. Arguments RPanic {A}.

(* AllPacketsConsumed *)
Definition all_consumed (q : pq) : bool :=
  ((npk q =? 0) && (ip q =? 0) && (id q =? 0))
  || (npk q <=? ip q)
  || ((ip q =? npk q - 1) && (id q =? zlen (pdata (pkt_at q (ip q))))).
Definition is_eom (q : pq) : bool := all_consumed q && eom q.

Definition reset (q : pq) : pq := empty_pq.
Definition add_packet (p : packet) (e : bool) (q : pq) : pq :=
  {| pkts := pkts q ++ [p]; ip := ip q; id := id q; eom := eom q || e |}.
Definition set_position (a b : Z) (q : pq) : pq := {| pkts := pkts q; ip := a; id := b; eom := eom q |}.

(* DiscardUntilCurrentPosition: queue.queue[ip:] panics unless 0 <= ip <= len *)
Definition discard (q : pq) : option pq :=
  if (ip q <? 0) || (npk q <? ip q) then None else
  let ps := zdrop (ip q) (pkts q) in
  match ps with
  | [] => Some {| pkts := []; ip := 0; id := 0; eom := eom q |}
  | p :: r => if zlen (pdata p) <=? id q
              then Some {| pkts := r; ip := 0; id := 0; eom := eom q |}
              else Some {| pkts := ps; ip := 0; id := id q; eom := eom q |}
  end.

(* discardSent n (tx side, used by sendPackets) *)
Definition discard_sent (n : Z) (q : pq) : option pq :=
  if (n <? 0) || (npk q <? n) then None else
  let ps := zdrop n (pkts q) in
  if ip q - n <? 0 then Some {| pkts := ps; ip := 0; id := 0; eom := eom q |}
  else Some {| pkts := ps; ip := ip q - n; id := id q; eom := eom q |}.

(* unread(): a negative indexPacket indexes out of range *)
Definition unread (q : pq) : option Z :=
  if ip q <? 0 then (if ip q <? npk q then None else Some 0) else
  let s := zsum (map (fun p => zlen (pdata p)) (zdrop (ip q) (pkts q))) in
  Some (if ip q <? npk q then s - id q else s).

(* the copy loop of Bytes; fuel = number of packets + 1 *)
Fixpoint bytes_loop (fuel : nat) (n : Z) (acc : bytes) (q : pq) : res bytes :=
  match fuel with
  | O => RPanic
  | S f =>
    if all_consumed q then RNeb acc q else
    if (ip q <? 0) || (npk q <=? ip q) then RPanic else
    let data := pdata (pkt_at q (ip q)) in
    let start := id q in
    let e0 := id q + (n - zlen acc) in
    let e := if zlen data <? e0 then zlen data else e0 in
    if (start <? 0) || (e <? start) then RPanic else
    let acc' := acc ++ zslice start e data in
    let q1 := if e =? zlen data
              then {| pkts := pkts q; ip := ip q + 1; id := 0; eom := eom q |}
              else {| pkts := pkts q; ip := ip q; id := e; eom := eom q |} in
    if zlen acc' =? n then ROk acc' q1 else bytes_loop f n acc' q1
  end.

Definition qbytes (n : Z) (q : pq) : res bytes :=
  if n =? 0 then ROk [] q else
  if n <? 0 then RErr q else
  match unread q with
  | None => RPanic
  | Some u =>
    (* make([]byte, size) with size = min n unread: a negative size panics *)
    if (if u <? n then u else n) <? 0 then RPanic
    else bytes_loop (S (length (pkts q))) n [] q
  end.

(* Read(p): Bytes(len p), copy into p, report the number of bytes obtained *)
Definition qread (n : Z) (q : pq) : res bytes := qbytes n q.

(* typed readers decode only on success *)
Definition qle (w : Z) (q : pq) : res Z :=
  match qbytes w q with
  | ROk bs q' => ROk (le_of_bytes bs) q'
  | RNeb _ q' => RNeb 0 q'
  | RErr q' => RErr q'
  | RPanic => RPanic
  end.

(* WriteBytes.  One iteration of its loop is [write_step]: (1) if the position points behind the last
   packet a packet of the current size is appended; (2) free := Header.Length - 8 - indexData of the packet
   at the position; if that is 0 a new packet is appended AT THE END of the queue, the position moves to
   the next index and the new packet is the one written to; (3) k := min(remaining, free) bytes are copied
   into the packet written to at indexData (copy() silently truncates at the end of the data slice;
   Data[indexData:] panics if indexData > len) and indexData += k.  Fuel = 2 * length bs + 2. *)
Definition append_new (ps : Z) (q : pq) : pq :=
  {| pkts := pkts q ++ [new_packet ps]; ip := ip q; id := id q; eom := eom q |}.
Definition replace_at (i : Z) (p : packet) (l : list packet) : list packet :=
  ztake i l ++ [p] ++ zdrop (i + 1) l.
Definition copy_into (widx k : Z) (bs : bytes) (q1 : pq) : option pq :=
  let wp := pkt_at q1 widx in
  if (k <? 0) || (id q1 <? 0) || (zlen (pdata wp) <? id q1) then None else
  let room := zlen (pdata wp) - id q1 in
  let kk := if room <? k then room else k in
  let wp' := {| plen := plen wp; pdata := zoverwrite (id q1) (ztake kk bs) (pdata wp) |} in
  Some {| pkts := replace_at widx wp' (pkts q1); ip := ip q1; id := id q1 + k; eom := eom q1 |}.
Definition zmin (a b : Z) : Z := if a <? b then a else b.
Definition ensure_packet (ps : Z) (q : pq) : pq := if ip q =? npk q then append_new ps q else q.
Definition write_step' (ps : Z) (bs : bytes) (q0 : pq) : option (pq * Z) :=
  if (ip q0 <? 0) || (npk q0 <=? ip q0) then None else
  let free := plen (pkt_at q0 (ip q0)) - 8 - id q0 in
  if free =? 0 then
    let q1 := {| pkts := pkts q0 ++ [new_packet ps]; ip := ip q0 + 1; id := 0; eom := eom q0 |} in
    let k := zmin (zlen bs) (ps - 8) in
    match copy_into (npk q0) k bs q1 with Some q' => Some (q', k) | None => None end
  else
    let k := zmin (zlen bs) free in
    match copy_into (ip q0) k bs q0 with Some q' => Some (q', k) | None => None end.
Definition write_step (ps : Z) (bs : bytes) (q : pq) : option (pq * Z) :=
  write_step' ps bs (ensure_packet ps q).

Fixpoint write_loop (fuel : nat) (ps : Z) (bs : bytes) (q : pq) : option pq :=
  match bs with
  | [] => Some q
  | _ :: _ =>
    match fuel with
    | O => None
    | S f => match write_step ps bs q with
             | Some (q', k) => write_loop f ps (zdrop k bs) q'
             | None => None
             end
    end
  end.

Definition write_bytes (ps : Z) (bs : bytes) (q : pq) : option pq :=
  write_loop (2 * length bs + 2) ps bs q.

(* ------------------------------------------------------------------ operations as data *)
Inductive op :=
| OReset
| OAdd (data : bytes) (e : bool)
| OSetPos (a b : Z)
| ODiscard
| OBytes (n : Z)
| ORead (n : Z)
| OLe (w : Z)
| OWrite (ps : Z) (bs : bytes).

(* observable result of one step *)
Inductive obs :=
| VUnit
| VBytes (ok : Z) (bs : bytes)      (* ok: 0 = success, 1 = not enough bytes, 2 = other error *)
| VInt (ok : Z) (v : Z)
| VPanic.

Definition step (q : pq) (o : op) : option pq * obs :=
  match o with
  | OReset => (Some (reset q), VUnit)
  | OAdd d e => (Some (add_packet {| plen := 8 + zlen d; pdata := d |} e q), VUnit)
  | OSetPos a b => (Some (set_position a b q), VUnit)
  | ODiscard => match discard q with Some q' => (Some q', VUnit) | None => (None, VPanic) end
  | OBytes n | ORead n =>
      match qbytes n q with
      | ROk bs q' => (Some q', VBytes 0 bs)
      | RNeb bs q' => (Some q', VBytes 1 bs)
      | RErr q' => (Some q', VBytes 2 [])
      | RPanic => (None, VPanic)
      end
  | OLe w =>
      match qle w q with
      | ROk v q' => (Some q', VInt 0 v)
      | RNeb v q' => (Some q', VInt 1 v)
      | RErr q' => (Some q', VInt 2 0)
      | RPanic => (None, VPanic)
      end
  | OWrite ps bs => match write_bytes ps bs q with Some q' => (Some q', VUnit) | None => (None, VPanic) end
  end.

(* full view of the state after each step, as the verif hook reports it *)
Definition view (q : pq) : tree :=
  TL [TL (map (fun p => TL [TI (plen p); TB (pdata p)]) (pkts q)); TI (ip q); TI (id q); of_bool (eom q);
      of_bool (all_consumed q); of_bool (is_eom q)].

Definition obs_tree (v : obs) : tree :=
  match v with
  | VUnit => TL []
  | VBytes ok bs => TL [TI ok; TB bs]
  | VInt ok x => TL [TI ok; TI x]
  | VPanic => TL [TI (-1)]
  end.

Fixpoint run_ops (q : pq) (ops : list op) : list tree :=
  match ops with
  | [] => []
  | o :: r => match step q o with
              | (Some q', v) => TL [obs_tree v; view q'] :: run_ops q' r
              | (None, v) => [TL [obs_tree v]]
              end
  end.

Definition op_of_tree (t : tree) : op :=
  match t with
  | TL [TI 0] => OReset
  | TL [TI 1; TB d; TI e] => OAdd d (negb (e =? 0))
  | TL [TI 2; TI a; TI b] => OSetPos a b
  | TL [TI 3] => ODiscard
  | TL [TI 4; TI n] => OBytes n
  | TL [TI 5; TI n] => ORead n
  | TL [TI 6; TI w] => OLe w
  | TL [TI 7; TI ps; TB bs] => OWrite ps bs
  | _ => OReset
  end.
