(* C15, write side: a queue that is only written to (from empty, at the write frontier)
   holds exactly the written bytes before its position, in packets that are each filled
   completely before the next one is opened, every new packet having the size in force. *)
From Coq Require Import ZArith List Bool Lia.
Import ListNotations.
From V Require Import Base.Tree Base.Bytes Base.BytesFacts C15.Model C15.Spec C15.Proofs.
Open Scope Z_scope.

Definition cap (p : packet) : Z := zlen (pdata p).

Definition txw (q : pq) : Prop :=
  Forall pk_ok (pkts q) /\
  ((pkts q = [] /\ ip q = 0 /\ id q = 0) \/
   exists pre last, pkts q = pre ++ [last] /\ ip q = zlen pre /\ 0 <= id q <= cap last).

Lemma before_last q pre last : pkts q = pre ++ [last] -> ip q = zlen pre ->
  before q = concat (map pdata pre) ++ ztake (id q) (pdata last).
Proof.
  intros Hp Hi. unfold before, pkt_at. rewrite Hp, Hi, ztake_app_exact, znth_app_exact. reflexivity.
Qed.

Lemma pk_ok_new ps : 8 <= ps -> pk_ok (new_packet ps).
Proof. intros H. unfold pk_ok, new_packet. cbn [plen pdata]. rewrite zlen_zeros by lia. lia. Qed.

(* the copy step into the last packet [last] of [pre ++ [last]] at offset [i] *)
Lemma copy_step b t pre last i e :
  Forall pk_ok (pre ++ [last]) -> 0 <= i < cap last ->
  let bs := b :: t in
  let k := if zlen bs <? cap last - i then zlen bs else cap last - i in
  let wp' := {| plen := plen last; pdata := zoverwrite i (ztake k bs) (pdata last) |} in
  let q1 := {| pkts := pre ++ [wp']; ip := zlen pre; id := i + k; eom := e |} in
  1 <= k <= zlen bs /\ txw q1 /\
  before q1 = concat (map pdata pre) ++ ztake i (pdata last) ++ ztake k bs /\
  map plen (pkts q1) = map plen (pre ++ [last]).
Proof.
  intros Hok Hi bs k wp' q1.
  assert (Hbs : 1 <= zlen bs) by (unfold bs; rewrite zlen_cons; pose proof (zlen_nonneg t); lia).
  assert (Hk : 1 <= k <= zlen bs /\ k <= cap last - i).
  { unfold k. destruct (Z.ltb_spec (zlen bs) (cap last - i)); lia. }
  assert (Htk : zlen (ztake k bs) = k) by (apply zlen_ztake; lia).
  assert (Hlen' : zlen (pdata wp') = cap last).
  { unfold wp'. cbn [pdata]. apply zlen_zoverwrite; [lia|]. rewrite Htk. unfold cap in *. lia. }
  split; [lia|]. split; [|split].
  - split.
    + unfold q1. cbn [pkts]. apply Forall_app in Hok. destruct Hok as [Hpre Hlast].
      apply Forall_app. split; [exact Hpre|]. constructor; [|constructor].
      inversion Hlast as [|? ? Hl _]; subst. unfold pk_ok in *. unfold wp' at 1. cbn [plen]. rewrite Hlen'. exact Hl.
    + right. exists pre, wp'. split; [reflexivity|]. split; [reflexivity|].
      unfold q1. cbn [id]. change (cap wp') with (zlen (pdata wp')). rewrite Hlen'. lia.
  - rewrite (before_last q1 pre wp') by reflexivity. unfold q1. cbn [id]. f_equal.
    unfold wp'. cbn [pdata]. rewrite <- Htk at 1. apply ztake_zoverwrite; [lia|]. rewrite Htk. unfold cap in *. lia.
  - unfold q1. cbn [pkts]. rewrite !map_app. reflexivity.
Qed.

Lemma zmin_le a b : zmin a b <= a /\ zmin a b <= b.
Proof. unfold zmin. destruct (Z.ltb_spec a b); lia. Qed.

Lemma copy_into_last pre last k bs q1 :
  pkts q1 = pre ++ [last] -> 0 <= id q1 -> 0 <= k <= cap last - id q1 ->
  copy_into (zlen pre) k bs q1 =
  Some {| pkts := pre ++ [{| plen := plen last; pdata := zoverwrite (id q1) (ztake k bs) (pdata last) |}];
          ip := ip q1; id := id q1 + k; eom := eom q1 |}.
Proof.
  intros Hp Hid Hk. unfold copy_into, pkt_at, replace_at. rewrite Hp, znth_app_exact. fold (cap last).
  replace ((k <? 0) || (id q1 <? 0) || (cap last <? id q1)) with false
    by (symmetry; repeat (apply orb_false_iff; split); apply Z.ltb_ge; lia).
  replace (cap last - id q1 <? k) with false by (symmetry; apply Z.ltb_ge; lia).
  rewrite ztake_app_exact.
  rewrite (zdrop_all (zlen pre + 1)) by (rewrite zlen_app; change (zlen [last]) with 1; lia).
  rewrite app_nil_r. reflexivity.
Qed.

(* one iteration on a queue whose position is in its last packet *)
Lemma write_step'_spec ps b t q pre last : 9 <= ps ->
  Forall pk_ok (pkts q) -> pkts q = pre ++ [last] -> ip q = zlen pre -> 0 <= id q <= cap last ->
  exists q1 k, write_step' ps (b :: t) q = Some (q1, k) /\ 1 <= k <= zlen (b :: t) /\
    txw q1 /\ before q1 = before q ++ ztake k (b :: t) /\ 1 <= id q1 /\ eom q1 = eom q /\
    exists j, map plen (pkts q1) = map plen (pkts q) ++ repeat ps j.
Proof.
  intros Hps Hok Hp Hip Hid.
  assert (Hnpk : npk q = zlen pre + 1) by (unfold npk; rewrite Hp, zlen_app; reflexivity).
  pose proof (zlen_nonneg pre) as Hpre0.
  assert (Hcur : pkt_at q (ip q) = last) by (unfold pkt_at; rewrite Hp, Hip; apply znth_app_exact).
  assert (Hlast_ok : pk_ok last).
  { rewrite Hp in Hok. apply Forall_app in Hok. destruct Hok as [_ Hl]. inversion Hl; assumption. }
  unfold write_step'.
  replace ((ip q <? 0) || (npk q <=? ip q)) with false
    by (symmetry; apply orb_false_iff; split; [apply Z.ltb_ge|apply Z.leb_gt]; lia).
  rewrite Hcur. unfold pk_ok in Hlast_ok. rewrite Hlast_ok. fold (cap last).
  destruct (Z.eqb_spec (8 + cap last - 8 - id q) 0) as [Hfull|Hfree].
  - (* the packet is full: open the next one *)
    assert (Hc : cap (new_packet ps) = ps - 8) by (unfold cap, new_packet; cbn [pdata]; apply zlen_zeros; lia).
    assert (Hnew : Forall pk_ok ((pkts q) ++ [new_packet ps])).
    { apply Forall_app. split; [exact Hok|]. constructor; [apply pk_ok_new; lia|constructor]. }
    destruct (copy_step b t (pkts q) (new_packet ps) 0 (eom q) Hnew ltac:(lia)) as [Hk [Htx [Hbef Hpl]]].
    rewrite Hc, Z.sub_0_r in *. rewrite ?Z.add_0_l in *.
    fold (zmin (zlen (b :: t)) (ps - 8)) in *.
    set (k := zmin (zlen (b :: t)) (ps - 8)) in *.
    pose proof (zmin_le (zlen (b :: t)) (ps - 8)) as Hkm. fold k in Hkm.
    unfold npk at 1.
    rewrite (copy_into_last (pkts q) (new_packet ps) k (b :: t)); [|reflexivity|cbn [id]; lia|cbn [id]; rewrite Hc; lia].
    cbn [ip id eom]. rewrite ?Z.add_0_l.
    replace (ip q + 1) with (zlen (pkts q)) by (fold (npk q); lia).
    eexists. exists k. split; [reflexivity|]. split; [lia|]. split; [exact Htx|]. split.
    + rewrite Hbef. rewrite (before_last q pre last Hp Hip). rewrite Hp, map_app, concat_app. cbn [map concat].
      rewrite app_nil_r. rewrite (ztake_all (id q)) by (unfold cap in *; lia).
      rewrite (ztake_neg 0) by lia. cbn [app]. rewrite <- app_assoc. reflexivity.
    + split; [cbn [id]; lia|]. split; [reflexivity|]. exists 1%nat. cbn [pkts] in *. rewrite Hpl, map_app. reflexivity.
  - (* room left in the packet *)
    assert (Hi : 0 <= id q < cap last) by lia.
    assert (Hok' : Forall pk_ok (pre ++ [last])) by (rewrite <- Hp; exact Hok).
    destruct (copy_step b t pre last (id q) (eom q) Hok' Hi) as [Hk [Htx [Hbef Hpl]]].
    replace (8 + cap last - 8 - id q) with (cap last - id q) by lia.
    fold (zmin (zlen (b :: t)) (cap last - id q)) in *.
    set (k := zmin (zlen (b :: t)) (cap last - id q)) in *.
    pose proof (zmin_le (zlen (b :: t)) (cap last - id q)) as Hkm. fold k in Hkm.
    replace (copy_into (ip q) k (b :: t) q) with (copy_into (zlen pre) k (b :: t) q) by (rewrite Hip; reflexivity).
    rewrite (copy_into_last pre last k (b :: t) q Hp); [|lia|lia].
    rewrite Hip.
    eexists. exists k. split; [reflexivity|]. split; [lia|]. split; [exact Htx|]. split.
    + rewrite Hbef. rewrite (before_last q pre last Hp Hip). rewrite app_assoc. reflexivity.
    + split; [cbn [id]; lia|]. split; [reflexivity|]. exists 0%nat. cbn [pkts repeat] in *. rewrite Hpl, Hp, app_nil_r. reflexivity.
Qed.

Lemma write_step_spec ps b t q : 9 <= ps -> txw q ->
  exists q1 k, write_step ps (b :: t) q = Some (q1, k) /\ 1 <= k <= zlen (b :: t) /\
    txw q1 /\ before q1 = before q ++ ztake k (b :: t) /\ 1 <= id q1 /\ eom q1 = eom q /\
    exists j, map plen (pkts q1) = map plen (pkts q) ++ repeat ps j.
Proof.
  intros Hps [Hok [[Hnil [Hip Hid]]|[pre [last [Hp [Hip Hid]]]]]].
  - (* empty queue: a packet of the current size is opened first *)
    unfold write_step, ensure_packet. unfold npk. rewrite Hnil, Hip. change (zlen (@nil packet)) with 0.
    rewrite Z.eqb_refl.
    assert (Hc : cap (new_packet ps) = ps - 8) by (unfold cap, new_packet; cbn [pdata]; apply zlen_zeros; lia).
    assert (Hok1 : Forall pk_ok (pkts (append_new ps q))).
    { unfold append_new. cbn [pkts]. rewrite Hnil. constructor; [apply pk_ok_new; lia|constructor]. }
    assert (Hp1 : pkts (append_new ps q) = [] ++ [new_packet ps]) by (unfold append_new; cbn [pkts]; rewrite Hnil; reflexivity).
    destruct (write_step'_spec ps b t (append_new ps q) [] (new_packet ps) Hps Hok1 Hp1) as [q1 [k [E [Hk [Htx [Hbef [Hid1 [He [j Hj]]]]]]]]].
    { unfold append_new. cbn [ip]. exact Hip. }
    { unfold append_new. cbn [id]. rewrite Hid, Hc. lia. }
    exists q1, k. split; [exact E|]. split; [exact Hk|]. split; [exact Htx|]. split.
    + rewrite Hbef. f_equal. unfold before, append_new, pkt_at. cbn [pkts ip id]. rewrite Hnil, Hip, Hid. reflexivity.
    + split; [exact Hid1|]. split; [rewrite He; reflexivity|]. exists (S j). rewrite Hj. unfold append_new. cbn [pkts].
      rewrite Hnil. reflexivity.
  - unfold write_step, ensure_packet.
    assert (Hnpk : npk q = zlen pre + 1) by (unfold npk; rewrite Hp, zlen_app; reflexivity).
    pose proof (zlen_nonneg pre) as Hpre0.
    replace (ip q =? npk q) with false by (symmetry; apply Z.eqb_neq; lia).
    exact (write_step'_spec ps b t q pre last Hps Hok Hp Hip Hid).
Qed.

Lemma txw_empty : txw empty_pq.
Proof. split; [constructor|]. left. repeat split. Qed.

Lemma write_loop_spec ps : 9 <= ps -> forall fuel bs q, txw q -> zlen bs <= Z.of_nat fuel ->
  exists q', write_loop fuel ps bs q = Some q' /\ txw q' /\ before q' = before q ++ bs /\ eom q' = eom q /\
    (bs <> [] -> 1 <= id q') /\ exists j, map plen (pkts q') = map plen (pkts q) ++ repeat ps j.
Proof.
  intros Hps. induction fuel as [|f IH]; intros bs q Htx Hlen.
  - assert (bs = []) by (apply zlen_zero_nil; pose proof (zlen_nonneg bs); lia). subst bs.
    exists q. cbn [write_loop]. rewrite app_nil_r. split; [reflexivity|]. split; [exact Htx|]. split; [reflexivity|]. split; [reflexivity|]. split; [congruence|]. exists 0%nat. cbn [repeat]. rewrite app_nil_r. reflexivity.
  - destruct bs as [|b t].
    + exists q. cbn [write_loop]. rewrite app_nil_r. split; [reflexivity|]. split; [exact Htx|]. split; [reflexivity|]. split; [reflexivity|]. split; [congruence|]. exists 0%nat. cbn [repeat]. rewrite app_nil_r. reflexivity.
    + destruct (write_step_spec ps b t q Hps Htx) as [q1 [k [E [Hk [Htx1 [Hb1 [Hid1 [He1 [j1 Hj1]]]]]]]]].
      cbn [write_loop]. rewrite E.
      assert (Hlen' : zlen (zdrop k (b :: t)) <= Z.of_nat f).
      { rewrite zlen_zdrop by lia. lia. }
      destruct (IH (zdrop k (b :: t)) q1 Htx1 Hlen') as [q' [E' [Htx' [Hb' [He' [Hid' [j2 Hj2]]]]]]].
      exists q'. split; [exact E'|]. split; [exact Htx'|]. split.
      * rewrite Hb', Hb1, <- app_assoc, ztake_zdrop. reflexivity.
      * split; [rewrite He', He1; reflexivity|]. split.
        -- intros _. destruct (zdrop k (b :: t)) as [|x r] eqn:Ed.
           ++ cbn [write_loop] in E'. destruct f; inversion E'; subst q'; exact Hid1.
           ++ apply Hid'. congruence.
        -- exists (j1 + j2)%nat. rewrite Hj2, Hj1, <- app_assoc, repeat_app. reflexivity.
Qed.

Lemma write_bytes_spec ps bs q : 9 <= ps -> txw q ->
  exists q', write_bytes ps bs q = Some q' /\ txw q' /\ before q' = before q ++ bs /\ eom q' = eom q /\
    (bs <> [] -> 1 <= id q') /\ exists j, map plen (pkts q') = map plen (pkts q) ++ repeat ps j.
Proof.
  intros Hps Htx. unfold write_bytes. apply write_loop_spec; [exact Hps|exact Htx|]. unfold zlen. lia.
Qed.

(* all bytes of a written queue: what was written, then the unused rest of the last packet *)
Lemma flat_txw q : txw q -> exists pad, flat q = before q ++ pad /\
  (pkts q <> [] -> wfq (set_position 0 0 q) /\ rest (set_position 0 0 q) = flat q).
Proof.
  intros [Hok [[Hnil [Hip Hid]]|[pre [last [Hp [Hip Hid]]]]]].
  - exists []. split; [unfold flat, before, pkt_at; rewrite Hnil, Hip, Hid; reflexivity|]. intros H. congruence.
  - exists (zdrop (id q) (pdata last)). split.
    + rewrite (before_last q pre last Hp Hip). unfold flat. rewrite Hp, map_app, concat_app. cbn [map concat].
      rewrite app_nil_r, <- app_assoc, ztake_zdrop. reflexivity.
    + intros _. split.
      * unfold wfq, set_position, npk, pkt_at. cbn [ip id pkts]. rewrite Hp, zlen_app.
        change (zlen [last]) with 1. pose proof (zlen_nonneg pre). split; [lia|]. split; [lia|apply zlen_nonneg].
      * unfold rest, set_position, pkt_at, flat. cbn [ip id pkts]. rewrite zdrop_0.
        rewrite <- (later_unfold (pkts q) 0) by lia. rewrite zdrop_0. reflexivity.
Qed.

(* write, rewind, read: the written bytes come back in order, across packet boundaries *)
Lemma write_rewind_read ps bs n : 9 <= ps -> 0 < n <= zlen bs ->
  exists q' q'', write_bytes ps bs empty_pq = Some q' /\
    qbytes n (set_position 0 0 q') = ROk (ztake n bs) q''.
Proof.
  intros Hps Hn.
  destruct (write_bytes_spec ps bs empty_pq Hps txw_empty) as [q' [E [Htx [Hb [_ [Hid _]]]]]].
  assert (Hne : bs <> []) by (intros ->; cbn in Hn; lia).
  assert (Hpk : pkts q' <> []).
  { destruct Htx as [_ [[Hnil [_ Hid0]]|[pre [last [Hp _]]]]]; [specialize (Hid Hne); lia|].
    rewrite Hp. destruct pre; discriminate. }
  destruct (flat_txw q' Htx) as [pad [Hflat Hrw]]. destruct (Hrw Hpk) as [Hwf Hrest].
  change (before empty_pq) with (@nil Z) in Hb. cbn [app] in Hb.
  destruct (qbytes_spec n (set_position 0 0 q') Hwf ltac:(lia)) as [A _].
  rewrite Hrest, Hflat, Hb in A.
  destruct A as [q'' [E2 _]]; [rewrite zlen_app; pose proof (zlen_nonneg pad); lia|].
  exists q', q''. split; [exact E|]. rewrite E2. f_equal. apply ztake_app_l. lia.
Qed.
