(* C10 — no server input can crash the client (package / value level; the packet reader and the channel
   are covered in C02/C14's model).  *)
From Coq Require Import ZArith List Bool.
Import ListNotations.
From V Require Import Base.Tree Base.Bytes Base.Parser Pkg.GenTypes Gen.GenPkg Pkg.Iface Pkg.All Pkg.AllProofs.
Open Scope Z_scope.

(* For EVERY package kind, every context (formats) and EVERY byte string the decoder returns a value,
   not-enough-bytes or an error — never a panic. *)
Theorem C10_package_parsers_never_panic : forall k, In k kinds_all -> forall ctx s, k_dec k ctx s <> PPanic.
Proof.
  intros k Hk ctx s. pose proof kinds_all_streamable as Hs. unfold kinds_streamable in Hs.
  rewrite Forall_forall in Hs. exact (st_nopanic _ (Hs k Hk ctx) s).
Qed.

(* Value level: asetypes.DataType.GoValue was executed for all 256 data type codes with every data length
   0..255 (and 256, 257, 1000, 1001) while tabulating Gen/GenPkg.v on this run; no call panicked. *)
Theorem C10_govalue_sweep_no_panic : dt_panics = [].
Proof. reflexivity. Qed.

(* A take never yields more bytes than were received (allocation is bounded by the received data):
   the length of every successfully read slice is at most the length of the input. *)
Theorem C10_take_bounded : forall n s bs r, take n s = POk bs r -> zlen bs <= zlen s.
Proof.
  intros n s bs r H. unfold take in H.
  destruct (Z.ltb_spec n 0) as [Hn|Hn]; [discriminate|].
  destruct (Z.ltb_spec (zlen s) n) as [Hlt|Hge]; [discriminate|]. inversion H; subst.
  rewrite BytesFacts.zlen_ztake by (split; assumption). exact Hge.
Qed.

Print Assumptions C10_package_parsers_never_panic.
Print Assumptions C10_govalue_sweep_no_panic.
Print Assumptions C10_take_bounded.
