(* C01, interrupted sends: a QueuePackage whose context is done (or gets cancelled after k packets)
   returns an error but loses nothing: whatever budgets the calls of a message had, the writes up to and
   including the live flush are exactly those of the uninterrupted message. *)
From Coq Require Import ZArith List Bool Lia.
Import ListNotations.
From V Require Import Base.Tree Base.Bytes Base.BytesFacts C15.Model C15.Spec C15.Proofs C15.ProofsTx
  C01.Model C01.Spec C01.Proofs Gen.GenC01.
Open Scope Z_scope.

(* ------------------------------------------------------------------ a live context: the old definitions *)
Lemma send_loop_b_live ps chan typ f ipq idq : forall pk i nr,
  send_loop_b ps chan typ f ipq idq i pk nr None =
  match send_loop ps chan typ f ipq idq i pk nr with Some (o, n, s) => Some (o, n, s, false) | None => None end.
Proof.
  induction pk as [|p r IH]; intros i nr; [reflexivity|].
  cbn [send_loop_b send_loop bdone bdec].
  destruct (i =? ipq).
  - destruct f; [reflexivity|]. destruct ((idq <? 0) || (zlen (pdata p) <? idq)); [reflexivity|].
    destruct (send_packet ps chan typ true nr _) as [[bs nr1]|]; [|reflexivity].
    rewrite IH. destruct (send_loop ps chan typ false ipq idq (i + 1) r nr1) as [[[o n] s]|]; reflexivity.
  - destruct (send_packet ps chan typ false nr p) as [[bs nr1]|]; [|reflexivity].
    rewrite IH. destruct (send_loop ps chan typ f ipq idq (i + 1) r nr1) as [[[o n] s]|]; reflexivity.
Qed.

Lemma send_packets_b_live ps chan typ f st :
  send_packets_b ps chan typ f st None =
  match send_packets ps chan typ f st with Some (o, st') => Some (o, st', false) | None => None end.
Proof.
  unfold send_packets_b, send_packets. rewrite send_loop_b_live.
  destruct (send_loop ps chan typ f (ip (tq st)) (id (tq st)) 0 (pkts (tq st)) (tnr st)) as [[[o n] s]|]; [|reflexivity].
  destruct (discard_sent s (tq st)) as [q'|]; reflexivity.
Qed.

Lemma queue_package_b_live ps chan typ c st :
  queue_package_b ps chan typ c st None =
  match queue_package ps chan typ c st with Some (o, st') => Some (o, st', false) | None => None end.
Proof.
  unfold queue_package_b, queue_package. destruct (write_chunks ps c (tq st)) as [q'|]; [|reflexivity].
  apply send_packets_b_live.
Qed.

Lemma send_remaining_b_live ps chan typ st :
  send_remaining_b ps chan typ st None =
  match send_remaining ps chan typ st with Some (o, st') => Some (o, st', false) | None => None end.
Proof.
  unfold send_remaining_b, send_remaining. rewrite send_packets_b_live.
  destruct (send_packets ps chan typ false st) as [[o st']|]; reflexivity.
Qed.

Definition live_pkgs (pkgs : list (list bytes)) : list (list bytes * option nat) := map (fun c => (c, None)) pkgs.

Lemma map_fst_live pkgs : map fst (live_pkgs pkgs) = pkgs.
Proof. unfold live_pkgs. rewrite map_map. cbn [fst]. apply map_id. Qed.

Lemma queue_all_b_live ps chan typ : forall pkgs st,
  queue_all_b ps chan typ (live_pkgs pkgs) st = queue_all ps chan typ pkgs st.
Proof.
  induction pkgs as [|c r IH]; intros st; [reflexivity|].
  cbn [live_pkgs map queue_all_b queue_all]. rewrite queue_package_b_live.
  destruct (queue_package ps chan typ c st) as [[o1 st1]|]; [|reflexivity].
  fold (live_pkgs r). rewrite IH. reflexivity.
Qed.

Lemma send_message_b_live ps chan typ pkgs st :
  send_message_b ps chan typ (live_pkgs pkgs) st = send_message ps chan typ pkgs st.
Proof. unfold send_message_b, send_message. rewrite queue_all_b_live. reflexivity. Qed.

(* ------------------------------------------------------------------ queue states between the calls of a message
   when calls may have been interrupted: any number of complete packets in front of the write position *)
Definition msg_qi (ps : Z) (q : pq) : Prop :=
  txw q /\ Forall (fun p => plen p = ps) (pkts q) /\ (pkts q <> [] -> 1 <= id q).

Lemma msg_q_qi ps q : msg_q ps q -> msg_qi ps q.
Proof. intros [Htx [Hpl [_ Hid]]]. split; [exact Htx|]. split; assumption. Qed.

Lemma msg_qi_empty ps : msg_qi ps empty_pq.
Proof. apply msg_q_qi, msg_q_empty. Qed.

Lemma msg_qi_before_nil ps q : msg_qi ps q -> before q = [] -> pkts q = [].
Proof.
  intros [[_ [[Hnil _]|[pre [last [Hp [Hip Hidr]]]]]] [_ Hid]] Hb; [exact Hnil|]. exfalso.
  assert (Hne : pkts q <> []) by (rewrite Hp; destruct pre; discriminate).
  specialize (Hid Hne). rewrite (before_last q pre last Hp Hip) in Hb.
  apply app_eq_nil in Hb. destruct Hb as [_ Hb].
  assert (Hl : zlen (ztake (id q) (pdata last)) = id q) by (apply zlen_ztake; unfold cap in Hidr; lia).
  rewrite Hb in Hl. cbn in Hl. lia.
Qed.

Lemma zdrop_nat {A} (s : nat) (l : list A) : zdrop (Z.of_nat s) l = skipn s l.
Proof. unfold zdrop. rewrite Nat2Z.id. reflexivity. Qed.

Lemma zlen_skipn {A} (s : nat) (l : list A) : (s <= length l)%nat -> zlen (skipn s l) = zlen l - Z.of_nat s.
Proof. intros H. unfold zlen. rewrite skipn_length. lia. Qed.

(* the budgeted loop of a QueuePackage over complete packets followed by the packet under the position:
   some prefix of the complete packets goes out, nothing else *)
Lemma send_loop_b_fulls ps chan typ ipq idq last : 8 <= ps -> forall pre i nr b,
  Forall (full_pkt ps) pre -> 0 <= i -> i + zlen pre = ipq ->
  exists (s : nat) (e : bool), (s <= length pre)%nat /\
    send_loop_b ps chan typ true ipq idq i (pre ++ [last]) nr b =
    Some (enc_fulls ps typ chan nr (map pdata (firstn s pre)), steps chan nr s, Z.of_nat s, e).
Proof.
  intros Hps. induction pre as [|p pre IH]; intros i nr b Hf Hi Hle.
  - exists O. cbn [app send_loop_b firstn map enc_fulls steps length Z.of_nat].
    destruct (bdone b); [exists true|exists false]; (split; [lia|]); [reflexivity|].
    change (zlen (@nil packet)) with 0 in Hle. replace (i =? ipq) with true by (symmetry; apply Z.eqb_eq; lia). reflexivity.
  - pose proof (Forall_inv Hf) as Hp. pose proof (Forall_inv_tail Hf) as Hpre.
    rewrite zlen_cons in Hle. pose proof (zlen_nonneg pre) as Hn.
    cbn [app send_loop_b]. destruct (bdone b).
    + exists O, true. split; [cbn; lia|]. reflexivity.
    + replace (i =? ipq) with false by (symmetry; apply Z.eqb_neq; lia).
      rewrite (send_full ps chan typ nr p Hps Hp).
      destruct (IH (i + 1) (step1 chan nr) (bdec b) Hpre ltac:(lia) ltac:(lia)) as [s [e [Hs E]]].
      rewrite E. exists (S s), e. split; [cbn [length]; lia|].
      cbn [firstn map enc_fulls steps]. f_equal. f_equal. f_equal. lia.
Qed.

Lemma Forall_firstn {A} (P : A -> Prop) n l : Forall P l -> Forall P (firstn n l).
Proof. intros H. rewrite <- (firstn_skipn n l) in H. apply Forall_app in H. apply H. Qed.
Lemma Forall_skipn {A} (P : A -> Prop) n l : Forall P l -> Forall P (skipn n l).
Proof. intros H. rewrite <- (firstn_skipn n l) in H. apply Forall_app in H. apply H. Qed.

(* QueuePackage with any budget on such a queue: some of the complete packets go out, the rest and the
   packet under the write position stay, in order *)
Lemma queue_package_b_spec ps chan typ chunks st b : 9 <= ps -> msg_qi ps (tq st) ->
  exists fulls st' e, queue_package_b ps chan typ chunks st b = Some (enc_fulls ps typ chan (tnr st) fulls, st', e) /\
    msg_qi ps (tq st') /\ Forall (fun x => zlen x = ps - 8) fulls /\
    concat fulls ++ before (tq st') = before (tq st) ++ concat chunks /\
    tnr st' = steps chan (tnr st) (length fulls) /\
    (pkts (tq st') = [] -> fulls = [] /\ before (tq st) ++ concat chunks = []).
Proof.
  intros Hps [Htx [Hpl Hid]]. unfold queue_package_b.
  destruct (write_chunks_spec ps Hps chunks (tq st) Htx Hpl Hid) as [q1 [E [Htx1 [Hpl1 [Hb1 [He1 Hid1]]]]]].
  rewrite E. unfold send_packets_b. cbn [tq tnr].
  destruct Htx1 as [Hok1 [[Hnil [Hip Hidz]]|[pre [last [Hp [Hip Hidr]]]]]].
  - rewrite Hnil. cbn [send_loop_b]. unfold discard_sent. unfold npk. rewrite Hnil. cbn [zlen length Z.of_nat].
    rewrite Hip, Hidz. cbn.
    exists [], {| tq := {| pkts := []; ip := 0; id := 0; eom := eom q1 |}; tnr := tnr st |}, false.
    cbn [enc_fulls tq tnr length steps concat app pkts].
    assert (Hq1 : q1 = {| pkts := []; ip := 0; id := 0; eom := eom q1 |}).
    { destruct q1; cbn in *; subst; reflexivity. }
    split; [reflexivity|]. split.
    + split; [split; [constructor|left; repeat split]|]. split; [constructor|]. intros H; exfalso; apply H; reflexivity.
    + split; [constructor|]. split; [|split; [reflexivity|]].
      * rewrite <- Hb1. rewrite Hq1 at 2. reflexivity.
      * intros _. split; [reflexivity|]. rewrite <- Hb1. rewrite Hq1. reflexivity.
  - assert (Hfull : Forall (full_pkt ps) pre).
    { rewrite Hp in Hok1, Hpl1. apply Forall_app in Hok1. apply Forall_app in Hpl1.
      destruct Hok1 as [Hok1 _]. destruct Hpl1 as [Hpl1 _].
      apply Forall_forall. intros p Hin. rewrite Forall_forall in Hok1, Hpl1.
      specialize (Hok1 p Hin). specialize (Hpl1 p Hin). unfold pk_ok in Hok1. split; [exact Hpl1|lia]. }
    rewrite Hp, Hip.
    destruct (send_loop_b_fulls ps chan typ (zlen pre) (id q1) last ltac:(lia) pre 0 (tnr st) b Hfull ltac:(lia) ltac:(lia))
      as [s [e [Hs El]]].
    rewrite El. unfold discard_sent. pose proof (zlen_nonneg pre) as Hn0.
    assert (Hnpk : npk q1 = zlen pre + 1) by (unfold npk; rewrite Hp, zlen_app; reflexivity).
    assert (Hsz : 0 <= Z.of_nat s <= zlen pre) by (unfold zlen; lia).
    replace ((Z.of_nat s <? 0) || (npk q1 <? Z.of_nat s)) with false
      by (symmetry; apply orb_false_iff; split; apply Z.ltb_ge; lia).
    rewrite Hip. replace (zlen pre - Z.of_nat s <? 0) with false by (symmetry; apply Z.ltb_ge; lia).
    rewrite Hp, zdrop_nat, skipn_app. replace (s - length pre)%nat with O by lia. cbn [skipn].
    exists (map pdata (firstn s pre)), {| tq := {| pkts := skipn s pre ++ [last]; ip := zlen pre - Z.of_nat s; id := id q1; eom := eom q1 |};
                                          tnr := steps chan (tnr st) s |}, e.
    split; [reflexivity|]. cbn [tq tnr].
    assert (Hlast : plen last = ps /\ pk_ok last).
    { rewrite Hp in Hok1, Hpl1. apply Forall_app in Hok1. apply Forall_app in Hpl1.
      destruct Hok1 as [_ H1]. destruct Hpl1 as [_ H2]. apply Forall_inv in H1. apply Forall_inv in H2. split; assumption. }
    assert (Hidl : 1 <= id q1) by (apply Hid1; rewrite Hp; destruct pre; discriminate).
    assert (Hokp : Forall pk_ok pre) by (rewrite Hp in Hok1; apply Forall_app in Hok1; apply Hok1).
    assert (Hplp : Forall (fun p => plen p = ps) pre) by (rewrite Hp in Hpl1; apply Forall_app in Hpl1; apply Hpl1).
    assert (Hipn : zlen pre - Z.of_nat s = zlen (skipn s pre)) by (rewrite zlen_skipn by exact Hs; reflexivity).
    split.
    + split.
      * split.
        -- cbn [pkts]. apply Forall_app. split; [apply Forall_skipn; exact Hokp|constructor; [apply Hlast|constructor]].
        -- right. exists (skipn s pre), last. cbn [pkts ip id]. split; [reflexivity|]. split; [exact Hipn|exact Hidr].
      * cbn [pkts id]. split.
        -- apply Forall_app. split; [apply Forall_skipn; exact Hplp|constructor; [apply Hlast|constructor]].
        -- intros _. exact Hidl.
    + split.
      * apply Forall_map. apply Forall_firstn. apply Forall_forall. intros p Hin. rewrite Forall_forall in Hfull. apply (Hfull p Hin).
      * split; [|split].
        -- rewrite <- Hb1. rewrite (before_last q1 pre last Hp Hip).
           rewrite (before_last {| pkts := skipn s pre ++ [last]; ip := zlen pre - Z.of_nat s; id := id q1; eom := eom q1 |}
                      (skipn s pre) last eq_refl Hipn).
           cbn [id]. rewrite app_assoc, <- concat_app, <- map_app, firstn_skipn. reflexivity.
        -- rewrite map_length, firstn_length_le by exact Hs. reflexivity.
        -- cbn [pkts]. intros Habs. destruct (skipn s pre); discriminate.
Qed.

(* all QueuePackage calls of a message, each with its own budget *)
Lemma queue_all_b_spec ps chan typ : 9 <= ps -> forall pkgs st, msg_qi ps (tq st) ->
  exists fulls st', queue_all_b ps chan typ pkgs st = Some (enc_fulls ps typ chan (tnr st) fulls, st') /\
    msg_qi ps (tq st') /\ Forall (fun x => zlen x = ps - 8) fulls /\
    concat fulls ++ before (tq st') = before (tq st) ++ payload_of (map fst pkgs) /\
    tnr st' = steps chan (tnr st) (length fulls) /\
    (pkts (tq st') = [] -> fulls = [] /\ before (tq st) ++ payload_of (map fst pkgs) = []).
Proof.
  intros Hps. induction pkgs as [|[c b] r IH]; intros st Hq.
  - exists [], st. cbn [queue_all_b enc_fulls concat app length steps map]. unfold payload_of. cbn [concat]. rewrite app_nil_r.
    split; [reflexivity|]. split; [exact Hq|]. split; [constructor|]. split; [reflexivity|]. split; [reflexivity|].
    intros Hnil. split; [reflexivity|]. unfold before, pkt_at. rewrite Hnil.
    destruct Hq as [[_ [[_ [Hip Hid]]|[pre [last [Hp _]]]]] _].
    + rewrite Hip, Hid. reflexivity.
    + rewrite Hp in Hnil. destruct pre; discriminate.
  - cbn [queue_all_b map fst].
    destruct (queue_package_b_spec ps chan typ c st b Hps Hq) as [f1 [st1 [e1 [E1 [Hq1 [Hf1 [Hc1 [Hn1 Hz1]]]]]]]].
    rewrite E1.
    destruct (IH st1 Hq1) as [f2 [st2 [E2 [Hq2 [Hf2 [Hc2 [Hn2 Hz2]]]]]]].
    rewrite E2. exists (f1 ++ f2), st2. split.
    + rewrite enc_fulls_app, Hn1. reflexivity.
    + split; [exact Hq2|]. split; [apply Forall_app; split; assumption|].
      assert (Hpay : before (tq st) ++ payload_of (c :: map fst r) = (before (tq st) ++ concat c) ++ payload_of (map fst r)).
      { unfold payload_of. cbn [concat]. rewrite concat_app, <- !app_assoc. reflexivity. }
      split.
      * rewrite concat_app, <- app_assoc, Hc2, app_assoc, Hc1. symmetry. exact Hpay.
      * split; [rewrite Hn2, Hn1, app_length, steps_add; reflexivity|].
        intros Hnil. destruct (Hz2 Hnil) as [Hf2nil Hrest]. apply app_eq_nil in Hrest. destruct Hrest as [Hb1nil Hpr].
        pose proof (msg_qi_before_nil ps (tq st1) Hq1 Hb1nil) as Hp1. destruct (Hz1 Hp1) as [Hf1nil Hc].
        subst f1 f2. split; [reflexivity|]. rewrite Hpay, Hc, Hpr. reflexivity.
Qed.

(* the flush of such a queue: every complete packet, then the packet under the position trimmed and marked *)
Lemma send_remaining_qi ps chan typ st : 9 <= ps <= 65535 -> msg_qi ps (tq st) -> pkts (tq st) <> [] ->
  exists fulls lastb, send_remaining ps chan typ st =
      Some (enc_fulls ps typ chan (tnr st) fulls ++
            [enc_pkt typ 1 (8 + zlen lastb) chan (steps chan (tnr st) (length fulls)) lastb],
            {| tq := empty_pq; tnr := steps chan (tnr st) (S (length fulls)) |}) /\
    Forall (fun x => zlen x = ps - 8) fulls /\ 1 <= zlen lastb <= ps - 8 /\
    concat fulls ++ lastb = before (tq st).
Proof.
  intros Hps [Htx [Hpl Hid]] Hne. specialize (Hid Hne).
  destruct Htx as [Hok [[Hnil _]|[pre [last [Hp [Hip Hidr]]]]]]; [congruence|].
  assert (Hlast : plen last = ps /\ pk_ok last).
  { rewrite Hp in Hok, Hpl. apply Forall_app in Hok. apply Forall_app in Hpl.
    destruct Hok as [_ H1]. destruct Hpl as [_ H2]. apply Forall_inv in H1. apply Forall_inv in H2. split; assumption. }
  destruct Hlast as [Hl1 Hl2]. unfold pk_ok in Hl2. unfold cap in Hidr.
  assert (Hfull : Forall (full_pkt ps) pre).
  { rewrite Hp in Hok, Hpl. apply Forall_app in Hok. apply Forall_app in Hpl.
    destruct Hok as [Hok1 _]. destruct Hpl as [Hpl1 _].
    apply Forall_forall. intros p Hin. rewrite Forall_forall in Hok1, Hpl1.
    specialize (Hok1 p Hin). specialize (Hpl1 p Hin). unfold pk_ok in Hok1. split; [exact Hpl1|lia]. }
  pose proof (zlen_nonneg pre) as Hn0.
  exists (map pdata pre), (ztake (id (tq st)) (pdata last)).
  unfold send_remaining, send_packets. rewrite Hp, Hip.
  rewrite (send_loop_fulls ps chan typ false (zlen pre) (id (tq st)) ltac:(lia) pre 0 [last] (tnr st) Hfull ltac:(lia) ltac:(lia)).
  rewrite Z.add_0_l. cbn [send_loop]. rewrite Z.eqb_refl.
  replace ((id (tq st) <? 0) || (zlen (pdata last) <? id (tq st))) with false
    by (symmetry; apply orb_false_iff; split; apply Z.ltb_ge; lia).
  rewrite (send_last ps chan typ (steps chan (tnr st) (length pre)) (id (tq st)) last) by lia.
  unfold discard_sent. unfold npk. rewrite Hp, zlen_app. change (zlen [last]) with 1.
  replace ((0 + 1 + zlen pre <? 0) || (zlen pre + 1 <? 0 + 1 + zlen pre)) with false
    by (symmetry; apply orb_false_iff; split; apply Z.ltb_ge; lia).
  rewrite Hip. replace (zlen pre - (0 + 1 + zlen pre) <? 0) with true by (symmetry; apply Z.ltb_lt; lia).
  cbn [tq tnr reset]. rewrite map_length. rewrite zlen_ztake by lia.
  split; [|split; [|split]].
  - rewrite steps_step. reflexivity.
  - apply Forall_map. apply Forall_forall. intros p Hin. rewrite Forall_forall in Hfull. apply (Hfull p Hin).
  - lia.
  - rewrite (before_last (tq st) pre last Hp Hip). reflexivity.
Qed.

(* a byte string has one packetisation only *)
Lemma app_same_len {A} (a b x y : list A) : zlen a = zlen b -> a ++ x = b ++ y -> a = b /\ x = y.
Proof.
  intros Hl H. split.
  - pose proof (f_equal (ztake (zlen a)) H) as H1. rewrite ztake_app_exact, Hl, ztake_app_exact in H1. exact H1.
  - pose proof (f_equal (zdrop (zlen a)) H) as H1. rewrite zdrop_app_exact, Hl, zdrop_app_exact in H1. exact H1.
Qed.

Lemma canon_unique B : 1 <= B -> forall f1 f2 l1 l2,
  Forall (fun x : bytes => zlen x = B) f1 -> Forall (fun x : bytes => zlen x = B) f2 ->
  1 <= zlen l1 <= B -> 1 <= zlen l2 <= B -> concat f1 ++ l1 = concat f2 ++ l2 -> f1 = f2 /\ l1 = l2.
Proof.
  intros HB. induction f1 as [|a f1 IH]; intros f2 l1 l2 H1 H2 Hl1 Hl2 H.
  - destruct f2 as [|b f2]; [split; [reflexivity|exact H]|]. exfalso.
    pose proof (Forall_inv H2) as Hb. cbn beta in Hb. cbn [concat app] in H. apply (f_equal (@zlen Z)) in H.
    rewrite !zlen_app in H. pose proof (zlen_nonneg (concat f2)). lia.
  - destruct f2 as [|b f2].
    + exfalso. pose proof (Forall_inv H1) as Ha. cbn beta in Ha. cbn [concat app] in H. apply (f_equal (@zlen Z)) in H.
      rewrite !zlen_app in H. pose proof (zlen_nonneg (concat f1)). lia.
    + pose proof (Forall_inv H1) as Ha. pose proof (Forall_inv H2) as Hb. cbn beta in Ha, Hb.
      cbn [concat] in H. rewrite <- !app_assoc in H.
      destruct (app_same_len a b _ _ ltac:(lia) H) as [Eab Er]. subst b.
      destruct (IH f2 l1 l2 (Forall_inv_tail H1) (Forall_inv_tail H2) Hl1 Hl2 Er) as [Ef El].
      subst f2 l2. split; reflexivity.
Qed.

(* the interrupted message, whatever the budgets: the canonical packets of what was queued *)
Lemma send_message_b_canon ps chan typ pkgs st : 9 <= ps <= 65535 -> msg_qi ps (tq st) ->
  before (tq st) ++ payload_of (map fst pkgs) <> [] ->
  exists fulls lastb, send_message_b ps chan typ pkgs st =
      Some (enc_fulls ps typ chan (tnr st) fulls ++
            [enc_pkt typ 1 (8 + zlen lastb) chan (steps chan (tnr st) (length fulls)) lastb],
            {| tq := empty_pq; tnr := steps chan (tnr st) (S (length fulls)) |}) /\
    Forall (fun x => zlen x = ps - 8) fulls /\ 1 <= zlen lastb <= ps - 8 /\
    concat fulls ++ lastb = before (tq st) ++ payload_of (map fst pkgs).
Proof.
  intros Hps Hq Hpay. unfold send_message_b.
  destruct (queue_all_b_spec ps chan typ ltac:(lia) pkgs st Hq) as [f1 [st1 [E1 [Hq1 [Hf1 [Hc1 [Hn1 Hz1]]]]]]].
  rewrite E1.
  assert (Hne : pkts (tq st1) <> []).
  { intros Hnil. destruct (Hz1 Hnil) as [_ Hempty]. congruence. }
  destruct (send_remaining_qi ps chan typ st1 Hps Hq1 Hne) as [f2 [lastb [E2 [Hf2 [Hl Hc2]]]]].
  rewrite E2. exists (f1 ++ f2), lastb. split.
  - rewrite enc_fulls_app, Hn1, <- app_assoc, app_length, steps_add.
    replace (S (length f1 + length f2)) with (length f1 + S (length f2))%nat by lia. rewrite steps_add. reflexivity.
  - split; [apply Forall_app; split; assumption|]. split; [exact Hl|].
    rewrite concat_app, <- app_assoc, Hc2. exact Hc1.
Qed.

(* nothing was ever queued: nothing is written, with or without interruptions *)
Lemma send_message_b_nothing ps chan typ pkgs st : 9 <= ps <= 65535 -> msg_qi ps (tq st) ->
  before (tq st) ++ payload_of (map fst pkgs) = [] ->
  send_message_b ps chan typ pkgs st = Some ([], {| tq := empty_pq; tnr := tnr st |}).
Proof.
  intros Hps Hq Hpay. unfold send_message_b.
  destruct (queue_all_b_spec ps chan typ ltac:(lia) pkgs st Hq) as [f1 [st1 [E1 [Hq1 [Hf1 [Hc1 [Hn1 Hz1]]]]]]].
  rewrite E1. rewrite Hpay in Hc1. apply app_eq_nil in Hc1. destruct Hc1 as [Hcf Hb1].
  assert (Hf1nil : f1 = []).
  { destruct f1 as [|x f1]; [reflexivity|]. exfalso. pose proof (Forall_inv Hf1) as Hx. cbn [concat] in Hcf.
    apply app_eq_nil in Hcf. destruct Hcf as [Hxn _]. rewrite Hxn in Hx. cbn in Hx. lia. }
  pose proof (msg_qi_before_nil ps (tq st1) Hq1 Hb1) as Hp1.
  subst f1. cbn [length steps] in Hn1. cbn [enc_fulls app].
  unfold send_remaining, send_packets. rewrite Hp1. cbn [send_loop].
  unfold discard_sent, npk. rewrite Hp1. cbn [zlen length Z.of_nat].
  destruct Hq1 as [[_ [[_ [Hip Hid]]|[pre [last [Hp _]]]]] _].
  - rewrite Hip. cbn. rewrite Hn1. reflexivity.
  - rewrite Hp in Hp1. destruct pre; discriminate.
Qed.

Theorem interrupted_queue ps chan typ pkgs st : 9 <= ps <= 65535 -> msg_qi ps (tq st) ->
  exists outs st', send_message_b ps chan typ pkgs st = Some (outs, st') /\
    send_message ps chan typ (map fst pkgs) st = Some (outs, st') /\ tq st' = empty_pq.
Proof.
  intros Hps Hq. rewrite <- (send_message_b_live ps chan typ (map fst pkgs) st).
  assert (Hm : map fst (live_pkgs (map fst pkgs)) = map fst pkgs) by apply map_fst_live.
  destruct (list_eq_dec Z.eq_dec (before (tq st) ++ payload_of (map fst pkgs)) []) as [Hnil|Hpay].
  - rewrite (send_message_b_nothing ps chan typ pkgs st Hps Hq Hnil).
    rewrite (send_message_b_nothing ps chan typ (live_pkgs (map fst pkgs)) st Hps Hq) by (rewrite Hm; exact Hnil).
    eexists _, _. split; [reflexivity|]. split; reflexivity.
  - destruct (send_message_b_canon ps chan typ pkgs st Hps Hq Hpay) as [f1 [l1 [E1 [Hf1 [Hl1 Hc1]]]]].
    destruct (send_message_b_canon ps chan typ (live_pkgs (map fst pkgs)) st Hps Hq) as [f2 [l2 [E2 [Hf2 [Hl2 Hc2]]]]].
    { rewrite Hm. exact Hpay. }
    rewrite Hm in Hc2. rewrite <- Hc2 in Hc1.
    destruct (canon_unique (ps - 8) ltac:(lia) f1 f2 l1 l2 Hf1 Hf2 Hl1 Hl2 Hc1) as [Ef El]. subst f2 l2.
    rewrite E1, E2. eexists _, _. split; [reflexivity|]. split; reflexivity.
Qed.

(* from an empty queue: the interrupted message is the well-formed message of C01_message *)
Theorem interrupted_message_ok ps chan typ pkgs st :
  9 <= ps <= 65535 -> 0 <= chan < 65536 -> 0 <= tnr st < 256 -> tq st = empty_pq -> payload_of (map fst pkgs) <> [] ->
  exists outs st', send_message_b ps chan typ pkgs st = Some (outs, st') /\
    tx_ok ps typ chan (tnr st) (payload_of (map fst pkgs)) outs = true /\
    tq st' = empty_pq /\ tnr st' = (if 0 <? chan then (tnr st + zlen outs) mod 256 else tnr st).
Proof.
  intros Hps Hc Hnr Hq Hpay.
  assert (Hqi : msg_qi ps (tq st)) by (rewrite Hq; apply msg_qi_empty).
  destruct (interrupted_queue ps chan typ pkgs st Hps Hqi) as [outs [st' [E1 [E2 _]]]].
  destruct (message_ok ps chan typ (map fst pkgs) st Hps Hc Hnr Hq Hpay) as [o [s [E [Hok [Hq' Hn']]]]].
  rewrite E in E2. inversion E2; subst o s.
  exists outs, st'. split; [exact E1|]. split; [exact Hok|]. split; assumption.
Qed.

(* the invariant really is one: every state the interrupted QueuePackage calls can reach from the empty queue *)
Theorem interrupted_states ps chan typ c st b o st' e : 9 <= ps -> msg_qi ps (tq st) ->
  queue_package_b ps chan typ c st b = Some (o, st', e) -> msg_qi ps (tq st').
Proof.
  intros Hps Hq H.
  destruct (queue_package_b_spec ps chan typ c st b Hps Hq) as [f1 [st1 [e1 [E1 [Hq1 _]]]]].
  rewrite E1 in H. inversion H; subst. exact Hq1.
Qed.
