(* C01, interrupted sends: a QueuePackage whose context is done (or gets cancelled after k packets)
   returns an error but loses nothing: whatever budgets the calls of a message had, the writes up to and
   including the live flush are exactly those of the uninterrupted message. *)
From Coq Require Import ZArith List Bool Lia.
Import ListNotations.
From V Require Import Base.Tree Base.Bytes Base.BytesFacts C15.Model C15.Spec C15.Proofs C15.ProofsTx
  C01.Model C01.Spec C01.Proofs Gen.GenC01.
Open Scope Z_scope.

(* ------------------------------------------------------------------ a live context: the old definitions *)
Lemma send_loop_b_live ps chan typ f ipq idq : forall pk i nr,
  send_loop_b ps chan typ f ipq idq i pk nr None =
  match send_loop ps chan typ f ipq idq i pk nr with Some (o, n, s) => Some (o, n, s, false) | None => None end.
Proof.
  induction pk as [|p r IH]; intros i nr; [reflexivity|].
  cbn [send_loop_b send_loop bdone bdec].
  destruct (i =? ipq).
  - destruct f; [reflexivity|]. destruct ((idq <? 0) || (zlen (pdata p) <? idq)); [reflexivity|].
    destruct (send_packet ps chan typ true nr _) as [[bs nr1]|]; [|reflexivity].
    rewrite IH. destruct (send_loop ps chan typ false ipq idq (i + 1) r nr1) as [[[o n] s]|]; reflexivity.
  - destruct (send_packet ps chan typ false nr p) as [[bs nr1]|]; [|reflexivity].
    rewrite IH. destruct (send_loop ps chan typ f ipq idq (i + 1) r nr1) as [[[o n] s]|]; reflexivity.
Qed.

Lemma send_packets_b_live ps chan typ f st :
  send_packets_b ps chan typ f st None =
  match send_packets ps chan typ f st with Some (o, st') => Some (o, st', false) | None => None end.
Proof.
  unfold send_packets_b, send_packets. rewrite send_loop_b_live.
  destruct (send_loop ps chan typ f (ip (tq st)) (id (tq st)) 0 (pkts (tq st)) (tnr st)) as [[[o n] s]|]; [|reflexivity].
  destruct (discard_sent s (tq st)) as [q'|]; reflexivity.
Qed.

Lemma queue_package_b_live ps chan typ c st :
  queue_package_b ps chan typ c st None =
  match queue_package ps chan typ c st with Some (o, st') => Some (o, st', false) | None => None end.
Proof.
  unfold queue_package_b, queue_package. destruct (write_chunks ps c (tq st)) as [q'|]; [|reflexivity].
  apply send_packets_b_live.
Qed.

Lemma send_remaining_b_live ps chan typ st :
  send_remaining_b ps chan typ st None =
  match send_remaining ps chan typ st with Some (o, st') => Some (o, st', false) | None => None end.
Proof.
  unfold send_remaining_b, send_remaining. rewrite send_packets_b_live.
  destruct (send_packets ps chan typ false st) as [[o st']|]; reflexivity.
Qed.

Definition live_pkgs (pkgs : list (list bytes)) : list (list bytes * option nat) := map (fun c => (c, None)) pkgs.

Lemma map_fst_live pkgs : map fst (live_pkgs pkgs) = pkgs.
Proof. unfold live_pkgs. rewrite map_map. cbn [fst]. apply map_id. Qed.

Lemma queue_all_b_live ps chan typ : forall pkgs st,
  queue_all_b ps chan typ (live_pkgs pkgs) st = queue_all ps chan typ pkgs st.
Proof.
  induction pkgs as [|c r IH]; intros st; [reflexivity|].
  cbn [live_pkgs map queue_all_b queue_all]. rewrite queue_package_b_live.
  destruct (queue_package ps chan typ c st) as [[o1 st1]|]; [|reflexivity].
  fold (live_pkgs r). rewrite IH. reflexivity.
Qed.

Lemma send_message_b_live ps chan typ pkgs st :
  send_message_b ps chan typ (live_pkgs pkgs) st = send_message ps chan typ pkgs st.
Proof. unfold send_message_b, send_message. rewrite queue_all_b_live. reflexivity. Qed.

(* ------------------------------------------------------------------ queue states between the calls of a message
   when calls may have been interrupted: any number of complete packets in front of the write position *)
Definition msg_qi (ps : Z) (q : pq) : Prop :=
  txw q /\ Forall (fun p => plen p = ps) (pkts q) /\ (pkts q <> [] -> 1 <= id q).

Lemma msg_q_qi ps q : msg_q ps q -> msg_qi ps q.
Proof. intros [Htx [Hpl [_ Hid]]]. split; [exact Htx|]. split; assumption. Qed.

Lemma msg_qi_empty ps : msg_qi ps empty_pq.
Proof. apply msg_q_qi, msg_q_empty. Qed.

Lemma msg_qi_before_nil ps q : msg_qi ps q -> before q = [] -> pkts q = [].
Proof.
  intros [[_ [[Hnil _]|[pre [last [Hp [Hip Hidr]]]]]] [_ Hid]] Hb; [exact Hnil|]. exfalso.
  assert (Hne : pkts q <> []) by (rewrite Hp; destruct pre; discriminate).
  specialize (Hid Hne). rewrite (before_last q pre last Hp Hip) in Hb.
  apply app_eq_nil in Hb. destruct Hb as [_ Hb].
  assert (Hl : zlen (ztake (id q) (pdata last)) = id q) by (apply zlen_ztake; unfold cap in Hidr; lia).
  rewrite Hb in Hl. cbn in Hl. lia.
Qed.

Lemma zdrop_nat {A} (s : nat) (l : list A) : zdrop (Z.of_nat s) l = skipn s l.
Proof. unfold zdrop. rewrite Nat2Z.id. reflexivity. Qed.

Lemma zlen_skipn {A} (s : nat) (l : list A) : (s <= length l)%nat -> zlen (skipn s l) = zlen l - Z.of_nat s.
Proof. intros H. unfold zlen. rewrite skipn_length. lia. Qed.

(* the budgeted loop of a QueuePackage over complete packets followed by the packet under the position:
   some prefix of the complete packets goes out, nothing else *)
Lemma send_loop_b_fulls ps chan typ ipq idq last : 8 <= ps -> forall pre i nr b,
  Forall (full_pkt ps) pre -> 0 <= i -> i + zlen pre = ipq ->
  exists (s : nat) (e : bool), (s <= length pre)%nat /\
    send_loop_b ps chan typ true ipq idq i (pre ++ [last]) nr b =
    Some (enc_fulls ps typ chan nr (map pdata (firstn s pre)), steps chan nr s, Z.of_nat s, e).
Proof.
  intros Hps. induction pre as [|p pre IH]; intros i nr b Hf Hi Hle.
  - exists O. cbn [app send_loop_b firstn map enc_fulls steps length Z.of_nat].
    destruct (bdone b); [exists true|exists false]; (split; [lia|]); [reflexivity|].
    change (zlen (@nil packet)) with 0 in Hle. replace (i =? ipq) with true by (symmetry; apply Z.eqb_eq; lia). reflexivity.
  - pose proof (Forall_inv Hf) as Hp. pose proof (Forall_inv_tail Hf) as Hpre.
    rewrite zlen_cons in Hle. pose proof (zlen_nonneg pre) as Hn.
    cbn [app send_loop_b]. destruct (bdone b).
    + exists O, true. split; [cbn; lia|]. reflexivity.
    + replace (i =? ipq) with false by (symmetry; apply Z.eqb_neq; lia).
      rewrite (send_full ps chan typ nr p Hps Hp).
      destruct (IH (i + 1) (step1 chan nr) (bdec b) Hpre ltac:(lia) ltac:(lia)) as [s [e [Hs E]]].
      rewrite E. exists (S s), e. split; [cbn [length]; lia|].
      cbn [firstn map enc_fulls steps]. f_equal. f_equal. f_equal. lia.
Qed.

Lemma Forall_firstn {A} (P : A -> Prop) n l : Forall P l -> Forall P (firstn n l).
Proof. intros H. rewrite <- (firstn_skipn n l) in H. apply Forall_app in H. apply H. Qed.
Lemma Forall_skipn {A} (P : A -> Prop) n l : Forall P l -> Forall P (skipn n l).
Proof. intros H. rewrite <- (firstn_skipn n l) in H. apply Forall_app in H. apply H. Qed.

(* QueuePackage with any budget on such a queue: some of the complete packets go out, the rest and the
   packet under the write position stay, in order *)
Lemma queue_package_b_spec ps chan typ chunks st b : 9 <= ps -> msg_qi ps (tq st) ->
  exists fulls st' e, queue_package_b ps chan typ chunks st b = Some (enc_fulls ps typ chan (tnr st) fulls, st', e) /\
    msg_qi ps (tq st') /\ Forall (fun x => zlen x = ps - 8) fulls /\
    concat fulls ++ before (tq st') = before (tq st) ++ concat chunks /\
    tnr st' = steps chan (tnr st) (length fulls) /\
    (pkts (tq st') = [] -> fulls = [] /\ before (tq st) ++ concat chunks = []).
Proof.
  intros Hps [Htx [Hpl Hid]]. unfold queue_package_b.
  destruct (write_chunks_spec ps Hps chunks (tq st) Htx Hpl Hid) as [q1 [E [Htx1 [Hpl1 [Hb1 [He1 Hid1]]]]]].
  rewrite E. unfold send_packets_b. cbn [tq tnr].
  destruct Htx1 as [Hok1 [[Hnil [Hip Hidz]]|[pre [last [Hp [Hip Hidr]]]]]].
  - rewrite Hnil. cbn [send_loop_b]. unfold discard_sent. unfold npk. rewrite Hnil. cbn [zlen length Z.of_nat].
    rewrite Hip, Hidz. cbn.
    exists [], {| tq := {| pkts := []; ip := 0; id := 0; eom := eom q1 |}; tnr := tnr st |}, false.
    cbn [enc_fulls tq tnr length steps concat app pkts].
    assert (Hq1 : q1 = {| pkts := []; ip := 0; id := 0; eom := eom q1 |}).
    { destruct q1; cbn in *; subst; reflexivity. }
    split; [reflexivity|]. split.
    + split; [split; [constructor|left; repeat split]|]. split; [constructor|]. intros H; exfalso; apply H; reflexivity.
    + split; [constructor|]. split; [|split; [reflexivity|]].
      * rewrite <- Hb1. rewrite Hq1 at 2. reflexivity.
      * intros _. split; [reflexivity|]. rewrite <- Hb1. rewrite Hq1. reflexivity.
  - assert (Hfull : Forall (full_pkt ps) pre).
    { rewrite Hp in Hok1, Hpl1. apply Forall_app in Hok1. apply Forall_app in Hpl1.
      destruct Hok1 as [Hok1 _]. destruct Hpl1 as [Hpl1 _].
      apply Forall_forall. intros p Hin. rewrite Forall_forall in Hok1, Hpl1.
      specialize (Hok1 p Hin). specialize (Hpl1 p Hin). unfold pk_ok in Hok1. split; [exact Hpl1|lia]. }
    rewrite Hp, Hip.
    destruct (send_loop_b_fulls ps chan typ (zlen pre) (id q1) last ltac:(lia) pre 0 (tnr st) b Hfull ltac:(lia) ltac:(lia))
      as [s [e [Hs El]]].
    rewrite El. unfold discard_sent. pose proof (zlen_nonneg pre) as Hn0.
    assert (Hnpk : npk q1 = zlen pre + 1) by (unfold npk; rewrite Hp, zlen_app; reflexivity).
    assert (Hsz : 0 <= Z.of_nat s <= zlen pre) by (unfold zlen; lia).
    replace ((Z.of_nat s <? 0) || (npk q1 <? Z.of_nat s)) with false
      by (symmetry; apply orb_false_iff; split; apply Z.ltb_ge; lia).
    rewrite Hip. replace (zlen pre - Z.of_nat s <? 0) with false by (symmetry; apply Z.ltb_ge; lia).
    rewrite Hp, zdrop_nat, skipn_app. replace (s - length pre)%nat with O by lia. cbn [skipn].
    exists (map pdata (firstn s pre)), {| tq := {| pkts := skipn s pre ++ [last]; ip := zlen pre - Z.of_nat s; id := id q1; eom := eom q1 |};
                                          tnr := steps chan (tnr st) s |}, e.
    split; [reflexivity|]. cbn [tq tnr].
    assert (Hlast : plen last = ps /\ pk_ok last).
    { rewrite Hp in Hok1, Hpl1. apply Forall_app in Hok1. apply Forall_app in Hpl1.
      destruct Hok1 as [_ H1]. destruct Hpl1 as [_ H2]. apply Forall_inv in H1. apply Forall_inv in H2. split; assumption. }
    assert (Hidl : 1 <= id q1) by (apply Hid1; rewrite Hp; destruct pre; discriminate).
    assert (Hokp : Forall pk_ok pre) by (rewrite Hp in Hok1; apply Forall_app in Hok1; apply Hok1).
    assert (Hplp : Forall (fun p => plen p = ps) pre) by (rewrite Hp in Hpl1; apply Forall_app in Hpl1; apply Hpl1).
    assert (Hipn : zlen pre - Z.of_nat s = zlen (skipn s pre)) by (rewrite zlen_skipn by exact Hs; reflexivity).
    split.
    + split.
      * split.
        -- cbn [pkts]. apply Forall_app. split; [apply Forall_skipn; exact Hokp|constructor; [apply Hlast|constructor]].
        -- right. exists (skipn s pre), last. cbn [pkts ip id]. split; [reflexivity|]. split; [exact Hipn|exact Hidr].
      * cbn [pkts id]. split.
        -- apply Forall_app. split; [apply Forall_skipn; exact Hplp|constructor; [apply Hlast|constructor]].
        -- intros _. exact Hidl.
    + split.
      * apply Forall_map. apply Forall_firstn. apply Forall_forall. intros p Hin. rewrite Forall_forall in Hfull. apply (Hfull p Hin).
      * split; [|split].
        -- rewrite <- Hb1. rewrite (before_last q1 pre last Hp Hip).
           rewrite (before_last {| pkts := skipn s pre ++ [last]; ip := zlen pre - Z.of_nat s; id := id q1; eom := eom q1 |}
                      (skipn s pre) last eq_refl Hipn).
           cbn [id]. rewrite app_assoc, <- concat_app, <- map_app, firstn_skipn. reflexivity.
        -- rewrite map_length, firstn_length_le by exact Hs. reflexivity.
        -- cbn [pkts]. intros Habs. destruct (skipn s pre); discriminate.
Qed.

(* all QueuePackage calls of a message, each with its own budget *)
Lemma queue_all_b_spec ps chan typ : 9 <= ps -> forall pkgs st, msg_qi ps (tq st) ->
  exists fulls st', queue_all_b ps chan typ pkgs st = Some (enc_fulls ps typ chan (tnr st) fulls, st') /\
    msg_qi ps (tq st') /\ Forall (fun x => zlen x = ps - 8) fulls /\
    concat fulls ++ before (tq st') = before (tq st) ++ payload_of (map fst pkgs) /\
    tnr st' = steps chan (tnr st) (length fulls) /\
    (pkts (tq st') = [] -> fulls = [] /\ before (tq st) ++ payload_of (map fst pkgs) = []).
Proof.
  intros Hps. induction pkgs as [|[c b] r IH]; intros st Hq.
  - exists [], st. cbn [queue_all_b enc_fulls concat app length steps map]. unfold payload_of. cbn [concat]. rewrite app_nil_r.
    split; [reflexivity|]. split; [exact Hq|]. split; [constructor|]. split; [reflexivity|]. split; [reflexivity|].
    intros Hnil. split; [reflexivity|]. unfold before, pkt_at. rewrite Hnil.
    destruct Hq as [[_ [[_ [Hip Hid]]|[pre [last [Hp _]]]]] _].
    + rewrite Hip, Hid. reflexivity.
    + rewrite Hp in Hnil. destruct pre; discriminate.
  - cbn [queue_all_b map fst].
    destruct (queue_package_b_spec ps chan typ c st b Hps Hq) as [f1 [st1 [e1 [E1 [Hq1 [Hf1 [Hc1 [Hn1 Hz1]]]]]]]].
    rewrite E1.
    destruct (IH st1 Hq1) as [f2 [st2 [E2 [Hq2 [Hf2 [Hc2 [Hn2 Hz2]]]]]]].
    rewrite E2. exists (f1 ++ f2), st2. split.
    + rewrite enc_fulls_app, Hn1. reflexivity.
    + split; [exact Hq2|]. split; [apply Forall_app; split; assumption|].
      assert (Hpay : before (tq st) ++ payload_of (c :: map fst r) = (before (tq st) ++ concat c) ++ payload_of (map fst r)).
      { unfold payload_of. cbn [concat]. rewrite concat_app, <- !app_assoc. reflexivity. }
      split.
      * rewrite concat_app, <- app_assoc, Hc2, app_assoc, Hc1. symmetry. exact Hpay.
      * split; [rewrite Hn2, Hn1, app_length, steps_add; reflexivity|].
        intros Hnil. destruct (Hz2 Hnil) as [Hf2nil Hrest]. apply app_eq_nil in Hrest. destruct Hrest as [Hb1nil Hpr].
        pose proof (msg_qi_before_nil ps (tq st1) Hq1 Hb1nil) as Hp1. destruct (Hz1 Hp1) as [Hf1nil Hc].
        subst f1 f2. split; [reflexivity|]. rewrite Hpay, Hc, Hpr. reflexivity.
Qed.

(* the flush of such a queue: every complete packet, then the packet under the position trimmed and marked *)
Lemma send_remaining_qi ps chan typ st : 9 <= ps <= 65535 -> msg_qi ps (tq st) -> pkts (tq st) <> [] ->
  exists fulls lastb, send_remaining ps chan typ st =
      Some (enc_fulls ps typ chan (tnr st) fulls ++
            [enc_pkt typ 1 (8 + zlen lastb) chan (steps chan (tnr st) (length fulls)) lastb],
            {| tq := empty_pq; tnr := steps chan (tnr st) (S (length fulls)) |}) /\
    Forall (fun x => zlen x = ps - 8) fulls /\ 1 <= zlen lastb <= ps - 8 /\
    concat fulls ++ lastb = before (tq st).
Proof.
  intros Hps [Htx [Hpl Hid]] Hne. specialize (Hid Hne).
  destruct Htx as [Hok [[Hnil _]|[pre [last [Hp [Hip Hidr]]]]]]; [congruence|].
  assert (Hlast : plen last = ps /\ pk_ok last).
  { rewrite Hp in Hok, Hpl. apply Forall_app in Hok. apply Forall_app in Hpl.
    destruct Hok as [_ H1]. destruct Hpl as [_ H2]. apply Forall_inv in H1. apply Forall_inv in H2. split; assumption. }
  destruct Hlast as [Hl1 Hl2]. unfold pk_ok in Hl2. unfold cap in Hidr.
  assert (Hfull : Forall (full_pkt ps) pre).
  { rewrite Hp in Hok, Hpl. apply Forall_app in Hok. apply Forall_app in Hpl.
    destruct Hok as [Hok1 _]. destruct Hpl as [Hpl1 _].
    apply Forall_forall. intros p Hin. rewrite Forall_forall in Hok1, Hpl1.
    specialize (Hok1 p Hin). specialize (Hpl1 p Hin). unfold pk_ok in Hok1. split; [exact Hpl1|lia]. }
  pose proof (zlen_nonneg pre) as Hn0.
  exists (map pdata pre), (ztake (id (tq st)) (pdata last)).
  unfold send_remaining, send_packets. rewrite Hp, Hip.
  rewrite (send_loop_fulls ps chan typ false (zlen pre) (id (tq st)) ltac:(lia) pre 0 [last] (tnr st) Hfull ltac:(lia) ltac:(lia)).
  rewrite Z.add_0_l. cbn [send_loop]. rewrite Z.eqb_refl.
  replace ((id (tq st) <? 0) || (zlen (pdata last) <? id (tq st))) with false
    by (symmetry; apply orb_false_iff; split; apply Z.ltb_ge; lia).
  rewrite (send_last ps chan typ (steps chan (tnr st) (length pre)) (id (tq st)) last) by lia.
  unfold discard_sent. unfold npk. rewrite Hp, zlen_app. change (zlen [last]) with 1.
  replace ((0 + 1 + zlen pre <? 0) || (zlen pre + 1 <? 0 + 1 + zlen pre)) with false
    by (symmetry; apply orb_false_iff; split; apply Z.ltb_ge; lia).
  rewrite Hip. replace (zlen pre - (0 + 1 + zlen pre) <? 0) with true by (symmetry; apply Z.ltb_lt; lia).
  cbn [tq tnr reset]. rewrite map_length. rewrite zlen_ztake by lia.
  split; [|split; [|split]].
  - rewrite steps_step. reflexivity.
  - apply Forall_map. apply Forall_forall. intros p Hin. rewrite Forall_forall in Hfull. apply (Hfull p Hin).
  - lia.
  - rewrite (before_last (tq st) pre last Hp Hip). reflexivity.
Qed.

(* a byte string has one packetisation only *)
Lemma app_same_len {A} (a b x y : list A) : zlen a = zlen b -> a ++ x = b ++ y -> a = b /\ x = y.
Proof.
  intros Hl H. split.
  - pose proof (f_equal (ztake (zlen a)) H) as H1. rewrite ztake_app_exact, Hl, ztake_app_exact in H1. exact H1.
  - pose proof (f_equal (zdrop (zlen a)) H) as H1. rewrite zdrop_app_exact, Hl, zdrop_app_exact in H1. exact H1.
Qed.

Lemma canon_unique B : 1 <= B -> forall f1 f2 l1 l2,
  Forall (fun x : bytes => zlen x = B) f1 -> Forall (fun x : bytes => zlen x = B) f2 ->
  1 <= zlen l1 <= B -> 1 <= zlen l2 <= B -> concat f1 ++ l1 = concat f2 ++ l2 -> f1 = f2 /\ l1 = l2.
Proof.
  intros HB. induction f1 as [|a f1 IH]; intros f2 l1 l2 H1 H2 Hl1 Hl2 H.
  - destruct f2 as [|b f2]; [split; [reflexivity|exact H]|]. exfalso.
    pose proof (Forall_inv H2) as Hb. cbn beta in Hb. cbn [concat app] in H. apply (f_equal (@zlen Z)) in H.
    rewrite !zlen_app in H. pose proof (zlen_nonneg (concat f2)). lia.
  - destruct f2 as [|b f2].
    + exfalso. pose proof (Forall_inv H1) as Ha. cbn beta in Ha. cbn [concat app] in H. apply (f_equal (@zlen Z)) in H.
      rewrite !zlen_app in H. pose proof (zlen_nonneg (concat f1)). lia.
    + pose proof (Forall_inv H1) as Ha. pose proof (Forall_inv H2) as Hb. cbn beta in Ha, Hb.
      cbn [concat] in H. rewrite <- !app_assoc in H.
      destruct (app_same_len a b _ _ ltac:(lia) H) as [Eab Er]. subst b.
      destruct (IH f2 l1 l2 (Forall_inv_tail H1) (Forall_inv_tail H2) Hl1 Hl2 Er) as [Ef El].
      subst f2 l2. split; reflexivity.
Qed.

(* the interrupted message, whatever the budgets: the canonical packets of what was queued *)
Lemma send_message_b_canon ps chan typ pkgs st : 9 <= ps <= 65535 -> msg_qi ps (tq st) ->
  before (tq st) ++ payload_of (map fst pkgs) <> [] ->
  exists fulls lastb, send_message_b ps chan typ pkgs st =
      Some (enc_fulls ps typ chan (tnr st) fulls ++
            [enc_pkt typ 1 (8 + zlen lastb) chan (steps chan (tnr st) (length fulls)) lastb],
            {| tq := empty_pq; tnr := steps chan (tnr st) (S (length fulls)) |}) /\
    Forall (fun x => zlen x = ps - 8) fulls /\ 1 <= zlen lastb <= ps - 8 /\
    concat fulls ++ lastb = before (tq st) ++ payload_of (map fst pkgs).
Proof.
  intros Hps Hq Hpay. unfold send_message_b.
  destruct (queue_all_b_spec ps chan typ ltac:(lia) pkgs st Hq) as [f1 [st1 [E1 [Hq1 [Hf1 [Hc1 [Hn1 Hz1]]]]]]].
  rewrite E1.
  assert (Hne : pkts (tq st1) <> []).
  { intros Hnil. destruct (Hz1 Hnil) as [_ Hempty]. congruence. }
  destruct (send_remaining_qi ps chan typ st1 Hps Hq1 Hne) as [f2 [lastb [E2 [Hf2 [Hl Hc2]]]]].
  rewrite E2. exists (f1 ++ f2), lastb. split.
  - rewrite enc_fulls_app, Hn1, <- app_assoc, app_length, steps_add.
    replace (S (length f1 + length f2)) with (length f1 + S (length f2))%nat by lia. rewrite steps_add. reflexivity.
  - split; [apply Forall_app; split; assumption|]. split; [exact Hl|].
    rewrite concat_app, <- app_assoc, Hc2. exact Hc1.
Qed.

(* nothing was ever queued: nothing is written, with or without interruptions *)
Lemma send_message_b_nothing ps chan typ pkgs st : 9 <= ps <= 65535 -> msg_qi ps (tq st) ->
  before (tq st) ++ payload_of (map fst pkgs) = [] ->
  send_message_b ps chan typ pkgs st = Some ([], {| tq := empty_pq; tnr := tnr st |}).
Proof.
  intros Hps Hq Hpay. unfold send_message_b.
  destruct (queue_all_b_spec ps chan typ ltac:(lia) pkgs st Hq) as [f1 [st1 [E1 [Hq1 [Hf1 [Hc1 [Hn1 Hz1]]]]]]].
  rewrite E1. rewrite Hpay in Hc1. apply app_eq_nil in Hc1. destruct Hc1 as [Hcf Hb1].
  assert (Hf1nil : f1 = []).
  { destruct f1 as [|x f1]; [reflexivity|]. exfalso. pose proof (Forall_inv Hf1) as Hx. cbn [concat] in Hcf.
    apply app_eq_nil in Hcf. destruct Hcf as [Hxn _]. rewrite Hxn in Hx. cbn in Hx. lia. }
  pose proof (msg_qi_before_nil ps (tq st1) Hq1 Hb1) as Hp1.
  subst f1. cbn [length steps] in Hn1. cbn [enc_fulls app].
  unfold send_remaining, send_packets. rewrite Hp1. cbn [send_loop].
  unfold discard_sent, npk. rewrite Hp1. cbn [zlen length Z.of_nat].
  destruct Hq1 as [[_ [[_ [Hip Hid]]|[pre [last [Hp _]]]]] _].
  - rewrite Hip. cbn. rewrite Hn1. reflexivity.
  - rewrite Hp in Hp1. destruct pre; discriminate.
Qed.

Theorem interrupted_queue ps chan typ pkgs st : 9 <= ps <= 65535 -> msg_qi ps (tq st) ->
  exists outs st', send_message_b ps chan typ pkgs st = Some (outs, st') /\
    send_message ps chan typ (map fst pkgs) st = Some (outs, st') /\ tq st' = empty_pq.
Proof.
  intros Hps Hq. rewrite <- (send_message_b_live ps chan typ (map fst pkgs) st).
  assert (Hm : map fst (live_pkgs (map fst pkgs)) = map fst pkgs) by apply map_fst_live.
  destruct (list_eq_dec Z.eq_dec (before (tq st) ++ payload_of (map fst pkgs)) []) as [Hnil|Hpay].
  - rewrite (send_message_b_nothing ps chan typ pkgs st Hps Hq Hnil).
    rewrite (send_message_b_nothing ps chan typ (live_pkgs (map fst pkgs)) st Hps Hq) by (rewrite Hm; exact Hnil).
    eexists _, _. split; [reflexivity|]. split; reflexivity.
  - destruct (send_message_b_canon ps chan typ pkgs st Hps Hq Hpay) as [f1 [l1 [E1 [Hf1 [Hl1 Hc1]]]]].
    destruct (send_message_b_canon ps chan typ (live_pkgs (map fst pkgs)) st Hps Hq) as [f2 [l2 [E2 [Hf2 [Hl2 Hc2]]]]].
    { rewrite Hm. exact Hpay. }
    rewrite Hm in Hc2. rewrite <- Hc2 in Hc1.
    destruct (canon_unique (ps - 8) ltac:(lia) f1 f2 l1 l2 Hf1 Hf2 Hl1 Hl2 Hc1) as [Ef El]. subst f2 l2.
    rewrite E1, E2. eexists _, _. split; [reflexivity|]. split; reflexivity.
Qed.

(* from an empty queue: the interrupted message is the well-formed message of C01_message *)
Theorem interrupted_message_ok ps chan typ pkgs st :
  9 <= ps <= 65535 -> 0 <= chan < 65536 -> 0 <= tnr st < 256 -> tq st = empty_pq -> payload_of (map fst pkgs) <> [] ->
  exists outs st', send_message_b ps chan typ pkgs st = Some (outs, st') /\
    tx_ok ps typ chan (tnr st) (payload_of (map fst pkgs)) outs = true /\
    tq st' = empty_pq /\ tnr st' = (if 0 <? chan then (tnr st + zlen outs) mod 256 else tnr st).
Proof.
  intros Hps Hc Hnr Hq Hpay.
  assert (Hqi : msg_qi ps (tq st)) by (rewrite Hq; apply msg_qi_empty).
  destruct (interrupted_queue ps chan typ pkgs st Hps Hqi) as [outs [st' [E1 [E2 _]]]].
  destruct (message_ok ps chan typ (map fst pkgs) st Hps Hc Hnr Hq Hpay) as [o [s [E [Hok [Hq' Hn']]]]].
  rewrite E in E2. inversion E2; subst o s.
  exists outs, st'. split; [exact E1|]. split; [exact Hok|]. split; assumption.
Qed.

(* the invariant really is one: every state the interrupted QueuePackage calls can reach from the empty queue *)
Theorem interrupted_states ps chan typ c st b o st' e : 9 <= ps -> msg_qi ps (tq st) ->
  queue_package_b ps chan typ c st b = Some (o, st', e) -> msg_qi ps (tq st').
Proof.
  intros Hps Hq H.
  destruct (queue_package_b_spec ps chan typ c st b Hps Hq) as [f1 [st1 [e1 [E1 [Hq1 _]]]]].
  rewrite E1 in H. inversion H; subst. exact Hq1.
Qed.

(* ------------------------------------------------------------------ the interrupted flush *)
Lemma send_loop_b_flush ps chan typ ipq idq last : 8 <= ps -> 0 <= idq <= zlen (pdata last) -> 8 + idq < 65536 ->
  forall pre i nr b, Forall (full_pkt ps) pre -> 0 <= i -> i + zlen pre = ipq ->
  (exists s : nat, (s <= length pre)%nat /\
    send_loop_b ps chan typ false ipq idq i (pre ++ [last]) nr b =
    Some (enc_fulls ps typ chan nr (map pdata (firstn s pre)), steps chan nr s, Z.of_nat s, true)) \/
  send_loop_b ps chan typ false ipq idq i (pre ++ [last]) nr b =
    Some (enc_fulls ps typ chan nr (map pdata pre) ++
          [enc_pkt typ 1 (8 + idq) chan (steps chan nr (length pre)) (ztake idq (pdata last))],
          steps chan nr (S (length pre)), zlen pre + 1, false).
Proof.
  intros Hps Hid Hsmall. induction pre as [|p pre IH]; intros i nr b Hf Hi Hle.
  - cbn [app send_loop_b]. destruct (bdone b).
    + left. exists O. split; [cbn; lia|]. reflexivity.
    + right. change (zlen (@nil packet)) with 0 in Hle.
      replace (i =? ipq) with true by (symmetry; apply Z.eqb_eq; lia).
      replace ((idq <? 0) || (zlen (pdata last) <? idq)) with false
        by (symmetry; apply orb_false_iff; split; apply Z.ltb_ge; lia).
      rewrite (send_last ps chan typ nr idq last) by lia. reflexivity.
  - pose proof (Forall_inv Hf) as Hp. pose proof (Forall_inv_tail Hf) as Hpre.
    rewrite zlen_cons in Hle. pose proof (zlen_nonneg pre) as Hn.
    cbn [app send_loop_b]. destruct (bdone b).
    + left. exists O. split; [cbn; lia|]. reflexivity.
    + replace (i =? ipq) with false by (symmetry; apply Z.eqb_neq; lia).
      rewrite (send_full ps chan typ nr p Hps Hp).
      destruct (IH (i + 1) (step1 chan nr) (bdec b) Hpre ltac:(lia) ltac:(lia)) as [[s [Hs E]]|E]; rewrite E.
      * left. exists (S s). split; [cbn [length]; lia|].
        cbn [firstn map enc_fulls steps]. f_equal. f_equal. f_equal. lia.
      * right. cbn [map enc_fulls steps length app]. rewrite zlen_cons. f_equal. f_equal. f_equal. lia.
Qed.

Lemma length_enc_fulls ps typ chan : forall l nr, length (enc_fulls ps typ chan nr l) = length l.
Proof. induction l as [|x l IH]; intros nr; [reflexivity|]. cbn [enc_fulls length]. rewrite IH. reflexivity. Qed.

(* complete packets are a proper prefix of the packetisation as long as a byte is left *)
Lemma tx_prefix_fulls ps typ chan : 9 <= ps <= 65535 -> 0 <= chan < 65536 ->
  forall done nrs nrm rest, Forall (fun x => zlen x = ps - 8) done -> 1 <= zlen rest ->
  (0 < chan -> nrm mod 256 = nrs mod 256) ->
  tx_prefix_ok ps typ chan nrs (concat done ++ rest) (enc_fulls ps typ chan nrm done) = true.
Proof.
  intros Hps Hc. induction done as [|x done IH]; intros nrs nrm rest Hf Hr Hnr; [reflexivity|].
  pose proof (Forall_inv Hf) as Hx. cbn beta in Hx. pose proof (Forall_inv_tail Hf) as Hfs.
  cbn [concat enc_fulls tx_prefix_ok]. rewrite <- app_assoc. rewrite parse_enc by lia.
  rewrite (header_ok_enc ps typ chan nrs nrm ps x false) by (try lia; exact Hnr).
  rewrite Hx, Z.eqb_refl.
  replace (ps - 8 <? zlen (x ++ concat done ++ rest)) with true
    by (symmetry; apply Z.ltb_lt; rewrite !zlen_app; pose proof (zlen_nonneg (concat done)); lia).
  rewrite <- Hx at 1 2. rewrite ztake_app_exact, zdrop_app_exact, list_Z_eqb_refl. cbn [andb].
  apply IH; [exact Hfs|exact Hr|]. intros Hpos. apply step1_mod; [exact Hpos|apply Hnr; exact Hpos].
Qed.

Theorem interrupted_flush ps chan typ st b : 9 <= ps <= 65535 -> 0 <= chan < 65536 ->
  msg_qi ps (tq st) -> pkts (tq st) <> [] ->
  exists o st' e, send_remaining_b ps chan typ st b = Some (o, st', e) /\ tq st' = empty_pq /\
    (if e then tx_prefix_ok ps typ chan (tnr st) (before (tq st)) o = true /\
               tnr st' = steps chan (tnr st) (length o)
     else send_remaining ps chan typ st = Some (o, st')).
Proof.
  intros Hps Hc [Htx [Hpl Hid]] Hne. specialize (Hid Hne).
  destruct Htx as [Hok [[Hnil _]|[pre [last [Hp [Hip Hidr]]]]]]; [congruence|].
  assert (Hlast : plen last = ps /\ pk_ok last).
  { rewrite Hp in Hok, Hpl. apply Forall_app in Hok. apply Forall_app in Hpl.
    destruct Hok as [_ H1]. destruct Hpl as [_ H2]. apply Forall_inv in H1. apply Forall_inv in H2. split; assumption. }
  destruct Hlast as [Hl1 Hl2]. unfold pk_ok in Hl2. unfold cap in Hidr.
  assert (Hfull : Forall (full_pkt ps) pre).
  { rewrite Hp in Hok, Hpl. apply Forall_app in Hok. apply Forall_app in Hpl.
    destruct Hok as [Hok1 _]. destruct Hpl as [Hpl1 _].
    apply Forall_forall. intros p Hin. rewrite Forall_forall in Hok1, Hpl1.
    specialize (Hok1 p Hin). specialize (Hpl1 p Hin). unfold pk_ok in Hok1. split; [exact Hpl1|lia]. }
  pose proof (zlen_nonneg pre) as Hn0.
  assert (Hnpk : npk (tq st) = zlen pre + 1) by (unfold npk; rewrite Hp, zlen_app; reflexivity).
  destruct (send_loop_b_flush ps chan typ (zlen pre) (id (tq st)) last ltac:(lia) ltac:(lia) ltac:(lia)
              pre 0 (tnr st) b Hfull ltac:(lia) ltac:(lia)) as [[s [Hs E]]|E].
  - (* interrupted: s complete packets went out, the message is abandoned *)
    unfold send_remaining_b, send_packets_b. rewrite Hp, Hip, E.
    unfold discard_sent.
    replace ((Z.of_nat s <? 0) || (npk (tq st) <? Z.of_nat s)) with false
      by (symmetry; apply orb_false_iff; split; apply Z.ltb_ge; unfold zlen in *; lia).
    assert (Hlen : length (enc_fulls ps typ chan (tnr st) (map pdata (firstn s pre))) = s).
    { rewrite length_enc_fulls, map_length. apply firstn_length_le. exact Hs. }
    assert (Hpre : tx_prefix_ok ps typ chan (tnr st) (before (tq st))
                     (enc_fulls ps typ chan (tnr st) (map pdata (firstn s pre))) = true).
    { rewrite (before_last (tq st) pre last Hp Hip).
      replace (concat (map pdata pre)) with (concat (map pdata (firstn s pre)) ++ concat (map pdata (skipn s pre)))
        by (rewrite <- concat_app, <- map_app, firstn_skipn; reflexivity).
      rewrite <- app_assoc.
      apply tx_prefix_fulls; [lia|lia| | |intros _; reflexivity].
      - apply Forall_map, Forall_firstn, Forall_forall. intros p Hin. rewrite Forall_forall in Hfull. apply (Hfull p Hin).
      - rewrite zlen_app, zlen_ztake by lia. pose proof (zlen_nonneg (concat (map pdata (skipn s pre)))). lia. }
    destruct (ip (tq st) - Z.of_nat s <? 0); cbn [tq tnr reset];
      (eexists _, _, true; split; [reflexivity|]; split; [reflexivity|]; split; [exact Hpre|]);
      cbn [tnr]; rewrite Hlen; reflexivity.
  - (* everything went out: the live result *)
    unfold send_remaining_b, send_packets_b, send_remaining, send_packets. rewrite Hp, Hip, E.
    rewrite (send_loop_fulls ps chan typ false (zlen pre) (id (tq st)) ltac:(lia) pre 0 [last] (tnr st) Hfull ltac:(lia) ltac:(lia)).
    rewrite Z.add_0_l. cbn [send_loop]. rewrite Z.eqb_refl.
    replace ((id (tq st) <? 0) || (zlen (pdata last) <? id (tq st))) with false
      by (symmetry; apply orb_false_iff; split; apply Z.ltb_ge; lia).
    rewrite (send_last ps chan typ (steps chan (tnr st) (length pre)) (id (tq st)) last) by lia.
    rewrite <- steps_step. replace (0 + 1 + zlen pre) with (zlen pre + 1) by lia.
    destruct (discard_sent (zlen pre + 1) (tq st)) as [q'|] eqn:Ed.
    + eexists _, _, false. split; [reflexivity|]. split; reflexivity.
    + exfalso. unfold discard_sent in Ed. rewrite Hnpk in Ed.
      replace ((zlen pre + 1 <? 0) || (zlen pre + 1 <? zlen pre + 1)) with false in Ed
        by (symmetry; apply orb_false_iff; split; apply Z.ltb_ge; lia).
      destruct (ip (tq st) - (zlen pre + 1) <? 0); discriminate.
Qed.

(* ------------------------------------------------------------------ every history of calls *)
Lemma send_loop_b_err ps chan typ f ipq idq : forall pk i nr b o n s,
  send_loop_b ps chan typ f ipq idq i pk nr b = Some (o, n, s, true) -> 0 <= s < zlen pk.
Proof.
  induction pk as [|p r IH]; intros i nr b o n s H; cbn [send_loop_b] in H; [discriminate|].
  rewrite zlen_cons. pose proof (zlen_nonneg r) as Hr. destruct (bdone b).
  - inversion H; subst. lia.
  - destruct (i =? ipq).
    + destruct f; [discriminate|]. destruct ((idq <? 0) || (zlen (pdata p) <? idq)); [discriminate|].
      destruct (send_packet ps chan typ true nr _) as [[bs nr1]|]; [|discriminate].
      destruct (send_loop_b ps chan typ false ipq idq (i + 1) r nr1 (bdec b)) as [[[[o2 n2] s2] e2]|] eqn:E; [|discriminate].
      inversion H; subst. specialize (IH _ _ _ _ _ _ E). lia.
    + destruct (send_packet ps chan typ false nr p) as [[bs nr1]|]; [|discriminate].
      destruct (send_loop_b ps chan typ f ipq idq (i + 1) r nr1 (bdec b)) as [[[[o2 n2] s2] e2]|] eqn:E; [|discriminate].
      inversion H; subst. specialize (IH _ _ _ _ _ _ E). lia.
Qed.

Lemma zdrop_nonnil {A} n (l : list A) : 0 <= n < zlen l -> zdrop n l <> [].
Proof. intros H Hn. pose proof (zlen_zdrop n l ltac:(lia)) as Hz. rewrite Hn in Hz. cbn in Hz. lia. Qed.

(* an error means that packets stay queued *)
Lemma send_packets_b_err ps chan typ f st b o st' : send_packets_b ps chan typ f st b = Some (o, st', true) ->
  pkts (tq st') <> [].
Proof.
  unfold send_packets_b.
  destruct (send_loop_b ps chan typ f (ip (tq st)) (id (tq st)) 0 (pkts (tq st)) (tnr st) b) as [[[[o1 n1] s1] e1]|] eqn:E; [|discriminate].
  unfold discard_sent, npk. intros H.
  destruct ((s1 <? 0) || (zlen (pkts (tq st)) <? s1)); [discriminate|].
  assert (He : e1 = true) by (destruct (ip (tq st) - s1 <? 0); inversion H; reflexivity). subst e1.
  pose proof (send_loop_b_err _ _ _ _ _ _ _ _ _ _ _ _ _ E) as Hs.
  destruct (ip (tq st) - s1 <? 0); inversion H; subst; cbn [tq pkts]; apply zdrop_nonnil; exact Hs.
Qed.

Lemma queue_package_b_err ps chan typ c st b o st' : queue_package_b ps chan typ c st b = Some (o, st', true) ->
  pkts (tq st') <> [].
Proof.
  unfold queue_package_b. destruct (write_chunks ps c (tq st)) as [q'|]; [|discriminate]. apply send_packets_b_err.
Qed.

Lemma queue_package_b_live_ok ps chan typ c st o st' e : queue_package_b ps chan typ c st None = Some (o, st', e) -> e = false.
Proof.
  rewrite queue_package_b_live. destruct (queue_package ps chan typ c st) as [[o1 st1]|]; [|discriminate].
  intros H; inversion H; reflexivity.
Qed.
Lemma send_remaining_b_live_ok ps chan typ st o st' e : send_remaining_b ps chan typ st None = Some (o, st', e) -> e = false.
Proof.
  rewrite send_remaining_b_live. destruct (send_remaining ps chan typ st) as [[o1 st1]|]; [|discriminate].
  intros H; inversion H; reflexivity.
Qed.

(* the flush, structurally: some complete packets; unless interrupted, also the rest as the last packet *)
Lemma flush_struct ps chan typ st b : 9 <= ps <= 65535 -> msg_qi ps (tq st) -> pkts (tq st) <> [] ->
  exists fulls rest (e : bool),
    send_remaining_b ps chan typ st b =
      Some (enc_fulls ps typ chan (tnr st) fulls ++
            (if e then [] else [enc_pkt typ 1 (8 + zlen rest) chan (steps chan (tnr st) (length fulls)) rest]),
            {| tq := empty_pq; tnr := steps chan (tnr st) (length fulls + (if e then 0 else 1)) |}, e) /\
    Forall (fun x => zlen x = ps - 8) fulls /\ concat fulls ++ rest = before (tq st) /\ 1 <= zlen rest /\
    (e = false -> zlen rest <= ps - 8).
Proof.
  intros Hps [Htx [Hpl Hid]] Hne. specialize (Hid Hne).
  destruct Htx as [Hok [[Hnil _]|[pre [last [Hp [Hip Hidr]]]]]]; [congruence|].
  assert (Hlast : plen last = ps /\ pk_ok last).
  { rewrite Hp in Hok, Hpl. apply Forall_app in Hok. apply Forall_app in Hpl.
    destruct Hok as [_ H1]. destruct Hpl as [_ H2]. apply Forall_inv in H1. apply Forall_inv in H2. split; assumption. }
  destruct Hlast as [Hl1 Hl2]. unfold pk_ok in Hl2. unfold cap in Hidr.
  assert (Hfull : Forall (full_pkt ps) pre).
  { rewrite Hp in Hok, Hpl. apply Forall_app in Hok. apply Forall_app in Hpl.
    destruct Hok as [Hok1 _]. destruct Hpl as [Hpl1 _].
    apply Forall_forall. intros p Hin. rewrite Forall_forall in Hok1, Hpl1.
    specialize (Hok1 p Hin). specialize (Hpl1 p Hin). unfold pk_ok in Hok1. split; [exact Hpl1|lia]. }
  assert (Hfb : forall l, Forall (full_pkt ps) l -> Forall (fun x => zlen x = ps - 8) (map pdata l)).
  { intros l Hl. apply Forall_map. apply Forall_forall. intros p Hin. rewrite Forall_forall in Hl. apply (Hl p Hin). }
  pose proof (zlen_nonneg pre) as Hn0.
  assert (Hnpk : npk (tq st) = zlen pre + 1) by (unfold npk; rewrite Hp, zlen_app; reflexivity).
  unfold send_remaining_b, send_packets_b. rewrite Hp, Hip.
  destruct (send_loop_b_flush ps chan typ (zlen pre) (id (tq st)) last ltac:(lia) ltac:(lia) ltac:(lia)
              pre 0 (tnr st) b Hfull ltac:(lia) ltac:(lia)) as [[s [Hs E]]|E]; rewrite E; unfold discard_sent; rewrite Hnpk.
  - replace ((Z.of_nat s <? 0) || (zlen pre + 1 <? Z.of_nat s)) with false
      by (symmetry; apply orb_false_iff; split; apply Z.ltb_ge; unfold zlen in *; lia).
    exists (map pdata (firstn s pre)), (concat (map pdata (skipn s pre)) ++ ztake (id (tq st)) (pdata last)), true.
    rewrite app_nil_r, Nat.add_0_r, map_length, firstn_length_le by exact Hs.
    split; [destruct (ip (tq st) - Z.of_nat s <? 0); reflexivity|].
    split; [apply Hfb, Forall_firstn, Hfull|]. split.
    + rewrite (before_last (tq st) pre last Hp Hip). rewrite app_assoc, <- concat_app, <- map_app, firstn_skipn. reflexivity.
    + split; [|discriminate]. rewrite zlen_app, zlen_ztake by lia.
      pose proof (zlen_nonneg (concat (map pdata (skipn s pre)))). lia.
  - replace ((zlen pre + 1 <? 0) || (zlen pre + 1 <? zlen pre + 1)) with false
      by (symmetry; apply orb_false_iff; split; apply Z.ltb_ge; lia).
    exists (map pdata pre), (ztake (id (tq st)) (pdata last)), false.
    rewrite map_length, zlen_ztake by lia. replace (length pre + 1)%nat with (S (length pre)) by lia.
    split; [destruct (ip (tq st) - (zlen pre + 1) <? 0); reflexivity|].
    split; [apply Hfb, Hfull|]. split; [rewrite (before_last (tq st) pre last Hp Hip); reflexivity|].
    split; [lia|intros _; lia].
Qed.

(* the relation between the specification's bookkeeping and the model state inside a segment:
   [done] = the bodies of the packets of the current message that went out already *)
Definition R (ps typ chan : Z) (s : sstate) (st : txst) : Prop :=
  exists done nr0, Forall (fun x => zlen x = ps - 8) done /\ a_w s = enc_fulls ps typ chan nr0 done /\
    a_p s = concat done ++ before (tq st) /\ tnr st = steps chan nr0 (length done) /\
    0 <= nr0 < 256 /\ (0 < chan -> nr0 mod 256 = a_nr s mod 256) /\
    msg_qi ps (tq st) /\ (pkts (tq st) = [] -> done = []).

Lemma msg_qi_nil_before ps q : msg_qi ps q -> pkts q = [] -> before q = [].
Proof.
  intros [[_ [[_ [Hip Hid]]|[pre [last [Hp _]]]]] _] Hnil.
  - unfold before, pkt_at. rewrite Hnil, Hip, Hid. reflexivity.
  - rewrite Hp in Hnil. destruct pre; discriminate.
Qed.

Lemma is_nil_app_cons {A} (l : list A) x r : is_nil (l ++ x :: r) = false.
Proof. destruct l; reflexivity. Qed.

Lemma pending_iff st : pending st = negb (is_nil (pkts (tq st))).
Proof. unfold pending, npk. destruct (pkts (tq st)) as [|p l]; [reflexivity|]. rewrite zlen_cons. pose proof (zlen_nonneg l).
  cbn [is_nil negb]. replace (1 + zlen l =? 0) with false by (symmetry; apply Z.eqb_neq; lia). reflexivity. Qed.

Lemma nr_rel chan nr0 a k (ws : list bytes) : 0 <= nr0 < 256 -> (0 < chan -> nr0 mod 256 = a mod 256) -> zlen ws = Z.of_nat k ->
  0 <= steps chan nr0 k < 256 /\ (0 < chan -> steps chan nr0 k mod 256 = nr_after chan a ws mod 256).
Proof.
  intros Hr Hm Hk. rewrite steps_value by exact Hr. unfold nr_after. destruct (Z.ltb_spec 0 chan) as [Hpos|Hz].
  - split; [apply Z.mod_pos_bound; lia|]. intros _. rewrite !Z.mod_mod by lia. rewrite Hk.
    rewrite <- Zplus_mod_idemp_l, (Hm Hpos), Zplus_mod_idemp_l. reflexivity.
  - split; [exact Hr|]. intros Habs. lia.
Qed.

Lemma step_queue ps typ chan c b s st : 9 <= ps <= 65535 -> 0 <= chan < 65536 -> R ps typ chan s st ->
  exists o st' e, queue_package_b ps chan typ c st b = Some (o, st', e) /\
    let s' := {| a_w := a_w s ++ o; a_p := a_p s ++ concat c; a_nr := a_nr s |} in
    s_continue ps typ chan (a_w s ++ o) (a_p s ++ concat c) (pending st') s = Some s' /\ R ps typ chan s' st'.
Proof.
  intros Hps Hc [done [nr0 [Hd [Hw [Hp [Hn [Hr [Hm [Hq Hz]]]]]]]]].
  destruct (queue_package_b_spec ps chan typ c st b ltac:(lia) Hq) as [fulls [st' [e [E [Hq' [Hf [Hcat [Hn' Hz']]]]]]]].
  exists (enc_fulls ps typ chan (tnr st) fulls), st', e. split; [exact E|].
  assert (Hws : a_w s ++ enc_fulls ps typ chan (tnr st) fulls = enc_fulls ps typ chan nr0 (done ++ fulls))
    by (rewrite Hw, Hn, <- enc_fulls_app; reflexivity).
  assert (Hpp : a_p s ++ concat c = concat (done ++ fulls) ++ before (tq st'))
    by (rewrite Hp, concat_app, <- !app_assoc, Hcat; reflexivity).
  assert (Hdf : Forall (fun x => zlen x = ps - 8) (done ++ fulls)) by (apply Forall_app; split; assumption).
  assert (Hzz : pkts (tq st') = [] -> done ++ fulls = []).
  { intros Hnil. destruct (Hz' Hnil) as [Hfn Hbn]. apply app_eq_nil in Hbn. destruct Hbn as [Hbn _].
    rewrite Hfn, (Hz (msg_qi_before_nil ps (tq st) Hq Hbn)). reflexivity. }
  cbn zeta. split.
  - unfold s_continue. rewrite Hws, Hpp, pending_iff.
    destruct (before (tq st')) as [|x r] eqn:Eb.
    + pose proof (msg_qi_before_nil ps (tq st') Hq' Eb) as Hnil. rewrite (Hzz Hnil), Hnil. reflexivity.
    + assert (Hne : pkts (tq st') <> []).
      { intros Hnil. rewrite (msg_qi_nil_before ps (tq st') Hq' Hnil) in Eb. discriminate. }
      rewrite (tx_prefix_fulls ps typ chan Hps Hc (done ++ fulls) (a_nr s) nr0 (x :: r) Hdf) by
        (try exact Hm; rewrite zlen_cons; pose proof (zlen_nonneg r); lia).
      rewrite is_nil_app_cons. destruct (pkts (tq st')); [congruence|]. reflexivity.
  - exists (done ++ fulls), nr0. cbn [a_w a_p a_nr].
    split; [exact Hdf|]. split; [exact Hws|]. split; [exact Hpp|].
    split; [rewrite Hn', Hn, app_length, steps_add; reflexivity|].
    split; [exact Hr|]. split; [exact Hm|]. split; [exact Hq'|exact Hzz].
Qed.

Lemma step_flush ps typ chan b s st : 9 <= ps <= 65535 -> 0 <= chan < 65536 -> R ps typ chan s st ->
  exists o st' e, send_remaining_b ps chan typ st b = Some (o, st', e) /\ tq st' = empty_pq /\
    let s' := {| a_w := []; a_p := []; a_nr := nr_after chan (a_nr s) (a_w s ++ o) |} in
    (if e then s_abandon ps typ chan (a_w s ++ o) (a_p s) false s
     else s_complete ps typ chan (a_w s ++ o) (a_p s) false s) = Some s' /\ R ps typ chan s' st'.
Proof.
  intros Hps Hc [done [nr0 [Hd [Hw [Hp [Hn [Hr [Hm [Hq Hz]]]]]]]]].
  assert (Hnew : forall k ws, zlen ws = Z.of_nat k ->
    R ps typ chan {| a_w := []; a_p := []; a_nr := nr_after chan (a_nr s) ws |} {| tq := empty_pq; tnr := steps chan nr0 k |}).
  { intros k ws Hk. destruct (nr_rel chan nr0 (a_nr s) k ws Hr Hm Hk) as [Hr' Hm'].
    exists [], (steps chan nr0 k). cbn [a_w a_p a_nr tq tnr enc_fulls concat app length steps].
    split; [constructor|]. split; [reflexivity|]. split; [reflexivity|]. split; [reflexivity|].
    split; [exact Hr'|]. split; [exact Hm'|]. split; [apply msg_qi_empty|reflexivity]. }
  destruct (pkts (tq st)) as [|p0 l0] eqn:Ep.
  - (* nothing queued: nothing written, no error *)
    pose proof (Hz eq_refl) as Hdn. subst done. cbn [enc_fulls concat app length steps] in *.
    rewrite (msg_qi_nil_before ps (tq st) Hq Ep) in Hp.
    exists [], {| tq := empty_pq; tnr := tnr st |}, false. split.
    + unfold send_remaining_b, send_packets_b. rewrite Ep. cbn [send_loop_b]. unfold discard_sent, npk. rewrite Ep.
      cbn [zlen length Z.of_nat]. replace ((0 <? 0) || (0 <? 0)) with false by reflexivity.
      destruct (ip (tq st) - 0 <? 0); reflexivity.
    + split; [reflexivity|]. cbn zeta. rewrite Hw, Hp. cbn [app]. split; [reflexivity|].
      rewrite Hn. apply (Hnew O []). reflexivity.
  - assert (Hne : pkts (tq st) <> []) by (rewrite Ep; discriminate).
    destruct (flush_struct ps chan typ st b Hps Hq Hne) as [fulls [rest [e [E [Hf [Hcat [Hrl Hru]]]]]]].
    assert (Hdf : Forall (fun x => zlen x = ps - 8) (done ++ fulls)) by (apply Forall_app; split; assumption).
    assert (Hpp : a_p s = concat (done ++ fulls) ++ rest) by (rewrite Hp, concat_app, <- app_assoc, Hcat; reflexivity).
    assert (Hws : a_w s ++ enc_fulls ps typ chan (tnr st) fulls = enc_fulls ps typ chan nr0 (done ++ fulls))
      by (rewrite Hw, Hn, <- enc_fulls_app; reflexivity).
    destruct rest as [|x r]; [cbn in Hrl; lia|].
    unfold bytes in *.
    assert (Hst1 : steps chan (tnr st) (length fulls) = steps chan nr0 (length (done ++ fulls)))
      by (rewrite Hn, app_length, steps_add; reflexivity).
    assert (Hst2 : steps chan (tnr st) (length fulls + 1) = steps chan nr0 (S (length (done ++ fulls)))).
    { rewrite Hn, <- steps_add. f_equal. rewrite app_length. lia. }
    destruct e.
    + rewrite Nat.add_0_r, Hst1 in E.
      eexists _, _, true. split; [exact E|]. split; [reflexivity|]. cbn zeta.
      rewrite app_nil_r, Hws. split.
      * unfold s_abandon. rewrite Hpp.
        rewrite (tx_prefix_fulls ps typ chan Hps Hc (done ++ fulls) (a_nr s) nr0 (x :: r) Hdf Hrl Hm). reflexivity.
      * apply Hnew. unfold zlen. rewrite length_enc_fulls. unfold bytes. reflexivity.
    + rewrite Hst1, Hst2 in E.
      eexists _, _, false. split; [exact E|]. split; [reflexivity|]. cbn zeta.
      rewrite app_assoc, Hws. split.
      * unfold s_complete. rewrite Hpp, is_nil_app_cons.
        pose proof (tx_ok_fulls ps typ chan Hps Hc (done ++ fulls) (a_nr s) nr0 (x :: r) Hdf ltac:(specialize (Hru eq_refl); lia) Hm) as HT.
        unfold bytes in HT. rewrite HT. reflexivity.
      * apply Hnew. rewrite zlen_app. unfold zlen. rewrite length_enc_fulls. cbn [length]. unfold bytes. lia.
Qed.

(* calls after which no message is open: every flush (failed ones abandon), SendPackage with a live context *)
Definition closes (c : call) : bool :=
  match c with CFlush _ => true | CSendPkg _ None => true | _ => false end.

Lemma pending_empty st : tq st = empty_pq -> pending st = false.
Proof. intros H. rewrite pending_iff, H. reflexivity. Qed.

Lemma step_call ps typ chan c s st : 9 <= ps <= 65535 -> 0 <= chan < 65536 -> R ps typ chan s st ->
  exists o st' e s', run_call ps chan typ c st = Some (o, st', e) /\
    call_ok ps typ chan c (o, e, pending st') s = Some s' /\ R ps typ chan s' st' /\
    (closes c = true -> a_w s' = [] /\ a_p s' = [] /\ tq st' = empty_pq).
Proof.
  intros Hps Hc HR. destruct c as [chunks b|chunks b|b].
  - destruct (step_queue ps typ chan chunks b s st Hps Hc HR) as [o [st' [e [E [Hs HR']]]]]. cbn zeta in Hs, HR'.
    eexists o, st', e, _. cbn [run_call call_ok]. split; [exact E|].
    assert (He : e && live b = false).
    { destruct b as [k|]; [apply andb_false_r|]. rewrite (queue_package_b_live_ok _ _ _ _ _ _ _ _ E). reflexivity. }
    rewrite He. split; [exact Hs|]. split; [exact HR'|]. cbn [closes]. discriminate.
  - destruct (step_queue ps typ chan chunks b s st Hps Hc HR) as [o1 [st1 [e1 [E1 [Hs1 HR1]]]]]. cbn zeta in Hs1, HR1.
    cbn [run_call call_ok]. unfold send_package_b. rewrite E1. destruct e1.
    + (* the QueuePackage half failed: the message goes on *)
      eexists o1, st1, true, _. split; [reflexivity|].
      assert (Hb : live b = false).
      { destruct b as [k|]; [reflexivity|]. pose proof (queue_package_b_live_ok _ _ _ _ _ _ _ _ E1). discriminate. }
      rewrite Hb. cbn [andb].
      assert (Hpend : pending st1 = true).
      { rewrite pending_iff. pose proof (queue_package_b_err _ _ _ _ _ _ _ _ E1) as Hne.
        destruct (pkts (tq st1)); [congruence|reflexivity]. }
      rewrite Hpend in *. split; [exact Hs1|]. split; [exact HR1|].
      destruct b as [k|]; [cbn [closes]; discriminate|discriminate].
    + destruct (step_flush ps typ chan (bsub b (length o1)) _ st1 Hps Hc HR1) as [o2 [st2 [e2 [E2 [Hq2 [Hs2 HR2]]]]]].
      cbn zeta in Hs2, HR2. cbn [a_w a_p a_nr] in Hs2, HR2.
      rewrite E2. eexists (o1 ++ o2), st2, e2, _. split; [reflexivity|].
      assert (He : e2 && live b = false).
      { destruct b as [k|]; [apply andb_false_r|]. cbn [bsub] in E2.
        rewrite (send_remaining_b_live_ok _ _ _ _ _ _ _ E2). reflexivity. }
      rewrite He, (pending_empty st2 Hq2), app_assoc.
      split; [|split; [exact HR2|intros _; cbn [a_w a_p]; repeat split; exact Hq2]].
      destruct e2; exact Hs2.
  - destruct (step_flush ps typ chan b s st Hps Hc HR) as [o [st' [e [E [Hq [Hs HR']]]]]]. cbn zeta in Hs, HR'.
    eexists o, st', e, _. cbn [run_call call_ok]. split; [exact E|].
    assert (He : e && live b = false).
    { destruct b as [k|]; [apply andb_false_r|]. rewrite (send_remaining_b_live_ok _ _ _ _ _ _ _ E). reflexivity. }
    rewrite He, (pending_empty st' Hq).
    split; [exact Hs|]. split; [exact HR'|]. intros _. cbn [a_w a_p]. repeat split; exact Hq.
Qed.

Fixpoint ends_closed (cs : list call) : bool :=
  match cs with
  | [] => false
  | c :: r => match r with [] => closes c | _ :: _ => ends_closed r end
  end.

Lemma calls_model ps typ chan : 9 <= ps <= 65535 -> 0 <= chan < 65536 -> forall cs s st, R ps typ chan s st ->
  exists os st' s', run_calls ps chan typ cs st = Some (os, st') /\ calls_ok ps typ chan cs os s = Some s' /\
    R ps typ chan s' st' /\ (ends_closed cs = true -> a_w s' = [] /\ a_p s' = [] /\ tq st' = empty_pq).
Proof.
  intros Hps Hc. induction cs as [|c r IH]; intros s st HR.
  - exists [], st, s. cbn [run_calls calls_ok ends_closed]. split; [reflexivity|]. split; [reflexivity|].
    split; [exact HR|discriminate].
  - destruct (step_call ps typ chan c s st Hps Hc HR) as [o [st1 [e [s1 [E [Hok [HR1 Hcl]]]]]]].
    destruct (IH s1 st1 HR1) as [os [st2 [s2 [E2 [Hok2 [HR2 Hcl2]]]]]].
    exists ((o, e, pending st1) :: os), st2, s2. cbn [run_calls calls_ok]. rewrite E, E2, Hok.
    split; [reflexivity|]. split; [exact Hok2|]. split; [exact HR2|].
    destruct r as [|c2 r'].
    + cbn [ends_closed]. intros Hc1. cbn [run_calls calls_ok] in E2, Hok2.
      inversion E2; subst. inversion Hok2; subst. apply Hcl. exact Hc1.
    + exact Hcl2.
Qed.

Definition seg_wf (g : segment) : Prop := 9 <= g_ps g <= 65535 /\ ends_closed (g_calls g) = true.

Lemma R_closed ps typ chan s st : a_w s = [] -> a_p s = [] -> tq st = empty_pq -> 0 <= tnr st < 256 ->
  (0 < chan -> tnr st mod 256 = a_nr s mod 256) -> R ps typ chan s st.
Proof.
  intros Hw Hp Hq Hr Hm. exists [], (tnr st). rewrite Hw, Hp, Hq.
  split; [constructor|]. split; [reflexivity|]. split; [reflexivity|]. split; [reflexivity|].
  split; [exact Hr|]. split; [exact Hm|]. split; [apply msg_qi_empty|reflexivity].
Qed.

Lemma R_nr ps typ chan s st : R ps typ chan s st -> a_w s = [] ->
  0 <= tnr st < 256 /\ (0 < chan -> tnr st mod 256 = a_nr s mod 256).
Proof.
  intros [done [nr0 [Hd [Hw [Hp [Hn [Hr [Hm _]]]]]]]] Hnil. rewrite Hw in Hnil.
  destruct done as [|x done]; [|discriminate]. cbn [length steps] in Hn. rewrite Hn. split; assumption.
Qed.

(* every history of segments (each closed by a flush; packet size / header type per segment) satisfies the
   executable specification of fn 2 *)
Theorem segments_model chan : 0 <= chan < 65536 -> forall gs s st, Forall seg_wf gs ->
  a_w s = [] -> a_p s = [] -> tq st = empty_pq -> 0 <= tnr st < 256 ->
  (0 < chan -> tnr st mod 256 = a_nr s mod 256) ->
  exists outs st', run_segments chan gs st = Some (outs, st') /\ segments_ok chan gs outs s = true.
Proof.
  intros Hc. induction gs as [|g gs IH]; intros s st Hwf Hw Hp Hq Hr Hm.
  - exists [], st. split; reflexivity.
  - pose proof (Forall_inv Hwf) as [Hps Hend]. pose proof (Forall_inv_tail Hwf) as Hrest.
    pose proof (R_closed (g_ps g) (g_typ g) chan s st Hw Hp Hq Hr Hm) as HR.
    destruct (calls_model (g_ps g) (g_typ g) chan Hps Hc (g_calls g) s st HR) as [os [st1 [s1 [E [Hok [HR1 Hcl]]]]]].
    destruct (Hcl Hend) as [Hw1 [Hp1 Hq1]].
    destruct (R_nr _ _ _ _ _ HR1 Hw1) as [Hr1 Hm1].
    destruct (IH s1 st1 Hrest Hw1 Hp1 Hq1 Hr1 Hm1) as [outs [st2 [E2 Hok2]]].
    exists (os :: outs), st2. cbn [run_segments segments_ok]. rewrite E, E2, Hok, Hw1, Hp1, Hok2.
    split; reflexivity.
Qed.
