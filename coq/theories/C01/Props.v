(* C01 — outgoing messages are well-formed TDS packet sequences.  Property theorems only.
   The model (C15/Model.v queue + C01/Model.v channel tx) is compared with the implementation's
   transport bytes on every run; hdr_size / eom_bit come from the code (Gen/GenC01.v). *)
From Coq Require Import ZArith List Bool.
Import ListNotations.
From V Require Import Base.Tree Base.Bytes C15.Model C01.Model C01.Spec C01.Proofs.
Open Scope Z_scope.

(* One message: for EVERY packet size 9..65535, every channel id, every list of packages written in
   any chunks (any call split), of any non-zero total length — in particular exact multiples of the body
   size — the transport writes parse as packets whose bodies concatenate to the payload, each header length
   = real size <= ps, all but the last full, type/channel constant, packet numbers consecutive mod 256 on
   channels > 0, EOM on the last packet and only there (tx_ok); nothing stays queued. *)
Theorem C01_message : forall ps chan typ pkgs st,
  9 <= ps <= 65535 -> 0 <= chan < 65536 -> 0 <= tnr st < 256 -> tq st = empty_pq -> payload_of pkgs <> [] ->
  exists outs st', send_message ps chan typ pkgs st = Some (outs, st') /\
    tx_ok ps typ chan (tnr st) (payload_of pkgs) outs = true /\
    tq st' = empty_pq /\ tnr st' = (if 0 <? chan then (tnr st + zlen outs) mod 256 else tnr st).
Proof. exact message_ok. Qed.

(* All successive messages on one channel, with a packet size per message (size changes between
   messages), by induction over the history. *)
Theorem C01_history : forall chan, 0 <= chan < 65536 -> forall ms st,
  Forall msg_wf ms -> 0 <= tnr st < 256 -> tq st = empty_pq ->
  exists outs st', send_history chan ms st = Some (outs, st') /\
    history_ok chan (tnr st) ms outs = true /\ tq st' = empty_pq /\ 0 <= tnr st' < 256.
Proof. exact history_ok_all. Qed.

(* non-vacuity and the boundary case that used to fail: body size 4, payload of exactly one and two bodies *)
Example C01_exact_multiple :
  match send_message 12 1 3 [[[1; 2]; [3; 4]]; [[5; 6; 7; 8]]] {| tq := empty_pq; tnr := 255 |} with
  | Some (outs, st') => outs = [[3; 0; 0; 12; 0; 1; 255; 0; 1; 2; 3; 4]; [3; 1; 0; 12; 0; 1; 0; 0; 5; 6; 7; 8]] /\ tnr st' = 1
  | None => False
  end.
Proof. vm_compute. split; reflexivity. Qed.

Print Assumptions C01_message.
Print Assumptions C01_history.
