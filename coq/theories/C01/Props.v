(* C01 — outgoing messages are well-formed TDS packet sequences.  Property theorems only.
   The model (C15/Model.v queue + C01/Model.v channel tx) is compared with the implementation's
   transport bytes on every run; hdr_size / eom_bit come from the code (Gen/GenC01.v). *)
From Coq Require Import ZArith List Bool.
Import ListNotations.
From V Require Import Base.Tree Base.Bytes C15.Model C15.Spec C01.Model C01.Spec C01.Proofs C01.ProofsIntr.
Open Scope Z_scope.

(* One message: for EVERY packet size 9..65535, every channel id, every list of packages written in
   any chunks (any call split), of any non-zero total length — in particular exact multiples of the body
   size — the transport writes parse as packets whose bodies concatenate to the payload, each header length
   = real size <= ps, all but the last full, type/channel constant, packet numbers consecutive mod 256 on
   channels > 0, EOM on the last packet and only there (tx_ok); nothing stays queued. *)
Theorem C01_message : forall ps chan typ pkgs st,
  9 <= ps <= 65535 -> 0 <= chan < 65536 -> 0 <= tnr st < 256 -> tq st = empty_pq -> payload_of pkgs <> [] ->
  exists outs st', send_message ps chan typ pkgs st = Some (outs, st') /\
    tx_ok ps typ chan (tnr st) (payload_of pkgs) outs = true /\
    tq st' = empty_pq /\ tnr st' = (if 0 <? chan then (tnr st + zlen outs) mod 256 else tnr st).
Proof. exact message_ok. Qed.

(* All successive messages on one channel, with a packet size per message (size changes between
   messages), by induction over the history. *)
Theorem C01_history : forall chan, 0 <= chan < 65536 -> forall ms st,
  Forall msg_wf ms -> 0 <= tnr st < 256 -> tq st = empty_pq ->
  exists outs st', send_history chan ms st = Some (outs, st') /\
    history_ok chan (tnr st) ms outs = true /\ tq st' = empty_pq /\ 0 <= tnr st' < 256.
Proof. exact history_ok_all. Qed.

(* non-vacuity and the boundary case that used to fail: body size 4, payload of exactly one and two bodies *)
Example C01_exact_multiple :
  match send_message 12 1 3 [[[1; 2]; [3; 4]]; [[5; 6; 7; 8]]] {| tq := empty_pq; tnr := 255 |} with
  | Some (outs, st') => outs = [[3; 0; 0; 12; 0; 1; 255; 0; 1; 2; 3; 4]; [3; 1; 0; 12; 0; 1; 0; 0; 5; 6; 7; 8]] /\ tnr st' = 1
  | None => False
  end.
Proof. vm_compute. split; reflexivity. Qed.

(* Interrupted sends.  msg_qi ps q: the queue states between the QueuePackage calls of a message when calls may
   have been interrupted (written-only queue, all packets of size ps, any number of complete packets in front of
   the write position); it holds of the empty queue and is kept by QueuePackage under EVERY budget
   (C01_interrupted_states).  From every such state, for every list of packages and EVERY budget per call
   (None: live context; Some k: context done after k packet writes - the call then returns an error and the
   client carries on), the writes of the QueuePackage calls followed by a live SendRemainingPackets are exactly the
   writes of the uninterrupted message, and the final state is the same: nothing lost, duplicated or reordered,
   EOM where it belongs. *)
Theorem C01_interrupted_states : forall ps chan typ c st b o st' e, 9 <= ps -> msg_qi ps (tq st) ->
  queue_package_b ps chan typ c st b = Some (o, st', e) -> msg_qi ps (tq st').
Proof. exact interrupted_states. Qed.

Theorem C01_interrupted_queue : forall ps chan typ pkgs st, 9 <= ps <= 65535 -> msg_qi ps (tq st) ->
  exists outs st', send_message_b ps chan typ pkgs st = Some (outs, st') /\
    send_message ps chan typ (map fst pkgs) st = Some (outs, st') /\ tq st' = empty_pq.
Proof. exact interrupted_queue. Qed.

(* ... hence, from the empty queue, the interrupted message satisfies the predicate of C01_message *)
Theorem C01_interrupted_message : forall ps chan typ pkgs st,
  9 <= ps <= 65535 -> 0 <= chan < 65536 -> 0 <= tnr st < 256 -> tq st = empty_pq -> payload_of (map fst pkgs) <> [] ->
  exists outs st', send_message_b ps chan typ pkgs st = Some (outs, st') /\
    tx_ok ps typ chan (tnr st) (payload_of (map fst pkgs)) outs = true /\
    tq st' = empty_pq /\ tnr st' = (if 0 <? chan then (tnr st + zlen outs) mod 256 else tnr st).
Proof. exact interrupted_message_ok. Qed.

(* the budgeted definitions with live contexts are the fault-free ones *)
Theorem C01_live_budget : forall ps chan typ pkgs st,
  send_message_b ps chan typ (live_pkgs pkgs) st = send_message ps chan typ pkgs st.
Proof. exact send_message_b_live. Qed.

(* non-vacuity: body size 4; 9 bytes queued with a dead context (error, nothing written, three packets stay
   queued), one more byte with a context that dies after one packet (error again), then the flush *)
Example C01_interrupted_example :
  match queue_package_b 12 1 3 [[1; 2]; [3; 4]; [5; 6; 7; 8; 9]] {| tq := empty_pq; tnr := 255 |} (Some 0%nat) with
  | Some (o, st1, e) => o = [] /\ e = true /\ npk (tq st1) = 3 /\
      match queue_package_b 12 1 3 [[10]] st1 (Some 1%nat) with
      | Some (o2, st2, e2) => o2 = [[3; 0; 0; 12; 0; 1; 255; 0; 1; 2; 3; 4]] /\ e2 = true /\ npk (tq st2) = 2
      | None => False
      end
  | None => False
  end /\
  match send_message_b 12 1 3 [([[1; 2]; [3; 4]; [5; 6; 7; 8; 9]], Some 0%nat); ([[10]], Some 1%nat)] {| tq := empty_pq; tnr := 255 |} with
  | Some (outs, st') => outs = [[3; 0; 0; 12; 0; 1; 255; 0; 1; 2; 3; 4]; [3; 0; 0; 12; 0; 1; 0; 0; 5; 6; 7; 8]; [3; 1; 0; 10; 0; 1; 1; 0; 9; 10]] /\ tnr st' = 2
  | None => False
  end.
Proof. vm_compute. repeat split; reflexivity. Qed.

(* The interrupted flush: SendRemainingPackets under every budget, from every reachable non-empty state, empties
   the queue (deferred reset); if it reports an error, what it wrote is a proper prefix of the packetisation of the
   queued bytes (complete packets without EOM, at least one byte unsent) - the message is abandoned; if it reports
   none, it did exactly what the live flush does. *)
Theorem C01_interrupted_flush : forall ps chan typ st b, 9 <= ps <= 65535 -> 0 <= chan < 65536 ->
  msg_qi ps (tq st) -> pkts (tq st) <> [] ->
  exists o st' e, send_remaining_b ps chan typ st b = Some (o, st', e) /\ tq st' = empty_pq /\
    (if e then tx_prefix_ok ps typ chan (tnr st) (before (tq st)) o = true /\
               tnr st' = steps chan (tnr st) (length o)
     else send_remaining ps chan typ st = Some (o, st')).
Proof. exact interrupted_flush. Qed.

(* Every history: segments (packet size and header type per segment) of QueuePackage / SendPackage /
   SendRemainingPackets calls with ANY budgets, each segment ending with a call that closes the message (a flush, or
   SendPackage with a live context): the model runs, and its observations (writes, error flag, packets-stay-queued
   per call) satisfy the executable specification of fn 2 (segments_ok): every completed message well-formed on
   exactly the packages queued since the previous message end, failed QueuePackage calls included; writes always a
   proper prefix before that; abandoned messages leave nothing behind; live contexts never fail; packet numbers
   continue. *)
Theorem C01_interrupted_history : forall chan nr0 gs, 0 <= chan < 65536 -> 0 <= nr0 < 256 -> Forall seg_wf gs ->
  exists outs st', run_segments chan gs {| tq := empty_pq; tnr := nr0 |} = Some (outs, st') /\
    segments_ok chan gs outs {| a_w := []; a_p := []; a_nr := nr0 |} = true.
Proof.
  intros chan nr0 gs Hc Hnr Hwf.
  exact (segments_model chan Hc gs {| a_w := []; a_p := []; a_nr := nr0 |} {| tq := empty_pq; tnr := nr0 |} Hwf
           eq_refl eq_refl eq_refl Hnr (fun _ => eq_refl)).
Qed.

(* non-vacuity: 9 bytes queued with a context that dies after one packet (error), the flush with one that dies
   after one more packet (error, message abandoned), then a one-byte message *)
Example C01_interrupted_history_example :
  let g := {| g_ps := 12; g_typ := 3; g_calls := [CQueue [[1; 2; 3; 4; 5; 6; 7; 8; 9]] (Some 1%nat); CFlush (Some 1%nat);
                                                   CQueue [[7]] None; CFlush None] |} in
  seg_wf g /\
  match run_segments 1 [g] {| tq := empty_pq; tnr := 255 |} with
  | Some (outs, st') =>
      outs = [[([[3; 0; 0; 12; 0; 1; 255; 0; 1; 2; 3; 4]], true, true); ([[3; 0; 0; 12; 0; 1; 0; 0; 5; 6; 7; 8]], true, false);
               ([], false, true); ([[3; 1; 0; 9; 0; 1; 1; 0; 7]], false, false)]] /\
      segments_ok 1 [g] outs {| a_w := []; a_p := []; a_nr := 255 |} = true
  | None => False
  end.
Proof. vm_compute. split; [split; [split; discriminate|reflexivity]|split; reflexivity]. Qed.

Print Assumptions C01_message.
Print Assumptions C01_history.
Print Assumptions C01_interrupted_states.
Print Assumptions C01_interrupted_queue.
Print Assumptions C01_interrupted_message.
Print Assumptions C01_live_budget.
Print Assumptions C01_interrupted_flush.
Print Assumptions C01_interrupted_history.
