(* C01: what a well-formed outgoing message looks like on the transport, written from the
   property text (independent of the sending code).  No proofs here. *)
From Coq Require Import ZArith List Bool.
Import ListNotations.
From V Require Import Base.Tree Base.Bytes C15.Model C01.Model Gen.GenC01.
Open Scope Z_scope.

(* one transport write parsed as a TDS packet: (type, status, length, channel, nr, window, body) *)
Definition parse_packet (w : bytes) : option (Z * Z * Z * Z * Z * Z * bytes) :=
  match w with
  | t :: s :: l1 :: l2 :: c1 :: c2 :: n :: wi :: body => Some (t, s, 256 * l1 + l2, 256 * c1 + c2, n, wi, body)
  | _ => None
  end.

Definition header_ok (ps typ chan nr : Z) (t s len c n wi : Z) (body : bytes) (want_eom : bool) : bool :=
  (t =? typ) && (s =? (if want_eom then 1 else 0)) &&
  (len =? 8 + zlen body) && (len <=? ps) && (c =? chan) &&
  (if 0 <? chan then (n =? nr mod 256) else (n =? 0)) && (wi =? 0).

(* outs: the writes of ONE message; payload: the concatenated package encodings; nr: the channel's
   packet counter before the message *)
Fixpoint tx_ok (ps typ chan nr : Z) (payload : bytes) (outs : list bytes) : bool :=
  match outs with
  | [] => false
  | w :: rest =>
    match parse_packet w with
    | None => false
    | Some (t, s, len, c, n, wi, body) =>
      match rest with
      | [] => header_ok ps typ chan nr t s len c n wi body true &&
              (1 <=? zlen body) && (zlen body <=? ps - 8) && list_Z_eqb body payload
      | _ :: _ => header_ok ps typ chan nr t s len c n wi body false &&
              (zlen body =? ps - 8) && list_Z_eqb body (ztake (ps - 8) payload) &&
              tx_ok ps typ chan (nr + 1) (zdrop (ps - 8) payload) rest
      end
    end
  end.

Definition payload_of (pkgs : list (list bytes)) : bytes := concat (concat pkgs).

(* history spec: every message well-formed, counters continue *)
Fixpoint history_ok (chan nr : Z) (ms : list message) (outs : list (list bytes)) : bool :=
  match ms, outs with
  | [], [] => true
  | m :: mr, o :: orest =>
      tx_ok (m_ps m) (m_typ m) chan nr (payload_of (m_pkgs m)) o &&
      history_ok chan (if 0 <? chan then (nr + zlen o) mod 256 else nr) mr orest
  | _, _ => false
  end.

(* ------------------------------------------------------------------ interrupted sends (fn 2)
   A call of QueuePackage / SendPackage / SendRemainingPackets may be given a context that is done or gets
   cancelled while packets are written; it then returns an error.  What C01 says about such histories:
   - every message whose flush SUCCEEDED: all transport writes since the end of the previous message, in order,
     are one well-formed message (tx_ok) carrying the encodings of ALL packages queued since then, failed
     QueuePackage calls included (a failed QueuePackage keeps its package queued), each byte once;
   - at every point inside a message the writes so far are a proper prefix of that packetisation: full
     packets without EOM whose bodies are a prefix of what was queued so far, with at least one byte still
     unsent (tx_prefix_ok) - so the last packet never leaves early, nothing is sent twice;
   - SendRemainingPackets that FAILED abandons the message (the code resets the channel's queue in a deferred
     call): what was written is such a proper prefix, nothing stays queued, and the next message is
     well-formed on its own payload (it contains nothing of the abandoned one);
   - SendPackage that failed: either its QueuePackage half failed (packets stay queued: the message goes on)
     or its flush half failed (nothing stays queued: abandoned); the observable "packets stay queued" tells which;
   - a call with a live context never fails; after a flush nothing stays queued; after QueuePackage packets
     stay queued iff the message has at least one byte.
   Packet numbers on channels > 0 continue over abandoned messages (every packet written counts). *)
Fixpoint tx_prefix_ok (ps typ chan nr : Z) (payload : bytes) (outs : list bytes) : bool :=
  match outs with
  | [] => true
  | w :: rest =>
    match parse_packet w with
    | None => false
    | Some (t, s, len, c, n, wi, body) =>
        header_ok ps typ chan nr t s len c n wi body false &&
        (zlen body =? ps - 8) && (ps - 8 <? zlen payload) && list_Z_eqb body (ztake (ps - 8) payload) &&
        tx_prefix_ok ps typ chan (nr + 1) (zdrop (ps - 8) payload) rest
    end
  end.

Record sstate := { a_w : list bytes; a_p : bytes; a_nr : Z }.

Definition is_nil {A} (l : list A) : bool := match l with [] => true | _ => false end.
Definition live (b : option nat) : bool := match b with None => true | Some _ => false end.
Definition nr_after (chan nr : Z) (ws : list bytes) : Z := if 0 <? chan then (nr + zlen ws) mod 256 else nr.

(* the message goes on *)
Definition s_continue (ps typ chan : Z) (ws : list bytes) (p : bytes) (pend : bool) (s : sstate) : option sstate :=
  if tx_prefix_ok ps typ chan (a_nr s) p ws && Bool.eqb pend (negb (is_nil p))
  then Some {| a_w := ws; a_p := p; a_nr := a_nr s |} else None.
(* the message is complete *)
Definition s_complete (ps typ chan : Z) (ws : list bytes) (p : bytes) (pend : bool) (s : sstate) : option sstate :=
  if (if is_nil p then is_nil ws else tx_ok ps typ chan (a_nr s) p ws) && negb pend
  then Some {| a_w := []; a_p := []; a_nr := nr_after chan (a_nr s) ws |} else None.
(* the message is abandoned *)
Definition s_abandon (ps typ chan : Z) (ws : list bytes) (p : bytes) (pend : bool) (s : sstate) : option sstate :=
  if tx_prefix_ok ps typ chan (a_nr s) p ws && negb pend
  then Some {| a_w := []; a_p := []; a_nr := nr_after chan (a_nr s) ws |} else None.

Definition call_ok (ps typ chan : Z) (c : call) (o : obs_call) (s : sstate) : option sstate :=
  let '(w, err, pend) := o in
  let ws := a_w s ++ w in
  match c with
  | CQueue chunks b =>
      if err && live b then None else s_continue ps typ chan ws (a_p s ++ concat chunks) pend s
  | CFlush b =>
      if err && live b then None else
      if err then s_abandon ps typ chan ws (a_p s) pend s else s_complete ps typ chan ws (a_p s) pend s
  | CSendPkg chunks b =>
      let p := a_p s ++ concat chunks in
      if err && live b then None else
      if err then (if pend then s_continue ps typ chan ws p pend s else s_abandon ps typ chan ws p pend s)
      else s_complete ps typ chan ws p pend s
  end.

Fixpoint calls_ok (ps typ chan : Z) (cs : list call) (os : list obs_call) (s : sstate) : option sstate :=
  match cs, os with
  | [], [] => Some s
  | c :: cr, o :: orest =>
      match call_ok ps typ chan c o s with
      | Some s1 => calls_ok ps typ chan cr orest s1
      | None => None
      end
  | _, _ => None
  end.

(* every segment ends with its message completed or abandoned: nothing half-sent at the border *)
Fixpoint segments_ok (chan : Z) (gs : list segment) (os : list (list obs_call)) (s : sstate) : bool :=
  match gs, os with
  | [], [] => true
  | g :: gr, o :: orest =>
      match calls_ok (g_ps g) (g_typ g) chan (g_calls g) o s with
      | Some s1 => is_nil (a_w s1) && is_nil (a_p s1) && segments_ok chan gr orest s1
      | None => false
      end
  | _, _ => false
  end.

(* ---- dispatch.
   fn 1: input (chan nr0 ((ps typ ((chunk ...) ...)) ...)) ; output ((write ...) ...) per message
   fn 2: input (chan nr0 ((ps typ ((kind budget (chunk ...)) ...)) ...)), kind 0 QueuePackage, 1 SendPackage,
         2 SendRemainingPackets; budget -1 live context, k >= 0 context cancelled after k packet writes of the call;
         output per segment, per call: ((write ...) err pending) *)
Definition msg_of_tree (t : tree) : message :=
  {| m_ps := t_int (t_nth 0 t); m_typ := t_int (t_nth 1 t);
     m_pkgs := map (fun p => map t_bytes (t_list p)) (t_list (t_nth 2 t)) |}.

Definition budget_of (z : Z) : option nat := if z <? 0 then None else Some (Z.to_nat z).
Definition call_of_tree (t : tree) : call :=
  let b := budget_of (t_int (t_nth 1 t)) in
  let chunks := map t_bytes (t_list (t_nth 2 t)) in
  match t_int (t_nth 0 t) with
  | 0 => CQueue chunks b
  | 1 => CSendPkg chunks b
  | _ => CFlush b
  end.
Definition seg_of_tree (t : tree) : segment :=
  {| g_ps := t_int (t_nth 0 t); g_typ := t_int (t_nth 1 t); g_calls := map call_of_tree (t_list (t_nth 2 t)) |}.
Definition obs_tree (o : obs_call) : tree :=
  let '(w, err, pend) := o in TL [TL (map TB w); of_bool err; of_bool pend].
Definition obs_of_tree (t : tree) : obs_call :=
  (map t_bytes (t_list (t_nth 0 t)), negb (t_int (t_nth 1 t) =? 0), negb (t_int (t_nth 2 t) =? 0)).

Definition run (fn : Z) (i : tree) : tree :=
  match fn with
  | 1 =>
    let chan := t_int (t_nth 0 i) in
    let nr0 := t_int (t_nth 1 i) in
    let ms := map msg_of_tree (t_list (t_nth 2 i)) in
    match send_history chan ms {| tq := empty_pq; tnr := nr0 |} with
    | Some (outs, _) => TL (map (fun o => TL (map TB o)) outs)
    | None => TL [TI (-1)]
    end
  | 2 =>
    let chan := t_int (t_nth 0 i) in
    let nr0 := t_int (t_nth 1 i) in
    let gs := map seg_of_tree (t_list (t_nth 2 i)) in
    match run_segments chan gs {| tq := empty_pq; tnr := nr0 |} with
    | Some (outs, _) => TL (map (fun o => TL (map obs_tree o)) outs)
    | None => TL [TI (-1)]
    end
  | _ => tbad
  end.

Definition spec (fn : Z) (i o : tree) : bool :=
  match fn with
  | 1 =>
    let chan := t_int (t_nth 0 i) in
    let nr0 := t_int (t_nth 1 i) in
    let ms := map msg_of_tree (t_list (t_nth 2 i)) in
    history_ok chan nr0 ms (map (fun x => map t_bytes (t_list x)) (t_list o))
  | 2 =>
    let chan := t_int (t_nth 0 i) in
    let nr0 := t_int (t_nth 1 i) in
    let gs := map seg_of_tree (t_list (t_nth 2 i)) in
    segments_ok chan gs (map (fun x => map obs_of_tree (t_list x)) (t_list o)) {| a_w := []; a_p := []; a_nr := nr0 |}
  | _ => false
  end.
