(* C01: what a well-formed outgoing message looks like on the transport, written from the
   property text (independent of the sending code).  No proofs here. *)
From Coq Require Import ZArith List Bool.
Import ListNotations.
From V Require Import Base.Tree Base.Bytes C15.Model C01.Model Gen.GenC01.
Open Scope Z_scope.

(* one transport write parsed as a TDS packet: (type, status, length, channel, nr, window, body) *)
Definition parse_packet (w : bytes) : option (Z * Z * Z * Z * Z * Z * bytes) :=
  match w with
  | t :: s :: l1 :: l2 :: c1 :: c2 :: n :: wi :: body => Some (t, s, 256 * l1 + l2, 256 * c1 + c2, n, wi, body)
  | _ => None
  end.

Definition header_ok (ps typ chan nr : Z) (t s len c n wi : Z) (body : bytes) (want_eom : bool) : bool :=
  (t =? typ) && (s =? (if want_eom then 1 else 0)) &&
  (len =? 8 + zlen body) && (len <=? ps) && (c =? chan) &&
  (if 0 <? chan then (n =? nr mod 256) else (n =? 0)) && (wi =? 0).

(* outs: the writes of ONE message; payload: the concatenated package encodings; nr: the channel's
   packet counter before the message *)
Fixpoint tx_ok (ps typ chan nr : Z) (payload : bytes) (outs : list bytes) : bool :=
  match outs with
  | [] => false
  | w :: rest =>
    match parse_packet w with
    | None => false
    | Some (t, s, len, c, n, wi, body) =>
      match rest with
      | [] => header_ok ps typ chan nr t s len c n wi body true &&
              (1 <=? zlen body) && (zlen body <=? ps - 8) && list_Z_eqb body payload
      | _ :: _ => header_ok ps typ chan nr t s len c n wi body false &&
              (zlen body =? ps - 8) && list_Z_eqb body (ztake (ps - 8) payload) &&
              tx_ok ps typ chan (nr + 1) (zdrop (ps - 8) payload) rest
      end
    end
  end.

Definition payload_of (pkgs : list (list bytes)) : bytes := concat (concat pkgs).

(* history spec: every message well-formed, counters continue *)
Fixpoint history_ok (chan nr : Z) (ms : list message) (outs : list (list bytes)) : bool :=
  match ms, outs with
  | [], [] => true
  | m :: mr, o :: orest =>
      tx_ok (m_ps m) (m_typ m) chan nr (payload_of (m_pkgs m)) o &&
      history_ok chan (if 0 <? chan then (nr + zlen o) mod 256 else nr) mr orest
  | _, _ => false
  end.

(* ---- dispatch.  fn 1: input (chan nr0 ((ps typ ((chunk ...) ...)) ...)) ; output ((write ...) ...) per message *)
Definition msg_of_tree (t : tree) : message :=
  {| m_ps := t_int (t_nth 0 t); m_typ := t_int (t_nth 1 t);
     m_pkgs := map (fun p => map t_bytes (t_list p)) (t_list (t_nth 2 t)) |}.

Definition run (fn : Z) (i : tree) : tree :=
  match fn with
  | 1 =>
    let chan := t_int (t_nth 0 i) in
    let nr0 := t_int (t_nth 1 i) in
    let ms := map msg_of_tree (t_list (t_nth 2 i)) in
    match send_history chan ms {| tq := empty_pq; tnr := nr0 |} with
    | Some (outs, _) => TL (map (fun o => TL (map TB o)) outs)
    | None => TL [TI (-1)]
    end
  | _ => tbad
  end.

Definition spec (fn : Z) (i o : tree) : bool :=
  match fn with
  | 1 =>
    let chan := t_int (t_nth 0 i) in
    let nr0 := t_int (t_nth 1 i) in
    let ms := map msg_of_tree (t_list (t_nth 2 i)) in
    history_ok chan nr0 ms (map (fun x => map t_bytes (t_list x)) (t_list o))
  | _ => false
  end.
