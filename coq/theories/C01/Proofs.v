From Coq Require Import ZArith List Bool Lia.
Import ListNotations.
From V Require Import Base.Tree Base.Bytes Base.BytesFacts C15.Model C15.Spec C15.Proofs C15.ProofsTx
  C01.Model C01.Spec Gen.GenC01.
Open Scope Z_scope.

Definition full_pkt (ps : Z) (p : packet) : Prop := plen p = ps /\ zlen (pdata p) = ps - 8.
Definition step1 (chan nr : Z) : Z := if 0 <? chan then (nr + 1) mod 256 else nr.
Definition nrf (chan nr : Z) : Z := if 0 <? chan then nr mod 256 else 0.
Definition chf (chan : Z) : Z := if 0 <? chan then chan else 0.
Definition enc_pkt (typ status len chan nr : Z) (body : bytes) : bytes :=
  header_bytes typ status len (chf chan) (nrf chan nr) 0 ++ body.

Fixpoint enc_fulls (ps typ chan nr : Z) (fulls : list bytes) : list bytes :=
  match fulls with
  | [] => []
  | b :: r => enc_pkt typ 0 ps chan nr b :: enc_fulls ps typ chan (step1 chan nr) r
  end.
Fixpoint steps (chan nr : Z) (n : nat) : Z :=
  match n with O => nr | S k => steps chan (step1 chan nr) k end.

Lemma list_Z_eqb_refl l : list_Z_eqb l l = true.
Proof. induction l as [|x l IH]; [reflexivity|]. cbn. rewrite Z.eqb_refl, IH. reflexivity. Qed.

Lemma send_full ps chan typ nr p : 8 <= ps -> full_pkt ps p ->
  send_packet ps chan typ false nr p = Some (enc_pkt typ 0 ps chan nr (pdata p), step1 chan nr).
Proof.
  intros Hps [Hl Hd]. unfold send_packet, packet_bytes, enc_pkt, step1, nrf, chf, hdr_size, eom_bit.
  rewrite Hl, Hd. rewrite Z.eqb_refl. cbn [negb orb].
  replace (ps <? 8) with false by (symmetry; apply Z.ltb_ge; lia).
  rewrite Z.ltb_irrefl. rewrite ztake_all by lia.
  destruct (0 <? chan); reflexivity.
Qed.

Lemma send_last ps chan typ nr idq (p : packet) : 8 <= ps -> 0 <= idq <= zlen (pdata p) -> 8 + idq < 65536 ->
  send_packet ps chan typ true nr {| plen := (hdr_size + idq) mod 65536; pdata := ztake idq (pdata p) |}
  = Some (enc_pkt typ 1 (8 + idq) chan nr (ztake idq (pdata p)), step1 chan nr).
Proof.
  intros Hps Hid Hsmall. unfold send_packet, packet_bytes, enc_pkt, step1, nrf, chf, hdr_size, eom_bit.
  cbn [plen pdata orb]. rewrite Z.mod_small by lia.
  replace (8 + idq <? 8) with false by (symmetry; apply Z.ltb_ge; lia).
  rewrite zlen_ztake by lia. replace (8 + idq - 8) with idq by lia. rewrite Z.ltb_irrefl.
  rewrite ztake_all by (rewrite zlen_ztake; lia).
  destruct (0 <? chan); reflexivity.
Qed.

(* the packets before the position go out as they are, numbered consecutively *)
Lemma send_loop_fulls ps chan typ of ipq idq : 8 <= ps -> forall pre i tl nr,
  Forall (full_pkt ps) pre -> 0 <= i -> i + zlen pre <= ipq ->
  send_loop ps chan typ of ipq idq i (pre ++ tl) nr =
  match send_loop ps chan typ of ipq idq (i + zlen pre) tl (steps chan nr (length pre)) with
  | Some (o, n2, s) => Some (enc_fulls ps typ chan nr (map pdata pre) ++ o, n2, s + zlen pre)
  | None => None
  end.
Proof.
  intros Hps. induction pre as [|p pre IH]; intros i tl nr Hf Hi Hle.
  - cbn [app length steps map enc_fulls zlen]. change (Z.of_nat 0) with 0. rewrite Z.add_0_r.
    destruct (send_loop ps chan typ of ipq idq i tl nr) as [[[o n2] s]|]; [|reflexivity]. rewrite Z.add_0_r. reflexivity.
  - inversion Hf as [|? ? Hp Hpre]; subst. rewrite zlen_cons in Hle. pose proof (zlen_nonneg pre) as Hn.
    cbn [app send_loop]. replace (i =? ipq) with false by (symmetry; apply Z.eqb_neq; lia).
    rewrite (send_full ps chan typ nr p Hps Hp).
    rewrite (IH (i + 1) tl (step1 chan nr) Hpre) by lia.
    cbn [length steps map enc_fulls]. rewrite zlen_cons. replace (i + 1 + zlen pre) with (i + (1 + zlen pre)) by lia.
    destruct (send_loop ps chan typ of ipq idq (i + (1 + zlen pre)) tl (steps chan (step1 chan nr) (length pre))) as [[[o n2] s]|]; [|reflexivity].
    f_equal. f_equal. lia.
Qed.

(* queue states between the QueuePackage calls of one message *)
Definition msg_q (ps : Z) (q : pq) : Prop :=
  txw q /\ Forall (fun p => plen p = ps) (pkts q) /\ npk q <= 1 /\ (pkts q <> [] -> 1 <= id q).

Lemma msg_q_empty ps : msg_q ps empty_pq.
Proof. split; [exact txw_empty|]. split; [constructor|]. split; [cbn; lia|]. intros H. exfalso. apply H. reflexivity. Qed.

Lemma write_chunks_spec ps : 9 <= ps -> forall chunks q, txw q -> Forall (fun p => plen p = ps) (pkts q) ->
  (pkts q <> [] -> 1 <= id q) ->
  exists q', write_chunks ps chunks q = Some q' /\ txw q' /\ Forall (fun p => plen p = ps) (pkts q') /\
    before q' = before q ++ concat chunks /\ eom q' = eom q /\ (pkts q' <> [] -> 1 <= id q').
Proof.
  intros Hps. unfold write_chunks. induction chunks as [|c r IH]; intros q Htx Hpl Hid.
  - exists q. cbn [fold_left concat]. rewrite app_nil_r. split; [reflexivity|]. split; [exact Htx|]. split; [exact Hpl|].
    split; [reflexivity|]. split; [reflexivity|exact Hid].
  - cbn [fold_left].
    destruct (write_bytes_spec ps c q Hps Htx) as [q1 [E [Htx1 [Hb1 [He1 [Hid1 [j Hj]]]]]]].
    rewrite E.
    assert (Hpl1 : Forall (fun p => plen p = ps) (pkts q1)).
    { assert (Hm : Forall (fun l => l = ps) (map plen (pkts q1))).
      { rewrite Hj. apply Forall_app. split.
        - apply Forall_map. exact Hpl.
        - apply Forall_forall. intros x Hx. apply repeat_spec in Hx. exact Hx. }
      apply Forall_map in Hm. exact Hm. }
    assert (Hidq1 : pkts q1 <> [] -> 1 <= id q1).
    { intros Hne. destruct c as [|x c].
      - cbn in E. inversion E; subst q1. apply Hid. exact Hne.
      - apply Hid1. discriminate. }
    destruct (IH q1 Htx1 Hpl1 Hidq1) as [q' [E' [Htx' [Hpl' [Hb' [He' Hid']]]]]].
    exists q'. split; [exact E'|]. split; [exact Htx'|]. split; [exact Hpl'|]. split.
    + rewrite Hb', Hb1. cbn [concat]. rewrite app_assoc. reflexivity.
    + split; [rewrite He', He1; reflexivity|exact Hid'].
Qed.

Lemma steps_step chan nr n : steps chan nr (S n) = step1 chan (steps chan nr n).
Proof. revert nr. induction n as [|n IH]; intros nr; [reflexivity|]. cbn [steps] in *. rewrite <- IH. reflexivity. Qed.
Lemma steps_add chan nr a b : steps chan nr (a + b) = steps chan (steps chan nr a) b.
Proof. revert nr. induction a as [|a IH]; intros nr; [reflexivity|]. cbn [steps Nat.add]. apply IH. Qed.
Lemma enc_fulls_app ps typ chan nr a b :
  enc_fulls ps typ chan nr (a ++ b) = enc_fulls ps typ chan nr a ++ enc_fulls ps typ chan (steps chan nr (length a)) b.
Proof. revert nr. induction a as [|x a IH]; intros nr; [reflexivity|]. cbn [app enc_fulls length steps]. rewrite IH. reflexivity. Qed.

(* QueuePackage on a message-state queue: completely filled packets go out, the packet under the
   write position (even if full) stays *)
Lemma queue_package_spec ps chan typ chunks st : 9 <= ps -> msg_q ps (tq st) ->
  exists fulls st', queue_package ps chan typ chunks st = Some (enc_fulls ps typ chan (tnr st) fulls, st') /\
    msg_q ps (tq st') /\ Forall (fun b => zlen b = ps - 8) fulls /\
    concat fulls ++ before (tq st') = before (tq st) ++ concat chunks /\
    tnr st' = steps chan (tnr st) (length fulls) /\ eom (tq st') = eom (tq st) /\
    (pkts (tq st') = [] -> fulls = []).
Proof.
  intros Hps [Htx [Hpl [Hn Hid]]]. unfold queue_package.
  destruct (write_chunks_spec ps Hps chunks (tq st) Htx Hpl Hid) as [q1 [E [Htx1 [Hpl1 [Hb1 [He1 Hid1]]]]]].
  rewrite E. unfold send_packets. cbn [tq tnr].
  destruct Htx1 as [Hok1 [[Hnil [Hip Hidz]]|[pre [last [Hp [Hip Hidr]]]]]].
  - (* nothing was written at all *)
    rewrite Hnil. cbn [send_loop]. unfold discard_sent. rewrite Hnil. cbn [zlen length Z.of_nat].
    change (npk q1) with (zlen (pkts q1)). rewrite Hnil. cbn.
    exists [], {| tq := {| pkts := []; ip := ip q1; id := id q1; eom := eom q1 |}; tnr := tnr st |}.
    cbn [enc_fulls tq tnr length steps concat app]. rewrite Hip, Hidz.
    assert (Hq1 : q1 = {| pkts := []; ip := 0; id := 0; eom := eom q1 |}).
    { destruct q1; cbn in *; subst; reflexivity. }
    split; [reflexivity|]. split.
    + split; [split; [constructor|left; repeat split]|]. split; [constructor|]. split; [cbn; lia|]. intros H; exfalso; apply H; reflexivity.
    + split; [constructor|]. split; [|split; [reflexivity|split; [exact He1|reflexivity]]].
      rewrite <- Hb1. rewrite Hq1 at 2. reflexivity.
  - (* pre are complete, last is the packet under the write position *)
    assert (Hfull : Forall (full_pkt ps) pre).
    { rewrite Hp in Hok1, Hpl1. apply Forall_app in Hok1. apply Forall_app in Hpl1.
      destruct Hok1 as [Hok1 _]. destruct Hpl1 as [Hpl1 _].
      apply Forall_forall. intros p Hin. rewrite Forall_forall in Hok1, Hpl1.
      specialize (Hok1 p Hin). specialize (Hpl1 p Hin). unfold pk_ok in Hok1. split; [exact Hpl1|lia]. }
    rewrite Hp, Hip.
    rewrite (send_loop_fulls ps chan typ true (zlen pre) (id q1) ltac:(lia) pre 0 [last] (tnr st) Hfull ltac:(lia) ltac:(lia)).
    rewrite Z.add_0_l. cbn [send_loop]. rewrite Z.eqb_refl. rewrite app_nil_r, Z.add_0_l.
    unfold discard_sent. pose proof (zlen_nonneg pre) as Hn0.
    assert (Hnpk : npk q1 = zlen pre + 1) by (unfold npk; rewrite Hp, zlen_app; reflexivity).
    replace ((zlen pre <? 0) || (npk q1 <? zlen pre)) with false
      by (symmetry; apply orb_false_iff; split; apply Z.ltb_ge; lia).
    rewrite Hip, Z.sub_diag. cbn [Z.ltb Z.compare]. rewrite Hp, zdrop_app_exact.
    eexists (map pdata pre), _. split; [reflexivity|]. cbn [tq tnr].
    assert (Hlast : plen last = ps /\ pk_ok last).
    { rewrite Hp in Hok1, Hpl1. apply Forall_app in Hok1. apply Forall_app in Hpl1.
      destruct Hok1 as [_ H1]. destruct Hpl1 as [_ H2]. apply Forall_inv in H1. apply Forall_inv in H2. split; assumption. }
    assert (Hidl : 1 <= id q1) by (apply Hid1; rewrite Hp; destruct pre; discriminate).
    split.
    + split.
      * split; [constructor; [apply Hlast|constructor]|]. right. exists [], last. cbn [pkts ip id app zlen length].
        split; [reflexivity|]. split; [reflexivity|exact Hidr].
      * cbn [pkts id]. split; [constructor; [apply Hlast|constructor]|]. split; [cbn; lia|]. intros _. exact Hidl.
    + split.
      * apply Forall_map. apply Forall_forall. intros p Hin. rewrite Forall_forall in Hfull. apply (Hfull p Hin).
      * split; [|split; [rewrite map_length; reflexivity|split; [exact He1|intros Habs; discriminate]]].
        rewrite <- Hb1. rewrite (before_last q1 pre last Hp Hip).
        unfold before, pkt_at. cbn [pkts ip id]. cbn. reflexivity.
Qed.

(* flush: the remaining packet goes out trimmed and marked, the queue is reset *)
Lemma send_remaining_spec ps chan typ st : 9 <= ps -> ps <= 65535 -> msg_q ps (tq st) -> pkts (tq st) <> [] ->
  exists st', send_remaining ps chan typ st =
      Some ([enc_pkt typ 1 (8 + zlen (before (tq st))) chan (tnr st) (before (tq st))], st') /\
    tq st' = empty_pq /\ tnr st' = step1 chan (tnr st) /\ 1 <= zlen (before (tq st)) <= ps - 8.
Proof.
  intros Hps Hps2 [Htx [Hpl [Hn Hid]]] Hne. specialize (Hid Hne).
  destruct Htx as [Hok [[Hnil _]|[pre [last [Hp [Hip Hidr]]]]]]; [congruence|].
  assert (Hpre : pre = []).
  { unfold npk in Hn. rewrite Hp, zlen_app in Hn. change (zlen [last]) with 1 in Hn.
    apply zlen_zero_nil. pose proof (zlen_nonneg pre). lia. }
  subst pre. cbn [app zlen length Z.of_nat] in *.
  assert (Hlast : plen last = ps /\ pk_ok last).
  { rewrite Hp in Hok, Hpl. apply Forall_inv in Hok. apply Forall_inv in Hpl. split; assumption. }
  destruct Hlast as [Hl1 Hl2]. unfold pk_ok in Hl2. unfold cap in Hidr.
  assert (Hbefore : before (tq st) = ztake (id (tq st)) (pdata last)).
  { rewrite (before_last (tq st) [] last Hp Hip). reflexivity. }
  unfold send_remaining, send_packets. rewrite Hp, Hip. cbn [send_loop]. rewrite Z.eqb_refl.
  replace ((id (tq st) <? 0) || (zlen (pdata last) <? id (tq st))) with false
    by (symmetry; apply orb_false_iff; split; apply Z.ltb_ge; lia).
  rewrite (send_last ps chan typ (tnr st) (id (tq st)) last) by lia.
  unfold discard_sent. unfold npk. rewrite Hp.
  replace ((0 + 1 <? 0) || (zlen [last] <? 0 + 1)) with false by reflexivity.
  replace (ip (tq st) - (0 + 1) <? 0) with true by (rewrite Hip; reflexivity).
  rewrite Hbefore, zlen_ztake by lia.
  eexists. split; [reflexivity|]. cbn [tq tnr reset]. split; [reflexivity|]. split; [reflexivity|]. lia.
Qed.

(* ------------------------------------------------------------------ the specification side *)
Lemma parse_enc typ status len chan nr body :
  0 <= len < 65536 -> 0 <= chan < 65536 ->
  parse_packet (enc_pkt typ status len chan nr body) = Some (typ, status, len, chf chan, nrf chan nr, 0, body).
Proof.
  intros Hl Hc. unfold enc_pkt, header_bytes, parse_packet. cbn [app].
  assert (E1 : 256 * ((len / 256) mod 256) + len mod 256 = len).
  { rewrite (Z.mod_small (len / 256)) by (split; [apply Z.div_pos; lia|apply Z.div_lt_upper_bound; lia]).
    symmetry. apply Z.div_mod. lia. }
  assert (Hcf : 0 <= chf chan < 65536) by (unfold chf; destruct (0 <? chan); lia).
  assert (E2 : 256 * ((chf chan / 256) mod 256) + chf chan mod 256 = chf chan).
  { rewrite (Z.mod_small (chf chan / 256)) by (split; [apply Z.div_pos; lia|apply Z.div_lt_upper_bound; lia]).
    symmetry. apply Z.div_mod. lia. }
  rewrite E1, E2. reflexivity.
Qed.

Lemma header_ok_enc ps typ chan nrs nrm len body (e : bool) :
  0 <= chan -> len = 8 + zlen body -> len <= ps -> (0 < chan -> nrm mod 256 = nrs mod 256) ->
  header_ok ps typ chan nrs typ (if e then 1 else 0) len (chf chan) (nrf chan nrm) 0 body e = true.
Proof.
  intros Hc Hl Hps Hnr. unfold header_ok, chf, nrf. rewrite !Z.eqb_refl.
  replace (len =? 8 + zlen body) with true by (symmetry; apply Z.eqb_eq; exact Hl).
  replace (len <=? ps) with true by (symmetry; apply Z.leb_le; exact Hps).
  destruct (Z.ltb_spec 0 chan) as [Hpos|Hzero].
  - rewrite Z.eqb_refl. rewrite (Hnr Hpos), Z.eqb_refl. reflexivity.
  - replace chan with 0 by lia. rewrite !Z.eqb_refl. reflexivity.
Qed.

Lemma step1_mod chan nrm nrs : 0 < chan -> nrm mod 256 = nrs mod 256 -> step1 chan nrm mod 256 = (nrs + 1) mod 256.
Proof.
  intros Hc H. unfold step1. replace (0 <? chan) with true by (symmetry; apply Z.ltb_lt; lia).
  rewrite Z.mod_mod by lia. rewrite <- Zplus_mod_idemp_l, H, Zplus_mod_idemp_l. reflexivity.
Qed.

Lemma tx_ok_fulls ps typ chan : 9 <= ps <= 65535 -> 0 <= chan < 65536 ->
  forall fulls nrs nrm lastb,
  Forall (fun b => zlen b = ps - 8) fulls -> 1 <= zlen lastb <= ps - 8 ->
  (0 < chan -> nrm mod 256 = nrs mod 256) ->
  tx_ok ps typ chan nrs (concat fulls ++ lastb)
    (enc_fulls ps typ chan nrm fulls ++ [enc_pkt typ 1 (8 + zlen lastb) chan (steps chan nrm (length fulls)) lastb]) = true.
Proof.
  intros Hps Hc. induction fulls as [|b fulls IH]; intros nrs nrm lastb Hf Hl Hnr.
  - cbn [concat app enc_fulls length steps tx_ok]. rewrite parse_enc by lia.
    rewrite (header_ok_enc ps typ chan nrs nrm (8 + zlen lastb) lastb true) by (try lia; try reflexivity; exact Hnr).
    replace (1 <=? zlen lastb) with true by (symmetry; apply Z.leb_le; lia).
    replace (zlen lastb <=? ps - 8) with true by (symmetry; apply Z.leb_le; lia).
    rewrite list_Z_eqb_refl. reflexivity.
  - inversion Hf as [|? ? Hb Hfs]; subst.
    cbn [concat enc_fulls length steps]. rewrite <- app_assoc. cbn [app tx_ok].
    rewrite parse_enc by lia.
    destruct (enc_fulls ps typ chan (step1 chan nrm) fulls ++
              [enc_pkt typ 1 (8 + zlen lastb) chan (steps chan (step1 chan nrm) (length fulls)) lastb]) as [|w rest] eqn:Er.
    { destruct (enc_fulls ps typ chan (step1 chan nrm) fulls); discriminate. }
    rewrite <- Er.
    rewrite (header_ok_enc ps typ chan nrs nrm ps b false) by (try lia; exact Hnr).
    rewrite Hb, Z.eqb_refl. rewrite <- Hb at 1 2. rewrite ztake_app_exact, zdrop_app_exact, list_Z_eqb_refl.
    cbn [andb]. apply IH; [exact Hfs|exact Hl|].
    intros Hpos. apply step1_mod; [exact Hpos|apply Hnr; exact Hpos].
Qed.

Lemma msg_q_before_nil ps q : msg_q ps q -> before q = [] -> pkts q = [].
Proof.
  intros [[_ [[Hnil _]|[pre [last [Hp [Hip Hidr]]]]]] [_ [_ Hid]]] Hb; [exact Hnil|]. exfalso.
  assert (Hne : pkts q <> []) by (rewrite Hp; destruct pre; discriminate).
  specialize (Hid Hne). rewrite (before_last q pre last Hp Hip) in Hb.
  apply app_eq_nil in Hb. destruct Hb as [_ Hb].
  assert (Hl : zlen (ztake (id q) (pdata last)) = id q) by (apply zlen_ztake; unfold cap in Hidr; lia).
  rewrite Hb in Hl. cbn in Hl. lia.
Qed.

(* ------------------------------------------------------------------ one message *)
Lemma queue_all_spec ps chan typ : 9 <= ps -> forall pkgs st, msg_q ps (tq st) ->
  exists fulls st', queue_all ps chan typ pkgs st = Some (enc_fulls ps typ chan (tnr st) fulls, st') /\
    msg_q ps (tq st') /\ Forall (fun b => zlen b = ps - 8) fulls /\
    concat fulls ++ before (tq st') = before (tq st) ++ payload_of pkgs /\
    tnr st' = steps chan (tnr st) (length fulls) /\
    (pkts (tq st') = [] -> fulls = [] /\ before (tq st) ++ payload_of pkgs = []).
Proof.
  intros Hps. induction pkgs as [|c r IH]; intros st Hq.
  - exists [], st. cbn [queue_all enc_fulls concat app length steps]. unfold payload_of. cbn [concat]. rewrite app_nil_r.
    split; [reflexivity|]. split; [exact Hq|]. split; [constructor|]. split; [reflexivity|]. split; [reflexivity|].
    intros Hnil. split; [reflexivity|]. unfold before, pkt_at. rewrite Hnil.
    destruct Hq as [[_ [[_ [Hip Hid]]|[pre [last [Hp _]]]]] _].
    + rewrite Hip, Hid. reflexivity.
    + rewrite Hp in Hnil. destruct pre; discriminate.
  - cbn [queue_all].
    destruct (queue_package_spec ps chan typ c st Hps Hq) as [f1 [st1 [E1 [Hq1 [Hf1 [Hc1 [Hn1 [_ Hz1]]]]]]]].
    rewrite E1.
    destruct (IH st1 Hq1) as [f2 [st2 [E2 [Hq2 [Hf2 [Hc2 [Hn2 Hz2]]]]]]].
    rewrite E2. exists (f1 ++ f2), st2. split.
    + rewrite enc_fulls_app, Hn1. reflexivity.
    + split; [exact Hq2|]. split; [apply Forall_app; split; assumption|]. split.
      * rewrite concat_app, <- app_assoc, Hc2, app_assoc, Hc1. unfold payload_of. cbn [concat].
        rewrite concat_app, <- !app_assoc. reflexivity.
      * split; [rewrite Hn2, Hn1, app_length, steps_add; reflexivity|].
        intros Hnil. destruct (Hz2 Hnil) as [Hf2nil Hrest]. apply app_eq_nil in Hrest. destruct Hrest as [Hb1nil Hpr].
        pose proof (msg_q_before_nil ps (tq st1) Hq1 Hb1nil) as Hp1. specialize (Hz1 Hp1). subst f1 f2.
        split; [reflexivity|]. cbn [concat app] in Hc1. rewrite Hb1nil in Hc1.
        unfold payload_of. cbn [concat]. rewrite concat_app, app_assoc, <- Hc1. exact Hpr.
Qed.

Lemma steps_value chan nr n : 0 <= nr < 256 ->
  steps chan nr n = if 0 <? chan then (nr + Z.of_nat n) mod 256 else nr.
Proof.
  revert nr. induction n as [|n IH]; intros nr Hnr.
  - cbn [steps]. destruct (0 <? chan); [rewrite Z.add_0_r, Z.mod_small; lia|reflexivity].
  - cbn [steps]. unfold step1 at 1. destruct (Z.ltb_spec 0 chan) as [Hpos|Hz].
    + rewrite IH by (apply Z.mod_pos_bound; lia).
      replace (0 <? chan) with true by (symmetry; apply Z.ltb_lt; lia).
      rewrite Zplus_mod_idemp_l. f_equal. lia.
    + rewrite IH by lia. replace (0 <? chan) with false by (symmetry; apply Z.ltb_ge; lia). reflexivity.
Qed.

Theorem message_ok ps chan typ pkgs st :
  9 <= ps <= 65535 -> 0 <= chan < 65536 -> 0 <= tnr st < 256 -> tq st = empty_pq -> payload_of pkgs <> [] ->
  exists outs st', send_message ps chan typ pkgs st = Some (outs, st') /\
    tx_ok ps typ chan (tnr st) (payload_of pkgs) outs = true /\
    tq st' = empty_pq /\ tnr st' = (if 0 <? chan then (tnr st + zlen outs) mod 256 else tnr st).
Proof.
  intros Hps Hc Hnr Hq Hpay. unfold send_message.
  assert (Hmq : msg_q ps (tq st)) by (rewrite Hq; apply msg_q_empty).
  destruct (queue_all_spec ps chan typ ltac:(lia) pkgs st Hmq) as [fulls [st1 [E1 [Hq1 [Hf [Hcat [Hn1 Hz]]]]]]].
  rewrite E1. pose proof Hcat as Hcat0. rewrite Hq in Hcat. change (before empty_pq) with (@nil Z) in Hcat. cbn [app] in Hcat.
  assert (Hne : pkts (tq st1) <> []).
  { intros Hnil. destruct (Hz Hnil) as [_ Hempty]. rewrite Hq in Hempty.
    change (before empty_pq) with (@nil Z) in Hempty. cbn [app] in Hempty. congruence. }
  destruct (send_remaining_spec ps chan typ st1 ltac:(lia) ltac:(lia) Hq1 Hne) as [st2 [E2 [Hq2 [Hn2 Hlen]]]].
  rewrite E2. eexists _, st2. split; [reflexivity|]. split.
  - rewrite <- Hcat. rewrite Hn1.
    apply tx_ok_fulls; [lia|lia|exact Hf|exact Hlen|]. intros _. reflexivity.
  - split; [exact Hq2|]. rewrite Hn2, Hn1. rewrite zlen_app.
    change (zlen [enc_pkt typ 1 (8 + zlen (before (tq st1))) chan (steps chan (tnr st) (length fulls)) (before (tq st1))]) with 1.
    rewrite <- steps_step. rewrite steps_value by lia.
    assert (El : zlen (enc_fulls ps typ chan (tnr st) fulls) = zlen fulls).
    { clear. generalize (tnr st). induction fulls as [|b f IH]; intros n; [reflexivity|]. cbn [enc_fulls]. rewrite !zlen_cons, IH. reflexivity. }
    rewrite El. destruct (0 <? chan); [|reflexivity]. f_equal. unfold zlen. lia.
Qed.

Definition msg_wf (m : message) : Prop := 9 <= m_ps m <= 65535 /\ payload_of (m_pkgs m) <> [].

Theorem history_ok_all chan : 0 <= chan < 65536 -> forall ms st,
  Forall msg_wf ms -> 0 <= tnr st < 256 -> tq st = empty_pq ->
  exists outs st', send_history chan ms st = Some (outs, st') /\
    history_ok chan (tnr st) ms outs = true /\ tq st' = empty_pq /\ 0 <= tnr st' < 256.
Proof.
  intros Hc. induction ms as [|m ms IH]; intros st Hwf Hnr Hq.
  - exists [], st. cbn. repeat split; auto; lia.
  - inversion Hwf as [|? ? [Hps Hpay] Hrest]; subst.
    destruct (message_ok (m_ps m) chan (m_typ m) (m_pkgs m) st Hps Hc Hnr Hq Hpay) as [o [st1 [E [Hok [Hq1 Hn1]]]]].
    assert (Hnr1 : 0 <= tnr st1 < 256).
    { rewrite Hn1. destruct (0 <? chan); [apply Z.mod_pos_bound; lia|exact Hnr]. }
    destruct (IH st1 Hrest Hnr1 Hq1) as [os [st2 [E2 [Hok2 [Hq2 Hn2]]]]].
    exists (o :: os), st2. cbn [send_history history_ok]. rewrite E, E2. split; [reflexivity|].
    split; [|split; assumption]. rewrite Hok. cbn [andb]. rewrite <- Hn1. exact Hok2.
Qed.
