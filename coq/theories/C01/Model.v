(* C01: the sending side of a channel (tds/channel.go QueuePackage / SendRemainingPackets /
   sendPackets / sendPacket, tds/packet.go Bytes, tds/packetHeader.go Read) on top of the
   concrete packet-queue model of C15.  Constants come from Gen/GenC01.v (tabulated from the code).
   No proofs in this file. *)
From Coq Require Import ZArith List Bool.
Import ListNotations.
From V Require Import Base.Tree Base.Bytes C15.Model Gen.GenC01.
Open Scope Z_scope.

Record txst := { tq : pq; tnr : Z }.      (* queueTx, curPacketNr *)

(* PacketHeader.Read: type, status, length (big endian), channel (big endian), packet nr, window *)
Definition header_bytes (typ status len chan nr win : Z) : bytes :=
  [typ; status; (len / 256) mod 256; len mod 256; (chan / 256) mod 256; chan mod 256; nr; win].

(* Packet.Bytes: a slice of Header.Length bytes, header first, then as much of Data as fits *)
Definition packet_bytes (typ status chan nr win : Z) (p : packet) : option bytes :=
  if plen p <? hdr_size then None else
  let room := plen p - hdr_size in
  let body := if zlen (pdata p) <? room then pdata p ++ zeros (room - zlen (pdata p)) else ztake room (pdata p) in
  Some (header_bytes typ status (plen p) chan nr win ++ body).

(* sendPacket: message type; channel id / packet number / window only for channel ids > 0;
   EOM if already marked or if the data is shorter than the body size in force *)
Definition send_packet (ps chan typ : Z) (eom_marked : bool) (nr : Z) (p : packet) : option (bytes * Z) :=
  let status := if eom_marked || negb (zlen (pdata p) =? ps - hdr_size) then eom_bit else 0 in
  if 0 <? chan
  then match packet_bytes typ status chan (nr mod 256) 0 p with
       | Some bs => Some (bs, (nr + 1) mod 256) | None => None end
  else match packet_bytes typ status 0 0 0 p with
       | Some bs => Some (bs, nr) | None => None end.

(* the loop of sendPackets over the queue as it is at loop start; i = index of the head of pk.
   result: writes, packet counter, number of packets sent *)
Fixpoint send_loop (ps chan typ : Z) (only_full : bool) (ipq idq : Z) (i : Z) (pk : list packet) (nr : Z)
  : option (list bytes * Z * Z) :=
  match pk with
  | [] => Some ([], nr, 0)
  | p :: r =>
    if i =? ipq then
      if only_full then Some ([], nr, 0)
      else
        (* packet.Data[:indexData] panics if indexData is outside the slice *)
        if (idq <? 0) || (zlen (pdata p) <? idq) then None else
        let p' := {| plen := (hdr_size + idq) mod 65536; pdata := ztake idq (pdata p) |} in
        match send_packet ps chan typ true nr p' with
        | None => None
        | Some (bs, nr1) =>
          match send_loop ps chan typ only_full ipq idq (i + 1) r nr1 with
          | None => None
          | Some (outs, nr2, sent) => Some (bs :: outs, nr2, sent + 1)
          end
        end
    else
      match send_packet ps chan typ false nr p with
      | None => None
      | Some (bs, nr1) =>
        match send_loop ps chan typ only_full ipq idq (i + 1) r nr1 with
        | None => None
        | Some (outs, nr2, sent) => Some (bs :: outs, nr2, sent + 1)
        end
      end
  end.

Definition send_packets (ps chan typ : Z) (only_full : bool) (st : txst) : option (list bytes * txst) :=
  match send_loop ps chan typ only_full (ip (tq st)) (id (tq st)) 0 (pkts (tq st)) (tnr st) with
  | None => None
  | Some (outs, nr', sent) =>
    match discard_sent sent (tq st) with
    | None => None
    | Some q' => Some (outs, {| tq := q'; tnr := nr' |})
    end
  end.

(* QueuePackage: the package writes its encoding (a list of WriteBytes calls), then only full packets go out *)
Definition write_chunks (ps : Z) (chunks : list bytes) (q : pq) : option pq :=
  fold_left (fun oq c => match oq with Some q => write_bytes ps c q | None => None end) chunks (Some q).

Definition queue_package (ps chan typ : Z) (chunks : list bytes) (st : txst) : option (list bytes * txst) :=
  match write_chunks ps chunks (tq st) with
  | None => None
  | Some q' => send_packets ps chan typ true {| tq := q'; tnr := tnr st |}
  end.

(* SendRemainingPackets: everything goes out, then Reset (queue emptied; header type back to NORMAL) *)
Definition send_remaining (ps chan typ : Z) (st : txst) : option (list bytes * txst) :=
  match send_packets ps chan typ false st with
  | None => None
  | Some (outs, st') => Some (outs, {| tq := reset (tq st'); tnr := tnr st' |})
  end.

(* a message: packages queued one by one, then the flush *)
Fixpoint queue_all (ps chan typ : Z) (pkgs : list (list bytes)) (st : txst) : option (list bytes * txst) :=
  match pkgs with
  | [] => Some ([], st)
  | c :: r =>
    match queue_package ps chan typ c st with
    | None => None
    | Some (o1, st1) =>
      match queue_all ps chan typ r st1 with
      | None => None
      | Some (o2, st2) => Some (o1 ++ o2, st2)
      end
    end
  end.

Definition send_message (ps chan typ : Z) (pkgs : list (list bytes)) (st : txst) : option (list bytes * txst) :=
  match queue_all ps chan typ pkgs st with
  | None => None
  | Some (o1, st1) =>
    match send_remaining ps chan typ st1 with
    | None => None
    | Some (o2, st2) => Some (o1 ++ o2, st2)
    end
  end.

Record message := { m_ps : Z; m_typ : Z; m_pkgs : list (list bytes) }.

(* successive messages on one channel; the writes of every message are kept apart *)
Fixpoint send_history (chan : Z) (ms : list message) (st : txst) : option (list (list bytes) * txst) :=
  match ms with
  | [] => Some ([], st)
  | m :: r =>
    match send_message (m_ps m) chan (m_typ m) (m_pkgs m) st with
    | None => None
    | Some (o, st1) =>
      match send_history chan r st1 with
      | None => None
      | Some (os, st2) => Some (o :: os, st2)
      end
    end
  end.

(* ------------------------------------------------------------------ interrupted sends
   The context passed to QueuePackage / SendRemainingPackets / SendPackage may be done, or become done
   while the packets are written.  Budget: None = the context stays live; Some k = it is done once k
   (more) packets have been written.  sendPackets looks at the context at the head of EVERY loop iteration,
   before it looks whether the packet is the one under the write position; with an empty queue the body never
   runs and there is no error.  The deferred discardSent(sent) runs on every path. *)
Definition bdone (b : option nat) : bool := match b with Some O => true | _ => false end.
Definition bdec (b : option nat) : option nat := match b with Some (S k) => Some k | _ => b end.
Definition bsub (b : option nat) (n : nat) : option nat := match b with Some k => Some (k - n)%nat | None => None end.

(* result: writes, packet counter, number of packets sent, error flag *)
Fixpoint send_loop_b (ps chan typ : Z) (only_full : bool) (ipq idq : Z) (i : Z) (pk : list packet) (nr : Z)
  (b : option nat) : option (list bytes * Z * Z * bool) :=
  match pk with
  | [] => Some ([], nr, 0, false)
  | p :: r =>
    if bdone b then Some ([], nr, 0, true) else
    if i =? ipq then
      if only_full then Some ([], nr, 0, false)
      else
        if (idq <? 0) || (zlen (pdata p) <? idq) then None else
        let p' := {| plen := (hdr_size + idq) mod 65536; pdata := ztake idq (pdata p) |} in
        match send_packet ps chan typ true nr p' with
        | None => None
        | Some (bs, nr1) =>
          match send_loop_b ps chan typ only_full ipq idq (i + 1) r nr1 (bdec b) with
          | None => None
          | Some (outs, nr2, sent, e) => Some (bs :: outs, nr2, sent + 1, e)
          end
        end
    else
      match send_packet ps chan typ false nr p with
      | None => None
      | Some (bs, nr1) =>
        match send_loop_b ps chan typ only_full ipq idq (i + 1) r nr1 (bdec b) with
        | None => None
        | Some (outs, nr2, sent, e) => Some (bs :: outs, nr2, sent + 1, e)
        end
      end
  end.

Definition send_packets_b (ps chan typ : Z) (only_full : bool) (st : txst) (b : option nat)
  : option (list bytes * txst * bool) :=
  match send_loop_b ps chan typ only_full (ip (tq st)) (id (tq st)) 0 (pkts (tq st)) (tnr st) b with
  | None => None
  | Some (outs, nr', sent, e) =>
    match discard_sent sent (tq st) with
    | None => None
    | Some q' => Some (outs, {| tq := q'; tnr := nr' |}, e)
    end
  end.

(* QueuePackage: the package is written into the queue whatever the context says; the error of
   sendPackets is returned, the queue keeps what was not sent *)
Definition queue_package_b (ps chan typ : Z) (chunks : list bytes) (st : txst) (b : option nat)
  : option (list bytes * txst * bool) :=
  match write_chunks ps chunks (tq st) with
  | None => None
  | Some q' => send_packets_b ps chan typ true {| tq := q'; tnr := tnr st |} b
  end.

(* SendRemainingPackets: reset is deferred, it also runs when sendPackets returns an error:
   whatever was not sent is thrown away, the message is abandoned *)
Definition send_remaining_b (ps chan typ : Z) (st : txst) (b : option nat) : option (list bytes * txst * bool) :=
  match send_packets_b ps chan typ false st b with
  | None => None
  | Some (outs, st', e) => Some (outs, {| tq := reset (tq st'); tnr := tnr st' |}, e)
  end.

(* SendPackage: QueuePackage; on error return it (no flush, no reset); else SendRemainingPackets
   with the same context *)
Definition send_package_b (ps chan typ : Z) (chunks : list bytes) (st : txst) (b : option nat)
  : option (list bytes * txst * bool) :=
  match queue_package_b ps chan typ chunks st b with
  | None => None
  | Some (o1, st1, true) => Some (o1, st1, true)
  | Some (o1, st1, false) =>
    match send_remaining_b ps chan typ st1 (bsub b (length o1)) with
    | None => None
    | Some (o2, st2, e) => Some (o1 ++ o2, st2, e)
    end
  end.

Inductive call :=
| CQueue (chunks : list bytes) (b : option nat)
| CSendPkg (chunks : list bytes) (b : option nat)
| CFlush (b : option nat).

Definition run_call (ps chan typ : Z) (c : call) (st : txst) : option (list bytes * txst * bool) :=
  match c with
  | CQueue chunks b => queue_package_b ps chan typ chunks st b
  | CSendPkg chunks b => send_package_b ps chan typ chunks st b
  | CFlush b => send_remaining_b ps chan typ st b
  end.

(* observation per call: the writes, the error flag, whether packets stay queued *)
Definition obs_call : Type := (list bytes * bool * bool)%type.
Definition pending (st : txst) : bool := negb (npk (tq st) =? 0).

Fixpoint run_calls (ps chan typ : Z) (cs : list call) (st : txst) : option (list obs_call * txst) :=
  match cs with
  | [] => Some ([], st)
  | c :: r =>
    match run_call ps chan typ c st with
    | None => None
    | Some (o, st1, e) =>
      match run_calls ps chan typ r st1 with
      | None => None
      | Some (os, st2) => Some ((o, e, pending st1) :: os, st2)
      end
    end
  end.

Record segment := { g_ps : Z; g_typ : Z; g_calls : list call }.

Fixpoint run_segments (chan : Z) (gs : list segment) (st : txst) : option (list (list obs_call) * txst) :=
  match gs with
  | [] => Some ([], st)
  | g :: r =>
    match run_calls (g_ps g) chan (g_typ g) (g_calls g) st with
    | None => None
    | Some (o, st1) =>
      match run_segments chan r st1 with
      | None => None
      | Some (os, st2) => Some (o :: os, st2)
      end
    end
  end.

(* a message whose QueuePackage calls may be interrupted (errors ignored by the client, which goes on),
   all writes concatenated *)
Fixpoint queue_all_b (ps chan typ : Z) (pkgs : list (list bytes * option nat)) (st : txst) : option (list bytes * txst) :=
  match pkgs with
  | [] => Some ([], st)
  | (c, b) :: r =>
    match queue_package_b ps chan typ c st b with
    | None => None
    | Some (o1, st1, _) =>
      match queue_all_b ps chan typ r st1 with
      | None => None
      | Some (o2, st2) => Some (o1 ++ o2, st2)
      end
    end
  end.

Definition send_message_b (ps chan typ : Z) (pkgs : list (list bytes * option nat)) (st : txst) : option (list bytes * txst) :=
  match queue_all_b ps chan typ pkgs st with
  | None => None
  | Some (o1, st1) =>
    match send_remaining ps chan typ st1 with
    | None => None
    | Some (o2, st2) => Some (o1 ++ o2, st2)
    end
  end.
