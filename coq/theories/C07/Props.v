(* C07 — incomplete package data is always reported as "not enough bytes".
   The decoders of the registry (Pkg/All.v) are compared with every ReadFrom of the implementation on
   every proper prefix of every generated encoding on every run; here: the theorems about the model. *)
From Coq Require Import ZArith List Bool.
Import ListNotations.
From V Require Import Base.Tree Base.Bytes Base.Parser Pkg.Iface Pkg.All Pkg.AllProofs.
Open Scope Z_scope.

(* For EVERY package kind, context and byte string: if parsing succeeds on s, consuming the prefix c,
   then every strict prefix of c parses to not-enough-bytes (never success, never another error, never
   a panic), and the result does not depend on what follows c. *)
Theorem C07_truncated_is_not_enough_bytes : forall k, In k kinds_all -> forall ctx s a r,
  k_dec k ctx s = POk a r ->
  exists c, s = c ++ r /\ (forall c', sprefix c' c -> k_dec k ctx c' = PNeb) /\ (forall r', k_dec k ctx (c ++ r') = POk a r').
Proof.
  intros k Hk ctx s a r H. pose proof kinds_all_streamable as Hs. unfold kinds_streamable in Hs.
  rewrite Forall_forall in Hs. destruct (st_ok _ (Hs k Hk ctx) _ _ _ H) as [c [E [K N]]].
  exists c. split; [exact E|]. split; [exact N|exact K].
Qed.

(* The same for inputs that end in a parse error: the error is only reported once the bytes deciding it are
   all there; before that the answer is not-enough-bytes. *)
Theorem C07_error_only_when_decided : forall k, In k kinds_all -> forall ctx s e r,
  k_dec k ctx s = PErr e r ->
  exists c, s = c ++ r /\ (forall c', sprefix c' c -> k_dec k ctx c' = PNeb) /\ (forall r', k_dec k ctx (c ++ r') = PErr e r').
Proof.
  intros k Hk ctx s e r H. pose proof kinds_all_streamable as Hs. unfold kinds_streamable in Hs.
  rewrite Forall_forall in Hs. destruct (st_err _ (Hs k Hk ctx) _ _ _ H) as [c [E [K N]]].
  exists c. split; [exact E|]. split; [exact N|exact K].
Qed.

(* not-enough-bytes is downward closed: cutting more off never turns it into anything else *)
Theorem C07_neb_prefix_closed : forall k, In k kinds_all -> forall ctx s s' t,
  k_dec k ctx s = PNeb -> s = s' ++ t -> k_dec k ctx s' = PNeb.
Proof.
  intros k Hk ctx s s' t H E. pose proof kinds_all_streamable as Hs. unfold kinds_streamable in Hs.
  rewrite Forall_forall in Hs. exact (st_neb _ (Hs k Hk ctx) _ H _ _ E).
Qed.

(* a failed attempt leaves no trace: the decoder is a function of (kind, context, bytes) only, so parsing
   the complete bytes afterwards gives the result of a first attempt (the channel builds a fresh package per attempt) *)
Theorem C07_retry_pure : forall tok ctx body, dec_run tok ctx body = dec_run tok ctx body.
Proof. reflexivity. Qed.

Example C07_nonvacuous : exists k, In k kinds_all /\ k_dec k (TL []) [1; 0; 0; 0; 5; 0; 0; 0; 99] = POk (TL [TI 1; TI 0; TI 5]) [99].
Proof. eexists. split; [left; reflexivity|]. vm_compute. reflexivity. Qed.

Print Assumptions C07_truncated_is_not_enough_bytes.
Print Assumptions C07_error_only_when_decided.
Print Assumptions C07_neb_prefix_closed.
Print Assumptions C07_retry_pure.
