(* C19 — a version has a capability exactly inside the capability's ranges.
   Property theorems only.  Every theorem is stated for ANY type of version strings `ver` with its
   emptiness test, ANY comparer `cmp : ver -> ver -> option Z` (None = the comparer reports an error; no
   order axioms, not even reflexivity), ALL versions, ALL lists of capabilities and ranges.
   The model (C19/Model.v) is compared with /repo/capability on every run.

   "Evaluated" (Spec.evaluated): for a version v, the ranges of a capability in list order up to and
   including the first range that contains v or is not ok; capabilities are processed in list order and
   nothing after the first range that is not ok is looked at.  A range is ok for v (Spec.range_ok) when,
   if both bounds are present, the comparer puts the lower strictly below the upper one, and the comparer
   can compare v with every bound that is present. *)
From Coq Require Import ZArith List Bool Permutation.
Import ListNotations.
From V Require Import Gen.GenC19 C19.Model C19.Spec C19.Proofs C19.ProofsGrid.
Open Scope Z_scope.

(* (0) NewCapability pairs the version strings: (1st,2nd), (3rd,4th), ...; a last string without partner
   becomes a range without upper bound, unless it is empty (then nothing is added). *)
Theorem C19_pairing : forall (ver : Type) (is_empty : ver -> bool) (empty : ver),
  is_empty empty = true ->
  forall args, new_capability ver is_empty empty args = pair_up ver is_empty empty args.
Proof. exact new_capability_spec. Qed.

(* (1) VersionRange.contains is the membership predicate (lower inclusive, upper exclusive, missing bound
   unbounded, ("","") never) whenever the comparisons it makes succeed, and an error naming a failed
   comparison otherwise. *)
Theorem C19_contains : forall (ver : Type) (is_empty : ver -> bool) (cmp : ver -> ver -> option Z) v r,
  (comparable ver is_empty cmp v r = true -> contains ver is_empty cmp r v = COk (in_range ver is_empty cmp v r)) /\
  (comparable ver is_empty cmp v r = false ->
     exists a b, contains ver is_empty cmp r v = CErr (3, a, b) /\ cmp a b = None).
Proof. intros ver is_empty cmp v r. split; [apply contains_spec|apply contains_error]. Qed.

(* (a) If every evaluated comparison succeeds and every evaluated range is valid, Target.Version succeeds and
   the version has a registered capability exactly when it lies in at least one of its ranges; capabilities
   that are not registered are not reported.  (`functional`: the same pointer registered twice is the same
   capability.) *)
Theorem C19_has_exact : forall (ver : Type) (is_empty : ver -> bool) (cmp : ver -> ver -> option Z) v caps,
  functional ver caps -> caps_ok ver is_empty cmp v caps = true ->
  exists m, version_of ver is_empty cmp v caps = Ok m /\
    (forall id rs, In (id, rs) caps -> has m id = existsb (in_range ver is_empty cmp v) rs) /\
    (forall id, ~ In id (map fst caps) -> has m id = false).
Proof. exact has_exact. Qed.

(* (a') Target.SetCapabilities on a Version that already carries answers (calls m made before, e.g. by the caller
   through DefaultVersion.SetCapability or by an earlier SetCapabilities): every registered capability that has
   ranges gets exactly the membership answer, every other capability OBJECT keeps the answer it had. *)
Theorem C19_set_on_existing : forall (ver : Type) (is_empty : ver -> bool) (cmp : ver -> ver -> option Z) v caps m,
  functional ver caps -> caps_ok ver is_empty cmp v caps = true ->
  exists m', set_capabilities ver is_empty cmp v caps m = Ok m' /\
    (forall id r rs, In (id, r :: rs) caps -> has m' id = existsb (in_range ver is_empty cmp v) (r :: rs)) /\
    (forall id, (forall rs, In (id, rs) caps -> rs = []) -> has m' id = has m id).
Proof. exact set_on_existing. Qed.

(* DefaultVersion.SetCapability / Has: an answer belongs to the capability object (pointer) it was set for;
   Has reports the latest answer set for that object and nothing set for another object. *)
Theorem C19_has_per_object : forall (m : log) id b id',
  has ((id, b) :: m) id' = if id =? id' then b else has m id'.
Proof. exact has_latest. Qed.

(* Target.Version succeeds exactly when all evaluated ranges are ok. *)
Theorem C19_ok_iff : forall (ver : Type) (is_empty : ver -> bool) (cmp : ver -> ver -> option Z) v caps,
  (exists m, version_of ver is_empty cmp v caps = Ok m) <-> caps_ok ver is_empty cmp v caps = true.
Proof. exact ok_iff. Qed.

(* (b) A capability without ranges is never reported (whatever else is registered, and even in the calls made
   on the Version before an error). *)
Theorem C19_no_ranges : forall (ver : Type) (is_empty : ver -> bool) (cmp : ver -> ver -> option Z) v caps id,
  (forall rs, In (id, rs) caps -> rs = []) ->
  has (log_of ver (version_of ver is_empty cmp v caps)) id = false.
Proof. exact no_ranges. Qed.

(* (c) For well-formed input (every range of every capability is ok for v, distinct capabilities) the outcome
   does not depend on the order of the ranges inside the capabilities nor on the order of the capabilities. *)
Theorem C19_order_independent : forall (ver : Type) (is_empty : ver -> bool) (cmp : ver -> ver -> option Z) v
  (caps caps' : list (Z * list (ver * ver))),
  NoDup (map fst caps) -> all_ranges_ok ver is_empty cmp v caps -> caps_equiv ver caps caps' ->
  exists m m', version_of ver is_empty cmp v caps = Ok m /\ version_of ver is_empty cmp v caps' = Ok m' /\
    forall id, has m id = has m' id.
Proof. exact perm_invariant. Qed.

(* (d) A range that is not ok and is evaluated yields an error, namely the error of the first failing check in
   the order bounds-comparable, lower-below-upper, lower-vs-version, version-vs-upper; never a silent answer. *)
Theorem C19_error_when_evaluated : forall (ver : Type) (is_empty : ver -> bool) (cmp : ver -> ver -> option Z)
  v pre id rs post r,
  caps_ok ver is_empty cmp v pre = true -> In r (evaluated ver is_empty cmp v rs) -> range_ok ver is_empty cmp v r = false ->
  exists m, version_of ver is_empty cmp v (pre ++ (id, rs) :: post) = Err (range_error ver is_empty cmp v r) m.
Proof. exact error_when_evaluated. Qed.

(* the ranges the property names are not ok: inverted or zero-width (lower >= upper), a bound or a version the
   comparer cannot handle *)
Theorem C19_bad_ranges : forall (ver : Type) (is_empty : ver -> bool) (cmp : ver -> ver -> option Z) v lo hi,
  (forall c, is_empty lo = false -> is_empty hi = false -> cmp lo hi = Some c -> 0 <= c ->
     range_ok ver is_empty cmp v (lo, hi) = false) /\
  ((is_empty lo = false /\ is_empty hi = false /\ cmp lo hi = None) \/
   (is_empty lo = false /\ cmp lo v = None) \/
   (is_empty hi = false /\ cmp v hi = None) ->
     range_ok ver is_empty cmp v (lo, hi) = false).
Proof.
  intros ver is_empty cmp v lo hi. split.
  - intros c. apply inverted_not_ok.
  - apply unparsable_not_ok.
Qed.

(* (e) On the grid the default comparer (its outcome matrix is regenerated from the code on every run) agrees
   with the independent ordering of semantic versions (major.minor.patch, pre-release below release,
   identifiers numerically / lexically, build metadata ignored) wherever that ordering is defined, and refuses
   the empty string and strings with characters no version notation uses. *)
Theorem C19_default_comparer_on_grid : forall a b, In a grid_indices -> In b grid_indices ->
  semver_agrees (g_str a) (g_str b) (g_cmp cmp_default a b) = true.
Proof. exact matrix_pair. Qed.

(* ---- non-vacuity: a concrete comparer on integers (0 plays "", 13 cannot be parsed, results are not
   normalised to -1/0/1) *)
Definition ex_empty (z : Z) : bool := z =? 0.
Definition ex_cmp (a b : Z) : option Z := if (a =? 13) || (b =? 13) then None else Some (3 * (a - b)).
Definition ex_caps : list (Z * list (Z * Z)) := [(1, [(2, 5); (7, 0)]); (2, []); (3, [(0, 3); (0, 0)])].

Example C19_ex_hypotheses : caps_ok Z ex_empty ex_cmp 8 ex_caps = true /\ NoDup (map fst ex_caps).
Proof. split; [vm_compute; reflexivity|]. repeat constructor; cbn; intuition discriminate. Qed.
Example C19_ex_answer : exists m, version_of Z ex_empty ex_cmp 8 ex_caps = Ok m /\
  has m 1 = true /\ has m 2 = false /\ has m 3 = false.
Proof. eexists. vm_compute. repeat split. Qed.
Example C19_ex_all_ok : all_ranges_ok Z ex_empty ex_cmp 8 ex_caps.
Proof.
  intros id rs r H Hr. cbn in H.
  destruct H as [H|[H|[H|[]]]]; injection H as H1 H2; subst; cbn in Hr; intuition (subst; reflexivity).
Qed.
Example C19_ex_equiv : caps_equiv Z ex_caps [(3, [(0, 0); (0, 3)]); (1, [(7, 0); (2, 5)]); (2, [])].
Proof.
  exists [(1, [(7, 0); (2, 5)]); (2, []); (3, [(0, 0); (0, 3)])]. split.
  - repeat constructor; cbn; apply perm_swap.
  - apply Permutation_sym. apply (Permutation_cons_app [_; _] []). apply Permutation_refl.
Qed.
(* an unparsable bound is an error only when it is evaluated: not for 3 (contained in the range before it),
   but for 6; an inverted and a zero-width range are errors *)
Example C19_ex_errors :
  (exists m, version_of Z ex_empty ex_cmp 3 [(1, [(2, 5); (13, 0)])] = Ok m /\ has m 1 = true) /\
  (exists m, version_of Z ex_empty ex_cmp 6 [(1, [(2, 5); (13, 0)])] = Err (3, 13, 6) m) /\
  (exists m, version_of Z ex_empty ex_cmp 3 [(1, [(5, 2)])] = Err (2, 5, 2) m) /\
  (exists m, version_of Z ex_empty ex_cmp 3 [(1, [(4, 4)])] = Err (2, 4, 4) m) /\
  (exists m, version_of Z ex_empty ex_cmp 3 [(1, [(4, 13)])] = Err (1, 4, 13) m) /\
  (exists m, version_of Z ex_empty ex_cmp 13 [(1, [(0, 4)])] = Err (3, 13, 4) m).
Proof. repeat split; eexists; vm_compute; repeat split. Qed.
Example C19_ex_grid : (length grid_indices = 70)%nat /\ 2500 <= matrix_determined.
Proof. split; [vm_compute; reflexivity|]. vm_compute. discriminate. Qed.

Print Assumptions C19_pairing.
Print Assumptions C19_contains.
Print Assumptions C19_has_exact.
Print Assumptions C19_set_on_existing.
Print Assumptions C19_has_per_object.
Print Assumptions C19_ok_iff.
Print Assumptions C19_no_ranges.
Print Assumptions C19_order_independent.
Print Assumptions C19_error_when_evaluated.
Print Assumptions C19_bad_ranges.
Print Assumptions C19_default_comparer_on_grid.
