(* C19 — the one obligation that depends on the comparer matrix regenerated from the code (Gen/GenC19.v):
   the default comparer agrees with the independent semantic-version ordering on the whole grid. *)
From Coq Require Import ZArith List Bool.
Import ListNotations.
From V Require Import Gen.GenC19 C19.Spec.
Open Scope Z_scope.

Lemma matrix_agrees_true : matrix_agrees = true.
Proof. vm_compute. reflexivity. Qed.

Lemma matrix_pair : forall a b, In a grid_indices -> In b grid_indices ->
  semver_agrees (g_str a) (g_str b) (g_cmp cmp_default a b) = true.
Proof.
  intros a b Ha Hb. pose proof matrix_agrees_true as H. unfold matrix_agrees in H.
  rewrite forallb_forall in H. specialize (H a Ha). rewrite forallb_forall in H. exact (H b Hb).
Qed.
