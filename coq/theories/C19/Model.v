(* C19 — executable model of /repo/capability: NewCapability (capability.go), VersionRange.contains
   (versionRange.go), Target.SetCapabilities / Target.Version (target.go), DefaultVersion.SetCapability /
   Has (defaultVersion.go).  The comparer (versionComparer.go: any func(a, b string) (int, error)) is
   ABSTRACT: a section variable  cmp : ver -> ver -> option Z  (None = the comparer returned an error);
   nothing is assumed about it.  The type of version strings is abstract as well (a section variable
   with the emptiness test  s == ""  and the zero value ""), so every theorem holds for Go strings in
   particular; the extracted model instantiates it with indices into the harness's grid of strings.
   No proofs in this file. *)
From Coq Require Import ZArith List Bool.
Import ListNotations.
Open Scope Z_scope.

Section Model.
Variable ver : Type.
Variable is_empty : ver -> bool.        (* s == "" *)
Variable empty : ver.                   (* "" : the zero value of the fields of VersionRange{} *)
Variable cmp : ver -> ver -> option Z.  (* VersionComparer; None = error *)

(* VersionRange{Introduced, Removed} *)
Definition range : Type := (ver * ver)%type.

(* errors of SetCapabilities, as (class, a, b):
   1 "Failed to compare lower and upper bound of VersionRange a -> b"   (comparer error on the two bounds)
   2 "VersionRange a -> b ... is invalid, lower bound is greater or equal to upper bound"
   3 "Received error comparing a against b"                             (comparer error inside contains) *)
Definition err : Type := (Z * ver * ver)%type.

(* ---- capability.go: NewCapability.  for i, s := range versionRanges { if i%2 == 0 { cur.Introduced = s;
   continue }; cur.Removed = s; append(cur); cur = VersionRange{} }; if cur.Introduced != "" { append(cur) } *)
Fixpoint nc_loop (i : Z) (l : list ver) (cur : range) (acc : list range) : range * list range :=
  match l with
  | [] => (cur, acc)
  | s :: r =>
      if Z.rem i 2 =? 0
      then nc_loop (i + 1) r (s, snd cur) acc
      else nc_loop (i + 1) r (empty, empty) (acc ++ [(fst cur, s)])
  end.

Definition new_capability (args : list ver) : list range :=
  let '(cur, acc) := nc_loop 0 args (empty, empty) [] in
  if negb (is_empty (fst cur)) then acc ++ [cur] else acc.

(* ---- versionRange.go: contains.  `lower` and `upper` are Go ints with zero value 0. *)
Inductive cres : Type :=
| COk (b : bool)
| CErr (e : err).

Definition contains_upper (i rm v : ver) (lower : Z) : cres :=
  if negb (is_empty rm) then
    match cmp v rm with
    | None => CErr (3, v, rm)
    | Some upper =>
        if is_empty i then COk (upper <? 0)
        else COk ((lower <=? 0) && (upper <? 0))
    end
  else COk ((lower <=? 0) && (0 <? 0)).

Definition contains (r : range) (v : ver) : cres :=
  let '(i, rm) := r in
  if is_empty i && is_empty rm then COk false
  else if negb (is_empty i) then
    match cmp i v with
    | None => CErr (3, i, v)
    | Some lower =>
        if is_empty rm then COk (lower <=? 0)
        else contains_upper i rm v lower
    end
  else contains_upper i rm v 0.

(* ---- target.go: the validity check SetCapabilities performs before calling contains *)
Definition check_range (r : range) : option err :=
  let '(i, rm) := r in
  if negb (is_empty i) && negb (is_empty rm) then
    match cmp i rm with
    | None => Some (1, i, rm)
    | Some c => if c >=? 0 then Some (2, i, rm) else None
    end
  else None.

(* ---- defaultVersion.go: capabilities map[*Capability]bool.  A capability is identified by its pointer,
   modelled as an integer id; the map is the list of SetCapability calls, newest first. *)
Definition log : Type := list (Z * bool).

Fixpoint has (m : log) (id : Z) : bool :=
  match m with
  | [] => false                                   (* canCap, ok := m[cap]; if !ok { return false } *)
  | (k, b) :: r => if k =? id then b else has r id
  end.

(* result of SetCapabilities: the error (if any) and the calls made on the Version so far *)
Inductive res : Type :=
| Ok (m : log)
| Err (e : err) (m : log).

(* inner loop over cap.VersionRanges *)
Fixpoint cap_loop (v : ver) (id : Z) (rs : list range) (m : log) : res :=
  match rs with
  | [] => Ok m
  | r :: rest =>
      match check_range r with
      | Some e => Err e m
      | None =>
          match contains r v with
          | CErr e => Err e m
          | COk true => Ok ((id, true) :: m)                       (* SetCapability(cap, true); break *)
          | COk false => cap_loop v id rest ((id, false) :: m)     (* SetCapability(cap, false) *)
          end
      end
  end.

(* outer loop over target.Capabilities: (pointer id, VersionRanges) *)
Fixpoint set_capabilities (v : ver) (caps : list (Z * list range)) (m : log) : res :=
  match caps with
  | [] => Ok m
  | (id, rs) :: rest =>
      match cap_loop v id rs m with
      | Ok m' => set_capabilities v rest m'
      | Err e m' => Err e m'
      end
  end.

(* Target.Version(spec): NewDefaultVersion(spec) has an empty map *)
Definition version_of (v : ver) (caps : list (Z * list range)) : res := set_capabilities v caps [].

(* ---- defaultVersion.go used directly by a caller.  `alive` = the map was allocated (NewDefaultVersion);
   the zero value DefaultVersion{} has a nil map: reading it (Has) answers false, the assignment
   v.capabilities[cap] = b in SetCapability panics.  Copies of a DefaultVersion value share the map. *)
Definition dv_set (alive : bool) (m : log) (id : Z) (b : bool) : option log :=   (* None = panic *)
  if alive then Some ((id, b) :: m) else None.

(* Target.SetCapabilities(v) on an existing Version whose SetCapability calls so far are m (the loops never
   read the map).  On a nil map the FIRST SetCapability call panics; everything in front of it (validity
   checks, comparisons, their errors) happens as usual. *)
Inductive sres : Type :=
| SRes (r : res)
| SPanic.

Definition set_capabilities_on (alive : bool) (v : ver) (caps : list (Z * list range)) (m : log) : sres :=
  if alive then SRes (set_capabilities v caps m)
  else match set_capabilities v caps [] with
       | Ok [] => SRes (Ok [])
       | Err e [] => SRes (Err e [])
       | _ => SPanic
       end.

End Model.

Arguments COk {ver}.
Arguments CErr {ver}.
Arguments Ok {ver}.
Arguments Err {ver}.
Arguments SRes {ver}.
Arguments SPanic {ver}.
