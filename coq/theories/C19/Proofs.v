(* C19 — lemmas: the model (C19/Model.v) against the specification (C19/Spec.v), for every type of version
   strings, every emptiness test and EVERY comparer (no assumption about cmp anywhere). *)
From Coq Require Import ZArith List Bool Lia Permutation.
Import ListNotations.
From V Require Import C19.Model C19.Spec.
Open Scope Z_scope.

Section Proofs.
Variable ver : Type.
Variable is_empty : ver -> bool.
Variable empty : ver.
Variable cmp : ver -> ver -> option Z.

Notation range := (ver * ver)%type.
Notation containsM := (contains ver is_empty cmp).
Notation checkM := (check_range ver is_empty cmp).
Notation cap_loopM := (cap_loop ver is_empty cmp).
Notation set_capsM := (set_capabilities ver is_empty cmp).
Notation versionM := (version_of ver is_empty cmp).
Notation in_rangeS := (in_range ver is_empty cmp).
Notation has_specS := (has_spec ver is_empty cmp).
Notation range_okS := (range_ok ver is_empty cmp).
Notation evaluatedS := (evaluated ver is_empty cmp).
Notation range_errorS := (range_error ver is_empty cmp).
Notation cap_okS := (cap_ok ver is_empty cmp).
Notation caps_okS := (caps_ok ver is_empty cmp).

(* ------------------------------------------------------------------ one range *)
Lemma geb_ltb : forall c, (c >=? 0) = negb (c <? 0).
Proof.
  intros c. rewrite Z.geb_leb.
  destruct (Z.ltb_spec c 0) as [H1|H1], (Z.leb_spec 0 c) as [H2|H2]; try reflexivity; lia.
Qed.

Lemma step_ok : forall v r, range_okS v r = true ->
  checkM r = None /\ containsM r v = COk (in_rangeS v r).
Proof.
  intros v [lo hi] H.
  unfold range_ok, wf_range, comparable, defined, lt_ok in H.
  unfold check_range, contains, contains_upper, in_range, le_ok, lt_ok.
  destruct (is_empty lo) eqn:El, (is_empty hi) eqn:Eh; cbn [negb andb orb] in *.
  - split; reflexivity.
  - destruct (cmp v hi) as [u|]; [|discriminate H]. split; reflexivity.
  - rewrite andb_true_r in H. destruct (cmp lo v) as [l|]; [|discriminate H]. split; reflexivity.
  - destruct (cmp lo hi) as [c|]; [|discriminate H].
    rewrite geb_ltb.
    destruct (c <? 0); [|discriminate H]. cbn [negb andb] in *.
    destruct (cmp lo v) as [l|]; [|discriminate H].
    destruct (cmp v hi) as [u|]; [|discriminate H].
    split; reflexivity.
Qed.

Lemma step_bad : forall v r, range_okS v r = false ->
  checkM r = Some (range_errorS v r) \/
  (checkM r = None /\ containsM r v = CErr (range_errorS v r)).
Proof.
  intros v [lo hi] H.
  unfold range_ok, wf_range, comparable, defined, lt_ok in H.
  unfold check_range, contains, contains_upper, range_error, defined, lt_ok.
  destruct (is_empty lo) eqn:El, (is_empty hi) eqn:Eh; cbn [negb andb orb] in *.
  - discriminate H.
  - destruct (cmp v hi) as [u|]; [discriminate H|]. right. split; reflexivity.
  - rewrite andb_true_r in H. destruct (cmp lo v) as [l|]; [discriminate H|]. right. split; reflexivity.
  - destruct (cmp lo hi) as [c|]; cbn [negb]; [|left; reflexivity].
    rewrite geb_ltb.
    destruct (c <? 0); cbn [negb andb] in *; [|left; reflexivity].
    right. split; [reflexivity|].
    destruct (cmp lo v) as [l|]; cbn [negb andb] in *; [|reflexivity].
    destruct (cmp v hi) as [u|]; [discriminate H|reflexivity].
Qed.

(* contains alone (versionRange.go) against the membership predicate *)
Lemma contains_spec : forall v r, comparable ver is_empty cmp v r = true ->
  containsM r v = COk (in_rangeS v r).
Proof.
  intros v [lo hi] H.
  unfold comparable, defined in H.
  unfold contains, contains_upper, in_range, le_ok, lt_ok.
  destruct (is_empty lo) eqn:El, (is_empty hi) eqn:Eh; cbn [negb andb orb] in *.
  - reflexivity.
  - destruct (cmp v hi) as [u|]; [|discriminate H]. reflexivity.
  - rewrite andb_true_r in H. destruct (cmp lo v) as [l|]; [|discriminate H]. reflexivity.
  - destruct (cmp lo v) as [l|]; [|discriminate H].
    destruct (cmp v hi) as [u|]; [|discriminate H].
    reflexivity.
Qed.

Lemma contains_error : forall v r, comparable ver is_empty cmp v r = false ->
  exists a b, containsM r v = CErr (3, a, b) /\ cmp a b = None.
Proof.
  intros v [lo hi] H.
  unfold comparable, defined in H.
  unfold contains, contains_upper.
  destruct (is_empty lo) eqn:El, (is_empty hi) eqn:Eh; cbn [negb andb orb] in *.
  - discriminate H.
  - destruct (cmp v hi) as [u|] eqn:E; [discriminate H|]. exists v, hi. split; [reflexivity|exact E].
  - rewrite andb_true_r in H. destruct (cmp lo v) as [l|] eqn:E; [discriminate H|]. exists lo, v. split; [reflexivity|exact E].
  - destruct (cmp lo v) as [l|] eqn:E1; [|exists lo, v; split; [reflexivity|exact E1]].
    destruct (cmp v hi) as [u|] eqn:E2; [discriminate H|]. exists v, hi. split; [reflexivity|exact E2].
Qed.

(* ------------------------------------------------------------------ evaluated ranges *)
Lemma evaluated_incl : forall v rs r, In r (evaluatedS v rs) -> In r rs.
Proof.
  intros v rs. induction rs as [|r0 rest IH]; intros r H.
  - exact H.
  - cbn [evaluated] in H. destruct H as [H|H]; [left; exact H|].
    destruct (negb (range_okS v r0) || in_rangeS v r0); [destruct H|].
    right. apply IH. exact H.
Qed.

Lemma bad_is_last : forall v rs r, In r (evaluatedS v rs) -> range_okS v r = false ->
  exists pre, evaluatedS v rs = pre ++ [r].
Proof.
  intros v rs. induction rs as [|r0 rest IH]; intros r H Hb.
  - destruct H.
  - cbn [evaluated] in *. destruct H as [H|H].
    + subst r0. rewrite Hb. cbn [negb orb]. exists []. reflexivity.
    + destruct (negb (range_okS v r0) || in_rangeS v r0); [destruct H|].
      destruct (IH r H Hb) as [pre E]. exists (r0 :: pre). rewrite E. reflexivity.
Qed.

Lemma forallb_false_ex : forall (A : Type) (f : A -> bool) (l : list A),
  forallb f l = false -> exists x, In x l /\ f x = false.
Proof.
  intros A f l. induction l as [|a l IH]; intros H.
  - discriminate H.
  - cbn [forallb] in H. destruct (f a) eqn:E.
    + destruct (IH H) as [x [Hx Hf]]. exists x. split; [right; exact Hx|exact Hf].
    + exists a. split; [left; reflexivity|exact E].
Qed.

(* ------------------------------------------------------------------ one capability *)
Lemma cap_loop_ok : forall v id rs m, cap_okS v rs = true ->
  exists m', cap_loopM v id rs m = Ok m' /\
    forall j, has m' j = if (j =? id) && negb (is_nil rs) then has_specS v rs else has m j.
Proof.
  intros v id rs. induction rs as [|r rest IH]; intros m H.
  - exists m. split; [reflexivity|]. intros j. cbn [is_nil negb]. rewrite andb_false_r. reflexivity.
  - unfold cap_ok in H. cbn [evaluated forallb] in H. apply andb_true_iff in H. destruct H as [Hr Ht].
    destruct (step_ok v r Hr) as [Hc Hk].
    cbn [cap_loop]. rewrite Hc, Hk. rewrite Hr in Ht. cbn [negb orb] in Ht.
    destruct (in_rangeS v r) eqn:Ein.
    + exists ((id, true) :: m). split; [reflexivity|]. intros j.
      cbn [has is_nil negb]. rewrite andb_true_r. unfold has_spec. cbn [existsb]. rewrite Ein. cbn [orb].
      rewrite (Z.eqb_sym id j). destruct (j =? id); reflexivity.
    + destruct (IH ((id, false) :: m) Ht) as [m' [E Hh]]. exists m'. split; [exact E|]. intros j.
      rewrite Hh. cbn [has is_nil negb]. rewrite andb_true_r. unfold has_spec. cbn [existsb]. rewrite Ein. cbn [orb].
      rewrite (Z.eqb_sym id j). destruct (j =? id); cbn [andb]; [|reflexivity].
      destruct rest as [|r1 rest1]; reflexivity.
Qed.

Lemma cap_loop_bad : forall v id rs m pre r,
  evaluatedS v rs = pre ++ [r] -> range_okS v r = false ->
  exists m', cap_loopM v id rs m = Err (range_errorS v r) m'.
Proof.
  intros v id rs. induction rs as [|r0 rest IH]; intros m pre r H Hb.
  - cbn [evaluated] in H. destruct pre; discriminate H.
  - cbn [evaluated] in H. destruct pre as [|p pre'].
    + cbn [app] in H. injection H as H1 H2. subst r0.
      cbn [cap_loop]. destruct (step_bad v r Hb) as [Hc|[Hc Hk]].
      * rewrite Hc. exists m. reflexivity.
      * rewrite Hc, Hk. exists m. reflexivity.
    + cbn [app] in H. injection H as H1 H2. subst p.
      destruct (negb (range_okS v r0) || in_rangeS v r0) eqn:E.
      * destruct pre'; discriminate H2.
      * apply orb_false_iff in E. destruct E as [E1 E2]. apply negb_false_iff in E1.
        destruct (step_ok v r0 E1) as [Hc Hk].
        cbn [cap_loop]. rewrite Hc, Hk, E2.
        exact (IH ((id, false) :: m) pre' r H2 Hb).
Qed.

Lemma cap_loop_fails : forall v id rs m, cap_okS v rs = false ->
  exists r m', In r (evaluatedS v rs) /\ range_okS v r = false /\ cap_loopM v id rs m = Err (range_errorS v r) m'.
Proof.
  intros v id rs m H. unfold cap_ok in H.
  destruct (forallb_false_ex _ _ _ H) as [r [Hin Hb]].
  destruct (bad_is_last v rs r Hin Hb) as [pre E].
  destruct (cap_loop_bad v id rs m pre r E Hb) as [m' Em].
  exists r, m'. split; [exact Hin|]. split; [exact Hb|exact Em].
Qed.

Definition log_of (r : res ver) : log := match r with Ok m => m | Err _ m => m end.

Lemma cap_loop_other : forall v id rs m j, j <> id -> has (log_of (cap_loopM v id rs m)) j = has m j.
Proof.
  intros v id rs. induction rs as [|r rest IH]; intros m j Hj.
  - reflexivity.
  - cbn [cap_loop]. destruct (checkM r) as [e|]; [reflexivity|].
    destruct (containsM r v) as [[|]|e]; [| |reflexivity].
    + cbn [log_of has]. destruct (Z.eqb_spec id j) as [E|E]; [congruence|reflexivity].
    + rewrite (IH ((id, false) :: m) j Hj). cbn [has].
      destruct (Z.eqb_spec id j) as [E|E]; [congruence|reflexivity].
Qed.

(* ------------------------------------------------------------------ all capabilities of a target *)
Fixpoint lookup (id : Z) (caps : list (Z * list range)) : option (list range) :=
  match caps with
  | [] => None
  | (k, rs) :: r => if k =? id then Some rs else lookup id r
  end.

Lemma lookup_in : forall id caps rs, lookup id caps = Some rs -> In (id, rs) caps.
Proof.
  intros id caps. induction caps as [|[k rs0] rest IH]; intros rs H.
  - discriminate H.
  - cbn [lookup] in H. destruct (Z.eqb_spec k id) as [E|E].
    + injection H as H. subst. left. reflexivity.
    + right. apply IH. exact H.
Qed.

Lemma lookup_none : forall id caps, ~ In id (map fst caps) -> lookup id caps = None.
Proof.
  intros id caps. induction caps as [|[k rs0] rest IH]; intros H.
  - reflexivity.
  - cbn [lookup]. cbn [map fst In] in H. destruct (Z.eqb_spec k id) as [E|E].
    + exfalso. apply H. left. exact E.
    + apply IH. intros Hin. apply H. right. exact Hin.
Qed.

Lemma functional_tail : forall (c : Z * list range) caps, functional ver (c :: caps) -> functional ver caps.
Proof.
  intros c caps H id rs rs' H1 H2. apply (H id rs rs'); right; assumption.
Qed.

Lemma in_lookup : forall id caps rs, functional ver caps -> In (id, rs) caps -> lookup id caps = Some rs.
Proof.
  intros id caps. induction caps as [|[k rs0] rest IH]; intros rs Hf H.
  - destruct H.
  - cbn [lookup]. destruct (Z.eqb_spec k id) as [E|E].
    + subst k. f_equal. apply (Hf id rs0 rs); [left; reflexivity|exact H].
    + destruct H as [H|H]; [injection H as H1 H2; contradiction|].
      apply IH; [exact (functional_tail _ _ Hf)|exact H].
Qed.

Lemma nodup_functional : forall caps : list (Z * list range), NoDup (map fst caps) -> functional ver caps.
Proof.
  intros caps. induction caps as [|[k rs0] rest IH]; intros H id rs rs' H1 H2.
  - destruct H1.
  - cbn [map fst] in H. inversion H as [|x l Hn Hd]. subst x l.
    destruct H1 as [H1|H1], H2 as [H2|H2].
    + congruence.
    + injection H1 as E1 E2. subst k. exfalso. apply Hn. apply in_map_iff. exists (id, rs'). split; [reflexivity|exact H2].
    + injection H2 as E1 E2. subst k. exfalso. apply Hn. apply in_map_iff. exists (id, rs). split; [reflexivity|exact H1].
    + exact (IH Hd id rs rs' H1 H2).
Qed.

Lemma set_caps_ok : forall v caps m, caps_okS v caps = true -> functional ver caps ->
  exists m', set_capsM v caps m = Ok m' /\
    forall j, has m' j = match lookup j caps with
                         | Some (r :: rs) => has_specS v (r :: rs)
                         | _ => has m j
                         end.
Proof.
  intros v caps. induction caps as [|[i rs] rest IH]; intros m Hok Hf.
  - exists m. split; [reflexivity|]. intros j. reflexivity.
  - unfold caps_ok in Hok. cbn [forallb snd] in Hok. apply andb_true_iff in Hok. destruct Hok as [Hc Hr].
    destruct (cap_loop_ok v i rs m Hc) as [m1 [E1 H1]].
    destruct (IH m1 Hr (functional_tail _ _ Hf)) as [m' [E2 H2]].
    exists m'. split; [cbn [set_capabilities]; rewrite E1; exact E2|].
    intros j. rewrite H2. cbn [lookup]. destruct (Z.eqb_spec i j) as [E|E].
    + subst j. destruct (lookup i rest) as [rs'|] eqn:El.
      * assert (rs' = rs) as Hrs.
        { apply (Hf i rs' rs); [right; apply lookup_in; exact El|left; reflexivity]. }
        subst rs'. destruct rs as [|r rs]; [|reflexivity].
        rewrite H1. cbn [is_nil negb]. rewrite andb_false_r. reflexivity.
      * rewrite H1. rewrite Z.eqb_refl. destruct rs as [|r rs]; reflexivity.
    + assert (has m1 j = has m j) as Hm.
      { rewrite H1. destruct (Z.eqb_spec j i) as [E'|E']; [congruence|reflexivity]. }
      destruct (lookup j rest) as [[|r' rs']|]; [exact Hm|reflexivity|exact Hm].
Qed.

Lemma set_caps_succeeds : forall v caps m, caps_okS v caps = true -> exists m', set_capsM v caps m = Ok m'.
Proof.
  intros v caps. induction caps as [|[i rs] rest IH]; intros m Hok.
  - exists m. reflexivity.
  - unfold caps_ok in Hok. cbn [forallb snd] in Hok. apply andb_true_iff in Hok. destruct Hok as [Hc Hr].
    destruct (cap_loop_ok v i rs m Hc) as [m1 [E1 H1]].
    destruct (IH m1 Hr) as [m' E2]. exists m'. cbn [set_capabilities]. rewrite E1. exact E2.
Qed.

Lemma set_caps_fails : forall v caps m, caps_okS v caps = false -> exists e m', set_capsM v caps m = Err e m'.
Proof.
  intros v caps. induction caps as [|[i rs] rest IH]; intros m H.
  - discriminate H.
  - unfold caps_ok in H. cbn [forallb snd] in H. cbn [set_capabilities].
    destruct (cap_okS v rs) eqn:Hc.
    + destruct (cap_loop_ok v i rs m Hc) as [m1 [E1 H1]]. rewrite E1. apply IH. exact H.
    + destruct (cap_loop_fails v i rs m Hc) as [r [m' [Hin [Hb E]]]]. rewrite E. exists (range_errorS v r), m'. reflexivity.
Qed.

Lemma set_caps_app : forall v pre post m,
  set_capsM v (pre ++ post) m =
  match set_capsM v pre m with Ok m1 => set_capsM v post m1 | Err e m1 => Err e m1 end.
Proof.
  intros v pre. induction pre as [|[i rs] rest IH]; intros post m.
  - reflexivity.
  - cbn [app set_capabilities]. destruct (cap_loopM v i rs m) as [m1|e m1]; [apply IH|reflexivity].
Qed.

Lemma set_caps_norange : forall v caps m id, (forall rs, In (id, rs) caps -> rs = []) ->
  has (log_of (set_capsM v caps m)) id = has m id.
Proof.
  intros v caps. induction caps as [|[i rs] rest IH]; intros m id H.
  - reflexivity.
  - cbn [set_capabilities].
    assert (forall rs0, In (id, rs0) rest -> rs0 = []) as Hrest.
    { intros rs0 Hin. apply H. right. exact Hin. }
    destruct (Z.eq_dec id i) as [E|E].
    + subst i. rewrite (H rs (or_introl eq_refl)). cbn [cap_loop]. apply IH. exact Hrest.
    + pose proof (cap_loop_other v i rs m id E) as Ho.
      destruct (cap_loopM v i rs m) as [m1|e m1]; cbn [log_of] in *.
      * rewrite (IH m1 id Hrest). exact Ho.
      * exact Ho.
Qed.

(* ------------------------------------------------------------------ the theorems *)
Lemma has_exact : forall v caps, functional ver caps -> caps_okS v caps = true ->
  exists m, versionM v caps = Ok m /\
    (forall id rs, In (id, rs) caps -> has m id = has_specS v rs) /\
    (forall id, ~ In id (map fst caps) -> has m id = false).
Proof.
  intros v caps Hf Hok. destruct (set_caps_ok v caps [] Hok Hf) as [m [E H]].
  exists m. split; [exact E|]. split.
  - intros id rs Hin. rewrite H. rewrite (in_lookup id caps rs Hf Hin).
    destruct rs as [|r rs]; reflexivity.
  - intros id Hn. rewrite H. rewrite (lookup_none id caps Hn). reflexivity.
Qed.

(* Target.SetCapabilities on a Version that already carries answers (general initial call list m): listed
   objects with ranges get the specification's answer, every other object keeps the answer it had *)
Lemma set_on_existing : forall v caps m, functional ver caps -> caps_okS v caps = true ->
  exists m', set_capsM v caps m = Ok m' /\
    (forall id r rs, In (id, r :: rs) caps -> has m' id = has_specS v (r :: rs)) /\
    (forall id, (forall rs, In (id, rs) caps -> rs = []) -> has m' id = has m id).
Proof.
  intros v caps m Hf Hok. destruct (set_caps_ok v caps m Hok Hf) as [m' [E H]].
  exists m'. split; [exact E|]. split.
  - intros id r rs Hin. rewrite H. rewrite (in_lookup id caps (r :: rs) Hf Hin). reflexivity.
  - intros id Hn. rewrite H. destruct (lookup id caps) as [[|r rs]|] eqn:El; [reflexivity| |reflexivity].
    apply lookup_in in El. specialize (Hn _ El). discriminate Hn.
Qed.

(* DefaultVersion: an answer belongs to the capability OBJECT it was set for *)
Lemma has_latest : forall (m : log) id b id', has ((id, b) :: m) id' = if id =? id' then b else has m id'.
Proof. intros m id b id'. reflexivity. Qed.

Lemma ok_iff : forall v caps, (exists m, versionM v caps = Ok m) <-> caps_okS v caps = true.
Proof.
  intros v caps. split.
  - intros [m E]. destruct (caps_okS v caps) eqn:H; [reflexivity|].
    destruct (set_caps_fails v caps [] H) as [e [m' E']]. unfold version_of in E. rewrite E' in E. discriminate E.
  - intros H. exact (set_caps_succeeds v caps [] H).
Qed.

Lemma no_ranges : forall v caps id, (forall rs, In (id, rs) caps -> rs = []) ->
  has (log_of (versionM v caps)) id = false.
Proof.
  intros v caps id H. unfold version_of. rewrite (set_caps_norange v caps [] id H). reflexivity.
Qed.

Lemma error_when_evaluated : forall v pre id rs post r,
  caps_okS v pre = true -> In r (evaluatedS v rs) -> range_okS v r = false ->
  exists m, versionM v (pre ++ (id, rs) :: post) = Err (range_errorS v r) m.
Proof.
  intros v pre id rs post r Hpre Hin Hb. unfold version_of. rewrite set_caps_app.
  destruct (set_caps_succeeds v pre [] Hpre) as [m1 E1]. rewrite E1.
  destruct (bad_is_last v rs r Hin Hb) as [p E].
  destruct (cap_loop_bad v id rs m1 p r E Hb) as [m' Em].
  exists m'. cbn [set_capabilities]. rewrite Em. reflexivity.
Qed.

(* the kinds of bad ranges the property names *)
Lemma inverted_not_ok : forall v lo hi c, is_empty lo = false -> is_empty hi = false ->
  cmp lo hi = Some c -> 0 <= c -> range_okS v (lo, hi) = false.
Proof.
  intros v lo hi c El Eh Ec Hc. unfold range_ok, wf_range, lt_ok. rewrite El, Eh, Ec. cbn [orb].
  destruct (Z.ltb_spec c 0) as [H|H]; [lia|reflexivity].
Qed.

Lemma unparsable_not_ok : forall v lo hi,
  (is_empty lo = false /\ is_empty hi = false /\ cmp lo hi = None) \/
  (is_empty lo = false /\ cmp lo v = None) \/
  (is_empty hi = false /\ cmp v hi = None) ->
  range_okS v (lo, hi) = false.
Proof.
  intros v lo hi [[El [Eh E]]|[[El E]|[Eh E]]]; unfold range_ok, wf_range, comparable, lt_ok, defined.
  - rewrite El, Eh, E. reflexivity.
  - rewrite El, E. cbn [orb andb]. apply andb_false_r.
  - rewrite Eh, E. cbn [orb]. rewrite andb_false_r. apply andb_false_r.
Qed.

(* ------------------------------------------------------------------ order independence *)
Lemma existsb_perm : forall (A : Type) (f : A -> bool) (l l' : list A), Permutation l l' -> existsb f l = existsb f l'.
Proof.
  intros A f l l' P. induction P as [|x l l' P IH|x y l|l l' l'' P1 IH1 P2 IH2].
  - reflexivity.
  - cbn [existsb]. rewrite IH. reflexivity.
  - cbn [existsb]. destruct (f x), (f y); reflexivity.
  - rewrite IH1. exact IH2.
Qed.

Lemma all_ok_caps_ok : forall v caps, all_ranges_ok ver is_empty cmp v caps -> caps_okS v caps = true.
Proof.
  intros v caps H. unfold caps_ok. apply forallb_forall. intros [id rs] Hin. cbn [snd].
  unfold cap_ok. apply forallb_forall. intros r Hr.
  apply (H id rs r Hin). exact (evaluated_incl v rs r Hr).
Qed.

Notation inner := (fun c d : Z * list range => fst c = fst d /\ Permutation (snd c) (snd d)).

Lemma forall2_fst : forall caps mid : list (Z * list range), Forall2 inner caps mid -> map fst caps = map fst mid.
Proof.
  intros caps mid F. induction F as [|c d l l' [H1 H2] F IH]; [reflexivity|].
  cbn [map]. rewrite H1, IH. reflexivity.
Qed.

Lemma forall2_fwd : forall (caps mid : list (Z * list range)) c, Forall2 inner caps mid -> In c caps ->
  exists d, In d mid /\ inner c d.
Proof.
  intros caps mid c F. induction F as [|c0 d0 l l' R F IH]; intros H.
  - destruct H.
  - destruct H as [H|H].
    + subst c0. exists d0. split; [left; reflexivity|exact R].
    + destruct (IH H) as [d [Hd Rd]]. exists d. split; [right; exact Hd|exact Rd].
Qed.

Lemma forall2_bwd : forall (caps mid : list (Z * list range)) d, Forall2 inner caps mid -> In d mid ->
  exists c, In c caps /\ inner c d.
Proof.
  intros caps mid d F. induction F as [|c0 d0 l l' R F IH]; intros H.
  - destruct H.
  - destruct H as [H|H].
    + subst d0. exists c0. split; [left; reflexivity|exact R].
    + destruct (IH H) as [c [Hc Rc]]. exists c. split; [right; exact Hc|exact Rc].
Qed.

Lemma perm_invariant : forall v (caps caps' : list (Z * list range)),
  NoDup (map fst caps) -> all_ranges_ok ver is_empty cmp v caps -> caps_equiv ver caps caps' ->
  exists m m', versionM v caps = Ok m /\ versionM v caps' = Ok m' /\ forall id, has m id = has m' id.
Proof.
  intros v caps caps' Hnd Hall [mid [F P]].
  (* caps' is as well-formed as caps *)
  assert (all_ranges_ok ver is_empty cmp v caps') as Hall'.
  { intros id rs' r Hin Hr.
    apply (Permutation_in _ (Permutation_sym P)) in Hin.
    destruct (forall2_bwd caps mid (id, rs') F Hin) as [[id0 rs] [Hc [E1 E2]]]. cbn [fst snd] in E1, E2. subst id0.
    apply (Hall id rs r Hc). exact (Permutation_in _ (Permutation_sym E2) Hr). }
  assert (Permutation (map fst caps) (map fst caps')) as Pids.
  { rewrite (forall2_fst caps mid F). apply Permutation_map. exact P. }
  assert (NoDup (map fst caps')) as Hnd' by exact (Permutation_NoDup Pids Hnd).
  destruct (has_exact v caps (nodup_functional caps Hnd) (all_ok_caps_ok v caps Hall)) as [m [E [Hin Hout]]].
  destruct (has_exact v caps' (nodup_functional caps' Hnd') (all_ok_caps_ok v caps' Hall')) as [m' [E' [Hin' Hout']]].
  exists m, m'. split; [exact E|]. split; [exact E'|].
  intros id. destruct (in_dec Z.eq_dec id (map fst caps)) as [Hi|Hi].
  - apply in_map_iff in Hi. destruct Hi as [[id0 rs] [E0 Hc]]. cbn [fst] in E0. subst id0.
    destruct (forall2_fwd caps mid (id, rs) F Hc) as [[id1 rs'] [Hd [E1 E2]]]. cbn [fst snd] in E1, E2. subst id1.
    apply (Permutation_in _ P) in Hd.
    rewrite (Hin id rs Hc), (Hin' id rs' Hd). unfold has_spec. apply existsb_perm. exact E2.
  - rewrite (Hout id Hi). symmetry. apply Hout'. intros Hi'. apply Hi.
    exact (Permutation_in _ (Permutation_sym Pids) Hi').
Qed.

(* ------------------------------------------------------------------ NewCapability *)
Notation ncF := (fun (i : Z) (l : list ver) (cur : range) (acc : list range) =>
  let '(c, a) := nc_loop ver empty i l cur acc in if negb (is_empty (fst c)) then a ++ [c] else a).

Lemma parity_next0 : forall i, 0 <= i -> Z.rem i 2 = 0 -> Z.rem (i + 1) 2 <> 0.
Proof.
  intros i Hi H. rewrite Z.rem_mod_nonneg in * by lia.
  pose proof (Z.div_mod i 2 ltac:(lia)) as D1. pose proof (Z.div_mod (i + 1) 2 ltac:(lia)) as D2. lia.
Qed.

Lemma parity_next1 : forall i, 0 <= i -> Z.rem i 2 <> 0 -> Z.rem (i + 1) 2 = 0.
Proof.
  intros i Hi H. rewrite Z.rem_mod_nonneg in * by lia.
  pose proof (Z.div_mod i 2 ltac:(lia)) as D1. pose proof (Z.div_mod (i + 1) 2 ltac:(lia)) as D2.
  pose proof (Z.mod_pos_bound i 2 ltac:(lia)) as B1. pose proof (Z.mod_pos_bound (i + 1) 2 ltac:(lia)) as B2. lia.
Qed.

Lemma nc_loop_spec : is_empty empty = true -> forall l,
  (forall i acc, 0 <= i -> Z.rem i 2 = 0 ->
     ncF i l (empty, empty) acc = acc ++ pair_up ver is_empty empty l) /\
  (forall i a acc, 0 <= i -> Z.rem i 2 <> 0 ->
     ncF i l (a, empty) acc = acc ++ pair_up ver is_empty empty (a :: l)).
Proof.
  intros He l. induction l as [|s r [IHe IHo]].
  - split.
    + intros i acc Hi Hp. cbn [nc_loop fst]. rewrite He. cbn [negb pair_up]. rewrite app_nil_r. reflexivity.
    + intros i a acc Hi Hp. cbn [nc_loop fst pair_up]. destruct (is_empty a); cbn [negb]; [rewrite app_nil_r|]; reflexivity.
  - split.
    + intros i acc Hi Hp. cbn [nc_loop]. rewrite Hp. cbn [Z.eqb snd].
      apply (IHo (i + 1) s acc); [lia|]. apply parity_next0; assumption.
    + intros i a acc Hi Hp. cbn [nc_loop]. destruct (Z.eqb_spec (Z.rem i 2) 0) as [E|E]; [contradiction|].
      pose proof (IHe (i + 1) (acc ++ [(a, s)]) ltac:(lia) (parity_next1 i Hi Hp)) as Hx.
      rewrite <- app_assoc in Hx. exact Hx.
Qed.

Lemma new_capability_spec : is_empty empty = true -> forall l,
  new_capability ver is_empty empty l = pair_up ver is_empty empty l.
Proof.
  intros He l. destruct (nc_loop_spec He l) as [H _].
  specialize (H 0 [] ltac:(lia) eq_refl). cbn [app] in H. exact H.
Qed.

End Proofs.
