(* C19 — independent executable specification, written from the property text:
   "A version reports a capability exactly when it lies in at least one of the capability's ranges, the
    lower bound being inclusive, the upper bound exclusive and a missing bound unbounded; capabilities with
    no range are never reported.  Inverted or zero-width ranges and versions or bounds the comparer cannot
    parse are reported as errors when they are evaluated, never as a silent answer, and for well-formed
    input the outcome does not depend on the order of ranges or capabilities."
   plus an independent ordering of semantic versions (semver.org section 11) used to cross-check the
   default comparer on the grid, plus the dispatch functions run / spec for the driver.
   No proofs in this file. *)
From Coq Require Import ZArith List Bool Permutation.
Import ListNotations.
From V Require Import Base.Tree C19.Model Gen.GenC19.
Open Scope Z_scope.

(* ------------------------------------------------------------------ the specification *)
Section Spec.
Variable ver : Type.
Variable is_empty : ver -> bool.
Variable empty : ver.
Variable cmp : ver -> ver -> option Z.

Definition srange : Type := (ver * ver)%type.     (* (lower bound, upper bound), a missing bound is "" *)

(* a <= b / a < b according to the comparer; an undefined comparison is not a positive answer *)
Definition le_ok (a b : ver) : bool := match cmp a b with Some c => c <=? 0 | None => false end.
Definition lt_ok (a b : ver) : bool := match cmp a b with Some c => c <? 0 | None => false end.
Definition defined (a b : ver) : bool := match cmp a b with Some _ => true | None => false end.

(* membership: lower inclusive, upper exclusive, missing bound unbounded, ("","") never *)
Definition in_range (v : ver) (r : srange) : bool :=
  let '(lo, hi) := r in
  match is_empty lo, is_empty hi with
  | true, true => false
  | false, true => le_ok lo v
  | true, false => lt_ok v hi
  | false, false => le_ok lo v && lt_ok v hi
  end.

Definition has_spec (v : ver) (rs : list srange) : bool := existsb (in_range v) rs.

(* well-formed range: when both bounds are present the lower one is strictly below the upper one
   (false for inverted and zero-width ranges and when the comparer cannot compare the bounds) *)
Definition wf_range (r : srange) : bool :=
  let '(lo, hi) := r in
  if is_empty lo || is_empty hi then true else lt_ok lo hi.

(* the version can be compared with every bound that is present *)
Definition comparable (v : ver) (r : srange) : bool :=
  let '(lo, hi) := r in
  (is_empty lo || defined lo v) && (is_empty hi || defined v hi).

Definition range_ok (v : ver) (r : srange) : bool := wf_range r && comparable v r.

(* EVALUATED ranges of a capability for version v: the ranges in list order up to and including the
   first one that either contains v or is not ok (nothing after it is looked at) *)
Fixpoint evaluated (v : ver) (rs : list srange) : list srange :=
  match rs with
  | [] => []
  | r :: rest => r :: (if negb (range_ok v r) || in_range v r then [] else evaluated v rest)
  end.

Definition cap_ok (v : ver) (rs : list srange) : bool := forallb (range_ok v) (evaluated v rs).
Definition caps_ok (v : ver) (caps : list (Z * list srange)) : bool := forallb (fun c => cap_ok v (snd c)) caps.

(* the error that must be reported for a range that is not ok, (class, a, b) in the order the checks are made:
   bounds not comparable, bounds inverted / equal, lower bound vs version, version vs upper bound *)
Definition range_error (v : ver) (r : srange) : Z * ver * ver :=
  let '(lo, hi) := r in
  if negb (is_empty lo) && negb (is_empty hi) && negb (defined lo hi) then (1, lo, hi)
  else if negb (is_empty lo) && negb (is_empty hi) && negb (lt_ok lo hi) then (2, lo, hi)
  else if negb (is_empty lo) && negb (defined lo v) then (3, lo, v)
  else (3, v, hi).

(* outcome for a whole target: an error iff some evaluated range of some capability is not ok,
   otherwise one answer per registered capability *)
Definition target_spec (v : ver) (caps : list (Z * list srange)) : option (list bool) :=
  if caps_ok v caps then Some (map (fun c => has_spec v (snd c)) caps) else None.

(* which error classes are acceptable for a bad range (the text only demands "an error") *)
Definition bad_classes (v : ver) (r : srange) : list Z :=
  let '(lo, hi) := r in
  let both := negb (is_empty lo) && negb (is_empty hi) in
  (if both && negb (defined lo hi) then [1] else []) ++
  (if both && defined lo hi && negb (lt_ok lo hi) then [2] else []) ++
  (if (negb (is_empty lo) && negb (defined lo v)) || (negb (is_empty hi) && negb (defined v hi)) then [3] else []).

Definition first_bad (v : ver) (caps : list (Z * list srange)) : option srange :=
  match find (fun c => negb (cap_ok v (snd c))) caps with
  | Some c => find (fun r => negb (range_ok v r)) (evaluated v (snd c))
  | None => None
  end.

(* pairing of version strings into ranges (doc comment of NewCapability): read in pairs; a last version
   without partner gets an empty upper bound; nothing is added for an empty last version *)
Fixpoint pair_up (l : list ver) : list srange :=
  match l with
  | a :: b :: r => (a, b) :: pair_up r
  | [a] => if is_empty a then [] else [(a, empty)]
  | [] => []
  end.

(* registered capabilities identified by ids: the same id denotes the same capability *)
Definition functional (caps : list (Z * list srange)) : Prop :=
  forall id rs rs', In (id, rs) caps -> In (id, rs') caps -> rs = rs'.

(* the same registered capabilities up to the order of the ranges inside each capability and the order of
   the capabilities *)
Definition caps_equiv (caps caps' : list (Z * list srange)) : Prop :=
  exists mid, Forall2 (fun c d => fst c = fst d /\ Permutation (snd c) (snd d)) caps mid /\ Permutation mid caps'.

(* well-formed input for version v: EVERY range of every capability is ok (not only the evaluated ones) *)
Definition all_ranges_ok (v : ver) (caps : list (Z * list srange)) : Prop :=
  forall id rs r, In (id, rs) caps -> In r rs -> range_ok v r = true.

End Spec.

(* ------------------------------------------------------------------ semantic versions, semver.org *)
Definition is_digit (c : Z) : bool := (48 <=? c) && (c <=? 57).
Definition is_alpha (c : Z) : bool := ((65 <=? c) && (c <=? 90)) || ((97 <=? c) && (c <=? 122)).
Definition is_ident_char (c : Z) : bool := is_digit c || is_alpha c || (c =? 45).
Definition is_nil {A} (l : list A) : bool := match l with [] => true | _ => false end.

(* strings.Split *)
Fixpoint split_on (sep : Z) (s : list Z) : list (list Z) :=
  match s with
  | [] => [[]]
  | c :: r =>
      let p := split_on sep r in
      if c =? sep then [] :: p
      else match p with h :: t => (c :: h) :: t | [] => [[c]] end
  end.

(* cut at the first separator *)
Fixpoint cut (sep : Z) (s : list Z) : list Z * option (list Z) :=
  match s with
  | [] => ([], None)
  | c :: r => if c =? sep then ([], Some r) else let '(a, b) := cut sep r in (c :: a, b)
  end.

Definition num_value (s : list Z) : Z := fold_left (fun a c => a * 10 + (c - 48)) s 0.
(* a numeric identifier without leading zero; the ordering is only claimed for numbers a Go int64 can hold
   (the default comparer refuses larger ones, semver.org sets no limit) *)
Definition strict_num (s : list Z) : bool :=
  negb (is_nil s) && forallb is_digit s && match s with 48 :: _ :: _ => false | _ => true end &&
  (num_value s <? 9223372036854775808).

Inductive ident : Type :=
| INum (n : Z)
| IAlpha (s : list Z).

Definition parse_ident (s : list Z) : option ident :=
  if is_nil s || negb (forallb is_ident_char s) then None
  else if forallb is_digit s then (if strict_num s then Some (INum (num_value s)) else None)
  else Some (IAlpha s).

Fixpoint all_some {A} (l : list (option A)) : option (list A) :=
  match l with
  | [] => Some []
  | Some a :: r => match all_some r with Some t => Some (a :: t) | None => None end
  | None :: _ => None
  end.

(* MAJOR.MINOR.PATCH[-pre.release][+build]: (major, minor, patch, pre-release identifiers) *)
Definition parse_semver (s : list Z) : option (Z * Z * Z * list ident) :=
  let '(cp, build) := cut 43 s in
  let build_ok := match build with
                  | None => true
                  | Some b => forallb (fun x => negb (is_nil x) && forallb is_ident_char x) (split_on 46 b)
                  end in
  let '(core, pre) := cut 45 cp in
  match split_on 46 core with
  | [a; b; c] =>
      if build_ok && strict_num a && strict_num b && strict_num c then
        match pre with
        | None => Some (num_value a, num_value b, num_value c, [])
        | Some p => match all_some (map parse_ident (split_on 46 p)) with
                    | Some ids => Some (num_value a, num_value b, num_value c, ids)
                    | None => None
                    end
        end
      else None
  | _ => None
  end.

Fixpoint lex_compare (a b : list Z) : comparison :=
  match a, b with
  | [], [] => Eq
  | [], _ => Lt
  | _, [] => Gt
  | x :: a', y :: b' => match x ?= y with Eq => lex_compare a' b' | c => c end
  end.

Definition compare_ident (a b : ident) : comparison :=
  match a, b with
  | INum x, INum y => x ?= y
  | INum _, IAlpha _ => Lt
  | IAlpha _, INum _ => Gt
  | IAlpha x, IAlpha y => lex_compare x y
  end.

Fixpoint compare_pre (p q : list ident) : comparison :=
  match p, q with
  | [], [] => Eq
  | [], _ => Lt
  | _, [] => Gt
  | a :: p', b :: q' => match compare_ident a b with Eq => compare_pre p' q' | c => c end
  end.

Definition compare_semver (x y : Z * Z * Z * list ident) : comparison :=
  let '(a1, b1, c1, p1) := x in
  let '(a2, b2, c2, p2) := y in
  match a1 ?= a2 with
  | Eq => match b1 ?= b2 with
          | Eq => match c1 ?= c2 with
                  | Eq => match p1, p2 with
                          | [], [] => Eq
                          | [], _ => Gt            (* a release is above its pre-releases *)
                          | _, [] => Lt
                          | _, _ => compare_pre p1 p2
                          end
                  | c => c
                  end
          | c => c
          end
  | c => c
  end.

Definition z_of_comparison (c : comparison) : Z := match c with Lt => -1 | Eq => 0 | Gt => 1 end.

(* characters no version notation of the default comparer uses: a string containing one, and the empty
   string, must be refused *)
Definition version_char (c : Z) : bool := is_ident_char c || (c =? 46) || (c =? 43) || (c =? 126).
Definition surely_unparsable (s : list Z) : bool := is_nil s || negb (forallb version_char s).

(* what the default comparer has to answer on (a, b), where the text determines it *)
Definition semver_expect (a b : list Z) : option (option Z) :=
  if surely_unparsable a || surely_unparsable b then Some None
  else match parse_semver a, parse_semver b with
       | Some x, Some y => Some (Some (z_of_comparison (compare_semver x y)))
       | _, _ => None
       end.

Definition opt_Z_eqb (a b : option Z) : bool :=
  match a, b with Some x, Some y => x =? y | None, None => true | _, _ => false end.

Definition semver_agrees (a b : list Z) (o : option Z) : bool :=
  match semver_expect a b with Some e => opt_Z_eqb e o | None => true end.

(* the harness's custom comparer "reverse lexicographic, refuses blanks, scaled" *)
Definition revlex_expect (a b : list Z) : option Z :=
  if existsb (Z.eqb 32) a || existsb (Z.eqb 32) b then None
  else Some (- z_of_comparison (lex_compare a b) * (1 + Z.of_nat (length a) mod 3)).

(* ------------------------------------------------------------------ instantiation on the grid *)
(* versions are indices (nat) into Gen.grid; index 0 is "" *)
Definition g_str (i : nat) : list Z := nth i grid [63].
Definition g_is_empty (i : nat) : bool := is_nil (g_str i).
Definition g_empty : nat := O.
Definition tab_of (cmpid : Z) : list (list (option Z)) :=
  match cmpid with 0 | 1 => cmp_default | 2 => cmp_revlex | _ => cmp_chaotic end.
Definition g_cmp (tab : list (list (option Z))) (a b : nat) : option Z := nth b (nth a tab []) None.

Definition grid_indices : list nat := seq 0 (length grid).

Definition t_nat (t : tree) : nat := Z.to_nat (t_int t).
Definition n_tree (n : nat) : tree := TI (Z.of_nat n).

Definition caps_args (t : tree) : list (Z * list nat) :=
  map (fun c => (t_int (t_nth 0 c), map t_nat (t_list (t_nth 1 c)))) (t_list t).

Definition err_tree (e : Z * nat * nat) : tree := let '(c, a, b) := e in TL [TI c; n_tree a; n_tree b].
Definition range_tree (r : nat * nat) : tree := TL [n_tree (fst r); n_tree (snd r)].

(* ---- model side *)
Definition m_caps (args : list (Z * list nat)) : list (Z * list (nat * nat)) :=
  map (fun c => (fst c, new_capability nat g_is_empty g_empty (snd c))) args.

Definition m_version (tab : list (list (option Z))) (args : list (Z * list nat)) (caps : list (Z * list (nat * nat))) (v : nat) : tree :=
  match version_of nat g_is_empty (g_cmp tab) v caps with
  | Ok m => TL [TI 0; TL (map (fun c => of_bool (has m (fst c))) args ++ [of_bool (has m (-1))])]
  | Err e _ => err_tree e
  end.

Definition m_log (tab : list (list (option Z))) (caps : list (Z * list (nat * nat))) (v : nat) : tree :=
  let entry (x : Z * bool) := TL [TI (fst x); of_bool (snd x)] in
  match version_of nat g_is_empty (g_cmp tab) v caps with
  | Ok m => TL (TL [TI 0] :: map entry (rev m))
  | Err e m => TL (err_tree e :: map entry (rev m))
  end.

(* ---- capability OBJECTS (fn 4, 5, 6, 7).  An object is (kind description args); its identity is its POSITION
   in the list of objects (the *Capability pointer), never its description (capability.go: "The description
   is optional and not used by this package"), so neither the model nor the specification ever looks at the
   description when answering Has.  kind 0: NewCapability(description, args...) with args a flat list of
   version strings; kind 1 / 2: struct literal &Capability{Description, VersionRanges} with args a list of
   (lo hi) pairs (kind 2: VersionRanges left nil).  A target lists objects by position ("slots"); the same
   object may be listed several times, objects that are not listed are not registered. *)
Definition pair_of (p : tree) : nat * nat := (t_nat (t_nth 0 p), t_nat (t_nth 1 p)).
Definition obj_ranges (pairing : list nat -> list (nat * nat)) (o : tree) : list (nat * nat) :=
  match t_int (t_nth 0 o) with
  | 0 => pairing (map t_nat (t_list (t_nth 2 o)))
  | _ => map pair_of (t_list (t_nth 2 o))
  end.
Definition obj_ids {A} (objs : list A) : list Z := map Z.of_nat (seq 0 (length objs)).
Definition caps_of (objs : list (list (nat * nat))) (slots : list Z) : list (Z * list (nat * nat)) :=
  map (fun s => (s, nth (Z.to_nat s) objs [])) slots.
Definition slots_of (t : tree) : list Z := map t_int (t_list t).
Fixpoint upd {A} (n : nat) (f : A -> A) (l : list A) : list A :=
  match l, n with
  | [], _ => []
  | x :: r, O => f x :: r
  | x :: r, S k => x :: upd k f r
  end.

Definition m_objs (t : tree) : list (list (nat * nat)) :=
  map (obj_ranges (new_capability nat g_is_empty g_empty)) (t_list t).

(* Target.Version(v), then Has for EVERY object (listed or not) *)
Definition m_version_obj (tab : list (list (option Z))) (objs : list (list (nat * nat))) (caps : list (Z * list (nat * nat))) (v : nat) : tree :=
  match version_of nat g_is_empty (g_cmp tab) v caps with
  | Ok m => TL [TI 0; TL (map (fun k => of_bool (has m k)) (obj_ids objs))]
  | Err e _ => err_tree e
  end.

(* a script of calls on ONE Version object (fn 5).  ops: (0 obj b) SetCapability, (1 obj) Has, (2 cmpid slots)
   Target{cmp, slots}.SetCapabilities(version), (3) VersionString, (4 obj) Has on a copy of the DefaultVersion
   value, (5 obj b) SetCapability through a pointer to such a copy (the copy shares the map), (6 obj lo hi)
   append VersionRange{lo, hi} to the object's VersionRanges.  State: the objects' ranges and the calls made. *)
Definition st_m : Type := (list (list (nat * nat)) * log)%type.
Definition m_step (alive : bool) (v : nat) (st : st_m) (op : tree) : st_m * tree :=
  let '(objs, m) := st in
  let a := t_int (t_nth 1 op) in
  match t_int (t_nth 0 op) with
  | 0 | 5 => match dv_set alive m a (t_bool (t_nth 2 op)) with
             | Some m' => ((objs, m'), TL [TI 0])
             | None => (st, TL [TI (-1)])
             end
  | 1 | 4 => (st, TL [of_bool (has m a)])
  | 2 => let caps := caps_of objs (slots_of (t_nth 2 op)) in
         match set_capabilities_on nat g_is_empty (g_cmp (tab_of a)) alive v caps m with
         | SRes (Ok m') => ((objs, m'), TL [TI 0])
         | SRes (Err e m') => ((objs, m'), err_tree e)
         | SPanic => (st, TL [TI (-1)])
         end
  | 3 => (st, TL [n_tree v])
  | 6 => ((upd (Z.to_nat a) (fun rs => rs ++ [(t_nat (t_nth 2 op), t_nat (t_nth 3 op))]) objs, m), TL [])
  | _ => (st, tbad)
  end.
Fixpoint m_script (alive : bool) (v : nat) (st : st_m) (ops : list tree) : list tree :=
  match ops with
  | [] => []
  | op :: r => let '(st', o) := m_step alive v st op in o :: m_script alive v st' r
  end.
(* version kind 3 is the zero value &DefaultVersion{} (nil map), every other kind wraps NewDefaultVersion *)
Definition alive_of (vkind : Z) : bool := negb (vkind =? 3).

(* VersionRange.String() = '%s' -> '%s';  Capability.String() = Capability %s -> (r1, r2, ...) *)
Definition quote_s (s : list Z) : list Z := 39 :: s ++ [39].
Definition arrow_s : list Z := [32; 45; 62; 32].
Definition range_str (r : nat * nat) : list Z := quote_s (g_str (fst r)) ++ arrow_s ++ quote_s (g_str (snd r)).
Fixpoint join_s (sep : list Z) (l : list (list Z)) : list Z :=
  match l with
  | [] => []
  | x :: r => match r with [] => x | _ => x ++ sep ++ join_s sep r end
  end.
Definition cap_str (desc : list Z) (rstrs : list (list Z)) : list Z :=
  [67; 97; 112; 97; 98; 105; 108; 105; 116; 121; 32] ++ desc ++ arrow_s ++ [40] ++ join_s [44; 32] rstrs ++ [41].

Definition run (fn : Z) (i : tree) : tree :=
  match fn with
  | 1 => let tab := tab_of (t_int (t_nth 0 i)) in
         let args := caps_args (t_nth 1 i) in
         let caps := m_caps args in
         TL (map (m_version tab args caps) grid_indices)
  | 2 => TL (map range_tree (new_capability nat g_is_empty g_empty (map t_nat (t_list i))))
  | 3 => let tab := tab_of (t_int (t_nth 0 i)) in
         let caps := m_caps (caps_args (t_nth 1 i)) in
         TL (map (fun v => m_log tab caps (t_nat v)) (t_list (t_nth 2 i)))
  | 4 => let tab := tab_of (t_int (t_nth 0 i)) in
         let objs := m_objs (t_nth 1 i) in
         let caps := caps_of objs (slots_of (t_nth 2 i)) in
         TL (map (m_version_obj tab objs caps) grid_indices)
  | 5 => TL (m_script (alive_of (t_int (t_nth 0 i))) (t_nat (t_nth 1 i)) (m_objs (t_nth 2 i), []) (t_list (t_nth 3 i)))
  | 6 => let rs := obj_ranges (new_capability nat g_is_empty g_empty) i in
         TL [TB (cap_str (t_bytes (t_nth 1 i)) (map range_str rs)); TL (map (fun r => TB (range_str r)) rs)]
  | 7 => let tab := tab_of (t_int (t_nth 0 i)) in
         let caps := caps_of (m_objs (t_nth 1 i)) (slots_of (t_nth 2 i)) in
         TL (map (fun v => m_log tab caps (t_nat v)) (t_list (t_nth 3 i)))
  | 9 => of_option TI (g_cmp (tab_of (t_int (t_nth 0 i))) (t_nat (t_nth 1 i)) (t_nat (t_nth 2 i)))
  | _ => tbad
  end.

(* ---- specification side (uses nothing of C19.Model) *)
(* the comparer the specification reasons with: for the default comparer the independent semantic-version
   ordering wherever it is determined (the regenerated matrix only for notations the ordering does not
   cover), for the reverse-lexicographic comparer its definition, for the chaotic one its table *)
Definition spec_default_tab : list (list (option Z)) :=
  map (fun a => map (fun b => match semver_expect (g_str a) (g_str b) with
                              | Some e => e
                              | None => g_cmp cmp_default a b
                              end) grid_indices) grid_indices.
Definition spec_revlex_tab : list (list (option Z)) :=
  map (fun a => map (fun b => revlex_expect (g_str a) (g_str b)) grid_indices) grid_indices.
Definition spec_tab_of (cmpid : Z) : list (list (option Z)) :=
  match cmpid with 0 | 1 => spec_default_tab | 2 => spec_revlex_tab | _ => cmp_chaotic end.

Definition s_caps (args : list (Z * list nat)) : list (Z * list (nat * nat)) :=
  map (fun c => (fst c, pair_up nat g_is_empty g_empty (snd c))) args.

Definition error_acceptable (tab : list (list (option Z))) (caps : list (Z * list (nat * nat))) (v : nat) (e : tree) : bool :=
  match e, first_bad nat g_is_empty (g_cmp tab) v caps with
  | TL [TI c; TI _; TI _], Some r => existsb (Z.eqb c) (bad_classes nat g_is_empty (g_cmp tab) v r)
  | _, _ => false
  end.

Definition s_version (tab : list (list (option Z))) (caps : list (Z * list (nat * nat))) (v : nat) (o : tree) : bool :=
  match target_spec nat g_is_empty (g_cmp tab) v caps with
  | Some bits => tree_eqb o (TL [TI 0; TL (map of_bool bits ++ [of_bool false])])
  | None => error_acceptable tab caps v o
  end.

(* value of the last call for id in a call sequence (oldest first) *)
Fixpoint last_call (id : Z) (calls : list tree) (acc : option bool) : option bool :=
  match calls with
  | [] => acc
  | c :: r => last_call id r (if t_int (t_nth 0 c) =? id then Some (t_bool (t_nth 1 c)) else acc)
  end.

Definition s_log (tab : list (list (option Z))) (caps : list (Z * list (nat * nat))) (v : nat) (o : tree) : bool :=
  match t_list o with
  | e :: calls =>
      match target_spec nat g_is_empty (g_cmp tab) v caps with
      | Some bits =>
          tree_eqb e (TL [TI 0]) &&
          forallb (fun cb => match last_call (fst (fst cb)) calls None with
                             | Some b => Bool.eqb b (snd cb)
                             | None => negb (snd cb) && is_nil (snd (fst cb))
                             end) (combine caps bits) &&
          forallb (fun c => existsb (fun cp => fst cp =? t_int (t_nth 0 c)) caps) calls
      | None => error_acceptable tab caps v e
      end
  | [] => false
  end.

(* ---- capability objects, specification side.  Every answer is judged per OBJECT: an object that is listed
   is reported exactly when the version lies in one of ITS ranges, an object that is not listed never. *)
Definition s_objs (t : tree) : list (list (nat * nat)) :=
  map (obj_ranges (pair_up nat g_is_empty g_empty)) (t_list t).

Definition s_version_obj (tab : list (list (option Z))) (objs : list (list (nat * nat))) (slots : list Z) (v : nat) (o : tree) : bool :=
  let caps := caps_of objs slots in
  match target_spec nat g_is_empty (g_cmp tab) v caps with
  | Some _ =>
      tree_eqb o (TL [TI 0; TL (map (fun k => of_bool (existsb (Z.eqb k) slots &&
                                                       has_spec nat g_is_empty (g_cmp tab) v (nth (Z.to_nat k) objs [])))
                                    (obj_ids objs))])
  | None => error_acceptable tab caps v o
  end.

(* what is known about the answers of a Version object: (object, Some answer) or (object, None) = not
   determined by the text (calls made before an error was reported); newest first; no entry = never set *)
Definition known : Type := list (Z * option bool).
Fixpoint k_get (k : known) (id : Z) : option bool :=
  match k with
  | [] => Some false
  | (j, x) :: r => if j =? id then x else k_get r id
  end.
Definition st_s : Type := (list (list (nat * nat)) * known)%type.
Definition is_ok_tree (o : tree) : bool := tree_eqb o (TL [TI 0]).
Definition is_panic_tree (o : tree) : bool := tree_eqb o (TL [TI (-1)]).
Definition with_ranges (caps : list (Z * list (nat * nat))) : list (Z * list (nat * nat)) :=
  filter (fun c => negb (is_nil (snd c))) caps.

(* Has answers the latest SetCapability for THAT object (false when there was none).  SetCapabilities gives
   every listed object that has ranges the answer of the specification and leaves every other object alone.
   A panic is tolerated only from the zero value DefaultVersion{} (outside the property; compared with the
   model only) and must leave the answers unchanged. *)
Definition s_step (alive : bool) (v : nat) (st : st_s) (op o : tree) : option st_s :=
  let '(objs, k) := st in
  let a := t_int (t_nth 1 op) in
  match t_int (t_nth 0 op) with
  | 0 | 5 => if is_ok_tree o then Some (objs, (a, Some (t_bool (t_nth 2 op))) :: k)
             else if negb alive && is_panic_tree o then Some st else None
  | 1 | 4 => match k_get k a with
             | Some b => if tree_eqb o (TL [of_bool b]) then Some st else None
             | None => if tree_eqb o (TL [TI 0]) || tree_eqb o (TL [TI 1]) then Some st else None
             end
  | 2 => let caps := caps_of objs (slots_of (t_nth 2 op)) in
         let tab := spec_tab_of a in
         if negb alive && is_panic_tree o then Some st
         else match target_spec nat g_is_empty (g_cmp tab) v caps with
              | Some bits =>
                  if is_ok_tree o
                  then Some (objs, map (fun cb => (fst (fst cb), Some (snd cb))) (filter (fun cb => negb (is_nil (snd (fst cb)))) (combine caps bits)) ++ k)
                  else None
              | None =>
                  if error_acceptable tab caps v o
                  then Some (objs, map (fun c => (fst c, None)) (with_ranges caps) ++ k)
                  else None
              end
  | 3 => if tree_eqb o (TL [n_tree v]) then Some st else None
  | 6 => if tree_eqb o (TL []) then Some (upd (Z.to_nat a) (fun rs => rs ++ [(t_nat (t_nth 2 op), t_nat (t_nth 3 op))]) objs, k)
         else None
  | _ => None
  end.
Fixpoint s_script (alive : bool) (v : nat) (st : st_s) (ops outs : list tree) : bool :=
  match ops, outs with
  | [], [] => true
  | op :: r, o :: r' => match s_step alive v st op o with
                        | Some st' => s_script alive v st' r r'
                        | None => false
                        end
  | _, _ => false
  end.

Fixpoint forallb2 {A B} (f : A -> B -> bool) (a : list A) (b : list B) : bool :=
  match a, b with
  | [], [] => true
  | x :: a', y :: b' => f x y && forallb2 f a' b'
  | _, _ => false
  end.

Definition spec (fn : Z) (i o : tree) : bool :=
  match fn with
  | 1 => let tab := spec_tab_of (t_int (t_nth 0 i)) in
         let caps := s_caps (caps_args (t_nth 1 i)) in
         forallb2 (s_version tab caps) grid_indices (t_list o)
  | 2 => tree_eqb o (TL (map range_tree (pair_up nat g_is_empty g_empty (map t_nat (t_list i)))))
  | 3 => let tab := spec_tab_of (t_int (t_nth 0 i)) in
         let caps := s_caps (caps_args (t_nth 1 i)) in
         forallb2 (fun v => s_log tab caps (t_nat v)) (t_list (t_nth 2 i)) (t_list o)
  | 4 => let tab := spec_tab_of (t_int (t_nth 0 i)) in
         let objs := s_objs (t_nth 1 i) in
         let slots := slots_of (t_nth 2 i) in
         forallb2 (s_version_obj tab objs slots) grid_indices (t_list o)
  | 5 => s_script (alive_of (t_int (t_nth 0 i))) (t_nat (t_nth 1 i)) (s_objs (t_nth 2 i), []) (t_list (t_nth 3 i)) (t_list o)
  | 6 => let rs := obj_ranges (pair_up nat g_is_empty g_empty) i in
         let rstrs := map t_bytes (t_list (t_nth 1 o)) in
         forallb2 (fun r t => list_Z_eqb t (range_str r)) rs rstrs &&
         list_Z_eqb (t_bytes (t_nth 0 o)) (cap_str (t_bytes (t_nth 1 i)) rstrs)
  | 7 => let tab := spec_tab_of (t_int (t_nth 0 i)) in
         let caps := caps_of (s_objs (t_nth 1 i)) (slots_of (t_nth 2 i)) in
         forallb2 (fun v => s_log tab caps (t_nat v)) (t_list (t_nth 3 i)) (t_list o)
  | 9 => let a := g_str (t_nat (t_nth 1 i)) in
         let b := g_str (t_nat (t_nth 2 i)) in
         let r := match o with TL [TI z] => Some (Some z) | TL [] => Some None | _ => None end in
         match r with
         | None => false
         | Some r =>
             match t_int (t_nth 0 i) with
             | 0 | 1 => semver_agrees a b r
             | 2 => opt_Z_eqb (revlex_expect a b) r
             | _ => true
             end
         end
  | _ => false
  end.

(* the default comparer's matrix agrees with the independent ordering wherever the text determines it *)
Definition matrix_agrees : bool :=
  forallb (fun a => forallb (fun b => semver_agrees (g_str a) (g_str b) (g_cmp cmp_default a b)) grid_indices) grid_indices.
(* number of pairs of the grid on which the independent ordering gives a definite answer *)
Definition matrix_determined : Z :=
  Z.of_nat (length (filter (fun ab => match semver_expect (g_str (fst ab)) (g_str (snd ab)) with Some _ => true | None => false end)
                           (list_prod grid_indices grid_indices))).
