(* Fragmentation independence of the parse-or-rollback loop, for ANY parse step that is "streamable"
   (hypotheses step_ok / step_neb / step_err below, which the concrete step gets from the package layer):
   cutting the bytes of a message into any number of non-empty packets (EOM on the last) yields the same
   events, in the same order, and the same final state as one packet, provided the one-packet run meets
   no parse error. *)
From Coq Require Import ZArith List Bool Lia.
Import ListNotations.
From V Require Import Base.Tree Base.Bytes Base.BytesFacts Base.Parser Rx.Model.
Open Scope Z_scope.

Section Frag.
Variable step : option lastpkg -> Z -> bytes -> sres.

Hypothesis step_ok : forall l tok body es l' r, step l tok body = SOk es l' r ->
  exists c, body = c ++ r /\ (forall r', step l tok (c ++ r') = SOk es l' r') /\
            (forall c', sprefix c' c -> step l tok c' = SNeb).
Hypothesis step_neb : forall l tok body, step l tok body = SNeb ->
  forall body' t, body = body' ++ t -> step l tok body' = SNeb.
Hypothesis step_err : forall l tok body es allc, step l tok body = SErr es allc ->
  forall more, exists allc', step l tok (body ++ more) = SErr es allc'.

Notation loop := (gen_loop step).
Definition run (l : option lastpkg) (b : bytes) (e : bool) : list ev * rxs := loop (S (length b)) b e l.

(* the one-shot run raises no parse error *)
Fixpoint cleanf (fuel : nat) (l : option lastpkg) (b : bytes) : bool :=
  match fuel with
  | O => true
  | S f => match b with
           | [] => true
           | tok :: body => match step l tok body with
                            | SOk _ l' r => cleanf f l' r
                            | SNeb => true
                            | SErr _ _ => false
                            end
           end
  end.
Definition clean (l : option lastpkg) (b : bytes) : bool := cleanf (S (length b)) l b.

Lemma loop_cons f tok body e l : loop (S f) (tok :: body) e l =
  match step l tok body with
  | SOk es l' r => let '(es2, st) := loop f r e l' in (es ++ es2, st)
  | SNeb => if e then ([], {| buf := []; eom := false; lastp := forget_done l |})
            else ([], {| buf := tok :: body; eom := e; lastp := l |})
  | SErr es allc => if allc && e then (es, {| buf := []; eom := false; lastp := forget_done l |})
                    else (es, {| buf := tok :: body; eom := e; lastp := l |})
  end.
Proof. reflexivity. Qed.
Lemma cleanf_cons f l tok body : cleanf (S f) l (tok :: body) =
  match step l tok body with SOk _ l' r => cleanf f l' r | SNeb => true | SErr _ _ => false end.
Proof. reflexivity. Qed.

Lemma step_progress l tok body es l' r : step l tok body = SOk es l' r -> (length r <= length body)%nat.
Proof.
  intros H. destruct (step_ok _ _ _ _ _ _ H) as [c [E _]]. rewrite E, app_length. lia.
Qed.

Lemma loop_fuel_irrel : forall f1 f2 b e l, (length b < f1)%nat -> (length b < f2)%nat -> loop f1 b e l = loop f2 b e l.
Proof.
  induction f1 as [|f1 IH]; intros f2 b e l H1 H2; [lia|]. destruct f2 as [|f2]; [lia|].
  destruct b as [|tok body]; [reflexivity|]. rewrite !loop_cons.
  destruct (step l tok body) as [es l' r| |es allc] eqn:Es; try reflexivity.
  pose proof (step_progress _ _ _ _ _ _ Es) as Hp. cbn [length] in H1, H2.
  rewrite (IH f2 r e l') by lia. reflexivity.
Qed.

Lemma cleanf_fuel_irrel : forall f1 f2 l b, (length b < f1)%nat -> (length b < f2)%nat -> cleanf f1 l b = cleanf f2 l b.
Proof.
  induction f1 as [|f1 IH]; intros f2 l b H1 H2; [lia|]. destruct f2 as [|f2]; [lia|].
  destruct b as [|tok body]; [reflexivity|]. rewrite !cleanf_cons.
  destruct (step l tok body) as [es l' r| |es allc] eqn:Es; try reflexivity.
  pose proof (step_progress _ _ _ _ _ _ Es) as Hp. cbn [length] in H1, H2. apply IH; lia.
Qed.

Lemma run_nil l e : run l [] e =
  (if e then ((if last_is_final_done l then [] else [EvSynthDone]), {| buf := []; eom := false; lastp := forget_done l |})
   else ([], {| buf := []; eom := false; lastp := l |})).
Proof. reflexivity. Qed.

Lemma run_ok l tok body e es l' r : step l tok body = SOk es l' r ->
  run l (tok :: body) e = let '(es2, st) := run l' r e in (es ++ es2, st).
Proof.
  intros Es. unfold run. cbn [length]. rewrite loop_cons, Es.
  pose proof (step_progress _ _ _ _ _ _ Es) as Hp.
  rewrite (loop_fuel_irrel (S (length body)) (S (length r))) by lia. reflexivity.
Qed.

Lemma run_neb l tok body e : step l tok body = SNeb ->
  run l (tok :: body) e = (if e then ([], {| buf := []; eom := false; lastp := forget_done l |})
                           else ([], {| buf := tok :: body; eom := e; lastp := l |})).
Proof. intros Es. unfold run. cbn [length]. rewrite loop_cons, Es. reflexivity. Qed.

Lemma clean_ok l tok body es l' r : step l tok body = SOk es l' r -> clean l (tok :: body) = clean l' r.
Proof.
  intros Es. unfold clean. cbn [length]. rewrite cleanf_cons, Es.
  pose proof (step_progress _ _ _ _ _ _ Es) as Hp. apply cleanf_fuel_irrel; lia.
Qed.

Lemma clean_err l tok body es allc : step l tok body = SErr es allc -> clean l (tok :: body) = false.
Proof. intros Es. unfold clean. cbn [length]. rewrite cleanf_cons, Es. reflexivity. Qed.

(* Key lemma: a non-final pass over b, followed by a pass over (what it left ++ more), equals one pass
   over (b ++ more). *)
Lemma run_split : forall n l b more e, (length b <= n)%nat ->
  clean l (b ++ more) = true ->
  let '(e1, s1) := run l b false in
  let '(e2, s2) := run (lastp s1) (buf s1 ++ more) e in
  run l (b ++ more) e = (e1 ++ e2, s2) /\ clean (lastp s1) (buf s1 ++ more) = true /\ eom s1 = false.
Proof.
  induction n as [|n IH]; intros l b more e Hn Hc.
  - destruct b as [|x b]; [|cbn in Hn; lia]. rewrite run_nil. cbn [buf lastp eom app].
    destruct (run l more e) as [e2 s2]. split; [reflexivity|]. split; [exact Hc|reflexivity].
  - destruct b as [|tok body].
    + rewrite run_nil. cbn [buf lastp eom app]. destruct (run l more e) as [e2 s2]. split; [reflexivity|]. split; [exact Hc|reflexivity].
    + destruct (step l tok body) as [es l' r| |es allc] eqn:Es.
      * destruct (step_ok _ _ _ _ _ _ Es) as [c [Ec [Kc Nc]]].
        assert (Es' : step l tok (body ++ more) = SOk es l' (r ++ more)).
        { rewrite Ec, <- app_assoc. apply Kc. }
        rewrite (run_ok _ _ _ _ _ _ _ Es).
        cbn [app] in Hc. rewrite (clean_ok _ _ _ _ _ _ Es') in Hc.
        assert (Hlen : (length r <= n)%nat).
        { pose proof (step_progress _ _ _ _ _ _ Es). cbn [length] in Hn. lia. }
        specialize (IH l' r more e Hlen Hc).
        destruct (run l' r false) as [e1 s1].
        destruct (run (lastp s1) (buf s1 ++ more) e) as [e2 s2].
        destruct IH as [IH1 [IH2 IH3]]. split; [|split; [exact IH2|exact IH3]].
        cbn [app]. rewrite (run_ok _ _ _ _ _ _ _ Es'). rewrite IH1. rewrite app_assoc. reflexivity.
      * rewrite (run_neb _ _ _ _ Es). cbn [buf lastp eom].
        destruct (run l ((tok :: body) ++ more) e) as [e2 s2]. split; [reflexivity|]. split; [exact Hc|reflexivity].
      * exfalso. destruct (step_err _ _ _ _ _ Es more) as [allc' Es'].
        cbn [app] in Hc. rewrite (clean_err _ _ _ _ _ Es') in Hc. discriminate.
Qed.

(* a message as packets: every chunk is non-empty, EOM on the last one only *)
Definition rx_chunk (s : rxs) (c : bytes) (e : bool) : list ev * rxs := run (lastp s) (buf s ++ c) (eom s || e).

Fixpoint rx_chunks (s : rxs) (chunks : list bytes) : list ev * rxs :=
  match chunks with
  | [] => ([], s)
  | [c] => rx_chunk s c true
  | c :: cs => let '(e1, s1) := rx_chunk s c false in let '(e2, s2) := rx_chunks s1 cs in (e1 ++ e2, s2)
  end.

Theorem fragmentation_independent : forall chunks s,
  chunks <> [] -> eom s = false -> clean (lastp s) (buf s ++ concat chunks) = true ->
  rx_chunks s chunks = rx_chunk s (concat chunks) true.
Proof.
  induction chunks as [|c cs IH]; intros s Hne He Hc; [congruence|].
  destruct cs as [|c2 cs].
  - cbn [rx_chunks concat]. rewrite app_nil_r. reflexivity.
  - remember (c2 :: cs) as rest eqn:Hrest.
    assert (Hrne : rest <> []) by (subst; discriminate).
    assert (Hunf : rx_chunks s (c :: rest) =
                   let '(e1, s1) := rx_chunk s c false in let '(e2, s2) := rx_chunks s1 rest in (e1 ++ e2, s2)).
    { subst rest. reflexivity. }
    rewrite Hunf. clear Hunf. unfold rx_chunk at 1. rewrite He. cbn [orb].
    cbn [concat] in Hc. rewrite app_assoc in Hc.
    pose proof (run_split (length (buf s ++ c)) (lastp s) (buf s ++ c) (concat rest) true (le_n _) Hc) as L.
    destruct (run (lastp s) (buf s ++ c) false) as [e1 s1].
    destruct (run (lastp s1) (buf s1 ++ concat rest) true) as [e2 s2] eqn:E2.
    destruct L as [L1 [L2 L3]].
    rewrite (IH s1 Hrne L3 L2).
    unfold rx_chunk. rewrite L3, He. cbn [orb]. rewrite E2.
    cbn [concat]. rewrite app_assoc, L1. reflexivity.
Qed.

End Frag.
