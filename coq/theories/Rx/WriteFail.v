(* Transport failure during a request write (C14, send side): the transport accepts the first k bytes of what the
   channel writes and then fails.  Model: the wire of the complete message from the tx model (C01); the send reports
   an error exactly when the failure falls inside the message, and what the transport accepted is a prefix of the
   complete wire.  No proofs in this file. *)
From Coq Require Import ZArith List Bool.
Import ListNotations.
From V Require Import Base.Tree Base.Bytes C15.Model C01.Model.
Open Scope Z_scope.

(* fn 13: input (ps (#chunk ...) k) ; output (class #accepted)   class 0 = sent, 1 = error *)
Definition writefail_run (i : tree) : tree :=
  let ps := t_int (t_nth 0 i) in
  let chunks := map t_bytes (t_list (t_nth 1 i)) in
  let k := t_int (t_nth 2 i) in
  match send_message ps 0 15 [chunks] {| tq := empty_pq; tnr := 0 |} with
  | Some (outs, _) => let w := concat outs in TL [TI (if k <? zlen w then 1 else 0); TB (ztake k w)]
  | None => TL [TI (-9); TB []]
  end.

Fixpoint is_prefix_b (a b : bytes) : bool :=
  match a, b with
  | [], _ => true
  | x :: a', y :: b' => (x =? y) && is_prefix_b a' b'
  | _ :: _, [] => false
  end.

Definition writefail_spec (i o : tree) : bool :=
  let ps := t_int (t_nth 0 i) in
  let chunks := map t_bytes (t_list (t_nth 1 i)) in
  let k := t_int (t_nth 2 i) in
  match send_message ps 0 15 [chunks] {| tq := empty_pq; tnr := 0 |} with
  | Some (outs, _) =>
    let w := concat outs in
    is_prefix_b (t_bytes (t_nth 1 o)) w && (t_int (t_nth 0 o) =? (if k <? zlen w then 1 else 0)) &&
    (zlen (t_bytes (t_nth 1 o)) =? Z.min k (zlen w))
  | None => false
  end.
