(* The consumer API of a channel (tds/channel.go NextPackage / NextPackageUntil, tds/eedError.go) over
   the queue of delivered packages.  A package is (token, fields); the callback is a function from the
   package to its answer.  Sequential view: packages already queued are always returned first (the
   non-blocking poll at the start of NextPackage); an empty queue yields the queued error, "no package
   ready" (wait = false) or Blocked (wait = true, nothing will come).  No proofs in this file. *)
From Coq Require Import ZArith List Bool.
Import ListNotations.
From V Require Import Base.Tree Base.Bytes Pkg.GenTypes Gen.GenPkg Pkg.Eed.
Open Scope Z_scope.

Definition dpkg := (Z * tree)%type.                 (* token, fields *)
Definition is_eed (p : dpkg) : bool := fst p =? tok_eed.
Definition is_done_final (p : dpkg) : bool :=
  ((fst p =? 253) || (fst p =? 254) || (fst p =? 255)) && (t_int (t_nth 0 (snd p)) =? c_done_final).

Inductive cbres := CbContinue | CbStop | CbEof | CbErr.          (* (false,nil) (true,nil) (_, io.EOF) (_, other error) *)

Inductive nres :=
| NPkg (p : dpkg)
| NNoPackage          (* ErrNoPackageReady *)
| NError              (* a queued connection / channel error, or the context's error *)
| NBlocked.           (* would wait for ever: excluded by the theorems *)

(* errs: number of queued errors *)
Definition next_package (q : list dpkg) (errs : nat) (wait : bool) : nres * list dpkg * nat :=
  match q with
  | p :: r => (NPkg p, r, errs)
  | [] => match errs with
          | S k => (NError, [], k)
          | O => if wait then (NBlocked, [], O) else (NNoPackage, [], O)
          end
  end.

Inductive ures :=
| UPkg (p : dpkg)                         (* (pkg, nil) *)
| UPkgEof (p : dpkg)                      (* (pkg, io.EOF): the callback asked for the next result set *)
| UNilEof                                 (* (nil, io.EOF): nil callback, first package was the final DONE *)
| UNil                                    (* (nil, nil): nil callback, drained to the final DONE *)
| UCbError (eeds : list tree)             (* callback error, wrapped; with the messages collected so far *)
| UFail (r : nres).                       (* NextPackage failed: error / no package / blocked *)

(* drain: NextPackageUntil(ctx, wait, isDoneFinal) — EEDs are skipped, stops at the final DONE *)
Fixpoint drain (fuel : nat) (q : list dpkg) (errs : nat) : option nres * list dpkg * nat :=
  match fuel with
  | O => (Some NBlocked, q, errs)
  | S f =>
    match next_package q errs true with
    | (NPkg p, r, e) => if is_eed p then drain f r e
                        else if is_done_final p then (None, r, e) else drain f r e
    | (x, r, e) => (Some x, r, e)
    end
  end.

(* NextPackageUntil with a callback (Some cb) or without (None); eeds = messages collected so far *)
(* the callback may depend on how many packages it has been shown before (nc): it is an arbitrary stateful function *)
Fixpoint until (fuel : nat) (q : list dpkg) (errs : nat) (wait : bool) (cb : option (nat -> dpkg -> cbres)) (nc : nat) (eeds : list tree)
  : ures * list dpkg * nat :=
  match fuel with
  | O => (UFail NBlocked, q, errs)
  | S f =>
    match next_package q errs wait with
    | (NPkg p, r, e) =>
      if is_eed p then until f r e true cb nc (eeds ++ [snd p])
      else match cb with
           | None =>
             if is_done_final p then (UNilEof, r, e)
             else match drain (S (length r)) r e with
                  | (None, r', e') => (UNil, r', e')
                  | (Some x, r', e') => (UFail x, r', e')
                  end
           | Some f_cb =>
             match f_cb nc p with
             | CbEof => (UPkgEof p, r, e)
             | CbErr =>
               if is_done_final p then (UCbError eeds, r, e)
               else (* the rest of the response is consumed by NextPackageUntil(ctx, wait, nil); whatever that call
                       returns is ignored (messages met while draining are not added to the error) *)
                    match until f r e true None O [] with
                    | (_, r', e') => (UCbError eeds, r', e')
                    end
             | CbStop => (UPkg p, r, e)
             | CbContinue => until f r e true cb (S nc) eeds
             end
           end
    | (x, r, e) => (UFail x, r, e)
    end
  end.

(* ---- rendering *)
Definition dpkg_tree (p : dpkg) : tree := TL [TI (if (fst p =? 254) || (fst p =? 255) then 253 else fst p); snd p].
Definition nres_code (r : nres) : Z := match r with NPkg _ => 0 | NNoPackage => 4 | NError => 5 | NBlocked => 6 end.
Definition ures_tree (u : ures) : tree :=
  match u with
  | UPkg p => TL [TI 0; dpkg_tree p]
  | UPkgEof p => TL [TI 1; dpkg_tree p]
  | UNilEof => TL [TI 2]
  | UNil => TL [TI 3]
  | UCbError eeds => TL [TI 7; TL (map (fun e => t_nth 0 e) eeds)]          (* message numbers of the collected EEDs *)
  | UFail r => TL [TI (nres_code r)]
  end.
