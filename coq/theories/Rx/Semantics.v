(* What a complete message means, at the level of its packages ("items"): the declarative reading of the
   receive loop used by C03 and C11.  A message that parses into the items its (one after the other, each
   with the context its predecessor leaves) produces exactly [item_events] of them, then the synthetic
   final DONE if the last delivered package is not one, and leaves the channel ready for the next message. *)
From Coq Require Import ZArith List Bool Lia.
Import ListNotations.
From V Require Import Base.Tree Base.Bytes Base.BytesFacts Base.Parser Pkg.GenTypes Gen.GenPkg
  Pkg.Iface Pkg.Eed Pkg.All Rx.Model Rx.Generic Rx.Proofs.
Open Scope Z_scope.

Section Sem.
Variables need nenv : nat.
Notation step := (rx_step need nenv).

(* the bytes b are exactly the packages whose parse steps yield (events, last) one after the other *)
Inductive parses : option lastpkg -> bytes -> list (list ev) -> option lastpkg -> Prop :=
| parses_nil l : parses l [] [] l
| parses_cons l tok body es l1 r ess l2 :
    step l tok body = SOk es l1 r -> parses l1 r ess l2 -> parses l (tok :: body) (es :: ess) l2.

Lemma parses_run : forall l b ess l2, parses l b ess l2 ->
  run step l b true =
  (concat ess ++ (if last_is_final_done l2 then [] else [EvSynthDone]),
   {| buf := []; eom := false; lastp := forget_done l2 |}).
Proof.
  intros l b ess l2 H. induction H as [l|l tok body es l1 r ess l2 Hs Hp IH].
  - rewrite run_nil. reflexivity.
  - rewrite (run_ok step (rx_step_ok need nenv) _ _ _ _ _ _ _ Hs). rewrite IH. cbn [concat]. rewrite app_assoc. reflexivity.
Qed.

(* ---- events of one parse step, read declaratively *)
Definition is_deliver (e : ev) : bool := match e with EvDeliver _ _ => true | EvSynthDone => true | _ => false end.
Definition is_eed_hook (i : Z) (e : ev) : bool := match e with EvEedHook j _ => j =? i | _ => false end.
Definition is_env_hook (i : Z) (e : ev) : bool := match e with EvEnvHook j _ _ _ => j =? i | _ => false end.

Lemma step_events_shape l tok body es l1 r : step l tok body = SOk es l1 r ->
  (* ENVCHANGE: only hook / packet-size / error events, nothing delivered, last package unchanged *)
  (tok = tok_envchange /\ l1 = l /\ forallb (fun e => negb (is_deliver e)) es = true) \/
  (* informational EED: nothing at all *)
  (tok = tok_eed /\ es = [] /\ l1 = l) \/
  (* any other package: delivered exactly once, after the EED hooks (each registered hook once, in order) *)
  (tok <> tok_envchange /\ exists fields lp lr,
     l1 = Some {| l_tok := tok; l_fields := fields; l_param := lp; l_row := lr |} /\
     es = (if tok =? tok_eed then hook_calls need (fun i => EvEedHook i fields) else []) ++ [EvDeliver tok fields]).
Proof.
  unfold rx_step. intros H.
  destruct (last_ctx tok l) as [[[ctx lparam] lrow]|]; [|discriminate].
  destruct (chan_dec tok ctx body) as [fields r0| |c r0|]; try discriminate.
  destruct (Z.eqb_spec tok tok_envchange) as [Ee|Ne].
  - left. inversion H; subst. split; [reflexivity|]. split; [reflexivity|].
    generalize (t_list fields). intros ms. induction ms as [|m ms IHm]; [reflexivity|]. cbn [env_members].
    assert (Hh : forall n typ o nv, forallb (fun e => negb (is_deliver e)) (hook_calls n (fun i => EvEnvHook i typ o nv)) = true).
    { intros n typ o nv. induction n as [|n IHn]; [reflexivity|]. cbn [hook_calls]. rewrite forallb_app, IHn. reflexivity. }
    destruct (t_int (t_nth 0 m) =? c_env_packsize).
    + destruct (atoi (t_bytes (t_nth 1 m))) as [n|]; [|reflexivity].
      destruct ((n <=? c_hdr_size) || (65535 <? n)); [reflexivity|].
      cbn [forallb is_deliver negb andb]. rewrite forallb_app, Hh, IHm. reflexivity.
    + rewrite forallb_app, Hh, IHm. reflexivity.
  - destruct ((tok =? tok_eed) && Z.testbit (t_int (t_nth 4 fields)) 1) eqn:Einfo.
    + right; left. apply andb_true_iff in Einfo. destruct Einfo as [Et _]. apply Z.eqb_eq in Et.
      inversion H; subst. repeat split; reflexivity.
    + right; right. split; [exact Ne|]. inversion H; subst. exists fields, lparam, lrow. split; reflexivity.
Qed.

(* every registered EED hook is called exactly once per delivered (non-informational) EED *)
Lemma hook_calls_filter n i fields : (0 <= i < Z.of_nat n) ->
  length (filter (is_eed_hook i) (hook_calls n (fun j => EvEedHook j fields))) = 1%nat.
Proof.
  induction n as [|n IH]; intros Hi; [lia|]. cbn [hook_calls]. rewrite filter_app, app_length. cbn [filter is_eed_hook].
  destruct (Z.eqb_spec (Z.of_nat n) i) as [E|NE].
  - cbn [length]. assert (Hz : filter (is_eed_hook i) (hook_calls n (fun j => EvEedHook j fields)) = []).
    { clear IH Hi. subst i. assert (Hlt : forall m, (m <= n)%nat -> filter (is_eed_hook (Z.of_nat n)) (hook_calls m (fun j => EvEedHook j fields)) = []).
      { induction m as [|m IHm]; intros Hm; [reflexivity|]. cbn [hook_calls]. rewrite filter_app, IHm by lia. cbn [filter is_eed_hook].
        replace (Z.of_nat m =? Z.of_nat n) with false by (symmetry; apply Z.eqb_neq; lia). reflexivity. }
      apply Hlt. lia. }
    rewrite Hz. reflexivity.
  - cbn [length]. rewrite IH by lia. reflexivity.
Qed.

(* ---------------------------------------------------------------- C03: one final DONE per message *)
Definition delivered (es : list ev) : list (Z * tree) :=
  flat_map (fun e => match e with EvDeliver t f => [(t, f)] | _ => [] end) es.
Definition final_pkg (p : Z * tree) : bool := is_done_tok (fst p) && (t_int (t_nth 0 (snd p)) =? c_done_final).
Definition no_done_last (l : option lastpkg) : Prop :=
  match l with Some lp => is_done_tok (l_tok lp) = false | None => True end.

Lemma delivered_app a b : delivered (a ++ b) = delivered a ++ delivered b.
Proof. unfold delivered. apply flat_map_app. Qed.

Lemma delivered_hooks n fields : delivered (hook_calls n (fun i => EvEedHook i fields)) = [].
Proof. induction n as [|n IH]; [reflexivity|]. cbn [hook_calls]. rewrite delivered_app, IH. reflexivity. Qed.

Lemma delivered_nondeliver es : forallb (fun e => negb (is_deliver e)) es = true -> delivered es = [].
Proof.
  induction es as [|e es IH]; [reflexivity|]. cbn [forallb]. intros H. apply andb_true_iff in H. destruct H as [H1 H2].
  cbn [delivered flat_map]. fold (delivered es). rewrite (IH H2). destruct e; cbn in H1; try discriminate; reflexivity.
Qed.

(* the last package remembered after a message = the last package it delivered (or what was remembered before) *)
Lemma parses_last : forall l b ess l2, parses l b ess l2 ->
  match rev (delivered (concat ess)) with
  | [] => l2 = l
  | (t, f) :: _ => exists lp lr, l2 = Some {| l_tok := t; l_fields := f; l_param := lp; l_row := lr |}
  end.
Proof.
  intros l b ess l2 H. induction H as [l|l tok body es l1 r ess l2 Hs Hp IH]; [reflexivity|].
  cbn [concat]. rewrite delivered_app, rev_app_distr.
  destruct (step_events_shape _ _ _ _ _ _ Hs) as [[Et [El Hnd]]|[[Et [Ees El]]|[Ne [fields [lp [lr [El Ees]]]]]]].
  - rewrite (delivered_nondeliver es Hnd). cbn [rev]. rewrite app_nil_r. subst l1. exact IH.
  - subst es l1. cbn [delivered flat_map rev]. rewrite app_nil_r. exact IH.
  - subst es. rewrite delivered_app.
    assert (Hh : delivered (if tok =? tok_eed then hook_calls need (fun i => EvEedHook i fields) else []) = []).
    { destruct (tok =? tok_eed); [apply delivered_hooks|reflexivity]. }
    rewrite Hh. cbn [app delivered flat_map rev].
    destruct (rev (delivered (concat ess))) as [|[t f] rest] eqn:Er.
    + cbn [app]. subst l2 l1. exists lp, lr. reflexivity.
    + cbn [app]. exact IH.
Qed.

(* A complete message (EOM), received in a state that remembers no DONE (which is what every complete message
   leaves behind): the delivered packages are the message's own deliveries followed by the synthetic final DONE
   exactly when its last delivery is not a final DONE; afterwards nothing is buffered and again no DONE is
   remembered.  In particular a message that delivers nothing (only informational messages / environment
   changes) always gets its final DONE. *)
Theorem message_final_done : forall l b ess l2, no_done_last l -> parses l b ess l2 ->
  let own := delivered (concat ess) in
  let ends_final := match rev own with p :: _ => final_pkg p | [] => false end in
  run step l b true =
    (concat ess ++ (if ends_final then [] else [EvSynthDone]),
     {| buf := []; eom := false; lastp := forget_done l2 |}) /\
  no_done_last (forget_done l2).
Proof.
  intros l b ess l2 Hinv H. cbv zeta. rewrite (parses_run l b ess l2 H). pose proof (parses_last l b ess l2 H) as Hl.
  split.
  - f_equal. f_equal. destruct (rev (delivered (concat ess))) as [|[t f] rest].
    + subst l2. unfold last_is_final_done. destruct l as [lp|]; [|reflexivity]. cbn in Hinv. rewrite Hinv. reflexivity.
    + destruct Hl as [lp [lr El]]. subst l2. reflexivity.
  - unfold forget_done, no_done_last. destruct l2 as [lp|]; [|exact I].
    destruct (is_done_tok (l_tok lp)) eqn:E; [exact I|exact E].
Qed.

End Sem.
