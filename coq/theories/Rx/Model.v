(* The receiving side of a channel (tds/channel.go WritePacket / tryParsePackage / handleSpecialPackage)
   over the unparsed bytes of the receive queue.  The queue itself is the flat FIFO that C15_fifo proves
   the concrete PacketQueue to be for exactly the operations used here (AddPacket, Byte/Bytes/typed reads,
   Position/SetPosition to roll back, DiscardUntilCurrentPosition, Reset).  No proofs in this file. *)
From Coq Require Import ZArith List Bool.
Import ListNotations.
From V Require Import Base.Tree Base.Bytes Base.Parser Pkg.GenTypes Gen.GenPkg Pkg.Iface Pkg.Field Pkg.Fmts Pkg.Done Pkg.Eed Pkg.RegCore Pkg.All.
Open Scope Z_scope.

(* what the channel remembers of the last DELIVERED package (lastPkgRx): token, fields, and the
   formats a PARAMS / ROW / ORDERBY package carries for its successors (paramFmt, rowFmt) *)
Record lastpkg := { l_tok : Z; l_fields : tree; l_param : option tree; l_row : option tree }.

Record rxs := { buf : bytes; eom : bool; lastp : option lastpkg }.
Definition rx_init : rxs := {| buf := []; eom := false; lastp := None |}.
(* the connection's packet size is threaded separately: see [size_after] *)

Inductive ev :=
| EvDeliver (tok : Z) (fields : tree)
| EvSynthDone
| EvHeaderOnly (hdr : tree)
| EvEedHook (hook : Z) (fields : tree)
| EvEnvHook (hook : Z) (typ : Z) (oldv newv : bytes)
| EvPackSize (n : Z)
| EvErr (code : Z).

Definition tok_orderby : Z := 169.  Definition tok_orderby2 : Z := 34.

(* the channel obtains its package from LookupPackage: tokens it does not know become a TokenlessPackage, whose
   ReadFrom swallows everything and always ends with not-enough-bytes (also for tokens of packages the
   registry models but LookupPackage does not return: CURCLOSE, OPTIONCMD, KEY, CONTROL) *)
Definition tokenless_name : list Z := [84;111;107;101;110;108;101;115;115;80;97;99;107;97;103;101].
Definition is_tokenless (tok : Z) : bool :=
  list_Z_eqb (fst (zassoc tok token_kind ([], false))) tokenless_name.
Definition chan_dec (tok : Z) (ctx : tree) (body : bytes) : pres tree :=
  if is_tokenless tok then PNeb else dec_run tok ctx body.

(* LastPkg of the package types that implement it: result = context tree for the decoder + the formats
   the new package will carry; None = "error in LastPkg" *)
Definition fmts_ctx (f : tree) : tree := TL [TI 1; f].
Definition last_ctx (tok : Z) (l : option lastpkg) : option (tree * option tree * option tree) :=
  if (tok =? tok_params) || (tok =? tok_row) then
    match l with
    | None => None
    | Some lp =>
      let pr : option (option tree * option tree) :=
        if (l_tok lp =? tok_paramfmt) || (l_tok lp =? tok_paramfmt2) then Some (Some (l_fields lp), None)
        else if (l_tok lp =? tok_rowfmt) || (l_tok lp =? tok_rowfmt2) then Some (None, Some (l_fields lp))
        else if l_tok lp =? tok_params then Some (l_param lp, None)
        else if l_tok lp =? tok_row then Some (None, l_row lp)
        else if (l_tok lp =? tok_orderby) || (l_tok lp =? tok_orderby2) then Some (None, l_row lp)
        else None in
      match pr with
      | None => None
      | Some (Some p, r) => Some (fmts_ctx p, Some p, r)
      | Some (None, Some r) => Some (fmts_ctx r, None, Some r)
      | Some (None, None) => None                      (* both paramFmt and rowFmt are nil *)
      end
    end
  else if (tok =? tok_orderby) || (tok =? tok_orderby2) then
    match l with
    | Some lp => if (l_tok lp =? tok_rowfmt) || (l_tok lp =? tok_rowfmt2)
                 then Some (fmts_ctx (l_fields lp), None, Some (l_fields lp)) else None
    | None => None
    end
  else Some (TL [], None, None).

(* strconv.Atoi: optional sign, at least one digit, digits only, must fit an int64 *)
Fixpoint digits_val (ds : bytes) (acc : Z) : option Z :=
  match ds with
  | [] => Some acc
  | d :: r => if (48 <=? d) && (d <=? 57) then digits_val r (acc * 10 + (d - 48)) else None
  end.
Definition atoi (s : bytes) : option Z :=
  let '(neg, ds) := match s with 43 :: r => (false, r) | 45 :: r => (true, r) | _ => (false, s) end in
  match ds with
  | [] => None
  | _ => match digits_val ds 0 with
         | None => None
         | Some v => let v' := if neg then - v else v in
                     if (-9223372036854775808 <=? v') && (v' <=? 9223372036854775807) then Some v' else None
         end
  end.

Fixpoint hook_calls {A} (n : nat) (mk : Z -> A) : list A :=
  match n with O => [] | S k => hook_calls k mk ++ [mk (Z.of_nat k)] end.

(* handleSpecialPackage for ENVCHANGE: per member: PACKSIZE is parsed and range checked (an error stops the
   processing of the remaining members), then the hooks are called *)
Fixpoint env_members (nenv : nat) (ms : list tree) : list ev :=
  match ms with
  | [] => []
  | m :: r =>
    let typ := t_int (t_nth 0 m) in
    let newv := t_bytes (t_nth 1 m) in
    let oldv := t_bytes (t_nth 2 m) in
    let hooks := hook_calls nenv (fun i => EvEnvHook i typ oldv newv) in
    if typ =? c_env_packsize then
      match atoi newv with
      | None => [EvErr 70]
      | Some n => if (n <=? c_hdr_size) || (65535 <? n) then [EvErr 71]
                  else EvPackSize n :: hooks ++ env_members nenv r
      end
    else hooks ++ env_members nenv r
  end.

Definition is_done_tok (t : Z) : bool := (t =? 253) || (t =? 254) || (t =? 255).
Definition last_is_final_done (l : option lastpkg) : bool :=
  match l with
  | Some lp => is_done_tok (l_tok lp) && (t_int (t_nth 0 (l_fields lp)) =? c_done_final)
  | None => false
  end.

(* one successful or failed attempt of tryParsePackage on a non-empty buffer (token :: body) *)
Inductive sres :=
| SOk (es : list ev) (l' : option lastpkg) (r : bytes)     (* parsed: events, new last package, unparsed rest *)
| SNeb                                                       (* not enough bytes (every byte was looked at) *)
| SErr (es : list ev) (allc : bool).                         (* error; allc: the failing attempt consumed everything *)

Definition forget_done (l : option lastpkg) : option lastpkg :=
  match l with Some lp => if is_done_tok (l_tok lp) then None else l | None => None end.

Definition rx_step (need nenv : nat) (l : option lastpkg) (tok : Z) (body : bytes) : sres :=
  match last_ctx tok l with
  | None => SErr [EvErr 60] (match body with [] => true | _ :: _ => false end)   (* error in LastPkg: only the token was consumed *)
  | Some (ctx, lparam, lrow) =>
    match chan_dec tok ctx body with
    | PNeb => SNeb
    | PErr c r => SErr [EvErr 61] (match r with [] => true | _ :: _ => false end)
    | PPanic => SErr [EvErr (-1)] false
    | POk fields r =>
      if tok =? tok_envchange then SOk (env_members nenv (t_list fields)) l r
      else if (tok =? tok_eed) && Z.testbit (t_int (t_nth 4 fields)) 1 then SOk [] l r          (* informational EED: dropped *)
      else
        let hooks := if tok =? tok_eed then hook_calls need (fun i => EvEedHook i fields) else [] in
        SOk (hooks ++ [EvDeliver tok fields])
            (Some {| l_tok := tok; l_fields := fields; l_param := lparam; l_row := lrow |}) r
    end
  end.

(* the parse loop of WritePacket after AddPacket, for any parse step; fuel = length of the buffer + 1 *)
Section Loop.
Variable step : option lastpkg -> Z -> bytes -> sres.

Fixpoint gen_loop (fuel : nat) (b : bytes) (e : bool) (l : option lastpkg) : list ev * rxs :=
  match fuel with
  | O => ([], {| buf := b; eom := e; lastp := l |})
  | S f =>
    match b with
    | [] =>
      (* Byte() fails: at the end of a message the final DONE is synthesised unless the last delivered package
         is one; the queue is reset and a remembered DONE forgotten; otherwise: wait for the next packet *)
      if e then ((if last_is_final_done l then [] else [EvSynthDone]), {| buf := []; eom := false; lastp := forget_done l |})
      else ([], {| buf := []; eom := false; lastp := l |})
    | tok :: body =>
      match step l tok body with
      | SOk es l' r => let '(es2, st) := gen_loop f r e l' in (es ++ es2, st)
      | SNeb =>
        (* at EOM the queue is reset (the incomplete data is dropped), otherwise the position is rolled back *)
        if e then ([], {| buf := []; eom := false; lastp := forget_done l |})
        else ([], {| buf := b; eom := e; lastp := l |})
      | SErr es allc =>
        (* reported; if the failing attempt consumed everything at the end of a message the queue is reset,
           otherwise the position is rolled back (the same error is raised again by the next packet) *)
        if allc && e then (es, {| buf := []; eom := false; lastp := forget_done l |})
        else (es, {| buf := b; eom := e; lastp := l |})
      end
    end
  end.
End Loop.

Definition rx_loop (fuel : nat) (need nenv : nat) (b : bytes) (e : bool) (l : option lastpkg) : list ev * rxs :=
  gen_loop (rx_step need nenv) fuel b e l.

(* WritePacket: a header-only packet is delivered as such; otherwise the data is appended and parsed *)
Record packet_in := { p_hdr : tree; p_len : Z; p_eom : bool; p_body : bytes }.

Definition rx_packet (need nenv : nat) (st : rxs) (p : packet_in) : list ev * rxs :=
  if p_len p =? c_hdr_size then ([EvHeaderOnly (p_hdr p)], st)
  else
    let b := buf st ++ p_body p in
    rx_loop (S (length b)) need nenv b (eom st || p_eom p) (lastp st).

Fixpoint rx_run (need nenv : nat) (st : rxs) (ps : list packet_in) : list (list ev) * rxs :=
  match ps with
  | [] => ([], st)
  | p :: r => let '(es, st1) := rx_packet need nenv st p in
              let '(ess, st2) := rx_run need nenv st1 r in (es :: ess, st2)
  end.

(* the packet size in force after a list of events (the last announced valid size wins) *)
Definition size_after (ps0 : Z) (es : list ev) : Z :=
  fold_left (fun ps e => match e with EvPackSize n => n | _ => ps end) es ps0.
Definition is_fatal (e : ev) : bool := match e with EvErr c => (c =? 60) || (c =? 61) || (c =? -1) | _ => false end.

(* ---- rendering for the harness *)
Definition ev_tree (e : ev) : tree :=
  match e with
  | EvDeliver tok f => TL [TI 1; TI (if is_done_tok tok then 253 else tok); f]   (* DoneProc/DoneInProc are aliases *)
  | EvSynthDone => TL [TI 1; TI 253; TL [TI 0; TI 0; TI 0]]       (* indistinguishable from a server DONE(0,0,0) *)
  | EvHeaderOnly h => TL [TI 3; h]
  | EvEedHook i f => TL [TI 4; TI i; f]
  | EvEnvHook i t o n => TL [TI 5; TI i; TI t; TB o; TB n]
  | EvPackSize n => TL [TI 6; TI n]
  | EvErr c => TL [TI 7; TI (if c =? -1 then -1 else 0)]
  end.
