From Coq Require Import ZArith List Bool Lia.
Import ListNotations.
From V Require Import Base.Tree Base.Bytes Base.BytesFacts Base.Parser Pkg.GenTypes Gen.GenPkg
  Pkg.Iface Pkg.Eed Pkg.All Pkg.AllProofs Rx.Model Rx.Generic.
Open Scope Z_scope.

(* ---------------------------------------------------------------- the channel's decoder is streamable *)
Lemma find_kind_In tok ks k : find_kind tok ks = Some k -> In k ks.
Proof.
  induction ks as [|k0 ks IH]; cbn [find_kind]; [discriminate|].
  destruct (tok =? k_tok k0); [intros H; inversion H; subst; left; reflexivity|intros H; right; apply IH; exact H].
Qed.

Lemma const_neb_streamable {A} : streamable (fun _ : bytes => @PNeb A).
Proof. split; intros; try discriminate; reflexivity. Qed.

Lemma chan_dec_streamable tok ctx : streamable (chan_dec tok ctx).
Proof.
  unfold chan_dec. destruct (is_tokenless tok); [apply const_neb_streamable|].
  unfold dec_run. destruct (find_kind tok kinds_all) as [k|] eqn:Ek.
  - pose proof kinds_all_streamable as Hs. unfold kinds_streamable in Hs. rewrite Forall_forall in Hs.
    apply (streamable_ext _ (k_dec k ctx)); [intros s; reflexivity|]. apply Hs. exact (find_kind_In _ _ _ Ek).
  - apply (streamable_ext _ (fail 999)); [intros s; reflexivity|apply streamable_fail].
Qed.

(* ---------------------------------------------------------------- the three hypotheses of Rx/Generic.v *)
Section Step.
Variables need nenv : nat.
Notation step := (rx_step need nenv).

Lemma rx_step_ok : forall l tok body es l' r, step l tok body = SOk es l' r ->
  exists c, body = c ++ r /\ (forall r', step l tok (c ++ r') = SOk es l' r') /\
            (forall c', sprefix c' c -> step l tok c' = SNeb).
Proof.
  intros l tok body es l' r H. unfold rx_step in *.
  destruct (last_ctx tok l) as [[[ctx lparam] lrow]|]; [|discriminate].
  destruct (chan_dec tok ctx body) as [fields r0| |c r0|] eqn:Ed; try discriminate.
  destruct (st_ok _ (chan_dec_streamable tok ctx) _ _ _ Ed) as [c [Ec [Kc Nc]]].
  assert (Hr : r0 = r /\ forall r', (if tok =? tok_envchange then SOk (env_members nenv (t_list fields)) l r'
      else if (tok =? tok_eed) && Z.testbit (t_int (t_nth 4 fields)) 1 then SOk [] l r'
      else SOk ((if tok =? tok_eed then hook_calls need (fun i => EvEedHook i fields) else []) ++ [EvDeliver tok fields])
               (Some {| l_tok := tok; l_fields := fields; l_param := lparam; l_row := lrow |}) r') = SOk es l' r').
  { destruct (tok =? tok_envchange); [inversion H; subst; split; [reflexivity|intros; reflexivity]|].
    destruct ((tok =? tok_eed) && Z.testbit (t_int (t_nth 4 fields)) 1); inversion H; subst; split; try reflexivity; intros; reflexivity. }
  destruct Hr as [Hr0 Hres]. subst r0. exists c. split; [exact Ec|]. split.
  - intros r'. rewrite Kc. apply Hres.
  - intros c' Hc. rewrite (Nc _ Hc). reflexivity.
Qed.

Lemma rx_step_neb : forall l tok body, step l tok body = SNeb ->
  forall body' t, body = body' ++ t -> step l tok body' = SNeb.
Proof.
  intros l tok body H body' t E. unfold rx_step in *.
  destruct (last_ctx tok l) as [[[ctx lparam] lrow]|]; [|discriminate].
  destruct (chan_dec tok ctx body) as [fields r0| |c r0|] eqn:Ed.
  - destruct (tok =? tok_envchange); [discriminate|].
    destruct ((tok =? tok_eed) && Z.testbit (t_int (t_nth 4 fields)) 1); discriminate.
  - rewrite (st_neb _ (chan_dec_streamable tok ctx) _ Ed _ _ E). reflexivity.
  - discriminate.
  - discriminate.
Qed.

Lemma rx_step_err : forall l tok body es allc, step l tok body = SErr es allc ->
  forall more, exists allc', step l tok (body ++ more) = SErr es allc'.
Proof.
  intros l tok body es allc H more. unfold rx_step in *.
  destruct (last_ctx tok l) as [[[ctx lparam] lrow]|]; [|inversion H; subst; eexists; reflexivity].
  destruct (chan_dec tok ctx body) as [fields r0| |c r0|] eqn:Ed.
  - destruct (tok =? tok_envchange); [discriminate|].
    destruct ((tok =? tok_eed) && Z.testbit (t_int (t_nth 4 fields)) 1); discriminate.
  - discriminate.
  - inversion H; subst. destruct (st_err _ (chan_dec_streamable tok ctx) _ _ _ Ed) as [c0 [Ec [Kc _]]].
    rewrite Ec, <- app_assoc, Kc. eexists. reflexivity.
  - exfalso. exact (st_nopanic _ (chan_dec_streamable tok ctx) _ Ed).
Qed.

(* ---------------------------------------------------------------- packets built from chunks *)
Definition mk_packet (c : bytes) (e : bool) : packet_in :=
  {| p_hdr := TL []; p_len := c_hdr_size + zlen c; p_eom := e; p_body := c |}.
Fixpoint mk_packets (chunks : list bytes) : list packet_in :=
  match chunks with
  | [] => []
  | [c] => [mk_packet c true]
  | c :: cs => mk_packet c false :: mk_packets cs
  end.

Lemma rx_packet_chunk st c e : c <> [] ->
  rx_packet need nenv st (mk_packet c e) = rx_chunk step st c e.
Proof.
  intros Hc. unfold rx_packet, mk_packet. cbn [p_len p_eom p_body].
  assert (Hl : 0 < zlen c) by (destruct c; [congruence|rewrite zlen_cons; pose proof (zlen_nonneg c); lia]).
  replace (c_hdr_size + zlen c =? c_hdr_size) with false by (symmetry; apply Z.eqb_neq; lia).
  reflexivity.
Qed.

Definition flat_run (st : rxs) (ps : list packet_in) : list ev * rxs :=
  let '(ess, st') := rx_run need nenv st ps in (concat ess, st').

Lemma flat_run_chunks : forall chunks st, Forall (fun c => c <> []) chunks ->
  flat_run st (mk_packets chunks) = rx_chunks step st chunks.
Proof.
  induction chunks as [|c cs IH]; intros st Hne; [reflexivity|].
  inversion Hne as [|? ? Hc Hcs]; subst. destruct cs as [|c2 cs].
  - unfold flat_run. cbn [mk_packets rx_run rx_chunks]. rewrite (rx_packet_chunk st c true Hc).
    destruct (rx_chunk step st c true) as [es st1]. cbn [concat]. rewrite app_nil_r. reflexivity.
  - remember (c2 :: cs) as rest eqn:Hrest.
    assert (Hm : mk_packets (c :: rest) = mk_packet c false :: mk_packets rest) by (subst rest; reflexivity).
    assert (Hr : rx_chunks step st (c :: rest) =
                 let '(e1, s1) := rx_chunk step st c false in let '(e2, s2) := rx_chunks step s1 rest in (e1 ++ e2, s2))
      by (subst rest; reflexivity).
    rewrite Hm, Hr. unfold flat_run. cbn [rx_run]. rewrite (rx_packet_chunk st c false Hc).
    destruct (rx_chunk step st c false) as [e1 s1].
    specialize (IH s1 Hcs). unfold flat_run in IH.
    destruct (rx_run need nenv s1 (mk_packets rest)) as [ess s2]. rewrite <- IH. reflexivity.
Qed.

(* every way of cutting the bytes of a message into non-empty packets gives the events and the final state
   of the single packet *)
Theorem rx_fragmentation_independent : forall chunks st,
  chunks <> [] -> Forall (fun c => c <> []) chunks -> eom st = false ->
  clean step (lastp st) (buf st ++ concat chunks) = true ->
  flat_run st (mk_packets chunks) = flat_run st (mk_packets [concat chunks]).
Proof.
  intros chunks st Hne Hall He Hc.
  assert (Hcat : concat chunks <> []).
  { destruct chunks as [|c cs]; [congruence|]. inversion Hall as [|? ? Hc1 _]; subst. cbn [concat]. destruct c; [congruence|discriminate]. }
  rewrite (flat_run_chunks chunks st Hall).
  assert (Hone : Forall (fun c : bytes => c <> []) [concat chunks]) by (constructor; [exact Hcat|constructor]).
  rewrite (flat_run_chunks [concat chunks] st Hone).
  cbn [rx_chunks]. apply (fragmentation_independent step rx_step_ok rx_step_err); assumption.
Qed.

End Step.
