(* The transport reader (tds/packetHeader.go PacketHeader.ReadFrom, tds/packet.go Packet.ReadFrom,
   tds/conn.go Conn.ReadFrom) over a scripted transport: a list of segments, one per Read call that
   returns data (a Read returns at most the rest of the current segment), and then a permanent failure
   (EOF or an error).  No proofs in this file. *)
From Coq Require Import ZArith List Bool.
Import ListNotations.
From V Require Import Base.Tree Base.Bytes Gen.GenPkg Rx.Model.
Open Scope Z_scope.

(* Read(p) with len p = want > 0 on the remaining segments: the data it returns (empty = the failure) *)
Definition read_once (want : Z) (segs : list bytes) : bytes * list bytes :=
  match segs with
  | [] => ([], [])
  | s :: r => if zlen s <=? want then (s, r) else (ztake want s, zdrop want s :: r)
  end.

(* io.ReadFull / the body loop of Packet.ReadFrom: keep reading until [want] bytes are there or the
   transport fails; fuel = want + 1 (every successful Read returns at least one byte) *)
Fixpoint read_exact (fuel : nat) (want : Z) (acc : bytes) (segs : list bytes) : option bytes * list bytes :=
  if want <=? 0 then (Some acc, segs) else
  match fuel with
  | O => (None, segs)
  | S f =>
    match segs with
    | [] => (None, [])                                     (* the transport failed before the bytes were complete *)
    | s :: r => let '(d, segs') := read_once want segs in
                read_exact f (want - zlen d) (acc ++ d) segs'
    end
  end.

Inductive item :=
| IPacket (p : packet_in)       (* a complete packet, routed to its channel *)
| IBadHeader                    (* header announcing a length below 8: reported, reading continues *)
| IFail.                        (* the transport ended / failed: reported (again and again) *)

Definition header_of (h : bytes) : Z * Z * Z * Z * Z * Z :=      (* type, status, length, channel, nr, window *)
  match h with
  | [t; s; l1; l2; c1; c2; n; w] => (t, s, 256 * l1 + l2, 256 * c1 + c2, n, w)
  | _ => (0, 0, 0, 0, 0, 0)
  end.

(* Conn.ReadFrom: packets until the transport fails; fuel bounds the number of packets by the bytes available *)
Fixpoint read_all (fuel : nat) (segs : list bytes) : list item :=
  match fuel with
  | O => [IFail]
  | S f =>
    match read_exact 9 c_hdr_size [] segs with
    | (None, _) => [IFail]
    | (Some h, segs1) =>
      let '(t, s, len, ch, nr, w) := header_of h in
      if len <? c_hdr_size then IBadHeader :: read_all f segs1
      else match read_exact (S (Z.to_nat (len - c_hdr_size))) (len - c_hdr_size) [] segs1 with
           | (None, _) => [IFail]
           | (Some body, segs2) =>
             IPacket {| p_hdr := TL [TI t; TI s; TI len; TI ch; TI nr; TI w]; p_len := len;
                        p_eom := Z.testbit s 0; p_body := body |} :: read_all f segs2
           end
    end
  end.

Definition read_script (segs : list bytes) : list item := read_all (S (length (concat segs))) segs.

(* the same on the byte stream itself, as a server produced it: what "the packets completely received" means *)
Fixpoint parse_stream (fuel : nat) (bs : bytes) : list item :=
  match fuel with
  | O => [IFail]
  | S f =>
    if zlen bs <? c_hdr_size then [IFail] else
    let '(t, s, len, ch, nr, w) := header_of (ztake c_hdr_size bs) in
    let rest := zdrop c_hdr_size bs in
    if len <? c_hdr_size then IBadHeader :: parse_stream f rest
    else if zlen rest <? len - c_hdr_size then [IFail]
    else IPacket {| p_hdr := TL [TI t; TI s; TI len; TI ch; TI nr; TI w]; p_len := len;
                    p_eom := Z.testbit s 0; p_body := ztake (len - c_hdr_size) rest |}
         :: parse_stream f (zdrop (len - c_hdr_size) rest)
  end.
