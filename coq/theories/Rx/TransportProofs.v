(* The packets the reader obtains do not depend on how the transport hands over the bytes: for every
   partition of the byte stream into non-empty Read results the reader yields exactly the packets of
   [parse_stream] on the stream, i.e. the packets completely contained in the bytes received, in order,
   and then the failure. *)
From Coq Require Import ZArith List Bool Lia.
Import ListNotations.
From V Require Import Base.Tree Base.Bytes Base.BytesFacts Gen.GenPkg Rx.Model Rx.Transport.
Open Scope Z_scope.

Definition nonempty_segs (segs : list bytes) : Prop := Forall (fun s => s <> []) segs.

Lemma zlen_pos_nonempty (s : bytes) : s <> [] -> 0 < zlen s.
Proof. destruct s; [congruence|]. intros _. rewrite zlen_cons. pose proof (zlen_nonneg s). lia. Qed.

Lemma read_exact_spec : forall fuel want acc segs, nonempty_segs segs -> 0 <= want -> (Z.to_nat want < fuel)%nat ->
  (want <= zlen (concat segs) ->
     exists segs', read_exact fuel want acc segs = (Some (acc ++ ztake want (concat segs)), segs') /\
                   concat segs' = zdrop want (concat segs) /\ nonempty_segs segs') /\
  (zlen (concat segs) < want -> exists segs', read_exact fuel want acc segs = (None, segs')).
Proof.
  induction fuel as [|f IH]; intros want acc segs Hne Hw Hf; [lia|].
  destruct (Z.leb_spec want 0) as [Hz|Hpos].
  - assert (want = 0) by lia. subst want. cbn [read_exact]. cbn [Z.leb Z.compare]. split.
    + intros _. exists segs. rewrite ztake_neg by lia. rewrite app_nil_r, zdrop_0. repeat split; auto.
    + intros H. pose proof (zlen_nonneg (concat segs)). lia.
  - cbn [read_exact]. replace (want <=? 0) with false by (symmetry; apply Z.leb_gt; lia).
    destruct segs as [|s r].
    + cbn [concat]. split; [intros H; cbn in H; lia|intros _; eexists; reflexivity].
    + inversion Hne as [|? ? Hs Hr]; subst. pose proof (zlen_pos_nonempty s Hs) as Hsl.
      cbn [read_once concat]. rewrite zlen_app.
      destruct (Z.leb_spec (zlen s) want) as [Hle|Hgt].
      * (* the whole segment is consumed *)
        destruct (IH (want - zlen s) (acc ++ s) r Hr ltac:(lia) ltac:(lia)) as [A B]. split.
        -- intros H. destruct A as [segs' [E [C N]]]; [lia|]. exists segs'. rewrite E. split; [|split; [|exact N]].
           ++ f_equal. f_equal. rewrite <- app_assoc. f_equal. rewrite ztake_app_r by lia. reflexivity.
           ++ rewrite C. rewrite zdrop_app_r by lia. reflexivity.
        -- intros H. destruct B as [segs' E]; [lia|]. exists segs'. exact E.
      * (* the Read is satisfied from inside the segment *)
        assert (Hd : zlen (ztake want s) = want) by (apply zlen_ztake; lia).
        rewrite Hd, Z.sub_diag.
        assert (E0 : forall a sg, read_exact f 0 a sg = (Some a, sg)) by (intros a sg; destruct f; reflexivity).
        rewrite E0. split.
        -- intros _. eexists. split; [|split].
           ++ f_equal. f_equal. f_equal. rewrite ztake_app_l by lia. reflexivity.
           ++ cbn [concat]. rewrite zdrop_app_l by lia. reflexivity.
           ++ constructor; [|exact Hr]. intros Hn. pose proof (zlen_zdrop want s ltac:(lia)) as Hz. rewrite Hn in Hz. cbn in Hz. lia.
        -- intros H. pose proof (zlen_nonneg (concat r)). lia.
Qed.

Theorem transport_independent : forall fuel segs, nonempty_segs segs ->
  read_all fuel segs = parse_stream fuel (concat segs).
Proof.
  induction fuel as [|f IH]; intros segs Hne; [reflexivity|].
  cbn [read_all parse_stream]. unfold c_hdr_size in *.
  destruct (read_exact_spec 9 8 [] segs Hne ltac:(lia) ltac:(cbn; lia)) as [A B].
  destruct (Z.ltb_spec (zlen (concat segs)) 8) as [Hshort|Hlong].
  - destruct (B Hshort) as [s' E]. rewrite E. reflexivity.
  - destruct (A Hlong) as [segs1 [E [C1 N1]]]. rewrite E. cbn [app].
    destruct (header_of (ztake 8 (concat segs))) as [[[[[t s] len] ch] nr] w].
    rewrite <- C1.
    destruct (Z.ltb_spec len 8) as [Hbad|Hok].
    + f_equal. apply IH. exact N1.
    + destruct (read_exact_spec (S (Z.to_nat (len - 8))) (len - 8) [] segs1 N1 ltac:(lia) ltac:(lia)) as [A2 B2].
      destruct (Z.ltb_spec (zlen (concat segs1)) (len - 8)) as [Hs2|Hl2].
      * destruct (B2 Hs2) as [s' E2]. rewrite E2. reflexivity.
      * destruct (A2 Hl2) as [segs2 [E2 [C2 N2]]]. rewrite E2. cbn [app]. f_equal. rewrite <- C2. apply IH. exact N2.
Qed.

(* the form used by C02 / C14: any two partitions of the same bytes are read alike *)
Corollary transport_partitions_agree : forall segs1 segs2, nonempty_segs segs1 -> nonempty_segs segs2 ->
  concat segs1 = concat segs2 -> read_script segs1 = read_script segs2.
Proof.
  intros s1 s2 H1 H2 E. unfold read_script. rewrite (transport_independent _ s1 H1), (transport_independent _ s2 H2), E. reflexivity.
Qed.
