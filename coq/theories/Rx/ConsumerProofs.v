(* Theorems about the consumer API model (Rx/Consumer.v): reading up to the final DONE consumes exactly
   one response; a failing callback consumes the rest of the response and reports the messages received
   before it failed. *)
From Coq Require Import ZArith List Bool Lia.
Import ListNotations.
From V Require Import Base.Tree Base.Bytes Pkg.GenTypes Gen.GenPkg Pkg.Eed Rx.Consumer.
Open Scope Z_scope.

(* a response as the consumer finds it in the queue: packages none of which is a final DONE, then the final DONE *)
Definition resp_ok (pre : list dpkg) (d : dpkg) : Prop :=
  Forall (fun p => is_done_final p = false) pre /\ is_done_final d = true /\ is_eed d = false.

Lemma done_not_eed d : is_done_final d = true -> is_eed d = false.
Proof.
  unfold is_done_final, is_eed, tok_eed. intros H. apply andb_true_iff in H. destruct H as [H _].
  destruct (Z.eqb_spec (fst d) 229) as [E|NE]; [|reflexivity]. rewrite E in H. discriminate.
Qed.

(* draining: everything up to and including the final DONE is consumed, nothing of what follows *)
Lemma drain_resp : forall pre d rest errs fuel, resp_ok pre d -> (length pre < fuel)%nat ->
  drain fuel (pre ++ d :: rest) errs = (None, rest, errs).
Proof.
  induction pre as [|p pre IH]; intros d rest errs fuel [Hpre [Hd He]] Hf.
  - destruct fuel as [|f]; [cbn in Hf; lia|]. cbn [app drain next_package]. rewrite He, Hd. reflexivity.
  - destruct fuel as [|f]; [cbn in Hf; lia|]. inversion Hpre as [|? ? Hp Hps]; subst.
    cbn [app drain next_package]. destruct (is_eed p); [apply IH; [repeat split; assumption|cbn in Hf; lia]|].
    rewrite Hp. apply IH; [repeat split; assumption|cbn in Hf; lia].
Qed.

Definition eeds_of (l : list dpkg) : list tree := map snd (filter is_eed l).

(* NextPackageUntil(ctx, wait, nil): exactly one response is consumed *)
Theorem until_nil_resp : forall pre d rest errs wait fuel eeds, resp_ok pre d -> (S (length pre) < fuel)%nat ->
  exists r, until fuel (pre ++ d :: rest) errs wait None O eeds = (r, rest, errs) /\ (r = UNil \/ r = UNilEof).
Proof.
  induction pre as [|p pre IH]; intros d rest errs wait fuel eeds Hr Hf; pose proof Hr as [Hpre [Hd He]].
  - destruct fuel as [|f]; [lia|]. cbn [app until next_package]. rewrite He, Hd. exists UNilEof. split; [reflexivity|right; reflexivity].
  - destruct fuel as [|f]; [lia|]. inversion Hpre as [|? ? Hp Hps]; subst.
    cbn [app until next_package]. destruct (is_eed p) eqn:Ep.
    + apply IH; [repeat split; assumption|cbn in Hf; lia].
    + rewrite Hp. rewrite (drain_resp pre d rest errs (S (length (pre ++ d :: rest)))); [|repeat split; assumption|rewrite app_length; cbn; lia].
      exists UNil. split; [reflexivity|left; reflexivity].
Qed.

(* a callback that is shown the packages of the response in order (messages are collected, not shown), answers
   "continue" for the packages in [a] and fails on x: the error carries exactly the messages received before x, in
   order, and the rest of the response — and nothing else — is consumed *)
Definition continues (cb : nat -> dpkg -> cbres) : nat -> list dpkg -> Prop :=
  fix go nc a := match a with
                 | [] => True
                 | p :: a' => if is_eed p then go nc a' else cb nc p = CbContinue /\ go (S nc) a'
                 end.
Definition shown (a : list dpkg) : nat := length (filter (fun p => negb (is_eed p)) a).

Theorem until_cb_error : forall a x b d rest cb errs wait fuel nc eeds,
  resp_ok (a ++ x :: b) d \/ (b = [] /\ x = d /\ resp_ok a d) ->
  is_eed x = false -> continues cb nc a -> cb (nc + shown a)%nat x = CbErr ->
  (2 * (length a + length b) + 4 < fuel)%nat ->
  until fuel (a ++ x :: (match b with [] => (if is_done_final x then [] else [d]) | _ => b ++ [d] end) ++ rest) errs wait (Some cb) nc eeds
  = (UCbError (eeds ++ eeds_of a), rest, errs).
Proof.
  induction a as [|p a IH]; intros x b d rest cb errs wait fuel nc eeds Hr Hx Hc Hcb Hf.
  - cbn [app shown filter length] in *. rewrite Nat.add_0_r in Hcb.
    destruct fuel as [|f]; [lia|]. cbn [until next_package]. rewrite Hx, Hcb. unfold eeds_of. cbn [filter map]. rewrite app_nil_r.
    destruct Hr as [[Hpre [Hd He]]|[Hb [Hxd [Hpre [Hd He]]]]].
    + inversion Hpre as [|? ? Hxf Hbf]; subst. rewrite Hxf.
      assert (Hq : (match b with [] => [d] | _ :: _ => b ++ [d] end) = b ++ [d]) by (destruct b; reflexivity).
      rewrite Hq, <- app_assoc. cbn [app].
      destruct (until_nil_resp b d rest errs true f [] (conj Hbf (conj Hd He)) ltac:(lia)) as [r [E _]].
      rewrite E. reflexivity.
    + subst b x. rewrite Hd. reflexivity.
  - cbn [app]. destruct fuel as [|f]; [lia|]. cbn [until next_package].
    assert (Hr' : resp_ok (a ++ x :: b) d \/ b = [] /\ x = d /\ resp_ok a d).
    { destruct Hr as [[Hpre [Hd He]]|[Hb [Hxd [Hpre [Hd He]]]]].
      - left. cbn [app] in Hpre. inversion Hpre; subst. repeat split; assumption.
      - right. inversion Hpre; subst. repeat split; try reflexivity; assumption. }
    destruct (is_eed p) eqn:Ep.
    + cbn [continues] in Hc. rewrite Ep in Hc.
      assert (Hs : shown (p :: a) = shown a) by (unfold shown; cbn [filter]; rewrite Ep; reflexivity).
      rewrite Hs in Hcb.
      rewrite (IH x b d rest cb errs true f nc (eeds ++ [snd p]) Hr' Hx Hc Hcb) by (cbn in Hf; lia).
      unfold eeds_of. cbn [filter]. rewrite Ep. cbn [map]. rewrite <- app_assoc. reflexivity.
    + cbn [continues] in Hc. rewrite Ep in Hc. destruct Hc as [Hcp Hc].
      assert (Hs : shown (p :: a) = S (shown a)) by (unfold shown; cbn [filter]; rewrite Ep; reflexivity).
      rewrite Hs in Hcb. replace (nc + S (shown a))%nat with (S nc + shown a)%nat in Hcb by lia.
      rewrite Hcp.
      rewrite (IH x b d rest cb errs true f (S nc) eeds Hr' Hx Hc Hcb) by (cbn in Hf; lia).
      unfold eeds_of. cbn [filter]. rewrite Ep. reflexivity.
Qed.
