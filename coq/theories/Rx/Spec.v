(* Rx: dispatch for the harness and the executable specification predicates of C02 / C03 / C11 at
   the packet level.  No proofs here. *)
From Coq Require Import ZArith List Bool.
Import ListNotations.
From V Require Import Base.Tree Base.Bytes Base.Parser Pkg.GenTypes Gen.GenPkg Pkg.Iface Pkg.Fmts Pkg.Eed Pkg.All Rx.Model Rx.Consumer Rx.Transport Rx.WriteFail.
Open Scope Z_scope.

Definition packet_of_tree (t : tree) : packet_in :=
  let body := t_bytes (t_nth 6 t) in
  let e := t_bool (t_nth 5 t) in
  let status := Z.lor (t_int (t_nth 1 t)) (if e then c_bufstat_eom else 0) in
  {| p_hdr := TL [t_nth 0 t; TI status; TI (c_hdr_size + zlen body); t_nth 2 t; t_nth 3 t; t_nth 4 t];
     p_len := c_hdr_size + zlen body; p_eom := e; p_body := body |}.

(* errors are listed last within a packet (the harness can only drain the error queue afterwards) *)
Definition is_err (e : ev) : bool := match e with EvErr _ => true | _ => false end.
Definition is_size (e : ev) : bool := match e with EvPackSize _ => true | _ => false end.
Definition canon (es : list ev) : list ev :=
  filter (fun e => negb (is_err e) && negb (is_size e)) es ++ filter is_err es.

(* run packets until one ends with a fatal error; per packet: (events, packet size afterwards) *)
Fixpoint run_pkts (need nenv : nat) (st : rxs) (ps0 : Z) (ps : list packet_in) : list (list ev * Z) :=
  match ps with
  | [] => []
  | p :: r =>
    let '(es, st1) := rx_packet need nenv st p in
    let sz := size_after ps0 es in
    (es, sz) :: (if existsb is_fatal es then [] else run_pkts need nenv st1 sz r)
  end.

(* the same with hooks registered on the way: regs = (packet index, more EED hooks, more ENVCHANGE hooks), applied just
   before the packet with that index is fed *)
Fixpoint run_pkts_regs (need nenv : nat) (st : rxs) (ps0 : Z) (idx : Z) (regs : list (Z * nat * nat)) (ps : list packet_in)
  : list (list ev * Z) :=
  match ps with
  | [] => []
  | p :: r =>
    let need' := fold_left (fun a x => if fst (fst x) =? idx then (a + snd (fst x))%nat else a) regs need in
    let nenv' := fold_left (fun a x => if fst (fst x) =? idx then (a + snd x)%nat else a) regs nenv in
    let '(es, st1) := rx_packet need' nenv' st p in
    let sz := size_after ps0 es in
    (es, sz) :: (if existsb is_fatal es then [] else run_pkts_regs need' nenv' st1 sz (idx + 1) regs r)
  end.

(* the same without stopping at a parse error: the reader goroutine keeps routing packets to the channel *)
Fixpoint run_pkts_cont (need nenv : nat) (st : rxs) (ps0 : Z) (ps : list packet_in) : list (list ev * Z) :=
  match ps with
  | [] => []
  | p :: r =>
    let '(es, st1) := rx_packet need nenv st p in
    let sz := size_after ps0 es in
    (es, sz) :: run_pkts_cont need nenv st1 sz r
  end.

(* malformed streams (fn 15, fn 16): rows and parameters are shown by their number of fields only (a mutated type byte can
   make a column of any type, and the harness can render values only by re-encoding them, which normalises some types) *)
Definition blank_data (e : ev) : ev :=
  match e with
  | EvDeliver tok f => if (tok =? tok_row) || (tok =? tok_params) then EvDeliver tok (TL [TI (zlen (t_list f))]) else e
  | _ => e
  end.
Definition blank_out (o : list (list ev * Z)) : list (list ev * Z) := map (fun x => (map blank_data (fst x), snd x)) o.

Definition out_tree (o : list (list ev * Z)) : tree :=
  TL (map (fun x => TL [TL (map ev_tree (canon (fst x))); TI (snd x)]) o).

(* ---- C02: the same events as when every message arrives in ONE packet *)
(* group the packets of a run into messages: a message ends with its EOM packet; header-only packets stand alone *)
Fixpoint group_msgs (cur : list packet_in) (ps : list packet_in) : list (list packet_in) :=
  match ps with
  | [] => match cur with [] => [] | _ => [rev cur] end
  | p :: r =>
    if p_len p =? c_hdr_size then
      (* between messages it stands alone; INSIDE a message (packetisations with empty packets) it belongs to it *)
      match cur with [] => [[p]] ++ group_msgs [] r | _ => group_msgs (p :: cur) r end
    else if p_eom p then [rev (p :: cur)] ++ group_msgs [] r
    else group_msgs (p :: cur) r
  end.
Definition merge_msg (g : list packet_in) : packet_in :=
  match g with
  | [p] => p
  | _ => let body := concat (map p_body g) in
         {| p_hdr := TL []; p_len := c_hdr_size + zlen body; p_eom := existsb p_eom g; p_body := body |}
  end.
(* the implementation's per-packet event trees, regrouped per message (errors moved last) *)
Definition ev_is_err_tree (t : tree) : bool := match t with TL (TI 7 :: _) => true | _ => false end.
Definition ev_is_ho_tree (t : tree) : bool := match t with TL (TI 3 :: _) => true | _ => false end.
Fixpoint regroup (outs : list tree) (groups : list (list packet_in)) : list (list tree) :=
  match groups with
  | [] => []
  | g :: r =>
    let n := length g in
    let mine := firstn n outs in
    let evs0 := concat (map (fun o => t_list (t_nth 0 o)) mine) in
    (* header-only packets inside a message: their markers are counted separately (ho_markers) *)
    let evs := match g with [_] => evs0 | _ => filter (fun t => negb (ev_is_ho_tree t)) evs0 end in
    (filter (fun t => negb (ev_is_err_tree t)) evs ++ filter ev_is_err_tree evs) :: regroup (skipn n outs) r
  end.
(* every header-only packet is reported by exactly one marker, nothing else is *)
Definition ho_markers (outs : list tree) : nat :=
  length (filter ev_is_ho_tree (concat (map (fun o => t_list (t_nth 0 o)) outs))).
Definition ho_packets (ps : list packet_in) : nat := length (filter (fun p => p_len p =? c_hdr_size) ps).

Definition spec_fragmentation (need nenv : nat) (ps0 : Z) (pkts : list packet_in) (o : tree) : bool :=
  let groups := group_msgs [] pkts in
  let oneshot := run_pkts need nenv rx_init ps0 (map merge_msg groups) in
  if existsb (fun x => existsb is_err (fst x)) oneshot then true     (* not a clean response: nothing claimed *)
  else
    let want := map (fun x => map ev_tree (canon (fst x))) oneshot in
    let got := regroup (t_list o) groups in
    (length want =? length got)%nat &&
    (ho_markers (t_list o) =? ho_packets pkts)%nat &&
    forallb (fun wg => tree_eqb (TL (fst wg)) (TL (snd wg))) (combine want got).

(* ---- consumer level (fn 12) *)
(* what the events of a packet put into the package queue / the error queue *)
Definition queue_of_events (es : list ev) : list dpkg * nat :=
  fold_left (fun acc e => match e with
                          | EvDeliver tok f => (fst acc ++ [(tok, f)], snd acc)
                          | EvSynthDone => (fst acc ++ [(253, TL [TI 0; TI 0; TI 0])], snd acc)
                          | EvHeaderOnly h => (fst acc ++ [(-3, h)], snd acc)
                          | EvErr _ => (fst acc, S (snd acc))
                          | _ => acc
                          end) es ([], O).

(* outcomes: 1 (true, nil); 2 (false, io.EOF); 3 (false, error); 4 (true, error); 5 (true, io.EOF): the error decides *)
Definition call_cb (k outcome : Z) : option (nat -> dpkg -> cbres) :=
  Some (fun nc _ => if (outcome =? 0) then CbContinue
                    else if Z.of_nat nc =? k then (if outcome =? 1 then CbStop else if (outcome =? 2) || (outcome =? 5) then CbEof else CbErr)
                    else CbContinue).

Definition run_call (q : list dpkg) (errs : nat) (c : tree) : tree * list dpkg * nat :=
  let kind := t_int (t_nth 0 c) in
  if kind =? 0 then
    match next_package q errs false with
    | (NPkg p, r, e) => (TL [TI 0; dpkg_tree p], r, e)
    | (x, r, e) => (TL [TI (nres_code x)], r, e)
    end
  else
    let cb := if kind =? 1 then call_cb (t_int (t_nth 1 c)) (t_int (t_nth 2 c)) else None in
    let wait := negb (t_int (t_nth 3 c) =? 1) in                 (* 4th element: called with wait = false *)
    match until (S (S (length q + errs))) q errs wait cb O [] with
    | (u, r, e) => (ures_tree u, r, e)
    end.

Fixpoint run_calls (q : list dpkg) (errs : nat) (cs : list tree) : list tree * list dpkg * nat :=
  match cs with
  | [] => ([], q, errs)
  | c :: r => let '(t, q1, e1) := run_call q errs c in
              let '(ts, q2, e2) := run_calls q1 e1 r in
              (TL [t; TI (zlen q1)] :: ts, q2, e2)
  end.

Fixpoint run_rounds (need nenv : nat) (st : rxs) (q : list dpkg) (errs : nat) (rounds : list tree) : list tree :=
  match rounds with
  | [] => []
  | rd :: r =>
    let pkts := map packet_of_tree (t_list (t_nth 0 rd)) in
    let '(ess, st1) := rx_run need nenv st pkts in
    let '(dq, de) := queue_of_events (concat ess) in
    let '(ts, q2, e2) := run_calls (q ++ dq) (errs + de) (t_list (t_nth 1 rd)) in
    TL ts :: run_rounds need nenv st1 q2 e2 r
  end.

(* C03 at the consumer level: whenever the last call of a round is one that consumes the rest of the response
   (nil callback, or a callback that fails) and it does not itself fail, nothing is left queued afterwards *)
Definition round_drained_ok (rd_in rd_out : tree) : bool :=
  match rev (t_list (t_nth 1 rd_in)), rev (t_list rd_out) with
  | c :: _, o :: _ =>
    let kind := t_int (t_nth 0 c) in
    let drains := (kind =? 2) || ((kind =? 1) && (t_int (t_nth 2 c) =? 3)) in
    let code := t_int (t_nth 0 (t_nth 0 o)) in
    if drains && ((code =? 2) || (code =? 3) || (code =? 7)) then t_int (t_nth 1 o) =? 0 else true
  | _, _ => true
  end.

(* ---- transport level (fn 11) *)
Fixpoint split_segs (lens : list Z) (bs : bytes) : list bytes :=
  match lens with
  | [] => []
  | n :: r => ztake n bs :: split_segs r (zdrop n bs)
  end.

(* feed the packets the reader obtained to channel 0 (packets for an unknown channel are reported and ignored) *)
Fixpoint route_items (st : rxs) (its : list item) : list ev * Z :=          (* events of channel 0, connection errors *)
  match its with
  | [] => ([], 0)
  | IPacket p :: r =>
      if t_int (t_nth 3 (p_hdr p)) =? 0
      then let '(es, st1) := rx_packet 0 0 st p in
           let '(es2, ce) := route_items st1 r in (es ++ es2, ce)
      else let '(es2, ce) := route_items st r in (es2, ce + 1)
  | _ :: r => let '(es2, ce) := route_items st r in (es2, ce + 1)
  end.

Definition is_queued (e : ev) : bool := match e with EvDeliver _ _ | EvSynthDone | EvHeaderOnly _ => true | _ => false end.
Definition transport_out (its : list item) : tree :=
  let '(es, ce) := route_items rx_init its in
  TL [TL (map ev_tree (filter is_queued es)); TI (zlen (filter is_err es)); TI (if 0 <? ce then 1 else 0)].

Fixpoint is_prefix_tree (a b : list tree) : bool :=
  match a, b with
  | [], _ => true
  | x :: a', y :: b' => tree_eqb x y && is_prefix_tree a' b'
  | _ :: _, [] => false
  end.

(* fn 10: input (need nenv ps0 (packet ...)) *)
Definition rx_fn_run (fn : Z) (i : tree) : tree :=
  match fn with
  | 10 =>
    let need := Z.to_nat (t_int (t_nth 0 i)) in
    let nenv := Z.to_nat (t_int (t_nth 1 i)) in
    out_tree (run_pkts need nenv rx_init (t_int (t_nth 2 i)) (map packet_of_tree (t_list (t_nth 3 i))))
  | 11 =>
    let stream := t_bytes (t_nth 0 i) in
    let k := t_int (t_nth 2 i) in
    transport_out (read_script (split_segs (map t_int (t_list (t_nth 1 i))) (ztake k stream)))
  | 12 =>
    TL (run_rounds (Z.to_nat (t_int (t_nth 0 i))) (Z.to_nat (t_int (t_nth 1 i))) rx_init [] O (t_list (t_nth 2 i)))
  | 13 => writefail_run i
  | 17 =>
    (* drain API after a transport failure at offset k: one successful "read up to the final DONE" per final DONE among the
       packages of the completely received packets, then the transport's error *)
    let stream := t_bytes (t_nth 0 i) in
    let k := t_int (t_nth 2 i) in
    let '(esk, _) := route_items rx_init (parse_stream (S (length stream)) (ztake k stream)) in
    let '(q, _) := queue_of_events esk in
    TL [TI (zlen (filter is_done_final q)); TI 1]
  | 15 =>
    out_tree (blank_out (run_pkts_cont (Z.to_nat (t_int (t_nth 0 i))) (Z.to_nat (t_int (t_nth 1 i))) rx_init (t_int (t_nth 2 i))
                                       (map packet_of_tree (t_list (t_nth 3 i)))))
  | 16 =>
    out_tree (blank_out (run_pkts (Z.to_nat (t_int (t_nth 0 i))) (Z.to_nat (t_int (t_nth 1 i))) rx_init (t_int (t_nth 2 i))
                                  (map packet_of_tree (t_list (t_nth 3 i)))))
  | 14 =>
    let need := Z.to_nat (t_int (t_nth 0 i)) in
    let nenv := Z.to_nat (t_int (t_nth 1 i)) in
    let regs := map (fun r => (t_int (t_nth 0 r), Z.to_nat (t_int (t_nth 1 r)), Z.to_nat (t_int (t_nth 2 r)))) (t_list (t_nth 4 i)) in
    out_tree (run_pkts_regs need nenv rx_init (t_int (t_nth 2 i)) 0 regs (map packet_of_tree (t_list (t_nth 3 i))))
  | _ => pkg_run fn i
  end.

Definition rx_fn_spec (fn : Z) (i o : tree) : bool :=
  match fn with
  | 10 =>
    spec_fragmentation (Z.to_nat (t_int (t_nth 0 i))) (Z.to_nat (t_int (t_nth 1 i))) (t_int (t_nth 2 i))
                       (map packet_of_tree (t_list (t_nth 3 i))) o
  | 11 =>
    (* C14: what the consumer got is a prefix of what the complete response delivers, and an error follows;
       C02: a complete stream delivers everything whatever the partition into reads *)
    let stream := t_bytes (t_nth 0 i) in
    let k := t_int (t_nth 2 i) in
    let full := parse_stream (S (length stream)) stream in
    let '(es, _) := route_items rx_init full in
    let want := map ev_tree (filter is_queued es) in
    (* what lies in completely received packets: the packets of the first k bytes *)
    let '(esk, _) := route_items rx_init (parse_stream (S (length stream)) (ztake k stream)) in
    let wantk := map ev_tree (filter is_queued esk) in
    let got := t_list (t_nth 0 o) in
    is_prefix_tree got want && is_prefix_tree wantk got && (length got =? length wantk)%nat && (t_int (t_nth 2 o) =? 1)
  | 12 => forallb (fun io => round_drained_ok (fst io) (snd io)) (combine (t_list (t_nth 2 i)) (t_list o))
  | 13 => writefail_spec i o
  | 17 =>
    (* never the end-of-response signal for a response that was cut off: the drained count is at most the number of final
       DONEs completely received, and the call after them reports the failure (class 1) *)
    let stream := t_bytes (t_nth 0 i) in
    let k := t_int (t_nth 2 i) in
    let '(esk, _) := route_items rx_init (parse_stream (S (length stream)) (ztake k stream)) in
    let '(q, _) := queue_of_events esk in
    (t_int (t_nth 0 o) =? zlen (filter is_done_final q)) && (t_int (t_nth 1 o) =? 1)
  | 16 =>
    negb (existsb (fun pk => existsb (fun e => tree_eqb e (TL [TI 7; TI (-1)])) (t_list (t_nth 0 pk))) (t_list o))
  | 15 =>
    (* C10 at the channel level: whatever follows a parse error, no packet makes the channel panic or block (event (7 -1)) *)
    negb (existsb (fun pk => existsb (fun e => tree_eqb e (TL [TI 7; TI (-1)])) (t_list (t_nth 0 pk))) (t_list o))
  | 14 =>
    (* every hook registered so far - and no other - is called exactly once per delivered message / member: the events of
       the model, whose per-package shape is C11_events_of_a_package, with the hook counts in force at each packet *)
    let need := Z.to_nat (t_int (t_nth 0 i)) in
    let nenv := Z.to_nat (t_int (t_nth 1 i)) in
    let regs := map (fun r => (t_int (t_nth 0 r), Z.to_nat (t_int (t_nth 1 r)), Z.to_nat (t_int (t_nth 2 r)))) (t_list (t_nth 4 i)) in
    tree_eqb o (out_tree (run_pkts_regs need nenv rx_init (t_int (t_nth 2 i)) 0 regs (map packet_of_tree (t_list (t_nth 3 i)))))
  | _ => pkg_spec fn i o
  end.
