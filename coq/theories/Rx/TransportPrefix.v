(* Transport failure (C14): the packets obtained from the first bytes of a stream are a prefix of the packets
   of the whole stream, followed by the failure; and with enough fuel that prefix is maximal: what is left
   after it is not a complete packet. *)
From Coq Require Import ZArith List Bool Lia.
Import ListNotations.
From V Require Import Base.Tree Base.Bytes Base.BytesFacts Gen.GenPkg Rx.Model Rx.Transport.
Open Scope Z_scope.

Definition not_fail (i : item) : Prop := i <> IFail.

Theorem parse_stream_prefix_gen : forall fuel fuel2 bs more, (fuel <= fuel2)%nat ->
  exists pre, parse_stream fuel bs = pre ++ [IFail] /\ Forall not_fail pre /\
              exists post, parse_stream fuel2 (bs ++ more) = pre ++ post.
Proof.
  induction fuel as [|f IH]; intros fuel2 bs more Hf.
  - exists []. split; [reflexivity|]. split; [constructor|]. eexists. reflexivity.
  - destruct fuel2 as [|f2]; [lia|]. cbn [parse_stream]. unfold c_hdr_size.
    destruct (Z.ltb_spec (zlen bs) 8) as [Hs|Hl].
    + exists []. split; [reflexivity|]. split; [constructor|]. eexists. reflexivity.
    + pose proof (zlen_nonneg more) as Hm.
      replace (zlen (bs ++ more) <? 8) with false by (symmetry; apply Z.ltb_ge; rewrite zlen_app; lia).
      rewrite (ztake_app_l 8 bs more) by lia. rewrite (zdrop_app_l 8 bs more) by lia.
      destruct (header_of (ztake 8 bs)) as [[[[[t s] len] ch] nr] w].
      destruct (Z.ltb_spec len 8) as [Hbad|Hok].
      * destruct (IH f2 (zdrop 8 bs) more ltac:(lia)) as [pre [E [N [post P]]]].
        exists (IBadHeader :: pre). rewrite E. split; [reflexivity|]. split; [constructor; [discriminate|exact N]|].
        exists post. rewrite P. reflexivity.
      * destruct (Z.ltb_spec (zlen (zdrop 8 bs)) (len - 8)) as [Hs2|Hl2].
        -- exists []. split; [reflexivity|]. split; [constructor|]. eexists. reflexivity.
        -- replace (zlen (zdrop 8 bs ++ more) <? len - 8) with false by (symmetry; apply Z.ltb_ge; rewrite zlen_app; lia).
           rewrite (ztake_app_l (len - 8) (zdrop 8 bs) more) by lia. rewrite (zdrop_app_l (len - 8) (zdrop 8 bs) more) by lia.
           destruct (IH f2 (zdrop (len - 8) (zdrop 8 bs)) more ltac:(lia)) as [pre [E [N [post P]]]].
           eexists (_ :: pre). rewrite E. split; [reflexivity|]. split; [constructor; [discriminate|exact N]|].
           exists post. rewrite P. reflexivity.
Qed.

Corollary parse_stream_prefix : forall fuel bs more,
  exists pre, parse_stream fuel bs = pre ++ [IFail] /\ Forall (fun i => i <> IFail) pre /\
              exists post, parse_stream (fuel + length more) (bs ++ more) = pre ++ post.
Proof. intros fuel bs more. apply parse_stream_prefix_gen. lia. Qed.

(* ---- maximality: with fuel for every packet, the packets before the failure use up the bytes except for an
   incomplete tail (shorter than a header, or shorter than the length its header announces) *)
Definition wire (i : item) : Z :=
  match i with IPacket p => p_len p | IBadHeader => c_hdr_size | IFail => 0 end.
Definition incomplete (r : bytes) : Prop :=
  zlen r < c_hdr_size \/
  (let '(_, _, len, _, _, _) := header_of (ztake c_hdr_size r) in c_hdr_size <= len /\ zlen r < len).

Theorem parse_stream_maximal : forall fuel bs, (length bs < fuel)%nat ->
  exists pre, parse_stream fuel bs = pre ++ [IFail] /\ Forall not_fail pre /\
              0 <= zsum (map wire pre) <= zlen bs /\ incomplete (zdrop (zsum (map wire pre)) bs).
Proof.
  induction fuel as [|f IH]; intros bs Hf; [lia|]. cbn [parse_stream]. unfold c_hdr_size, incomplete. unfold c_hdr_size.
  pose proof (zlen_nonneg bs) as Hb.
  destruct (Z.ltb_spec (zlen bs) 8) as [Hs|Hl].
  - exists []. split; [reflexivity|]. split; [constructor|]. cbn [map zsum fold_right]. rewrite zdrop_0. split; [lia|]. left. exact Hs.
  - destruct (header_of (ztake 8 bs)) as [[[[[t s] len] ch] nr] w] eqn:Eh.
    assert (Hlen8 : zlen (zdrop 8 bs) = zlen bs - 8) by (apply zlen_zdrop; lia).
    assert (Hnat : forall r : bytes, zlen r < zlen bs -> (length r < length bs)%nat).
    { intros r. unfold zlen. lia. }
    destruct (Z.ltb_spec len 8) as [Hbad|Hok].
    + destruct (IH (zdrop 8 bs)) as [pre [E [N [Hsum Hinc]]]]; [pose proof (Hnat (zdrop 8 bs)); lia|].
      exists (IBadHeader :: pre). rewrite E. split; [reflexivity|]. split; [constructor; [discriminate|exact N]|].
      cbn [map zsum fold_right wire]. fold (zsum (map wire pre)). unfold c_hdr_size. rewrite zdrop_zdrop in Hinc by lia. rewrite Hlen8 in Hsum.
      split; [lia|]. replace (8 + zsum (map wire pre)) with (zsum (map wire pre) + 8) by lia. exact Hinc.
    + destruct (Z.ltb_spec (zlen (zdrop 8 bs)) (len - 8)) as [Hs2|Hl2].
      * exists []. split; [reflexivity|]. split; [constructor|]. cbn [map zsum fold_right]. rewrite zdrop_0. split; [lia|]. right. rewrite Eh. lia.
      * assert (Hlen2 : zlen (zdrop (len - 8) (zdrop 8 bs)) = zlen bs - len) by (rewrite zlen_zdrop; lia).
        destruct (IH (zdrop (len - 8) (zdrop 8 bs))) as [pre [E [N [Hsum Hinc]]]]; [pose proof (Hnat (zdrop (len - 8) (zdrop 8 bs))); lia|].
        eexists (_ :: pre). rewrite E. split; [reflexivity|]. split; [constructor; [discriminate|exact N]|].
        cbn [map zsum fold_right wire p_len]. fold (zsum (map wire pre)). rewrite !zdrop_zdrop in Hinc by lia. rewrite Hlen2 in Hsum.
        split; [lia|]. replace (len + zsum (map wire pre)) with (zsum (map wire pre) + (len - 8) + 8) by lia. exact Hinc.
Qed.
