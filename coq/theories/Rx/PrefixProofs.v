(* Channel-level facts for C14: the events after a prefix of the packets of a response are a prefix of the events
   after all of them, and as long as no packet with the end-of-message flag has arrived the channel never
   synthesises a final DONE. *)
From Coq Require Import ZArith List Bool Lia.
Import ListNotations.
From V Require Import Base.Tree Base.Bytes Base.Parser Pkg.GenTypes Gen.GenPkg Pkg.Iface Pkg.Eed Pkg.All Rx.Model.
Open Scope Z_scope.

Section P.
Variables need nenv : nat.

Lemma rx_run_app : forall ps1 ps2 st,
  rx_run need nenv st (ps1 ++ ps2) =
  let '(e1, s1) := rx_run need nenv st ps1 in let '(e2, s2) := rx_run need nenv s1 ps2 in (e1 ++ e2, s2).
Proof.
  induction ps1 as [|p ps1 IH]; intros ps2 st.
  - cbn [app rx_run]. destruct (rx_run need nenv st ps2); reflexivity.
  - cbn [app rx_run]. destruct (rx_packet need nenv st p) as [es st1]. rewrite IH.
    destruct (rx_run need nenv st1 ps1) as [e1 s1]. destruct (rx_run need nenv s1 ps2) as [e2 s2]. reflexivity.
Qed.

(* a header-only packet (an empty packet: length = header size) anywhere in the packet sequence — between two
   responses or between two packets of one — is reported by its own marker and changes nothing else: the events of
   all other packets and the final state are those of the sequence without it *)
Lemma rx_run_header_only : forall ps1 p ps2 st, p_len p = c_hdr_size ->
  rx_run need nenv st (ps1 ++ p :: ps2) =
  let '(e1, s1) := rx_run need nenv st ps1 in let '(e2, s2) := rx_run need nenv s1 ps2 in
  (e1 ++ [EvHeaderOnly (p_hdr p)] :: e2, s2).
Proof.
  intros ps1 p ps2 st Hp. rewrite rx_run_app.
  destruct (rx_run need nenv st ps1) as [e1 s1]. cbn [rx_run].
  unfold rx_packet at 1. rewrite Hp, Z.eqb_refl.
  destruct (rx_run need nenv s1 ps2) as [e2 s2]. reflexivity.
Qed.
Lemma rx_run_header_only_state : forall ps1 p ps2 st, p_len p = c_hdr_size ->
  snd (rx_run need nenv st (ps1 ++ p :: ps2)) = snd (rx_run need nenv st (ps1 ++ ps2)).
Proof.
  intros ps1 p ps2 st Hp. rewrite rx_run_header_only by exact Hp. rewrite rx_run_app.
  destruct (rx_run need nenv st ps1) as [e1 s1]. destruct (rx_run need nenv s1 ps2) as [e2 s2]. reflexivity.
Qed.


(* what the consumer gets after the first packets is a prefix of what it gets after all of them *)
Theorem rx_prefix : forall ps1 ps2 st, exists more,
  fst (rx_run need nenv st (ps1 ++ ps2)) = fst (rx_run need nenv st ps1) ++ more.
Proof.
  intros ps1 ps2 st. rewrite rx_run_app. destruct (rx_run need nenv st ps1) as [e1 s1].
  destruct (rx_run need nenv s1 ps2) as [e2 s2]. exists e2. reflexivity.
Qed.

Definition not_synth (e : ev) : bool := match e with EvSynthDone => false | _ => true end.

Lemma hooks_not_synth n (mk : Z -> ev) : (forall i, not_synth (mk i) = true) -> forallb not_synth (hook_calls n mk) = true.
Proof. intros H. induction n as [|n IH]; [reflexivity|]. cbn [hook_calls]. rewrite forallb_app, IH. cbn. rewrite H. reflexivity. Qed.

Lemma env_not_synth ms : forallb not_synth (env_members nenv ms) = true.
Proof.
  induction ms as [|m ms IH]; [reflexivity|]. cbn [env_members].
  assert (Hh : forall t o n, forallb not_synth (hook_calls nenv (fun i => EvEnvHook i t o n)) = true)
    by (intros; apply hooks_not_synth; reflexivity).
  destruct (t_int (t_nth 0 m) =? c_env_packsize).
  - destruct (atoi (t_bytes (t_nth 1 m))) as [n|]; [|reflexivity].
    destruct ((n <=? c_hdr_size) || (65535 <? n)); [reflexivity|]. cbn [forallb not_synth andb]. rewrite forallb_app, Hh, IH. reflexivity.
  - rewrite forallb_app, Hh, IH. reflexivity.
Qed.

Lemma step_not_synth l tok body : match rx_step need nenv l tok body with
  | SOk es _ _ => forallb not_synth es = true | SNeb => True | SErr es _ => forallb not_synth es = true end.
Proof.
  unfold rx_step. destruct (last_ctx tok l) as [[[ctx lp] lr]|]; [|reflexivity].
  destruct (chan_dec tok ctx body) as [fields r| |c r|]; try reflexivity; try exact I.
  destruct (tok =? tok_envchange); [apply env_not_synth|].
  destruct ((tok =? tok_eed) && Z.testbit (t_int (t_nth 4 fields)) 1); [reflexivity|].
  rewrite forallb_app. destruct (tok =? tok_eed); [|reflexivity].
  rewrite hooks_not_synth by reflexivity. reflexivity.
Qed.

Lemma loop_no_eom : forall fuel b l, let '(es, st) := rx_loop fuel need nenv b false l in
  forallb not_synth es = true /\ eom st = false.
Proof.
  unfold rx_loop. induction fuel as [|f IH]; intros b l; [split; reflexivity|].
  destruct b as [|tok body]; [split; reflexivity|]. cbn [gen_loop].
  pose proof (step_not_synth l tok body) as Hs.
  destruct (rx_step need nenv l tok body) as [es l' r| |es allc].
  - specialize (IH r l'). destruct (gen_loop (rx_step need nenv) f r false l') as [es2 st]. destruct IH as [A B].
    split; [rewrite forallb_app, Hs, A; reflexivity|exact B].
  - split; reflexivity.
  - rewrite andb_false_r. split; [exact Hs|reflexivity].
Qed.

(* no end-of-message packet, no synthetic DONE: whatever bytes arrived *)
Theorem no_spurious_done : forall ps st, eom st = false -> Forall (fun p => p_eom p = false) ps ->
  let '(ess, st') := rx_run need nenv st ps in forallb not_synth (concat ess) = true /\ eom st' = false.
Proof.
  induction ps as [|p ps IH]; intros st He Hall; [split; [reflexivity|exact He]|].
  inversion Hall as [|? ? Hp Hps]; subst. cbn [rx_run].
  assert (Hpk : let '(es, st1) := rx_packet need nenv st p in forallb not_synth es = true /\ eom st1 = false).
  { unfold rx_packet. destruct (p_len p =? c_hdr_size); [split; [reflexivity|exact He]|].
    rewrite He, Hp. cbn [orb]. apply loop_no_eom. }
  destruct (rx_packet need nenv st p) as [es st1]. destruct Hpk as [A B].
  specialize (IH st1 B Hps). destruct (rx_run need nenv st1 ps) as [ess st2]. destruct IH as [C D].
  split; [cbn [concat]; rewrite forallb_app, A, C; reflexivity|exact D].
Qed.
End P.
