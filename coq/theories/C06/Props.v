(* C06 — package encodings are self-consistent and match their wire layout.
   Property theorems only (proofs are in Pkg/*.v).  Every decoder/encoder mentioned here is compared with the
   implementation's ReadFrom/WriteTo on every run; the layouts themselves are checked by the independent Go
   reference codecs of the harness (verdict `refok`, spec predicate of fn 1) and by reference-encoded
   packages being decoded to the fields they were built from (spec predicate of fn 2). *)
From Coq Require Import ZArith List Bool.
Import ListNotations.
From V Require Import Base.Tree Base.Bytes Base.BytesFacts Base.Range Base.Parser Base.ParserFacts
  Pkg.GenTypes Gen.GenPkg Pkg.Iface Pkg.Field Pkg.Fmts Pkg.Done Pkg.Eed Pkg.RegCore Pkg.CoreRoundtrip
  Pkg.LoginAck Pkg.Msg Pkg.Capability Pkg.CapabilityProofs Pkg.ReturnStatus Pkg.Error Pkg.Language Pkg.Logout
  Pkg.LoginRec Pkg.LoginRecProofs Pkg.RegB1
  Pkg.Dynamic Pkg.CurDeclare Pkg.CurInfo Pkg.CurOpen Pkg.CurFetch Pkg.CurUpdate Pkg.CurDelete Pkg.CurClose Pkg.OptionCmd Pkg.RegB2
  Pkg.All.
Open Scope Z_scope.

(* (i) kinds the library both writes and reads: reading back what WriteTo wrote reproduces the fields and consumes
   exactly the bytes written (r is whatever follows), for ALL well-formed field values *)
Theorem C06_done : forall d r, wf_done d -> dec_done (enc_done_body d ++ r) = POk d r.
Proof. exact done_roundtrip. Qed.
Theorem C06_eed : forall e r, wf_eed e -> dec_eed (enc_eed_body e ++ r) = POk e r.
Proof. exact eed_roundtrip. Qed.
Theorem C06_envchange : forall ms r, Forall wf_envmember ms -> zsum (map env_size ms) < 65536 ->
  exists body, enc_envchange ms = tok_envchange :: body /\ dec_envchange (body ++ r) = POk ms r /\
               zlen body = 2 + zsum (map env_size ms).
Proof. exact envchange_roundtrip. Qed.
Theorem C06_paramfmt : forall wide fs r, Forall (wf_ffmt wide) fs -> zlen fs < 65536 ->
  paramfmt_length wide fs < (if wide then 4294967296 else 65536) ->
  exists body, enc_paramfmt wide fs = Some ((if wide then tok_paramfmt2 else tok_paramfmt) :: body) /\
               dec_paramfmt wide (body ++ r) = POk fs r /\
               zlen body = (if wide then 4 else 2) + paramfmt_length wide fs.
Proof. exact paramfmt_roundtrip. Qed.
Theorem C06_params : forall tok fs vs r, params_ctx_ok fs = true -> Forall2 wf_fdata fs vs ->
  exists body, enc_params tok fs vs = tok :: body /\ dec_params (Some fs) (body ++ r) = POk vs r.
Proof. exact params_roundtrip. Qed.
Theorem C06_loginack : forall p r, wf_loginack p -> dec_loginack (enc_loginack_body p ++ r) = POk p r.
Proof. exact loginack_roundtrip. Qed.
Theorem C06_msg : forall m r, wf_msg m -> dec_msg (enc_msg_body m ++ r) = POk m r.
Proof. exact msg_roundtrip. Qed.
Theorem C06_returnstatus : forall p r, wf_returnstatus p -> dec_returnstatus (enc_returnstatus_body p ++ r) = POk p r.
Proof. exact returnstatus_roundtrip. Qed.
Theorem C06_error : forall e r, wf_error e -> dec_error (enc_error_body e ++ r) = POk e r.
Proof. exact error_roundtrip. Qed.
Theorem C06_language : forall p r, wf_language p -> dec_language (enc_language_body p ++ r) = POk p r.
Proof. exact language_roundtrip. Qed.
Theorem C06_dynamic : forall wide d r, wf_dynamic wide d -> dec_dynamic wide (enc_dynamic_body wide d ++ r) = POk d r.
Proof. exact dynamic_roundtrip. Qed.
Theorem C06_curdeclare : forall wide c r, wf_curdeclare wide c -> dec_curdeclare wide (enc_curdeclare_body wide c ++ r) = POk c r.
Proof. exact curdeclare_roundtrip. Qed.
Theorem C06_curinfo : forall wide c r, wf_curinfo wide c -> dec_curinfo wide (enc_curinfo_body wide c ++ r) = POk c r.
Proof. exact curinfo_roundtrip. Qed.
Theorem C06_curopen : forall c r, wf_curopen c -> dec_curopen (enc_curopen_body c ++ r) = POk c r.
Proof. exact curopen_roundtrip. Qed.
Theorem C06_curfetch : forall c r, wf_curfetch c -> dec_curfetch (enc_curfetch_body c ++ r) = POk c r.
Proof. exact curfetch_roundtrip. Qed.
Theorem C06_curupdate : forall c r, wf_curupdate c -> dec_curupdate (enc_curupdate_body c ++ r) = POk c r.
Proof. exact curupdate_roundtrip. Qed.
Theorem C06_curdelete : forall c r, wf_curdelete c -> dec_curdelete (enc_curdelete_body c ++ r) = POk c r.
Proof. exact curdelete_roundtrip. Qed.
Theorem C06_curclose : forall c r, wf_curclose c -> dec_curclose (enc_curclose_body c ++ r) = POk c r.
Proof. exact curclose_roundtrip. Qed.
Theorem C06_optioncmd : forall o r, wf_optioncmd o -> dec_optioncmd (enc_optioncmd_body o ++ r) = POk o r.
Proof. exact optioncmd_roundtrip. Qed.

(* (ii) the length fields written equal what follows them (examples of the per-package enc_*_len lemmas) *)
Theorem C06_eed_length : forall e,
  16 + zlen (e_sqlstate e) + zlen (e_msg e) + zlen (e_server e) + zlen (e_proc e) < 65536 ->
  exists rest, enc_eed_body e = bytes_of_le 2 (zlen rest) ++ rest.
Proof. exact enc_eed_len. Qed.
Theorem C06_curinfo_length : forall wide c, zlen (enc_curinfo_payload wide c) = curinfo_total wide c.
Proof. exact enc_curinfo_len. Qed.
Theorem C06_dynamic_length : forall wide d, zlen (enc_dynamic_payload wide d) = dynamic_total wide d.
Proof. exact enc_dynamic_len. Qed.

(* (v) the fixed-layout login record: recovered field by field by an independent decoder, constant length,
   oversized fields rejected (no record at all), never truncated or shifted *)
Theorem C06_login_record : forall c, fields_fit c ->
  exists bs, enc_login c = Some bs /\ zlen bs = login_record_length /\ parse_login_record bs = Some (fields c).
Proof. exact login_record_recovered. Qed.
Theorem C06_login_oversize_rejected : forall c, ~ fields_fit c -> enc_login c = None.
Proof. exact login_record_oversize_rejected. Qed.
Theorem C06_login_length : forall c bs, enc_login c = Some bs -> zlen bs = login_record_length.
Proof. exact login_record_length_const. Qed.

(* (vi) capability value mask: capability k is bit k mod 8 of byte len-1-k/8, and a mask survives write + parse as a set *)
Theorem C06_mask_bit_position : forall m k, (k < length m)%nat ->
  Z.testbit (nth (length (mask_bytes m) - 1 - k / 8) (mask_bytes m) 0) (Z.of_nat (k mod 8)) = nth k m false.
Proof. exact mask_bit_position. Qed.
Theorem C06_mask_roundtrip : forall m k, get_cap k (parse_mask (mask_bytes m)) = get_cap k m.
Proof. exact get_cap_roundtrip. Qed.

(* the token table of the code (Gen/GenPkg.v, LookupPackage executed for all 256 tokens) against the registry:
   every token either becomes a TokenlessPackage or has a modelled decoder *)
Definition tokenless_name : list Z := [84;111;107;101;110;108;101;115;115;80;97;99;107;97;103;101].
Theorem C06_lookup_total :
  forallb (fun t => list_Z_eqb (fst (zassoc t token_kind ([], false))) tokenless_name ||
                    match find_kind t kinds_all with Some _ => true | None => false end) (zrange 0 255) = true.
Proof. vm_compute. reflexivity. Qed.

Example C06_login_length_value : login_record_length = 568.
Proof. reflexivity. Qed.

Print Assumptions C06_eed.
Print Assumptions C06_envchange.
Print Assumptions C06_paramfmt.
Print Assumptions C06_params.
Print Assumptions C06_curinfo.
Print Assumptions C06_login_record.
Print Assumptions C06_login_oversize_rejected.
Print Assumptions C06_mask_bit_position.
Print Assumptions C06_lookup_total.
Print Assumptions C06_done.
Print Assumptions C06_loginack.
Print Assumptions C06_msg.
Print Assumptions C06_returnstatus.
Print Assumptions C06_error.
Print Assumptions C06_language.
Print Assumptions C06_dynamic.
Print Assumptions C06_curdeclare.
Print Assumptions C06_curopen.
Print Assumptions C06_curfetch.
Print Assumptions C06_curupdate.
Print Assumptions C06_curdelete.
Print Assumptions C06_curclose.
Print Assumptions C06_optioncmd.
Print Assumptions C06_eed_length.
Print Assumptions C06_curinfo_length.
Print Assumptions C06_dynamic_length.
Print Assumptions C06_login_length.
Print Assumptions C06_mask_roundtrip.
