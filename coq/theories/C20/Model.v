(* C20: isolation-level mapping.  The functions of the implementation are finite
   tables re-tabulated from the code on every run (Gen/GenC20.v: every level in
   dom_lo..dom_hi, 256 evaluations each, the SET of observed outcomes recorded).
   This file: table lookup (the model), the independent specification written from
   the property text, the executable spec predicates and the dispatch for the driver.
   No proofs here. *)
From Coq Require Import ZArith List Bool.
Import ListNotations.
From V Require Import Base.Tree Base.Range Gen.GenC20.
Open Scope Z_scope.

Fixpoint lookup {A} (k : Z) (tab : list (Z * A)) : option A :=
  match tab with
  | [] => None
  | (k', v) :: r => if Z.eqb k k' then Some v else lookup k r
  end.

(* model = what the code did when tabulated *)
Definition fromgo (l : Z) : option Z := match lookup l fromgo_tab with Some r => r | None => None end.
Definition togo_set (l : Z) : list Z := match lookup l togo_tab with Some r => r | None => [] end.
Definition str_set (l : Z) : list (list Z) := match lookup l str_tab with Some r => r | None => [] end.
Definition sqlname (l : Z) : list Z := match lookup l sqlname_tab with Some r => r | None => [] end.

(* specification, from the property text: the four levels ASE supports, default = read committed *)
Definition spec_fromgo (l : Z) : option Z :=
  if l =? sql_default then Some ase_rc
  else if l =? sql_ru then Some ase_ru
  else if l =? sql_rc then Some ase_rc
  else if l =? sql_rr then Some ase_rr
  else if l =? sql_ser then Some ase_ser
  else None.

Definition levels_distinct : bool :=
  negb (ase_ru =? ase_rc) && negb (ase_ru =? ase_rr) && negb (ase_ru =? ase_ser) &&
  negb (ase_rc =? ase_rr) && negb (ase_rc =? ase_ser) && negb (ase_rr =? ase_ser) &&
  negb (ase_ru =? ase_invalid) && negb (ase_rc =? ase_invalid) &&
  negb (ase_rr =? ase_invalid) && negb (ase_ser =? ase_invalid).

Definition opt_eqb (a b : option Z) : bool :=
  match a, b with Some x, Some y => x =? y | None, None => true | _, _ => false end.

(* the ASE level a supported, non-default sql level maps to must map back to it *)
Definition expected_back (a : Z) : option Z :=
  if a =? ase_ru then Some sql_ru else if a =? ase_rc then Some sql_rc
  else if a =? ase_rr then Some sql_rr else if a =? ase_ser then Some sql_ser else None.

Definition forward_ok (l : Z) : bool := opt_eqb (fromgo l) (spec_fromgo l).
Definition togo_ok (a : Z) : bool :=
  match togo_set a with
  | [v] => match expected_back a with Some s => v =? s | None => true end
  | _ => false
  end.
Definition str_ok (a : Z) : bool :=
  match togo_set a, str_set a with
  | [v], [s] => list_Z_eqb s (sqlname v)
  | _, _ => false
  end.

Definition dom : list Z := zrange dom_lo dom_hi.

(* dispatch: 1 = FromGo, 2 = set of ToGo outcomes, 3 = set of String outcomes *)
Definition run (fn : Z) (i : tree) : tree :=
  match fn with
  | 1 => of_option TI (fromgo (t_int i))
  | 2 => TL (map TI (togo_set (t_int i)))
  | 3 => TL (map TB (str_set (t_int i)))
  | _ => tbad
  end.

(* spec predicates applied to what the implementation produced (o) *)
Definition spec (fn : Z) (i o : tree) : bool :=
  match fn with
  | 1 => tree_eqb o (of_option TI (spec_fromgo (t_int i))) && levels_distinct
  | 2 => match o with
         | TL [TI v] => match expected_back (t_int i) with Some s => v =? s | None => true end
         | _ => false
         end
  | 3 => match o, togo_set (t_int i) with
         | TL [TB s], [v] => list_Z_eqb s (sqlname v)
         | _, _ => false
         end
  | _ => false
  end.
