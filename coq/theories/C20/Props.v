(* C20 — the property theorems and nothing else.  Every function mentioned here is
   the tabulation of /repo's current code (Gen/GenC20.v), regenerated on every run. *)
From Coq Require Import ZArith List.
Import ListNotations.
From V Require Import Gen.GenC20 C20.Model C20.Proofs.
Open Scope Z_scope.

(* Forward translation: the four supported levels (default meaning read committed) map to four
   pairwise distinct valid ASE levels, every other level of the domain is an error. *)
Theorem C20_forward : forall l, dom_lo <= l <= dom_hi -> fromgo l = spec_fromgo l.
Proof. exact forward_correct. Qed.
Theorem C20_levels_distinct : levels_distinct = true.
Proof. exact distinct. Qed.

(* Translating back and printing: one answer per level over all repetitions, and String agrees with ToGo. *)
Theorem C20_deterministic : forall a, dom_lo <= a <= dom_hi ->
  exists v, togo_set a = [v] /\ str_set a = [sqlname v].
Proof. exact togo_deterministic. Qed.

(* There and back for supported non-default levels. *)
Theorem C20_roundtrip : forall s, (s = sql_ru \/ s = sql_rc \/ s = sql_rr \/ s = sql_ser) ->
  exists a, fromgo s = Some a /\ togo_set a = [s].
Proof. exact roundtrip. Qed.

(* non-vacuity: the domain is the one the property names *)
Example C20_domain : dom_lo = -8 /\ dom_hi = 64 /\ length dom = 73%nat.
Proof. vm_compute. repeat split. Qed.

Print Assumptions C20_forward.
Print Assumptions C20_levels_distinct.
Print Assumptions C20_deterministic.
Print Assumptions C20_roundtrip.
