From Coq Require Import ZArith List Bool Lia.
Import ListNotations.
From V Require Import Base.Tree Base.Range Gen.GenC20 C20.Model.
Open Scope Z_scope.

Lemma sweep_forward : forallb forward_ok dom = true.
Proof. vm_compute. reflexivity. Qed.
Lemma sweep_togo : forallb togo_ok dom = true.
Proof. vm_compute. reflexivity. Qed.
Lemma sweep_str : forallb str_ok dom = true.
Proof. vm_compute. reflexivity. Qed.
Lemma distinct : levels_distinct = true.
Proof. vm_compute. reflexivity. Qed.

Lemma opt_eqb_eq a b : opt_eqb a b = true -> a = b.
Proof.
  destruct a as [x|], b as [y|]; simpl; intros H; try discriminate; try reflexivity.
  apply Z.eqb_eq in H. subst. reflexivity.
Qed.

Lemma forward_correct : forall l, dom_lo <= l <= dom_hi -> fromgo l = spec_fromgo l.
Proof.
  intros l Hl. apply opt_eqb_eq. exact (forallb_zrange forward_ok _ _ sweep_forward l Hl).
Qed.

Lemma togo_deterministic : forall a, dom_lo <= a <= dom_hi ->
  exists v, togo_set a = [v] /\ str_set a = [sqlname v].
Proof.
  intros a Ha.
  pose proof (forallb_zrange togo_ok _ _ sweep_togo a Ha) as H1.
  pose proof (forallb_zrange str_ok _ _ sweep_str a Ha) as H2.
  unfold togo_ok in H1. unfold str_ok in H2.
  destruct (togo_set a) as [|v [|w r]]; try discriminate.
  exists v. split; [reflexivity|].
  destruct (str_set a) as [|s [|s' r']]; try discriminate.
  f_equal.
  clear H1. revert H2. generalize (sqlname v) as t. induction s as [|x s IH]; intros t H2; destruct t as [|y t]; simpl in H2; try discriminate; try reflexivity.
  apply andb_true_iff in H2. destruct H2 as [E1 E2]. apply Z.eqb_eq in E1. subst. f_equal. apply IH. exact E2.
Qed.

Lemma roundtrip : forall s, (s = sql_ru \/ s = sql_rc \/ s = sql_rr \/ s = sql_ser) ->
  exists a, fromgo s = Some a /\ togo_set a = [s].
Proof.
  intros s [E|[E|[E|E]]]; subst s; vm_compute; eexists; split; reflexivity.
Qed.
