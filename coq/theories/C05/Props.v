(* C05 — data type wire encodings match the TDS 5.0 layouts (value level).  Property theorems only.
   layout_enc (C05/Layout.v) is the reference written from the layout descriptions on top of the reference calendar
   (C04/RefCalendar.v); enc_value / dec_value / jdn / time_to_us / us_to_time are the model of the Go code, compared
   with the implementation on every run. *)
From Coq Require Import ZArith List Bool Lia.
Import ListNotations.
From V Require Import Base.Tree Base.Bytes Gen.GenC04 C04.GoInt C04.Calendar C04.Utf16 C04.Model C04.Exchange
  C04.RefCalendar C04.Spec C04.RefCalFacts C04.CalFacts C04.CalSweep C04.ProofsScalar C04.ProofsUnitext C04.ProofsTemporal
  C05.Layout C05.Spec C05.Proofs C05.ProofsSpec.
Open Scope Z_scope.

(* (0) the reference itself: a little-endian word has byte i = floor(x / 256^i) mod 256 (two's complement); the numeric
   magnitude denotes the number and has no leading zero byte; the reference day number is the number of next_day steps *)
Theorem C05_le_word_byte : forall n x i, (i < n)%nat -> nth i (le_word n x) 0 = (x / 256 ^ Z.of_nat i) mod 256.
Proof. exact le_word_byte. Qed.
Theorem C05_be_mag_spec : forall m, 0 <= m -> be_of_bytes (be_mag m) = m /\ (be_mag m = [] \/ hd 0 (be_mag m) <> 0).
Proof. exact be_mag_spec. Qed.
Theorem C05_ref_index_is_walk : forall n, ref_index (walk n (1, 1, 1)) = Z.of_nat n /\ valid_date (walk n (1, 1, 1)) = true.
Proof. exact ref_index_walk. Qed.

(* (1) integers: fixed types with their Go type, INTN/UINTN with every width: little-endian two's complement *)
Theorem C05_int_layout : forall t k x len, (fixed_int_kind t = Some k \/ intn_kind t k) -> ik_range k x = true ->
  exists bs, layout_enc t (VInt k x) len = Some bs /\ enc_value t (VInt k x) len = Ok bs /\ dec_value t bs = Ok (VInt k x).
Proof. exact int_layout_roundtrip. Qed.

(* (2) floats: the IEEE bit pattern, little-endian *)
Theorem C05_float_layout : forall t w bits len,
  ((t = t_FLT4 \/ t = t_FLTN) /\ w = 32 /\ 0 <= bits < 2 ^ 32) \/
  ((t = t_FLT8 \/ t = t_FLTN) /\ w = 64 /\ 0 <= bits < 2 ^ 64) ->
  exists bs, layout_enc t (VFlt w bits) len = Some bs /\ enc_value t (VFlt w bits) len = Ok bs /\ dec_value t bs = Ok (VFlt w bits).
Proof. exact flt_layout_roundtrip. Qed.

(* (3) money: high word then low word of the 1/10000 count (8 bytes), one word (4 bytes) *)
Theorem C05_money_layout : forall t p s x, (t = t_MONEY \/ t = t_MONEYN) -> - 2 ^ 63 <= x < 2 ^ 63 ->
  exists bs, layout_enc t (VDec p s (Some x)) 8 = Some bs /\ enc_value t (VDec p s (Some x)) 8 = Ok bs /\
             dec_value t bs = Ok (VDec 20 4 (Some x)).
Proof. exact money_layout_roundtrip. Qed.
Theorem C05_shortmoney_layout : forall t p s x, (t = t_SHORTMONEY \/ t = t_MONEYN) -> - 2 ^ 31 <= x < 2 ^ 31 ->
  exists bs, layout_enc t (VDec p s (Some x)) 4 = Some bs /\ enc_value t (VDec p s (Some x)) 4 = Ok bs /\
             dec_value t bs = Ok (VDec 10 4 (Some x)).
Proof. exact shortmoney_layout_roundtrip. Qed.

(* (4) numeric/decimal: sign byte + big-endian magnitude, every integer *)
Theorem C05_numeric_layout : forall t p s x len, (t = t_DECN \/ t = t_NUMN) ->
  exists bs, layout_enc t (VDec p s (Some x)) len = Some bs /\ enc_value t (VDec p s (Some x)) len = Ok bs /\
             dec_value t bs = Ok (VDec 18 0 (Some x)).
Proof. exact numeric_layout_roundtrip. Qed.

(* (5) unitext: UTF-16LE, all scalar values *)
Theorem C05_unitext_layout : forall cps len, cps <> [] -> forallb is_scalar cps = true -> last_nonzero cps = true ->
  layout_enc t_UNITEXT (VText cps) len = Some (utf16le cps) /\
  enc_value t_UNITEXT (VText cps) len = Ok (utf16le cps) /\ dec_value t_UNITEXT (utf16le cps) = Ok (VText cps).
Proof. exact unitext_layout_roundtrip. Qed.

(* (6) character / binary: the bytes themselves *)
Theorem C05_char_binary_layout : forall t bs len, bs <> [] ->
  (In t char_types -> layout_enc t (VStr bs) len = Some bs /\ enc_value t (VStr bs) len = Ok bs /\ dec_value t bs = Ok (VStr bs)) /\
  (In t bin_types -> layout_enc t (VBytes bs) len = Some bs /\ enc_value t (VBytes bs) len = Ok bs /\ dec_value t bs = Ok (VBytes bs)).
Proof.
  intros t bs len Hne. split; intros Ht.
  - destruct (char_roundtrip t bs len Ht Hne) as [E D]. split; [reflexivity|split; assumption].
  - destruct (binary_roundtrip t bs len Ht Hne) as [E D]. split; [reflexivity|split; assumption].
Qed.

(* (7) dates: int32 days since 1900-01-01 of the reference calendar, every day of the years 1..9999 *)
Theorem C05_date_layout : forall t tm, (t = t_DATE \/ t = t_DATEN) -> valid_time tm = true -> 1 <= cy tm <= 9999 ->
  exists bs, layout_enc t (VTime tm) 4 = Some bs /\ enc_value t (VTime tm) 4 = Ok bs /\
             dec_value t bs = Ok (VTime (CT (cy tm) (cmo tm) (cd tm) 0 0 0 0)).
Proof.
  intros t tm Ht V Hy. destruct (date_roundtrip t tm Ht V ltac:(lia)) as [E D].
  eexists. split; [apply date_layout; exact Ht|]. split; assumption.
Qed.

(* (8) datetime: int32 days + uint32 1/300 s ticks (nearest tick, carried into the next day when it is a whole day);
   the reference bytes decode to a valid instant within a tick, exactly when on a tick *)
Theorem C05_datetime_layout : forall t tm, (t = t_DATETIME \/ t = t_DATETIMEN) -> valid_time tm = true -> 1 <= cy tm <= 9999 ->
  exists bs tm', layout_enc t (VTime tm) 8 = Some bs /\ enc_value t (VTime tm) 8 = Ok bs /\
                 dec_value t bs = Ok (VTime tm') /\ valid_time tm' = true /\
                 300 * Z.abs (abs_ns tm' - abs_ns tm) < 1000000000 /\ (on_tick (tod_ns tm) = true -> tm' = tm).
Proof.
  intros t tm Ht V Hy. destruct (datetime_roundtrip t tm Ht V Hy) as [E [L [tm' [D [V' [W O]]]]]].
  exists (datetime_bytes tm), tm'. split; [apply datetime_layout; assumption|].
  repeat split; try assumption. unfold within_tick in W. apply Z.ltb_lt in W. exact W.
Qed.

(* (9) smalldatetime: uint16 days since 1900-01-01 + uint16 minutes *)
Theorem C05_smalldatetime_layout : forall t tm, (t = t_SHORTDATE \/ t = t_DATETIMEN) -> valid_time tm = true -> 1 <= cy tm <= 9999 ->
  0 <= ref_index (cy tm, cmo tm, cd tm) - ref_index_1900 <= 65535 ->
  exists bs, layout_enc t (VTime tm) 4 = Some bs /\ enc_value t (VTime tm) 4 = Ok bs /\
             dec_value t bs = Ok (VTime (CT (cy tm) (cmo tm) (cd tm) (ch tm) (cmi tm) 0 0)).
Proof.
  intros t tm Ht V Hy Hd. rewrite ref_index_1900_eq in Hd.
  destruct (small_roundtrip t tm Ht V Hy Hd) as [E [L D]].
  eexists. split; [apply small_layout; exact Ht|]. split; assumption.
Qed.

(* (10) time: uint32 1/300 s ticks since midnight, always below the count of a whole day *)
Theorem C05_time_layout : forall t tm, (t = t_TIME \/ t = t_TIMEN) -> valid_time tm = true ->
  exists bs, layout_enc t (VTime tm) 4 = Some bs /\ enc_value t (VTime tm) 4 = Ok bs /\
             0 <= le_of_bytes bs < 25920000 /\ exists tm', dec_value t bs = Ok (VTime tm') /\ valid_time tm' = true.
Proof.
  intros t tm Ht V. destruct (time_roundtrip t tm Ht V) as [E [K [tm' [D [V' _]]]]].
  eexists. split; [apply time_layout; assumption|]. split; [exact E|]. split.
  - rewrite GoIntFacts.le_of_le_put_u. change (8 * Z.of_nat 4) with 32.
    rewrite GoIntFacts.wrapu_small; [exact K|lia|change (2 ^ 32) with 4294967296; lia].
  - exists tm'. split; assumption.
Qed.

(* (11) bigdatetime / bigtime: uint64 microseconds since 0000-01-01 / midnight *)
Theorem C05_bigdatetime_layout : forall tm, valid_time tm = true -> 1 <= cy tm <= 9999 ->
  exists bs, layout_enc t_BIGDATETIMEN (VTime tm) 8 = Some bs /\ enc_value t_BIGDATETIMEN (VTime tm) 8 = Ok bs /\
    dec_value t_BIGDATETIMEN bs = Ok (VTime (CT (cy tm) (cmo tm) (cd tm) (ch tm) (cmi tm) (cs tm) (cns tm / 1000 * 1000))).
Proof.
  intros tm V Hy. destruct (bigdatetime_roundtrip tm V ltac:(lia)) as [E D].
  eexists. split; [apply bigdatetime_layout|]. split; assumption.
Qed.
Theorem C05_bigtime_layout : forall tm, valid_time tm = true ->
  exists bs, layout_enc t_BIGTIMEN (VTime tm) 8 = Some bs /\ enc_value t_BIGTIMEN (VTime tm) 8 = Ok bs /\
    dec_value t_BIGTIMEN bs = Ok (VTime (CT 1 1 1 (ch tm) (cmi tm) (cs tm) (cns tm / 1000 * 1000))).
Proof.
  intros tm V. destruct (bigtime_roundtrip tm V) as [E D].
  eexists. split; [apply bigtime_layout|]. split; assumption.
Qed.

(* (12) the calendar helpers agree with the reference calendar for every day of the years 1..9999 (10000):
   the Julian-day expression counts days like the reference; TimeToMicroseconds / DurationFromDateTime are the reference
   microsecond count since 0000-01-01; MicrosecondsToTime inverts both *)
Theorem C05_jdn_is_reference : forall y m d, 1 <= y <= 9999 -> 1 <= m <= 12 ->
  jdn y m d - jdn 1 1 1 = ref_index (y, m, d) /\ jdn y m d - jdn 1900 1 1 = ref_index (y, m, d) - ref_index_1900.
Proof.
  intros y m d Hy Hm. rewrite (jdn_ref y m d) by lia.
  change (jdn 1 1 1) with 1721426. change (jdn 1900 1 1) with 2415021. rewrite ref_index_1900_eq. lia.
Qed.
Theorem C05_time_to_microseconds : forall tm, valid_time tm = true -> 1 <= cy tm <= 9999 ->
  time_to_us tm = ref_us tm /\ dur_from_datetime tm = ref_us tm.
Proof. intros tm V Hy. split; [apply time_to_us_ref|apply dur_from_datetime_ref]; try assumption; lia. Qed.
Theorem C05_microseconds_to_time : forall tm, valid_time tm = true -> 1 <= cy tm <= 9999 ->
  us_to_time (ref_us tm) = CT (cy tm) (cmo tm) (cd tm) (ch tm) (cmi tm) (cs tm) (cns tm / 1000 * 1000) /\
  us_to_time (time_to_us tm) = CT (cy tm) (cmo tm) (cd tm) (ch tm) (cmi tm) (cs tm) (cns tm / 1000 * 1000).
Proof. intros tm V Hy. split; [apply us_to_time_ref|apply us_to_time_inverse]; try assumption; lia. Qed.
(* the Fliegel / Van Flandern date of MicrosecondsToTime is right for EVERY year >= 1 *)
Theorem C05_fliegel_all_years : forall y m d, 1 <= y -> 1 <= m <= 12 -> 1 <= d <= month_len y m ->
  fliegel_date (ref_index (y, m, d) + 366 - 693961) = (y, m, d).
Proof. exact fliegel_ref. Qed.

(* (13) summary: on the WHOLE domain of the property (C04.Spec.in_domain) the model satisfies the executable layout
   specification that every run applies to the implementation's output: the produced bytes are the reference layout, the
   reference bytes decode to the value (exact, or to the tick) and the decoded value has the same reference layout. *)
Theorem C05_model_meets_layout : forall t len v, in_domain t v len = true ->
  exists lb, layout_enc t v len = Some lb /\
    layout_ok t len v (TL [TB lb]) (enc_value t v len) (tree_of_outcome tree_of_value (dec_value t lb)) = true.
Proof. exact model_meets_layout. Qed.

(* (13b) "the bytes the library produces for a value": for every call on the value, and the caller's value stays the value.
   Every run calls DataType.Bytes twice on the SAME Go value object and renders the object before and after; the model
   (a function of an immutable value) answers the constant observation (1 1) = (second outcome equals the first, object
   unchanged), compared exactly with the implementation, and the specification of fn 1 demands it on every case. *)
Theorem C05_model_pure : forall i v, value_of_tree (t_nth 2 i) = Some v -> pure_ok (t_nth 2 (run 1 i)) = true.
Proof. exact layout_model_pure. Qed.
(* non-vacuity: for -123.45 as NUMN the model's output meets the specification; an implementation whose first encoding is
   the prescribed 01 30 39 but whose second call on the same object sends sign byte 00 (the object having lost its sign)
   does not, nor does one that only changes the caller's object *)
Example C05_ex_second_call :
  let i := TL [TI t_NUMN; TI 0; tree_of_value (VDec 5 2 (Some (-12345))); TL [TB [1; 48; 57]]] in
  let pos := tree_of_value (VDec 5 2 (Some 12345)) in
  spec 1 i (run 1 i) = true /\
  spec 1 i (TL [t_nth 0 (run 1 i); t_nth 1 (run 1 i); TL [TI 0; TI 0; TL [TI 0; TB [0; 48; 57]]; pos; pos]]) = false /\
  spec 1 i (TL [t_nth 0 (run 1 i); t_nth 1 (run 1 i); TL [TI 1; TI 0; TL [TI 0; TB [1; 48; 57]]; pos; pos]]) = false.
Proof. repeat split; vm_compute; reflexivity. Qed.

(* (14) documented vectors *)
Example C05_vec_1753 : layout_enc t_DATETIME (VTime (CT 1753 1 1 0 0 0 0)) 8 = Some (le_word 4 (-53690) ++ le_word 4 0)
  /\ enc_value t_DATETIME (VTime (CT 1753 1 1 0 0 0 0)) 8 = Ok [70; 46; 255; 255; 0; 0; 0; 0].
Proof. split; vm_compute; reflexivity. Qed.
Example C05_vec_9999 : layout_enc t_DATE (VTime (CT 9999 12 31 0 0 0 0)) 4 = Some (le_word 4 2958463)
  /\ enc_value t_DATE (VTime (CT 9999 12 31 0 0 0 0)) 4 = Ok [127; 36; 45; 0].
Proof. split; vm_compute; reflexivity. Qed.
Example C05_vec_smalldatetime_max : layout_enc t_SHORTDATE (VTime (CT 2079 6 6 23 59 0 0)) 4 = Some [255; 255; 159; 5]
  /\ enc_value t_SHORTDATE (VTime (CT 2079 6 6 23 59 0 0)) 4 = Ok [255; 255; 159; 5]
  /\ ref_index (2079, 6, 6) - ref_index_1900 = 65535.
Proof. repeat split; vm_compute; reflexivity. Qed.
Example C05_vec_money_max : enc_value t_MONEY (VDec 20 4 (Some (2 ^ 63 - 1))) 8 = Ok [255; 255; 255; 127; 255; 255; 255; 255]
  /\ layout_enc t_MONEY (VDec 20 4 (Some (2 ^ 63 - 1))) 8 = Some [255; 255; 255; 127; 255; 255; 255; 255].
Proof. split; vm_compute; reflexivity. Qed.
Example C05_vec_bigdatetime_0001 : enc_value t_BIGDATETIMEN (VTime (CT 1 1 1 0 0 0 0)) 8 = Ok (le_word 8 31622400000000)
  /\ ref_us (CT 1 1 1 0 0 0 0) = 31622400000000 /\ time_to_us (CT 1 1 1 0 0 0 0) = 31622400000000.
Proof. repeat split; vm_compute; reflexivity. Qed.
Example C05_vec_unitext_abc : enc_value t_UNITEXT (VText [97; 98; 99]) 6 = Ok [97; 0; 98; 0; 99; 0]
  /\ layout_enc t_UNITEXT (VText [97; 98; 99]) 6 = Some [97; 0; 98; 0; 99; 0].
Proof. split; vm_compute; reflexivity. Qed.
Example C05_vec_numeric : layout_enc t_NUMN (VDec 5 2 (Some (-12345))) 0 = Some [1; 48; 57]
  /\ enc_value t_NUMN (VDec 5 2 (Some (-12345))) 0 = Ok [1; 48; 57] /\ enc_value t_DECN (VDec 5 2 (Some 0)) 0 = Ok [0].
Proof. repeat split; vm_compute; reflexivity. Qed.
Example C05_vec_time_last_tick : layout_enc t_TIME (VTime (CT 1 1 1 23 59 59 999000000)) 4 = Some (le_word 4 25919999)
  /\ layout_enc t_DATETIME (VTime (CT 1999 12 31 23 59 59 999000000)) 8 = Some (le_word 4 36524 ++ le_word 4 0).
Proof. split; vm_compute; reflexivity. Qed.

Print Assumptions C05_le_word_byte.
Print Assumptions C05_be_mag_spec.
Print Assumptions C05_ref_index_is_walk.
Print Assumptions C05_int_layout.
Print Assumptions C05_float_layout.
Print Assumptions C05_money_layout.
Print Assumptions C05_shortmoney_layout.
Print Assumptions C05_numeric_layout.
Print Assumptions C05_unitext_layout.
Print Assumptions C05_char_binary_layout.
Print Assumptions C05_date_layout.
Print Assumptions C05_datetime_layout.
Print Assumptions C05_smalldatetime_layout.
Print Assumptions C05_time_layout.
Print Assumptions C05_bigdatetime_layout.
Print Assumptions C05_bigtime_layout.
Print Assumptions C05_jdn_is_reference.
Print Assumptions C05_time_to_microseconds.
Print Assumptions C05_microseconds_to_time.
Print Assumptions C05_fliegel_all_years.
Print Assumptions C05_model_meets_layout.
Print Assumptions C05_model_pure.
