(* C05 — placeholder while the model is being validated; replaced by the theorem file. *)
From Coq Require Import ZArith List Bool.
From V Require Import Base.Tree Base.Bytes C04.Model C05.Layout.
Open Scope Z_scope.
Example C05_placeholder : layout_enc 48 (VInt U8 7) 1 = Some (7 :: nil).
Proof. vm_compute. reflexivity. Qed.
Print Assumptions C05_placeholder.
