(* C05 reference layouts, written from the TDS 5.0 data type descriptions and NOT from the Go code:
   little-endian two's complement integers, IEEE bit patterns, money as the high word then the low word
   of the 1/10000 count, numeric as sign byte plus big-endian magnitude, dates as days since 1900-01-01
   of the reference calendar (C04/RefCalendar.v: next_day walking), times as 1/300 s ticks since midnight,
   smalldatetime as days and minutes, bigdatetime/bigtime as microseconds since 0000-01-01 / midnight,
   unitext as UTF-16LE.  No proofs here. *)
From Coq Require Import ZArith List Bool.
Import ListNotations.
From V Require Import Base.Bytes Gen.GenC04 C04.Calendar C04.Model C04.RefCalendar.
Open Scope Z_scope.

(* little-endian word of n bytes: byte i is floor(x / 256^i) mod 256 (two's complement for negative x);
   computed least significant byte first, C05_le_word_byte proves the characterisation *)
Fixpoint le_word (n : nat) (x : Z) : bytes :=
  match n with
  | O => []
  | S k => let (q, r) := Z.div_eucl x 256 in r :: le_word k q
  end.

(* big-endian magnitude without leading zero bytes (no byte at all for 0): positional notation base 256,
   the digits of m / 256 followed by the last digit m mod 256; fuel = number of bits, always enough
   (C05_be_mag_spec: the digits denote m and the first one is not 0) *)
Fixpoint be_mag_fuel (fuel : nat) (m : Z) : bytes :=
  match fuel with
  | O => []
  | S k => if m =? 0 then [] else be_mag_fuel k (m / 256) ++ [m mod 256]
  end.
Definition be_mag (m : Z) : bytes := be_mag_fuel (Z.to_nat (Z.log2 m + 1)) m.

(* UTF-16LE by definition *)
Definition utf16le_cp (c : Z) : bytes :=
  if c <? 65536 then [c mod 256; c / 256]
  else
    let v := c - 65536 in
    let hi := 55296 + v / 1024 in
    let lo := 56320 + v mod 1024 in
    [hi mod 256; hi / 256; lo mod 256; lo / 256].
Definition utf16le (cps : list Z) : bytes := flat_map utf16le_cp cps.

(* microseconds since midnight, the part below a microsecond is not representable *)
Definition tod_us (t : ctime) : Z := ch t * 3600000000 + cmi t * 60000000 + cs t * 1000000 + cns t / 1000.
(* the nearest 1/300 s tick of a microsecond count: floor(us * 300 / 10^6 + 1/2), fraction reduced by 100 *)
Definition nearest_tick (us : Z) : Z := (us * 3 + 5000) / 10000.
Definition ticks_per_day : Z := 25920000.
Definition days1900 (t : ctime) : Z := ref_index (cy t, cmo t, cd t) - ref_index_1900.
Definition days0000 (t : ctime) : Z := ref_index (cy t, cmo t, cd t) - ref_index_0000.

Definition width_of (k : ikind) : option nat := ik_width k.

Definition layout_enc (t : Z) (v : value) (len : Z) : option bytes :=
  match v with
  | VNull => Some []
  | VDec _ _ None => Some []
  | VInt k x => match width_of k with Some w => Some (le_word w x) | None => None end
  | VFlt w b => Some (le_word (Z.to_nat (w / 8)) b)
  | VBool b => Some [if b then 1 else 0]
  | VStr bs => Some bs
  | VBytes bs => Some bs
  | VText cps => Some (utf16le cps)
  | VDec _ _ (Some x) =>
      if is_in t [t_DECN; t_NUMN] then Some ((if x <? 0 then 1 else 0) :: be_mag (Z.abs x))
      else if len =? 4 then Some (le_word 4 x)
      else if len =? 8 then Some (le_word 4 (x / 2 ^ 32) ++ le_word 4 (x mod 2 ^ 32))
      else None
  | VTime tm =>
      if is_in t [t_DATE; t_DATEN] then Some (le_word 4 (days1900 tm))
      else if is_in t [t_TIME; t_TIMEN] then
        (* a tick count is below the count of a whole day: the last tick stands for the last half tick *)
        Some (le_word 4 (Z.min (nearest_tick (tod_us tm)) (ticks_per_day - 1)))
      else if is_in t [t_SHORTDATE; t_DATETIME; t_DATETIMEN] then
        if len =? 4 then Some (le_word 2 (days1900 tm) ++ le_word 2 (tod_us tm / 60000000))
        else if len =? 8 then
          let k := nearest_tick (tod_us tm) in
          if k =? ticks_per_day then Some (le_word 4 (days1900 tm + 1) ++ le_word 4 0)
          else Some (le_word 4 (days1900 tm) ++ le_word 4 k)
        else None
      else if t =? t_BIGDATETIMEN then Some (le_word 8 (days0000 tm * 86400000000 + tod_us tm))
      else if t =? t_BIGTIMEN then Some (le_word 8 (tod_us tm))
      else None
  end.
