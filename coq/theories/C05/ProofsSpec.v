(* C05: the model satisfies the executable layout specification (Spec.layout_ok) on the whole domain. *)
From Coq Require Import ZArith List Bool Lia ZifyBool.
Import ListNotations.
From V Require Import Base.Tree Base.Bytes Base.BytesFacts Base.Range Gen.GenC04
  C04.GoInt C04.GoIntFacts C04.Calendar C04.Utf16 C04.Model C04.Exchange C04.RefCalendar C04.Spec
  C04.RefCalFacts C04.CalFacts C04.CalSweep C04.ProofsScalar C04.ProofsUnitext C04.ProofsTemporal C04.ProofsSpec
  C05.Layout C05.Spec C05.Proofs.
Open Scope Z_scope.

Ltac Zify.zify_post_hook ::= Z.to_euclidean_division_equations.

Lemma value_tree_roundtrip v : (forall p s, v <> VDec p s None) -> value_of_tree (tree_of_value v) = Some v.
Proof.
  intros N. destruct v as [|k x|w b|b|bs|bs|cps|p s [x|]|tm]; try reflexivity.
  - destruct k; reflexivity.
  - destruct b; reflexivity.
  - exfalso. apply (N p s). reflexivity.
  - destruct tm; reflexivity.
Qed.

Definition nullish (v : value) : Prop := v = VNull \/ exists p s, v = VDec p s None.

Lemma equiv_from_spec t len v lb v' : in_domain t v len = true -> ~ nullish v ->
  enc_value t v len = Ok lb -> dec_value t lb = Ok v' -> equiv t len v v' = true.
Proof.
  intros D N E Dc. pose proof (model_meets_spec t len v (or_introl D)) as M. rewrite E, Dc in M.
  unfold roundtrip_ok in M. rewrite D in M.
  destruct v as [|k x|w b|b|bs|bs|cps|p s [x|]|tm];
    try solve [exfalso; apply N; left; reflexivity]; try solve [exfalso; apply N; right; eexists; eexists; reflexivity];
    apply andb_true_iff in M; destruct M as [_ M]; exact M.
Qed.

Lemma lo_ok t len v lb v' : in_domain t v len = true -> ~ nullish v ->
  layout_enc t v len = Some lb -> enc_value t v len = Ok lb -> dec_value t lb = Ok v' ->
  (forall p s, v' <> VDec p s None) -> layout_enc t v' len = Some lb ->
  layout_ok t len v (TL [TB lb]) (enc_value t v len) (tree_of_outcome tree_of_value (dec_value t lb)) = true.
Proof.
  intros D N L E Dc N' L'. pose proof (equiv_from_spec t len v lb v' D N E Dc) as Q.
  unfold layout_ok.
  replace (is_nullish v) with false
    by (destruct v as [|k x|w b|b|bs|bs|cps|p s [x|]|tm]; try reflexivity; exfalso; apply N;
        first [left; reflexivity|right; eexists; eexists; reflexivity]).
  rewrite D, L, E, Dc. cbn [tree_of_outcome value_outcome_of_tree]. rewrite value_tree_roundtrip by exact N'.
  rewrite Q, L'. unfold bytes_eqb. rewrite !list_Z_eqb_refl. reflexivity.
Qed.

(* re-encoding the decoded temporal values gives the same bytes *)
Lemma datetime_bytes_again tm tm' : valid_time tm = true -> valid_time tm' = true -> 1 <= cy tm <= 9999 ->
  abs_ns tm' = datetime_abs tm -> datetime_bytes tm' = datetime_bytes tm.
Proof.
  intros V V' Hy A.
  destruct (tod_ns_bounds tm V) as [TB TU]. pose proof (tod_us_bounds tm V) as UB.
  destruct (tod_ns_bounds tm' V') as [TB' TU']. pose proof (tod_us_bounds tm' V') as UB'.
  assert (AB : abs_ns tm' = ref_index (cy tm', cmo tm', cd tm') * 86400000000000 + tod_ns tm')
    by (unfold abs_ns, ref_abs_ns, tod_ns; lia).
  unfold datetime_abs in A. unfold datetime_bytes, ProofsTemporal.days1900.
  rewrite (us_to_frac_eq (ProofsTemporal.tod_us tm)) in * by lia. rewrite (us_to_frac_eq (ProofsTemporal.tod_us tm')) by lia.
  set (s := (6 * ProofsTemporal.tod_us tm + 10000) / 20000) in *.
  set (r := ref_index (cy tm, cmo tm, cd tm)) in *. set (r' := ref_index (cy tm', cmo tm', cd tm')) in *.
  assert (Sb : 0 <= s <= 25920000) by (unfold s; lia).
  destruct (s =? 25920000) eqn:Es.
  - assert (R : r' = r + 1 /\ tod_ns tm' = 0) by lia. destruct R as [R1 R2].
    assert (U0 : ProofsTemporal.tod_us tm' = 0) by lia. rewrite U0, R1.
    change ((6 * 0 + 10000) / 20000) with 0. change (0 =? 25920000) with false. cbv iota. do 2 f_equal. lia.
  - assert (R : r' = r /\ tod_ns tm' = s * 1000 / 300 * 1000 * 1000) by lia. destruct R as [R1 R2].
    assert (S' : (6 * ProofsTemporal.tod_us tm' + 10000) / 20000 = s) by lia.
    rewrite S', Es, R1. reflexivity.
Qed.

Lemma time_ticks_again tm tm' : valid_time tm = true -> valid_time tm' = true -> 0 <= time_ticks tm < 25920000 ->
  tod_ns tm' = time_ticks tm * 1000 / 300 * 1000000 -> time_ticks tm' = time_ticks tm.
Proof.
  intros V V' K T. destruct (tod_ns_bounds tm' V') as [TB' TU']. pose proof (tod_us_bounds tm' V') as UB'.
  set (k := time_ticks tm) in *. unfold time_ticks. rewrite (us_to_frac_eq (ProofsTemporal.tod_us tm')) by lia.
  assert (S' : (6 * ProofsTemporal.tod_us tm' + 10000) / 20000 = k) by lia.
  rewrite S'. replace (k =? 25920000) with false by lia. reflexivity.
Qed.

Theorem model_meets_layout : forall t len v, in_domain t v len = true ->
  exists lb, layout_enc t v len = Some lb /\
    layout_ok t len v (TL [TB lb]) (enc_value t v len) (tree_of_outcome tree_of_value (dec_value t lb)) = true.
Proof.
  intros t len v D.
  destruct v as [|k x|w b|b|bs|bs|cps|p s [x|]|tm]; try (cbn in D; discriminate).
  - (* integers *)
    pose proof D as D'. cbn [in_domain] in D'. apply andb_true_iff in D'. destruct D' as [R K].
    assert (H : fixed_int_kind t = Some k \/ intn_kind t k).
    { apply orb_true_iff in K. destruct K as [K|K]; [apply orb_true_iff in K; destruct K as [K|K]|].
      - left. destruct (fixed_int_kind t) as [k'|]; [|discriminate]. apply ikind_eqb_eq in K. subst. reflexivity.
      - right. left. apply andb_true_iff in K. destruct K as [Kt Kk]. apply Z.eqb_eq in Kt.
        split; [exact Kt|]. repeat (apply orb_true_iff in Kk; destruct Kk as [Kk|Kk]); apply ikind_eqb_eq in Kk; tauto.
      - right. right. apply andb_true_iff in K. destruct K as [Kt Kk]. apply Z.eqb_eq in Kt.
        split; [exact Kt|]. repeat (apply orb_true_iff in Kk; destruct Kk as [Kk|Kk]); apply ikind_eqb_eq in Kk; tauto. }
    destruct (int_layout_roundtrip t k x len H R) as [lb [L [E Dc]]]. exists lb. split; [exact L|].
    apply (lo_ok t len _ lb (VInt k x)); try assumption; try discriminate. intros [N|[p [s N]]]; discriminate.
  - (* floats *)
    assert (H : ((t = t_FLT4 \/ t = t_FLTN) /\ w = 32 /\ 0 <= b < 2 ^ 32) \/ ((t = t_FLT8 \/ t = t_FLTN) /\ w = 64 /\ 0 <= b < 2 ^ 64)).
    { cbn [in_domain] in D. unfold in_range in D. change (2 ^ 32) with 4294967296. change (2 ^ 64) with 18446744073709551616. lia. }
    destruct (flt_layout_roundtrip t w b len H) as [lb [L [E Dc]]]. exists lb. split; [exact L|].
    apply (lo_ok t len _ lb (VFlt w b)); try assumption; try discriminate. intros [N|[p [s N]]]; discriminate.
  - (* bit *)
    pose proof D as D'. cbn [in_domain] in D'. apply Z.eqb_eq in D'. subst t.
    exists [if b then 1 else 0]. split; [reflexivity|].
    apply (lo_ok t_BIT len _ _ (VBool b)); try assumption; try discriminate; try (destruct b; reflexivity).
    intros [N|[p [s N]]]; discriminate.
  - (* binary *)
    pose proof D as D'. cbn [in_domain] in D'. rewrite !andb_true_iff in D'. destruct D' as [[I Z0] B].
    apply is_in_In in I. assert (Hne : bs <> []) by (intros ->; cbn in Z0; discriminate).
    destruct (binary_roundtrip t bs len I Hne) as [E Dc]. exists bs. split; [reflexivity|].
    apply (lo_ok t len _ bs (VBytes bs)); try assumption; try discriminate; try reflexivity. intros [N|[p [s N]]]; discriminate.
  - (* character *)
    pose proof D as D'. cbn [in_domain] in D'. rewrite !andb_true_iff in D'. destruct D' as [[I Z0] B].
    apply is_in_In in I. assert (Hne : bs <> []) by (intros ->; cbn in Z0; discriminate).
    destruct (char_roundtrip t bs len I Hne) as [E Dc]. exists bs. split; [reflexivity|].
    apply (lo_ok t len _ bs (VStr bs)); try assumption; try discriminate; try reflexivity. intros [N|[p [s N]]]; discriminate.
  - (* unitext *)
    pose proof D as D'. cbn [in_domain] in D'. rewrite !andb_true_iff in D'. destruct D' as [[I S] L].
    apply Z.eqb_eq in I. subst t. assert (Hne : cps <> []) by (intros ->; cbn in L; discriminate).
    destruct (unitext_layout_roundtrip cps len Hne S L) as [La [E Dc]]. exists (utf16le cps). split; [exact La|].
    apply (lo_ok t_UNITEXT len _ (utf16le cps) (VText cps)); try assumption; try discriminate. intros [N|[p [s N]]]; discriminate.
  - (* money and decimals *)
    pose proof D as D'. cbn [in_domain] in D'. unfold in_range in D'.
    assert (NN : ~ nullish (VDec p s (Some x))) by (intros [N|[p0 [s0 N]]]; discriminate).
    destruct (is_in t [t_DECN; t_NUMN]) eqn:IsD.
    + assert (Ht : t = t_DECN \/ t = t_NUMN) by (apply is_in_or2; exact IsD).
      destruct (numeric_layout_roundtrip t p s x len Ht) as [lb [L [E Dc]]]. exists lb. split; [exact L|].
      apply (lo_ok t len _ lb (VDec 18 0 (Some x))); try assumption; try discriminate.
    + rewrite andb_false_l, orb_false_r in D'. cbn [ik_range] in D'. unfold in_range in D'.
      assert (H : ((t = t_MONEY \/ t = t_MONEYN) /\ len = 8 /\ - 2 ^ 63 <= x < 2 ^ 63) \/
                  ((t = t_SHORTMONEY \/ t = t_MONEYN) /\ len = 4 /\ - 2 ^ 31 <= x < 2 ^ 31)).
      { change (2 ^ 63) with 9223372036854775808. change (2 ^ 31) with 2147483648. lia. }
      destruct H as [[Ht [El Hx]]|[Ht [El Hx]]]; subst len.
      * destruct (money_layout_roundtrip t p s x Ht Hx) as [lb [L [E Dc]]]. exists lb. split; [exact L|].
        apply (lo_ok t 8 _ lb (VDec 20 4 (Some x))); try assumption; try discriminate.
      * destruct (shortmoney_layout_roundtrip t p s x Ht Hx) as [lb [L [E Dc]]]. exists lb. split; [exact L|].
        apply (lo_ok t 4 _ lb (VDec 10 4 (Some x))); try assumption; try discriminate.
  - (* temporal *)
    assert (NN : ~ nullish (VTime tm)) by (intros [N|[p0 [s0 N]]]; discriminate).
    pose proof D as D'. cbn [in_domain] in D'. apply andb_true_iff in D'. destruct D' as [V K].
    pose proof V as V'. apply valid_time_iff in V'. destruct V' as [[Vm Vd] [Vh [Vmi [Vs Vn]]]].
    assert (VD : valid_date (cy tm, cmo tm, cd tm) = true) by (apply valid_date_iff; lia).
    destruct (is_in t [t_DATE; t_DATEN]) eqn:IsDate.
    { assert (Ht : t = t_DATE \/ t = t_DATEN) by (apply is_in_or2; exact IsDate).
      assert (K' : len = 4 /\ 1 <= cy tm <= 9999) by dom_lia.
      destruct K' as [El Hy]. subst len.
      destruct (date_roundtrip t tm Ht V ltac:(lia)) as [E Dc].
      eexists. split; [apply date_layout; exact Ht|].
      eapply (lo_ok t 4 _ _ _ D NN); try eassumption; try discriminate;
        first [apply date_layout; exact Ht|rewrite date_layout by exact Ht; reflexivity]. }
    destruct (is_in t [t_TIME; t_TIMEN]) eqn:IsTime.
    { assert (Ht : t = t_TIME \/ t = t_TIMEN) by (apply is_in_or2; exact IsTime).
      assert (El : len = 4) by dom_lia. subst len.
      destruct (time_roundtrip t tm Ht V) as [E [KB [tm' [Dc [V' [C [W [S [O T]]]]]]]]].
      eexists. split; [apply time_layout; assumption|].
      eapply (lo_ok t 4 _ _ _ D NN); try eassumption; try discriminate; try (apply time_layout; assumption).
      rewrite time_layout by assumption. rewrite (time_ticks_again tm tm') by assumption. reflexivity. }
    destruct (len =? 4) eqn:L4.
    { apply Z.eqb_eq in L4. subst len.
      assert (Ht : t = t_SHORTDATE \/ t = t_DATETIMEN) by dom_lia.
      assert (SO : small_ok tm = true) by (destruct (small_ok tm); [reflexivity|exfalso; dom_lia]).
      pose proof (small_ok_year tm V SO) as Hy.
      assert (Hd : 0 <= ProofsTemporal.days1900 tm <= 65535).
      { unfold small_ok in SO. rewrite ref_index_1900_eq in SO. unfold ProofsTemporal.days1900. lia. }
      destruct (small_roundtrip t tm Ht V Hy Hd) as [E [L Dc]].
      eexists. split; [apply small_layout; exact Ht|].
      eapply (lo_ok t 4 _ _ _ D NN); try eassumption; try discriminate; try (apply small_layout; exact Ht).
      rewrite small_layout by exact Ht. f_equal. unfold small_bytes, ProofsTemporal.days1900, ProofsTemporal.tod_us.
      cbn [cy cmo cd ch cmi cs cns]. do 2 f_equal. lia. }
    destruct (is_in t [t_DATETIME; t_DATETIMEN]) eqn:IsDT.
    { assert (Ht : t = t_DATETIME \/ t = t_DATETIMEN) by (apply is_in_or2; exact IsDT).
      assert (K' : len = 8 /\ 1 <= cy tm <= 9999) by dom_lia.
      destruct K' as [El Hy]. subst len.
      destruct (datetime_roundtrip_abs t tm Ht V Hy) as [E [L [tm' [Dc [V' [W [O [A Y']]]]]]]].
      eexists. split; [apply datetime_layout; assumption|].
      eapply (lo_ok t 8 _ _ _ D NN); try eassumption; try discriminate; try (apply datetime_layout; assumption).
      rewrite datetime_layout by assumption. rewrite (datetime_bytes_again tm tm') by assumption. reflexivity. }
    destruct (t =? t_BIGDATETIMEN) eqn:IsB.
    { assert (K' : len = 8 /\ 1 <= cy tm <= 9999) by dom_lia.
      apply Z.eqb_eq in IsB. subst t.
      destruct K' as [El Hy]. subst len.
      destruct (bigdatetime_roundtrip tm V ltac:(lia)) as [E Dc].
      eexists. split; [apply bigdatetime_layout|].
      eapply (lo_ok t_BIGDATETIMEN 8 _ _ _ D NN); try eassumption; try discriminate; try apply bigdatetime_layout.
      rewrite bigdatetime_layout. do 2 f_equal. unfold bigdatetime_us, ProofsTemporal.tod_us. cbn [cy cmo cd ch cmi cs cns]. lia. }
    assert (K' : t = t_BIGTIMEN /\ len = 8) by dom_lia. destruct K' as [Et El]. subst t len.
    destruct (bigtime_roundtrip tm V) as [E Dc].
    eexists. split; [apply bigtime_layout|].
    eapply (lo_ok t_BIGTIMEN 8 _ _ _ D NN); try eassumption; try discriminate; try apply bigtime_layout.
    rewrite bigtime_layout. do 2 f_equal. unfold ProofsTemporal.tod_us. cbn [cy cmo cd ch cmi cs cns]. lia.
Qed.

(* the model's fn 1 output carries the purity observation the specification demands *)
Lemma layout_model_pure i v : value_of_tree (t_nth 2 i) = Some v -> pure_ok (t_nth 2 (run 1 i)) = true.
Proof. intros H. change (run 1 i) with (run_layout i). unfold run_layout. rewrite H. reflexivity. Qed.
