(* C05 specification and dispatch: implementation bytes vs reference layout, implementation decode of
   reference bytes vs the value, asetime calendar helpers vs the reference calendar.  No proofs here. *)
From Coq Require Import ZArith List Bool.
Import ListNotations.
From V Require Import Base.Tree Base.Bytes Gen.GenC04 C04.GoInt C04.Calendar C04.Model C04.Exchange C04.RefCalendar C04.Spec C05.Layout.
Open Scope Z_scope.

Definition bytes_eqb (a b : bytes) : bool := list_Z_eqb a b.

(* fn 1: input (t len v ref) with ref = () or (#reference-bytes computed by the harness' own codec);
   output (enc-outcome dref pure) with dref = () or the implementation's decode outcome of the reference bytes and
   pure = the observation that a second Bytes call on the same value object gives the same outcome and that the value
   object is unchanged by encoding (C04/Spec.v pure_obs / pure_ok): the prescribed bytes for every call, not only the first *)
Definition run_layout (i : tree) : tree :=
  let t := t_int (t_nth 0 i) in
  let len := t_int (t_nth 1 i) in
  match value_of_tree (t_nth 2 i) with
  | Some v =>
      TL [tree_of_outcome TB (enc_value t v len);
          match t_nth 3 i with
          | TL [TB rb] => tree_of_outcome tree_of_value (dec_value t rb)
          | _ => TL []
          end;
          pure_obs]
  | None => tbad
  end.

Definition is_nullish (v : value) : bool := match v with VNull => true | VDec _ _ None => true | _ => false end.

Definition layout_ok (t len : Z) (v : value) (ref : tree) (eo : outcome bytes) (dref : tree) : bool :=
  if is_nullish v then
    if nullable t && (match v with VNull => true | _ => is_in t [t_MONEYN; t_DECN; t_NUMN] end) then
      match eo with Ok [] => true | _ => false end
    else true
  else if in_domain t v len then
    match layout_enc t v len, ref, eo, value_outcome_of_tree dref with
    | Some lb, TL [TB rb], Ok bs, Some (Ok v') =>
        bytes_eqb bs lb                       (* the library's bytes are the prescribed ones *)
        && bytes_eqb rb lb                    (* the harness' reference codec agrees with this reference *)
        && equiv t len v v'                   (* reference bytes decode to the value (to the tick) *)
        && (match layout_enc t v' len with Some lb' => bytes_eqb lb' lb | None => false end)
    | _, _, _, _ => false
    end
  else true.

Definition us_ok (t : ctime) : bool := valid_time t && year_ok t.
Definition ref_us (t : ctime) : Z := days0000 t * 86400000000 + tod_us t.

Definition spec_helper (i o : tree) : bool :=
  let arg := t_nth 1 i in
  match t_int (t_nth 0 i) with
  | 1 | 3 => let t := time_of_tree arg in if us_ok t then t_int o =? ref_us t else true
  | 2 =>
      (* every microsecond count of years 0..9999 is a valid civil time with that count *)
      let us := t_int arg in
      if (0 <=? us) && (us <? 315569520000000000) then
        let t := time_of_tree o in valid_time t && (cns t mod 1000 =? 0) && (ref_us t =? us)
      else true
  | 4 => let t := time_of_tree arg in if valid_time t then t_int o =? tod_us t else true
  | 5 => let us := t_int arg in if 0 <=? us then t_int o =? nearest_tick us else true
  | 6 =>
      (* a tick count as whole milliseconds, truncated *)
      let k := t_int arg in let r := t_int o in
      if 0 <=? k then (r mod 1000 =? 0) && (r * 300 <=? k * 1000000) && (k * 1000000 <? (r + 1000) * 300) else true
  | 7 =>
      let t := time_of_tree arg in
      if us_ok t then ctime_eqb (time_of_tree o) (CT (cy t) (cmo t) (cd t) (ch t) (cmi t) (cs t) (cns t / 1000 * 1000)) else true
  | _ => false
  end.

Definition run (fn : Z) (i : tree) : tree :=
  match fn with
  | 1 => run_layout i
  | 4 => run_helper i
  | 9 => TL [t_nth 1 i; TI 0]
  | _ => tbad
  end.

Definition spec (fn : Z) (i o : tree) : bool :=
  match fn with
  | 1 =>
      let t := t_int (t_nth 0 i) in
      let len := t_int (t_nth 1 i) in
      match value_of_tree (t_nth 2 i), bytes_outcome_of_tree (t_nth 0 o) with
      | Some v, Some eo => layout_ok t len v (t_nth 3 i) eo (t_nth 1 o) && pure_ok (t_nth 2 o)
      | _, _ => false
      end
  | 4 => spec_helper i o
  | 9 => t_int (t_nth 1 o) =? 0
  | _ => false
  end.
