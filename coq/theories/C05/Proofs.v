(* C05 proofs: the implementation model produces the reference layouts, reference bytes decode to the value,
   the calendar helpers agree with the reference calendar. *)
From Coq Require Import ZArith List Bool Lia ZifyBool.
Import ListNotations.
From V Require Import Base.Tree Base.Bytes Base.BytesFacts Base.Range Gen.GenC04
  C04.GoInt C04.GoIntFacts C04.Calendar C04.Utf16 C04.Model C04.Exchange C04.RefCalendar C04.Spec
  C04.RefCalFacts C04.CalFacts C04.CalSweep C04.ProofsScalar C04.ProofsUnitext C04.ProofsTemporal C05.Layout.
Open Scope Z_scope.

Ltac Zify.zify_post_hook ::= Z.to_euclidean_division_equations.

(* ---------- little-endian words ---------- *)
Lemma le_word_eq n : forall x, le_word n x = bytes_of_le n x.
Proof.
  induction n as [|n IH]; intros x; [reflexivity|].
  cbn [le_word bytes_of_le]. unfold Z.modulo, Z.div. destruct (Z.div_eucl x 256) as [q r]. rewrite IH. reflexivity.
Qed.

Lemma bytes_of_le_mod n : forall x, bytes_of_le n (x mod 256 ^ Z.of_nat n) = bytes_of_le n x.
Proof.
  induction n as [|n IH]; intros x; [reflexivity|].
  cbn [bytes_of_le]. rewrite Nat2Z.inj_succ, Z.pow_succ_r by lia.
  assert (P : 0 < 256 ^ Z.of_nat n) by (apply Z.pow_pos_nonneg; lia).
  rewrite Z.rem_mul_r by lia.
  f_equal.
  - rewrite Z.mul_comm, Z_mod_plus_full. apply Z.mod_mod. lia.
  - rewrite <- (IH (x / 256)). f_equal.
    rewrite Z.mul_comm, Z.div_add by lia. rewrite (Z.div_small (x mod 256)) by (apply Z.mod_pos_bound; lia). lia.
Qed.

Lemma le_word_le_put n x : le_word n x = le_put n x.
Proof.
  unfold le_put. rewrite le_word_eq, le_bytes_eq, wrapu_eq, <- pow256 by lia. symmetry. apply bytes_of_le_mod.
Qed.

(* the characterisation of the reference word: byte i is floor(x / 256^i) mod 256 *)
Lemma le_word_byte : forall n x i, (i < n)%nat -> nth i (le_word n x) 0 = (x / 256 ^ Z.of_nat i) mod 256.
Proof.
  induction n as [|n IH]; intros x i Hi; [lia|].
  rewrite le_word_eq. cbn [bytes_of_le]. destruct i as [|i].
  - cbn [nth]. change (256 ^ Z.of_nat 0) with 1. rewrite Z.div_1_r. reflexivity.
  - cbn [nth]. rewrite <- le_word_eq, IH by lia.
    rewrite Nat2Z.inj_succ, Z.pow_succ_r by lia. rewrite Z.div_div by (try lia; apply Z.pow_pos_nonneg; lia). reflexivity.
Qed.

(* ---------- numeric magnitude ---------- *)
Lemma be_digits_mag : forall k v acc, be_digits k v acc = be_mag_fuel k v ++ acc.
Proof.
  induction k as [|k IH]; intros v acc; [reflexivity|].
  cbn [be_digits be_mag_fuel]. destruct (v =? 0); [reflexivity|].
  rewrite IH, <- app_assoc. reflexivity.
Qed.

Lemma be_min_mag v : be_min v = be_mag v.
Proof. unfold be_min, be_mag. rewrite be_digits_mag, app_nil_r. reflexivity. Qed.

Lemma be_mag_fuel_nil k m : be_mag_fuel (S k) m = [] -> m = 0.
Proof.
  cbn [be_mag_fuel]. destruct (m =? 0) eqn:E; [intros _; apply Z.eqb_eq; exact E|].
  destruct (be_mag_fuel k (m / 256)); discriminate.
Qed.

(* no leading zero digit (enough fuel: m < 2^fuel) *)
Lemma be_mag_fuel_head : forall k m, 0 <= m < 2 ^ Z.of_nat k -> be_mag_fuel k m = [] \/ hd 0 (be_mag_fuel k m) <> 0.
Proof.
  induction k as [|k IH]; intros m Hm; [left; reflexivity|].
  cbn [be_mag_fuel]. destruct (m =? 0) eqn:E; [left; reflexivity|]. right. apply Z.eqb_neq in E.
  rewrite Nat2Z.inj_succ, Z.pow_succ_r in Hm by lia.
  assert (Hq : 0 <= m / 256 < 2 ^ Z.of_nat k) by lia.
  destruct (IH (m / 256) Hq) as [N|N].
  - rewrite N. cbn [app hd]. destruct k as [|k].
    + change (2 ^ Z.of_nat 0) with 1 in Hm. lia.
    + apply be_mag_fuel_nil in N. lia.
  - destruct (be_mag_fuel k (m / 256)) as [|h r]; [cbn [hd] in N; congruence|]. cbn [app hd] in *. exact N.
Qed.

Lemma be_mag_spec m : 0 <= m -> be_of_bytes (be_mag m) = m /\ (be_mag m = [] \/ hd 0 (be_mag m) <> 0).
Proof.
  intros Hm. split.
  - rewrite <- be_min_mag. apply be_min_value. exact Hm.
  - unfold be_mag. apply be_mag_fuel_head. rewrite Z2Nat.id by (pose proof (Z.log2_nonneg m); lia).
    destruct (Z.eq_dec m 0) as [E|NE]; [subst m; change (Z.log2 0 + 1) with 1; change (2 ^ 1) with 2; lia|]. split; [exact Hm|]. apply Z.log2_spec. lia.
Qed.

(* ---------- UTF-16LE ---------- *)
Lemma utf16le_cp_eq c : is_scalar c = true -> units_to_le (utf16_enc1 c) = utf16le_cp c.
Proof.
  intros H. apply is_scalar_iff in H. unfold utf16_enc1, utf16le_cp, surr1, surr2, surr3, surr_self, max_rune.
  destruct (((0 <=? c) && (c <? 55296)) || ((57344 <=? c) && (c <? 65536))) eqn:E.
  - replace (c <? 65536) with true by lia. cbn [units_to_le flat_map app]. f_equal. f_equal. lia.
  - replace (c <? 65536) with false by lia. replace ((65536 <=? c) && (c <=? 1114111)) with true by lia.
    assert (R : 65536 <= c <= 1114111) by lia.
    assert (Q : ((c - 65536) / 1024) mod 1024 = (c - 65536) / 1024) by (apply Z.mod_small; lia).
    rewrite Q. cbn [units_to_le flat_map app].
    set (hi := 55296 + (c - 65536) / 1024). set (lo := 56320 + (c - 65536) mod 1024).
    assert (Hh : 0 <= hi < 65536) by (unfold hi; lia). assert (Hl : 0 <= lo < 65536) by (unfold lo; lia).
    f_equal. f_equal; [lia|]. f_equal. f_equal. lia.
Qed.

Lemma units_to_le_app a b : units_to_le (a ++ b) = units_to_le a ++ units_to_le b.
Proof. unfold units_to_le. apply flat_map_app. Qed.

Lemma utf16le_eq cps : forallb is_scalar cps = true -> units_to_le (utf16_encode cps) = utf16le cps.
Proof.
  induction cps as [|c cps IH]; intros H; [reflexivity|].
  cbn [forallb] in H. apply andb_true_iff in H. destruct H as [H1 H2].
  unfold utf16_encode, utf16le. cbn [flat_map]. fold (utf16_encode cps). fold (utf16le cps).
  rewrite units_to_le_app, utf16le_cp_eq, IH by assumption. reflexivity.
Qed.

(* ---------- the reference layout of every class equals the bytes the model produces ---------- *)
Lemma int_layout t k w x len : ik_width k = Some w -> layout_enc t (VInt k x) len = Some (le_put w x).
Proof. intros H. unfold layout_enc, width_of. rewrite H, le_word_le_put. reflexivity. Qed.

Lemma int_layout_roundtrip : forall t k x len, (fixed_int_kind t = Some k \/ intn_kind t k) -> ik_range k x = true ->
  exists bs, layout_enc t (VInt k x) len = Some bs /\ enc_value t (VInt k x) len = Ok bs /\ dec_value t bs = Ok (VInt k x).
Proof.
  intros t k x len Hk Hr.
  assert (W : exists w, ik_width k = Some w).
  { destruct k; cbn [ik_width]; try (eexists; reflexivity); cbn [ik_range] in Hr; discriminate. }
  destruct W as [w W]. exists (le_put w x). split; [apply int_layout; exact W|].
  destruct Hk as [Hk|Hk].
  - destruct (int_roundtrip t k x len Hk Hr) as [bs [E [_ [_ D]]]].
    assert (E' : enc_value t (VInt k x) len = Ok (le_put w x)).
    { destruct (fixed_int_cases t k Hk) as [[Et Ek]|[[Et Ek]|[[Et Ek]|[[Et Ek]|[[Et Ek]|[[Et Ek]|[Et Ek]]]]]]]; subst t k;
      inversion W; subst w; apply enc_default_int; try reflexivity; right; reflexivity. }
    rewrite E' in E. inversion E; subst bs. split; [exact E'|exact D].
  - destruct (intn_roundtrip t k x len Hk Hr) as [bs [E [_ D]]].
    assert (E' : enc_value t (VInt k x) len = Ok (le_put w x)).
    { destruct Hk as [[Et Hk]|[Et Hk]]; subst t; apply enc_default_int; try reflexivity; try exact W; left; reflexivity. }
    rewrite E' in E. inversion E; subst bs. split; [exact E'|exact D].
Qed.

Lemma flt_layout_roundtrip : forall t w bits len,
  ((t = t_FLT4 \/ t = t_FLTN) /\ w = 32 /\ 0 <= bits < 2 ^ 32) \/
  ((t = t_FLT8 \/ t = t_FLTN) /\ w = 64 /\ 0 <= bits < 2 ^ 64) ->
  exists bs, layout_enc t (VFlt w bits) len = Some bs /\ enc_value t (VFlt w bits) len = Ok bs /\ dec_value t bs = Ok (VFlt w bits).
Proof.
  intros t w bits len H. destruct (flt_roundtrip t w bits len H) as [bs [E [_ [_ D]]]].
  exists bs. split; [|split; assumption].
  assert (N : exists n, (w = 32 /\ n = 4%nat \/ w = 64 /\ n = 8%nat) /\ enc_class_of t = EDefault /\ (bytesize t = -1 \/ bytesize t = Z.of_nat n)).
  { destruct H as [[[Et|Et] [Ew _]]|[[Et|Et] [Ew _]]]; subst t w;
      [exists 4%nat|exists 4%nat|exists 8%nat|exists 8%nat]; (split; [tauto|]); (split; [reflexivity|]);
      first [left; reflexivity|right; reflexivity]. }
  destruct N as [n [Hw [Hc Hs]]]. rewrite (enc_default_flt t w n bits len Hc Hw Hs) in E. inversion E; subst bs.
  unfold layout_enc. destruct Hw as [[Ew En]|[Ew En]]; subst w n; rewrite <- le_word_le_put; reflexivity.
Qed.

Lemma money_layout_roundtrip : forall t p s x, (t = t_MONEY \/ t = t_MONEYN) -> - 2 ^ 63 <= x < 2 ^ 63 ->
  exists bs, layout_enc t (VDec p s (Some x)) 8 = Some bs /\ enc_value t (VDec p s (Some x)) 8 = Ok bs /\
             dec_value t bs = Ok (VDec 20 4 (Some x)).
Proof.
  intros t p s x Ht Hx. destruct (money8_roundtrip t p s x Ht Hx) as [bs [E [_ [_ D]]]].
  exists bs. split; [|split; assumption].
  assert (E' : enc_value t (VDec p s (Some x)) 8 = Ok (le_put 4 (x / 4294967296) ++ le_put 4 x)).
  { destruct Ht as [Et|Et]; subst t; unfold enc_value;
    [change (enc_class_of t_MONEY) with EMoney|change (enc_class_of t_MONEYN) with EMoney];
    cbn [Z.ltb Z.eqb Z.compare Pos.eqb]; rewrite big_int64_small by exact Hx; reflexivity. }
  rewrite E' in E. inversion E; subst bs.
  unfold layout_enc. replace (is_in t [t_DECN; t_NUMN]) with false by (destruct Ht; subst t; reflexivity).
  change (8 =? 4) with false. change (8 =? 8) with true. cbv iota. change (2 ^ 32) with 4294967296.
  rewrite !le_word_le_put. do 2 f_equal.
  unfold le_put. rewrite !wrapu_eq by lia. change (8 * Z.of_nat 4) with 32. change (2 ^ 32) with 4294967296.
  rewrite Z.mod_mod by lia. reflexivity.
Qed.

Lemma shortmoney_layout_roundtrip : forall t p s x, (t = t_SHORTMONEY \/ t = t_MONEYN) -> - 2 ^ 31 <= x < 2 ^ 31 ->
  exists bs, layout_enc t (VDec p s (Some x)) 4 = Some bs /\ enc_value t (VDec p s (Some x)) 4 = Ok bs /\
             dec_value t bs = Ok (VDec 10 4 (Some x)).
Proof.
  intros t p s x Ht Hx. destruct (money4_roundtrip t p s x Ht Hx) as [bs [E [_ [_ D]]]].
  exists bs. split; [|split; assumption].
  assert (Hx' : - 2 ^ 63 <= x < 2 ^ 63) by (change (2 ^ 31) with 2147483648 in Hx; change (2 ^ 63) with 9223372036854775808; lia).
  assert (E' : enc_value t (VDec p s (Some x)) 4 = Ok (le_put 4 x)).
  { destruct Ht as [Et|Et]; subst t; unfold enc_value;
    [change (enc_class_of t_SHORTMONEY) with EMoney|change (enc_class_of t_MONEYN) with EMoney];
    cbn [Z.ltb Z.eqb Z.compare Pos.eqb]; rewrite big_int64_small by exact Hx'; reflexivity. }
  rewrite E' in E. inversion E; subst bs.
  unfold layout_enc. replace (is_in t [t_DECN; t_NUMN]) with false by (destruct Ht; subst t; reflexivity).
  change (4 =? 4) with true. cbv iota. rewrite le_word_le_put. reflexivity.
Qed.

Lemma numeric_layout_roundtrip : forall t p s x len, (t = t_DECN \/ t = t_NUMN) ->
  exists bs, layout_enc t (VDec p s (Some x)) len = Some bs /\ enc_value t (VDec p s (Some x)) len = Ok bs /\
             dec_value t bs = Ok (VDec 18 0 (Some x)).
Proof.
  intros t p s x len Ht. destruct (numeric_roundtrip t p s x len Ht) as [bs [E [_ [_ D]]]].
  exists bs. split; [|split; assumption].
  assert (E' : enc_value t (VDec p s (Some x)) len = Ok ((if x <? 0 then 1 else 0) :: be_min (Z.abs x)))
    by (destruct Ht; subst t; reflexivity).
  rewrite E' in E. inversion E; subst bs.
  unfold layout_enc. replace (is_in t [t_DECN; t_NUMN]) with true by (destruct Ht; subst t; reflexivity).
  rewrite be_min_mag. reflexivity.
Qed.

Lemma unitext_layout_roundtrip : forall cps len, cps <> [] -> forallb is_scalar cps = true -> last_nonzero cps = true ->
  layout_enc t_UNITEXT (VText cps) len = Some (utf16le cps) /\
  enc_value t_UNITEXT (VText cps) len = Ok (utf16le cps) /\ dec_value t_UNITEXT (utf16le cps) = Ok (VText cps).
Proof.
  intros cps len Hne Hs Hl. destruct (unitext_roundtrip cps len Hne Hs Hl) as [E D].
  rewrite utf16le_eq in E, D by exact Hs. split; [reflexivity|split; assumption].
Qed.

(* ---------- temporal layouts ---------- *)
Lemma tod_us_same tm : Layout.tod_us tm = ProofsTemporal.tod_us tm.
Proof. reflexivity. Qed.
Lemma days1900_same tm : Layout.days1900 tm = ProofsTemporal.days1900 tm.
Proof. unfold Layout.days1900, ProofsTemporal.days1900. rewrite ref_index_1900_eq. reflexivity. Qed.
Lemma ref_index_0000_eq : ref_index_0000 = -366.
Proof. vm_compute. reflexivity. Qed.

Lemma nearest_tick_eq us : 0 <= us -> nearest_tick us = us_to_frac us.
Proof. intros H. rewrite us_to_frac_eq by exact H. unfold nearest_tick. lia. Qed.

Lemma date_layout t tm len : (t = t_DATE \/ t = t_DATEN) ->
  layout_enc t (VTime tm) len = Some (le_put 4 (ProofsTemporal.days1900 tm)).
Proof.
  intros Ht. unfold layout_enc. replace (is_in t [t_DATE; t_DATEN]) with true by (destruct Ht; subst t; reflexivity).
  rewrite le_word_le_put, days1900_same. reflexivity.
Qed.

Lemma time_layout t tm len : (t = t_TIME \/ t = t_TIMEN) -> valid_time tm = true ->
  layout_enc t (VTime tm) len = Some (le_put 4 (time_ticks tm)).
Proof.
  intros Ht V. pose proof (tod_us_bounds tm V) as UB. unfold layout_enc.
  replace (is_in t [t_DATE; t_DATEN]) with false by (destruct Ht; subst t; reflexivity).
  replace (is_in t [t_TIME; t_TIMEN]) with true by (destruct Ht; subst t; reflexivity).
  rewrite le_word_le_put, tod_us_same, nearest_tick_eq by lia. do 2 f_equal.
  unfold time_ticks, ticks_per_day. rewrite (us_to_frac_eq (ProofsTemporal.tod_us tm)) by lia.
  destruct (_ =? _) eqn:E; lia.
Qed.

Lemma datetime_layout t tm : (t = t_DATETIME \/ t = t_DATETIMEN) -> valid_time tm = true ->
  layout_enc t (VTime tm) 8 = Some (datetime_bytes tm).
Proof.
  intros Ht V. pose proof (tod_us_bounds tm V) as UB. unfold layout_enc.
  replace (is_in t [t_DATE; t_DATEN]) with false by (destruct Ht; subst t; reflexivity).
  replace (is_in t [t_TIME; t_TIMEN]) with false by (destruct Ht; subst t; reflexivity).
  replace (is_in t [t_SHORTDATE; t_DATETIME; t_DATETIMEN]) with true by (destruct Ht; subst t; reflexivity).
  change (8 =? 4) with false. change (8 =? 8) with true. cbv iota.
  rewrite !le_word_le_put, tod_us_same, days1900_same, nearest_tick_eq by lia.
  unfold datetime_bytes, ticks_per_day. destruct (_ =? _); reflexivity.
Qed.

Lemma small_layout t tm : (t = t_SHORTDATE \/ t = t_DATETIMEN) ->
  layout_enc t (VTime tm) 4 = Some (small_bytes tm).
Proof.
  intros Ht. unfold layout_enc.
  replace (is_in t [t_DATE; t_DATEN]) with false by (destruct Ht; subst t; reflexivity).
  replace (is_in t [t_TIME; t_TIMEN]) with false by (destruct Ht; subst t; reflexivity).
  replace (is_in t [t_SHORTDATE; t_DATETIME; t_DATETIMEN]) with true by (destruct Ht; subst t; reflexivity).
  change (4 =? 4) with true. cbv iota. rewrite !le_word_le_put, tod_us_same, days1900_same. reflexivity.
Qed.

Lemma bigdatetime_layout tm len : layout_enc t_BIGDATETIMEN (VTime tm) len = Some (le_put 8 (bigdatetime_us tm)).
Proof.
  unfold layout_enc. change (is_in t_BIGDATETIMEN [t_DATE; t_DATEN]) with false.
  change (is_in t_BIGDATETIMEN [t_TIME; t_TIMEN]) with false.
  change (is_in t_BIGDATETIMEN [t_SHORTDATE; t_DATETIME; t_DATETIMEN]) with false.
  change (t_BIGDATETIMEN =? t_BIGDATETIMEN) with true. cbv iota.
  rewrite le_word_le_put. unfold days0000, bigdatetime_us. rewrite ref_index_0000_eq, tod_us_same.
  do 2 f_equal; try lia.
Qed.

Lemma bigtime_layout tm len : layout_enc t_BIGTIMEN (VTime tm) len = Some (le_put 8 (ProofsTemporal.tod_us tm)).
Proof.
  unfold layout_enc. change (is_in t_BIGTIMEN [t_DATE; t_DATEN]) with false.
  change (is_in t_BIGTIMEN [t_TIME; t_TIMEN]) with false.
  change (is_in t_BIGTIMEN [t_SHORTDATE; t_DATETIME; t_DATETIMEN]) with false.
  change (t_BIGTIMEN =? t_BIGDATETIMEN) with false. change (t_BIGTIMEN =? t_BIGTIMEN) with true. cbv iota.
  rewrite le_word_le_put. reflexivity.
Qed.

(* ---------- calendar helpers vs the reference calendar ---------- *)
Definition ref_us (tm : ctime) : Z := days0000 tm * 86400000000 + Layout.tod_us tm.

Lemma time_to_us_ref tm : valid_time tm = true -> 1 <= cy tm <= 10000 -> time_to_us tm = ref_us tm.
Proof.
  intros V Hy. pose proof (tod_us_bounds tm V) as UB. pose proof (valid_day_le_31 tm V) as D31.
  pose proof V as V'. apply valid_time_iff in V'. destruct V' as [[Vm Vd] [Vh [Vmi [Vs Vn]]]].
  pose proof (ref_index_bounds (cy tm) (cmo tm) (cd tm) Hy Vm D31) as RB.
  unfold time_to_us, ref_us, days0000. rewrite ref_index_0000_eq, jdn_ref by lia.
  assert (W : forall x, 0 <= x < 18446744073709551616 -> u64 x = x).
  { intros x Hx. unfold u64. apply wrapu_small; [lia|]. change (2 ^ 64) with 18446744073709551616. exact Hx. }
  rewrite (W (1721426 + ref_index (cy tm, cmo tm, cd tm) - 1721425)) by lia.
  rewrite (W (ch tm * 3600000000000)), (W (cmi tm * 60000000000)), (W (cs tm * 1000000000)), (W (cns tm)) by lia.
  rewrite !Z.quot_div_nonneg by lia.
  rewrite W; unfold Layout.tod_us; lia.
Qed.

Lemma dur_from_datetime_ref tm : valid_time tm = true -> 1 <= cy tm <= 10000 -> dur_from_datetime tm = ref_us tm.
Proof.
  intros V Hy. rewrite dur_from_datetime_eq by assumption. unfold ref_us, days0000. rewrite ref_index_0000_eq.
  unfold Layout.tod_us, ProofsTemporal.tod_us. lia.
Qed.

Lemma us_to_time_ref tm : valid_time tm = true -> 1 <= cy tm <= 10000 ->
  us_to_time (ref_us tm) = CT (cy tm) (cmo tm) (cd tm) (ch tm) (cmi tm) (cs tm) (cns tm / 1000 * 1000).
Proof.
  intros V Hy. pose proof (tod_us_bounds tm V) as UB. pose proof (valid_day_le_31 tm V) as D31.
  pose proof V as V'. apply valid_time_iff in V'. destruct V' as [[Vm Vd] [Vh [Vmi [Vs Vn]]]].
  pose proof (ref_index_bounds (cy tm) (cmo tm) (cd tm) Hy Vm D31) as RB.
  unfold us_to_time, ref_us, days0000. rewrite ref_index_0000_eq. change (Layout.tod_us tm) with (ProofsTemporal.tod_us tm).
  set (r := ref_index (cy tm, cmo tm, cd tm)) in *. set (u := ProofsTemporal.tod_us tm) in *.
  set (us := (r - -366) * 86400000000 + u).
  assert (USB : 0 <= us < 400000000000000000) by (unfold us; lia).
  rewrite (Z.quot_div_nonneg us 1000000), (Z.rem_mod_nonneg us 1000000) by lia.
  assert (W : forall x, 0 <= x < 9223372036854775808 -> i64 x = x).
  { intros x Hx. unfold i64. apply wraps_small; [lia|]. change (2 ^ (64 - 1)) with 9223372036854775808. lia. }
  rewrite (W (us / 1000000)), (W (us mod 1000000)) by lia.
  rewrite (Z.quot_div_nonneg (us / 1000000) 86400), (Z.rem_mod_nonneg (us / 1000000) 86400) by lia.
  replace (us / 1000000 / 86400 - 693961) with (r + 366 - 693961) by (unfold us; lia).
  unfold r. rewrite fliegel_ref by lia.
  rewrite time_of_small by lia. rewrite civil_of_days_of_civil by lia.
  unfold us, u, ProofsTemporal.tod_us in *. f_equal; lia.
Qed.

Lemma us_to_time_inverse tm : valid_time tm = true -> 1 <= cy tm <= 10000 ->
  us_to_time (time_to_us tm) = CT (cy tm) (cmo tm) (cd tm) (ch tm) (cmi tm) (cs tm) (cns tm / 1000 * 1000).
Proof. intros V Hy. rewrite time_to_us_ref by assumption. apply us_to_time_ref; assumption. Qed.
