(* Login: the declarative acceptance condition (C08), the "blinded" configuration (C09) and the dispatch for the
   harness (fn 30 = C08, fn 31 = C09; same input and output).
     input  (encrypt cfg ((packet ...) ...) keycap symkey (captype ...))
     output (class caps packsize ((#packet ...) ...) (#plaintext ...) leak fresh)                          *)
From Coq Require Import ZArith List Bool.
Import ListNotations.
From V Require Import Base.Tree Base.Bytes Base.Parser Pkg.GenTypes Gen.GenPkg Gen.GenLogin Pkg.Field Pkg.Fmts Pkg.LoginRec
  Pkg.Capability Rx.Model Rx.Consumer Rx.Spec C15.Model C01.Model C01.Spec Login.Model.
Open Scope Z_scope.

(* ---------------------------------------------------------------- C08: what a valid acceptance is *)
(* plain flow: success acknowledgement, final DONE *)
Definition accepts_plain (q : list dpkg) : bool :=
  match q with
  | a :: d :: _ => is_ack a && (ack_status a =? g_log_succeed) && is_done d && (done_status d =? g_done_final)
  | _ => false
  end.

(* encrypted flow: negotiation acknowledgement, encryption message, three key parameters (cipher suite 1, key, nonce),
   DONE; then - after any packages that are not acknowledgements - success acknowledgement, capabilities the server
   understood, final DONE.  [usable pem nonce] = every secret fits the key.  q1 = what the reply to the login record
   delivers, q2 = what the reply to the encrypted passwords delivers. *)
Fixpoint skip_to_ack (q : list dpkg) : list dpkg :=
  match q with
  | [] => []
  | p :: r => if is_ack p then q else skip_to_ack r
  end.

Definition accepts_enc (usable : bytes -> bytes -> bool) (q1 q2 : list dpkg) : bool :=
  match q1 with
  | a :: m :: pf :: ps :: d :: rest1 =>
    let rest := rest1 ++ q2 in
    is_ack a && (ack_status a =? g_log_negotiate) && is_msg m && (msg_id m =? g_msg_encrypt4) &&
    is_paramfmt pf && is_params ps && is_done d &&
    match key_params pf ps with
    | Some (pem, nonce) =>
      usable pem nonce &&
      match skip_to_ack rest with
      | a2 :: c :: d2 :: _ => (ack_status a2 =? g_log_succeed) && is_caps c && caps_ok c && is_done d2 && (done_status d2 =? g_done_final)
      | _ => false
      end
    | None => false
    end
  | _ => false
  end.

(* ---------------------------------------------------------------- C09: the configuration with every secret blinded *)
Definition blind (c : login_cfg) : login_cfg :=
  {| lc_hostname := lc_hostname c; lc_username := lc_username c; lc_password := zeros (zlen (lc_password c));
     lc_hostproc := lc_hostproc c; lc_appname := lc_appname c; lc_servname := lc_servname c; lc_language := lc_language c;
     lc_charset := lc_charset c; lc_encrypt := lc_encrypt c;
     lc_remote := map (fun r => (fst r, zeros (zlen (snd r)))) (lc_remote c) |}.

(* ---------------------------------------------------------------- dispatch *)
Definition lres_code (r : lres) : Z := match r with LSuccess => 0 | LRejected => 1 | LCtx => 2 end.

Record linput := { li_cfg : login_cfg; li_rounds : list (list packet_in); li_cap : Z; li_symkey : bytes; li_order : list Z;
                   li_noplain : bool }.     (* the harness holds no private key for this script: plaintexts are not reported *)
Definition linput_of (i : tree) : linput :=
  let c := login_cfg_of_tree (t_nth 1 i) in
  {| li_cfg := {| lc_hostname := lc_hostname c; lc_username := lc_username c; lc_password := lc_password c; lc_hostproc := lc_hostproc c;
                  lc_appname := lc_appname c; lc_servname := lc_servname c; lc_language := lc_language c; lc_charset := lc_charset c;
                  lc_encrypt := t_int (t_nth 0 i); lc_remote := lc_remote c |};
     li_rounds := map (fun r => map packet_of_tree (t_list r)) (t_list (t_nth 2 i));
     li_cap := t_int (t_nth 3 i); li_symkey := t_bytes (t_nth 4 i); li_order := map t_int (t_list (t_nth 5 i));
     li_noplain := t_int (t_nth 6 i) =? 1 |}.

(* ciphertexts are opaque: the harness blanks them in what it reports, the model writes zeros of the key's size *)
Definition blank_enc (cap : Z) : bytes -> bytes -> nat -> bytes := fun _ _ _ => zeros (cap + 42).

Definition run_login (li : linput) (c : login_cfg) : outcome :=
  login (blank_enc (li_cap li)) (fun _ => li_cap li) (li_symkey li) c (li_order li) (li_rounds li).

(* the plaintexts handed to the encryption when the second message is complete *)
Definition plaintexts (li : linput) (o : outcome) : list bytes :=
  if li_noplain li then [] else
  match o_wire o with
  | [_; _] =>
    let '(ess1, _) := rx_run 0 0 rx_init (nth 0 (li_rounds li) []) in
    match negotiation (delivered_of (concat ess1)) (errs_of (concat ess1)) with
    | inl (pem, nonce, _, _) =>
      if all_fit (fun _ => li_cap li) (li_cfg li) pem nonce
      then (nonce ++ lc_password (li_cfg li)) :: map (fun s => nonce ++ snd s) (servers (li_cfg li)) ++ [nonce ++ li_symkey li]
      else []
    | inr _ => []
    end
  | _ => []
  end.

Definition wire_tree (w : list (list bytes)) : tree := TL (map (fun m => TL (map TB m)) w).
Definition out_of (li : linput) (o : outcome) : tree :=
  TL [TI (lres_code (o_res o)); match o_caps o with Some c => c | None => TL [] end; TI (o_packsize o); wire_tree (o_wire o);
      TL (map TB (plaintexts li o)); TI 0; TI 1].

(* the password mode of the library's default configuration for a kind of connection description (tabulated by running
   tds.NewLoginConfig on every combination of the settings, Gen/GenLogin.v) *)
Definition default_encrypt (mask : Z) : Z :=
  match find (fun p => fst p =? mask) g_default_encrypt with Some p => snd p | None => -2 end.

Definition login_run (fn : Z) (i : tree) : tree :=
  match fn with
  | 30 | 31 | 32 => let li := linput_of i in out_of li (run_login li (li_cfg li))
  | 33 => TL [TI (default_encrypt (t_int (t_nth 0 i)))]
  | _ => rx_fn_run fn i
  end.

(* the payload of a message: packet bodies without their 8-byte headers *)
Definition payload (m : list bytes) : bytes := concat (map (zdrop 8) m).
Definition out_wire (o : tree) : list (list bytes) := map (fun m => map t_bytes (t_list m)) (t_list (t_nth 3 o)).

Definition login_spec (fn : Z) (i o : tree) : bool :=
  let li := linput_of i in
  let c := li_cfg li in
  let class := t_int (t_nth 0 o) in
  match fn with
  | 30 =>
    (* success exactly when the delivered replies are an acceptance; otherwise an error; afterwards the connection has
       the server's capabilities and the announced packet size *)
    let '(ess1, rx1) := rx_run 0 0 rx_init (nth 0 (li_rounds li) []) in
    let '(ess2, _) := rx_run 0 0 rx1 (nth 1 (li_rounds li) []) in
    let q1 := delivered_of (concat ess1) in
    let q2 := delivered_of (concat ess2) in
    let acc :=
      if enc_modes_refused (lc_encrypt c) then false
      else if negb (fields_fitb c) then false
      else if with_encryption (lc_encrypt c) then accepts_enc (all_fit (fun _ => li_cap li) c) q1 q2
      else accepts_plain q1 in
    ((class =? 0) || (class =? 1) || (class =? 2)) &&
    Bool.eqb (class =? 0) acc &&
    (if (class =? 0) && with_encryption (lc_encrypt c) then
       match skip_to_ack (skipn 5 q1 ++ q2) with
       | _ :: cp :: _ => tree_eqb (t_nth 1 o) (snd cp)
       | _ => false
       end && (t_int (t_nth 2 o) =? size_after 512 (concat ess1 ++ concat ess2))
     else true)
  | 31 =>
    if with_encryption (lc_encrypt c) then
      (* everything written equals what the login of the BLINDED configuration writes (ciphertexts blanked); the
         blanked spans decrypt to nonce ++ secret; nothing in the error text; fresh randomness *)
      tree_eqb (t_nth 3 o) (wire_tree (o_wire (run_login li (blind c)))) &&
      tree_eqb (t_nth 4 o) (TL (map TB (plaintexts li (run_login li c)))) &&
      (zlen (li_symkey li) =? (if (length (t_list (t_nth 4 o)) =? 0)%nat then 0 else 32)) &&
      (t_int (t_nth 5 o) =? 0) && (t_int (t_nth 6 o) =? 1)
    else if enc_modes_refused (lc_encrypt c) then
      (* refused before anything is written *)
      (length (out_wire o) =? 0)%nat && (class =? 1)
    else
      (* control: the plain flow carries the password in its slot *)
      match out_wire o with
      | m1 :: _ => match parse_login_record (ztake login_record_length (payload m1)) with
                   | Some f => list_Z_eqb (lf_password f) (lc_password c)
                   | None => false
                   end
      | [] => negb (fields_fitb c)
      end
  | 32 =>
    (* C10 through the login: whatever the server's replies and key material are, Login returns (success or an error);
       it neither panics (class -1) nor stays in the call (class -2) *)
    (class =? 0) || (class =? 1) || (class =? 2)
  | 33 =>
    (* C09, "the default configuration": password encryption is negotiated whatever the connection description says *)
    with_encryption (t_int (t_nth 0 o))
  | _ => rx_fn_spec fn i o
  end.
