(* C08: the step-by-step login model succeeds exactly on the acceptance language of Login/Spec.v. *)
From Coq Require Import ZArith List Bool Lia.
Import ListNotations.
From V Require Import Base.Tree Base.Bytes Base.BytesFacts Base.Parser Pkg.GenTypes Gen.GenPkg Gen.GenLogin Pkg.Field Pkg.Fmts Pkg.LoginRec Pkg.Eed
  Pkg.Capability Rx.Model Rx.Consumer Login.Model Login.Spec.
Open Scope Z_scope.

Lemma np_cons p r e : np (p :: r) e = inl (p, r, e).
Proof. reflexivity. Qed.
Lemma np_nil e : exists x, np [] e = inr x /\ x <> LSuccess.
Proof. destruct e as [|k]; [exists LCtx|exists LRejected]; split; try reflexivity; discriminate. Qed.

Lemma expect_cons {X} p r e ok (k : dpkg -> list dpkg -> nat -> X + lres) :
  expect (p :: r) e ok k = if ok p then k p r e else inr LRejected.
Proof. reflexivity. Qed.
Lemma expect_nil {X} e ok (k : dpkg -> list dpkg -> nat -> X + lres) : exists x, expect [] e ok k = inr x /\ x <> LSuccess.
Proof. unfold expect. destruct (np_nil e) as [x [E N]]. rewrite E. exists x. split; [reflexivity|exact N]. Qed.

(* ---------------------------------------------------------------- plain flow *)
Theorem plain_success_iff q e : plain_flow q e = LSuccess <-> accepts_plain q = true.
Proof.
  unfold plain_flow, accepts_plain. destruct q as [|p1 [|p2 q2]].
  - destruct (@expect_nil unit e (fun a => is_ack a && (ack_status a =? g_log_succeed))
      (fun _ q1 e1 => expect q1 e1 (fun d => is_done d && (done_status d =? g_done_final)) (fun _ _ _ => inl tt))) as [x [E N]].
    rewrite E. split; [intros H; exfalso; exact (N H)|discriminate].
  - rewrite expect_cons; cbv beta. destruct (is_ack p1 && (ack_status p1 =? g_log_succeed)); [|split; discriminate].
    destruct (@expect_nil unit e (fun d => is_done d && (done_status d =? g_done_final)) (fun _ _ _ => inl tt)) as [x [E N]].
    rewrite E. split; [intros H; exfalso; exact (N H)|discriminate].
  - rewrite expect_cons; cbv beta. destruct (is_ack p1 && (ack_status p1 =? g_log_succeed)) eqn:A.
    + rewrite expect_cons; cbv beta. cbn [andb]. destruct (is_done p2); cbn [andb]; [|split; discriminate].
      destruct (done_status p2 =? g_done_final); split; try reflexivity; discriminate.
    + cbn [andb]. split; discriminate.
Qed.

(* ---------------------------------------------------------------- negotiation *)
Definition nego_ok (a m pf ps d : dpkg) : bool :=
  is_ack a && (ack_status a =? g_log_negotiate) && is_msg m && (msg_id m =? g_msg_encrypt4) &&
  is_paramfmt pf && is_params ps && is_done d.

Lemma key_params_three pf ps k : key_params pf ps = Some k -> length (fmt_types pf) = 3%nat /\ length (param_data ps) = 3%nat.
Proof.
  unfold key_params. destruct (fmt_types pf) as [|t0 [|t1 [|t2 [|t3 l]]]]; try discriminate.
  destruct (param_data ps) as [|d0 [|d1 [|d2 [|d3 l]]]]; try discriminate. intros _. split; reflexivity.
Qed.

(* the negotiation, unfolded on a queue of at least five packages *)
Lemma negotiation_five a m pf ps d r e : negotiation (a :: m :: pf :: ps :: d :: r) e =
  if is_ack a && (ack_status a =? g_log_negotiate) then
  if is_msg m && (msg_id m =? g_msg_encrypt4) then
  if is_paramfmt pf && (length (fmt_types pf) =? 3)%nat then
  if is_params ps && (length (param_data ps) =? 3)%nat then
  if is_done d then match key_params pf ps with Some (pem, nonce) => inl (pem, nonce, r, e) | None => inr LRejected end
  else inr LRejected else inr LRejected else inr LRejected else inr LRejected else inr LRejected.
Proof. unfold negotiation. rewrite !expect_cons. reflexivity. Qed.

Lemma negotiation_short q e : (length q < 5)%nat -> exists x, negotiation q e = inr x /\ x <> LSuccess.
Proof.
  intros Hl. unfold negotiation.
  repeat match goal with
  | |- exists x, expect [] ?e ?ok ?k = inr x /\ _ => apply expect_nil
  | |- exists x, expect (?p :: ?r) ?e ?ok ?k = inr x /\ _ =>
      rewrite expect_cons; cbv beta; match goal with |- exists x, (if ?b then _ else _) = _ /\ _ => destruct b end; [|exists LRejected; split; [reflexivity|discriminate]]
  | |- exists x, expect ?q ?e ?ok ?k = inr x /\ _ => destruct q; cbn [length] in Hl
  end.
  exfalso. lia.
Qed.

Lemma negotiation_inl q e pem nonce q' e' :
  negotiation q e = inl (pem, nonce, q', e') <->
  exists a m pf ps d, q = a :: m :: pf :: ps :: d :: q' /\ e' = e /\ nego_ok a m pf ps d = true /\ key_params pf ps = Some (pem, nonce).
Proof.
  split.
  - intros H. destruct (Nat.lt_ge_cases (length q) 5) as [Hs|Hl].
    + destruct (negotiation_short q e Hs) as [x [E _]]. rewrite E in H. discriminate.
    + destruct q as [|a [|m [|pf [|ps [|d r]]]]]; cbn [length] in Hl; try lia.
      rewrite negotiation_five in H. unfold nego_ok.
      destruct (is_ack a && (ack_status a =? g_log_negotiate)) eqn:B1; [|discriminate].
      destruct (is_msg m && (msg_id m =? g_msg_encrypt4)) eqn:B2; [|discriminate].
      destruct (is_paramfmt pf && (length (fmt_types pf) =? 3)%nat) eqn:B3; [|discriminate].
      destruct (is_params ps && (length (param_data ps) =? 3)%nat) eqn:B4; [|discriminate].
      destruct (is_done d) eqn:B5; [|discriminate].
      destruct (key_params pf ps) as [[pem0 nonce0]|] eqn:K; [|discriminate].
      inversion H; subst. exists a, m, pf, ps, d. split; [reflexivity|]. split; [reflexivity|]. split; [|exact K].
      apply andb_true_iff in B1, B2, B3, B4. destruct B1 as [X1 X2], B2 as [X3 X4], B3 as [X5 _], B4 as [X6 _].
      rewrite X1, X2, X3, X4, X5, X6, B5. reflexivity.
  - intros [a [m [pf [ps [d [Eq [Ee [Hn Hk]]]]]]]]. subst q e'. rewrite negotiation_five.
    destruct (key_params_three _ _ _ Hk) as [L1 L2]. rewrite L1, L2, Hk. cbn [Nat.eqb]. rewrite !andb_true_r.
    unfold nego_ok in Hn. repeat (apply andb_true_iff in Hn; destruct Hn as [Hn ?H]).
    repeat match goal with H : ?b = true |- context [?b] => rewrite H end. reflexivity.
Qed.

Lemma negotiation_inr_not_success q e r : negotiation q e = inr r -> r <> LSuccess.
Proof.
  intros H. destruct (Nat.lt_ge_cases (length q) 5) as [Hs|Hl].
  - destruct (negotiation_short q e Hs) as [x [E N]]. rewrite E in H. inversion H; subst. exact N.
  - destruct q as [|a [|m [|pf [|ps [|d q']]]]]; cbn [length] in Hl; try lia.
    rewrite negotiation_five in H.
    repeat match type of H with (if ?b then _ else _) = _ => destruct b end; try (inversion H; discriminate).
    destruct (key_params pf ps) as [[pem nonce]|]; inversion H; discriminate.
Qed.

(* ---------------------------------------------------------------- acknowledgement *)
Lemma eed_not_ack p : is_eed p = true -> is_ack p = false.
Proof.
  unfold is_eed, is_ack, tok_eed, g_tok_loginack. intros H. apply Z.eqb_eq in H. rewrite H. reflexivity.
Qed.

(* NextPackageUntil with the acknowledgement callback = skip to the first LOGINACK *)
Lemma until_ack : forall q fuel e wait nc eeds, (length q < fuel)%nat ->
  match skip_to_ack q with
  | [] => exists r, until fuel q e wait (Some ack_cb) nc eeds = (UFail r, [], match e with O => O | S k => k end)
  | a :: rest =>
    if ack_status a =? g_log_succeed then until fuel q e wait (Some ack_cb) nc eeds = (UPkg a, rest, e)
    else exists x y z, until fuel q e wait (Some ack_cb) nc eeds = (UCbError x, y, z)
  end.
Proof.
  induction q as [|p r IH]; intros fuel e wait nc eeds Hf.
  - destruct fuel as [|f]; [cbn in Hf; lia|]. cbn [skip_to_ack until next_package].
    destruct e as [|k]; [destruct wait|]; eexists; reflexivity.
  - destruct fuel as [|f]; [cbn in Hf; lia|]. cbn [length] in Hf. cbn [skip_to_ack until next_package].
    destruct (is_eed p) eqn:Ee.
    + rewrite (eed_not_ack p Ee). apply IH. lia.
    + assert (Hcb : ack_cb nc p = if is_ack p then (if ack_status p =? g_log_succeed then CbStop else CbErr) else CbContinue) by reflexivity.
      rewrite Hcb. destruct (is_ack p) eqn:Ea.
      * destruct (ack_status p =? g_log_succeed); [reflexivity|].
        destruct (is_done_final p).
        -- eexists _, _, _. reflexivity.
        -- destruct (until f r e true None 0 []) as [[u y] z]. eexists _, _, _. reflexivity.
      * apply IH. lia.
Qed.

Definition ack_tail_ok (q : list dpkg) : bool :=
  match skip_to_ack q with
  | a2 :: c :: d2 :: _ => (ack_status a2 =? g_log_succeed) && is_caps c && caps_ok c && is_done d2 && (done_status d2 =? g_done_final)
  | _ => false
  end.

Theorem acknowledgement_success_iff q e : fst (acknowledgement q e) = LSuccess <-> ack_tail_ok q = true.
Proof.
  unfold acknowledgement, ack_tail_ok.
  pose proof (until_ack q (S (S (length q))) e true O [] ltac:(lia)) as U.
  destruct (skip_to_ack q) as [|a rest].
  - destruct U as [r U]. rewrite U. split; [|discriminate]. destruct r; cbn; discriminate.
  - destruct (ack_status a =? g_log_succeed) eqn:Es.
    + rewrite U. cbn [andb]. destruct rest as [|c [|d2 rest]].
      * destruct (np_nil e) as [x [E N]]. rewrite E. cbn [fst]. split; [intros H; exfalso; exact (N H)|discriminate].
      * rewrite np_cons. destruct (is_caps c); cbn [negb fst]; [|split; discriminate].
        destruct (caps_ok c); cbn [negb fst]; [|split; discriminate].
        destruct (np_nil e) as [x [E N]]. rewrite E. cbn [fst]. split; [intros H; exfalso; exact (N H)|discriminate].
      * rewrite np_cons. destruct (is_caps c); cbn [negb andb fst]; [|split; discriminate].
        destruct (caps_ok c); cbn [negb andb fst]; [|split; discriminate].
        rewrite np_cons. destruct (is_done d2); cbn [andb fst]; [|split; discriminate].
        destruct (done_status d2 =? g_done_final); cbn [fst]; split; try reflexivity; discriminate.
    + destruct U as [x [y [z U]]]. rewrite U. cbn [fst andb]. split; [discriminate|].
      destruct rest as [|c [|d2 rest]]; discriminate.
Qed.

(* after success the capabilities returned are the ones of the package that follows the acknowledgement *)
Theorem acknowledgement_caps q e caps : acknowledgement q e = (LSuccess, caps) ->
  exists a c rest, skip_to_ack q = a :: c :: rest /\ caps = Some (snd c).
Proof.
  unfold acknowledgement.
  pose proof (until_ack q (S (S (length q))) e true O [] ltac:(lia)) as U.
  destruct (skip_to_ack q) as [|a rest].
  - destruct U as [r U]. rewrite U. destruct r; discriminate.
  - destruct (ack_status a =? g_log_succeed).
    + rewrite U. destruct rest as [|c rest].
      * destruct (np_nil e) as [x [E N]]. rewrite E. intros H. inversion H. congruence.
      * rewrite np_cons. destruct (is_caps c); cbn [negb]; [|discriminate]. destruct (caps_ok c); cbn [negb]; [|discriminate].
        destruct rest as [|d2 rest].
        -- destruct (np_nil e) as [x [E N]]. rewrite E. intros H. inversion H. congruence.
        -- rewrite np_cons. destruct (is_done d2 && (done_status d2 =? g_done_final)); intros H; inversion H.
           exists a, c, (d2 :: rest). split; reflexivity.
    + destruct U as [x [y [z U]]]. rewrite U. discriminate.
Qed.

(* ---------------------------------------------------------------- the encrypted flow *)
Section Enc.
Variable keycap : bytes -> Z.

Theorem enc_success_iff c q1 e1 q2 e2 :
  fst (enc_flow keycap c q1 e1 q2 e2) = LSuccess <-> accepts_enc (all_fit keycap c) q1 q2 = true.
Proof.
  unfold enc_flow. destruct (negotiation q1 e1) as [[[[pem nonce] q1'] e1']|r] eqn:En.
  - apply negotiation_inl in En. destruct En as [a [m [pf [ps [d [Eq [Ee [Hn Hk]]]]]]]]. subst q1 e1'.
    unfold accepts_enc. unfold nego_ok in Hn. rewrite Hn. cbn [andb]. rewrite Hk.
    destruct (all_fit keycap c pem nonce); cbn [andb fst]; [|split; discriminate].
    rewrite acknowledgement_success_iff. unfold ack_tail_ok. split; intros H; exact H.
  - cbn [fst]. split; [intros H; exfalso; exact (negotiation_inr_not_success _ _ _ En H)|].
    intros Ha. exfalso. unfold accepts_enc in Ha.
    destruct q1 as [|a [|m [|pf [|ps [|d rest1]]]]]; try discriminate.
    destruct (key_params pf ps) as [[pem nonce]|] eqn:Hk; [|rewrite andb_false_r in Ha; discriminate].
    apply andb_true_iff in Ha. destruct Ha as [Hn _].
    assert (Hx : negotiation (a :: m :: pf :: ps :: d :: rest1) e1 = inl (pem, nonce, rest1, e1)).
    { apply negotiation_inl. exists a, m, pf, ps, d. repeat split; try reflexivity; assumption. }
    rewrite Hx in En. discriminate.
Qed.

(* ---------------------------------------------------------------- the whole decision *)
Definition replies_delivered (rounds : list (list packet_in)) : list dpkg * list dpkg * list ev :=
  let '(ess1, rx1) := rx_run 0 0 rx_init (nth 0 rounds []) in
  let '(ess2, _) := rx_run 0 0 rx1 (nth 1 rounds []) in
  (delivered_of (concat ess1), delivered_of (concat ess2), concat ess1 ++ concat ess2).

Definition accepted (c : login_cfg) (rounds : list (list packet_in)) : bool :=
  let '(q1, q2, _) := replies_delivered rounds in
  negb (enc_modes_refused (lc_encrypt c)) && fields_fitb c &&
  (if with_encryption (lc_encrypt c) then accepts_enc (all_fit keycap c) q1 q2 else accepts_plain q1).

Theorem login_success_iff c rounds : d_res (decide keycap c rounds) = LSuccess <-> accepted c rounds = true.
Proof.
  unfold decide, accepted, replies_delivered.
  destruct (enc_modes_refused (lc_encrypt c)); cbn [orb negb andb].
  - destruct (rx_run 0 0 rx_init (nth 0 rounds [])) as [ess1 rx1]. destruct (rx_run 0 0 rx1 (nth 1 rounds [])) as [ess2 rx2].
    cbn [d_res]. split; discriminate.
  - destruct (fields_fitb c); cbn [negb andb].
    + destruct (rx_run 0 0 rx_init (nth 0 rounds [])) as [ess1 rx1].
      destruct (with_encryption (lc_encrypt c)); cbn [negb].
      * destruct (rx_run 0 0 rx1 (nth 1 rounds [])) as [ess2 rx2].
        pose proof (enc_success_iff c (delivered_of (concat ess1)) (errs_of (concat ess1)) (delivered_of (concat ess2)) (errs_of (concat ess2))) as H.
        destruct (enc_flow keycap c (delivered_of (concat ess1)) (errs_of (concat ess1)) (delivered_of (concat ess2)) (errs_of (concat ess2))) as [r caps].
        cbn [fst] in H.
        destruct (negotiation (delivered_of (concat ess1)) (errs_of (concat ess1))) as [[[[pem nonce] q1'] e1']|r0]; cbn [d_res]; exact H.
      * destruct (rx_run 0 0 rx1 (nth 1 rounds [])) as [ess2 rx2]. cbn [d_res]. apply plain_success_iff.
    + destruct (rx_run 0 0 rx_init (nth 0 rounds [])) as [ess1 rx1]. destruct (rx_run 0 0 rx1 (nth 1 rounds [])) as [ess2 rx2].
      cbn [d_res]. split; discriminate.
Qed.

Lemma size_after_app ps a b : size_after ps (a ++ b) = size_after (size_after ps a) b.
Proof. unfold size_after. apply fold_left_app. Qed.

(* after a successful encrypted login: the capabilities are those of the package following the acknowledgement, the
   packet size is the last one announced in the replies *)
Theorem login_post c rounds : with_encryption (lc_encrypt c) = true -> d_res (decide keycap c rounds) = LSuccess ->
  let '(q1, q2, es) := replies_delivered rounds in
  (exists a cp rest, skip_to_ack (skipn 5 q1 ++ q2) = a :: cp :: rest /\ d_caps (decide keycap c rounds) = Some (snd cp)) /\
  d_packsize (decide keycap c rounds) = size_after 512 es.
Proof.
  intros He. unfold decide, replies_delivered.
  destruct (enc_modes_refused (lc_encrypt c) || negb (fields_fitb c)).
  - destruct (rx_run 0 0 rx_init (nth 0 rounds [])) as [ess1 rx1]. destruct (rx_run 0 0 rx1 (nth 1 rounds [])) as [ess2 rx2]. cbn [d_res]. discriminate.
  - destruct (rx_run 0 0 rx_init (nth 0 rounds [])) as [ess1 rx1]. rewrite He. cbn [negb].
    destruct (rx_run 0 0 rx1 (nth 1 rounds [])) as [ess2 rx2].
    unfold enc_flow.
    destruct (negotiation (delivered_of (concat ess1)) (errs_of (concat ess1))) as [[[[pem nonce] q1'] e1']|r0] eqn:En.
    + apply negotiation_inl in En. destruct En as [a [m [pf [ps [d [Eq [Ee [Hn Hk]]]]]]]].
      destruct (all_fit keycap c pem nonce) eqn:Ef.
      * destruct (acknowledgement (q1' ++ delivered_of (concat ess2)) (e1' + errs_of (concat ess2))) as [r caps] eqn:Ea.
        cbn [d_res d_caps d_packsize]. intros Hr. subst r.
        destruct (acknowledgement_caps _ _ _ Ea) as [a2 [cp [rest [Es Ec]]]]. split.
        -- exists a2, cp, rest. rewrite Eq. cbn [skipn]. split; assumption.
        -- rewrite size_after_app. reflexivity.
      * cbn [d_res]. discriminate.
    + cbn [d_res]. intros Hr. exfalso. exact (negotiation_inr_not_success _ _ _ En Hr).
Qed.
End Enc.
