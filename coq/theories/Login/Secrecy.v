(* C09: what an encrypted login writes, and how it ends, depends on the secrets only through their lengths and the
   ciphertexts.  The decision is the same for the blinded configuration; the wire is the same for any two
   configurations that agree up to the contents of the secrets whenever the ciphertexts agree. *)
From Coq Require Import ZArith List Bool Lia.
Import ListNotations.
From V Require Import Base.Tree Base.Bytes Base.BytesFacts Base.Parser Pkg.GenTypes Gen.GenPkg Gen.GenLogin Pkg.Field Pkg.Fmts
  Pkg.LoginRec Pkg.LoginRecProofs Rx.Model Rx.Consumer C15.Model C01.Model C01.Spec C01.Proofs Login.Model Login.Spec.
Open Scope Z_scope.

(* the k-th secret handed to the encryption: the password, the password of every server (the first "server" is the
   account itself), the session key *)
Definition secret_at (c : login_cfg) (symkey : bytes) (k : nat) : bytes :=
  nth k (lc_password c :: map snd (servers c) ++ [symkey]) [].

(* two configurations that differ at most in the contents of their secrets *)
Definition same_public (c1 c2 : login_cfg) : Prop := blind c1 = blind c2.

Lemma zeros_inj a b : 0 <= a -> 0 <= b -> zeros a = zeros b -> a = b.
Proof. intros Ha Hb H. apply (f_equal zlen) in H. rewrite !zlen_zeros in H by assumption. exact H. Qed.

Lemma same_public_fields c1 c2 : same_public c1 c2 ->
  lc_hostname c1 = lc_hostname c2 /\ lc_username c1 = lc_username c2 /\ zlen (lc_password c1) = zlen (lc_password c2) /\
  lc_hostproc c1 = lc_hostproc c2 /\ lc_appname c1 = lc_appname c2 /\ lc_servname c1 = lc_servname c2 /\
  lc_language c1 = lc_language c2 /\ lc_charset c1 = lc_charset c2 /\ lc_encrypt c1 = lc_encrypt c2 /\
  map (fun r => (fst r, zlen (snd r))) (lc_remote c1) = map (fun r => (fst r, zlen (snd r))) (lc_remote c2).
Proof.
  unfold same_public, blind. intros H. inversion H as [[H1 H2 H3 H4 H5 H6 H7 H8 H9 H10]].
  repeat split; try assumption.
  - apply zeros_inj; try apply zlen_nonneg. assumption.
  - clear -H10. revert H10. generalize (lc_remote c2). induction (lc_remote c1) as [|r1 l1 IH]; intros l2 H; destruct l2 as [|r2 l2]; try discriminate; [reflexivity|].
    cbn [map] in *. injection H as Ha Hb Hc.
    assert (Hz : zlen (snd r1) = zlen (snd r2)) by (apply zeros_inj; try apply zlen_nonneg; exact Hb).
    apply f_equal2; [apply f_equal2; [exact Ha|exact Hz]|apply IH; exact Hc].
Qed.

Lemma blind_public c : same_public c (blind c).
Proof.
  unfold same_public, blind. cbn. f_equal.
  - rewrite zlen_zeros by apply zlen_nonneg. reflexivity.
  - rewrite map_map. apply map_ext. intros [n p]. cbn. rewrite zlen_zeros by apply zlen_nonneg. reflexivity.
Qed.

Section S.
Variable keycap : bytes -> Z.

Lemma fits_key_len pem nonce s1 s2 : zlen s1 = zlen s2 -> fits_key keycap pem nonce s1 = fits_key keycap pem nonce s2.
Proof. unfold fits_key. intros H. rewrite H. reflexivity. Qed.

Lemma servers_shape c1 c2 : same_public c1 c2 ->
  map (fun r => (fst r, zlen (snd r))) (servers c1) = map (fun r => (fst r, zlen (snd r))) (servers c2).
Proof.
  intros H. destruct (same_public_fields _ _ H) as [_ [_ [Hp [_ [_ [_ [_ [_ [_ Hr]]]]]]]]].
  unfold servers. cbn [map fst snd]. rewrite Hp, Hr. reflexivity.
Qed.

Lemma forallb_shape (l1 l2 : list (bytes * bytes)) pem nonce :
  map (fun r => (fst r, zlen (snd r))) l1 = map (fun r => (fst r, zlen (snd r))) l2 ->
  forallb (fun s => fits_key keycap pem nonce (snd s)) l1 = forallb (fun s => fits_key keycap pem nonce (snd s)) l2.
Proof.
  revert l2. induction l1 as [|[n1 p1] l1 IH]; intros l2 H; destruct l2 as [|[n2 p2] l2]; try discriminate; [reflexivity|].
  cbn [map forallb fst snd] in *. injection H as Ha Hb Hc. rewrite (fits_key_len pem nonce p1 p2 Hb), (IH l2 Hc). reflexivity.
Qed.

Lemma all_fit_public c1 c2 pem nonce : same_public c1 c2 -> all_fit keycap c1 pem nonce = all_fit keycap c2 pem nonce.
Proof. intros H. unfold all_fit. rewrite (forallb_shape _ _ pem nonce (servers_shape _ _ H)). reflexivity. Qed.

Lemma fields_fitb_public c1 c2 : same_public c1 c2 -> fields_fitb c1 = fields_fitb c2.
Proof.
  intros H. destruct (same_public_fields _ _ H) as [H1 [H2 [H3 [H4 [H5 [H6 [H7 [H8 [H9 _]]]]]]]]].
  unfold fields_fitb, written_password, fitsb. rewrite H1, H2, H4, H5, H6, H7, H8, H9.
  destruct (enc_mode (lc_encrypt c2)); [reflexivity|]. rewrite H3. reflexivity.
Qed.

(* the outcome of the login - success or which kind of error, capabilities, packet size, whether and with which key
   the second message was begun - does not depend on the contents of any secret *)
Theorem decide_public c1 c2 rounds : same_public c1 c2 -> decide keycap c1 rounds = decide keycap c2 rounds.
Proof.
  intros H. pose proof (same_public_fields _ _ H) as [_ [_ [_ [_ [_ [_ [_ [_ [He _]]]]]]]]].
  unfold decide. rewrite He, (fields_fitb_public _ _ H).
  destruct (enc_modes_refused (lc_encrypt c2) || negb (fields_fitb c2)); [reflexivity|].
  destruct (rx_run 0 0 rx_init (nth 0 rounds [])) as [ess1 rx1].
  destruct (with_encryption (lc_encrypt c2)); cbn [negb]; [|reflexivity].
  destruct (rx_run 0 0 rx1 (nth 1 rounds [])) as [ess2 rx2].
  unfold enc_flow.
  destruct (negotiation (delivered_of (concat ess1)) (errs_of (concat ess1))) as [[[[pem nonce] q1'] e1']|r0]; [|reflexivity].
  rewrite (all_fit_public _ _ pem nonce H). reflexivity.
Qed.

Corollary decide_blind c rounds : decide keycap c rounds = decide keycap (blind c) rounds.
Proof. apply decide_public. apply blind_public. Qed.

(* ---------------------------------------------------------------- the wire *)
Lemma enc_login_public c1 c2 : same_public c1 c2 -> enc_mode (lc_encrypt c1) = true -> enc_login c1 = enc_login c2.
Proof.
  intros H Hm. destruct (same_public_fields _ _ H) as [H1 [H2 [H3 [H4 [H5 [H6 [H7 [H8 [H9 _]]]]]]]]].
  unfold enc_login, written_password. rewrite <- H9, Hm, H1, H2, H4, H5, H6, H7, H8. reflexivity.
Qed.

Lemma remote_cts_public enc1 enc2 pem nonce : forall (l1 l2 : list (bytes * bytes)) k,
  map (fun r => (fst r, zlen (snd r))) l1 = map (fun r => (fst r, zlen (snd r))) l2 ->
  (forall i, (i < length l1)%nat -> enc1 pem (nonce ++ snd (nth i l1 ([], []))) (k + i)%nat = enc2 pem (nonce ++ snd (nth i l2 ([], []))) (k + i)%nat) ->
  remote_cts enc1 keycap pem nonce k l1 = remote_cts enc2 keycap pem nonce k l2.
Proof.
  induction l1 as [|[n1 p1] l1 IH]; intros l2 k Hs He; destruct l2 as [|[n2 p2] l2]; try discriminate; [reflexivity|].
  cbn [map fst snd] in Hs. inversion Hs as [[Hn Hp Hr]]. subst n2. cbn [remote_cts].
  rewrite (fits_key_len pem nonce p1 p2 Hp). destruct (fits_key keycap pem nonce p2); [|reflexivity].
  rewrite (IH l2 (S k) Hr).
  - pose proof (He O ltac:(cbn; lia)) as H0. cbn [nth snd] in H0. rewrite Nat.add_0_r in H0. rewrite H0. reflexivity.
  - intros i Hi. pose proof (He (S i) ltac:(cbn; lia)) as Hx. cbn [nth] in Hx. rewrite Nat.add_succ_r in Hx. exact Hx.
Qed.

Lemma nth_servers c sym i : (i < length (servers c))%nat -> snd (nth i (servers c) ([], [])) = secret_at c sym (S i).
Proof.
  intros Hi. unfold secret_at. cbn [nth]. rewrite app_nth1 by (rewrite map_length; exact Hi).
  rewrite (nth_indep _ [] (snd (@pair bytes bytes [] []))) by (rewrite map_length; exact Hi). rewrite map_nth. reflexivity.
Qed.

Lemma secret_last c sym : secret_at c sym (S (length (servers c))) = sym.
Proof.
  unfold secret_at. cbn [nth]. rewrite app_nth2 by (rewrite map_length; lia). rewrite map_length, Nat.sub_diag. reflexivity.
Qed.

Lemma servers_length c1 c2 : same_public c1 c2 -> length (servers c1) = length (servers c2).
Proof. intros H. pose proof (f_equal (@length _) (servers_shape _ _ H)) as L. rewrite !map_length in L. exact L. Qed.

Lemma second_message_public enc1 enc2 sym1 sym2 c1 c2 pem nonce : same_public c1 c2 ->
  (forall k, enc1 pem (nonce ++ secret_at c1 sym1 k) k = enc2 pem (nonce ++ secret_at c2 sym2 k) k) ->
  second_message enc1 keycap sym1 c1 pem nonce = second_message enc2 keycap sym2 c2 pem nonce.
Proof.
  intros H He. destruct (same_public_fields _ _ H) as [_ [_ [Hp _]]].
  unfold second_message. rewrite (fits_key_len pem nonce _ _ Hp).
  destruct (fits_key keycap pem nonce (lc_password c2)); cbn [negb]; [|reflexivity].
  pose proof (He O) as H0. unfold secret_at in H0. cbn [nth] in H0. rewrite H0.
  rewrite (remote_cts_public enc1 enc2 pem nonce (servers c1) (servers c2) 1 (servers_shape _ _ H)).
  - destruct (remote_cts enc2 keycap pem nonce 1 (servers c2)) as [rs|]; [|reflexivity].
    destruct (fits_key keycap pem nonce (zeros 32)); cbn [negb]; [|reflexivity].
    pose proof (He (S (length (servers c1)))) as Hl. rewrite secret_last in Hl.
    rewrite (servers_length _ _ H) in Hl. rewrite secret_last in Hl. rewrite (servers_length _ _ H), Hl. reflexivity.
  - intros i Hi. rewrite (nth_servers c1 sym1 i Hi). rewrite (nth_servers c2 sym2 i) by (rewrite <- (servers_length _ _ H); exact Hi).
    cbn [Nat.add]. apply He.
Qed.

(* Non-interference: two encrypted logins whose configurations agree up to the contents of the secrets and whose
   ciphertexts agree put the same bytes on the wire, whatever the replies. *)
Theorem wire_public enc1 enc2 sym1 sym2 c1 c2 order rounds :
  with_encryption (lc_encrypt c1) = true -> same_public c1 c2 ->
  (forall pem nonce k, enc1 pem (nonce ++ secret_at c1 sym1 k) k = enc2 pem (nonce ++ secret_at c2 sym2 k) k) ->
  wire_of enc1 keycap sym1 c1 order (decide keycap c1 rounds) = wire_of enc2 keycap sym2 c2 order (decide keycap c2 rounds).
Proof.
  intros Hw H He. rewrite <- (decide_public c1 c2 rounds H). unfold wire_of.
  assert (Hm : enc_mode (lc_encrypt c1) = true).
  { unfold with_encryption, g_msg_encrypt4 in Hw. apply Z.eqb_eq in Hw. rewrite Hw. reflexivity. }
  rewrite <- (enc_login_public c1 c2 H Hm).
  destruct (d_sent1 (decide keycap c1 rounds)); cbn [negb]; [|reflexivity].
  destruct (enc_login c1) as [rec|]; [|reflexivity].
  destruct (send_message 512 0 g_buf_login (pkgs_chunks [rec; caps_pkg order]) tx0) as [[w1 tx1]|]; [|reflexivity].
  destruct (d_key (decide keycap c1 rounds)) as [[[pem nonce] ps1]|]; [|reflexivity].
  rewrite (second_message_public enc1 enc2 sym1 sym2 c1 c2 pem nonce H (He pem nonce)). reflexivity.
Qed.

(* every plaintext handed to the encryption is the server's nonce followed by one secret: by construction of
   second_message the k-th call is on nonce ++ secret_at c symkey k (this is what wire_public quantifies over);
   explicitly for the password and the session key: *)
Lemma second_message_plaintexts enc sym c pem nonce pkgs : second_message enc keycap sym c pem nonce = (pkgs, true) ->
  exists rs, remote_cts enc keycap pem nonce 1 (servers c) = Some rs /\
  pkgs = [msg_pkg g_msg_logpwd3; paramfmt_pkg [fmt_longbinary]; longbinary_param (enc pem (nonce ++ secret_at c sym O) O);
          msg_pkg g_msg_rempwd3; paramfmt_pkg (concat (map (fun _ => [fmt_varchar; fmt_longbinary]) rs));
          tok_params :: concat (map (fun r => bytes_of_le 1 (zlen (fst r)) ++ fst r ++ bytes_of_le 4 (zlen (snd r)) ++ snd r) rs);
          msg_pkg g_msg_symkey; paramfmt_pkg [fmt_longbinary];
          longbinary_param (enc pem (nonce ++ secret_at c sym (S (length (servers c)))) (S (length (servers c))))].
Proof.
  unfold second_message. destruct (fits_key keycap pem nonce (lc_password c)); cbn [negb]; [|discriminate].
  destruct (remote_cts enc keycap pem nonce 1 (servers c)) as [rs|]; [|discriminate].
  destruct (fits_key keycap pem nonce (zeros 32)); cbn [negb]; [|discriminate].
  intros H. inversion H. exists rs. split; [reflexivity|]. rewrite secret_last. reflexivity.
Qed.
End S.

(* ---------------------------------------------------------------- the login record *)
Lemma enc_mode_of_with e : with_encryption e = true -> enc_mode e = true.
Proof. unfold with_encryption, g_msg_encrypt4. intros H. apply Z.eqb_eq in H. rewrite H. reflexivity. Qed.

(* with an encrypted mode the record a server decodes has an empty password and an empty remote-password slot *)
Theorem record_slots_empty c : enc_mode (lc_encrypt c) = true -> fields_fit c ->
  exists bs f, enc_login c = Some bs /\ parse_login_record bs = Some f /\ lf_password f = [] /\ lf_rempw f = [].
Proof.
  intros Hm Hf. destruct (login_record_recovered c Hf) as [bs [E [_ P]]].
  exists bs, (fields c). split; [exact E|]. split; [exact P|]. unfold fields, written_password. cbn. rewrite Hm. split; reflexivity.
Qed.

(* control: without encryption the password is in its slot *)
Theorem record_plain_password c : enc_mode (lc_encrypt c) = false -> fields_fit c ->
  exists bs f, enc_login c = Some bs /\ parse_login_record bs = Some f /\ lf_password f = lc_password c.
Proof.
  intros Hm Hf. destruct (login_record_recovered c Hf) as [bs [E [_ P]]].
  exists bs, (fields c). split; [exact E|]. split; [exact P|]. unfold fields, written_password. cbn. rewrite Hm. reflexivity.
Qed.

(* the tables regenerated from the code agree with the formats the model writes *)
Lemma paramfmt_longbinary_table : paramfmt_pkg [fmt_longbinary] = g_paramfmt1_225.
Proof. reflexivity. Qed.
Lemma paramfmt_varchar_table : paramfmt_pkg [fmt_varchar] = g_paramfmt1_39.
Proof. reflexivity. Qed.

(* the first message on the wire: well-formed packets (C01) whose payload is the login record followed by the
   capability package *)
Theorem first_message_wire c order : fields_fit c ->
  exists rec w1 st', enc_login c = Some rec /\
    send_message 512 0 g_buf_login (pkgs_chunks [rec; caps_pkg order]) tx0 = Some (w1, st') /\
    tx_ok 512 g_buf_login 0 0 (rec ++ caps_pkg order) w1 = true.
Proof.
  intros Hf. destruct (login_record_recovered c Hf) as [rec [E [Hl _]]].
  assert (Hne : payload_of (pkgs_chunks [rec; caps_pkg order]) <> []).
  { unfold payload_of, pkgs_chunks. cbn [map concat app]. rewrite ?app_nil_r. intros H.
    apply (f_equal zlen) in H. rewrite zlen_app, Hl in H. unfold login_record_length in H.
    pose proof (zlen_nonneg (caps_pkg order)). cbn in H. lia. }
  destruct (message_ok 512 0 g_buf_login (pkgs_chunks [rec; caps_pkg order]) tx0 ltac:(lia) ltac:(lia) ltac:(cbn; lia) eq_refl Hne)
    as [outs [st' [Es [Hok _]]]].
  exists rec, outs, st'. split; [exact E|]. split; [exact Es|].
  unfold payload_of, pkgs_chunks in Hok. cbn [map concat app tnr tx0] in Hok. rewrite ?app_nil_r in Hok. exact Hok.
Qed.

(* the default configuration negotiates password encryption for every kind of connection description (finite table
   regenerated from the code on every run; 2^10 combinations of the settings of tds.Info) *)
Lemma default_config_encrypts_b : forallb (fun p => with_encryption (snd p)) g_default_encrypt = true.
Proof. vm_compute. reflexivity. Qed.
Lemma default_config_encrypts : forall mask e, In (mask, e) g_default_encrypt -> with_encryption e = true.
Proof.
  intros mask e H. pose proof default_config_encrypts_b as B. rewrite forallb_forall in B. exact (B (mask, e) H).
Qed.
Lemma default_config_table_complete : map fst g_default_encrypt = map Z.of_nat (seq 0 1024).
Proof. vm_compute. reflexivity. Qed.
