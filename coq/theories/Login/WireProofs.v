(* The packets of a complete encrypted login are well-formed (C01's tx_ok) under the packet size in force: the size
   announced by the server is always within 9..65535 because the channel refuses anything else. *)
From Coq Require Import ZArith List Bool Lia.
Import ListNotations.
From V Require Import Base.Tree Base.Bytes Base.BytesFacts Base.Parser Pkg.GenTypes Gen.GenPkg Gen.GenLogin Pkg.Iface Pkg.Eed Pkg.All
  Pkg.LoginRec Pkg.LoginRecProofs Rx.Model C15.Model C01.Model C01.Spec C01.Proofs Login.Model Login.Spec Login.Secrecy.
Open Scope Z_scope.

Definition size_ok (e : ev) : Prop := match e with EvPackSize n => 9 <= n <= 65535 | _ => True end.

Lemma hooks_size_ok n (mk : Z -> ev) : (forall i, size_ok (mk i)) -> Forall size_ok (hook_calls n mk).
Proof.
  intros H. induction n as [|n IH]; [constructor|]. cbn [hook_calls]. apply Forall_app. split; [exact IH|].
  constructor; [apply H|constructor].
Qed.

Lemma env_size_ok nenv ms : Forall size_ok (env_members nenv ms).
Proof.
  induction ms as [|m ms IH]; [constructor|]. cbn [env_members].
  assert (Hh : forall t o n, Forall size_ok (hook_calls nenv (fun i => EvEnvHook i t o n))) by (intros; apply hooks_size_ok; intros; exact I).
  destruct (t_int (t_nth 0 m) =? c_env_packsize).
  - destruct (atoi (t_bytes (t_nth 1 m))) as [n|]; [|constructor; [exact I|constructor]].
    destruct ((n <=? c_hdr_size) || (65535 <? n)) eqn:E; [constructor; [exact I|constructor]|].
    apply orb_false_iff in E. destruct E as [E1 E2]. apply Z.leb_gt in E1. apply Z.ltb_ge in E2. unfold c_hdr_size in E1.
    constructor; [cbn; lia|]. apply Forall_app. split; [apply Hh|exact IH].
  - apply Forall_app. split; [apply Hh|exact IH].
Qed.

Lemma step_size_ok need nenv l tok body : match rx_step need nenv l tok body with
  | SOk es _ _ => Forall size_ok es | SNeb => True | SErr es _ => Forall size_ok es end.
Proof.
  unfold rx_step. destruct (last_ctx tok l) as [[[ctx lp] lr]|]; [|constructor; [exact I|constructor]].
  destruct (chan_dec tok ctx body) as [fields r| |c r|]; try exact I; try (constructor; [exact I|constructor]).
  destruct (tok =? tok_envchange); [apply env_size_ok|].
  destruct ((tok =? tok_eed) && Z.testbit (t_int (t_nth 4 fields)) 1); [constructor|].
  apply Forall_app. split; [|constructor; [exact I|constructor]].
  destruct (tok =? tok_eed); [|constructor]. apply hooks_size_ok. intros; exact I.
Qed.

Lemma loop_size_ok need nenv : forall fuel b e l, Forall size_ok (fst (rx_loop fuel need nenv b e l)).
Proof.
  unfold rx_loop. induction fuel as [|f IH]; intros b e l; [constructor|].
  destruct b as [|tok body]; cbn [gen_loop].
  - destruct e; [destruct (last_is_final_done l); cbn [fst]; [constructor|constructor; [exact I|constructor]]|constructor].
  - pose proof (step_size_ok need nenv l tok body) as Hs.
    destruct (rx_step need nenv l tok body) as [es l' r| |es allc].
    + specialize (IH r e l'). destruct (gen_loop (rx_step need nenv) f r e l') as [es2 st]. cbn [fst] in *. apply Forall_app. split; assumption.
    + destruct e; constructor.
    + destruct (allc && e); exact Hs.
Qed.

Lemma run_size_ok need nenv : forall ps st, Forall size_ok (concat (fst (rx_run need nenv st ps))).
Proof.
  induction ps as [|p ps IH]; intros st; [constructor|]. cbn [rx_run].
  assert (Hp : Forall size_ok (fst (rx_packet need nenv st p))).
  { unfold rx_packet. destruct (p_len p =? c_hdr_size); [constructor; [exact I|constructor]|]. apply loop_size_ok. }
  destruct (rx_packet need nenv st p) as [es st1]. specialize (IH st1). destruct (rx_run need nenv st1 ps) as [ess st2].
  cbn [fst concat] in *. apply Forall_app. split; assumption.
Qed.

Lemma size_after_ok es : forall ps, 9 <= ps <= 65535 -> Forall size_ok es -> 9 <= size_after ps es <= 65535.
Proof.
  unfold size_after. induction es as [|e es IH]; intros ps Hps Hes; [exact Hps|]. cbn [fold_left].
  inversion Hes as [|? ? He Hr]; subst. apply IH; [|exact Hr]. destruct e; try exact Hps. exact He.
Qed.

(* the packet size under which the second message is written is a legal one *)
Theorem second_message_size_ok keycap c rounds pem nonce ps1 :
  d_key (decide keycap c rounds) = Some (pem, nonce, ps1) -> 9 <= ps1 <= 65535.
Proof.
  unfold decide. destruct (enc_modes_refused (lc_encrypt c) || negb (fields_fitb c)); [discriminate|].
  pose proof (run_size_ok 0 0 (nth 0 rounds []) rx_init) as H1.
  destruct (rx_run 0 0 rx_init (nth 0 rounds [])) as [ess1 rx1]. cbn [fst] in H1.
  destruct (negb (with_encryption (lc_encrypt c))); [discriminate|].
  destruct (rx_run 0 0 rx1 (nth 1 rounds [])) as [ess2 rx2].
  destruct (enc_flow keycap c (delivered_of (concat ess1)) (errs_of (concat ess1)) (delivered_of (concat ess2)) (errs_of (concat ess2))) as [r caps].
  destruct (negotiation (delivered_of (concat ess1)) (errs_of (concat ess1))) as [[[[pem0 nonce0] q1'] e1']|r0]; [|discriminate].
  cbn [d_key]. intros H. inversion H; subst. apply size_after_ok; [lia|exact H1].
Qed.

(* a complete second message goes out as well-formed packets whose payload is exactly the queued packages *)
Theorem second_message_wire enc keycap symkey c pem nonce pkgs ps1 st :
  second_message enc keycap symkey c pem nonce = (pkgs, true) -> 9 <= ps1 <= 65535 -> 0 <= tnr st < 256 -> tq st = empty_pq ->
  exists w2 st', send_message ps1 0 g_buf_normal (pkgs_chunks pkgs) st = Some (w2, st') /\
    tx_ok ps1 g_buf_normal 0 (tnr st) (concat pkgs) w2 = true.
Proof.
  intros Hs Hps Hnr Hq.
  destruct (second_message_plaintexts keycap enc symkey c pem nonce pkgs Hs) as [rs [_ Hp]].
  assert (Hpay : payload_of (pkgs_chunks pkgs) = concat pkgs).
  { unfold payload_of, pkgs_chunks. clear. induction pkgs as [|p ps IH]; [reflexivity|]. cbn [map concat]. rewrite concat_app. cbn [concat]. rewrite app_nil_r, IH. reflexivity. }
  assert (Hne : payload_of (pkgs_chunks pkgs) <> []).
  { rewrite Hpay, Hp. cbn [concat]. unfold msg_pkg. discriminate. }
  destruct (message_ok ps1 0 g_buf_normal (pkgs_chunks pkgs) st Hps ltac:(lia) Hnr Hq Hne) as [outs [st' [Es [Hok _]]]].
  exists outs, st'. split; [exact Es|]. rewrite Hpay in Hok. exact Hok.
Qed.
