(* Channel.Login (tds/login.go) over the packages the channel delivers, with the messages it writes.
   The receive side is the rx model (Rx/Model.v) run on the reply packets; the send side is the tx model of C01
   (queue_package / send_remaining) run on the packages login queues.  RSA-OAEP is not modelled: [keycap pem] says
   how many plaintext bytes a key can take (negative: unusable), and [enc] stands for the encryption.
   No proofs in this file. *)
From Coq Require Import ZArith List Bool.
Import ListNotations.
From V Require Import Base.Tree Base.Bytes Base.Parser Pkg.GenTypes Gen.GenPkg Gen.GenLogin Pkg.Iface Pkg.Field Pkg.Fmts Pkg.Msg
  Pkg.LoginAck Pkg.Capability Pkg.LoginRec Rx.Model Rx.Consumer C15.Model C01.Model.
Open Scope Z_scope.

(* ---------------------------------------------------------------- what the consumer side sees of the rx events *)
Definition tok_header_only : Z := -3.
Definition delivered_of (es : list ev) : list dpkg :=
  flat_map (fun e => match e with
                     | EvDeliver t f => [(t, f)]
                     | EvSynthDone => [(253, TL [TI 0; TI 0; TI 0])]
                     | EvHeaderOnly h => [(tok_header_only, h)]
                     | _ => []
                     end) es.
Definition is_err_ev (e : ev) : bool := match e with EvErr _ => true | _ => false end.
Definition errs_of (es : list ev) : nat := length (filter is_err_ev es).

(* ---------------------------------------------------------------- package views *)
Definition is_ack (p : dpkg) : bool := fst p =? g_tok_loginack.
Definition ack_status (p : dpkg) : Z := t_int (t_nth 1 (snd p)).
Definition is_msg (p : dpkg) : bool := fst p =? g_tok_msg.
Definition msg_id (p : dpkg) : Z := t_int (t_nth 1 (snd p)).
Definition is_paramfmt (p : dpkg) : bool := (fst p =? tok_paramfmt) || (fst p =? tok_paramfmt2).
Definition is_params (p : dpkg) : bool := fst p =? tok_params.
Definition is_done (p : dpkg) : bool := is_done_tok (fst p).
Definition done_status (p : dpkg) : Z := t_int (t_nth 0 (snd p)).
Definition is_caps (p : dpkg) : bool := fst p =? g_tok_capability.
Definition fmt_types (p : dpkg) : list Z := map (fun f => t_int (t_nth 0 f)) (t_list (snd p)).
Definition param_data (p : dpkg) : list bytes := map (fun v => t_bytes (t_nth 1 v)) (t_list (snd p)).

(* the capability sanity check: a type whose mask has more than one entry and no entry set was "not understood" *)
Definition caps_ok (p : dpkg) : bool :=
  forallb (fun e => (length (snd e) =? 1)%nat || existsb (fun b => b) (snd e)) (cp_caps (capability_of_tree (snd p))).

(* ---------------------------------------------------------------- results *)
Inductive lres :=
| LSuccess
| LRejected          (* an error other than the caller's context ending *)
| LCtx.              (* the wait for a package ended with the caller's context *)

(* NextPackage(ctx, true): the next package, or why there is none *)
Definition np (q : list dpkg) (errs : nat) : (dpkg * list dpkg * nat) + lres :=
  match next_package q errs true with
  | (NPkg p, r, e) => inl (p, r, e)
  | (NBlocked, _, _) => inr LCtx
  | _ => inr LRejected
  end.

Definition enc_modes_refused (e : Z) : bool := (e =? g_msg_encrypt) || (e =? g_msg_encrypt2) || (e =? g_msg_encrypt3).
Definition with_encryption (e : Z) : bool := e =? g_msg_encrypt4.

(* one step of the negotiation: the next package must satisfy [ok] (a type assertion / field check of login.go) *)
Definition expect {X} (q : list dpkg) (errs : nat) (ok : dpkg -> bool) (k : dpkg -> list dpkg -> nat -> X + lres) : X + lres :=
  match np q errs with
  | inr r => inr r
  | inl (p, q', e') => if ok p then k p q' e' else inr LRejected
  end.

(* ---- plain flow: LOGINACK(SUCCEED), DONE(FINAL) *)
Definition plain_flow (q : list dpkg) (errs : nat) : lres :=
  match expect q errs (fun a => is_ack a && (ack_status a =? g_log_succeed)) (fun _ q1 e1 =>
        expect q1 e1 (fun d => is_done d && (done_status d =? g_done_final)) (fun _ _ _ => inl tt)) with
  | inl _ => LSuccess
  | inr r => r
  end.

(* the three key parameters: cipher suite (INT4, value 1 = RSA), public key and nonce (LONGBINARY, not NULL: the
   Go value of a zero-length LONGBINARY is nil, which is not a []byte) *)
Definition key_params (pf ps : dpkg) : option (bytes * bytes) :=
  match fmt_types pf, param_data ps with
  | [t0; t1; t2], [d0; d1; d2] =>
    if (t0 =? g_dt_int4) && list_Z_eqb d0 [1; 0; 0; 0] && (t1 =? g_dt_longbinary) && (t2 =? g_dt_longbinary)
       && negb (zlen d1 =? 0) && negb (zlen d2 =? 0)
    then Some (d1, d2) else None
  | _, _ => None
  end.

(* ---- encrypted flow, first half: LOGINACK(NEGOTIATE) MSG(ENCRYPT4) PARAMFMT(3) PARAMS(3) DONE; yields key and nonce *)
Definition negotiation (q : list dpkg) (errs : nat) : (bytes * bytes * list dpkg * nat) + lres :=
  expect q errs (fun a => is_ack a && (ack_status a =? g_log_negotiate)) (fun _ q1 e1 =>
  expect q1 e1 (fun m => is_msg m && (msg_id m =? g_msg_encrypt4)) (fun _ q2 e2 =>
  expect q2 e2 (fun pf => is_paramfmt pf && (length (fmt_types pf) =? 3)%nat) (fun pf q3 e3 =>
  expect q3 e3 (fun ps => is_params ps && (length (param_data ps) =? 3)%nat) (fun ps q4 e4 =>
  expect q4 e4 is_done (fun _ q5 e5 =>
    match key_params pf ps with
    | Some (pem, nonce) => inl (pem, nonce, q5, e5)
    | None => inr LRejected
    end))))).

(* ---- second half: skip to the LOGINACK, it must be SUCCEED; CAPABILITY (sane); DONE(FINAL) *)
Definition ack_cb (_ : nat) (p : dpkg) : cbres :=
  if is_ack p then (if ack_status p =? g_log_succeed then CbStop else CbErr) else CbContinue.

Definition acknowledgement (q : list dpkg) (errs : nat) : lres * option tree :=
  match until (S (S (length q))) q errs true (Some ack_cb) O [] with
  | (UPkg _, q1, e1) =>
    match np q1 e1 with
    | inr r => (r, None)
    | inl (pc, q2, e2) =>
      if negb (is_caps pc) then (LRejected, None)
      else if negb (caps_ok pc) then (LRejected, None)
      else match np q2 e2 with                                      (* the connection's capabilities are replaced here *)
           | inr r => (r, Some (snd pc))
           | inl (pd, _, _) => if is_done pd && (done_status pd =? g_done_final) then (LSuccess, Some (snd pc))
                               else (LRejected, Some (snd pc))
           end
    end
  | (UFail NBlocked, _, _) => (LCtx, None)
  | _ => (LRejected, None)
  end.

(* ---------------------------------------------------------------- the decision *)
Section Decide.
Variable keycap : bytes -> Z.              (* plaintext capacity of a PEM key; negative: unusable *)

Definition fits_key (pem nonce secret : bytes) : bool := (0 <=? keycap pem) && (zlen nonce + zlen secret <=? keycap pem).

(* the servers whose passwords are sent: the server itself (empty name, the account password) and the configured ones *)
Definition servers (c : login_cfg) : list (bytes * bytes) := ([], lc_password c) :: lc_remote c.

(* every encryption succeeds: the password, every server password, the 32-byte session key *)
Definition all_fit (c : login_cfg) (pem nonce : bytes) : bool :=
  forallb (fun s => fits_key pem nonce (snd s)) (servers c) && fits_key pem nonce (zeros 32).

(* the encrypted flow over what the two replies deliver: q1/e1 from the reply to the login record, q2/e2 from the
   reply to the encrypted passwords (only sent, hence only answered, if the negotiation went through) *)
Definition enc_flow (c : login_cfg) (q1 : list dpkg) (e1 : nat) (q2 : list dpkg) (e2 : nat) : lres * option tree :=
  match negotiation q1 e1 with
  | inr r => (r, None)
  | inl (pem, nonce, q1', e1') =>
    if all_fit c pem nonce then acknowledgement (q1' ++ q2) (e1' + e2)%nat else (LRejected, None)
  end.

Record decision := {
  d_res : lres; d_caps : option tree; d_packsize : Z;
  d_sent1 : bool;                                   (* the login record went out *)
  d_key : option (bytes * bytes * Z) }.             (* key, nonce and packet size of the second message, if it was begun *)

Definition decide (c : login_cfg) (rounds : list (list packet_in)) : decision :=
  let ps0 := 512 in
  if enc_modes_refused (lc_encrypt c) || negb (fields_fitb c) then
    {| d_res := LRejected; d_caps := None; d_packsize := ps0; d_sent1 := false; d_key := None |}
  else
    let '(ess1, rx1) := rx_run 0 0 rx_init (nth 0 rounds []) in
    let es1 := concat ess1 in
    let ps1 := size_after ps0 es1 in
    let q1 := delivered_of es1 in
    let e1 := errs_of es1 in
    if negb (with_encryption (lc_encrypt c)) then
      {| d_res := plain_flow q1 e1; d_caps := None; d_packsize := ps1; d_sent1 := true; d_key := None |}
    else
      let '(ess2, _) := rx_run 0 0 rx1 (nth 1 rounds []) in
      let es2 := concat ess2 in
      let '(r, caps) := enc_flow c q1 e1 (delivered_of es2) (errs_of es2) in
      match negotiation q1 e1 with
      | inr _ => {| d_res := r; d_caps := caps; d_packsize := ps1; d_sent1 := true; d_key := None |}
      | inl (pem, nonce, _, _) =>
        {| d_res := r; d_caps := caps; d_packsize := if all_fit c pem nonce then size_after ps1 es2 else ps1;
           d_sent1 := true; d_key := Some (pem, nonce, ps1) |}
      end.
End Decide.

(* ---------------------------------------------------------------- what login writes *)
Section Tx.
Variable enc : bytes -> bytes -> nat -> bytes.     (* key, plaintext, number of the call -> ciphertext *)
Variable keycap : bytes -> Z.
Variable symkey : bytes.                           (* the session key drawn from crypto/rand *)

Definition msg_pkg (id : Z) : bytes := g_tok_msg :: 3 :: g_msg_hasargs :: bytes_of_le 2 id.
Definition longbinary_param (ct : bytes) : bytes := tok_params :: bytes_of_le 4 (zlen ct) ++ ct.

(* the parameter format / data of the remote-server message: (VARCHAR name, LONGBINARY password) per server *)
Definition fmt_varchar : bytes := [0; 0; 0; 0; 0; 0; g_dt_varchar; 255; 0].
Definition fmt_longbinary : bytes := [0; 0; 0; 0; 0; 0; g_dt_longbinary; 255; 255; 255; 127; 0].
Definition paramfmt_pkg (fmts : list bytes) : bytes :=
  let body := bytes_of_le 2 (zlen fmts) ++ concat fmts in
  tok_paramfmt :: bytes_of_le 2 (zlen body) ++ body.

Fixpoint remote_cts (pem nonce : bytes) (k : nat) (srv : list (bytes * bytes)) : option (list (bytes * bytes)) :=
  match srv with
  | [] => Some []
  | (name, pw) :: r =>
    if fits_key keycap pem nonce pw then
      match remote_cts pem nonce (S k) r with
      | Some l => Some ((name, enc pem (nonce ++ pw) k) :: l)
      | None => None
      end
    else None
  end.

(* the packages queued for the second message, in order, and whether all of them were queued (an encryption that
   fails leaves the ones queued before it in the send queue; full packets among them have already gone out) *)
Definition second_message (c : login_cfg) (pem nonce : bytes) : list bytes * bool :=
  if negb (fits_key keycap pem nonce (lc_password c)) then ([], false)
  else
    let pw := [msg_pkg g_msg_logpwd3; paramfmt_pkg [fmt_longbinary]; longbinary_param (enc pem (nonce ++ lc_password c) 0)] in
    match remote_cts pem nonce 1 (servers c) with
    | None => (pw, false)
    | Some rs =>
      let rem := [msg_pkg g_msg_rempwd3;
                  paramfmt_pkg (concat (map (fun _ => [fmt_varchar; fmt_longbinary]) rs));
                  tok_params :: concat (map (fun r => bytes_of_le 1 (zlen (fst r)) ++ fst r ++ bytes_of_le 4 (zlen (snd r)) ++ snd r) rs)] in
      if negb (fits_key keycap pem nonce (zeros 32)) then (pw ++ rem, false)      (* the session key is 32 bytes *)
      else (pw ++ rem ++ [msg_pkg g_msg_symkey; paramfmt_pkg [fmt_longbinary];
                          longbinary_param (enc pem (nonce ++ symkey) (S (length (servers c))))], true)
    end.

(* the capability package sent with the login record: the fresh connection's masks, in map-iteration order *)
Definition caps_pkg (order : list Z) : bytes :=
  let blocks := map (fun t => let m := zassoc t g_default_caps [] in t :: zlen m :: m) order in
  g_tok_capability :: bytes_of_le 2 (zlen (concat blocks)) ++ concat blocks.

Definition tx0 : txst := {| tq := empty_pq; tnr := 0 |}.
Definition pkgs_chunks (l : list bytes) : list (list bytes) := map (fun p => [p]) l.

(* the messages on the wire (each a list of packets); a send that the tx model refuses writes nothing *)
Definition wire_of (c : login_cfg) (order : list Z) (d : decision) : list (list bytes) :=
  if negb (d_sent1 d) then []
  else match enc_login c with
  | None => []
  | Some rec =>
    match send_message 512 0 g_buf_login (pkgs_chunks [rec; caps_pkg order]) tx0 with
    | None => []
    | Some (w1, tx1) =>
      match d_key d with
      | None => [w1]
      | Some (pem, nonce, ps1) =>
        let '(pkgs, complete) := second_message c pem nonce in
        if complete then
          match send_message ps1 0 g_buf_normal (pkgs_chunks pkgs) tx1 with
          | Some (w2, _) => [w1; w2]
          | None => [w1]
          end
        else
          match queue_all ps1 0 g_buf_normal (pkgs_chunks pkgs) tx1 with
          | Some (w2, _) => match w2 with [] => [w1] | _ => [w1; w2] end        (* packets that were already full *)
          | None => [w1]
          end
      end
    end
  end.

(* ---------------------------------------------------------------- the whole call *)
Record outcome := { o_res : lres; o_caps : option tree; o_packsize : Z; o_wire : list (list bytes) }.

Definition login (c : login_cfg) (order : list Z) (rounds : list (list packet_in)) : outcome :=
  let d := decide keycap c rounds in
  {| o_res := d_res d; o_caps := d_caps d; o_packsize := d_packsize d; o_wire := wire_of c order d |}.
End Tx.
