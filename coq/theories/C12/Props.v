(* C12 — logical channels are isolated and correctly routed under concurrency.  Property theorems only.

   Models: C12/Model.v (routing over the channel map, allocation/registration under the map lock as atomic steps,
   the writes of several channels on one transport, the setup handshake) on top of the receive path of one channel
   (Rx/Model.v: rx_packet / rx_run) and the send path of one channel (C01/Model.v).  They are compared with
   tds/conn.go + tds/channel.go on every run (sequential interleavings, recorded concurrent histories). *)
From Coq Require Import ZArith List Bool Lia.
Import ListNotations.
From V Require Import Base.Tree Base.Bytes Gen.GenPkg Rx.Model C15.Model Gen.GenC01 C01.Model C01.Spec C01.Proofs
  Gen.GenC12 C12.Model C12.Spec C12.Proofs C12.ProofsTx.
From V Require C13.Model C13.Closers C13.ProofsClosers.
Open Scope Z_scope.

(* (1) Routing, frame property.  For EVERY sequence of received packets and closes of other channels — any
   interleaving of the packets of any number of channels, registered or not — the events channel id sees, packet by
   packet, are exactly those of the receive path of one channel run on the subsequence of packets addressed to id,
   and its receive state afterwards is that run's state: nothing another channel receives or does can be observed. *)
Theorem C12_routing : forall need nenv os m id st,
  cm_find id m = Some st ->
  existsb (closes id) os = false ->
  events_of id (fst (route_ops need nenv m os)) = fst (rx_run need nenv st (pkts_for id os)) /\
  cm_find id (snd (route_ops need nenv m os)) = Some (snd (rx_run need nenv st (pkts_for id os))).
Proof. exact routing_frame. Qed.

(* (2) A packet for an id that is not registered: exactly one connection error naming the id, no channel state
   changes; after a channel is closed its id is such an id. *)
Theorem C12_unknown_channel : forall need nenv m p, cm_find (pkt_chan p) m = None ->
  route need nenv m p = (RInvalid (pkt_chan p), m).
Proof. exact unknown_channel. Qed.

Theorem C12_closed_channel_unknown : forall need nenv m id p, pkt_chan p = id ->
  route need nenv (snd (route_op need nenv m (OClose id))) p = (RInvalid id, snd (route_op need nenv m (OClose id))).
Proof. exact closed_then_unknown. Qed.

(* (3) Distinct ids, for EVERY schedule: any list of steps by any threads (a step of a thread that does not hold the
   map lock while another does is blocked).  All ids handed out by NewChannel calls so far are pairwise distinct and
   lie in 0..65535, so does every registered id; an id is not registered at the moment it is inserted. *)
Theorem C12_ids_distinct : forall ls,
  NoDup (map snd (got (arun ls))) /\
  (forall t x, In (t, x) (got (arun ls)) -> 0 <= x <= max_chan) /\
  (forall x, In x (amap (arun ls)) -> 0 <= x <= max_chan).
Proof. exact ids_distinct. Qed.

Theorem C12_id_fresh_at_registration : forall ls t cur,
  holder (arun ls) = Some (t, PFree cur) -> ~ In cur (amap (arun ls)).
Proof. exact insert_fresh. Qed.

Theorem C12_lock_excludes : forall s t h pc, holder s = Some (h, pc) -> t <> h ->
  astep s (ANew t) = s /\ forall k, astep s (AClose t k) = s.
Proof. exact blocked_while_held. Qed.

(* the same steps without the lock (the code before commit c9b3921): two creators read the same counter value *)
Example C12_ids_unlocked_refuted :
  ugot (fold_left ustep [1; 2; 1; 2; 1; 2; 1; 2] uinit) = [(2, 0); (1, 0)].
Proof. vm_compute. reflexivity. Qed.

(* (4) Outgoing packets.  Channels with pairwise distinct ids > 0, each performing its own sequence of writes (SETUP,
   any messages, optionally the teardown); `log` is ANY interleaving of these sequences (every write tagged with the
   channel that performed it; the writes tagged i are channel i's, in order).  Then selecting the packets whose HEADER
   carries id_i yields exactly channel i's writes, and in them the k-th packet carries the number k mod 256
   (numbering_ok), the first being the header-only SETUP packet. *)
Theorem C12_tx_numbering : forall (cs : list chan_life) (log : list (nat * bytes)),
  Forall life_wf cs -> NoDup (map cl_id cs) ->
  (forall i c, nth_error cs i = Some c -> exists ws, life_writes c = Some ws /\ writes_of_thread i log = ws) ->
  (forall e, In e log -> (fst e < length cs)%nat) ->
  forall i c, nth_error cs i = Some c ->
  exists ws, life_writes c = Some ws /\
    filter (fun w => log_chan w =? cl_id c) (map snd log) = ws /\
    numbering_ok (cl_id c) 0 ws = true /\
    exists w0 rest, ws = w0 :: rest /\ log_type w0 = buf_setup /\ log_body w0 = [].
Proof.
  intros cs log Hwf Hnd Hint Hdom i c Hi.
  set (f := fun c0 => match life_writes c0 with Some ws => ws | None => [] end).
  assert (Hlen : forall j c0, nth_error cs j = Some c0 -> (j < length cs)%nat).
  { intros j c0 H. apply nth_error_Some. congruence. }
  assert (Hwfc : forall j c0, nth_error cs j = Some c0 -> life_wf c0).
  { intros j c0 H. rewrite Forall_forall in Hwf. apply Hwf. eapply nth_error_In. exact H. }
  assert (Hnth : forall j c0, nth_error cs j = Some c0 ->
            nth j (map cl_id cs) (-1) = cl_id c0 /\ nth j (map f cs) [] = f c0).
  { intros j c0 H. split.
    - erewrite nth_indep by (rewrite map_length; eapply Hlen; exact H).
      rewrite (map_nth cl_id cs c0 j). f_equal. apply nth_error_nth. exact H.
    - erewrite nth_indep by (rewrite map_length; eapply Hlen; exact H).
      rewrite (map_nth f cs c0 j). f_equal. apply nth_error_nth. exact H. }
  assert (Hex : forall j, (j < length (map cl_id cs))%nat -> exists c0, nth_error cs j = Some c0).
  { intros j Hj. rewrite map_length in Hj. destruct (nth_error cs j) as [c0|] eqn:E; [eexists; reflexivity|].
    apply nth_error_None in E. lia. }
  destruct (life_numbering c (Hwfc i c Hi)) as [ws [Ews [Hnum Hfirst]]].
  exists ws. split; [exact Ews|]. split; [|split; [exact Hnum | exact Hfirst]].
  destruct (Hnth i c Hi) as [Hid Hws].
  rewrite <- Hid.
  rewrite (demux (map cl_id cs) (map f cs) log Hnd).
  - rewrite Hws. unfold f. rewrite Ews. reflexivity.
  - intros j Hj. destruct (Hex j Hj) as [c0 Hc0]. destruct (Hint j c0 Hc0) as [ws0 [E0 W0]].
    destruct (Hnth j c0 Hc0) as [_ Hw]. rewrite Hw. unfold f. rewrite E0. exact W0.
  - intros e I. rewrite map_length. exact (Hdom e I).
  - intros j w Hj I. destruct (Hex j Hj) as [c0 Hc0].
    destruct (Hnth j c0 Hc0) as [Hidj Hw]. rewrite Hw in I. rewrite Hidj.
    destruct (life_numbering c0 (Hwfc j c0 Hc0)) as [ws0 [E0 [N0 _]]].
    unfold f in I. rewrite E0 in I.
    pose proof (numbering_chan (cl_id c0) ws0 0 N0) as Hall. rewrite Forall_forall in Hall.
    rewrite (Hall w I). destruct (Hwfc j c0 Hc0) as [[Hpos _] _].
    replace (0 <? cl_id c0) with true by (symmetry; apply Z.ltb_lt; lia). reflexivity.
  - rewrite map_length. eapply Hlen. exact Hi.
Qed.

(* the packets one channel writes for a history of messages alone: C01's well-formedness, the id everywhere,
   consecutive numbers, and the counter afterwards (what C12_tx_numbering uses per channel) *)
Theorem C12_channel_numbering : forall chan, 0 <= chan < 65536 -> forall ms st outs st',
  Forall msg_wf ms -> 0 <= tnr st < 256 -> tq st = empty_pq ->
  send_history chan ms st = Some (outs, st') ->
  history_ok chan (tnr st) ms outs = true /\
  numbering_ok chan (tnr st) (concat outs) = true /\
  tnr st' = (if 0 <? chan then (tnr st + zlen (concat outs)) mod 256 else tnr st).
Proof.
  intros chan Hc ms st outs st' Hwf Hnr Hq E.
  destruct (history_counter chan Hc ms st outs st' Hwf Hnr Hq E) as [Hok [_ [_ Hcnt]]].
  split; [exact Hok|]. split; [|exact Hcnt].
  apply (history_ok_numbering chan ltac:(lia) ms). exact Hok.
Qed.

(* (5) NewChannel for an id > 0 writes exactly the header-only SETUP packet carrying the id and number 0, then waits:
   a header-only packet is delivered to the channel as such (the receive path does not touch its state); the call
   succeeds when the first thing that arrives for the channel is the PROTACK header-only packet, fails on anything
   else that is not a header-only packet with the PROTACK bits, and waits (until the connection context is cancelled)
   while nothing arrives. *)
Theorem C12_setup_ack : forall ps id, 9 <= ps -> 0 < id < 65536 ->
  setup_write ps id = Some (header_bytes buf_setup eom_bit 8 id 0 0) /\
  (forall need nenv st p, p_len p = c_hdr_size -> rx_packet need nenv st p = ([EvHeaderOnly (p_hdr p)], st)) /\
  (forall rest, new_channel_wait (AHeaderOnly buf_protack :: rest) = NcOk) /\
  new_channel_wait [] = NcWaits /\
  (forall a rest, (forall typ, a = AHeaderOnly typ -> is_protack typ = false) -> new_channel_wait (a :: rest) = NcError).
Proof.
  intros ps id Hps Hid. split; [apply setup_write_bytes; assumption|].
  split.
  - intros need nenv st p H. unfold rx_packet. rewrite H, Z.eqb_refl. reflexivity.
  - split; [intros rest; apply setup_ack_ok; reflexivity|]. split; [exact setup_waits | exact setup_fails].
Qed.

(* (6) Closes of ONE channel by several goroutines (its owner, Conn.Close, ...): every interleaving of the steps of
   n + 1 calls of Channel.Close on the same logical channel (model: C13/Closers.v - first closed check under the read
   lock, atomic compare-and-swap of `closing`, teardown packet with no lock held, exclusive lock, re-check, unregister,
   close and drain the queues, unlock).  In EVERY reachable state nobody has panicked, at most ONE teardown packet was
   written (so header type and packet counter of the channel have one writer) and the id was deleted from the channel
   map at most once; some closer can move until all have returned; once all have returned exactly one has performed
   the teardown, all n others report ErrChannelClosed, exactly one teardown packet was written, the channel is
   unregistered and no lock is held.  (Statement shared with C13.) *)
Theorem C12_concurrent_close : forall recheck left n ls,
  let s := Closers.cexec (Closers.cinit true recheck left (S n)) ls in
  (Closers.c_panic s = false /\ Closers.c_unregs s <= 1 /\ Closers.c_teardowns s <= 1 /\
   (forall i c, nth_error (Closers.c_pcs s) i = Some (Model.CDone c) -> c = 2 \/ c = (if left then 1 else 0))) /\
  (Closers.all_returned s = false -> exists i s', Closers.cstep s i = Some s') /\
  (Closers.all_returned s = true ->
     ProofsClosers.cnt ProofsClosers.is_win (Closers.c_pcs s) = 1 /\ ProofsClosers.cnt ProofsClosers.lost (Closers.c_pcs s) = Z.of_nat n /\
     Closers.c_unregs s = 1 /\ Closers.c_teardowns s = 1 /\ Closers.c_registered s = false /\ Closers.c_closed s = true /\
     Closers.c_wheld s = false /\ Closers.c_pending s = 0) /\
  (forall ls' s', ProofsClosers.crun_eff (Closers.cinit true recheck left (S n)) ls' = Some s' -> Z.of_nat (length ls') <= 10 * Z.of_nat (S n)).
Proof. exact ProofsClosers.concurrent_close. Qed.

(* without the compare-and-swap two closers that both passed the first check both write a teardown packet (two
   unsynchronised writers of the channel's header type and packet counter); without the re-check under the exclusive
   lock as well they delete the id twice and the second one panics (close of a nil channel) *)
Example C12_concurrent_close_unguarded_refuted :
  Closers.c_teardowns (Closers.crun_window false true false 2) = 2 /\
  (let s := Closers.crun_window false false false 2 in Closers.c_panic s = true /\ Closers.c_unregs s = 2).
Proof. vm_compute. repeat split; reflexivity. Qed.

(* (7) Sends between received packets.  A history interleaves what the reader goroutine does (packets of any channels,
   closes) with what the channels' users do in between: whole messages (QueuePackage ... SendPackage /
   SendRemainingPackets, each ending with the channel's reset()) and Channel.Reset, on ANY channel at ANY point - in
   particular on a channel between two packets of a package addressed to it.  The routing results and the routing map
   are those of the history with the send / reset events erased: no send can drop, reorder or damage what the server
   sent. *)
Theorem C12_routing_ignores_sends : forall need nenv ps hs m tm,
  rx_outs (fst (hist_run need nenv ps (m, tm) hs)) = fst (route_ops need nenv m (rx_ops hs)) /\
  fst (snd (hist_run need nenv ps (m, tm) hs)) = snd (route_ops need nenv m (rx_ops hs)).
Proof. exact routing_ignores_sends. Qed.

(* hence, with C12_routing: whatever is sent in between, a channel sees, packet by packet, what the receive path of one
   channel alone delivers for the packets addressed to it, in the order the server sent them *)
Theorem C12_routing_with_sends : forall need nenv ps hs m tm id st,
  cm_find id m = Some st ->
  existsb (closes id) (rx_ops hs) = false ->
  events_of id (rx_outs (fst (hist_run need nenv ps (m, tm) hs))) = fst (rx_run need nenv st (pkts_for id (rx_ops hs))) /\
  cm_find id (fst (snd (hist_run need nenv ps (m, tm) hs))) = Some (snd (rx_run need nenv st (pkts_for id (rx_ops hs)))).
Proof. exact routing_with_sends. Qed.

(* and the other way round: what the sends write (result codes, transport writes with the channel's id and packet
   numbers as the send model of section 3 / C01 numbers them) and the send states afterwards do not depend on the packets
   received in between, nor on the routing map *)
Theorem C12_sends_ignore_routing : forall need nenv ps hs m m' tm,
  tx_outs (fst (hist_run need nenv ps (m, tm) hs)) = tx_outs (fst (hist_run need nenv ps (m', tm) (tx_hops hs))) /\
  snd (snd (hist_run need nenv ps (m, tm) hs)) = snd (snd (hist_run need nenv ps (m', tm) (tx_hops hs))).
Proof. exact sends_ignore_routing. Qed.

(* non-vacuity: channel 1 receives DONE(count = 1001) cut after 4 bytes; between the two packets its user sends a message
   (packet number 1 after the SETUP packet's 0): the write goes out and the DONE is delivered whole, followed by the
   final DONE the receive path adds at the end of a message *)
Example C12_send_between_example :
  let a1 := {| p_hdr := TL [TI 4; TI 0; TI 12; TI 1; TI 0; TI 0]; p_len := 12; p_eom := false; p_body := [253;16;0;0] |} in
  let a2 := {| p_hdr := TL [TI 4; TI 1; TI 13; TI 1; TI 0; TI 0]; p_len := 13; p_eom := true; p_body := [0;233;3;0;0] |} in
  let hs := [HRx (OPkt a1); HSend 1 15 [[[33;1;2;3]]]; HRx (OPkt a2)] in
  map hout_tree (fst (hist_run 0 0 512 ([(1, rx_init)], [(1, {| tq := empty_pq; tnr := 1 |})]) hs)) =
  [TL [TL []; TL []];
   TL [TI 0; TL [TB [15; 1; 0; 12; 0; 1; 1; 0; 33; 1; 2; 3]]];
   TL [TL [TL [TI 1; TL [TL [TI 1; TI 253; TL [TI 16; TI 0; TI 1001]]; TL [TI 1; TI 253; TL [TI 0; TI 0; TI 0]]]]]; TL []]].
Proof. vm_compute. reflexivity. Qed.

(* ---- non-vacuity *)

(* two channels (ids 1 and 256), packets interleaved, one packet for an unknown id, channel 256 closed in between:
   channel 1 sees exactly its own two header-only packets *)
Example C12_routing_example :
  let hdr c := TL [TI 11; TI 1; TI 8; TI c; TI 0; TI 0] in
  let pkt c := {| p_hdr := hdr c; p_len := 8; p_eom := true; p_body := [] |} in
  let os := [OPkt (pkt 1); OPkt (pkt 256); OPkt (pkt 7); OClose 256; OPkt (pkt 256); OPkt (pkt 1)] in
  let m := [(1, rx_init); (256, rx_init)] in
  fst (route_ops 0 0 m os) =
    [RTo 1 [EvHeaderOnly (hdr 1)]; RTo 256 [EvHeaderOnly (hdr 256)]; RInvalid 7; RClosed 0; RInvalid 256; RTo 1 [EvHeaderOnly (hdr 1)]] /\
  events_of 1 (fst (route_ops 0 0 m os)) = fst (rx_run 0 0 rx_init (pkts_for 1 os)).
Proof. vm_compute. split; reflexivity. Qed.

(* three creators and a closer in an arbitrary interleaving: blocked steps are no-ops, ids 0, 1, 2 *)
Example C12_allocation_example :
  let ls := [ANew 1; ANew 2; ANew 1; ANew 3; ANew 1; ANew 1; ANew 2; ANew 1; ANew 1;
             ANew 2; ANew 2; ANew 2; ANew 3; ANew 2; ANew 2; ANew 2; AClose 1 0; ANew 3; AClose 1 0; AClose 1 0;
             ANew 3; ANew 3; ANew 3; ANew 3; ANew 3; ANew 3] in
  got (arun ls) = [(3, 2); (2, 1); (1, 0)] /\ amap (arun ls) = [2; 1] /\ holder (arun ls) = None.
Proof. vm_compute. repeat split; reflexivity. Qed.

(* a logical channel with id 257, packet size 16, one message of 10 bytes, then closed: SETUP nr 0, two data packets
   nr 1 and 2, teardown nr 3 *)
Example C12_life_example :
  life_writes {| cl_id := 257; cl_ps := 16; cl_msgs := [{| m_ps := 16; m_typ := 15; m_pkgs := [[[1;2;3;4;5;6;7;8;9;10]]] |}]; cl_close := true |}
  = Some [[8;1;0;8;1;1;0;0]; [15;0;0;16;1;1;1;0;1;2;3;4;5;6;7;8]; [15;1;0;10;1;1;2;0;9;10];
          [9;1;0;16;1;1;3;0;0;0;0;0;0;0;0;0]].
Proof. vm_compute. reflexivity. Qed.

Print Assumptions C12_routing.
Print Assumptions C12_unknown_channel.
Print Assumptions C12_closed_channel_unknown.
Print Assumptions C12_ids_distinct.
Print Assumptions C12_id_fresh_at_registration.
Print Assumptions C12_lock_excludes.
Print Assumptions C12_tx_numbering.
Print Assumptions C12_channel_numbering.
Print Assumptions C12_setup_ack.
Print Assumptions C12_concurrent_close.
Print Assumptions C12_routing_ignores_sends.
Print Assumptions C12_routing_with_sends.
Print Assumptions C12_sends_ignore_routing.
