(* C12 — property theorems (placeholder while the pipeline is brought up). *)
From Coq Require Import ZArith List Bool.
Import ListNotations.
From V Require Import Base.Tree C12.Model C12.Spec.
Open Scope Z_scope.

Theorem C12_unknown_channel : forall need nenv m p, cm_find (pkt_chan p) m = None ->
  route need nenv m p = (RInvalid (pkt_chan p), m).
Proof. intros need nenv m p H. unfold route. rewrite H. reflexivity. Qed.
Print Assumptions C12_unknown_channel.
