(* C12 — lemmas about the sending side of several channels on one transport (on top of the C01 theorems) and about
   the setup of a logical channel. *)
From Coq Require Import ZArith List Bool Lia.
Import ListNotations.
From V Require Import Base.Tree Base.Bytes Base.BytesFacts C15.Model Gen.GenC01 C01.Model C01.Spec C01.Proofs
  Gen.GenC12 C12.Model C12.Spec.
Open Scope Z_scope.

(* every write carries the id, and the k-th write the number nr + k mod 256 (channel 0: id 0, number 0) *)
Fixpoint numbering_ok (id nr : Z) (ws : list bytes) : bool :=
  match ws with
  | [] => true
  | w :: r =>
    match parse_packet w with
    | None => false
    | Some (_, _, _, c, n, _, _) =>
        (c =? (if 0 <? id then id else 0)) && (n =? (if 0 <? id then nr mod 256 else 0)) && numbering_ok id (nr + 1) r
    end
  end.

Lemma numbering_irrel : forall id ws nr nr',
  (0 <? id = true -> nr mod 256 = nr' mod 256) -> numbering_ok id nr ws = numbering_ok id nr' ws.
Proof.
  intros id ws. induction ws as [|w r IH]; intros nr nr' H; [reflexivity|].
  cbn [numbering_ok]. destruct (parse_packet w) as [[[[[[[t s] len] c] n] wi] body]|]; [|reflexivity].
  rewrite (IH (nr + 1) (nr' + 1)).
  - destruct (0 <? id) eqn:P; [rewrite (H eq_refl); reflexivity | reflexivity].
  - intros P. rewrite <- Zplus_mod_idemp_l, (H P), Zplus_mod_idemp_l. reflexivity.
Qed.

Lemma numbering_app : forall id a b nr,
  numbering_ok id nr (a ++ b) = numbering_ok id nr a && numbering_ok id (nr + zlen a) b.
Proof.
  intros id a. induction a as [|w r IH]; intros b nr.
  - cbn [app numbering_ok andb]. rewrite zlen_nil, Z.add_0_r. reflexivity.
  - cbn [app numbering_ok]. destruct (parse_packet w) as [[[[[[[t s] len] c] n] wi] body]|]; [|reflexivity].
    rewrite IH, zlen_cons. replace (nr + (1 + zlen r)) with (nr + 1 + zlen r) by lia.
    rewrite !andb_assoc. reflexivity.
Qed.

Lemma numbering_chan : forall id ws nr, numbering_ok id nr ws = true ->
  Forall (fun w => log_chan w = (if 0 <? id then id else 0)) ws.
Proof.
  intros id ws. induction ws as [|w r IH]; intros nr H; [constructor|].
  cbn [numbering_ok] in H. unfold log_chan at 1.
  destruct (parse_packet w) as [[[[[[[t s] len] c] n] wi] body]|] eqn:E; [|discriminate].
  apply andb_true_iff in H. destruct H as [H H3]. apply andb_true_iff in H. destruct H as [H1 H2].
  constructor.
  - unfold log_chan. rewrite E. apply Z.eqb_eq. exact H1.
  - exact (IH (nr + 1) H3).
Qed.

Lemma header_ok_parts : forall ps typ chan nr t s len c n wi body e,
  header_ok ps typ chan nr t s len c n wi body e = true ->
  c = chan /\ n = (if 0 <? chan then nr mod 256 else 0).
Proof.
  intros ps typ chan nr t s len c n wi body e H. unfold header_ok in H.
  repeat (apply andb_true_iff in H; destruct H as [H ?]).
  split; [apply Z.eqb_eq; assumption|].
  destruct (0 <? chan); apply Z.eqb_eq; assumption.
Qed.

(* what C01's well-formedness predicate says about ids and numbers (chan >= 0) *)
Lemma tx_ok_numbering : forall outs ps typ chan nr payload, 0 <= chan ->
  tx_ok ps typ chan nr payload outs = true -> numbering_ok chan nr outs = true.
Proof.
  intros outs. induction outs as [|w rest IH]; intros ps typ chan nr payload Hc H; [discriminate|].
  cbn [tx_ok] in H. cbn [numbering_ok].
  destruct (parse_packet w) as [[[[[[[t s] len] c] n] wi] body]|]; [|discriminate].
  assert (Hid : (if 0 <? chan then chan else 0) = chan).
  { destruct (Z.ltb_spec 0 chan) as [L|L]; [reflexivity | lia]. }
  destruct rest as [|w2 rest2].
  - apply andb_true_iff in H. destruct H as [H _]. apply andb_true_iff in H. destruct H as [H _].
    apply andb_true_iff in H. destruct H as [H _].
    destruct (header_ok_parts _ _ _ _ _ _ _ _ _ _ _ _ H) as [E1 E2]. subst c n.
    rewrite Hid, !Z.eqb_refl. reflexivity.
  - apply andb_true_iff in H. destruct H as [H Hr]. apply andb_true_iff in H. destruct H as [H _].
    apply andb_true_iff in H. destruct H as [H _].
    destruct (header_ok_parts _ _ _ _ _ _ _ _ _ _ _ _ H) as [E1 E2]. subst c n.
    rewrite Hid, !Z.eqb_refl. cbn [andb]. exact (IH _ _ _ _ _ Hc Hr).
Qed.

Lemma history_ok_numbering : forall chan, 0 <= chan -> forall ms outs nr,
  history_ok chan nr ms outs = true -> numbering_ok chan nr (concat outs) = true.
Proof.
  intros chan Hc ms. induction ms as [|m mr IH]; intros outs nr H.
  - destruct outs; [reflexivity | discriminate].
  - destruct outs as [|o orest]; [discriminate|].
    cbn [history_ok] in H. apply andb_true_iff in H. destruct H as [H1 H2].
    cbn [concat]. rewrite numbering_app.
    rewrite (tx_ok_numbering _ _ _ _ _ _ Hc H1). cbn [andb].
    specialize (IH _ _ H2).
    rewrite <- IH. apply numbering_irrel. intros P. rewrite P. rewrite Z.mod_mod by lia. reflexivity.
Qed.

(* the packet counter after a history: one step per packet written *)
Lemma history_counter : forall chan, 0 <= chan < 65536 -> forall ms st outs st',
  Forall msg_wf ms -> 0 <= tnr st < 256 -> tq st = empty_pq ->
  send_history chan ms st = Some (outs, st') ->
  history_ok chan (tnr st) ms outs = true /\ tq st' = empty_pq /\ 0 <= tnr st' < 256 /\
  tnr st' = (if 0 <? chan then (tnr st + zlen (concat outs)) mod 256 else tnr st).
Proof.
  intros chan Hc ms. induction ms as [|m mr IH]; intros st outs st' Hwf Hnr Hq E.
  - cbn in E. inversion E; subst. change (zlen (concat (@nil (list bytes)))) with 0. rewrite (Z.add_0_r (tnr st')).
    split; [reflexivity|]. split; [exact Hq|]. split; [exact Hnr|].
    destruct (0 <? chan); [rewrite Z.mod_small by lia; reflexivity | reflexivity].
  - inversion Hwf as [|? ? [Hps Hpay] Hrest]; subst.
    destruct (message_ok (m_ps m) chan (m_typ m) (m_pkgs m) st Hps Hc Hnr Hq Hpay) as [o [st1 [E1 [Hok [Hq1 Hn1]]]]].
    cbn [send_history] in E. rewrite E1 in E.
    destruct (send_history chan mr st1) as [[os st2]|] eqn:E2; [|discriminate].
    inversion E; subst outs st'.
    assert (Hnr1 : 0 <= tnr st1 < 256).
    { rewrite Hn1. destruct (0 <? chan); [apply Z.mod_pos_bound; lia | exact Hnr]. }
    destruct (IH st1 os st2 Hrest Hnr1 Hq1 E2) as [Hok2 [Hq2 [Hnr2 Hn2]]].
    cbn [history_ok concat]. rewrite Hok. cbn [andb]. rewrite <- Hn1.
    split; [exact Hok2|]. split; [exact Hq2|]. split; [exact Hnr2|].
    rewrite Hn2, Hn1, zlen_app. destruct (0 <? chan); [|reflexivity].
    rewrite Zplus_mod_idemp_l. f_equal. lia.
Qed.

(* ---- the setup and teardown packets *)
Lemma send_packet_nodata : forall ps id typ nr len, 9 <= ps -> 0 < id < 65536 -> 8 <= len < 65536 ->
  send_packet ps id typ false nr {| plen := len; pdata := [] |} =
  Some (enc_pkt typ eom_bit len id nr (zeros (len - 8)), (nr + 1) mod 256).
Proof.
  intros ps id typ nr len Hps Hid Hlen. unfold send_packet, packet_bytes, enc_pkt, chf, nrf, hdr_size. cbn [plen pdata orb].
  replace (0 <? id) with true by (symmetry; apply Z.ltb_lt; lia).
  change (zlen (@nil Z)) with 0.
  replace (0 =? ps - 8) with false by (symmetry; apply Z.eqb_neq; lia).
  cbn [negb]. replace (len <? 8) with false by (symmetry; apply Z.ltb_ge; lia).
  destruct (Z.ltb_spec 0 (len - 8)) as [L|L].
  - rewrite Z.sub_0_r. reflexivity.
  - replace (len - 8) with 0 by lia. reflexivity.
Qed.

Lemma numbering_single : forall typ st len id nr body, 0 < id < 65536 -> 0 <= len < 65536 ->
  numbering_ok id nr [enc_pkt typ st len id nr body] = true.
Proof.
  intros typ st len id nr body Hid Hlen. cbn [numbering_ok]. rewrite parse_enc by lia.
  unfold chf, nrf. replace (0 <? id) with true by (symmetry; apply Z.ltb_lt; lia).
  rewrite !Z.eqb_refl. reflexivity.
Qed.

Definition life_wf (c : chan_life) : Prop :=
  0 < cl_id c < 65536 /\ 9 <= cl_ps c <= 65535 /\ Forall msg_wf (cl_msgs c).

(* one logical channel alone: SETUP has number 0, every later packet the next number mod 256, all carry the id *)
Lemma life_numbering : forall c, life_wf c ->
  exists ws, life_writes c = Some ws /\ numbering_ok (cl_id c) 0 ws = true /\
             exists w0 rest, ws = w0 :: rest /\ log_type w0 = buf_setup /\ log_body w0 = [].
Proof.
  intros c [Hid [Hps Hm]]. unfold life_writes, setup_packet.
  rewrite (send_packet_nodata (cl_ps c) (cl_id c) buf_setup 0 hdr_size) by (unfold hdr_size; lia).
  change ((0 + 1) mod 256) with 1.
  destruct (history_ok_all (cl_id c) ltac:(lia) (cl_msgs c) {| tq := empty_pq; tnr := 1 |} Hm ltac:(cbn; lia) eq_refl)
    as [outs [st [E [Hok [Hq Hnr]]]]].
  rewrite E.
  destruct (history_counter (cl_id c) ltac:(lia) (cl_msgs c) {| tq := empty_pq; tnr := 1 |} outs st Hm ltac:(cbn; lia) eq_refl E)
    as [_ [_ [_ Hcnt]]].
  cbn [tnr] in Hcnt. replace (0 <? cl_id c) with true in Hcnt by (symmetry; apply Z.ltb_lt; lia).
  assert (Hnum : numbering_ok (cl_id c) 1 (concat outs) = true).
  { apply (history_ok_numbering (cl_id c) ltac:(lia) (cl_msgs c)). exact Hok. }
  assert (H0 : numbering_ok (cl_id c) 0 [enc_pkt buf_setup eom_bit hdr_size (cl_id c) 0 (zeros (hdr_size - 8))] = true).
  { apply numbering_single; unfold hdr_size; lia. }
  assert (Hw0 : log_type (enc_pkt buf_setup eom_bit hdr_size (cl_id c) 0 (zeros (hdr_size - 8))) = buf_setup /\
                log_body (enc_pkt buf_setup eom_bit hdr_size (cl_id c) 0 (zeros (hdr_size - 8))) = []).
  { unfold log_type, log_body. rewrite parse_enc by (unfold hdr_size; lia). split; reflexivity. }
  destruct (cl_close c).
  - unfold teardown_packet. rewrite (Z.mod_small (cl_ps c)) by lia.
    rewrite (send_packet_nodata (cl_ps c) (cl_id c) buf_close (tnr st) (cl_ps c)) by lia.
    eexists. split; [reflexivity|]. split.
    + change (?a :: concat outs ++ [?b]) with ([a] ++ (concat outs ++ [b])).
      rewrite numbering_app, H0. cbn [andb]. change (zlen [_]) with 1. cbn [Z.add].
      rewrite numbering_app, Hnum. cbn [andb].
      rewrite (numbering_irrel (cl_id c) _ (1 + zlen (concat outs)) (tnr st)).
      * apply numbering_single; lia.
      * intros _. rewrite Hcnt. rewrite Z.mod_mod by lia. reflexivity.
    + eexists _, _. split; [reflexivity|]. exact Hw0.
  - eexists. split; [reflexivity|]. split.
    + change (?a :: concat outs) with ([a] ++ concat outs).
      rewrite numbering_app, H0. cbn [andb]. change (zlen [_]) with 1. exact Hnum.
    + eexists _, _. split; [reflexivity|]. exact Hw0.
Qed.

(* ---- any interleaving of the writes of several channels *)

(* log: the transport log, every write tagged with the index of the channel (goroutine) that performed it.  The log is an
   interleaving of the channels' own sequences: the writes tagged i, in order, are exactly channel i's writes. *)
Definition writes_of_thread (i : nat) (log : list (nat * bytes)) : list bytes :=
  map snd (filter (fun e => Nat.eqb (fst e) i) log).

Lemma demux : forall (ids : list Z) (wss : list (list bytes)) (log : list (nat * bytes)),
  NoDup ids ->
  (forall i, (i < length ids)%nat -> writes_of_thread i log = nth i wss []) ->
  (forall e, In e log -> (fst e < length ids)%nat) ->
  (forall i w, (i < length ids)%nat -> In w (nth i wss []) -> log_chan w = nth i ids (-1)) ->
  forall i, (i < length ids)%nat ->
  filter (fun w => log_chan w =? nth i ids (-1)) (map snd log) = nth i wss [].
Proof.
  intros ids wss log Hnd Hint Hdom Hch i Hi.
  rewrite <- (Hint i Hi). unfold writes_of_thread.
  assert (Htag : forall e, In e log -> log_chan (snd e) = nth (fst e) ids (-1)).
  { intros e I. apply (Hch (fst e) (snd e) (Hdom e I)). rewrite <- (Hint (fst e) (Hdom e I)).
    unfold writes_of_thread. apply in_map. apply filter_In. split; [exact I | apply Nat.eqb_refl]. }
  clear Hint Hch. induction log as [|e r IH]; [reflexivity|].
  cbn [map filter].
  assert (He : log_chan (snd e) = nth (fst e) ids (-1)) by (apply Htag; left; reflexivity).
  assert (Hd : (fst e < length ids)%nat) by (apply Hdom; left; reflexivity).
  assert (IH' : filter (fun w => log_chan w =? nth i ids (-1)) (map snd r) = map snd (filter (fun e0 => Nat.eqb (fst e0) i) r)).
  { apply IH; [intros e0 I; apply Hdom; right; exact I | intros e0 I; apply Htag; right; exact I]. }
  rewrite He. destruct (Nat.eqb_spec (fst e) i) as [E|N].
  - rewrite E, Z.eqb_refl. cbn [map]. f_equal. exact IH'.
  - destruct (Z.eqb_spec (nth (fst e) ids (-1)) (nth i ids (-1))) as [E2|_]; [|exact IH'].
    exfalso. apply N. apply (proj1 (NoDup_nth ids (-1)) Hnd); assumption.
Qed.

(* ---- NewChannel for an id > 0 *)
Lemma setup_ack_ok : forall typ rest, typ = buf_protack -> new_channel_wait (AHeaderOnly typ :: rest) = NcOk.
Proof. intros typ rest E. subst typ. reflexivity. Qed.

Lemma setup_waits : new_channel_wait [] = NcWaits.
Proof. reflexivity. Qed.

Lemma setup_fails : forall a rest, (forall typ, a = AHeaderOnly typ -> is_protack typ = false) ->
  new_channel_wait (a :: rest) = NcError.
Proof.
  intros a rest H. destruct a as [typ| | |]; cbn [new_channel_wait]; try reflexivity.
  rewrite (H typ eq_refl). reflexivity.
Qed.

Lemma setup_write_bytes : forall ps id, 9 <= ps -> 0 < id < 65536 ->
  setup_write ps id = Some (header_bytes buf_setup eom_bit 8 id 0 0).
Proof.
  intros ps id Hps Hid. unfold setup_write, setup_packet.
  rewrite (send_packet_nodata ps id buf_setup 0 hdr_size) by (unfold hdr_size; lia).
  unfold enc_pkt, chf, nrf, hdr_size. replace (0 <? id) with true by (symmetry; apply Z.ltb_lt; lia).
  change (zeros (8 - 8)) with (@nil Z). change (0 mod 256) with 0. rewrite app_nil_r. reflexivity.
Qed.
