(* C12 — executable specification predicates (written from the property text) and the dispatch for the harness.

   Property text: "On a connection carrying several logical channels used concurrently, every channel obtains a
   distinct id (setting up a logical channel succeeds when the server acknowledges it), each package is delivered to
   exactly the channel named in its packet header in the order the server sent it, and outgoing packets carry their
   channel's id with consecutive packet numbers.  Packets for a channel that does not exist are reported as a
   connection error and otherwise ignored.  All of this holds under every interleaving of channel creation, sends,
   receives and closes, without data races."

   The predicates sp_* do not use the routing / allocation / multiplexing model of C12/Model.v.  "What the server
   sent to a channel, in order" is given its meaning by the receive path of ONE channel alone on a connection
   (Rx/Model.v, the subject of C02/C03/C11): the predicate filters the packets addressed to a channel and asks for
   exactly what a single-channel connection delivers for them.  No proofs in this file. *)
From Coq Require Import ZArith List Bool.
Import ListNotations.
From V Require Import Base.Tree Base.Bytes Gen.GenPkg Rx.Model Rx.Spec C15.Model Gen.GenC01 C01.Model C01.Spec Gen.GenC12 C12.Model.
From V Require C13.Closers.
Open Scope Z_scope.

(* ------------------------------------------------------------------ decoding of harness inputs *)

Definition rop_of_tree (t : tree) : rop :=
  if t_int (t_nth 0 t) =? 0 then OPkt (packet_of_tree (t_nth 1 t)) else OClose (t_int (t_nth 1 t)).

Definition ids_of_tree (t : tree) : list Z := map t_int (t_list t).

Definition evs_tree (es : list ev) : tree := TL (map ev_tree (canon es)).

(* what the harness sees after one operation: the channels that received something, the invalid ids reported *)
Definition rout_tree (x : rout) : tree :=
  match x with
  | RTo id es => match canon es with
                 | [] => TL [TL []; TL []]
                 | _ :: _ => TL [TL [TL [TI id; evs_tree es]]; TL []]
                 end
  | RInvalid id => TL [TL []; TL [TI id]]
  | RClosed c => TL [TI c]
  end.

Definition cm_init (ids : list Z) : cmap := map (fun id => (id, rx_init)) ids.

(* ------------------------------------------------------------------ fn 1: routing *)

(* per operation: a packet for a registered id touches at most that channel and raises no connection error;
   a packet for any other id touches nothing and is reported exactly once with its id; a close returns *)
Fixpoint sp_ops_ok (reg : list Z) (os : list rop) (outs : list tree) : bool :=
  match os, outs with
  | [], [] => true
  | OPkt p :: r, o :: ro =>
      let c := pkt_chan p in
      let touched := map (fun t => t_int (t_nth 0 t)) (t_list (t_nth 0 o)) in
      let errs := map t_int (t_list (t_nth 1 o)) in
      (if memz c reg
       then forallb (fun k => k =? c) touched && (length touched <=? 1)%nat && list_Z_eqb errs []
       else list_Z_eqb touched [] && list_Z_eqb errs [c])
      && sp_ops_ok reg r ro
  | OClose id :: r, o :: ro =>
      negb (t_int (t_nth 0 o) =? 9) && sp_ops_ok (filter (fun k => negb (k =? id)) reg) r ro
  | _, _ => false
  end.

(* the packets addressed to id while it is registered, and what the harness saw on channel id at those operations *)
Fixpoint sp_stream (id : Z) (os : list rop) (outs : list tree) : list packet_in * list tree :=
  match os, outs with
  | OPkt p :: r, o :: ro =>
      let '(ps, es) := sp_stream id r ro in
      if pkt_chan p =? id then
        let mine := filter (fun t => t_int (t_nth 0 t) =? id) (t_list (t_nth 0 o)) in
        (p :: ps, (match mine with t :: _ => t_nth 1 t | [] => TL [] end) :: es)
      else (ps, es)
  | OClose k :: r, o :: ro => if k =? id then ([], []) else sp_stream id r ro
  | _, _ => ([], [])
  end.

(* a single channel alone on a connection, fed exactly these packets *)
Definition single_channel (need nenv : nat) (ps : list packet_in) : list tree :=
  map evs_tree (fst (rx_run need nenv rx_init ps)).

Definition sp_routing (i o : tree) : bool :=
  let need := Z.to_nat (t_int (t_nth 0 i)) in
  let nenv := Z.to_nat (t_int (t_nth 1 i)) in
  let ids := ids_of_tree (t_nth 2 i) in
  let os := map rop_of_tree (t_list (t_nth 3 i)) in
  let outs := t_list o in
  sp_ops_ok ids os outs &&
  forallb (fun id => let '(ps, seen) := sp_stream id os outs in
                     tree_eqb (TL seen) (TL (single_channel need nenv ps))) ids.

Definition run_routing (i : tree) : tree :=
  let need := Z.to_nat (t_int (t_nth 0 i)) in
  let nenv := Z.to_nat (t_int (t_nth 1 i)) in
  let ids := ids_of_tree (t_nth 2 i) in
  let os := map rop_of_tree (t_list (t_nth 3 i)) in
  TL (map rout_tree (fst (route_ops need nenv (cm_init ids) os))).

(* ------------------------------------------------------------------ fn 2: outgoing packets of several channels *)

(* input (ps ((id nr0) ...) (op ...))   op = (0 id typ ((chunk ...) ...)) | (1 id) | (3 id newsize) *)
Definition top_of_tree (t : tree) : top :=
  if t_int (t_nth 0 t) =? 0
  then TSend (t_int (t_nth 1 t)) (t_int (t_nth 2 t)) (map (fun p => map t_bytes (t_list p)) (t_list (t_nth 3 t)))
  else if t_int (t_nth 0 t) =? 1 then TClose (t_int (t_nth 1 t))
  else TPackSize (t_int (t_nth 1 t)) (t_int (t_nth 2 t)).

Definition tm_init (chs : list tree) : tmap :=
  map (fun c => (t_int (t_nth 0 c), {| tq := empty_pq; tnr := t_int (t_nth 1 c) |})) chs.

Definition run_tx (i : tree) : tree :=
  match tx_ops (t_int (t_nth 0 i)) (tm_init (t_list (t_nth 1 i))) (map top_of_tree (t_list (t_nth 2 i))) with
  | Some ws => TL (map TB ws)
  | None => TL [TI (-1)]
  end.

(* "outgoing packets carry their channel's id with consecutive packet numbers": walking the transport log with a
   table id -> number expected next; a packet of type CLOSE ends its channel.  Channel 0 does not number. *)
Fixpoint nx_find (id : Z) (l : list (Z * Z)) : option Z :=
  match l with [] => None | (k, v) :: r => if id =? k then Some v else nx_find id r end.
Fixpoint nx_set (id v : Z) (l : list (Z * Z)) : list (Z * Z) :=
  match l with [] => [] | (k, w) :: r => if id =? k then (k, v) :: r else (k, w) :: nx_set id v r end.
Definition nx_del (id : Z) (l : list (Z * Z)) : list (Z * Z) := filter (fun kv => negb (fst kv =? id)) l.

Fixpoint sp_log_ok (next : list (Z * Z)) (log : list bytes) : bool :=
  match log with
  | [] => true
  | w :: r =>
    match parse_packet w with
    | None => false
    | Some (t, s, len, c, n, wi, body) =>
      match nx_find c next with
      | None => false                                      (* not the id of a live channel *)
      | Some e =>
          (len =? 8 + zlen body) &&
          (if 0 <? c then n =? e mod 256 else n =? 0) &&
          sp_log_ok (if t =? buf_close then nx_del c next else nx_set c ((e + 1) mod 256) next) r
      end
    end
  end.

(* the bodies written under id c (teardown packets carry no payload) / the payloads channel c was asked to send *)
Definition log_chan (w : bytes) : Z := match parse_packet w with Some (_, _, _, c, _, _, _) => c | None => -1 end.
Definition log_type (w : bytes) : Z := match parse_packet w with Some (t, _, _, _, _, _, _) => t | None => -1 end.
Definition log_body (w : bytes) : bytes := match parse_packet w with Some (_, _, _, _, _, _, b) => b | None => [] end.

Definition bodies_of (c : Z) (log : list bytes) : bytes :=
  concat (map log_body (filter (fun w => (log_chan w =? c) && negb (log_type w =? buf_close)) log)).

(* payloads sent on c before c is closed *)
Fixpoint payloads_of (c : Z) (os : list top) : bytes :=
  match os with
  | [] => []
  | TSend k _ pkgs :: r => if k =? c then payload_of pkgs ++ payloads_of c r else payloads_of c r
  | TClose k :: r => if k =? c then [] else payloads_of c r
  | TPackSize _ _ :: r => payloads_of c r
  end.

Definition sp_tx (i o : tree) : bool :=
  let chs := t_list (t_nth 1 i) in
  let os := map top_of_tree (t_list (t_nth 2 i)) in
  let log := map t_bytes (t_list o) in
  let next := map (fun c => (t_int (t_nth 0 c), t_int (t_nth 1 c))) chs in
  forallb (fun t => match t with TB _ => true | _ => false end) (t_list o) &&
  sp_log_ok next log &&
  forallb (fun kv => list_Z_eqb (bodies_of (fst kv) log) (payloads_of (fst kv) os)) next.

(* ------------------------------------------------------------------ fn 4: setting up a logical channel *)

(* input ((kind typ channel) ...): what the peer sends after the SETUP packet of the channel (the second channel of
   the connection: id 1; channel 0 exists).  output (result id (#write ...)) *)
Definition arrival_of (own : Z) (registered : list Z) (t : tree) : list arrival :=
  let kind := t_int (t_nth 0 t) in
  let typ := t_int (t_nth 1 t) in
  let c := t_int (t_nth 2 t) in
  if c =? own then
    (if kind =? 0 then [AHeaderOnly typ] else if kind =? 1 then [APackage] else [AChanError])
  else if memz c registered then [] else [AConnError].

Definition run_setup (i : tree) : tree :=
  let arr := concat (map (arrival_of 1 [0; 1]) (t_list (t_nth 0 i))) in
  let code := match new_channel_wait arr with NcOk => 0 | NcError => 1 | NcWaits => 2 end in
  TL [TI code; TI 1;
      TL (match setup_write default_packet_size 1 with Some w => [TB w] | None => [] end)].

(* "setting up a logical channel succeeds when the server acknowledges it": if the first thing the peer sends for
   the new channel (or for a channel that does not exist) is the PROTACK header-only packet for it, NewChannel
   succeeds, the channel has a non-zero id of its own, and the only packet written is the header-only SETUP packet
   carrying that id and packet number 0 *)
Definition first_relevant (own : Z) (registered : list Z) (answers : list tree) : option tree :=
  match filter (fun t => negb (memz (t_int (t_nth 2 t)) registered) || (t_int (t_nth 2 t) =? own)) answers with
  | [] => None
  | t :: _ => Some t
  end.

Definition sp_setup (i o : tree) : bool :=
  let code := t_int (t_nth 0 o) in
  let id := t_int (t_nth 1 o) in
  negb (code =? 9) &&
  match first_relevant 1 [0; 1] (t_list (t_nth 0 i)) with
  | Some t =>
      if (t_int (t_nth 0 t) =? 0) && (t_int (t_nth 1 t) =? buf_protack) && (t_int (t_nth 2 t) =? id)
      then (code =? 0) && (0 <? id) &&
           match t_list (t_nth 2 o) with
           | [TB w] => match parse_packet w with
                       | Some (ty, s, len, c, n, wi, body) => (ty =? buf_setup) && (len =? 8) && (c =? id) && (n =? 0) && list_Z_eqb body []
                       | None => false
                       end
           | _ => false
           end
      else true
  | None => true
  end.

(* ------------------------------------------------------------------ fn 3: recorded concurrent histories *)
(* input (ps (id ...) unknown-sent ((id closed ((typ ((chunk ...) ...)) ...) (packet ...)) ...))
   output (((event ...) (#write ...) close-returned) ...) connection-errors-seen (problem ...)) *)
Definition life_of_tree (ps : Z) (c : tree) : chan_life :=
  {| cl_id := t_int (t_nth 0 c); cl_ps := ps;
     cl_msgs := map (fun m => {| m_ps := ps; m_typ := t_int (t_nth 0 m);
                                 m_pkgs := map (fun p => map t_bytes (t_list p)) (t_list (t_nth 1 m)) |}) (t_list (t_nth 2 c));
     cl_close := t_bool (t_nth 1 c) |}.

(* the packages NextPackage hands out for these packets: deliveries, header-only packets, the synthetic final DONE *)
Definition deliveries (ps : list packet_in) : list tree :=
  map ev_tree (filter is_queued (concat (fst (rx_run 0 0 rx_init ps)))).

Definition run_conc (i : tree) : tree :=
  let ps := t_int (t_nth 0 i) in
  let chans := t_list (t_nth 3 i) in
  TL [TL (map (fun c =>
               TL [TL (deliveries (map packet_of_tree (t_list (t_nth 3 c))));
                   (match chan_writes (life_of_tree ps c) with Some ws => TL (map TB ws) | None => TL [TI (-1)] end);
                   TI 1]) chans);
      t_nth 2 i;
      TL []].

Fixpoint nodupb (l : list Z) : bool :=
  match l with [] => true | x :: r => negb (memz x r) && nodupb r end.

(* the transport writes carrying one id: the id everywhere, numbers 0, 1, 2, ... mod 256 (channel 0: always 0), the first
   one the header-only SETUP packet (ids > 0), a CLOSE packet only as the last one, the bodies in between = the payloads *)
Fixpoint sp_numbers (id nr : Z) (ws : list bytes) : bool :=
  match ws with
  | [] => true
  | w :: r =>
    match parse_packet w with
    | None => false
    | Some (t, s, len, c, n, wi, body) =>
        (c =? id) && (len =? 8 + zlen body) && (n =? (if 0 <? id then nr mod 256 else 0)) &&
        (if t =? buf_close then match r with [] => true | _ :: _ => false end else true) &&
        sp_numbers id (nr + 1) r
    end
  end.

Definition sp_chan_writes (c : chan_life) (ws : list bytes) : bool :=
  sp_numbers (cl_id c) 0 ws &&
  (if 0 <? cl_id c
   then match ws with
        | w0 :: rest => (log_type w0 =? buf_setup) && list_Z_eqb (log_body w0) [] &&
                        list_Z_eqb (concat (map log_body (filter (fun w => negb (log_type w =? buf_close)) rest)))
                                   (concat (map (fun m => payload_of (m_pkgs m)) (cl_msgs c))) &&
                        (if cl_close c then existsb (fun w => log_type w =? buf_close) rest else true)
        | [] => false
        end
   else list_Z_eqb (concat (map log_body ws))
                   (concat (map (fun m => payload_of (m_pkgs m)) (cl_msgs c)) ++ (if cl_close c then [tok_logout; 0] else []))).

Definition sp_conc (i o : tree) : bool :=
  let ps := t_int (t_nth 0 i) in
  let ids := ids_of_tree (t_nth 1 i) in
  let chans := t_list (t_nth 3 i) in
  let outs := t_list (t_nth 0 o) in
  (* every NewChannel that returned got an id of its own; the peer saw exactly these channels *)
  nodupb ids &&
  list_Z_eqb (map (fun c => t_int (t_nth 0 c)) chans) (filter (fun k => memz k ids) (map (fun c => t_int (t_nth 0 c)) chans)) &&
  (length chans =? length ids)%nat && (length outs =? length chans)%nat &&
  (* per channel: exactly what the server sent to it, in order; its own id and consecutive numbers on what it wrote *)
  forallb (fun co =>
             let c := fst co in let oc := snd co in
             tree_eqb (t_nth 0 oc) (TL (deliveries (map packet_of_tree (t_list (t_nth 3 c))))) &&
             forallb (fun t => match t with TB _ => true | _ => false end) (t_list (t_nth 1 oc)) &&
             sp_chan_writes (life_of_tree ps c) (map t_bytes (t_list (t_nth 1 oc))) &&
             (t_int (t_nth 2 oc) =? 1))
          (combine chans outs) &&
  (* packets for ids that do not exist: one connection error each, nothing else happened *)
  (t_int (t_nth 1 o) =? t_int (t_nth 2 i)) &&
  match t_nth 2 o with TL [] => true | _ => false end.

(* ------------------------------------------------------------------ fn 5: several goroutines closing ONE channel *)
(* "under every interleaving of channel creation, sends, receives and closes": 2..3 goroutines call Close on the same
   logical channel, Conn.Close among them, while the peer is slow to accept the teardown packet (all of them have passed
   the first `closed` check before any takes the exclusive lock).  Model and predicate: C13/Closers.v (the system of n
   closers, shared with C13); here the predicate also reads the packet numbers of the teardown packets in the schedule
   that determines them (one closer after the other: 1, 2, ... after the SETUP packet's 0). *)
Definition run_conc_close (i : tree) : tree := Closers.run_cclose i.
Definition sp_conc_close (i o : tree) : bool := Closers.sp_cclose true i o.

(* ------------------------------------------------------------------ fn 6: sends between the packets of a package *)
(* input (need nenv ps ((id nr0) ...) (op ...))   op = (0 packet) | (2 id typ ((chunk ...) ...) mode) | (3 id)
   mode: how the harness performs the message (0 QueuePackage ... SendPackage, 1 QueuePackage ... SendRemainingPackets);
   (3 id) = Channel.Reset.  output per op: packet -> as fn 1; send / reset -> (code (#write ...)) *)
Definition hop_of_tree (t : tree) : hop :=
  let k := t_int (t_nth 0 t) in
  if k =? 2 then HSend (t_int (t_nth 1 t)) (t_int (t_nth 2 t)) (map (fun p => map t_bytes (t_list p)) (t_list (t_nth 3 t)))
  else if k =? 3 then HReset (t_int (t_nth 1 t))
  else HRx (rop_of_tree t).

Definition hout_tree (x : hout) : tree :=
  match x with
  | HoRx r => rout_tree r
  | HoTx c ws => TL [TI c; TL (map TB ws)]
  end.

Definition run_between (i : tree) : tree :=
  let need := Z.to_nat (t_int (t_nth 0 i)) in
  let nenv := Z.to_nat (t_int (t_nth 1 i)) in
  let chs := t_list (t_nth 3 i) in
  let ids := map (fun c => t_int (t_nth 0 c)) chs in
  TL (map hout_tree (fst (hist_run need nenv (t_int (t_nth 2 i)) (cm_init ids, tm_init chs)
                                   (map hop_of_tree (t_list (t_nth 4 i)))))).

(* "each package is delivered to exactly the channel named in its packet header in the order the server sent it ...
   under every interleaving of ... sends, receives ...": what the client SENDS between the packets has no meaning for
   what the server sent.  The predicate forgets the send / reset operations and asks of the remaining operations what
   fn 1 asks (every channel: exactly what a single-channel connection delivers for the packets addressed to it);
   of the sends it asks what fn 2 asks (own id, consecutive numbers, the payloads), every call returning without error. *)
Definition is_rx_pair (ho : hop * tree) : bool := match fst ho with HRx _ => true | _ => false end.
Definition rop_of_hop (h : hop) : rop := match h with HRx o => o | _ => OClose (-1) end.
Definition top_of_hop (h : hop) : list top :=
  match h with HSend id typ pkgs => [TSend id typ pkgs] | _ => [] end.

Definition sp_between (i o : tree) : bool :=
  let need := Z.to_nat (t_int (t_nth 0 i)) in
  let nenv := Z.to_nat (t_int (t_nth 1 i)) in
  let chs := t_list (t_nth 3 i) in
  let ids := map (fun c => t_int (t_nth 0 c)) chs in
  let hs := map hop_of_tree (t_list (t_nth 4 i)) in
  let outs := t_list o in
  let pairs := combine hs outs in
  let rxp := filter is_rx_pair pairs in
  let txp := filter (fun ho => negb (is_rx_pair ho)) pairs in
  let os := map (fun ho => rop_of_hop (fst ho)) rxp in
  let ros := map snd rxp in
  let log := concat (map (fun ho => map t_bytes (t_list (t_nth 1 (snd ho)))) txp) in
  let next := map (fun c => (t_int (t_nth 0 c), t_int (t_nth 1 c))) chs in
  (length outs =? length hs)%nat &&
  forallb (fun x => match x with OPkt _ => true | OClose _ => false end) os &&      (* this family closes nothing *)
  sp_ops_ok ids os ros &&
  forallb (fun id => let '(ps, seen) := sp_stream id os ros in
                     tree_eqb (TL seen) (TL (single_channel need nenv ps))) ids &&
  forallb (fun ho => (t_int (t_nth 0 (snd ho)) =? 0) &&
                     forallb (fun t => match t with TB _ => true | _ => false end) (t_list (t_nth 1 (snd ho)))) txp &&
  sp_log_ok next log &&
  forallb (fun kv => list_Z_eqb (bodies_of (fst kv) log) (payloads_of (fst kv) (concat (map top_of_hop hs)))) next.

(* ------------------------------------------------------------------ dispatch *)
Definition run (fn : Z) (i : tree) : tree :=
  match fn with
  | 1 => run_routing i
  | 2 => run_tx i
  | 3 => run_conc i
  | 4 => run_setup i
  | 5 => run_conc_close i
  | 6 => run_between i
  | _ => tbad
  end.

Definition spec (fn : Z) (i o : tree) : bool :=
  match fn with
  | 1 => sp_routing i o
  | 2 => sp_tx i o
  | 3 => sp_conc i o
  | 4 => sp_setup i o
  | 5 => sp_conc_close i o
  | 6 => sp_between i o
  | _ => false
  end.
