(* C12 — model of the multiplexing side of tds/conn.go and tds/channel.go, over the models of ONE channel that
   already exist: the receive path (Rx/Model.v: rx_packet / rx_run) and the send path (C01/Model.v over the C15
   queue: send_message / send_packet).

   Go code mirrored (current tree):

     Conn.ReadFrom      : per packet: RLock(map); tdsChan, ok := tdsChannels[int(Header.Channel)]; RUnlock;
                          !ok -> errCh <- "received packet for invalid channel %d"; continue
                          tdsChan.WritePacket(packet)                                          -> [route]
     Channel.Close      : (teardown packet for ids > 0) ... Lock(map); delete(tdsChannels, id); Unlock ...  -> [OClose]
     Conn.NewChannel    : Lock(map); id := getValidChannelId(); tdsChannels[id] = ch; Unlock   -> [astep], atomic steps
                          id = 0: done.  id > 0: CurrentHeaderType = SETUP; sendPacket(header-only packet);
                          pkg := NextPackage(Background, wait); must be a *HeaderOnlyPackage whose
                          MsgType & PROTACK == PROTACK; Reset()                                 -> [new_channel]
     getValidChannelId  : curId := int(counter); curId > 65535 -> error; atomic.AddUint32(&counter, 1);
                          id in map -> recurse; return curId
     Channel.sendPacket : type, channel id, PacketNr = curPacketNr, curPacketNr = (curPacketNr+1) % 256 (ids > 0),
                          one transport Write per packet                                        -> C01.send_packet

   No proofs in this file. *)
From Coq Require Import ZArith List Bool.
Import ListNotations.
From V Require Import Base.Tree Base.Bytes Gen.GenPkg Rx.Model C15.Model Gen.GenC01 C01.Model Gen.GenC12.
Open Scope Z_scope.

(* ------------------------------------------------------------------ 1. routing of received packets *)

(* int(packet.Header.Channel): the header tree is (type status length channel nr window) *)
Definition pkt_chan (p : packet_in) : Z := t_int (t_nth 3 (p_hdr p)).

(* Conn.tdsChannels restricted to what routing needs: id -> receive state of that channel.  Lookup finds the
   first entry, update replaces the first entry, delete removes every entry: a Go map. *)
Definition cmap := list (Z * rxs).

Fixpoint cm_find (id : Z) (m : cmap) : option rxs :=
  match m with
  | [] => None
  | (k, v) :: r => if id =? k then Some v else cm_find id r
  end.

Fixpoint cm_set (id : Z) (v : rxs) (m : cmap) : cmap :=
  match m with
  | [] => [(id, v)]
  | (k, w) :: r => if id =? k then (k, v) :: r else (k, w) :: cm_set id v r
  end.

Definition cm_del (id : Z) (m : cmap) : cmap := filter (fun kv => negb (fst kv =? id)) m.

Inductive rout :=
| RTo (id : Z) (es : list ev)     (* WritePacket of channel id ran and produced these events *)
| RInvalid (id : Z)               (* "received packet for invalid channel id" on the connection's error queue *)
| RClosed (code : Z).             (* a Close: 0 closed now, 2 there was no such channel *)

Definition route (need nenv : nat) (m : cmap) (p : packet_in) : rout * cmap :=
  match cm_find (pkt_chan p) m with
  | None => (RInvalid (pkt_chan p), m)
  | Some st => let '(es, st') := rx_packet need nenv st p in (RTo (pkt_chan p) es, cm_set (pkt_chan p) st' m)
  end.

Inductive rop := OPkt (p : packet_in) | OClose (id : Z).

Definition route_op (need nenv : nat) (m : cmap) (o : rop) : rout * cmap :=
  match o with
  | OPkt p => route need nenv m p
  | OClose id => match cm_find id m with
                 | Some _ => (RClosed 0, cm_del id m)
                 | None => (RClosed 2, m)
                 end
  end.

Fixpoint route_ops (need nenv : nat) (m : cmap) (os : list rop) : list rout * cmap :=
  match os with
  | [] => ([], m)
  | o :: r => let '(x, m1) := route_op need nenv m o in
              let '(xs, m2) := route_ops need nenv m1 r in (x :: xs, m2)
  end.

(* the per-packet event lists channel id saw / the packets addressed to it *)
Fixpoint events_of (id : Z) (xs : list rout) : list (list ev) :=
  match xs with
  | [] => []
  | RTo k es :: r => if k =? id then es :: events_of id r else events_of id r
  | _ :: r => events_of id r
  end.

Fixpoint pkts_for (id : Z) (os : list rop) : list packet_in :=
  match os with
  | [] => []
  | OPkt p :: r => if pkt_chan p =? id then p :: pkts_for id r else pkts_for id r
  | OClose _ :: r => pkts_for id r
  end.

Definition closes (id : Z) (o : rop) : bool := match o with OClose k => k =? id | OPkt _ => false end.

(* ------------------------------------------------------------------ 2. id allocation and registration *)

(* The steps of NewChannel / Close that touch the shared counter and map, as the code performs them under
   tdsChannelsLock.  Only the thread inside the critical section has local state that matters, so the state
   carries the holder's program counter; any thread id may issue a step at any time: a step of a thread that
   does not hold the lock while another one does is blocked (the state is unchanged). *)
Inductive apc :=
| PLocked                 (* Lock acquired; next: curId := int(counter) *)
| PRead (cur : Z)         (* next: atomic.AddUint32 *)
| PAdded (cur : Z)        (* next: map lookup *)
| PFree (cur : Z)         (* lookup said: unused; next: (create the channel) tdsChannels[cur] = ch *)
| PInserted (cur : Z)     (* next: Unlock, NewChannel goes on with id cur *)
| DLocked (id : Z)        (* Close: Lock acquired; next: delete *)
| DDeleted (id : Z).      (* next: Unlock *)

Record astate := mkA {
  ctr : Z;                          (* tdsChannelCurFreeId (uint32) *)
  amap : list Z;                    (* keys of tdsChannels *)
  holder : option (Z * apc);        (* who holds tdsChannelsLock for writing, and where it is *)
  got : list (Z * Z);               (* (thread, id): NewChannel calls that left the critical section with an id *)
  failed : list Z                   (* threads whose NewChannel ended with "exhausted all channel IDs" *)
}.

Definition ainit : astate := {| ctr := 0; amap := []; holder := None; got := []; failed := [] |}.

Inductive alabel := ANew (t : Z) | AClose (t id : Z).

Fixpoint memz (x : Z) (l : list Z) : bool :=
  match l with [] => false | y :: r => if x =? y then true else memz x r end.

Definition max_chan : Z := 65535.
Definition two32 : Z := 4294967296.

Definition set_holder (s : astate) (h : option (Z * apc)) : astate :=
  {| ctr := ctr s; amap := amap s; holder := h; got := got s; failed := failed s |}.

Definition astep (s : astate) (l : alabel) : astate :=
  match l, holder s with
  | ANew t, None => set_holder s (Some (t, PLocked))
  | AClose t id, None => set_holder s (Some (t, DLocked id))
  | ANew t, Some (h, pc) =>
      if negb (t =? h) then s else
      match pc with
      | PLocked =>
          if max_chan <? ctr s
          then {| ctr := ctr s; amap := amap s; holder := None; got := got s; failed := t :: failed s |}
          else set_holder s (Some (t, PRead (ctr s)))
      | PRead cur =>
          {| ctr := (ctr s + 1) mod two32; amap := amap s; holder := Some (t, PAdded cur); got := got s; failed := failed s |}
      | PAdded cur =>
          if memz cur (amap s) then set_holder s (Some (t, PLocked))       (* id in use: recurse *)
          else set_holder s (Some (t, PFree cur))
      | PFree cur =>
          {| ctr := ctr s; amap := cur :: amap s; holder := Some (t, PInserted cur); got := got s; failed := failed s |}
      | PInserted cur =>
          {| ctr := ctr s; amap := amap s; holder := None; got := (t, cur) :: got s; failed := failed s |}
      | _ => s
      end
  | AClose t id, Some (h, pc) =>
      if negb (t =? h) then s else
      match pc with
      | DLocked k =>
          {| ctr := ctr s; amap := filter (fun x => negb (x =? k)) (amap s); holder := Some (t, DDeleted k);
             got := got s; failed := failed s |}
      | DDeleted k => set_holder s None
      | _ => s
      end
  end.

Definition arun (ls : list alabel) : astate := fold_left astep ls ainit.

(* The same steps WITHOUT the lock (the code before commit c9b3921): every thread has its own program counter. *)
Record ustate := mkU { uctr : Z; umap : list Z; ulocal : list (Z * apc); ugot : list (Z * Z) }.
Definition uinit : ustate := {| uctr := 0; umap := []; ulocal := []; ugot := [] |}.

Fixpoint ufind (t : Z) (l : list (Z * apc)) : option apc :=
  match l with [] => None | (k, v) :: r => if t =? k then Some v else ufind t r end.
Definition udel (t : Z) (l : list (Z * apc)) : list (Z * apc) := filter (fun kv => negb (fst kv =? t)) l.

Definition ustep (s : ustate) (t : Z) : ustate :=
  match ufind t (ulocal s) with
  | None => {| uctr := uctr s; umap := umap s; ulocal := (t, PRead (uctr s)) :: ulocal s; ugot := ugot s |}
  | Some (PRead cur) => {| uctr := (uctr s + 1) mod two32; umap := umap s; ulocal := (t, PAdded cur) :: udel t (ulocal s); ugot := ugot s |}
  | Some (PAdded cur) =>
      if memz cur (umap s) then {| uctr := uctr s; umap := umap s; ulocal := udel t (ulocal s); ugot := ugot s |}
      else {| uctr := uctr s; umap := umap s; ulocal := (t, PFree cur) :: udel t (ulocal s); ugot := ugot s |}
  | Some (PFree cur) => {| uctr := uctr s; umap := cur :: umap s; ulocal := udel t (ulocal s); ugot := (t, cur) :: ugot s |}
  | Some _ => s
  end.

(* ------------------------------------------------------------------ 3. sending on several channels *)

(* the SETUP packet of NewChannel and the teardown packet of Close, as sendPacket writes them *)
Definition setup_packet : packet := {| plen := hdr_size; pdata := [] |}.
Definition teardown_packet (ps : Z) : packet := {| plen := ps mod 65536; pdata := [] |}.

(* the transport writes of one channel with id > 0 during its life: SETUP, its messages, optionally the teardown *)
Record chan_life := { cl_id : Z; cl_ps : Z; cl_msgs : list message; cl_close : bool }.

Definition life_writes (c : chan_life) : option (list bytes) :=
  match send_packet (cl_ps c) (cl_id c) buf_setup false 0 setup_packet with
  | None => None
  | Some (w0, nr1) =>
    match send_history (cl_id c) (cl_msgs c) {| tq := empty_pq; tnr := nr1 |} with
    | None => None
    | Some (outs, st) =>
      if cl_close c then
        match send_packet (cl_ps c) (cl_id c) buf_close false (tnr st) (teardown_packet (cl_ps c)) with
        | None => None
        | Some (w9, _) => Some (w0 :: concat outs ++ [w9])
        end
      else Some (w0 :: concat outs)
    end
  end.

(* channel 0: no setup packet, no packet numbers; its Close is the logout: the LOGOUT package (token, options 0) sent
   as a message of type NORMAL (the header type after Reset) *)
Definition logout_message (ps : Z) : message :=
  {| m_ps := ps; m_typ := buf_normal; m_pkgs := [[[tok_logout]; [0]]] |}.

Definition life0_writes (c : chan_life) : option (list bytes) :=
  match send_history 0 (cl_msgs c ++ (if cl_close c then [logout_message (cl_ps c)] else [])) {| tq := empty_pq; tnr := 0 |} with
  | None => None
  | Some (outs, _) => Some (concat outs)
  end.

Definition chan_writes (c : chan_life) : option (list bytes) :=
  if 0 <? cl_id c then life_writes c else life0_writes c.

(* connection-level: every channel has its own send state; a send touches only its own entry *)
Definition tmap := list (Z * txst).
Fixpoint tm_find (id : Z) (m : tmap) : option txst :=
  match m with [] => None | (k, v) :: r => if id =? k then Some v else tm_find id r end.
Fixpoint tm_set (id : Z) (v : txst) (m : tmap) : tmap :=
  match m with [] => [(id, v)] | (k, w) :: r => if id =? k then (k, v) :: r else (k, w) :: tm_set id v r end.
Definition tm_del (id : Z) (m : tmap) : tmap := filter (fun kv => negb (fst kv =? id)) m.

Inductive top :=
| TSend (id typ : Z) (pkgs : list (list bytes))
| TClose (id : Z)
| TPackSize (id n : Z).     (* the server announces packet size n in an ENVCHANGE on channel id *)

(* result: the writes of this operation, the channel states, the packet size in force afterwards (connection state,
   shared by all channels); None = a panic in the model of the send path *)
Definition tx_op (ps : Z) (m : tmap) (o : top) : option (list bytes * tmap * Z) :=
  match o with
  | TSend id typ pkgs =>
      match tm_find id m with
      | None => Some ([], m, ps)                                    (* ErrChannelClosed: nothing is written *)
      | Some st => match send_message ps id typ pkgs st with
                   | None => None
                   | Some (outs, st') => Some (outs, tm_set id st' m, ps)
                   end
      end
  | TClose id =>
      match tm_find id m with
      | None => Some ([], m, ps)
      | Some st => match send_packet ps id buf_close false (tnr st) (teardown_packet ps) with
                   | None => None
                   | Some (w, _) => Some ([w], tm_del id m, ps)
                   end
      end
  | TPackSize id n =>
      match tm_find id m with
      | None => Some ([], m, ps)                                    (* a packet for no channel: reported, ignored *)
      | Some _ => Some ([], m, if (hdr_size <? n) && (n <=? 65535) then n else ps)
      end
  end.

Fixpoint tx_ops (ps : Z) (m : tmap) (os : list top) : option (list bytes) :=
  match os with
  | [] => Some []
  | o :: r => match tx_op ps m o with
              | None => None
              | Some (ws, m1, ps1) => match tx_ops ps1 m1 r with None => None | Some ws2 => Some (ws ++ ws2) end
              end
  end.

(* ------------------------------------------------------------------ 4. NewChannel for an id > 0 *)

(* What the new channel and the connection's error queue receive while NewChannel waits in
   NextPackage(context.Background(), wait = true), in order of arrival; packets for other registered channels do
   not matter (C12_routing).  The call returns with the first of these. *)
Inductive arrival :=
| AHeaderOnly (typ : Z)      (* a header-only packet for this channel with this message type *)
| APackage                   (* any other package delivered to this channel *)
| AChanError                 (* an error on this channel's error queue *)
| AConnError.                (* an error on the connection's error queue (e.g. a packet for an unknown channel) *)

Inductive nc_result := NcOk | NcError | NcWaits.   (* NcWaits: blocked until the connection context is cancelled *)

Definition is_protack (typ : Z) : bool := Z.land typ buf_protack =? buf_protack.

Definition new_channel_wait (arr : list arrival) : nc_result :=
  match arr with
  | [] => NcWaits
  | AHeaderOnly typ :: _ => if is_protack typ then NcOk else NcError
  | _ :: _ => NcError
  end.

(* the write NewChannel performs for id > 0 *)
Definition setup_write (ps id : Z) : option bytes :=
  match send_packet ps id buf_setup false 0 setup_packet with
  | Some (w, _) => Some w
  | None => None
  end.

(* ------------------------------------------------------------------ 5. sends between received packets *)

(* One goroutine per channel sends (QueuePackage ... SendPackage / SendRemainingPackets) or calls Channel.Reset while
   the reader goroutine routes packets: between two packets of a package addressed to a channel the client may
   finish a send on that very channel.  Code mirrored: Channel.reset() (run by Reset and, deferred, at the end of
   SendRemainingPackets / SendPackage) sets CurrentHeaderType = NORMAL, queueTx.Reset(), lastPkgTx = nil - it touches
   the SEND side only; queueRx (the packets of a not yet complete package) belongs to the reader.  The state is the
   pair of the routing map (section 1) and the send states (section 3); a received packet or a close changes the
   first, a send or a reset the second. *)
Inductive hop :=
| HRx (o : rop)                                      (* the reader routes a packet / a channel is closed *)
| HSend (id typ : Z) (pkgs : list (list bytes))      (* one message: every package queued, then the flush + reset *)
| HReset (id : Z).                                   (* Channel.Reset *)

Inductive hout :=
| HoRx (x : rout)
| HoTx (code : Z) (ws : list bytes).                 (* 0 ok | 2 ErrChannelClosed | -1 panic ; the transport writes *)

Definition hstate := (cmap * tmap)%type.

Definition hist_op (need nenv : nat) (ps : Z) (s : hstate) (h : hop) : hout * hstate :=
  match h with
  | HRx o =>
      let '(x, m1) := route_op need nenv (fst s) o in
      (HoRx x, (m1, match o with OClose id => tm_del id (snd s) | OPkt _ => snd s end))
  | HSend id typ pkgs =>
      match tm_find id (snd s) with
      | None => (HoTx 2 [], s)
      | Some st => match send_message ps id typ pkgs st with
                   | None => (HoTx (-1) [], s)
                   | Some (ws, st') => (HoTx 0 ws, (fst s, tm_set id st' (snd s)))
                   end
      end
  | HReset id =>
      match tm_find id (snd s) with
      | None => (HoTx 0 [], s)
      | Some st => (HoTx 0 [], (fst s, tm_set id {| tq := reset (tq st); tnr := tnr st |} (snd s)))
      end
  end.

Fixpoint hist_run (need nenv : nat) (ps : Z) (s : hstate) (hs : list hop) : list hout * hstate :=
  match hs with
  | [] => ([], s)
  | h :: r => let '(x, s1) := hist_op need nenv ps s h in
              let '(xs, s2) := hist_run need nenv ps s1 r in (x :: xs, s2)
  end.

(* the history with the send / reset events erased; the receive-side results of a run *)
Fixpoint rx_ops (hs : list hop) : list rop :=
  match hs with
  | [] => []
  | HRx o :: r => o :: rx_ops r
  | _ :: r => rx_ops r
  end.

Fixpoint rx_outs (xs : list hout) : list rout :=
  match xs with
  | [] => []
  | HoRx x :: r => x :: rx_outs r
  | HoTx _ _ :: r => rx_outs r
  end.

(* the history with the received packets erased (closes stay: they end a channel's sending); the send-side results *)
Fixpoint tx_hops (hs : list hop) : list hop :=
  match hs with
  | [] => []
  | HRx (OPkt _) :: r => tx_hops r
  | h :: r => h :: tx_hops r
  end.

Fixpoint tx_outs (xs : list hout) : list (Z * list bytes) :=
  match xs with
  | [] => []
  | HoTx c ws :: r => (c, ws) :: tx_outs r
  | HoRx _ :: r => tx_outs r
  end.
