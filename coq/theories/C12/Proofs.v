(* C12 — lemmas: the channel map, the frame property of routing, the allocation invariant over all schedules. *)
From Coq Require Import ZArith List Bool Lia.
Import ListNotations.
From V Require Import Base.Tree Base.Bytes Base.BytesFacts Gen.GenPkg Rx.Model C15.Model Gen.GenC01 C01.Model C01.Spec
  Gen.GenC12 C12.Model C12.Spec.
Open Scope Z_scope.

(* ------------------------------------------------------------------ the channel map *)

Lemma cm_find_set_same : forall id v m, cm_find id (cm_set id v m) = Some v.
Proof.
  intros id v m. induction m as [|[k w] r IH]; cbn [cm_set cm_find].
  - rewrite Z.eqb_refl. reflexivity.
  - destruct (Z.eqb_spec id k) as [E|N]; cbn [cm_find].
    + subst k. rewrite Z.eqb_refl. reflexivity.
    + destruct (Z.eqb_spec id k) as [E'|_]; [congruence | exact IH].
Qed.

Lemma cm_find_set_other : forall id k v m, id <> k -> cm_find id (cm_set k v m) = cm_find id m.
Proof.
  intros id k v m NE. induction m as [|[j w] r IH]; cbn [cm_set cm_find].
  - destruct (Z.eqb_spec id k) as [E|_]; [congruence | reflexivity].
  - destruct (Z.eqb_spec k j) as [E|N]; cbn [cm_find].
    + subst j. destruct (Z.eqb_spec id k) as [E'|_]; [congruence | reflexivity].
    + destruct (Z.eqb_spec id j) as [_|_]; [reflexivity | exact IH].
Qed.

Lemma cm_find_del_same : forall id m, cm_find id (cm_del id m) = None.
Proof.
  intros id m. induction m as [|[k w] r IH]; cbn [cm_del filter fst cm_find]; [reflexivity|].
  destruct (Z.eqb_spec k id) as [E|N]; cbn [negb]; [exact IH|].
  cbn [cm_find]. destruct (Z.eqb_spec id k) as [E'|_]; [congruence | exact IH].
Qed.

Lemma cm_find_del_other : forall id k m, id <> k -> cm_find id (cm_del k m) = cm_find id m.
Proof.
  intros id k m NE. induction m as [|[j w] r IH]; cbn [cm_del filter fst cm_find]; [reflexivity|].
  destruct (Z.eqb_spec j k) as [E|N]; cbn [negb].
  - subst j. destruct (Z.eqb_spec id k) as [E'|_]; [congruence | exact IH].
  - cbn [cm_find]. destruct (Z.eqb_spec id j) as [_|_]; [reflexivity | exact IH].
Qed.

(* ------------------------------------------------------------------ routing: the frame property *)

Lemma rx_run_cons : forall need nenv st p r,
  rx_run need nenv st (p :: r) =
  (fst (rx_packet need nenv st p) :: fst (rx_run need nenv (snd (rx_packet need nenv st p)) r),
   snd (rx_run need nenv (snd (rx_packet need nenv st p)) r)).
Proof.
  intros need nenv st p r. cbn [rx_run].
  destruct (rx_packet need nenv st p) as [es st1]. cbn [fst snd].
  destruct (rx_run need nenv st1 r) as [ess st2]. reflexivity.
Qed.

Lemma route_ops_cons : forall need nenv m o r,
  route_ops need nenv m (o :: r) =
  (fst (route_op need nenv m o) :: fst (route_ops need nenv (snd (route_op need nenv m o)) r),
   snd (route_ops need nenv (snd (route_op need nenv m o)) r)).
Proof.
  intros need nenv m o r. cbn [route_ops].
  destruct (route_op need nenv m o) as [x m1]. cbn [fst snd].
  destruct (route_ops need nenv m1 r) as [xs m2]. reflexivity.
Qed.

Lemma routing_frame : forall need nenv os m id st,
  cm_find id m = Some st ->
  existsb (closes id) os = false ->
  events_of id (fst (route_ops need nenv m os)) = fst (rx_run need nenv st (pkts_for id os)) /\
  cm_find id (snd (route_ops need nenv m os)) = Some (snd (rx_run need nenv st (pkts_for id os))).
Proof.
  intros need nenv os. induction os as [|o r IH]; intros m id st Hf Hc.
  - cbn. split; [reflexivity | exact Hf].
  - cbn [existsb] in Hc. apply orb_false_iff in Hc. destruct Hc as [Hc1 Hc2].
    rewrite route_ops_cons. cbn [fst snd].
    destruct o as [p | k].
    + (* a packet *)
      cbn [route_op pkts_for]. unfold route.
      destruct (Z.eqb_spec (pkt_chan p) id) as [E|N].
      * (* addressed to id *)
        rewrite E, Hf. rewrite rx_run_cons. cbn [fst snd].
        destruct (rx_packet need nenv st p) as [es st1] eqn:Erx. cbn [fst snd events_of].
        rewrite Z.eqb_refl.
        destruct (IH (cm_set id st1 m) id st1 (cm_find_set_same id st1 m) Hc2) as [H1 H2].
        split; [f_equal; exact H1 | exact H2].
      * (* addressed to another id: registered or not *)
        destruct (cm_find (pkt_chan p) m) as [st'|] eqn:Ef.
        -- destruct (rx_packet need nenv st' p) as [es st1] eqn:Erx. cbn [fst snd events_of].
           destruct (Z.eqb_spec (pkt_chan p) id) as [E'|_]; [congruence|].
           apply IH; [|exact Hc2]. rewrite cm_find_set_other by congruence. exact Hf.
        -- cbn [fst snd events_of]. apply IH; assumption.
    + (* a close of another channel *)
      cbn [closes] in Hc1. apply Z.eqb_neq in Hc1.
      cbn [route_op pkts_for].
      destruct (cm_find k m) as [st'|] eqn:Ef; cbn [fst snd events_of].
      * apply IH; [|exact Hc2]. rewrite cm_find_del_other by congruence. exact Hf.
      * apply IH; assumption.
Qed.

Lemma unknown_channel : forall need nenv m p, cm_find (pkt_chan p) m = None ->
  route need nenv m p = (RInvalid (pkt_chan p), m).
Proof. intros need nenv m p H. unfold route. rewrite H. reflexivity. Qed.

Lemma closed_then_unknown : forall need nenv m id p, pkt_chan p = id ->
  route need nenv (snd (route_op need nenv m (OClose id))) p =
  (RInvalid id, snd (route_op need nenv m (OClose id))).
Proof.
  intros need nenv m id p E. cbn [route_op].
  destruct (cm_find id m) as [st|] eqn:Ef; cbn [snd]; unfold route; rewrite E.
  - rewrite cm_find_del_same. reflexivity.
  - rewrite Ef. reflexivity.
Qed.

(* ------------------------------------------------------------------ id allocation: invariant over all schedules *)

Definition ids_lt (s : astate) (b : Z) : Prop :=
  (forall x, In x (amap s) -> 0 <= x < b) /\ (forall t x, In (t, x) (got s) -> 0 <= x < b).

Definition hinv (s : astate) : Prop :=
  match holder s with
  | None => ids_lt s (ctr s)
  | Some (_, PLocked) => ids_lt s (ctr s)
  | Some (_, DLocked _) => ids_lt s (ctr s)
  | Some (_, DDeleted _) => ids_lt s (ctr s)
  | Some (_, PRead cur) => cur = ctr s /\ cur <= max_chan /\ ids_lt s (ctr s)
  | Some (_, PAdded cur) => ctr s = cur + 1 /\ 0 <= cur /\ ids_lt s cur
  | Some (_, PFree cur) => ctr s = cur + 1 /\ 0 <= cur /\ ids_lt s cur
  | Some (_, PInserted cur) =>
      ctr s = cur + 1 /\ 0 <= cur /\ (forall x, In x (amap s) -> 0 <= x <= cur) /\ (forall t x, In (t, x) (got s) -> 0 <= x < cur)
  end.

Definition ainv (s : astate) : Prop :=
  0 <= ctr s <= max_chan + 1 /\ NoDup (map snd (got s)) /\ hinv s.

Lemma ainv_init : ainv ainit.
Proof.
  unfold ainv, hinv, ids_lt, ainit, max_chan; cbn.
  split; [lia|]. split; [constructor|]. split; intros; contradiction.
Qed.

Lemma ids_lt_weaken : forall s a b, a <= b -> ids_lt s a -> ids_lt s b.
Proof.
  intros s a b L [H1 H2]. split.
  - intros x I. specialize (H1 x I). lia.
  - intros t x I. specialize (H2 t x I). lia.
Qed.

Lemma ainv_step : forall s l, ainv s -> ainv (astep s l).
Proof.
  intros s l [Hc [Hnd Hh]]. pose proof (conj Hc (conj Hnd Hh)) as Hs. unfold astep.
  destruct l as [t | t k]; destruct (holder s) as [[h pc]|] eqn:Eh.
  - (* ANew, lock held *)
    destruct (Z.eqb_spec t h) as [E|N]; cbn [negb]; [|exact Hs].
    unfold hinv in Hh. rewrite Eh in Hh.
    destruct pc as [|cur|cur|cur|cur|k|k].
    + (* PLocked: read the counter *)
      destruct (Z.ltb_spec max_chan (ctr s)) as [L|L].
      * unfold ainv, hinv; cbn. split; [exact Hc|]. split; [exact Hnd|]. exact Hh.
      * unfold ainv, hinv, set_holder; cbn. split; [exact Hc|]. split; [exact Hnd|].
        split; [reflexivity|]. split; [exact L|]. exact Hh.
    + (* PRead: add *)
      destruct Hh as [E1 [E2 Hl]]. unfold ainv, hinv; cbn.
      assert (Em : (ctr s + 1) mod two32 = ctr s + 1).
      { apply Z.mod_small. unfold two32, max_chan in *. lia. }
      rewrite Em. split; [unfold max_chan in *; lia|]. split; [exact Hnd|].
      split; [lia|]. split; [lia|]. subst cur. exact Hl.
    + (* PAdded: lookup *)
      destruct Hh as [E1 [E0 Hl]].
      destruct (memz cur (amap s)) eqn:M; unfold ainv, hinv, set_holder; cbn.
      * split; [exact Hc|]. split; [exact Hnd|]. apply (ids_lt_weaken s cur); [lia | exact Hl].
      * split; [exact Hc|]. split; [exact Hnd|]. split; [exact E1 |]. split; [exact E0 | exact Hl].
    + (* PFree: insert *)
      destruct Hh as [E1 [E0 [Hl1 Hl2]]]. unfold ainv, hinv; cbn.
      split; [exact Hc|]. split; [exact Hnd|]. split; [exact E1|]. split; [exact E0|].
      split.
      * intros x [I|I]; [subst x; lia | specialize (Hl1 x I); lia].
      * exact Hl2.
    + (* PInserted: unlock, the call has its id *)
      destruct Hh as [E1 [E0 [Hl1 Hl2]]]. unfold ainv, hinv, ids_lt; cbn.
      split; [exact Hc|]. split.
      * constructor; [|exact Hnd].
        intros I. apply in_map_iff in I. destruct I as [[t' x] [Ex I]]. cbn in Ex. subst x.
        specialize (Hl2 t' cur I). lia.
      * split.
        -- intros x I. specialize (Hl1 x I). lia.
        -- intros t' x [I|I]; [inversion I; subst; lia | specialize (Hl2 t' x I); lia].
    + exact Hs.
    + exact Hs.
  - (* ANew, lock free *)
    unfold hinv in Hh. rewrite Eh in Hh.
    unfold ainv, hinv, set_holder; cbn. auto.
  - (* AClose, lock held *)
    destruct (Z.eqb_spec t h) as [E|N]; cbn [negb]; [|exact Hs].
    unfold hinv in Hh. rewrite Eh in Hh.
    destruct pc as [|cur|cur|cur|cur|j|j]; try exact Hs.
    + (* DLocked: delete *)
      unfold ainv, hinv, ids_lt; cbn. split; [exact Hc|]. split; [exact Hnd|].
      destruct Hh as [Hl1 Hl2]. split; [|exact Hl2].
      intros x I. apply filter_In in I. destruct I as [I _]. exact (Hl1 x I).
    + (* DDeleted: unlock *)
      unfold ainv, hinv, set_holder; cbn. auto.
  - (* AClose, lock free *)
    unfold hinv in Hh. rewrite Eh in Hh.
    unfold ainv, hinv, set_holder; cbn. auto.
Qed.

Lemma ainv_run : forall ls s, ainv s -> ainv (fold_left astep ls s).
Proof.
  intros ls. induction ls as [|l r IH]; intros s H; [exact H|].
  cbn [fold_left]. apply IH. apply ainv_step. exact H.
Qed.

Lemma ids_distinct : forall ls,
  NoDup (map snd (got (arun ls))) /\
  (forall t x, In (t, x) (got (arun ls)) -> 0 <= x <= max_chan) /\
  (forall x, In x (amap (arun ls)) -> 0 <= x <= max_chan).
Proof.
  intros ls. destruct (ainv_run ls ainit ainv_init) as [Hc [Hnd Hh]]. fold (arun ls) in *.
  split; [exact Hnd|].
  unfold hinv in Hh.
  destruct (holder (arun ls)) as [[h pc]|].
  - destruct pc as [|cur|cur|cur|cur|k|k].
    + destruct Hh as [H1 H2]. split; [intros t x I; specialize (H2 t x I); lia | intros x I; specialize (H1 x I); lia].
    + destruct Hh as [_ [_ [H1 H2]]]. split; [intros t x I; specialize (H2 t x I); lia | intros x I; specialize (H1 x I); lia].
    + destruct Hh as [E [E0 [H1 H2]]]. split; [intros t x I; specialize (H2 t x I); lia | intros x I; specialize (H1 x I); lia].
    + destruct Hh as [E [E0 [H1 H2]]]. split; [intros t x I; specialize (H2 t x I); lia | intros x I; specialize (H1 x I); lia].
    + destruct Hh as [E [E0 [H1 H2]]]. split; [intros t x I; specialize (H2 t x I); lia | intros x I; specialize (H1 x I); lia].
    + destruct Hh as [H1 H2]. split; [intros t x I; specialize (H2 t x I); lia | intros x I; specialize (H1 x I); lia].
    + destruct Hh as [H1 H2]. split; [intros t x I; specialize (H2 t x I); lia | intros x I; specialize (H1 x I); lia].
  - destruct Hh as [H1 H2]. split; [intros t x I; specialize (H2 t x I); lia | intros x I; specialize (H1 x I); lia].
Qed.

(* a new id is never one that is registered at that moment: at the insertion the id is above everything in the map *)
Lemma insert_fresh : forall ls t cur, holder (arun ls) = Some (t, PFree cur) -> ~ In cur (amap (arun ls)).
Proof.
  intros ls t cur Eh I. destruct (ainv_run ls ainit ainv_init) as [_ [_ Hh]]. fold (arun ls) in Hh.
  unfold hinv in Hh. rewrite Eh in Hh. destruct Hh as [_ [_ [H1 _]]]. specialize (H1 cur I). lia.
Qed.

(* mutual exclusion is what the model builds in: whoever does not hold the lock does not move while it is held *)
Lemma blocked_while_held : forall s t h pc, holder s = Some (h, pc) -> t <> h ->
  astep s (ANew t) = s /\ forall k, astep s (AClose t k) = s.
Proof.
  intros s t h pc Eh NE. unfold astep. rewrite Eh.
  destruct (Z.eqb_spec t h) as [E|_]; [congruence|]. cbn [negb]. split; [reflexivity | intros k; reflexivity].
Qed.

(* ------------------------------------------------------------------ sends between received packets *)

Lemma hist_run_cons : forall need nenv ps s h r,
  hist_run need nenv ps s (h :: r) =
  (fst (hist_op need nenv ps s h) :: fst (hist_run need nenv ps (snd (hist_op need nenv ps s h)) r),
   snd (hist_run need nenv ps (snd (hist_op need nenv ps s h)) r)).
Proof.
  intros need nenv ps s h r. cbn [hist_run].
  destruct (hist_op need nenv ps s h) as [x s1]. cbn [fst snd].
  destruct (hist_run need nenv ps s1 r) as [xs s2]. reflexivity.
Qed.

Lemma routing_ignores_sends : forall need nenv ps hs m tm,
  rx_outs (fst (hist_run need nenv ps (m, tm) hs)) = fst (route_ops need nenv m (rx_ops hs)) /\
  fst (snd (hist_run need nenv ps (m, tm) hs)) = snd (route_ops need nenv m (rx_ops hs)).
Proof.
  intros need nenv ps hs. induction hs as [|h r IH]; intros m tm.
  - cbn. split; reflexivity.
  - rewrite hist_run_cons. destruct h as [o | id typ pkgs | id].
    + cbn [rx_ops]. rewrite route_ops_cons. cbn [hist_op fst snd].
      destruct (route_op need nenv m o) as [x m1]. cbn [fst snd rx_outs].
      destruct (IH m1 (match o with OClose k => tm_del k tm | OPkt _ => tm end)) as [H1 H2].
      split; [f_equal; exact H1 | exact H2].
    + cbn [rx_ops hist_op fst snd].
      destruct (tm_find id tm) as [st|]; [destruct (send_message ps id typ pkgs st) as [[ws st']|] |];
        cbn [fst snd rx_outs]; apply IH.
    + cbn [rx_ops hist_op fst snd].
      destruct (tm_find id tm) as [st|]; cbn [fst snd rx_outs]; apply IH.
Qed.

Lemma routing_with_sends : forall need nenv ps hs m tm id st,
  cm_find id m = Some st ->
  existsb (closes id) (rx_ops hs) = false ->
  events_of id (rx_outs (fst (hist_run need nenv ps (m, tm) hs))) = fst (rx_run need nenv st (pkts_for id (rx_ops hs))) /\
  cm_find id (fst (snd (hist_run need nenv ps (m, tm) hs))) = Some (snd (rx_run need nenv st (pkts_for id (rx_ops hs)))).
Proof.
  intros need nenv ps hs m tm id st Hf Hc.
  destruct (routing_ignores_sends need nenv ps hs m tm) as [H1 H2]. rewrite H1, H2.
  apply routing_frame; assumption.
Qed.

Lemma sends_ignore_routing : forall need nenv ps hs m m' tm,
  tx_outs (fst (hist_run need nenv ps (m, tm) hs)) = tx_outs (fst (hist_run need nenv ps (m', tm) (tx_hops hs))) /\
  snd (snd (hist_run need nenv ps (m, tm) hs)) = snd (snd (hist_run need nenv ps (m', tm) (tx_hops hs))).
Proof.
  intros need nenv ps hs. induction hs as [|h r IH]; intros m m' tm.
  - cbn. split; reflexivity.
  - destruct h as [[p | k] | id typ pkgs | id]; cbn [tx_hops].
    + rewrite hist_run_cons. cbn [hist_op fst snd].
      destruct (route_op need nenv m (OPkt p)) as [x m1]. cbn [fst snd tx_outs]. apply IH.
    + rewrite !hist_run_cons. cbn [hist_op fst snd].
      destruct (route_op need nenv m (OClose k)) as [x m1].
      destruct (route_op need nenv m' (OClose k)) as [x' m1']. cbn [fst snd tx_outs]. apply IH.
    + rewrite !hist_run_cons. cbn [hist_op fst snd].
      destruct (tm_find id tm) as [st|]; [destruct (send_message ps id typ pkgs st) as [[ws st']|] |];
        cbn [fst snd tx_outs]; destruct (IH m m' tm) as [H1 H2].
      * destruct (IH m m' (tm_set id st' tm)) as [H3 H4]. split; [f_equal; exact H3 | exact H4].
      * split; [f_equal; exact H1 | exact H2].
      * split; [f_equal; exact H1 | exact H2].
    + rewrite !hist_run_cons. cbn [hist_op fst snd].
      destruct (tm_find id tm) as [st|]; cbn [fst snd tx_outs].
      * destruct (IH m m' (tm_set id {| tq := reset (tq st); tnr := tnr st |} tm)) as [H3 H4]. split; [f_equal; exact H3 | exact H4].
      * destruct (IH m m' tm) as [H1 H2]. split; [f_equal; exact H1 | exact H2].
Qed.
