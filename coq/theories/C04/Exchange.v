(* C04/C05: canonical tree form of values and outcomes (the harness prints the same form,
   see harness/cmd/c04/values.go).  No proofs here. *)
From Coq Require Import ZArith List Bool.
Import ListNotations.
From V Require Import Base.Tree Base.Bytes C04.Calendar C04.Model.
Open Scope Z_scope.

Definition ikind_code (k : ikind) : Z :=
  match k with U8 => 1 | I8 => 2 | U16 => 3 | I16 => 4 | U32 => 5 | I32 => 6 | U64 => 7 | I64 => 8 | IInt => 9 | IUint => 10 end.
Definition ikind_of_code (c : Z) : ikind :=
  match c with 1 => U8 | 2 => I8 | 3 => U16 | 4 => I16 | 5 => U32 | 6 => I32 | 7 => U64 | 8 => I64 | 9 => IInt | _ => IUint end.

Definition tree_of_time (t : ctime) : tree :=
  TL [TI 8; TI (cy t); TI (cmo t); TI (cd t); TI (ch t); TI (cmi t); TI (cs t); TI (cns t)].

Definition tree_of_value (v : value) : tree :=
  match v with
  | VNull => TL []
  | VInt k x => TL [TI 1; TI (ikind_code k); TI x]
  | VFlt w b => TL [TI 2; TI w; TI b]
  | VBool b => TL [TI 3; TI (if b then 1 else 0)]
  | VBytes bs => TL [TI 4; TB bs]
  | VStr bs => TL [TI 5; TB bs]
  | VText cps => TL [TI 6; TB cps]
  | VDec p s None => TL []   (* a Decimal without a value is the library's NULL of MONEYN/DECN/NUMN: printed as NULL *)
  | VDec p s (Some x) => TL [TI 7; TI p; TI s; TL [TI x]]
  | VTime t => tree_of_time t
  end.

(* inputs: () is Go's nil; (7 p s ()) hands a Decimal without a value to Bytes *)
Definition value_of_tree (t : tree) : option value :=
  match t with
  | TL [] => Some VNull
  | TL [TI 1; TI k; TI x] => Some (VInt (ikind_of_code k) x)
  | TL [TI 2; TI w; TI b] => Some (VFlt w b)
  | TL [TI 3; TI b] => Some (VBool (negb (b =? 0)))
  | TL [TI 4; TB bs] => Some (VBytes bs)
  | TL [TI 5; TB bs] => Some (VStr bs)
  | TL [TI 6; TB cps] => Some (VText cps)
  | TL [TI 7; TI p; TI s; TL []] => Some (VDec p s None)
  | TL [TI 7; TI p; TI s; TL [TI x]] => Some (VDec p s (Some x))
  | TL [TI 8; TI y; TI m; TI d; TI h; TI mi; TI s; TI ns] => Some (VTime (CT y m d h mi s ns))
  | _ => None
  end.

Definition tree_of_outcome {A} (f : A -> tree) (o : outcome A) : tree :=
  match o with Ok a => TL [TI 0; f a] | Err => TL [TI 2] | Panic => TL [TI (-1)] end.

Definition bytes_outcome_of_tree (t : tree) : option (outcome bytes) :=
  match t with
  | TL [TI 0; TB bs] => Some (Ok bs)
  | TL [TI 2] => Some Err
  | TL [TI (-1)] => Some Panic
  | _ => None
  end.
Definition value_outcome_of_tree (t : tree) : option (outcome value) :=
  match t with
  | TL [TI 0; v] => match value_of_tree v with Some x => Some (Ok x) | None => None end
  | TL [TI 2] => Some Err
  | TL [TI (-1)] => Some Panic
  | _ => None
  end.
