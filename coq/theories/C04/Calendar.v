(* C04/C05 model: the calendar arithmetic of asetime (duration.go, time.go) exactly as coded,
   and the civil calendar of Go's time package as far as the value codecs use it
   (time.Date with day/month normalisation, AddDate(0,0,n), Add, Year/Month/Day/Hour/...).
   Go semantics explicit: '/' on int/int64 is truncating (Z.quot), int and int64 wrap modulo 2^64.
   No proofs here. *)
From Coq Require Import ZArith List Bool.
Import ListNotations.
From V Require Import Base.Bytes C04.GoInt.
Open Scope Z_scope.

(* a time.Time in UTC as its civil fields *)
Record ctime := CT { cy : Z; cmo : Z; cd : Z; ch : Z; cmi : Z; cs : Z; cns : Z }.

Definition day_us : Z := 86400000000.      (* asetime.Day *)
Definition day_ns : Z := 86400000000000.

(* ---------- asetime/duration.go ---------- *)

(* the JDN expression of DurationFromDateTime / TimeToMicroseconds, truncating division *)
Definition jdn (y m d : Z) : Z :=
  Z.quot (1461 * (y + 4800 + Z.quot (m - 14) 12)) 4
  + Z.quot (367 * (m - 2 - 12 * Z.quot (m - 14) 12)) 12
  - Z.quot (3 * Z.quot (y + 4900 + Z.quot (m - 14) 12) 100) 4
  + d - 32075.

(* DurationFromTime: microseconds since midnight, sub-microsecond part dropped *)
Definition dur_from_time (t : ctime) : Z :=
  Z.quot (ch t * 3600000000000) 1000 + Z.quot (cmi t * 60000000000) 1000
  + Z.quot (cs t * 1000000000) 1000 + Z.quot (cns t) 1000.

(* DurationFromDateTime: microseconds since 0000-01-01 (int64 arithmetic, wraps) *)
Definition dur_from_datetime (t : ctime) : Z :=
  i64 ((jdn (cy t) (cmo t) (cd t) - 1721425) * 86400000000 + 31536000000000 + dur_from_time t).

(* ASEDuration.Days / Minutes / Milliseconds *)
Definition dur_days (d : Z) : Z := Z.quot d day_us.
Definition dur_minutes (d : Z) : Z := Z.quot d 60000000.
Definition dur_millis (d : Z) : Z := Z.quot d 1000.

(* FractionalSecondToMillisecond: ASEDuration(float64(s)*1000/300) * Millisecond.
   ASSUMPTION (validated by the correspondence run, not proved): the float64 evaluation equals
   the truncated exact quotient for |s| < 2^32. *)
Definition frac_to_us (s : Z) : Z := Z.quot (s * 1000) 300 * 1000.

(* MillisecondToFractionalSecond: int(math.Round(float64(s)*300/1000/1000)).
   ASSUMPTION (validated by the correspondence run, not proved): the float64 evaluation equals
   round-half-away of the exact rational 3*s/10^4 for |s| < 2^44. *)
Definition us_to_frac (s : Z) : Z := round_half_away (3 * s) 10000.

(* DurationFromDateTime(Epoch1900()) *)
Definition dur_epoch1900 : Z := dur_from_datetime (CT 1900 1 1 0 0 0 0).

(* splitDays of asetypes/bytes.go *)
Definition split_days (d : Z) : Z * Z :=
  let days := dur_days d in
  let rest := d - days * day_us in
  if rest <? 0 then (days - 1, rest + day_us) else (days, rest).

(* ---------- the civil calendar of package time (proleptic Gregorian), any year ---------- *)

(* the part of the computation inside one 400-year era (March-based years):
   day of the era of (year of era, March-based month, day) and back *)
Definition doe_of (yoe mp d : Z) : Z := yoe * 365 + yoe / 4 - yoe / 100 + (153 * mp + 2) / 5 + (d - 1).
Definition civil_doe (doe : Z) : Z * Z * Z :=
  let yoe := (doe - doe / 1460 + doe / 36524 - doe / 146096) / 365 in
  let doy := doe - (365 * yoe + yoe / 4 - yoe / 100) in
  let mp := (5 * doy + 2) / 153 in
  (yoe, mp, doy - (153 * mp + 2) / 5 + 1).

(* days since 1970-01-01 of year/month/day; month and day are normalised as time.Date does:
   months outside 1..12 carry into the year, the day is an offset from the first of the month *)
Definition days_of_civil (y m d : Z) : Z :=
  let y1 := y + (m - 1) / 12 in
  let m1 := (m - 1) mod 12 + 1 in
  let y2 := if m1 <=? 2 then y1 - 1 else y1 in
  let era := y2 / 400 in
  let yoe := y2 - era * 400 in
  let mp := (m1 + 9) mod 12 in
  era * 146097 + doe_of yoe mp d - 719468.

(* year/month/day of a day number (days since 1970-01-01) *)
Definition civil_of_days (z0 : Z) : Z * Z * Z :=
  let z := z0 + 719468 in
  let era := z / 146097 in
  let doe := z - era * 146097 in
  let '(yoe, mp, d) := civil_doe doe in
  let m := if mp <? 10 then mp + 3 else mp - 9 in
  let y := yoe + era * 400 in
  (if m <=? 2 then y + 1 else y, m, d).

(* the instant  (day number) + ns nanoseconds  as civil fields: time.Date(...).Add(ns);
   hour = r / 3600e9, minute = r / 60e9 mod 60, second = r / 1e9 mod 60 for r = ns mod 86400e9,
   computed through the second of the day to keep the divisions small *)
Definition time_of (day ns : Z) : ctime :=
  let q := if (0 <=? ns) && (ns <? day_ns) then 0 else ns / day_ns in
  let r := ns - q * day_ns in
  let sec := r / 1000000000 in
  let '(y, m, d) := civil_of_days (day + q) in
  CT y m d (sec / 3600) (sec / 60 mod 60) (sec mod 60) (r - sec * 1000000000).

Definition day1900 : Z := days_of_civil 1900 1 1.   (* asetime.Epoch1900 *)
Definition day0001 : Z := days_of_civil 1 1 1.      (* asetime.EpochRataDie, time.Date(1, 1, 1) *)
Definition day0000 : Z := days_of_civil 0 1 1.      (* time.Date(0, 1, 1) *)

(* ---------- asetime/time.go ---------- *)

(* TimeToMicroseconds: uint64 arithmetic *)
Definition time_to_us (t : ctime) : Z :=
  u64 (u64 (jdn (cy t) (cmo t) (cd t) - 1721425) * 86400000000 + 31536000000000
       + Z.quot (u64 (ch t * 3600000000000)) 1000 + Z.quot (u64 (cmi t * 60000000000)) 1000
       + Z.quot (u64 (cs t * 1000000000)) 1000 + Z.quot (u64 (cns t)) 1000).

(* the date part of MicrosecondsToTime (Fliegel / Van Flandern): jD = days since 1900-01-01 *)
Definition fliegel_date (jD : Z) : Z * Z * Z :=
  let l := jD + 68569 + 2415021 in
  let n := Z.quot (4 * l) 146097 in
  let l := l - Z.quot (146097 * n + 3) 4 in
  let y := Z.quot (4000 * (l + 1)) 1461001 in
  let l := l - Z.quot (1461 * y) 4 + 31 in
  let m := Z.quot (80 * l) 2447 in
  let d := l - Z.quot (2447 * m) 80 in
  let l := Z.quot m 11 in
  let m := m + 2 - 12 * l in
  let y := 100 * (n - 49) + y + l in
  (y, m, d).

(* MicrosecondsToTime on a uint64 *)
Definition us_to_time (us : Z) : ctime :=
  let nanoseconds := i64 (Z.rem us 1000000) * 1000 in
  let secs := i64 (Z.quot us 1000000) in
  let seconds := Z.rem secs 86400 in
  let jD := Z.quot secs 86400 - 693961 in
  let '(y, m, d) := fliegel_date jD in
  (* time.Date(y, m, d, 0, 0, 0, 0, UTC), then Add(nanoseconds), Add(seconds) *)
  time_of (days_of_civil y m d) (nanoseconds + seconds * 1000000000).
