(* C04/C05 model: unicode/utf16.Encode / Decode, the string(runes) conversion and
   strings.TrimRight(s, "\x00") as used by the UNITEXT arms; utf-8 encoding of a Go string's
   code points (a Go string handed to a char type travels as its utf-8 bytes).
   Code points and code units are integers.  No proofs here. *)
From Coq Require Import ZArith List Bool.
Import ListNotations.
From V Require Import Base.Bytes.
Open Scope Z_scope.

Definition surr1 : Z := 55296.     (* 0xD800 *)
Definition surr2 : Z := 56320.     (* 0xDC00 *)
Definition surr3 : Z := 57344.     (* 0xE000 *)
Definition surr_self : Z := 65536. (* 0x10000 *)
Definition max_rune : Z := 1114111. (* 0x10FFFF *)
Definition repl : Z := 65533.      (* U+FFFD *)

Definition is_scalar (r : Z) : bool :=
  ((0 <=? r) && (r <? surr1)) || ((surr3 <=? r) && (r <=? max_rune)).

(* utf16.Encode: one rune *)
Definition utf16_enc1 (r : Z) : list Z :=
  if ((0 <=? r) && (r <? surr1)) || ((surr3 <=? r) && (r <? surr_self)) then [r]
  else if (surr_self <=? r) && (r <=? max_rune) then
    let v := r - surr_self in [surr1 + (v / 1024) mod 1024; surr2 + v mod 1024]
  else [repl].
Definition utf16_encode (rs : list Z) : list Z := flat_map utf16_enc1 rs.

(* utf16.Decode *)
Fixpoint utf16_decode (us : list Z) : list Z :=
  match us with
  | [] => []
  | u :: r =>
      if (u <? surr1) || (surr3 <=? u) then u :: utf16_decode r
      else if (surr1 <=? u) && (u <? surr2) then
        match r with
        | l :: r' =>
            if (surr2 <=? l) && (l <? surr3)
            then ((u - surr1) * 1024 + (l - surr2) + surr_self) :: utf16_decode r'
            else repl :: utf16_decode r
        | [] => [repl]
        end
      else repl :: utf16_decode r
  end.

(* code units <-> little-endian bytes *)
Definition units_to_le (us : list Z) : bytes := flat_map (fun u => [u mod 256; (u / 256) mod 256]) us.
Fixpoint le_to_units (bs : bytes) : list Z :=
  match bs with
  | lo :: hi :: r => (lo + 256 * hi) :: le_to_units r
  | _ => []
  end.

(* string(runes): invalid runes become U+FFFD *)
Definition string_of_runes (rs : list Z) : list Z := map (fun r => if is_scalar r then r else repl) rs.

(* strings.TrimRight(s, "\x00") on the code points *)
Fixpoint drop_nul (l : list Z) : list Z :=
  match l with
  | [] => []
  | x :: r => if x =? 0 then drop_nul r else l
  end.
(* rev_append _ [] is the linear-time reversal (List.rev is quadratic when extracted) *)
Definition trim_nul (l : list Z) : list Z := rev_append (drop_nul (rev_append l [])) [].

(* utf-8 bytes of the code points of a Go string *)
Definition utf8_enc1 (r0 : Z) : bytes :=
  let r := if is_scalar r0 then r0 else repl in
  if r <? 128 then [r]
  else if r <? 2048 then [192 + r / 64; 128 + r mod 64]
  else if r <? 65536 then [224 + r / 4096; 128 + (r / 64) mod 64; 128 + r mod 64]
  else [240 + r / 262144; 128 + (r / 4096) mod 64; 128 + (r / 64) mod 64; 128 + r mod 64].
Definition utf8_encode (rs : list Z) : bytes := flat_map utf8_enc1 rs.
