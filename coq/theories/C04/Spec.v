(* C04 specification, written from the property text and DESIGN Appendix C (not from the Go code):
   the value domain of every data type, when a decoded value counts as "the same value"
   (exact, or to the type's tick for the classic temporal types), NULL handling;
   plus the dispatch functions value_run (the MODEL) and value_spec (the predicate applied to what the
   IMPLEMENTATION produced).  No proofs here. *)
From Coq Require Import ZArith List Bool.
Import ListNotations.
From V Require Import Base.Tree Base.Bytes Gen.GenC04 C04.GoInt C04.Calendar C04.Utf16 C04.Model C04.Exchange C04.RefCalendar.
Open Scope Z_scope.

(* ---------- domains ---------- *)
Definition in_range (lo hi x : Z) : bool := (lo <=? x) && (x <? hi).

Definition ik_range (k : ikind) (x : Z) : bool :=
  match k with
  | U8 => in_range 0 256 x | I8 => in_range (-128) 128 x
  | U16 => in_range 0 65536 x | I16 => in_range (-32768) 32768 x
  | U32 => in_range 0 4294967296 x | I32 => in_range (-2147483648) 2147483648 x
  | U64 => in_range 0 18446744073709551616 x | I64 => in_range (-9223372036854775808) 9223372036854775808 x
  | IInt | IUint => false
  end.

Definition ikind_eqb (a b : ikind) : bool := ikind_code a =? ikind_code b.

(* the Go type a fixed-width integer type maps to *)
Definition fixed_int_kind (t : Z) : option ikind :=
  if t =? t_INT1 then Some U8 else if t =? t_INT2 then Some I16 else if t =? t_INT4 then Some I32
  else if t =? t_INT8 then Some I64 else if t =? t_UINT2 then Some U16 else if t =? t_UINT4 then Some U32
  else if t =? t_UINT8 then Some U64 else None.

Definition char_types : list Z := [t_CHAR; t_VARCHAR; t_LONGCHAR; t_TEXT].
Definition bin_types : list Z := [t_BINARY; t_VARBINARY; t_LONGBINARY; t_IMAGE; t_XML].

Definition valid_time (t : ctime) : bool :=
  valid_date (cy t, cmo t, cd t) && in_range 0 24 (ch t) && in_range 0 60 (cmi t) && in_range 0 60 (cs t)
  && in_range 0 1000000000 (cns t).
Definition year_ok (t : ctime) : bool := (1 <=? cy t) && (cy t <=? 9999).
(* smalldatetime: 1900-01-01 .. 2079-06-06 *)
Definition small_ok (t : ctime) : bool :=
  let i := ref_index (cy t, cmo t, cd t) - ref_index_1900 in (0 <=? i) && (i <=? 65535).

Fixpoint last_nonzero (l : list Z) : bool :=
  match l with [] => false | [x] => negb (x =? 0) | _ :: r => last_nonzero r end.

Definition in_domain (t : Z) (v : value) (len : Z) : bool :=
  match v with
  | VInt k x =>
      ik_range k x &&
      (match fixed_int_kind t with Some k' => ikind_eqb k k' | None => false end
       || ((t =? t_INTN) && (ikind_eqb k U8 || ikind_eqb k I16 || ikind_eqb k I32 || ikind_eqb k I64))
       || ((t =? t_UINTN) && (ikind_eqb k U8 || ikind_eqb k U16 || ikind_eqb k U32 || ikind_eqb k U64)))
  | VFlt w b =>
      ((w =? 32) && in_range 0 4294967296 b && ((t =? t_FLT4) || (t =? t_FLTN)))
      || ((w =? 64) && in_range 0 18446744073709551616 b && ((t =? t_FLT8) || (t =? t_FLTN)))
  | VBool _ => t =? t_BIT
  | VStr bs => is_in t char_types && negb (zlen bs =? 0) && bytes_ok bs
  | VBytes bs => is_in t bin_types && negb (zlen bs =? 0) && bytes_ok bs
  | VText cps => (t =? t_UNITEXT) && forallb is_scalar cps && last_nonzero cps
  | VDec p s (Some x) =>
      ((t =? t_MONEY) && (len =? 8) && ik_range I64 x)
      || ((t =? t_SHORTMONEY) && (len =? 4) && ik_range I32 x)
      || ((t =? t_MONEYN) && (((len =? 8) && ik_range I64 x) || ((len =? 4) && ik_range I32 x)))
      || (is_in t [t_DECN; t_NUMN] && (1 <=? p) && (p <=? 38) && (0 <=? s) && (s <=? p) && (Z.abs x <? 10 ^ p))
  | VDec _ _ None => false
  | VTime tm =>
      valid_time tm &&
      ((is_in t [t_DATE; t_DATEN] && (len =? 4) && year_ok tm)
       || (is_in t [t_TIME; t_TIMEN] && (len =? 4))
       || (is_in t [t_SHORTDATE; t_DATETIMEN] && (len =? 4) && small_ok tm)
       || (is_in t [t_DATETIME; t_DATETIMEN] && (len =? 8) && year_ok tm)
       || ((t =? t_BIGDATETIMEN) && (len =? 8) && year_ok tm)
       || ((t =? t_BIGTIMEN) && (len =? 8)))
  | VNull => false
  end.

(* ---------- "the same value" ---------- *)
Definition abs_ns (t : ctime) : Z := ref_abs_ns (cy t) (cmo t) (cd t) (ch t) (cmi t) (cs t) (cns t).
Definition tod_ns (t : ctime) : Z := ch t * 3600000000000 + cmi t * 60000000000 + cs t * 1000000000 + cns t.
Definition ctime_eqb (a b : ctime) : bool := tree_eqb (tree_of_time a) (tree_of_time b).

(* a time of day that lies exactly on what a 1/300 s tick decodes to (whole milliseconds, tick k <-> floor(10k/3) ms) *)
Definition on_tick (ns : Z) : bool :=
  let (ms, r) := Z.div_eucl ns 1000000 in
  (r =? 0) && (let k := (3 * ms + 5) / 10 in (10 * k) / 3 =? ms).

(* less than one tick (1/300 s) apart *)
Definition within_tick (a b : Z) : bool := 300 * Z.abs (a - b) <? 1000000000.

Definition equiv (t : Z) (len : Z) (v v' : value) : bool :=
  match v, v' with
  | VDec _ _ (Some x), VDec _ s' (Some x') =>
      (x =? x') && (is_in t [t_DECN; t_NUMN] || (s' =? 4))
  | VTime a, VTime b =>
      valid_time b &&
      (if is_in t [t_DATE; t_DATEN] then ctime_eqb b (CT (cy a) (cmo a) (cd a) 0 0 0 0)
       else if is_in t [t_TIME; t_TIMEN] then
         (* the decoded value is a time of day on 0001-01-01; a time in the last half tick of the day has no
            nearest tick inside the day: the last tick (23:59:59.996) stands for it *)
         (if tod_ns a <? 86399998334000 then within_tick (abs_ns b) (tod_ns a) else abs_ns b =? 86399996000000)
         && (if on_tick (tod_ns a) then abs_ns b =? tod_ns a else true)
       else if len =? 4 then   (* smalldatetime: to the minute *)
         ctime_eqb b (CT (cy a) (cmo a) (cd a) (ch a) (cmi a) 0 0)
       else if is_in t [t_DATETIME; t_DATETIMEN] then
         within_tick (abs_ns b) (abs_ns a) && (if on_tick (tod_ns a) then abs_ns b =? abs_ns a else true)
       else if t =? t_BIGDATETIMEN then
         ctime_eqb b (CT (cy a) (cmo a) (cd a) (ch a) (cmi a) (cs a) (cns a / 1000 * 1000))
       else if t =? t_BIGTIMEN then
         ctime_eqb b (CT 1 1 1 (ch a) (cmi a) (cs a) (cns a / 1000 * 1000))
       else false)
  | _, _ => tree_eqb (tree_of_value v) (tree_of_value v')
  end.

(* what the property demands of (enc outcome, dec outcome) for input (t, len, v) *)
Definition roundtrip_ok (t len : Z) (v : value) (eo : outcome bytes) (d : option (outcome value)) : bool :=
  match v with
  | VNull =>
      if nullable t then
        match eo, d with Ok [], Some (Ok v') => is_null v' | _, _ => false end
      else true
  | VDec _ _ None =>
      (* the library's NULL of the nullable money/decimal types: zero length, and NULL again *)
      if nullable t && is_in t [t_MONEYN; t_DECN; t_NUMN] then
        match eo, d with Ok [], Some (Ok v') => is_null v' | _, _ => false end
      else true
  | _ =>
      if in_domain t v len then
        match eo, d with
        | Ok bs, Some (Ok v') =>
            bytes_ok bs && ((bytesize t =? -1) || (zlen bs =? bytesize t)) && equiv t len v v'
        | _, _ => false
        end
      else true
  end.

(* ---------- encoding is a function of the value ---------- *)
(* "the bytes the library produces for a value" / "encoding the value": for EVERY call, and the caller's value is still the
   value afterwards.  The harness builds the Go value object once, calls DataType.Bytes on it twice and renders the
   object before and after; the third component of a fn 1 output is
     (same unchanged ...)   same = 1: the second call had the outcome of the first; unchanged = 1: the object renders
                            after both calls as before; when one of them is 0 the second outcome and the renderings follow.
   enc_value is a Gallina function of an immutable value: the model's observation is the constant (1 1), compared exactly. *)
Definition pure_obs : tree := TL [TI 1; TI 1].
Definition pure_ok (p : tree) : bool := match p with TL [TI 1; TI 1] => true | _ => false end.

(* ---------- dispatch ---------- *)
Definition time_of_tree (t : tree) : ctime :=
  match value_of_tree t with Some (VTime c) => c | _ => CT 0 0 0 0 0 0 0 end.

Definition run_helper (i : tree) : tree :=
  let arg := t_nth 1 i in
  match t_int (t_nth 0 i) with
  | 1 => TI (time_to_us (time_of_tree arg))
  | 2 => tree_of_time (us_to_time (t_int arg))
  | 3 => TI (dur_from_datetime (time_of_tree arg))
  | 4 => TI (dur_from_time (time_of_tree arg))
  | 5 => TI (us_to_frac (t_int arg))
  | 6 => TI (frac_to_us (t_int arg))
  | 7 => tree_of_time (us_to_time (time_to_us (time_of_tree arg)))
  | _ => tbad
  end.

Definition run_roundtrip (i : tree) : tree :=
  let t := t_int (t_nth 0 i) in
  let len := t_int (t_nth 1 i) in
  match value_of_tree (t_nth 2 i) with
  | Some v =>
      let eo := enc_value t v len in
      TL [tree_of_outcome TB eo;
          match eo with Ok bs => tree_of_outcome tree_of_value (dec_value t bs) | _ => TL [] end;
          pure_obs]
  | None => tbad
  end.

(* value level; the dispatch of the whole property (value level + package leg) is C04/PkgLeg.v run_all / spec_all *)
Definition value_run (fn : Z) (i : tree) : tree :=
  match fn with
  | 1 => run_roundtrip i
  | 2 => tree_of_outcome tree_of_value (dec_value (t_int (t_nth 0 i)) (t_bytes (t_nth 1 i)))
  | 3 => let t := t_int i in TL [TI (bytesize t); TI (lengthbytes t); TI (reflkind t); TB (tname t)]
  | 4 => run_helper i
  | 9 => TL [t_nth 1 i; TI 0]
  | _ => tbad
  end.

Definition value_spec (fn : Z) (i o : tree) : bool :=
  match fn with
  | 1 =>
      let t := t_int (t_nth 0 i) in
      let len := t_int (t_nth 1 i) in
      match value_of_tree (t_nth 2 i), bytes_outcome_of_tree (t_nth 0 o) with
      | Some v, Some eo =>
          roundtrip_ok t len v eo
            (match t_nth 1 o with TL [] => None | d => value_outcome_of_tree d end)
          && pure_ok (t_nth 2 o)
      | _, _ => false
      end
  | 2 =>
      (* zero length is NULL for every nullable type *)
      let t := t_int (t_nth 0 i) in
      if nullable t && (zlen (t_bytes (t_nth 1 i)) =? 0) then
        match value_outcome_of_tree o with Some (Ok v) => is_null v | _ => false end
      else true
  | 3 => true
  | 4 => true
  | 9 => t_int (t_nth 1 o) =? 0
  | _ => false
  end.
