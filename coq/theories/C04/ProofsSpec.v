(* C04: the model satisfies the executable specification (Spec.roundtrip_ok) on the whole domain (Spec.in_domain)
   and for NULL of every nullable type. *)
From Coq Require Import ZArith List Bool Lia ZifyBool.
Import ListNotations.
From V Require Import Base.Tree Base.Bytes Base.BytesFacts Base.Range Gen.GenC04
  C04.GoInt C04.GoIntFacts C04.Calendar C04.Utf16 C04.Model C04.Exchange C04.RefCalendar C04.Spec
  C04.RefCalFacts C04.CalFacts C04.CalSweep C04.ProofsScalar C04.ProofsUnitext C04.ProofsTemporal.
Open Scope Z_scope.

Ltac Zify.zify_post_hook ::= Z.to_euclidean_division_equations.

Lemma list_Z_eqb_refl l : list_Z_eqb l l = true.
Proof. induction l as [|x l IH]; [reflexivity|]. cbn [list_Z_eqb]. rewrite Z.eqb_refl, IH. reflexivity. Qed.

Lemma tree_eqb_refl : forall t, tree_eqb t t = true.
Proof.
  fix IH 1. intros t. destruct t as [z|bs|l].
  - cbn. apply Z.eqb_refl.
  - cbn. apply list_Z_eqb_refl.
  - cbn [tree_eqb]. induction l as [|a l IHl]; [reflexivity|]. rewrite IH. cbn [andb]. exact IHl.
Qed.

Lemma ikind_eqb_eq a b : ikind_eqb a b = true -> a = b.
Proof. destruct a, b; cbn; intros H; try reflexivity; discriminate. Qed.

Lemma is_in_In t l : is_in t l = true -> In t l.
Proof. unfold is_in. intros H. apply existsb_exists in H. destruct H as [x [I E]]. apply Z.eqb_eq in E. subst. exact I. Qed.

Lemma is_in_or2 t a b : is_in t [a; b] = true -> t = a \/ t = b.
Proof. unfold is_in. cbn [existsb]. lia. Qed.

Lemma bytes_ok_app a b : bytes_ok a = true -> bytes_ok b = true -> bytes_ok (a ++ b) = true.
Proof. unfold bytes_ok. intros Ha Hb. rewrite forallb_app, Ha, Hb. reflexivity. Qed.

Lemma bytes_ok_units us : bytes_ok (units_to_le us) = true.
Proof.
  induction us as [|u us IH]; [reflexivity|].
  cbn [units_to_le flat_map app bytes_ok forallb]. fold (units_to_le us). fold (bytes_ok (units_to_le us)). rewrite IH.
  unfold byte_ok. pose proof (Z.mod_pos_bound u 256 ltac:(lia)). pose proof (Z.mod_pos_bound (u / 256) 256 ltac:(lia)). lia.
Qed.

Lemma bytes_ok_be_digits : forall k v acc, bytes_ok acc = true -> bytes_ok (be_digits k v acc) = true.
Proof.
  induction k as [|k IH]; intros v acc H; [exact H|].
  cbn [be_digits]. destruct (v =? 0); [exact H|]. apply IH.
  cbn [bytes_ok forallb]. fold (bytes_ok acc). rewrite H. unfold byte_ok. pose proof (Z.mod_pos_bound v 256 ltac:(lia)). lia.
Qed.

(* the final shape of roundtrip_ok once encoding and decoding results are known *)
Lemma rt_ok t len v bs v' : in_domain t v len = true -> v <> VNull ->
  (forall p s, v <> VDec p s None) ->
  enc_value t v len = Ok bs -> dec_value t bs = Ok v' ->
  bytes_ok bs = true -> (bytesize t = -1 \/ zlen bs = bytesize t) -> equiv t len v v' = true ->
  roundtrip_ok t len v (enc_value t v len) (match enc_value t v len with Ok b => Some (dec_value t b) | _ => None end) = true.
Proof.
  intros D N1 N2 E Dc B S Q. rewrite E, Dc. unfold roundtrip_ok.
  destruct v as [|k x|w b|b|b|b|c|p s [x|]|tm]; try congruence; try (exfalso; apply (N2 p s); reflexivity);
    rewrite D, B, Q; destruct S as [S|S]; rewrite S; rewrite ?Z.eqb_refl; cbn; rewrite ?orb_true_r; reflexivity.
Qed.

Lemma equiv_refl_simple t len v : (forall p s x, v <> VDec p s x) -> (forall tm, v <> VTime tm) -> equiv t len v v = true.
Proof.
  intros N1 N2. destruct v as [|k x|w b|b|b|b|c|p s x|tm]; try (exfalso; eapply N1; reflexivity); try (exfalso; eapply N2; reflexivity);
    unfold equiv; apply tree_eqb_refl.
Qed.

Lemma valid_time_midnight y m d : valid_date (y, m, d) = true -> valid_time (CT y m d 0 0 0 0) = true.
Proof. intros V. apply valid_time_iff. cbn [cy cmo cd ch cmi cs cns]. apply valid_date_iff in V. lia. Qed.

Lemma ctime_eqb_refl a : ctime_eqb a a = true.
Proof. unfold ctime_eqb. apply tree_eqb_refl. Qed.

(* a smalldatetime lies in the years 1899..2080 *)
Lemma small_ok_year tm : valid_time tm = true -> small_ok tm = true -> 1 <= cy tm <= 9999.
Proof.
  intros V S. pose proof (valid_day_le_31 tm V) as D31. apply valid_time_iff in V. destruct V as [[Vm Vd] _].
  unfold small_ok in S. rewrite ref_index_1900_eq in S. unfold ref_index, days_before_year in S.
  pose proof (dbm_bounds (cy tm) (cmo tm) ltac:(lia)). lia.
Qed.

(* decide membership facts about concrete type codes by linear arithmetic on the code numbers *)
Ltac dom_lia :=
  unfold is_in, year_ok in *; cbn [existsb] in *;
  unfold t_DATE, t_DATEN, t_TIME, t_TIMEN, t_SHORTDATE, t_DATETIME, t_DATETIMEN, t_BIGDATETIMEN, t_BIGTIMEN in *; lia.

Theorem model_meets_spec : forall t len v,
  in_domain t v len = true \/ (v = VNull /\ nullable t = true) ->
  roundtrip_ok t len v (enc_value t v len) (match enc_value t v len with Ok b => Some (dec_value t b) | _ => None end) = true.
Proof.
  intros t len v [D|[E N]].
  2:{ subst v. destruct (null_roundtrip t len N) as [En [v' [Dn I]]]. rewrite En, Dn. unfold roundtrip_ok. rewrite N. exact I. }
  destruct v as [|k x|w b|b|bs|bs|cps|p s [x|]|tm]; try (cbn in D; discriminate).
  - (* integers *)
    pose proof D as D'. cbn [in_domain] in D'. apply andb_true_iff in D'. destruct D' as [R K].
    assert (H : fixed_int_kind t = Some k \/ intn_kind t k).
    { apply orb_true_iff in K. destruct K as [K|K]; [apply orb_true_iff in K; destruct K as [K|K]|].
      - left. destruct (fixed_int_kind t) as [k'|]; [|discriminate]. apply ikind_eqb_eq in K. subst. reflexivity.
      - right. left. apply andb_true_iff in K. destruct K as [Kt Kk]. apply Z.eqb_eq in Kt.
        split; [exact Kt|]. repeat (apply orb_true_iff in Kk; destruct Kk as [Kk|Kk]); apply ikind_eqb_eq in Kk; tauto.
      - right. right. apply andb_true_iff in K. destruct K as [Kt Kk]. apply Z.eqb_eq in Kt.
        split; [exact Kt|]. repeat (apply orb_true_iff in Kk; destruct Kk as [Kk|Kk]); apply ikind_eqb_eq in Kk; tauto. }
    destruct H as [H|H].
    + destruct (int_roundtrip t k x len H R) as [bs [E [L [B Dc]]]].
      apply (rt_ok t len _ bs (VInt k x)); try assumption; try discriminate; [right; exact L|].
      apply equiv_refl_simple; discriminate.
    + destruct (intn_roundtrip t k x len H R) as [bs [E [B Dc]]].
      apply (rt_ok t len _ bs (VInt k x)); try assumption; try discriminate.
      * left. destruct H as [[Et _]|[Et _]]; subst t; reflexivity.
      * apply equiv_refl_simple; discriminate.
  - (* floats *)
    assert (H : ((t = t_FLT4 \/ t = t_FLTN) /\ w = 32 /\ 0 <= b < 2 ^ 32) \/ ((t = t_FLT8 \/ t = t_FLTN) /\ w = 64 /\ 0 <= b < 2 ^ 64)).
    { cbn [in_domain] in D. unfold in_range in D. change (2 ^ 32) with 4294967296. change (2 ^ 64) with 18446744073709551616. lia. }
    destruct (flt_roundtrip t w b len H) as [bs [E [L [B Dc]]]].
    apply (rt_ok t len _ bs (VFlt w b)); try assumption; try discriminate.
    + destruct H as [[[Et|Et] [Ew _]]|[[Et|Et] [Ew _]]]; subst t w; rewrite L; first [left; reflexivity|right; reflexivity].
    + apply equiv_refl_simple; discriminate.
  - (* bit *)
    cbn [in_domain] in D. apply Z.eqb_eq in D. subst t. destruct (bit_roundtrip b len) as [bs [E [L Dc]]].
    apply (rt_ok t_BIT len _ bs (VBool b)); try assumption; try discriminate.
    + reflexivity.
    + destruct b; vm_compute in E; inversion E; reflexivity.
    + right. exact L.
    + apply equiv_refl_simple; discriminate.
  - (* binary *)
    pose proof D as D'. cbn [in_domain] in D'. rewrite !andb_true_iff in D'. destruct D' as [[I Z0] B].
    apply is_in_In in I. assert (Hne : bs <> []) by (intros ->; cbn in Z0; discriminate).
    destruct (binary_roundtrip t bs len I Hne) as [E Dc].
    apply (rt_ok t len _ bs (VBytes bs)); try assumption; try discriminate.
    + left. unfold bin_types in I. cbn [In] in I. destruct I as [I|[I|[I|[I|[I|[]]]]]]; subst t; reflexivity.
    + apply equiv_refl_simple; discriminate.
  - (* character *)
    pose proof D as D'. cbn [in_domain] in D'. rewrite !andb_true_iff in D'. destruct D' as [[I Z0] B].
    apply is_in_In in I. assert (Hne : bs <> []) by (intros ->; cbn in Z0; discriminate).
    destruct (char_roundtrip t bs len I Hne) as [E Dc].
    apply (rt_ok t len _ bs (VStr bs)); try assumption; try discriminate.
    + left. unfold char_types in I. cbn [In] in I. destruct I as [I|[I|[I|[I|[]]]]]; subst t; reflexivity.
    + apply equiv_refl_simple; discriminate.
  - (* unitext *)
    pose proof D as D'. cbn [in_domain] in D'. rewrite !andb_true_iff in D'. destruct D' as [[I S] L].
    apply Z.eqb_eq in I. subst t. assert (Hne : cps <> []) by (intros ->; cbn in L; discriminate).
    destruct (unitext_roundtrip cps len Hne S L) as [E Dc].
    apply (rt_ok t_UNITEXT len _ (units_to_le (utf16_encode cps)) (VText cps) D); try assumption; try discriminate.
    + apply bytes_ok_units.
    + left. reflexivity.
    + apply equiv_refl_simple; discriminate.
  - (* money and decimals *)
    pose proof D as D'. cbn [in_domain] in D'. unfold in_range in D'.
    destruct (is_in t [t_DECN; t_NUMN]) eqn:IsD.
    + assert (Ht : t = t_DECN \/ t = t_NUMN) by (apply is_in_or2; exact IsD).
      destruct (numeric_roundtrip t p s x len Ht) as [bs [E [L [_ Dc]]]].
      apply (rt_ok t len _ bs (VDec 18 0 (Some x)) D); try assumption; try discriminate.
      * assert (E' : enc_value t (VDec p s (Some x)) len = Ok ((if x <? 0 then 1 else 0) :: be_min (Z.abs x))) by (destruct Ht; subst t; reflexivity).
        rewrite E' in E. inversion E; subst bs. cbn [bytes_ok forallb]. fold (bytes_ok (be_min (Z.abs x))).
        unfold be_min. rewrite bytes_ok_be_digits by reflexivity. destruct (x <? 0); reflexivity.
      * left. destruct Ht; subst t; reflexivity.
      * unfold equiv. rewrite Z.eqb_refl. replace (is_in t [t_DECN; t_NUMN]) with true by (destruct Ht; subst t; reflexivity). reflexivity.
    + rewrite andb_false_l, orb_false_r in D'. cbn [ik_range] in D'. unfold in_range in D'.
      assert (H : ((t = t_MONEY \/ t = t_MONEYN) /\ len = 8 /\ - 2 ^ 63 <= x < 2 ^ 63) \/
                  ((t = t_SHORTMONEY \/ t = t_MONEYN) /\ len = 4 /\ - 2 ^ 31 <= x < 2 ^ 31)).
      { change (2 ^ 63) with 9223372036854775808. change (2 ^ 31) with 2147483648. lia. }
      destruct H as [[Ht [El Hx]]|[Ht [El Hx]]]; subst len.
      * destruct (money8_roundtrip t p s x Ht Hx) as [bs [E [L [B Dc]]]].
        apply (rt_ok t 8 _ bs (VDec 20 4 (Some x)) D); try assumption; try discriminate.
        -- destruct Ht; subst t; [right; exact L|left; reflexivity].
        -- unfold equiv. rewrite Z.eqb_refl, IsD. reflexivity.
      * destruct (money4_roundtrip t p s x Ht Hx) as [bs [E [L [B Dc]]]].
        apply (rt_ok t 4 _ bs (VDec 10 4 (Some x)) D); try assumption; try discriminate.
        -- destruct Ht; subst t; [right; exact L|left; reflexivity].
        -- unfold equiv. rewrite Z.eqb_refl, IsD. reflexivity.
  - (* temporal *)
    pose proof D as D'. cbn [in_domain] in D'. apply andb_true_iff in D'. destruct D' as [V K].
    pose proof V as V'. apply valid_time_iff in V'. destruct V' as [[Vm Vd] [Vh [Vmi [Vs Vn]]]].
    assert (VD : valid_date (cy tm, cmo tm, cd tm) = true) by (apply valid_date_iff; lia).
    destruct (is_in t [t_DATE; t_DATEN]) eqn:IsDate.
    { assert (Ht : t = t_DATE \/ t = t_DATEN) by (apply is_in_or2; exact IsDate).
      assert (K' : len = 4 /\ 1 <= cy tm <= 9999) by dom_lia.
      destruct K' as [El Hy]. subst len.
      destruct (date_roundtrip t tm Ht V ltac:(lia)) as [E Dc].
      eapply (rt_ok t 4 _ _ _ D); try eassumption; try discriminate.
      - apply bytes_ok_le_put.
      - destruct Ht; subst t; [right; rewrite zlen_le_put; reflexivity|left; reflexivity].
      - unfold equiv. rewrite IsDate, valid_time_midnight by exact VD. apply ctime_eqb_refl. }
    destruct (is_in t [t_TIME; t_TIMEN]) eqn:IsTime.
    { assert (Ht : t = t_TIME \/ t = t_TIMEN) by (apply is_in_or2; exact IsTime).
      assert (El : len = 4) by dom_lia. subst len.
      destruct (time_roundtrip t tm Ht V) as [E [KB [tm' [Dc [V' [C [W [S [O _]]]]]]]]].
      destruct (tod_ns_bounds tm V) as [TB TU].
      assert (A : abs_ns tm' = tod_ns tm').
      { assert (C1 : cy tm' = 1) by congruence. assert (C2 : cmo tm' = 1) by congruence. assert (C3 : cd tm' = 1) by congruence.
        unfold abs_ns, ref_abs_ns, tod_ns. rewrite C1, C2, C3. change (ref_index (1, 1, 1)) with 0. lia. }
      eapply (rt_ok t 4 _ _ _ D); try eassumption; try discriminate.
      - apply bytes_ok_le_put.
      - destruct Ht; subst t; [right; rewrite zlen_le_put; reflexivity|left; reflexivity].
      - unfold equiv. rewrite IsDate, IsTime, V', A. cbn [andb].
        apply andb_true_iff. split.
        + destruct (tod_ns tm <? 86399998334000) eqn:Lt.
          * apply W. lia.
          * apply Z.eqb_eq. apply S. lia.
        + destruct (on_tick (tod_ns tm)) eqn:OT; [|reflexivity]. apply Z.eqb_eq. apply O. reflexivity. }
    destruct (len =? 4) eqn:L4.
    { apply Z.eqb_eq in L4. subst len.
      assert (Ht : t = t_SHORTDATE \/ t = t_DATETIMEN) by dom_lia.
      assert (SO : small_ok tm = true) by (destruct (small_ok tm); [reflexivity|exfalso; dom_lia]).
      pose proof (small_ok_year tm V SO) as Hy.
      assert (Hd : 0 <= ProofsTemporal.days1900 tm <= 65535).
      { unfold small_ok in SO. rewrite ref_index_1900_eq in SO. unfold ProofsTemporal.days1900. lia. }
      destruct (small_roundtrip t tm Ht V Hy Hd) as [E [L Dc]].
      eapply (rt_ok t 4 _ _ _ D); try eassumption; try discriminate.
      - unfold small_bytes. apply bytes_ok_app; apply bytes_ok_le_put.
      - destruct Ht; subst t; [right; exact L|left; reflexivity].
      - unfold equiv. rewrite IsDate, IsTime. change (4 =? 4) with true. cbv iota.
        replace (valid_time (CT (cy tm) (cmo tm) (cd tm) (ch tm) (cmi tm) 0 0)) with true
          by (symmetry; apply valid_time_iff; cbn [cy cmo cd ch cmi cs cns]; lia).
        apply ctime_eqb_refl. }
    destruct (is_in t [t_DATETIME; t_DATETIMEN]) eqn:IsDT.
    { assert (Ht : t = t_DATETIME \/ t = t_DATETIMEN) by (apply is_in_or2; exact IsDT).
      assert (K' : len = 8 /\ 1 <= cy tm <= 9999) by dom_lia.
      destruct K' as [El Hy]. subst len.
      destruct (datetime_roundtrip t tm Ht V Hy) as [E [L [tm' [Dc [V' [W O]]]]]].
      eapply (rt_ok t 8 _ _ _ D); try eassumption; try discriminate.
      - unfold datetime_bytes. destruct (us_to_frac (tod_us tm) =? 25920000); apply bytes_ok_app; apply bytes_ok_le_put.
      - destruct Ht; subst t; [right; exact L|left; reflexivity].
      - unfold equiv. rewrite IsDate, IsTime, IsDT, V', W. change (8 =? 4) with false. cbn [andb].
        destruct (on_tick (tod_ns tm)) eqn:OT; [|reflexivity]. rewrite (O eq_refl). apply Z.eqb_refl. }
    destruct (t =? t_BIGDATETIMEN) eqn:IsB.
    { assert (K' : len = 8 /\ 1 <= cy tm <= 9999) by dom_lia.
      apply Z.eqb_eq in IsB. subst t.
      destruct K' as [El Hy]. subst len.
      destruct (bigdatetime_roundtrip tm V ltac:(lia)) as [E Dc].
      eapply (rt_ok t_BIGDATETIMEN 8 _ _ _ D); try eassumption; try discriminate.
      - apply bytes_ok_le_put.
      - left. reflexivity.
      - unfold equiv. change (8 =? 4) with false. cbv iota.
        change (is_in t_BIGDATETIMEN [t_DATE; t_DATEN]) with false. change (is_in t_BIGDATETIMEN [t_TIME; t_TIMEN]) with false.
        change (is_in t_BIGDATETIMEN [t_DATETIME; t_DATETIMEN]) with false. change (t_BIGDATETIMEN =? t_BIGDATETIMEN) with true. cbv iota.
        replace (valid_time (CT (cy tm) (cmo tm) (cd tm) (ch tm) (cmi tm) (cs tm) (cns tm / 1000 * 1000))) with true
          by (symmetry; apply valid_time_iff; cbn [cy cmo cd ch cmi cs cns]; lia).
        apply ctime_eqb_refl. }
    assert (K' : t = t_BIGTIMEN /\ len = 8) by dom_lia. destruct K' as [Et El]. subst t len.
    destruct (bigtime_roundtrip tm V) as [E Dc].
    eapply (rt_ok t_BIGTIMEN 8 _ _ _ D); try eassumption; try discriminate.
    + apply bytes_ok_le_put.
    + left. reflexivity.
    + unfold equiv. change (8 =? 4) with false. cbv iota.
      change (is_in t_BIGTIMEN [t_DATE; t_DATEN]) with false. change (is_in t_BIGTIMEN [t_TIME; t_TIMEN]) with false.
      change (is_in t_BIGTIMEN [t_DATETIME; t_DATETIMEN]) with false. change (t_BIGTIMEN =? t_BIGDATETIMEN) with false.
      change (t_BIGTIMEN =? t_BIGTIMEN) with true. cbv iota.
      replace (valid_time (CT 1 1 1 (ch tm) (cmi tm) (cs tm) (cns tm / 1000 * 1000))) with true
        by (symmetry; apply valid_time_iff; cbn [cy cmo cd ch cmi cs cns]; change (month_len 1 1) with 31; lia).
      apply ctime_eqb_refl.
Qed.

(* the model's fn 1 output carries the purity observation the specification demands (enc_value is a function of an
   immutable value: a second call gives the same outcome and leaves the value alone) *)
Lemma roundtrip_model_pure i v : value_of_tree (t_nth 2 i) = Some v -> pure_ok (t_nth 2 (value_run 1 i)) = true.
Proof. intros H. change (value_run 1 i) with (run_roundtrip i). unfold run_roundtrip. rewrite H. reflexivity. Qed.
