(* C04 — field values survive encoding and decoding unchanged (value level: DataType.Bytes / GoValue).
   Property theorems only.  The model (C04/Model.v, C04/Calendar.v, C04/Utf16.v) is compared with
   asetypes/bytes.go, goValue.go and asetime on every run; RefCalendar is the independent calendar
   (next_day walking) that measures the distance between two instants. *)
From Coq Require Import ZArith List Bool Lia.
Import ListNotations.
From V Require Import Base.Tree Base.Bytes Gen.GenC04 C04.GoInt C04.Calendar C04.Utf16 C04.Model C04.Exchange
  C04.RefCalendar C04.Spec C04.RefCalFacts C04.CalFacts C04.CalSweep C04.ProofsScalar C04.ProofsUnitext C04.ProofsTemporal C04.ProofsSpec.
Open Scope Z_scope.

(* (1) fixed-width integers INT1/2/4/8, UINT2/4/8 with their Go types: every value of the type, any length
   argument; the produced bytes have the fixed size of the type. *)
Theorem C04_int_roundtrip : forall t k x len, fixed_int_kind t = Some k -> ik_range k x = true ->
  exists bs, enc_value t (VInt k x) len = Ok bs /\ zlen bs = bytesize t /\ bytes_ok bs = true /\
             dec_value t bs = Ok (VInt k x).
Proof. exact int_roundtrip. Qed.

(* (2) INTN (uint8, int16, int32, int64) and UINTN (uint8, uint16, uint32, uint64): every value of every width. *)
Theorem C04_intn_roundtrip : forall t k x len, intn_kind t k -> ik_range k x = true ->
  exists bs, enc_value t (VInt k x) len = Ok bs /\ bytes_ok bs = true /\ dec_value t bs = Ok (VInt k x).
Proof. exact intn_roundtrip. Qed.

(* (3) floats as IEEE bit patterns (NaN payloads, infinities, signed zero included): FLT4, FLT8, FLTN *)
Theorem C04_float_roundtrip : forall t w bits len,
  ((t = t_FLT4 \/ t = t_FLTN) /\ w = 32 /\ 0 <= bits < 2 ^ 32) \/
  ((t = t_FLT8 \/ t = t_FLTN) /\ w = 64 /\ 0 <= bits < 2 ^ 64) ->
  exists bs, enc_value t (VFlt w bits) len = Ok bs /\ zlen bs = w / 8 /\ bytes_ok bs = true /\
             dec_value t bs = Ok (VFlt w bits).
Proof. exact flt_roundtrip. Qed.

(* (4) BIT *)
Theorem C04_bit_roundtrip : forall b len,
  exists bs, enc_value t_BIT (VBool b) len = Ok bs /\ zlen bs = 1 /\ dec_value t_BIT bs = Ok (VBool b).
Proof. exact bit_roundtrip. Qed.

(* (5) money: the whole int64 range for MONEY / MONEYN(8), the whole int32 range for SHORTMONEY / MONEYN(4);
   the decoded Decimal carries the money precision and scale 4 *)
Theorem C04_money_roundtrip : forall t p s x, (t = t_MONEY \/ t = t_MONEYN) -> - 2 ^ 63 <= x < 2 ^ 63 ->
  exists bs, enc_value t (VDec p s (Some x)) 8 = Ok bs /\ zlen bs = 8 /\ bytes_ok bs = true /\
             dec_value t bs = Ok (VDec 20 4 (Some x)).
Proof. exact money8_roundtrip. Qed.
Theorem C04_shortmoney_roundtrip : forall t p s x, (t = t_SHORTMONEY \/ t = t_MONEYN) -> - 2 ^ 31 <= x < 2 ^ 31 ->
  exists bs, enc_value t (VDec p s (Some x)) 4 = Ok bs /\ zlen bs = 4 /\ bytes_ok bs = true /\
             dec_value t bs = Ok (VDec 10 4 (Some x)).
Proof. exact money4_roundtrip. Qed.

(* (6) DECN / NUMN: EVERY integer x (no bound on the magnitude), any precision/scale/length argument; precision and
   scale are not on the wire (the decoder answers 18, 0; they travel in the format) *)
Theorem C04_numeric_roundtrip : forall t p s x len, (t = t_DECN \/ t = t_NUMN) ->
  exists bs, enc_value t (VDec p s (Some x)) len = Ok bs /\ 1 <= zlen bs /\
             hd 0 bs = (if x <? 0 then 1 else 0) /\
             dec_value t bs = Ok (VDec 18 0 (Some x)).
Proof. exact numeric_roundtrip. Qed.

(* (7) character and binary types: every non-empty byte string, of any length *)
Theorem C04_char_roundtrip : forall t bs len, In t char_types -> bs <> [] ->
  enc_value t (VStr bs) len = Ok bs /\ dec_value t bs = Ok (VStr bs).
Proof. exact char_roundtrip. Qed.
Theorem C04_binary_roundtrip : forall t bs len, In t bin_types -> bs <> [] ->
  enc_value t (VBytes bs) len = Ok bs /\ dec_value t bs = Ok (VBytes bs).
Proof. exact binary_roundtrip. Qed.

(* (8) UNITEXT: every non-empty list of Unicode scalar values (all planes) that does not end in U+0000 *)
Theorem C04_unitext_roundtrip : forall cps len, cps <> [] -> forallb is_scalar cps = true -> last_nonzero cps = true ->
  enc_value t_UNITEXT (VText cps) len = Ok (units_to_le (utf16_encode cps)) /\
  dec_value t_UNITEXT (units_to_le (utf16_encode cps)) = Ok (VText cps).
Proof. exact unitext_roundtrip. Qed.

(* (9) DATE / DATEN: every day of the years 1..9999 (the proof covers 10000 too), whatever the time part *)
Theorem C04_date_roundtrip : forall t tm, (t = t_DATE \/ t = t_DATEN) -> valid_time tm = true -> 1 <= cy tm <= 9999 ->
  exists bs, enc_value t (VTime tm) 4 = Ok bs /\ zlen bs = 4 /\
             dec_value t bs = Ok (VTime (CT (cy tm) (cmo tm) (cd tm) 0 0 0 0)).
Proof.
  intros t tm Ht V Hy. destruct (date_roundtrip t tm Ht V ltac:(lia)) as [E D].
  eexists. split; [exact E|]. split; [apply GoIntFacts.zlen_le_put|exact D].
Qed.

(* (10) DATETIME / DATETIMEN(8): every nanosecond of every day of the years 1..9999: the decoded instant is a valid
   time less than 1/300 s away (measured with the reference calendar), and identical when the value lies on a tick *)
Theorem C04_datetime_tick : forall t tm, (t = t_DATETIME \/ t = t_DATETIMEN) -> valid_time tm = true -> 1 <= cy tm <= 9999 ->
  exists bs tm', enc_value t (VTime tm) 8 = Ok bs /\ zlen bs = 8 /\
                 dec_value t bs = Ok (VTime tm') /\ valid_time tm' = true /\
                 300 * Z.abs (abs_ns tm' - abs_ns tm) < 1000000000 /\
                 (on_tick (tod_ns tm) = true -> tm' = tm).
Proof.
  intros t tm Ht V Hy. destruct (datetime_roundtrip t tm Ht V Hy) as [E [L [tm' [D [V' [W O]]]]]].
  exists (datetime_bytes tm), tm'. repeat split; try assumption.
  unfold within_tick in W. apply Z.ltb_lt in W. exact W.
Qed.

(* (11) SHORTDATE / DATETIMEN(4): days 0..65535 since 1900-01-01 x every minute (seconds are dropped) *)
Theorem C04_smalldatetime : forall t tm, (t = t_SHORTDATE \/ t = t_DATETIMEN) -> valid_time tm = true -> 1 <= cy tm <= 9999 ->
  0 <= ref_index (cy tm, cmo tm, cd tm) - ref_index_1900 <= 65535 ->
  exists bs, enc_value t (VTime tm) 4 = Ok bs /\ zlen bs = 4 /\
             dec_value t bs = Ok (VTime (CT (cy tm) (cmo tm) (cd tm) (ch tm) (cmi tm) 0 0)).
Proof.
  intros t tm Ht V Hy Hd. rewrite ref_index_1900_eq in Hd.
  destruct (small_roundtrip t tm Ht V Hy Hd) as [E [L D]]. eexists. split; [exact E|]. split; [exact L|exact D].
Qed.

(* (12) BIGDATETIMEN / BIGTIMEN: exact to the microsecond (the part below a microsecond is dropped) *)
Theorem C04_bigdatetime_us : forall tm, valid_time tm = true -> 1 <= cy tm <= 9999 ->
  exists bs, enc_value t_BIGDATETIMEN (VTime tm) 8 = Ok bs /\ zlen bs = 8 /\
    dec_value t_BIGDATETIMEN bs = Ok (VTime (CT (cy tm) (cmo tm) (cd tm) (ch tm) (cmi tm) (cs tm) (cns tm / 1000 * 1000))).
Proof.
  intros tm V Hy. destruct (bigdatetime_roundtrip tm V ltac:(lia)) as [E D].
  eexists. split; [exact E|]. split; [apply GoIntFacts.zlen_le_put|exact D].
Qed.
Theorem C04_bigtime_us : forall tm, valid_time tm = true ->
  exists bs, enc_value t_BIGTIMEN (VTime tm) 8 = Ok bs /\ zlen bs = 8 /\
    dec_value t_BIGTIMEN bs = Ok (VTime (CT 1 1 1 (ch tm) (cmi tm) (cs tm) (cns tm / 1000 * 1000))).
Proof.
  intros tm V. destruct (bigtime_roundtrip tm V) as [E D].
  eexists. split; [exact E|]. split; [apply GoIntFacts.zlen_le_put|exact D].
Qed.

(* (13) TIME / TIMEN: every nanosecond of the day: a valid tick count below 25 920 000, decoding to a time of day on
   0001-01-01 less than 1/300 s away; in the last half tick of the day (no nearest tick inside the day) the last
   tick 23:59:59.996 stands for the value; identical when the value lies on a tick *)
Theorem C04_time_tick : forall t tm, (t = t_TIME \/ t = t_TIMEN) -> valid_time tm = true ->
  exists bs tm', enc_value t (VTime tm) 4 = Ok bs /\ zlen bs = 4 /\
    dec_value t bs = Ok (VTime tm') /\ valid_time tm' = true /\ (cy tm', cmo tm', cd tm') = (1, 1, 1) /\
    (tod_us tm < 86399998334 -> 300 * Z.abs (tod_ns tm' - tod_ns tm) < 1000000000) /\
    (86399998334 <= tod_us tm -> tod_ns tm' = 86399996000000) /\
    (on_tick (tod_ns tm) = true -> tod_ns tm' = tod_ns tm).
Proof.
  intros t tm Ht V. destruct (time_roundtrip t tm Ht V) as [E [K [tm' [D [V' [C [W [S [O _]]]]]]]]].
  exists (GoInt.le_put 4 (time_ticks tm)), tm'. repeat split; try assumption.
  - apply GoIntFacts.zlen_le_put.
  - intros H. specialize (W H). unfold within_tick in W. apply Z.ltb_lt in W. exact W.
Qed.

(* (14) NULL: for every nullable type (LengthBytes known and a Go mapping exists; all 256 type codes swept) nil encodes to
   zero length and zero length decodes to NULL; the library's own NULL of MONEYN/DECN/NUMN (a Decimal without a value)
   encodes to zero length again *)
Theorem C04_null : forall t len, nullable t = true ->
  enc_value t VNull len = Ok [] /\ exists v, dec_value t [] = Ok v /\ is_null v = true.
Proof. exact null_roundtrip. Qed.
Theorem C04_null_decimal : forall t p s len, (t = t_MONEYN \/ t = t_DECN \/ t = t_NUMN) ->
  dec_value t [] = Ok (VDec 0 0 None) /\ enc_value t (VDec p s None) len = Ok [].
Proof. exact null_decimal_roundtrip. Qed.

(* (15) the calendar of the model is the reference calendar: the model's day arithmetic inverts itself on every valid
   date of every year, and the reference day number is the number of next_day steps from 0001-01-01 *)
Theorem C04_civil_inverse : forall y m d, 1 <= m <= 12 -> 1 <= d <= month_len y m ->
  civil_of_days (days_of_civil y m d) = (y, m, d).
Proof. exact civil_of_days_of_civil. Qed.
Theorem C04_ref_index_is_walk : forall n, ref_index (walk n (1, 1, 1)) = Z.of_nat n /\ valid_date (walk n (1, 1, 1)) = true.
Proof. exact ref_index_walk. Qed.

(* (16) summary: on the WHOLE domain of the property (Spec.in_domain: DESIGN Appendix C) and for NULL of every nullable
   type, the model satisfies the executable round-trip specification that every run applies to the implementation's
   output (produced bytes are bytes, fixed-size types produce their size, the decoded value is the same value: exact or to
   the tick).  Together with the correspondence run (model = implementation) this is the property on all inputs. *)
Theorem C04_model_meets_spec : forall t len v,
  in_domain t v len = true \/ (v = VNull /\ nullable t = true) ->
  roundtrip_ok t len v (enc_value t v len) (match enc_value t v len with Ok b => Some (dec_value t b) | _ => None end) = true.
Proof. exact model_meets_spec. Qed.

(* non-vacuity: concrete members of the domains, with the bytes *)
Example C04_ex_int : enc_value t_INT4 (VInt I32 (-2)) 4 = Ok [254; 255; 255; 255] /\ dec_value t_INT4 [254; 255; 255; 255] = Ok (VInt I32 (-2)).
Proof. split; vm_compute; reflexivity. Qed.
Example C04_ex_unitext : enc_value t_UNITEXT (VText [97; 233; 8364; 128512]) 0 = Ok [97; 0; 233; 0; 172; 32; 61; 216; 0; 222]
  /\ dec_value t_UNITEXT [97; 0; 233; 0; 172; 32; 61; 216; 0; 222] = Ok (VText [97; 233; 8364; 128512]).
Proof. split; vm_compute; reflexivity. Qed.
Example C04_ex_pre1900 : enc_value t_DATETIME (VTime (CT 1899 12 31 12 0 0 0)) 8 = Ok [255; 255; 255; 255; 0; 193; 197; 0]
  /\ dec_value t_DATETIME [255; 255; 255; 255; 0; 193; 197; 0] = Ok (VTime (CT 1899 12 31 12 0 0 0)).
Proof. split; vm_compute; reflexivity. Qed.
Example C04_ex_carry : enc_value t_DATETIME (VTime (CT 1999 12 31 23 59 59 999000000)) 8 = Ok [172; 142; 0; 0; 0; 0; 0; 0]
  /\ dec_value t_DATETIME [172; 142; 0; 0; 0; 0; 0; 0] = Ok (VTime (CT 2000 1 1 0 0 0 0)).
Proof. split; vm_compute; reflexivity. Qed.
Example C04_ex_time_last : enc_value t_TIME (VTime (CT 1 1 1 23 59 59 999000000)) 4 = Ok [255; 129; 139; 1]
  /\ dec_value t_TIME [255; 129; 139; 1] = Ok (VTime (CT 1 1 1 23 59 59 996000000)).
Proof. split; vm_compute; reflexivity. Qed.
Example C04_ex_domain : in_domain t_DATETIME (VTime (CT 1 1 1 0 0 0 0)) 8 = true /\ in_domain t_DATETIME (VTime (CT 9999 12 31 23 59 59 999999999)) 8 = true
  /\ nullable t_INTN = true /\ nullable t_UNITEXT = true /\ nullable t_INT4 = false.
Proof. repeat split; vm_compute; reflexivity. Qed.
(* the constants of the code the model writes as literals *)
Example C04_constants : c_day_us = day_us /\ c_minute_us = 60000000 /\ c_millisecond_us = 1000 /\
  c_epoch1900 = (1900, 1, 1) /\ c_epoch_ratadie = (1, 1, 1) /\
  (c_dec_default_precision, c_dec_default_scale, c_money_precision, c_money_scale, c_shortmoney_precision, c_shortmoney_scale) = (18, 0, 20, 4, 10, 4).
Proof. repeat split; reflexivity. Qed.

Print Assumptions C04_int_roundtrip.
Print Assumptions C04_intn_roundtrip.
Print Assumptions C04_float_roundtrip.
Print Assumptions C04_bit_roundtrip.
Print Assumptions C04_money_roundtrip.
Print Assumptions C04_shortmoney_roundtrip.
Print Assumptions C04_numeric_roundtrip.
Print Assumptions C04_char_roundtrip.
Print Assumptions C04_binary_roundtrip.
Print Assumptions C04_unitext_roundtrip.
Print Assumptions C04_date_roundtrip.
Print Assumptions C04_datetime_tick.
Print Assumptions C04_smalldatetime.
Print Assumptions C04_bigdatetime_us.
Print Assumptions C04_bigtime_us.
Print Assumptions C04_time_tick.
Print Assumptions C04_null.
Print Assumptions C04_null_decimal.
Print Assumptions C04_civil_inverse.
Print Assumptions C04_ref_index_is_walk.
Print Assumptions C04_model_meets_spec.
