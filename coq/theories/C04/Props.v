(* C04 — field values survive encoding and decoding unchanged (value level: DataType.Bytes / GoValue).
   Property theorems only.  The model (C04/Model.v, C04/Calendar.v, C04/Utf16.v) is compared with
   asetypes/bytes.go, goValue.go and asetime on every run; RefCalendar is the independent calendar
   (next_day walking) that measures the distance between two instants. *)
From Coq Require Import ZArith List Bool Lia.
Import ListNotations.
From V Require Import Base.Tree Base.Bytes Gen.GenC04 C04.GoInt C04.Calendar C04.Utf16 C04.Model C04.Exchange
  C04.RefCalendar C04.Spec C04.RefCalFacts C04.CalFacts C04.CalSweep C04.ProofsScalar C04.ProofsUnitext C04.ProofsTemporal C04.ProofsSpec.
(* package leg: the field-data / PARAMS / ROW codec of the package layer and its composition with the value codec *)
From V Require Import Base.Parser Pkg.GenTypes Gen.GenPkg Pkg.Field Pkg.Fmts C04.PkgLeg C04.PkgLegProofs.
Open Scope Z_scope.

(* (1) fixed-width integers INT1/2/4/8, UINT2/4/8 with their Go types: every value of the type, any length
   argument; the produced bytes have the fixed size of the type. *)
Theorem C04_int_roundtrip : forall t k x len, fixed_int_kind t = Some k -> ik_range k x = true ->
  exists bs, enc_value t (VInt k x) len = Ok bs /\ zlen bs = bytesize t /\ bytes_ok bs = true /\
             dec_value t bs = Ok (VInt k x).
Proof. exact int_roundtrip. Qed.

(* (2) INTN (uint8, int16, int32, int64) and UINTN (uint8, uint16, uint32, uint64): every value of every width. *)
Theorem C04_intn_roundtrip : forall t k x len, intn_kind t k -> ik_range k x = true ->
  exists bs, enc_value t (VInt k x) len = Ok bs /\ bytes_ok bs = true /\ dec_value t bs = Ok (VInt k x).
Proof. exact intn_roundtrip. Qed.

(* (3) floats as IEEE bit patterns (NaN payloads, infinities, signed zero included): FLT4, FLT8, FLTN *)
Theorem C04_float_roundtrip : forall t w bits len,
  ((t = t_FLT4 \/ t = t_FLTN) /\ w = 32 /\ 0 <= bits < 2 ^ 32) \/
  ((t = t_FLT8 \/ t = t_FLTN) /\ w = 64 /\ 0 <= bits < 2 ^ 64) ->
  exists bs, enc_value t (VFlt w bits) len = Ok bs /\ zlen bs = w / 8 /\ bytes_ok bs = true /\
             dec_value t bs = Ok (VFlt w bits).
Proof. exact flt_roundtrip. Qed.

(* (4) BIT *)
Theorem C04_bit_roundtrip : forall b len,
  exists bs, enc_value t_BIT (VBool b) len = Ok bs /\ zlen bs = 1 /\ dec_value t_BIT bs = Ok (VBool b).
Proof. exact bit_roundtrip. Qed.

(* (5) money: the whole int64 range for MONEY / MONEYN(8), the whole int32 range for SHORTMONEY / MONEYN(4);
   the decoded Decimal carries the money precision and scale 4 *)
Theorem C04_money_roundtrip : forall t p s x, (t = t_MONEY \/ t = t_MONEYN) -> - 2 ^ 63 <= x < 2 ^ 63 ->
  exists bs, enc_value t (VDec p s (Some x)) 8 = Ok bs /\ zlen bs = 8 /\ bytes_ok bs = true /\
             dec_value t bs = Ok (VDec 20 4 (Some x)).
Proof. exact money8_roundtrip. Qed.
Theorem C04_shortmoney_roundtrip : forall t p s x, (t = t_SHORTMONEY \/ t = t_MONEYN) -> - 2 ^ 31 <= x < 2 ^ 31 ->
  exists bs, enc_value t (VDec p s (Some x)) 4 = Ok bs /\ zlen bs = 4 /\ bytes_ok bs = true /\
             dec_value t bs = Ok (VDec 10 4 (Some x)).
Proof. exact money4_roundtrip. Qed.

(* (6) DECN / NUMN: EVERY integer x (no bound on the magnitude), any precision/scale/length argument; precision and
   scale are not on the wire (the decoder answers 18, 0; they travel in the format) *)
Theorem C04_numeric_roundtrip : forall t p s x len, (t = t_DECN \/ t = t_NUMN) ->
  exists bs, enc_value t (VDec p s (Some x)) len = Ok bs /\ 1 <= zlen bs /\
             hd 0 bs = (if x <? 0 then 1 else 0) /\
             dec_value t bs = Ok (VDec 18 0 (Some x)).
Proof. exact numeric_roundtrip. Qed.

(* (7) character and binary types: every non-empty byte string, of any length *)
Theorem C04_char_roundtrip : forall t bs len, In t char_types -> bs <> [] ->
  enc_value t (VStr bs) len = Ok bs /\ dec_value t bs = Ok (VStr bs).
Proof. exact char_roundtrip. Qed.
Theorem C04_binary_roundtrip : forall t bs len, In t bin_types -> bs <> [] ->
  enc_value t (VBytes bs) len = Ok bs /\ dec_value t bs = Ok (VBytes bs).
Proof. exact binary_roundtrip. Qed.

(* (8) UNITEXT: every non-empty list of Unicode scalar values (all planes) that does not end in U+0000 *)
Theorem C04_unitext_roundtrip : forall cps len, cps <> [] -> forallb is_scalar cps = true -> last_nonzero cps = true ->
  enc_value t_UNITEXT (VText cps) len = Ok (units_to_le (utf16_encode cps)) /\
  dec_value t_UNITEXT (units_to_le (utf16_encode cps)) = Ok (VText cps).
Proof. exact unitext_roundtrip. Qed.

(* (9) DATE / DATEN: every day of the years 1..9999 (the proof covers 10000 too), whatever the time part *)
Theorem C04_date_roundtrip : forall t tm, (t = t_DATE \/ t = t_DATEN) -> valid_time tm = true -> 1 <= cy tm <= 9999 ->
  exists bs, enc_value t (VTime tm) 4 = Ok bs /\ zlen bs = 4 /\
             dec_value t bs = Ok (VTime (CT (cy tm) (cmo tm) (cd tm) 0 0 0 0)).
Proof.
  intros t tm Ht V Hy. destruct (date_roundtrip t tm Ht V ltac:(lia)) as [E D].
  eexists. split; [exact E|]. split; [apply GoIntFacts.zlen_le_put|exact D].
Qed.

(* (10) DATETIME / DATETIMEN(8): every nanosecond of every day of the years 1..9999: the decoded instant is a valid
   time less than 1/300 s away (measured with the reference calendar), and identical when the value lies on a tick *)
Theorem C04_datetime_tick : forall t tm, (t = t_DATETIME \/ t = t_DATETIMEN) -> valid_time tm = true -> 1 <= cy tm <= 9999 ->
  exists bs tm', enc_value t (VTime tm) 8 = Ok bs /\ zlen bs = 8 /\
                 dec_value t bs = Ok (VTime tm') /\ valid_time tm' = true /\
                 300 * Z.abs (abs_ns tm' - abs_ns tm) < 1000000000 /\
                 (on_tick (tod_ns tm) = true -> tm' = tm).
Proof.
  intros t tm Ht V Hy. destruct (datetime_roundtrip t tm Ht V Hy) as [E [L [tm' [D [V' [W O]]]]]].
  exists (datetime_bytes tm), tm'. repeat split; try assumption.
  unfold within_tick in W. apply Z.ltb_lt in W. exact W.
Qed.

(* (11) SHORTDATE / DATETIMEN(4): days 0..65535 since 1900-01-01 x every minute (seconds are dropped) *)
Theorem C04_smalldatetime : forall t tm, (t = t_SHORTDATE \/ t = t_DATETIMEN) -> valid_time tm = true -> 1 <= cy tm <= 9999 ->
  0 <= ref_index (cy tm, cmo tm, cd tm) - ref_index_1900 <= 65535 ->
  exists bs, enc_value t (VTime tm) 4 = Ok bs /\ zlen bs = 4 /\
             dec_value t bs = Ok (VTime (CT (cy tm) (cmo tm) (cd tm) (ch tm) (cmi tm) 0 0)).
Proof.
  intros t tm Ht V Hy Hd. rewrite ref_index_1900_eq in Hd.
  destruct (small_roundtrip t tm Ht V Hy Hd) as [E [L D]]. eexists. split; [exact E|]. split; [exact L|exact D].
Qed.

(* (12) BIGDATETIMEN / BIGTIMEN: exact to the microsecond (the part below a microsecond is dropped) *)
Theorem C04_bigdatetime_us : forall tm, valid_time tm = true -> 1 <= cy tm <= 9999 ->
  exists bs, enc_value t_BIGDATETIMEN (VTime tm) 8 = Ok bs /\ zlen bs = 8 /\
    dec_value t_BIGDATETIMEN bs = Ok (VTime (CT (cy tm) (cmo tm) (cd tm) (ch tm) (cmi tm) (cs tm) (cns tm / 1000 * 1000))).
Proof.
  intros tm V Hy. destruct (bigdatetime_roundtrip tm V ltac:(lia)) as [E D].
  eexists. split; [exact E|]. split; [apply GoIntFacts.zlen_le_put|exact D].
Qed.
Theorem C04_bigtime_us : forall tm, valid_time tm = true ->
  exists bs, enc_value t_BIGTIMEN (VTime tm) 8 = Ok bs /\ zlen bs = 8 /\
    dec_value t_BIGTIMEN bs = Ok (VTime (CT 1 1 1 (ch tm) (cmi tm) (cs tm) (cns tm / 1000 * 1000))).
Proof.
  intros tm V. destruct (bigtime_roundtrip tm V) as [E D].
  eexists. split; [exact E|]. split; [apply GoIntFacts.zlen_le_put|exact D].
Qed.

(* (13) TIME / TIMEN: every nanosecond of the day: a valid tick count below 25 920 000, decoding to a time of day on
   0001-01-01 less than 1/300 s away; in the last half tick of the day (no nearest tick inside the day) the last
   tick 23:59:59.996 stands for the value; identical when the value lies on a tick *)
Theorem C04_time_tick : forall t tm, (t = t_TIME \/ t = t_TIMEN) -> valid_time tm = true ->
  exists bs tm', enc_value t (VTime tm) 4 = Ok bs /\ zlen bs = 4 /\
    dec_value t bs = Ok (VTime tm') /\ valid_time tm' = true /\ (cy tm', cmo tm', cd tm') = (1, 1, 1) /\
    (tod_us tm < 86399998334 -> 300 * Z.abs (tod_ns tm' - tod_ns tm) < 1000000000) /\
    (86399998334 <= tod_us tm -> tod_ns tm' = 86399996000000) /\
    (on_tick (tod_ns tm) = true -> tod_ns tm' = tod_ns tm).
Proof.
  intros t tm Ht V. destruct (time_roundtrip t tm Ht V) as [E [K [tm' [D [V' [C [W [S [O _]]]]]]]]].
  exists (GoInt.le_put 4 (time_ticks tm)), tm'. repeat split; try assumption.
  - apply GoIntFacts.zlen_le_put.
  - intros H. specialize (W H). unfold within_tick in W. apply Z.ltb_lt in W. exact W.
Qed.

(* (14) NULL: for every nullable type (LengthBytes known and a Go mapping exists; all 256 type codes swept) nil encodes to
   zero length and zero length decodes to NULL; the library's own NULL of MONEYN/DECN/NUMN (a Decimal without a value)
   encodes to zero length again *)
Theorem C04_null : forall t len, nullable t = true ->
  enc_value t VNull len = Ok [] /\ exists v, dec_value t [] = Ok v /\ is_null v = true.
Proof. exact null_roundtrip. Qed.
Theorem C04_null_decimal : forall t p s len, (t = t_MONEYN \/ t = t_DECN \/ t = t_NUMN) ->
  dec_value t [] = Ok (VDec 0 0 None) /\ enc_value t (VDec p s None) len = Ok [].
Proof. exact null_decimal_roundtrip. Qed.

(* (15) the calendar of the model is the reference calendar: the model's day arithmetic inverts itself on every valid
   date of every year, and the reference day number is the number of next_day steps from 0001-01-01 *)
Theorem C04_civil_inverse : forall y m d, 1 <= m <= 12 -> 1 <= d <= month_len y m ->
  civil_of_days (days_of_civil y m d) = (y, m, d).
Proof. exact civil_of_days_of_civil. Qed.
Theorem C04_ref_index_is_walk : forall n, ref_index (walk n (1, 1, 1)) = Z.of_nat n /\ valid_date (walk n (1, 1, 1)) = true.
Proof. exact ref_index_walk. Qed.

(* (16) summary: on the WHOLE domain of the property (Spec.in_domain: DESIGN Appendix C) and for NULL of every nullable
   type, the model satisfies the executable round-trip specification that every run applies to the implementation's
   output (produced bytes are bytes, fixed-size types produce their size, the decoded value is the same value: exact or to
   the tick).  Together with the correspondence run (model = implementation) this is the property on all inputs. *)
Theorem C04_model_meets_spec : forall t len v,
  in_domain t v len = true \/ (v = VNull /\ nullable t = true) ->
  roundtrip_ok t len v (enc_value t v len) (match enc_value t v len with Ok b => Some (dec_value t b) | _ => None end) = true.
Proof. exact model_meets_spec. Qed.

(* (16b) "encoding the value": for every call on the value, and the caller's value stays the value.  Every run calls
   DataType.Bytes twice on the SAME Go value object and renders the object before and after; the model (a function of an
   immutable value) answers the constant observation (1 1) = (second outcome equals the first, object unchanged),
   compared exactly with the implementation, and the specification of fn 1 demands it on every case. *)
Theorem C04_model_pure : forall i v, value_of_tree (t_nth 2 i) = Some v -> pure_ok (t_nth 2 (value_run 1 i)) = true.
Proof. exact roundtrip_model_pure. Qed.
(* non-vacuity: the model's output for -123.45 as NUMN meets the specification; the same round trip with a second
   encoding that differs / a changed value object does not *)
Example C04_ex_second_call :
  let i := TL [TI t_NUMN; TI 0; tree_of_value (VDec 5 2 (Some (-12345)))] in
  let pos := tree_of_value (VDec 5 2 (Some 12345)) in
  value_spec 1 i (value_run 1 i) = true /\
  value_spec 1 i (TL [t_nth 0 (value_run 1 i); t_nth 1 (value_run 1 i); TL [TI 0; TI 0; TL [TI 0; TB [0; 48; 57]]; pos; pos]]) = false.
Proof. split; vm_compute; reflexivity. Qed.

(* ------------------------------------------------------------------------------------------------------------
   PACKAGE LEG: "The same holds when the value travels inside a parameter or row package together with its format."
   A column is (format, status byte, [text pointer, timestamp,] Go value).  PkgLeg.col_claim is the boolean domain:
   the data type code is a byte, the value lies in the value-level domain Spec.in_domain for the format's maximum
   length (or is NULL of a nullable type), DECN/NUMN values carry the precision/scale of their format, the status fits
   its byte, and THE ENCODED VALUE FITS THE WIDTH OF ITS LENGTH PREFIX (zlen < 256^LengthBytes; fixed-length types
   have no prefix; text-pointer data < 2^32, pointer < 256, timestamp = 8 bytes).  Beyond that bound the writer
   truncates the length silently (uint8(len)): outside the property's domain, see C04_ex_pkg_overlong.

   (17) the composition, for whole rows (any number of columns, any mix of types, PARAMS or ROW token), by induction
   over the column list from Pkg.CoreRoundtrip.params_roundtrip and C04_model_meets_spec: the package the writer
   produces for the columns (leg_write: every value encoded by enc_value with the format's maximum length, framed by
   status byte / length prefix / text-pointer header as Pkg.Field.enc_fdata says) is read back by the package decoder
   with the formats as context, field by field, consuming exactly the bytes written whatever follows; every field has
   the status sent, its data are the encoded value, NULL travels as zero length, and the value decoder maps the data
   back to the value: exactly, or to the tick, as Spec.roundtrip_ok says.  For the text-pointer family
   (TEXT/IMAGE/UNITEXT/XML), which a client never sends, this is the decode direction: the body is the layout of a
   reference-encoded row. *)
Theorem C04_pkg_roundtrip : forall tok cs, forallb col_claim cs = true ->
  exists ds body,
    leg_write tok cs = Ok (tok :: body) /\
    (forall r, dec_params (Some (map c_fmt cs)) (body ++ r) = POk ds r) /\
    Forall2 (fun c d =>
      let t := f_dt (c_fmt c) in let len := f_maxlen (c_fmt c) in
      enc_value t (c_val c) len = Ok (v_data d) /\ v_status d = c_status c /\
      v_txtptr d = c_txtptr c /\ v_timestamp d = c_ts c /\
      (c_val c = VNull -> v_data d = []) /\
      exists v', dec_value t (v_data d) = Ok v' /\ roundtrip_ok t len (c_val c) (Ok (v_data d)) (Some (Ok v')) = true) cs ds.
Proof. exact pkg_roundtrip_explicit. Qed.

(* (18) the model of what the library does (leg_write; then leg_read = package decoder + FieldData.Value(): GoValue of the data,
   precision/scale of DECN/NUMN taken from the format, RAW data bytes for text-pointer fields) satisfies the executable
   specification leg_judge that every run applies to the implementation's output:
   - for every claimed row: the framing is the layout, all bytes are consumed, statuses arrive, and (val_raw_ok) text-pointer
     fields deliver exactly the data bytes, which dec_value maps back to the value;
   - strictly (val_ok: Value() IS the value, exactly or to the tick; DECN/NUMN with the format's precision/scale; NULL is NULL)
     for rows of plain, precision/scale and IMAGE/XML columns. *)
Theorem C04_pkg_model_meets_spec : forall tok cs, forallb col_claim cs = true ->
  exists wire, leg_write tok cs = Ok wire /\
    leg_judge val_raw_ok tok cs wire (leg_read (map c_fmt cs) (tl wire)) = true /\
    (forallb col_strict cs = true -> leg_judge val_ok tok cs wire (leg_read (map c_fmt cs) (tl wire)) = true).
Proof. exact pkg_model_meets_spec. Qed.

(* (19) REFUTED for the text-pointer family on the current code: the strict statement for ALL claimed rows is false of the
   faithful model, because fieldDataTxtPtr.ReadFrom stores the raw data bytes as the value and never runs GoValue: a UNITEXT
   column delivers UTF-16LE bytes instead of the string, a TEXT column a []byte instead of a string, NULL a non-nil empty
   []byte.  Witnesses by computation; recorded as known findings (fn 21, classes pkg-txtptr-unitext/-text/-null).
   What holds instead is (17) and the val_raw_ok half of (18). *)
Theorem C04_pkg_txtptr_refuted :
  ~ (forall tok cs, forallb col_claim cs = true ->
       exists wire, leg_write tok cs = Ok wire /\ leg_judge val_ok tok cs wire (leg_read (map c_fmt cs) (tl wire)) = true).
Proof. exact pkg_strict_refuted. Qed.
Theorem C04_pkg_txtptr_witnesses :
  forall c, In c [ex_txtptr t_UNITEXT (VText [97; 233]); ex_txtptr t_TEXT (VStr [97; 98; 99]); ex_txtptr t_IMAGE VNull] ->
  col_claim c = true /\
  exists wire, leg_write 209 [c] = Ok wire /\ leg_judge val_ok 209 [c] wire (leg_read [c_fmt c] (tl wire)) = false.
Proof. exact pkg_txtptr_refuted_witness. Qed.

(* (20) "every format entry whose declared max length admits the encoded value": a declared maximum that the prefix can
   express and that is not exceeded by the encoded value implies the prefix side condition of col_claim *)
Theorem C04_pkg_maxlen_admits : forall c,
  let f := c_fmt c in let t := f_dt f in
  0 <= t < 256 -> data_class t = 1 \/ data_class t = 2 ->
  in_domain t (c_val c) (f_maxlen f) = true \/ null_in t (c_val c) = true ->
  (if has_colstatus f then 0 <= c_status c < 256 else c_status c = 0) ->
  (forall p s x, c_val c = VDec p s (Some x) -> data_class t = 2 -> p = f_prec f /\ s = f_scale f) ->
  c_txtptr c = [] -> c_ts c = [] ->
  maxlen_admits c = true -> col_claim c = true.
Proof. exact maxlen_admits_claim. Qed.

(* (21) table obligations re-proved against the regenerated tables on every run: the two tabulations of ByteSize / LengthBytes
   (Gen/GenC04.v, Gen/GenPkg.v) agree on all 256 type codes; whenever the model's GoValue succeeds on the data of a plain or
   precision/scale field, the package layer's "GoValue succeeds for this length" table lets the field through; nullable types
   are not fixed-length; the precision/scale field class is exactly DECN/NUMN *)
Theorem C04_pkg_tables_agree : forall t, 0 <= t < 256 -> bytesize t = byte_size t.
Proof. exact bytesize_byte_size. Qed.
Theorem C04_pkg_len_table_covers : forall t bs v, 0 <= t < 256 -> data_class t = 1 \/ data_class t = 2 ->
  dec_value t bs = Ok v -> value_len_ok t (zlen bs) = true.
Proof. exact dec_value_len_ok. Qed.
Theorem C04_pkg_nullable_not_fixed : forall t, 0 <= t < 256 -> nullable t = true -> is_fixed t = false.
Proof. exact nullable_not_fixed. Qed.
Theorem C04_pkg_class2_is_decimal : forall t, 0 <= t < 256 -> data_class t = 2 -> t = t_DECN \/ t = t_NUMN.
Proof. exact class2_is_decimal. Qed.

(* non-vacuity of the package leg: a row of five columns at the boundaries satisfies col_claim (a 255-byte VARCHAR with its
   1-byte prefix, a pre-1900 DATETIMEN(8) with status byte, a negative NUMN(38,2), NULL in an INTN, a 300-byte LONGBINARY
   with its 4-byte prefix); the bytes of a small row; the side condition fails one byte later *)
Example C04_ex_pkg_claim :
  forallb col_claim [ex_col (ex_fmt t_VARCHAR 0 255 0 0) 0 (VStr (repeat 120 255));
                     ex_col (ex_fmt t_DATETIMEN 8 8 0 0) 2 (VTime (CT 1899 12 31 12 0 0 0));
                     ex_col (ex_fmt t_NUMN 0 17 38 2) 0 (VDec 38 2 (Some (-12345)));
                     ex_col (ex_fmt t_INTN 0 4 0 0) 0 VNull;
                     ex_col (ex_fmt t_LONGBINARY 0 70000 0 0) 0 (VBytes (repeat 7 300))] = true.
Proof. vm_compute. reflexivity. Qed.
Example C04_ex_pkg_bytes :
  leg_write 215 [ex_col (ex_fmt t_VARCHAR 0 255 0 0) 0 (VStr [120; 121]); ex_col (ex_fmt t_DATETIMEN 8 8 0 0) 2 (VTime (CT 1899 12 31 12 0 0 0));
                 ex_col (ex_fmt t_NUMN 0 17 38 2) 0 (VDec 38 2 (Some (-12345))); ex_col (ex_fmt t_INTN 0 4 0 0) 0 VNull]
  = Ok [215; 2; 120; 121; 2; 8; 255; 255; 255; 255; 0; 193; 197; 0; 3; 1; 48; 57; 0].
Proof. vm_compute. reflexivity. Qed.
(* outside the domain (what the current code does when the value is longer than the prefix allows; nothing is claimed here):
   a 256-byte VARCHAR is written with the length byte 0 followed by the 256 data bytes, and reads back as NULL with one byte
   consumed; col_claim excludes it *)
Example C04_ex_pkg_overlong :
  let c := ex_col (ex_fmt t_VARCHAR 0 255 0 0) 0 (VStr (repeat 120 256)) in
  col_claim c = false /\ maxlen_admits c = false /\
  leg_write 215 [c] = Ok (215 :: 0 :: repeat 120 256) /\
  leg_read [c_fmt c] (0 :: repeat 120 256) = {| r_class := 0; r_consumed := 1; r_vals := [(0, VNull)] |}.
Proof. vm_compute. repeat split; reflexivity. Qed.

(* non-vacuity: concrete members of the domains, with the bytes *)
Example C04_ex_int : enc_value t_INT4 (VInt I32 (-2)) 4 = Ok [254; 255; 255; 255] /\ dec_value t_INT4 [254; 255; 255; 255] = Ok (VInt I32 (-2)).
Proof. split; vm_compute; reflexivity. Qed.
Example C04_ex_unitext : enc_value t_UNITEXT (VText [97; 233; 8364; 128512]) 0 = Ok [97; 0; 233; 0; 172; 32; 61; 216; 0; 222]
  /\ dec_value t_UNITEXT [97; 0; 233; 0; 172; 32; 61; 216; 0; 222] = Ok (VText [97; 233; 8364; 128512]).
Proof. split; vm_compute; reflexivity. Qed.
Example C04_ex_pre1900 : enc_value t_DATETIME (VTime (CT 1899 12 31 12 0 0 0)) 8 = Ok [255; 255; 255; 255; 0; 193; 197; 0]
  /\ dec_value t_DATETIME [255; 255; 255; 255; 0; 193; 197; 0] = Ok (VTime (CT 1899 12 31 12 0 0 0)).
Proof. split; vm_compute; reflexivity. Qed.
Example C04_ex_carry : enc_value t_DATETIME (VTime (CT 1999 12 31 23 59 59 999000000)) 8 = Ok [172; 142; 0; 0; 0; 0; 0; 0]
  /\ dec_value t_DATETIME [172; 142; 0; 0; 0; 0; 0; 0] = Ok (VTime (CT 2000 1 1 0 0 0 0)).
Proof. split; vm_compute; reflexivity. Qed.
Example C04_ex_time_last : enc_value t_TIME (VTime (CT 1 1 1 23 59 59 999000000)) 4 = Ok [255; 129; 139; 1]
  /\ dec_value t_TIME [255; 129; 139; 1] = Ok (VTime (CT 1 1 1 23 59 59 996000000)).
Proof. split; vm_compute; reflexivity. Qed.
Example C04_ex_domain : in_domain t_DATETIME (VTime (CT 1 1 1 0 0 0 0)) 8 = true /\ in_domain t_DATETIME (VTime (CT 9999 12 31 23 59 59 999999999)) 8 = true
  /\ nullable t_INTN = true /\ nullable t_UNITEXT = true /\ nullable t_INT4 = false.
Proof. repeat split; vm_compute; reflexivity. Qed.
(* the constants of the code the model writes as literals *)
Example C04_constants : c_day_us = day_us /\ c_minute_us = 60000000 /\ c_millisecond_us = 1000 /\
  c_epoch1900 = (1900, 1, 1) /\ c_epoch_ratadie = (1, 1, 1) /\
  (c_dec_default_precision, c_dec_default_scale, c_money_precision, c_money_scale, c_shortmoney_precision, c_shortmoney_scale) = (18, 0, 20, 4, 10, 4).
Proof. repeat split; reflexivity. Qed.

Print Assumptions C04_int_roundtrip.
Print Assumptions C04_intn_roundtrip.
Print Assumptions C04_float_roundtrip.
Print Assumptions C04_bit_roundtrip.
Print Assumptions C04_money_roundtrip.
Print Assumptions C04_shortmoney_roundtrip.
Print Assumptions C04_numeric_roundtrip.
Print Assumptions C04_char_roundtrip.
Print Assumptions C04_binary_roundtrip.
Print Assumptions C04_unitext_roundtrip.
Print Assumptions C04_date_roundtrip.
Print Assumptions C04_datetime_tick.
Print Assumptions C04_smalldatetime.
Print Assumptions C04_bigdatetime_us.
Print Assumptions C04_bigtime_us.
Print Assumptions C04_time_tick.
Print Assumptions C04_null.
Print Assumptions C04_null_decimal.
Print Assumptions C04_civil_inverse.
Print Assumptions C04_ref_index_is_walk.
Print Assumptions C04_model_meets_spec.
Print Assumptions C04_model_pure.
Print Assumptions C04_pkg_roundtrip.
Print Assumptions C04_pkg_model_meets_spec.
Print Assumptions C04_pkg_txtptr_refuted.
Print Assumptions C04_pkg_txtptr_witnesses.
Print Assumptions C04_pkg_maxlen_admits.
Print Assumptions C04_pkg_tables_agree.
Print Assumptions C04_pkg_len_table_covers.
Print Assumptions C04_pkg_nullable_not_fixed.
Print Assumptions C04_pkg_class2_is_decimal.
