(* C04 — placeholder while the model is being validated; replaced by the theorem file. *)
From Coq Require Import ZArith List Bool.
From V Require Import Base.Tree Base.Bytes C04.Model C04.Spec.
Open Scope Z_scope.
Example C04_placeholder : dec_value 48 (7 :: nil) = Ok (VInt U8 7).
Proof. vm_compute. reflexivity. Qed.
Print Assumptions C04_placeholder.
