(* C04/C05 model of asetypes.DataType.Bytes (bytes.go) and GoValue/goValue (goValue.go),
   one arm per arm of the Go switch statements, with Go semantics explicit.
     enc_value t v len : outcome bytes      t = data type code, len = the 'length' parameter
     dec_value t bs    : outcome value
   The byte order argument is binary.LittleEndian (ASSUMPTION: the package variable tds.endian).
   Tables (ByteSize, LengthBytes, reflect kind, String) come from Gen/GenC04.v, which is
   produced by executing the code.  No proofs here. *)
From Coq Require Import ZArith List Bool.
Import ListNotations.
From V Require Import Base.Bytes Gen.GenC04 C04.GoInt C04.Calendar C04.Utf16.
Open Scope Z_scope.

Inductive outcome (A : Type) : Type :=
| Ok (a : A)
| Err          (* the Go function returned an error *)
| Panic.       (* the Go function panicked (index out of range, failed type assertion, nil big.Int) *)
Arguments Ok {A} a. Arguments Err {A}. Arguments Panic {A}.

(* kinds of Go integer values *)
Inductive ikind := U8 | I8 | U16 | I16 | U32 | I32 | U64 | I64 | IInt | IUint.

(* Go values handed to Bytes / returned by GoValue *)
Inductive value : Type :=
| VNull                                  (* nil *)
| VInt (k : ikind) (v : Z)               (* a sized integer; v is in the range of k *)
| VFlt (w : Z) (bits : Z)                (* float32 / float64 as IEEE bit pattern, w = 32 | 64 *)
| VBool (b : bool)
| VBytes (bs : bytes)                    (* []byte *)
| VStr (bs : bytes)                      (* string, as its bytes *)
| VText (cps : list Z)                   (* string, as its code points ([]rune(s)); used with UNITEXT *)
| VDec (p s : Z) (i : option Z)          (* *Decimal: precision, scale, unscaled big.Int (None: nil) *)
| VTime (t : ctime).                     (* time.Time (UTC) *)

(* ---------- tables from the generated file ---------- *)
Fixpoint lookup {A} (k : Z) (tab : list (Z * A)) : option A :=
  match tab with
  | [] => None
  | (k', v) :: r => if Z.eqb k k' then Some v else lookup k r
  end.
Definition dt_row (t : Z) : Z * Z * Z * list Z :=
  match lookup t dt_table with Some r => r | None => (-1, -1, 0, []) end.
Definition bytesize (t : Z) : Z := let '(b, _, _, _) := dt_row t in b.       (* DataType.ByteSize *)
Definition lengthbytes (t : Z) : Z := let '(_, l, _, _) := dt_row t in l.    (* DataType.LengthBytes *)
Definition reflkind (t : Z) : Z := let '(_, _, k, _) := dt_row t in k.       (* GoReflectType().Kind(), 0 = nil *)
Definition tname (t : Z) : list Z := let '(_, _, _, n) := dt_row t in n.     (* DataType.String *)

Definition is_in (t : Z) (l : list Z) : bool := existsb (Z.eqb t) l.

(* ---------- arms of the switch in Bytes ---------- *)
Inductive enc_class := EMoney | EDec | EDate | ETime | EDateTime | EBigDateTime | EBigTime | EUnitext | EDefault.
Definition enc_class_of (t : Z) : enc_class :=
  if is_in t [t_MONEY; t_SHORTMONEY; t_MONEYN] then EMoney
  else if is_in t [t_DECN; t_NUMN] then EDec
  else if is_in t [t_DATE; t_DATEN] then EDate
  else if is_in t [t_TIME; t_TIMEN] then ETime
  else if is_in t [t_SHORTDATE; t_DATETIME; t_DATETIMEN] then EDateTime
  else if t =? t_BIGDATETIMEN then EBigDateTime
  else if t =? t_BIGTIMEN then EBigTime
  else if t =? t_UNITEXT then EUnitext
  else EDefault.

(* ---------- arms of the switch in goValue ---------- *)
Inductive dec_class :=
| DInt (k : ikind) | DIntN | DUintN | DFlt (w : Z) | DFltN | DBit | DBin | DChar | DUnitext
| DMoney | DDec | DDate | DTime | DDateTime | DBigDateTime | DUnhandled.
Definition dec_class_of (t : Z) : dec_class :=
  if t =? t_INT1 then DInt U8 else if t =? t_INT2 then DInt I16
  else if t =? t_INT4 then DInt I32 else if t =? t_INT8 then DInt I64
  else if t =? t_INTN then DIntN
  else if t =? t_UINT2 then DInt U16 else if t =? t_UINT4 then DInt U32 else if t =? t_UINT8 then DInt U64
  else if t =? t_UINTN then DUintN
  else if t =? t_FLT4 then DFlt 32 else if t =? t_FLT8 then DFlt 64 else if t =? t_FLTN then DFltN
  else if t =? t_BIT then DBit
  else if is_in t [t_LONGBINARY; t_BINARY; t_VARBINARY; t_IMAGE; t_XML] then DBin
  else if is_in t [t_CHAR; t_VARCHAR; t_TEXT; t_LONGCHAR] then DChar
  else if t =? t_UNITEXT then DUnitext
  else if is_in t [t_SHORTMONEY; t_MONEY; t_MONEYN] then DMoney
  else if is_in t [t_DECN; t_NUMN] then DDec
  else if is_in t [t_DATE; t_DATEN] then DDate
  else if is_in t [t_TIME; t_BIGTIMEN; t_TIMEN] then DTime
  else if is_in t [t_SHORTDATE; t_DATETIME; t_DATETIMEN] then DDateTime
  else if t =? t_BIGDATETIMEN then DBigDateTime
  else DUnhandled.

(* ---------- integer kinds ---------- *)
Definition ik_width (k : ikind) : option nat :=
  match k with U8 | I8 => Some 1%nat | U16 | I16 => Some 2%nat | U32 | I32 => Some 4%nat
             | U64 | I64 => Some 8%nat | IInt | IUint => None end.
Definition ik_signed (k : ikind) : bool :=
  match k with I8 | I16 | I32 | I64 | IInt => true | _ => false end.
(* binary.Read into a variable of kind k *)
Definition read_int (k : ikind) (bs : bytes) : Z :=
  match ik_width k with
  | Some w => let u := le_of_bytes (ztake (Z.of_nat w) bs) in
              if ik_signed k then wraps (8 * Z.of_nat w) u else u
  | None => 0
  end.

(* make([]byte, length) then a Put of n bytes at the front: panics when length < n (or < 0) *)
Definition put_front (len : Z) (w : bytes) : outcome bytes :=
  if len <? zlen w then Panic else Ok (w ++ zeros (len - zlen w)).

(* big.Int.Int64(): the low 64 bits of |x| with the sign applied, wrapped *)
Definition big_int64 (x : Z) : Z := i64 (Z.sgn x * u64 (Z.abs x)).

(* ---------- Bytes ---------- *)

(* binary.Write of the value (after string -> []byte) *)
Definition binary_write (v : value) : outcome bytes :=
  match v with
  | VInt k x => match ik_width k with Some w => Ok (le_put w x) | None => Err end
  | VFlt w bits => if w =? 32 then Ok (le_put 4 bits) else Ok (le_put 8 bits)
  | VBool b => Ok [if b then 1 else 0]
  | VBytes bs => Ok bs
  | VStr bs => Ok bs
  | VText cps => Ok (utf8_encode cps)
  | VDec _ _ _ => Err
  | VTime _ => Err
  | VNull => Ok []
  end.

Definition enc_value (t : Z) (v : value) (len : Z) : outcome bytes :=
  match v with
  | VNull => Ok []
  | _ =>
  match enc_class_of t with
  | EMoney =>
      match v with
      | VDec _ _ (Some x) =>
          if len <? 0 then Panic
          else if len =? 4 then Ok (le_put 4 (big_int64 x))
          else if len =? 8 then Ok (le_put 4 (big_int64 x / 4294967296) ++ le_put 4 (big_int64 x))
          else Ok (zeros len)
      | VDec _ _ None => Ok []   (* NULL, as returned by GoValue for zero-length data *)
      | _ => Err
      end
  | EDec =>
      match v with
      | VDec _ _ (Some x) => Ok ((if x <? 0 then 1 else 0) :: be_min (Z.abs x))
      | VDec _ _ None => Ok []   (* NULL, as returned by GoValue for zero-length data *)
      | _ => Err
      end
  | EDate =>
      match v with
      | VTime tm =>
          let d := i64 (dur_from_datetime tm - dur_epoch1900) in
          let '(days, _) := split_days d in
          if len <? 0 then Panic else put_front len (le_put 4 days)
      | _ => Panic
      end
  | ETime =>
      match v with
      | VTime tm =>
          let fract := us_to_frac (dur_from_time tm) in
          (* rounded up to 24:00:00, which is not a time of day: saturate at the last tick *)
          let fract := if fract =? 25920000 then fract - 1 else fract in
          if len <? 0 then Panic else put_front len (le_put 4 fract)
      | _ => Panic
      end
  | EDateTime =>
      match v with
      | VTime tm =>
          let d := i64 (dur_from_datetime tm - dur_epoch1900) in
          let '(days, rest) := split_days d in
          if len <? 0 then Panic
          else if len =? 4 then Ok (le_put 2 days ++ le_put 2 (dur_minutes rest))
          else if len =? 8 then
            let s := us_to_frac rest in
            if s =? 25920000 then Ok (le_put 4 (days + 1) ++ le_put 4 0)
            else Ok (le_put 4 days ++ le_put 4 s)
          else Ok (zeros len)
      | _ => Panic
      end
  | EBigDateTime =>
      match v with
      | VTime tm => if len <? 0 then Panic else put_front len (le_put 8 (dur_from_datetime tm))
      | _ => Panic
      end
  | EBigTime =>
      match v with
      | VTime tm => if len <? 0 then Panic else put_front len (le_put 8 (dur_from_time tm))
      | _ => Panic
      end
  | EUnitext =>
      match v with
      | VText cps => Ok (units_to_le (utf16_encode cps))
      | VStr _ => Err   (* not modelled: a string given as raw bytes would need utf-8 decoding; never fed *)
      | _ => Panic
      end
  | EDefault =>
      match binary_write v with
      | Ok bs => if negb (bytesize t =? -1) && negb (bytesize t =? zlen bs) then Err else Ok bs
      | o => o
      end
  end
  end.

(* ---------- GoValue ---------- *)

(* Epoch1900().AddDate(0, 0, (ASEDuration(x) * Day).Days()) for an int32 x: the product wraps in int64 *)
Definition days_field (x : Z) : Z := dur_days (i64 (x * day_us)).

Definition dec_value (t : Z) (bs : bytes) : outcome value :=
  if negb (bytesize t =? -1) && negb (zlen bs =? bytesize t) then Err else
  let n := zlen bs in
  match dec_class_of t with
  | DInt k => Ok (VInt k (read_int k bs))
  | DIntN =>
      if n =? 0 then Ok VNull else if n =? 1 then Ok (VInt U8 (read_int U8 bs))
      else if n =? 2 then Ok (VInt I16 (read_int I16 bs)) else if n =? 4 then Ok (VInt I32 (read_int I32 bs))
      else if n =? 8 then Ok (VInt I64 (read_int I64 bs)) else Err
  | DUintN =>
      if n =? 0 then Ok VNull else if n =? 1 then Ok (VInt U8 (read_int U8 bs))
      else if n =? 2 then Ok (VInt U16 (read_int U16 bs)) else if n =? 4 then Ok (VInt U32 (read_int U32 bs))
      else if n =? 8 then Ok (VInt U64 (read_int U64 bs)) else Err
  | DFlt w => Ok (VFlt w (le_of_bytes bs))
  | DFltN =>
      if n =? 0 then Ok VNull else if n =? 4 then Ok (VFlt 32 (le_of_bytes bs))
      else if n =? 8 then Ok (VFlt 64 (le_of_bytes bs)) else Err
  | DBit => match bs with b :: _ => Ok (VBool (b =? 1)) | [] => Panic end
  | DBin => if n =? 0 then Ok VNull else Ok (VBytes bs)
  | DChar => if n =? 0 then Ok VNull else Ok (VStr bs)
  | DUnitext =>
      if n =? 0 then Ok VNull
      else if negb (n mod 2 =? 0) then Err
      else Ok (VText (trim_nul (string_of_runes (utf16_decode (le_to_units bs)))))
  | DMoney =>
      if n =? 0 then Ok (VDec 0 0 None)
      else if n =? 4 then Ok (VDec c_shortmoney_precision c_shortmoney_scale (Some (i32 (le_of_bytes bs))))
      else if n =? 8 then
        Ok (VDec c_money_precision c_money_scale
              (Some (i64 (le_of_bytes (ztake 4 bs) * 4294967296 + le_of_bytes (zdrop 4 bs)))))
      else Ok (VDec 0 0 (Some 0))
  | DDec =>
      match bs with
      | [] => Ok (VDec 0 0 None)
      | sgn :: mag =>
          let m := be_of_bytes mag in
          Ok (VDec c_dec_default_precision c_dec_default_scale (Some (if sgn =? 1 then - m else m)))
      end
  | DDate =>
      if n =? 0 then Ok VNull
      else if negb (n =? 4) then Err
      else Ok (VTime (time_of (day1900 + days_field (i32 (le_of_bytes bs))) 0))
  | DTime =>
      if n =? 0 then Ok VNull
      else if n =? 4 then
        let x := i32 (le_of_bytes bs) in
        Ok (VTime (time_of day0001 (dur_millis (frac_to_us x) * 1000000)))
      else if n =? 8 then
        Ok (VTime (time_of day0001 (i64 (i64 (le_of_bytes bs) * 1000))))
      else Err
  | DDateTime =>
      if n =? 0 then Ok VNull
      else if n =? 4 then
        let days := le_of_bytes (ztake 2 bs) in
        let mins := le_of_bytes (zdrop 2 bs) in
        Ok (VTime (time_of (day1900 + days) (mins * 60000000000)))
      else if n =? 8 then
        let days := days_field (i32 (le_of_bytes (ztake 4 bs))) in
        let us := frac_to_us (le_of_bytes (zdrop 4 bs)) in
        Ok (VTime (time_of (day1900 + days) (us * 1000)))
      else Err
  | DBigDateTime =>
      if n =? 0 then Ok VNull
      else if negb (n =? 8) then Err
      else
        let dur := i64 (le_of_bytes bs) in
        let days := dur_days dur in
        Ok (VTime (time_of (day0000 + days) ((dur - days * day_us) * 1000)))
  | DUnhandled => Err
  end.

Definition nullable (t : Z) : bool := negb (lengthbytes t =? -1) && negb (reflkind t =? 0).
Definition is_null (v : value) : bool :=
  match v with VNull => true | VDec _ _ None => true | _ => false end.
