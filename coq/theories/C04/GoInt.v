(* C04/C05 model: Go's fixed-width integer semantics and little-endian words, stated with
   mod 2^N arithmetic (no bit operations).  No proofs here. *)
From Coq Require Import ZArith List Bool.
Import ListNotations.
From V Require Import Base.Bytes.
Open Scope Z_scope.

(* uintN(x): the value of x modulo 2^N *)
Definition wrapu (bits : Z) (x : Z) : Z := x mod 2 ^ bits.
(* intN(x): the two's complement reinterpretation of x modulo 2^N *)
Definition wraps (bits : Z) (x : Z) : Z := (x + 2 ^ (bits - 1)) mod 2 ^ bits - 2 ^ (bits - 1).

Definition u8 := wrapu 8.   Definition u16 := wrapu 16.
Definition u32 := wrapu 32. Definition u64 := wrapu 64.
Definition i8 := wraps 8.   Definition i16 := wraps 16.
Definition i32 := wraps 32. Definition i64 := wraps 64.

(* binary.LittleEndian.PutUintN of uintN(x) *)
Definition le_put (n : nat) (x : Z) : bytes := bytes_of_le n (wrapu (8 * Z.of_nat n) x).

(* Go's math.Round on an exact rational num/den (den > 0): half away from zero *)
Definition round_half_away (num den : Z) : Z :=
  if 0 <=? num then (2 * num + den) / (2 * den) else - ((2 * (- num) + den) / (2 * den)).

(* minimal big-endian magnitude: big.Int.Bytes of a non-negative integer (empty for 0):
   digits base 256, most significant first, by fuel (fuel = number of bits is always enough) *)
Fixpoint be_digits (fuel : nat) (v : Z) (acc : bytes) : bytes :=
  match fuel with
  | O => acc
  | S k => if v =? 0 then acc else be_digits k (v / 256) ((v mod 256) :: acc)
  end.
Definition be_min (v : Z) : bytes := be_digits (Z.to_nat (Z.log2 v + 1)) v [].
