(* C04/C05 model: Go's fixed-width integer semantics and little-endian words, stated with
   mod 2^N arithmetic (no bit operations).  No proofs here. *)
From Coq Require Import ZArith List Bool.
Import ListNotations.
From V Require Import Base.Bytes.
Open Scope Z_scope.

(* x mod m, with a shortcut when x is already reduced (the extracted binary division is slow);
   equal to x mod m for m > 0 (GoIntFacts.fast_mod_eq) *)
Definition fast_mod (x m : Z) : Z := if (0 <=? x) && (x <? m) then x else x mod m.

Definition two_p (bits : Z) : Z :=
  if bits =? 64 then 18446744073709551616 else if bits =? 32 then 4294967296
  else if bits =? 63 then 9223372036854775808 else if bits =? 31 then 2147483648
  else 2 ^ bits.

(* uintN(x): the value of x modulo 2^N *)
Definition wrapu (bits : Z) (x : Z) : Z := fast_mod x (two_p bits).
(* intN(x): the two's complement reinterpretation of x modulo 2^N *)
Definition wraps (bits : Z) (x : Z) : Z := fast_mod (x + two_p (bits - 1)) (two_p bits) - two_p (bits - 1).

Definition u8 := wrapu 8.   Definition u16 := wrapu 16.
Definition u32 := wrapu 32. Definition u64 := wrapu 64.
Definition i8 := wraps 8.   Definition i16 := wraps 16.
Definition i32 := wraps 32. Definition i64 := wraps 64.

(* little-endian bytes, one division per byte (equal to Base.Bytes.bytes_of_le, GoIntFacts.le_bytes_eq) *)
Fixpoint le_bytes (n : nat) (v : Z) : bytes :=
  match n with
  | O => []
  | S k => let (q, r) := Z.div_eucl v 256 in r :: le_bytes k q
  end.

(* binary.LittleEndian.PutUintN of uintN(x) *)
Definition le_put (n : nat) (x : Z) : bytes := le_bytes n (wrapu (8 * Z.of_nat n) x).

(* Go's math.Round on an exact rational num/den (den > 0): half away from zero *)
Definition round_half_away (num den : Z) : Z :=
  if 0 <=? num then (2 * num + den) / (2 * den) else - ((2 * (- num) + den) / (2 * den)).

(* minimal big-endian magnitude: big.Int.Bytes of a non-negative integer (empty for 0):
   digits base 256, most significant first, by fuel (fuel = number of bits is always enough) *)
Fixpoint be_digits (fuel : nat) (v : Z) (acc : bytes) : bytes :=
  match fuel with
  | O => acc
  | S k => if v =? 0 then acc else be_digits k (v / 256) ((v mod 256) :: acc)
  end.
Definition be_min (v : Z) : bytes := be_digits (Z.to_nat (Z.log2 v + 1)) v [].
