(* C04, package leg: the value codec composed with the PARAMS / ROW codec.
   Built on Pkg.CoreRoundtrip.params_roundtrip (decode (encode fields) = fields for well-formed fields) and
   C04.ProofsSpec.model_meets_spec (the value codec satisfies the round-trip specification on the whole domain);
   nothing of either is re-proved here.  What this file adds:
     - the two generated tables (Gen/GenC04.v, Gen/GenPkg.v) agree on ByteSize / LengthBytes (re-checked on every run);
     - the "GoValue succeeds for this length" table of the package layer covers every length on which the value
       decoder of the C04 model succeeds (re-checked on every run);
     - a claimed column yields well-formed field data; lists of columns by induction. *)
From Coq Require Import ZArith List Bool Lia.
Import ListNotations.
From V Require Import Base.Tree Base.Bytes Base.BytesFacts Base.Range Base.Parser Base.ParserFacts
  Pkg.GenTypes Gen.GenPkg Pkg.Field Pkg.Fmts Pkg.CoreRoundtrip
  Gen.GenC04 C04.Calendar C04.Model C04.Exchange C04.Spec C04.ProofsSpec C04.PkgLeg.
Open Scope Z_scope.

Lemma len_bound_eq lb : len_bound lb = lb_bound lb.
Proof. reflexivity. Qed.

(* ------------------------------------------------------------------ table facts (sweeps over all 256 type codes) *)
Lemma tables_agree_sweep :
  forallb (fun t => (bytesize t =? byte_size t) && (lengthbytes t =? dt_lenbytes t)) (zrange 0 255) = true.
Proof. vm_compute. reflexivity. Qed.

Lemma bytesize_byte_size t : 0 <= t < 256 -> bytesize t = byte_size t.
Proof.
  intros H. pose proof (forallb_zrange _ _ _ tables_agree_sweep t ltac:(lia)) as E. cbv beta in E.
  apply andb_true_iff in E. destruct E as [E _]. apply Z.eqb_eq in E. exact E.
Qed.

Lemma nullable_not_fixed_sweep : forallb (fun t => implb (nullable t) (negb (is_fixed t))) (zrange 0 255) = true.
Proof. vm_compute. reflexivity. Qed.

Lemma nullable_not_fixed t : 0 <= t < 256 -> nullable t = true -> is_fixed t = false.
Proof.
  intros H N. pose proof (forallb_zrange _ _ _ nullable_not_fixed_sweep t ltac:(lia)) as E. cbv beta in E.
  rewrite N in E. cbn [implb] in E. apply negb_true_iff in E. exact E.
Qed.

Lemma class2_is_decimal_sweep : forallb (fun t => implb (data_class t =? 2) (is_in t [t_DECN; t_NUMN])) (zrange 0 255) = true.
Proof. vm_compute. reflexivity. Qed.

Lemma class2_is_decimal t : 0 <= t < 256 -> data_class t = 2 -> t = t_DECN \/ t = t_NUMN.
Proof.
  intros H C. pose proof (forallb_zrange _ _ _ class2_is_decimal_sweep t ltac:(lia)) as E. cbv beta in E.
  rewrite C in E. cbn [Z.eqb Pos.eqb implb] in E. apply is_in_or2. exact E.
Qed.

(* the lengths on which the value decoder succeeds: a finite list, or None = no restriction stated *)
Definition dec_lens (t : Z) : option (list Z) :=
  match dec_class_of t with
  | DUnhandled => Some []
  | cls =>
      if negb (bytesize t =? -1) then Some [bytesize t] else
      match cls with
      | DIntN | DUintN => Some [0; 1; 2; 4; 8]
      | DFltN => Some [0; 4; 8]
      | DDate => Some [0; 4]
      | DTime | DDateTime => Some [0; 4; 8]
      | DBigDateTime => Some [0; 8]
      | _ => None
      end
  end.

Lemma dec_value_lens t bs v : dec_value t bs = Ok v ->
  match dec_lens t with Some l => In (zlen bs) l | None => True end.
Proof.
  unfold dec_value, dec_lens.
  destruct (dec_class_of t) eqn:Ec;
    (destruct (bytesize t =? -1) eqn:Eb; cbn [negb andb];
     [|destruct (zlen bs =? bytesize t) eqn:En; cbn [negb];
       [intros H; try discriminate; apply Z.eqb_eq in En; left; symmetry; exact En|discriminate]]);
    intros H; try exact I;
    repeat match type of H with
           | (if ?c then _ else _) = _ => let E := fresh "E" in destruct c eqn:E; try discriminate
           end;
    try discriminate;
    repeat match goal with
           | E : (_ =? _) = true |- _ => apply Z.eqb_eq in E
           | E : negb (_ =? _) = false |- _ => apply negb_false_iff in E
           end;
    cbn [In]; lia.
Qed.

Lemma len_table_sweep :
  forallb (fun t => if (data_class t =? 1) || (data_class t =? 2)
                    then match dec_lens t with
                         | Some l => forallb (value_len_ok t) l
                         | None => match zassoc t dt_valid (VList []) with VAll => true | _ => false end
                         end
                    else true) (zrange 0 255) = true.
Proof. vm_compute. reflexivity. Qed.

(* whenever the model's GoValue succeeds on the data of a plain / precision-scale field, the package model's table
   (tabulated from the code) lets the field through *)
Lemma dec_value_len_ok t bs v : 0 <= t < 256 -> data_class t = 1 \/ data_class t = 2 ->
  dec_value t bs = Ok v -> value_len_ok t (zlen bs) = true.
Proof.
  intros Ht Hc Hd. pose proof (forallb_zrange _ _ _ len_table_sweep t ltac:(lia)) as E. cbv beta in E.
  assert (Hcb : (data_class t =? 1) || (data_class t =? 2) = true) by (destruct Hc as [Hc|Hc]; rewrite Hc; reflexivity).
  rewrite Hcb in E. pose proof (dec_value_lens t bs v Hd) as L.
  destruct (dec_lens t) as [l|].
  - rewrite forallb_forall in E. apply E. exact L.
  - unfold value_len_ok. destruct (zassoc t dt_valid (VList [])); try discriminate. reflexivity.
Qed.

(* ------------------------------------------------------------------ the value codec on a claimed value *)
Lemma claim_value t len v : in_domain t v len = true \/ null_in t v = true ->
  exists bs v', enc_value t v len = Ok bs /\ dec_value t bs = Ok v' /\
                roundtrip_ok t len v (Ok bs) (Some (Ok v')) = true /\
                (bytesize t = -1 \/ zlen bs = bytesize t \/ (v = VNull /\ nullable t = true)) /\
                (v = VNull -> bs = []).
Proof.
  intros H.
  assert (H' : in_domain t v len = true \/ (v = VNull /\ nullable t = true)).
  { destruct H as [H|H]; [left; exact H|right]. destruct v; cbn in H; try discriminate. split; [reflexivity|exact H]. }
  pose proof (model_meets_spec t len v H') as R.
  destruct (enc_value t v len) as [bs| |] eqn:Ee.
  - destruct (dec_value t bs) as [v'| |] eqn:Ed.
    + exists bs, v'. split; [reflexivity|]. split; [exact Ed|]. split; [exact R|].
      destruct H' as [D|[Ev N]].
      * split.
        -- unfold roundtrip_ok in R. destruct v as [|k x|w b|b|b|b|c|p s [x|]|tm]; try (cbn in D; discriminate);
             rewrite D in R; rewrite !andb_true_iff in R; destruct R as [[_ S] _];
             apply orb_true_iff in S; destruct S as [S|S]; apply Z.eqb_eq in S; auto.
        -- intros Ev. subst v. cbn in D. discriminate.
      * subst v. split; [right; right; split; [reflexivity|exact N]|]. intros _.
        unfold roundtrip_ok in R. rewrite N in R. destruct bs; [reflexivity|discriminate].
    + exfalso. unfold roundtrip_ok in R. destruct H' as [D|[Ev N]].
      * destruct v as [|k x|w b|b|b|b|c|p s [x|]|tm]; try (cbn in D; discriminate); rewrite D in R; discriminate.
      * subst v. rewrite N in R. destruct bs; discriminate.
    + exfalso. unfold roundtrip_ok in R. destruct H' as [D|[Ev N]].
      * destruct v as [|k x|w b|b|b|b|c|p s [x|]|tm]; try (cbn in D; discriminate); rewrite D in R; discriminate.
      * subst v. rewrite N in R. destruct bs; discriminate.
  - exfalso. unfold roundtrip_ok in R. destruct H' as [D|[Ev N]].
    + destruct v as [|k x|w b|b|b|b|c|p s [x|]|tm]; try (cbn in D; discriminate); rewrite D in R; discriminate.
    + subst v. rewrite N in R. discriminate.
  - exfalso. unfold roundtrip_ok in R. destruct H' as [D|[Ev N]].
    + destruct v as [|k x|w b|b|b|b|c|p s [x|]|tm]; try (cbn in D; discriminate); rewrite D in R; discriminate.
    + subst v. rewrite N in R. discriminate.
Qed.

(* ------------------------------------------------------------------ one column *)
(* what a claimed column gives: its field data are well formed for the package codec, carry the encoded value,
   and the value decoder maps them back to the value (as roundtrip_ok says) *)
Definition col_good (c : col) (d : fdata) : Prop :=
  let f := c_fmt c in let t := f_dt f in
  wf_fdata f d /\ v_status d = c_status c /\ v_txtptr d = c_txtptr c /\ v_timestamp d = c_ts c /\
  enc_value t (c_val c) (f_maxlen f) = Ok (v_data d) /\
  (c_val c = VNull -> v_data d = []) /\
  exists v', dec_value t (v_data d) = Ok v' /\
             roundtrip_ok t (f_maxlen f) (c_val c) (Ok (v_data d)) (Some (Ok v')) = true.

Lemma col_wf c : col_claim c = true -> exists d, col_fdata c = Ok d /\ col_good c d.
Proof.
  unfold col_claim, col_fdata, col_good. intros H.
  rewrite !andb_true_iff in H. destruct H as [[[[[T0 T1] D] S] P] F].
  apply Z.leb_le in T0. apply Z.ltb_lt in T1. apply orb_true_iff in D.
  destruct (claim_value _ (f_maxlen (c_fmt c)) _ D) as [bs [v' [E [Dc [R [Sz Nl]]]]]].
  rewrite E in *. eexists. split; [reflexivity|]. cbn [v_status v_data v_txtptr v_timestamp v_serial v_subclass v_locator].
  assert (Hst : if has_colstatus (c_fmt c) then 0 <= c_status c < 256 else c_status c = 0).
  { destruct (has_colstatus (c_fmt c)); lia. }
  split; [|split; [reflexivity|split; [reflexivity|split; [reflexivity|split; [reflexivity|split; [exact Nl|exists v'; split; [exact Dc|exact R]]]]]]].
  unfold wf_fdata. cbn [v_status v_data v_txtptr v_timestamp v_serial v_subclass v_locator].
  split; [exact Hst|]. split; [reflexivity|]. split; [reflexivity|]. split; [reflexivity|].
  destruct ((data_class (f_dt (c_fmt c)) =? 1) || (data_class (f_dt (c_fmt c)) =? 2)) eqn:C12.
  - left. rewrite !andb_true_iff in F. destruct F as [[Ftp Fts] Ffit].
    assert (Hc : data_class (f_dt (c_fmt c)) = 1 \/ data_class (f_dt (c_fmt c)) = 2) by lia.
    split; [exact Hc|]. split; [apply zlen_zero_nil; lia|]. split; [apply zlen_zero_nil; lia|]. split.
    + destruct (is_fixed (f_dt (c_fmt c))) eqn:Fx.
      * (* fixed length: the value codec produces the size of the type *)
        pose proof (bytesize_byte_size (f_dt (c_fmt c)) ltac:(lia)) as Ebs.
        unfold length_bytes. rewrite Fx. rewrite <- Ebs.
        assert (Hb : bytesize (f_dt (c_fmt c)) <> -1).
        { rewrite Ebs. unfold is_fixed in Fx. apply negb_true_iff in Fx. apply Z.eqb_neq in Fx. exact Fx. }
        destruct Sz as [Sz|[Sz|[_ Sz]]]; [contradiction|exact Sz|].
        rewrite (nullable_not_fixed (f_dt (c_fmt c)) ltac:(lia) Sz) in Fx. discriminate.
      * cbn [orb] in Ffit. rewrite <- len_bound_eq. lia.
    + apply (dec_value_len_ok (f_dt (c_fmt c)) bs v'); [lia|exact Hc|exact Dc].
  - destruct (data_class (f_dt (c_fmt c)) =? 4) eqn:C4; [|discriminate]. right.
    rewrite !andb_true_iff in F. destruct F as [[Ftp Fts] Ffit]. lia.
Qed.

(* ------------------------------------------------------------------ lists of columns *)
Lemma cols_wf cs : forallb col_claim cs = true -> exists ds, cols_fdata cs = Ok ds /\ Forall2 col_good cs ds.
Proof.
  induction cs as [|c cs IH]; intros H.
  - exists []. split; [reflexivity|constructor].
  - cbn [forallb] in H. apply andb_true_iff in H. destruct H as [Hc Hcs].
    destruct (col_wf c Hc) as [d [Ed Gd]]. destruct (IH Hcs) as [ds [Eds Gds]].
    exists (d :: ds). split; [cbn [cols_fdata]; rewrite Ed, Eds; reflexivity|constructor; assumption].
Qed.

Lemma good_wf cs ds : Forall2 col_good cs ds -> Forall2 wf_fdata (map c_fmt cs) ds.
Proof.
  induction 1 as [|c d cs ds G _ IH]; [constructor|]. cbn [map]. constructor; [exact (proj1 G)|exact IH].
Qed.

Lemma claim_ctx_ok cs : forallb col_claim cs = true -> params_ctx_ok (map c_fmt cs) = true.
Proof.
  induction cs as [|c cs IH]; intros H; [reflexivity|].
  cbn [forallb] in H. apply andb_true_iff in H. destruct H as [Hc Hcs].
  unfold params_ctx_ok. cbn [map forallb]. fold (params_ctx_ok (map c_fmt cs)). rewrite (IH Hcs), andb_true_r.
  unfold col_claim in Hc. rewrite !andb_true_iff in Hc. destruct Hc as [_ F].
  destruct (enc_value _ _ _); try discriminate.
  destruct ((data_class (f_dt (c_fmt c)) =? 1) || (data_class (f_dt (c_fmt c)) =? 2)) eqn:C12.
  - apply negb_true_iff. apply Z.eqb_neq. lia.
  - destruct (data_class (f_dt (c_fmt c)) =? 4) eqn:C4; [|discriminate]. apply negb_true_iff. apply Z.eqb_neq. lia.
Qed.

(* THE COMPOSITION: for every list of claimed columns the package written for them is read back field by field,
   consuming exactly the bytes written, whatever follows; every field carries the encoded value and its status,
   and the value decoder maps the field data back to the value (exactly, or to the tick: roundtrip_ok);
   NULL travels as zero length. *)
Theorem pkg_roundtrip tok cs : forallb col_claim cs = true ->
  exists ds body,
    cols_fdata cs = Ok ds /\ leg_write tok cs = Ok (tok :: body) /\
    (forall r, dec_params (Some (map c_fmt cs)) (body ++ r) = POk ds r) /\
    Forall2 col_good cs ds.
Proof.
  intros H. destruct (cols_wf cs H) as [ds [Eds G]].
  destruct (params_roundtrip tok (map c_fmt cs) ds [] (claim_ctx_ok cs H) (good_wf cs ds G)) as [body [Eb _]].
  exists ds, body. split; [exact Eds|]. split; [unfold leg_write; rewrite Eds, Eb; reflexivity|]. split; [|exact G].
  intros r. destruct (params_roundtrip tok (map c_fmt cs) ds r (claim_ctx_ok cs H) (good_wf cs ds G)) as [body' [Eb' Db']].
  rewrite Eb in Eb'. inversion Eb' as [Eq]. exact Db'.
Qed.

(* "the declared max length admits the encoded value" implies the prefix side condition *)
Lemma maxlen_admits_fits c bs : maxlen_admits c = true ->
  enc_value (f_dt (c_fmt c)) (c_val c) (f_maxlen (c_fmt c)) = Ok bs ->
  zlen bs < len_bound (length_bytes (f_dt (c_fmt c))).
Proof.
  unfold maxlen_admits. intros H E. rewrite E in H. apply andb_true_iff in H. lia.
Qed.

(* ------------------------------------------------------------------ what Value() gives after ReadFrom *)
Lemma dec_value_decimal t bs v : t = t_DECN \/ t = t_NUMN -> dec_value t bs = Ok v -> exists p s x, v = VDec p s x.
Proof.
  intros Ht H.
  assert (Eb : bytesize t = -1) by (destruct Ht; subst t; vm_compute; reflexivity).
  assert (Ec : dec_class_of t = DDec) by (destruct Ht; subst t; vm_compute; reflexivity).
  unfold dec_value in H. rewrite Eb, Ec in H. cbn [Z.eqb negb andb] in H.
  destruct bs as [|sg mag]; inversion H; eauto.
Qed.

(* for DECN / NUMN the specification does not look at the precision / scale of the decoded Decimal *)
Lemma rt_decimal_indep t len v eo p1 s1 p2 s2 y : t = t_DECN \/ t = t_NUMN ->
  (match v with VNull => True | VDec _ _ (Some _) => True | _ => False end) ->
  roundtrip_ok t len v eo (Some (Ok (VDec p1 s1 y))) = roundtrip_ok t len v eo (Some (Ok (VDec p2 s2 y))).
Proof.
  intros Ht Hv. assert (Ei : is_in t [t_DECN; t_NUMN] = true) by (destruct Ht; subst t; reflexivity).
  destruct v as [|k x|w b|b|b|b|c|p s [x|]|tm]; try contradiction; unfold roundtrip_ok.
  - destruct (nullable t); [|reflexivity]. destruct eo as [[|b0 bs]| |]; try reflexivity; destruct y; reflexivity.
  - destruct (in_domain t (VDec p s (Some x)) len); [|reflexivity]. destruct eo as [bs| |]; try reflexivity.
    f_equal. destruct y as [y|]; unfold equiv; [rewrite Ei; reflexivity|reflexivity].
Qed.

Definition bin_txtptr (c : col) : bool :=
  is_in (f_dt (c_fmt c)) [t_IMAGE; t_XML] && match c_val c with VBytes _ => true | _ => false end.
(* columns for which Value() is the Go value itself: plain and precision/scale fields, and IMAGE / XML data *)
Definition col_strict (c : col) : bool := col_plain c || bin_txtptr c.

Lemma col_read c d : col_claim c = true -> col_good c d ->
  exists v, field_value (c_fmt c) d = Ok v /\
            val_raw_ok c d (v_status d, v) = true /\
            (col_strict c = true -> val_ok c d (v_status d, v) = true).
Proof.
  intros Hc [Wf [Est [_ [_ [Ee [_ [v' [Dc R]]]]]]]].
  unfold col_claim in Hc. rewrite !andb_true_iff in Hc. destruct Hc as [[[[[T0 T1] D] S] P] F].
  apply Z.leb_le in T0. apply Z.ltb_lt in T1. apply orb_true_iff in D.
  unfold field_value, val_raw_ok, val_ok, col_strict, col_plain, bin_txtptr. cbn [fst snd].
  destruct (data_class (f_dt (c_fmt c)) =? 4) eqn:C4.
  - (* text pointer: the raw data *)
    apply Z.eqb_eq in C4. exists (VBytes (v_data d)). split; [reflexivity|]. split.
    + rewrite Est, Z.eqb_refl, list_Z_eqb_refl, Dc. exact R.
    + rewrite C4. cbn [Z.eqb Pos.eqb orb]. intros Hb. apply andb_true_iff in Hb. destruct Hb as [Hi Hv].
      rewrite Est, Z.eqb_refl, andb_true_r, andb_true_r.
      destruct (c_val c) as [|k x|w b|b|bs|b|cc|p s xx|tm] eqn:Ev; try discriminate.
      assert (Ed : dec_value (f_dt (c_fmt c)) (v_data d) = Ok (if zlen (v_data d) =? 0 then VNull else VBytes (v_data d))).
      { apply is_in_or2 in Hi. destruct Hi as [Hi|Hi]; rewrite Hi; unfold dec_value;
          [change (bytesize t_IMAGE) with (-1); change (dec_class_of t_IMAGE) with DBin
          |change (bytesize t_XML) with (-1); change (dec_class_of t_XML) with DBin];
          cbn [Z.eqb negb andb]; destruct (zlen (v_data d) =? 0); reflexivity. }
      rewrite Ed in Dc. inversion Dc as [Ev']. destruct (zlen (v_data d) =? 0); [|rewrite <- Ev' in R; exact R].
      (* zero-length data would decode to NULL, which is not the value *)
      exfalso. subst v'. unfold roundtrip_ok in R.
      destruct D as [D|D]; [|cbn in D; discriminate]. rewrite D in R.
      rewrite !andb_true_iff in R. destruct R as [_ Q]. cbn in Q. discriminate.
  - destruct (data_class (f_dt (c_fmt c)) =? 2) eqn:C2.
    + (* DECN / NUMN: precision and scale of the format *)
      apply Z.eqb_eq in C2. pose proof (class2_is_decimal (f_dt (c_fmt c)) ltac:(lia) C2) as Ht.
      destruct (dec_value_decimal _ _ _ Ht Dc) as [p0 [s0 [y Ev']]]. subst v'. rewrite Dc.
      exists (VDec (f_prec (c_fmt c)) (f_scale (c_fmt c)) y). split; [reflexivity|].
      assert (Hv : match c_val c with VNull => True | VDec _ _ (Some _) => True | _ => False end).
      { destruct D as [D|D].
        - destruct (c_val c) as [|k x|w b|b|b|b|cc|p s [xx|]|tm]; try exact I; exfalso;
            destruct Ht as [Ht|Ht]; rewrite Ht in D; cbn in D; try discriminate;
            rewrite ?andb_false_r in D; discriminate.
        - destruct (c_val c); cbn in D; try discriminate. exact I. }
      assert (G : roundtrip_ok (f_dt (c_fmt c)) (f_maxlen (c_fmt c)) (c_val c) (Ok (v_data d))
                    (Some (Ok (VDec (f_prec (c_fmt c)) (f_scale (c_fmt c)) y))) && (v_status d =? c_status c) &&
                  match y with Some _ => (f_prec (c_fmt c) =? f_prec (c_fmt c)) && (f_scale (c_fmt c) =? f_scale (c_fmt c)) | None => true end = true).
      { rewrite (rt_decimal_indep _ _ _ _ _ _ p0 s0 y Ht Hv), R, Est, !Z.eqb_refl. destruct y; reflexivity. }
      split; [exact G|intros _; exact G].
    + rewrite Dc. exists v'. split; [reflexivity|].
      assert (G : roundtrip_ok (f_dt (c_fmt c)) (f_maxlen (c_fmt c)) (c_val c) (Ok (v_data d)) (Some (Ok v')) &&
                  (v_status d =? c_status c) && true = true) by (rewrite R, Est, Z.eqb_refl; reflexivity).
      split; [exact G|intros _; exact G].
Qed.

Lemma cols_read cs ds : forallb col_claim cs = true -> Forall2 col_good cs ds ->
  exists svs, field_values (map c_fmt cs) ds = Some svs /\
              vals_ok val_raw_ok cs ds svs = true /\
              (forallb col_strict cs = true -> vals_ok val_ok cs ds svs = true).
Proof.
  intros H G. induction G as [|c d cs ds Gc _ IH].
  - exists []. repeat split; reflexivity.
  - cbn [forallb] in H. apply andb_true_iff in H. destruct H as [Hc Hcs].
    destruct (col_read c d Hc Gc) as [v [Ev [Rv Sv]]]. destruct (IH Hcs) as [svs [Es [Rs Ss]]].
    exists ((v_status d, v) :: svs). split; [cbn [map field_values]; rewrite Ev, Es; reflexivity|]. split.
    + cbn [vals_ok]. rewrite Rv, Rs. reflexivity.
    + cbn [forallb vals_ok]. intros Hs. apply andb_true_iff in Hs. destruct Hs as [Hs1 Hs2]. rewrite (Sv Hs1), (Ss Hs2). reflexivity.
Qed.

(* the model satisfies the executable specification of the package leg: strict (Value() is the Go value) for plain,
   precision/scale and IMAGE / XML columns; for all columns, text pointer included, the part val_raw_ok states *)
Theorem pkg_model_meets_spec tok cs : forallb col_claim cs = true ->
  exists wire, leg_write tok cs = Ok wire /\
    leg_judge val_raw_ok tok cs wire (leg_read (map c_fmt cs) (tl wire)) = true /\
    (forallb col_strict cs = true -> leg_judge val_ok tok cs wire (leg_read (map c_fmt cs) (tl wire)) = true).
Proof.
  intros H. destruct (pkg_roundtrip tok cs H) as [ds [body [_ [Ew [Dp G]]]]].
  exists (tok :: body). split; [exact Ew|]. cbn [tl].
  pose proof (Dp []) as D0. rewrite app_nil_r in D0.
  destruct (cols_read cs ds H G) as [svs [Es [Rs Ss]]].
  assert (Ez : (zlen body - zlen (@nil Z) =? zlen body) = true) by (apply Z.eqb_eq; rewrite zlen_nil; lia).
  unfold leg_judge, leg_read. rewrite D0, Es. cbn [r_class r_consumed r_vals].
  rewrite !Z.eqb_refl, Ez. cbn [andb]. split; [exact Rs|exact Ss].
Qed.

(* ------------------------------------------------------------------ the text-pointer family: Value() is NOT the Go value *)
Definition mk_fmt0 (dt status maxlen : Z) : ffmt :=
  {| f_dt := dt; f_name := [99]; f_status := status; f_usertype := 0; f_locale := []; f_maxlen := maxlen; f_prec := 0; f_scale := 0;
     f_blobtype := 0; f_classid := []; f_tabname := [116]; f_label := []; f_cat := []; f_schema := []; f_table := [] |}.
Definition ex_txtptr (dt : Z) (v : value) : col :=
  {| c_fmt := mk_fmt0 dt 0 100; c_status := 0; c_txtptr := [1; 2]; c_ts := [1; 2; 3; 4; 5; 6; 7; 8]; c_val := v |}.

(* witnesses: a UNITEXT value, a TEXT value, NULL *)
Lemma pkg_txtptr_refuted_witness : forall c, In c [ex_txtptr t_UNITEXT (VText [97; 233]); ex_txtptr t_TEXT (VStr [97; 98; 99]); ex_txtptr t_IMAGE VNull] ->
  col_claim c = true /\
  exists wire, leg_write 209 [c] = Ok wire /\ leg_judge val_ok 209 [c] wire (leg_read [c_fmt c] (tl wire)) = false.
Proof.
  intros c [E|[E|[E|[]]]]; subst c; (split; [vm_compute; reflexivity|eexists; split; [vm_compute; reflexivity|vm_compute; reflexivity]]).
Qed.

Lemma pkg_strict_refuted :
  ~ (forall tok cs, forallb col_claim cs = true ->
       exists wire, leg_write tok cs = Ok wire /\ leg_judge val_ok tok cs wire (leg_read (map c_fmt cs) (tl wire)) = true).
Proof.
  intros H. destruct (pkg_txtptr_refuted_witness (ex_txtptr t_UNITEXT (VText [97; 233])) ltac:(left; reflexivity)) as [Hc [wire [Ew Ej]]].
  destruct (H 209 [ex_txtptr t_UNITEXT (VText [97; 233])]) as [wire' [Ew' Ej']].
  - cbn [forallb]. rewrite Hc. reflexivity.
  - rewrite Ew in Ew'. inversion Ew' as [E]. subst wire'. cbn [map] in Ej'. rewrite Ej in Ej'. discriminate.
Qed.

(* ------------------------------------------------------------------ the statement in explicit form *)
Definition col_rt (c : col) (d : fdata) : Prop :=
  let t := f_dt (c_fmt c) in let len := f_maxlen (c_fmt c) in
  enc_value t (c_val c) len = Ok (v_data d) /\ v_status d = c_status c /\
  v_txtptr d = c_txtptr c /\ v_timestamp d = c_ts c /\
  (c_val c = VNull -> v_data d = []) /\
  exists v', dec_value t (v_data d) = Ok v' /\ roundtrip_ok t len (c_val c) (Ok (v_data d)) (Some (Ok v')) = true.

Lemma good_rt cs ds : Forall2 col_good cs ds -> Forall2 col_rt cs ds.
Proof.
  induction 1 as [|c d cs ds G _ IH]; [constructor|]. constructor; [|exact IH].
  destruct G as [_ [G1 [G2 [G3 [G4 [G5 G6]]]]]]. unfold col_rt. auto 10.
Qed.

Theorem pkg_roundtrip_explicit tok cs : forallb col_claim cs = true ->
  exists ds body,
    leg_write tok cs = Ok (tok :: body) /\
    (forall r, dec_params (Some (map c_fmt cs)) (body ++ r) = POk ds r) /\
    Forall2 col_rt cs ds.
Proof.
  intros H. destruct (pkg_roundtrip tok cs H) as [ds [body [_ [Ew [Dp G]]]]].
  exists ds, body. split; [exact Ew|]. split; [exact Dp|exact (good_rt cs ds G)].
Qed.

(* the prefix side condition in terms of the declared maximum length *)
Lemma maxlen_admits_claim c :
  let f := c_fmt c in let t := f_dt f in
  0 <= t < 256 -> data_class t = 1 \/ data_class t = 2 ->
  in_domain t (c_val c) (f_maxlen f) = true \/ null_in t (c_val c) = true ->
  (if has_colstatus f then 0 <= c_status c < 256 else c_status c = 0) ->
  (forall p s x, c_val c = VDec p s (Some x) -> data_class t = 2 -> p = f_prec f /\ s = f_scale f) ->
  c_txtptr c = [] -> c_ts c = [] ->
  maxlen_admits c = true -> col_claim c = true.
Proof.
  intros f t Ht Hc D S P Htp Hts M. subst f t. unfold col_claim. unfold maxlen_admits in M.
  destruct (enc_value (f_dt (c_fmt c)) (c_val c) (f_maxlen (c_fmt c))) as [bs| |]; try discriminate.
  apply andb_true_iff in M. rewrite Htp, Hts.
  assert (C12 : (data_class (f_dt (c_fmt c)) =? 1) || (data_class (f_dt (c_fmt c)) =? 2) = true) by (destruct Hc as [E|E]; rewrite E; reflexivity).
  rewrite C12. cbn [zlen length Z.of_nat Z.eqb andb].
  replace (0 <=? f_dt (c_fmt c)) with true by (symmetry; apply Z.leb_le; lia).
  replace (f_dt (c_fmt c) <? 256) with true by (symmetry; apply Z.ltb_lt; lia).
  replace (in_domain (f_dt (c_fmt c)) (c_val c) (f_maxlen (c_fmt c)) || null_in (f_dt (c_fmt c)) (c_val c)) with true
    by (symmetry; apply orb_true_iff; exact D).
  replace (zlen bs <? len_bound (length_bytes (f_dt (c_fmt c)))) with true by (symmetry; apply Z.ltb_lt; lia).
  rewrite orb_true_r. cbn [andb].
  replace (if has_colstatus (c_fmt c) then (0 <=? c_status c) && (c_status c <? 256) else c_status c =? 0) with true
    by (symmetry; destruct (has_colstatus (c_fmt c)); lia).
  cbn [andb]. rewrite andb_true_r.
  destruct (c_val c) as [|k x|w b|b|b|b|cc|p s [x|]|tm]; try reflexivity.
  destruct (data_class (f_dt (c_fmt c)) =? 2) eqn:C2; [|reflexivity].
  apply Z.eqb_eq in C2. destruct (P p s x eq_refl C2) as [Ep Es]. rewrite Ep, Es, !Z.eqb_refl. reflexivity.
Qed.

(* columns used by the non-vacuity Examples of Props.v *)
Definition ex_fmt (dt status maxlen prec scale : Z) : ffmt :=
  {| f_dt := dt; f_name := [99]; f_status := status; f_usertype := 0; f_locale := []; f_maxlen := maxlen; f_prec := prec; f_scale := scale;
     f_blobtype := 0; f_classid := []; f_tabname := []; f_label := []; f_cat := []; f_schema := []; f_table := [] |}.
Definition ex_col (f : ffmt) (st : Z) (v : value) : col := {| c_fmt := f; c_status := st; c_txtptr := []; c_ts := []; c_val := v |}.
