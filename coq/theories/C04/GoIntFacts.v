(* Facts about the integer/byte layer of the C04 model. *)
From Coq Require Import ZArith List Bool Lia.
Import ListNotations.
From V Require Import Base.Bytes Base.BytesFacts C04.GoInt.
Open Scope Z_scope.

Lemma fast_mod_eq x m : 0 < m -> fast_mod x m = x mod m.
Proof.
  intros Hm. unfold fast_mod.
  destruct ((0 <=? x) && (x <? m)) eqn:E; [|reflexivity].
  apply andb_true_iff in E. destruct E as [E1 E2].
  apply Z.leb_le in E1. apply Z.ltb_lt in E2. symmetry. apply Z.mod_small. lia.
Qed.

Lemma two_p_eq b : two_p b = 2 ^ b.
Proof.
  unfold two_p.
  destruct (b =? 64) eqn:E1; [apply Z.eqb_eq in E1; subst; reflexivity|].
  destruct (b =? 32) eqn:E2; [apply Z.eqb_eq in E2; subst; reflexivity|].
  destruct (b =? 63) eqn:E3; [apply Z.eqb_eq in E3; subst; reflexivity|].
  destruct (b =? 31) eqn:E4; [apply Z.eqb_eq in E4; subst; reflexivity|].
  reflexivity.
Qed.

Lemma wrapu_eq b x : 0 <= b -> wrapu b x = x mod 2 ^ b.
Proof.
  intros Hb. unfold wrapu. rewrite two_p_eq. apply fast_mod_eq. apply Z.pow_pos_nonneg; lia.
Qed.

Lemma wraps_eq b x : 0 <= b -> wraps b x = (x + 2 ^ (b - 1)) mod 2 ^ b - 2 ^ (b - 1).
Proof.
  intros Hb. unfold wraps. rewrite !two_p_eq. rewrite fast_mod_eq; [reflexivity|]. apply Z.pow_pos_nonneg; lia.
Qed.

Lemma wrapu_small b x : 0 <= b -> 0 <= x < 2 ^ b -> wrapu b x = x.
Proof. intros Hb Hx. rewrite wrapu_eq by exact Hb. apply Z.mod_small. exact Hx. Qed.

Lemma wrapu_range b x : 0 <= b -> 0 <= wrapu b x < 2 ^ b.
Proof. intros Hb. rewrite wrapu_eq by exact Hb. apply Z.mod_pos_bound. apply Z.pow_pos_nonneg; lia. Qed.

(* a value in the signed range survives uintN then intN *)
Lemma wraps_wrapu b x : 1 <= b -> - 2 ^ (b - 1) <= x < 2 ^ (b - 1) -> wraps b (wrapu b x) = x.
Proof.
  intros Hb Hx. rewrite wraps_eq, wrapu_eq by lia.
  assert (P : 2 ^ b = 2 * 2 ^ (b - 1)).
  { replace b with (Z.succ (b - 1)) at 1 by lia. rewrite Z.pow_succ_r by lia. reflexivity. }
  assert (Q : 0 < 2 ^ (b - 1)) by (apply Z.pow_pos_nonneg; lia).
  rewrite Zplus_mod_idemp_l. rewrite Z.mod_small by lia. lia.
Qed.

Lemma wraps_small b x : 1 <= b -> - 2 ^ (b - 1) <= x < 2 ^ (b - 1) -> wraps b x = x.
Proof.
  intros Hb Hx. rewrite wraps_eq by lia.
  assert (P : 2 ^ b = 2 * 2 ^ (b - 1)).
  { replace b with (Z.succ (b - 1)) at 1 by lia. rewrite Z.pow_succ_r by lia. reflexivity. }
  rewrite Z.mod_small by lia. lia.
Qed.

Lemma wraps_range b x : 1 <= b -> - 2 ^ (b - 1) <= wraps b x < 2 ^ (b - 1).
Proof.
  intros Hb. rewrite wraps_eq by lia.
  assert (P : 2 ^ b = 2 * 2 ^ (b - 1)).
  { replace b with (Z.succ (b - 1)) at 1 by lia. rewrite Z.pow_succ_r by lia. reflexivity. }
  assert (Q : 0 < 2 ^ (b - 1)) by (apply Z.pow_pos_nonneg; lia).
  pose proof (Z.mod_pos_bound (x + 2 ^ (b - 1)) (2 ^ b) ltac:(lia)) as B. lia.
Qed.

(* ---------- little endian ---------- *)
Lemma le_bytes_eq n : forall v, le_bytes n v = bytes_of_le n v.
Proof.
  induction n as [|n IH]; intros v; [reflexivity|].
  cbn [le_bytes bytes_of_le]. unfold Z.modulo, Z.div.
  destruct (Z.div_eucl v 256) as [q r]. rewrite IH. reflexivity.
Qed.

Lemma zlen_bytes_of_le n v : zlen (bytes_of_le n v) = Z.of_nat n.
Proof.
  revert v. induction n as [|n IH]; intros v; [reflexivity|].
  cbn [bytes_of_le]. rewrite zlen_cons, IH. lia.
Qed.

Lemma le_of_bytes_of_le n : forall v, le_of_bytes (bytes_of_le n v) = v mod 256 ^ Z.of_nat n.
Proof.
  induction n as [|n IH]; intros v.
  - cbn. rewrite Z.mod_1_r. reflexivity.
  - cbn [bytes_of_le le_of_bytes]. rewrite IH.
    rewrite Nat2Z.inj_succ, Z.pow_succ_r by lia.
    rewrite Z.rem_mul_r by (try lia; apply Z.pow_nonzero; lia). lia.
Qed.

Lemma bytes_ok_of_le n : forall v, bytes_ok (bytes_of_le n v) = true.
Proof.
  induction n as [|n IH]; intros v; [reflexivity|].
  cbn [bytes_of_le bytes_ok forallb]. fold (bytes_ok (bytes_of_le n (v / 256))). rewrite IH.
  unfold byte_ok. pose proof (Z.mod_pos_bound v 256 ltac:(lia)) as B.
  destruct (0 <=? v mod 256) eqn:E1; [|apply Z.leb_gt in E1; lia].
  destruct (v mod 256 <? 256) eqn:E2; [reflexivity|apply Z.ltb_ge in E2; lia].
Qed.

Lemma pow256 n : 256 ^ Z.of_nat n = 2 ^ (8 * Z.of_nat n).
Proof. change 256 with (2 ^ 8). rewrite <- Z.pow_mul_r by lia. reflexivity. Qed.

Lemma zlen_le_put n x : zlen (le_put n x) = Z.of_nat n.
Proof. unfold le_put. rewrite le_bytes_eq. apply zlen_bytes_of_le. Qed.

Lemma le_of_le_put n x : le_of_bytes (le_put n x) = x mod 2 ^ (8 * Z.of_nat n).
Proof.
  unfold le_put. rewrite le_bytes_eq, le_of_bytes_of_le, pow256, wrapu_eq by lia.
  apply Z.mod_mod. apply Z.pow_nonzero; lia.
Qed.

Lemma le_of_le_put_u n x : le_of_bytes (le_put n x) = wrapu (8 * Z.of_nat n) x.
Proof. rewrite le_of_le_put, wrapu_eq by lia. reflexivity. Qed.

Lemma bytes_ok_le_put n x : bytes_ok (le_put n x) = true.
Proof. unfold le_put. rewrite le_bytes_eq. apply bytes_ok_of_le. Qed.

Lemma le_put_cons n x : le_put (S n) x = hd 0 (le_put (S n) x) :: tl (le_put (S n) x).
Proof. unfold le_put. rewrite le_bytes_eq. reflexivity. Qed.

(* ztake / zdrop on an append whose first part has the stated length *)
Lemma ztake_app_len {A} n (a b : list A) : zlen a = n -> ztake n (a ++ b) = a.
Proof. intros H. subst n. apply ztake_app_exact. Qed.
Lemma zdrop_app_len {A} n (a b : list A) : zlen a = n -> zdrop n (a ++ b) = b.
Proof. intros H. subst n. apply zdrop_app_exact. Qed.
Lemma ztake_len {A} n (a : list A) : zlen a = n -> ztake n a = a.
Proof. intros H. apply ztake_all. lia. Qed.
