(* The civil calendar functions of the model are inverse to each other on every valid date of EVERY year:
   one 146097-day sweep inside a 400-year era (vm_compute) + linear arithmetic for the era. *)
From Coq Require Import ZArith List Bool Lia.
Import ListNotations.
From V Require Import Base.Range C04.GoInt C04.Calendar C04.RefCalendar.
Open Scope Z_scope.

Definition eq3 (a b : Z * Z * Z) : bool :=
  let '(a1, a2, a3) := a in let '(b1, b2, b3) := b in (a1 =? b1) && (a2 =? b2) && (a3 =? b3).
Lemma eq3_eq a b : eq3 a b = true -> a = b.
Proof.
  destruct a as [[a1 a2] a3], b as [[b1 b2] b3]. unfold eq3. rewrite !andb_true_iff, !Z.eqb_eq.
  intros [[E1 E2] E3]. subst. reflexivity.
Qed.

(* month of the year of a March-based month, and whether it lies in the next January-based year *)
Definition m_of_mp (mp : Z) : Z := if mp <? 10 then mp + 3 else mp - 9.
Definition c_of_mp (mp : Z) : Z := if mp <? 10 then 0 else 1.
Definition mlen (yoe mp : Z) : Z := month_len (yoe + c_of_mp mp) (m_of_mp mp).

Definition era_day_ok (yoe mp d : Z) : bool :=
  let doe := doe_of yoe mp d in
  (0 <=? doe) && (doe <=? 146096) && eq3 (civil_doe doe) (yoe, mp, d).
(* nested sweep over a <- 0..a_hi, b <- 0..b_hi, c <- 1..hi a b, and its generic lifting lemma
   (kept generic in f so that using it never re-evaluates the sweep) *)
Definition sweep3 (f : Z -> Z -> Z -> bool) (hi : Z -> Z -> Z) (a_lo a_hi b_lo b_hi : Z) : bool :=
  forallb (fun a => forallb (fun b => forallb (f a b) (zrange 1 (hi a b))) (zrange b_lo b_hi)) (zrange a_lo a_hi).

Lemma sweep3_spec f hi a_lo a_hi b_lo b_hi : sweep3 f hi a_lo a_hi b_lo b_hi = true ->
  forall a b c, a_lo <= a <= a_hi -> b_lo <= b <= b_hi -> 1 <= c <= hi a b -> f a b c = true.
Proof.
  intros S a b c Ha Hb Hc. unfold sweep3 in S.
  pose proof (forallb_zrange _ _ _ S a Ha) as S1. cbv beta in S1.
  pose proof (forallb_zrange _ _ _ S1 b Hb) as S2. cbv beta in S2.
  exact (forallb_zrange _ _ _ S2 c Hc).
Qed.

Lemma era_sweep : sweep3 era_day_ok mlen 0 399 0 11 = true.
Proof. vm_compute. reflexivity. Qed.

Lemma era_day : forall yoe mp d, 0 <= yoe <= 399 -> 0 <= mp <= 11 -> 1 <= d <= mlen yoe mp ->
  0 <= doe_of yoe mp d <= 146096 /\ civil_doe (doe_of yoe mp d) = (yoe, mp, d).
Proof.
  intros yoe mp d Hy Hm Hd.
  pose proof (sweep3_spec _ _ _ _ _ _ era_sweep yoe mp d Hy Hm Hd) as S3.
  unfold era_day_ok in S3. rewrite !andb_true_iff, !Z.leb_le in S3. destruct S3 as [[B1 B2] E].
  split; [lia|apply eq3_eq; exact E].
Qed.

Lemma leap_period y k : leap (y + 400 * k) = leap y.
Proof.
  unfold leap.
  replace (y + 400 * k) with (y + (100 * k) * 4) at 1 by lia. rewrite Z_mod_plus_full.
  replace (y + 400 * k) with (y + (4 * k) * 100) at 1 by lia. rewrite Z_mod_plus_full.
  replace (y + 400 * k) with (y + k * 400) by lia. rewrite Z_mod_plus_full. reflexivity.
Qed.

Lemma month_len_period y k m : month_len (y + 400 * k) m = month_len y m.
Proof. unfold month_len. rewrite leap_period. reflexivity. Qed.

Lemma month_len_bounds y m : 28 <= month_len y m <= 31.
Proof. unfold month_len. destruct (m =? 2); [destruct (leap y); lia|]. destruct (_ || _); lia. Qed.

Theorem civil_of_days_of_civil : forall y m d, 1 <= m <= 12 -> 1 <= d <= month_len y m ->
  civil_of_days (days_of_civil y m d) = (y, m, d).
Proof.
  intros y m d Hm Hd.
  unfold days_of_civil.
  assert (Q : (m - 1) / 12 = 0) by (apply Z.div_small; lia).
  assert (R : (m - 1) mod 12 + 1 = m) by (rewrite Z.mod_small by lia; lia).
  rewrite Q, R, Z.add_0_r.
  set (y2 := if m <=? 2 then y - 1 else y).
  set (era := y2 / 400).
  set (yoe := y2 - era * 400).
  set (mp := (m + 9) mod 12).
  assert (Hyoe : 0 <= yoe <= 399).
  { unfold yoe, era. pose proof (Z.div_mod y2 400 ltac:(lia)). pose proof (Z.mod_pos_bound y2 400 ltac:(lia)). lia. }
  assert (Hmp : 0 <= mp <= 11) by (unfold mp; pose proof (Z.mod_pos_bound (m + 9) 12 ltac:(lia)); lia).
  assert (Hm' : m_of_mp mp = m /\ c_of_mp mp = (if m <=? 2 then 1 else 0)).
  { unfold m_of_mp, c_of_mp, mp. destruct (m <=? 2) eqn:E.
    - apply Z.leb_le in E. rewrite (Z.mod_small (m + 9)) by lia.
      replace (m + 9 <? 10) with false by (symmetry; apply Z.ltb_ge; lia). lia.
    - apply Z.leb_gt in E. replace (m + 9) with (m - 3 + 1 * 12) by lia. rewrite Z_mod_plus_full.
      rewrite Z.mod_small by lia. replace (m - 3 <? 10) with true by (symmetry; apply Z.ltb_lt; lia). lia. }
  destruct Hm' as [Hm1 Hc1].
  assert (Hlen : mlen yoe mp = month_len y m).
  { unfold mlen. rewrite Hm1, Hc1.
    replace y with ((yoe + (if m <=? 2 then 1 else 0)) + 400 * era).
    - rewrite month_len_period. reflexivity.
    - unfold yoe, y2. destruct (m <=? 2); lia. }
  destruct (era_day yoe mp d Hyoe Hmp ltac:(rewrite Hlen; exact Hd)) as [B E].
  unfold civil_of_days.
  replace (era * 146097 + doe_of yoe mp d - 719468 + 719468) with (doe_of yoe mp d + era * 146097) by lia.
  rewrite Z.div_add by lia. rewrite (Z.div_small (doe_of yoe mp d)) by lia.
  replace (doe_of yoe mp d + era * 146097 - (0 + era) * 146097) with (doe_of yoe mp d) by lia.
  rewrite E. fold (m_of_mp mp). rewrite Hm1.
  f_equal. f_equal. unfold yoe, y2. destruct (m <=? 2); lia.
Qed.
