(* C04 proofs: integers, floats, bit, money, char/binary, NULL. *)
From Coq Require Import ZArith List Bool Lia.
Import ListNotations.
From V Require Import Base.Tree Base.Bytes Base.BytesFacts Base.Range Gen.GenC04
  C04.GoInt C04.GoIntFacts C04.Calendar C04.Utf16 C04.Model C04.Exchange C04.RefCalendar C04.Spec.
Open Scope Z_scope.

Lemma in_range_iff lo hi x : in_range lo hi x = true <-> lo <= x < hi.
Proof. unfold in_range. rewrite andb_true_iff, Z.leb_le, Z.ltb_lt. reflexivity. Qed.

(* ---------- structure of the default arm of Bytes and of the integer arms of GoValue ---------- *)
Lemma enc_default_int t k w x len :
  enc_class_of t = EDefault -> ik_width k = Some w -> (bytesize t = -1 \/ bytesize t = Z.of_nat w) ->
  enc_value t (VInt k x) len = Ok (le_put w x).
Proof.
  intros Hc Hw Hs. unfold enc_value. rewrite Hc. cbn [binary_write]. rewrite Hw. rewrite zlen_le_put.
  destruct Hs as [Hs|Hs]; rewrite Hs.
  - reflexivity.
  - rewrite Z.eqb_refl. rewrite andb_false_r. reflexivity.
Qed.

Lemma read_int_le_put k w x : ik_width k = Some w -> ik_range k x = true -> read_int k (le_put w x) = x.
Proof.
  intros Hw Hr. unfold read_int. rewrite Hw.
  rewrite (ztake_len (Z.of_nat w)) by apply zlen_le_put.
  rewrite le_of_le_put_u.
  destruct k; cbn [ik_width] in Hw; try discriminate; inversion Hw; subst w; cbn [ik_signed ik_range] in *;
    apply in_range_iff in Hr;
    match goal with
    | |- wraps ?b (wrapu ?b' _) = _ => change b' with b; apply wraps_wrapu; [lia|]; cbn; lia
    | |- wrapu ?b _ = _ => apply wrapu_small; [lia|]; cbn; lia
    end.
Qed.

Lemma dec_fixed_int t k w bs :
  dec_class_of t = DInt k -> bytesize t = Z.of_nat w -> zlen bs = Z.of_nat w ->
  dec_value t bs = Ok (VInt k (read_int k bs)).
Proof.
  intros Hc Hs Hl. unfold dec_value. rewrite Hc, Hs, Hl, Z.eqb_refl. rewrite andb_false_r. reflexivity.
Qed.

(* ---------- (1) fixed-width integers ---------- *)
Lemma fixed_int_cases t k : fixed_int_kind t = Some k ->
  (t = t_INT1 /\ k = U8) \/ (t = t_INT2 /\ k = I16) \/ (t = t_INT4 /\ k = I32) \/ (t = t_INT8 /\ k = I64) \/
  (t = t_UINT2 /\ k = U16) \/ (t = t_UINT4 /\ k = U32) \/ (t = t_UINT8 /\ k = U64).
Proof.
  unfold fixed_int_kind. intros H.
  repeat match type of H with
  | (if ?t =? ?c then _ else _) = _ =>
      let E := fresh "E" in destruct (t =? c) eqn:E;
      [apply Z.eqb_eq in E; inversion H; subst; tauto|]
  end. discriminate.
Qed.

Lemma int_roundtrip : forall t k x len, fixed_int_kind t = Some k -> ik_range k x = true ->
  exists bs, enc_value t (VInt k x) len = Ok bs /\ zlen bs = bytesize t /\ bytes_ok bs = true /\
             dec_value t bs = Ok (VInt k x).
Proof.
  intros t k x len Hk Hr.
  destruct (fixed_int_cases t k Hk) as [[Et Ek]|[[Et Ek]|[[Et Ek]|[[Et Ek]|[[Et Ek]|[[Et Ek]|[Et Ek]]]]]]]; subst t k;
  match goal with
  | |- exists bs, enc_value ?t (VInt ?k x) len = _ /\ _ =>
      let w := eval cbv in (match ik_width k with Some w => w | None => O end) in
      exists (le_put w x);
      split; [apply enc_default_int; [reflexivity|reflexivity|right; reflexivity]|];
      split; [rewrite zlen_le_put; reflexivity|];
      split; [apply bytes_ok_le_put|];
      rewrite (dec_fixed_int t k w); [|reflexivity|reflexivity|apply zlen_le_put];
      rewrite (read_int_le_put k w x); [reflexivity|reflexivity|exact Hr]
  end.
Qed.

(* ---------- (2) INTN / UINTN ---------- *)
Definition intn_kind (t : Z) (k : ikind) : Prop :=
  (t = t_INTN /\ (k = U8 \/ k = I16 \/ k = I32 \/ k = I64)) \/
  (t = t_UINTN /\ (k = U8 \/ k = U16 \/ k = U32 \/ k = U64)).

Lemma intn_roundtrip : forall t k x len, intn_kind t k -> ik_range k x = true ->
  exists bs, enc_value t (VInt k x) len = Ok bs /\ bytes_ok bs = true /\ dec_value t bs = Ok (VInt k x).
Proof.
  intros t k x len Hk Hr.
  destruct Hk as [[Et Hk]|[Et Hk]]; subst t;
  repeat (destruct Hk as [Hk|Hk]); subst k;
  match goal with
  | |- exists bs, enc_value ?t (VInt ?k x) len = _ /\ _ =>
      let w := eval cbv in (match ik_width k with Some w => w | None => O end) in
      exists (le_put w x);
      split; [apply enc_default_int; [reflexivity|reflexivity|left; reflexivity]|];
      split; [apply bytes_ok_le_put|];
      unfold dec_value; rewrite zlen_le_put;
      match goal with |- context [dec_class_of ?tt] => let c := eval vm_compute in (dec_class_of tt) in change (dec_class_of tt) with c end;
      match goal with |- context [bytesize ?tt] => change (bytesize tt) with (-1) end;
      cbn [Z.eqb Pos.eqb negb andb Z.of_nat Pos.of_succ_nat Pos.succ];
      rewrite (read_int_le_put k w x); [reflexivity|reflexivity|exact Hr]
  end.
Qed.

(* ---------- (3) floats: bit patterns ---------- *)
Lemma enc_default_flt t w n bits len :
  enc_class_of t = EDefault -> (w = 32 /\ n = 4%nat) \/ (w = 64 /\ n = 8%nat) -> (bytesize t = -1 \/ bytesize t = Z.of_nat n) ->
  enc_value t (VFlt w bits) len = Ok (le_put n bits).
Proof.
  intros Hc Hw Hs. unfold enc_value. rewrite Hc. cbn [binary_write].
  destruct Hw as [[Ew En]|[Ew En]]; subst w n; cbn [Z.eqb Pos.eqb]; rewrite zlen_le_put;
  (destruct Hs as [Hs|Hs]; rewrite Hs; [reflexivity|rewrite Z.eqb_refl, andb_false_r; reflexivity]).
Qed.
Lemma flt_roundtrip : forall t w bits len,
  ((t = t_FLT4 \/ t = t_FLTN) /\ w = 32 /\ 0 <= bits < 2 ^ 32) \/
  ((t = t_FLT8 \/ t = t_FLTN) /\ w = 64 /\ 0 <= bits < 2 ^ 64) ->
  exists bs, enc_value t (VFlt w bits) len = Ok bs /\ zlen bs = w / 8 /\ bytes_ok bs = true /\
             dec_value t bs = Ok (VFlt w bits).
Proof.
  intros t w bits len H.
  destruct H as [[Ht [Ew Hb]]|[Ht [Ew Hb]]]; subst w; destruct Ht as [Et|Et]; subst t.
  - exists (le_put 4 bits). split; [apply (enc_default_flt _ 32 4%nat); [reflexivity|left; split; reflexivity|right; reflexivity]|]. split; [apply zlen_le_put|]. split; [apply bytes_ok_le_put|].
    unfold dec_value. rewrite zlen_le_put. change (dec_class_of t_FLT4) with (DFlt 32). change (bytesize t_FLT4) with 4.
    cbn [Z.eqb Pos.eqb negb andb Z.of_nat Pos.of_succ_nat Pos.succ].
    rewrite le_of_le_put_u. rewrite wrapu_small; [reflexivity|lia|exact Hb].
  - exists (le_put 4 bits). split; [apply (enc_default_flt _ 32 4%nat); [reflexivity|left; split; reflexivity|left; reflexivity]|]. split; [apply zlen_le_put|]. split; [apply bytes_ok_le_put|].
    unfold dec_value. rewrite zlen_le_put. change (dec_class_of t_FLTN) with DFltN. change (bytesize t_FLTN) with (-1).
    cbn [Z.eqb Pos.eqb negb andb Z.of_nat Pos.of_succ_nat Pos.succ].
    rewrite le_of_le_put_u. rewrite wrapu_small; [reflexivity|lia|exact Hb].
  - exists (le_put 8 bits). split; [apply (enc_default_flt _ 64 8%nat); [reflexivity|right; split; reflexivity|right; reflexivity]|]. split; [apply zlen_le_put|]. split; [apply bytes_ok_le_put|].
    unfold dec_value. rewrite zlen_le_put. change (dec_class_of t_FLT8) with (DFlt 64). change (bytesize t_FLT8) with 8.
    cbn [Z.eqb Pos.eqb negb andb Z.of_nat Pos.of_succ_nat Pos.succ].
    rewrite le_of_le_put_u. rewrite wrapu_small; [reflexivity|lia|exact Hb].
  - exists (le_put 8 bits). split; [apply (enc_default_flt _ 64 8%nat); [reflexivity|right; split; reflexivity|left; reflexivity]|]. split; [apply zlen_le_put|]. split; [apply bytes_ok_le_put|].
    unfold dec_value. rewrite zlen_le_put. change (dec_class_of t_FLTN) with DFltN. change (bytesize t_FLTN) with (-1).
    cbn [Z.eqb Pos.eqb negb andb Z.of_nat Pos.of_succ_nat Pos.succ].
    rewrite le_of_le_put_u. rewrite wrapu_small; [reflexivity|lia|exact Hb].
Qed.

(* ---------- (4) BIT ---------- *)
Lemma bit_roundtrip : forall b len,
  exists bs, enc_value t_BIT (VBool b) len = Ok bs /\ zlen bs = 1 /\ dec_value t_BIT bs = Ok (VBool b).
Proof.
  intros b len. exists [if b then 1 else 0]. destruct b; repeat split; reflexivity.
Qed.

(* ---------- (5) money ---------- *)
Lemma big_int64_small x : - 2 ^ 63 <= x < 2 ^ 63 -> big_int64 x = x.
Proof.
  intros Hx. unfold big_int64, u64, i64.
  rewrite wrapu_small; [|lia|lia].
  rewrite Z.mul_comm, Z.abs_sgn.
  apply wraps_small; [lia|exact Hx].
Qed.

Lemma money8_roundtrip : forall t p s x, (t = t_MONEY \/ t = t_MONEYN) -> - 2 ^ 63 <= x < 2 ^ 63 ->
  exists bs, enc_value t (VDec p s (Some x)) 8 = Ok bs /\ zlen bs = 8 /\ bytes_ok bs = true /\
             dec_value t bs = Ok (VDec 20 4 (Some x)).
Proof.
  intros t p s x Ht Hx.
  exists (le_put 4 (x / 4294967296) ++ le_put 4 x).
  assert (E : enc_value t (VDec p s (Some x)) 8 = Ok (le_put 4 (x / 4294967296) ++ le_put 4 x)).
  { destruct Ht as [Et|Et]; subst t; unfold enc_value;
    [change (enc_class_of t_MONEY) with EMoney|change (enc_class_of t_MONEYN) with EMoney];
    cbn [Z.ltb Z.eqb Z.compare Pos.eqb]; rewrite big_int64_small by exact Hx; reflexivity. }
  split; [exact E|].
  assert (L : zlen (le_put 4 (x / 4294967296) ++ le_put 4 x) = 8) by (rewrite zlen_app, !zlen_le_put; reflexivity).
  split; [exact L|].
  split. { unfold bytes_ok. rewrite forallb_app. fold (bytes_ok (le_put 4 (x / 4294967296))). fold (bytes_ok (le_put 4 x)).
           rewrite !bytes_ok_le_put. reflexivity. }
  assert (D : forall tt, dec_class_of tt = DMoney -> (bytesize tt = -1 \/ bytesize tt = 8) ->
              dec_value tt (le_put 4 (x / 4294967296) ++ le_put 4 x) = Ok (VDec 20 4 (Some x))).
  { intros tt Hc Hs. unfold dec_value. rewrite L, Hc.
    replace (negb (bytesize tt =? -1) && negb (8 =? bytesize tt)) with false
      by (destruct Hs as [Hs|Hs]; rewrite Hs; reflexivity).
    cbn [Z.eqb Pos.eqb].
    rewrite (ztake_app_len 4) by apply zlen_le_put. rewrite (zdrop_app_len 4) by apply zlen_le_put.
    rewrite !le_of_le_put. change (8 * Z.of_nat 4) with 32.
    change c_money_precision with 20. change c_money_scale with 4.
    f_equal. f_equal. f_equal. unfold i64. rewrite wraps_eq by lia.
    change (2 ^ 32) with 4294967296. change (2 ^ (64 - 1)) with 9223372036854775808.
    change (2 ^ 64) with 18446744073709551616. change (2 ^ 63) with 9223372036854775808 in Hx.
    Z.div_mod_to_equations. lia. }
  destruct Ht as [Et|Et]; subst t; apply D; try reflexivity; [right|left]; reflexivity.
Qed.

Lemma money4_roundtrip : forall t p s x, (t = t_SHORTMONEY \/ t = t_MONEYN) -> - 2 ^ 31 <= x < 2 ^ 31 ->
  exists bs, enc_value t (VDec p s (Some x)) 4 = Ok bs /\ zlen bs = 4 /\ bytes_ok bs = true /\
             dec_value t bs = Ok (VDec 10 4 (Some x)).
Proof.
  intros t p s x Ht Hx.
  exists (le_put 4 x).
  assert (Hx' : - 2 ^ 63 <= x < 2 ^ 63) by (change (2 ^ 31) with 2147483648 in Hx; change (2 ^ 63) with 9223372036854775808; lia).
  split.
  { destruct Ht as [Et|Et]; subst t; unfold enc_value;
    [change (enc_class_of t_SHORTMONEY) with EMoney|change (enc_class_of t_MONEYN) with EMoney];
    cbn [Z.ltb Z.eqb Z.compare Pos.eqb]; rewrite big_int64_small by exact Hx'; reflexivity. }
  split; [apply zlen_le_put|]. split; [apply bytes_ok_le_put|].
  assert (D : forall tt, dec_class_of tt = DMoney -> (bytesize tt = -1 \/ bytesize tt = 4) ->
              dec_value tt (le_put 4 x) = Ok (VDec 10 4 (Some x))).
  { intros tt Hc Hs. unfold dec_value. rewrite zlen_le_put, Hc.
    replace (negb (bytesize tt =? -1) && negb (Z.of_nat 4 =? bytesize tt)) with false
      by (destruct Hs as [Hs|Hs]; rewrite Hs; reflexivity).
    cbn [Z.eqb Pos.eqb Z.of_nat Pos.of_succ_nat Pos.succ].
    change c_shortmoney_precision with 10. change c_shortmoney_scale with 4.
    f_equal. f_equal. f_equal. rewrite le_of_le_put_u. unfold i32. change (8 * Z.of_nat 4) with 32.
    apply wraps_wrapu; [lia|]. exact Hx. }
  destruct Ht as [Et|Et]; subst t; apply D; try reflexivity; [right|left]; reflexivity.
Qed.

(* ---------- (6) DECN / NUMN: sign byte + minimal big-endian magnitude, any integer ---------- *)
Lemma le_of_bytes_app a : forall b, le_of_bytes (a ++ b) = le_of_bytes a + 256 ^ zlen a * le_of_bytes b.
Proof.
  induction a as [|x a IH]; intros b.
  - cbn [app le_of_bytes]. unfold zlen. cbn [length Z.of_nat]. rewrite Z.pow_0_r. lia.
  - cbn [app le_of_bytes]. rewrite IH, zlen_cons.
    replace (1 + zlen a) with (Z.succ (zlen a)) by lia. rewrite Z.pow_succ_r by apply zlen_nonneg. lia.
Qed.

Lemma be_of_bytes_cons x l : be_of_bytes (x :: l) = 256 ^ zlen l * x + be_of_bytes l.
Proof.
  unfold be_of_bytes. cbn [rev]. rewrite le_of_bytes_app. cbn [le_of_bytes].
  unfold zlen. rewrite rev_length. lia.
Qed.

Lemma be_digits_value : forall k v acc, 0 <= v < 2 ^ Z.of_nat k ->
  be_of_bytes (be_digits k v acc) = v * 256 ^ zlen acc + be_of_bytes acc.
Proof.
  induction k as [|k IH]; intros v acc Hv.
  - cbn [be_digits]. change (2 ^ Z.of_nat 0) with 1 in Hv. replace v with 0 by lia. lia.
  - cbn [be_digits]. destruct (v =? 0) eqn:E.
    + apply Z.eqb_eq in E. subst v. lia.
    + apply Z.eqb_neq in E. rewrite IH.
      * rewrite be_of_bytes_cons, zlen_cons.
        replace (1 + zlen acc) with (Z.succ (zlen acc)) by lia. rewrite Z.pow_succ_r by apply zlen_nonneg.
        pose proof (Z.div_mod v 256 ltac:(lia)) as DM. nia.
      * rewrite Nat2Z.inj_succ, Z.pow_succ_r in Hv by lia. split.
        -- apply Z.div_pos; lia.
        -- apply Z.div_lt_upper_bound; lia.
Qed.

Lemma be_min_value v : 0 <= v -> be_of_bytes (be_min v) = v.
Proof.
  intros Hv. unfold be_min. rewrite be_digits_value.
  - unfold zlen, be_of_bytes. cbn [length Z.of_nat rev le_of_bytes]. rewrite Z.pow_0_r. lia.
  - rewrite Z2Nat.id by (pose proof (Z.log2_nonneg v); lia).
    destruct (Z.eq_dec v 0) as [E|NE].
    + subst v. cbn. lia.
    + split; [exact Hv|]. apply Z.log2_spec. lia.
Qed.

Lemma numeric_roundtrip : forall t p s x len, (t = t_DECN \/ t = t_NUMN) ->
  exists bs, enc_value t (VDec p s (Some x)) len = Ok bs /\ 1 <= zlen bs /\
             hd 0 bs = (if x <? 0 then 1 else 0) /\
             dec_value t bs = Ok (VDec 18 0 (Some x)).
Proof.
  intros t p s x len Ht.
  exists ((if x <? 0 then 1 else 0) :: be_min (Z.abs x)).
  split. { destruct Ht as [Et|Et]; subst t; reflexivity. }
  split. { rewrite zlen_cons. pose proof (zlen_nonneg (be_min (Z.abs x))). lia. }
  split; [reflexivity|].
  assert (D : forall tt, dec_class_of tt = DDec -> bytesize tt = -1 ->
              dec_value tt ((if x <? 0 then 1 else 0) :: be_min (Z.abs x)) = Ok (VDec 18 0 (Some x))).
  { intros tt Hc Hs. unfold dec_value. rewrite Hc, Hs. rewrite Z.eqb_refl. cbn [negb andb].
    rewrite be_min_value by apply Z.abs_nonneg.
    change c_dec_default_precision with 18. change c_dec_default_scale with 0.
    destruct (x <? 0) eqn:E.
    - apply Z.ltb_lt in E. rewrite Z.eqb_refl. do 3 f_equal. lia.
    - apply Z.ltb_ge in E. change (0 =? 1) with false. cbv iota. do 3 f_equal. lia. }
  destruct Ht as [Et|Et]; subst t; apply D; reflexivity.
Qed.

(* ---------- (7) character and binary types: raw bytes, non-empty ---------- *)
Lemma In_is_in t l : In t l -> is_in t l = true.
Proof.
  intros H. unfold is_in. apply existsb_exists. exists t. split; [exact H|apply Z.eqb_refl].
Qed.

Lemma char_roundtrip : forall t bs len, In t char_types -> bs <> [] ->
  enc_value t (VStr bs) len = Ok bs /\ dec_value t bs = Ok (VStr bs).
Proof.
  intros t bs len Ht Hne.
  assert (Hn : (zlen bs =? 0) = false).
  { apply Z.eqb_neq. intros E. apply Hne. apply zlen_zero_nil. exact E. }
  unfold char_types in Ht. cbn [In] in Ht.
  destruct Ht as [E|[E|[E|[E|[]]]]]; subst t; split;
    try reflexivity;
    unfold dec_value;
    match goal with |- context [dec_class_of ?tt] => change (dec_class_of tt) with DChar; change (bytesize tt) with (-1) end;
    cbn [Z.eqb negb andb]; rewrite Hn; reflexivity.
Qed.

Lemma binary_roundtrip : forall t bs len, In t bin_types -> bs <> [] ->
  enc_value t (VBytes bs) len = Ok bs /\ dec_value t bs = Ok (VBytes bs).
Proof.
  intros t bs len Ht Hne.
  assert (Hn : (zlen bs =? 0) = false).
  { apply Z.eqb_neq. intros E. apply Hne. apply zlen_zero_nil. exact E. }
  unfold bin_types in Ht. cbn [In] in Ht.
  destruct Ht as [E|[E|[E|[E|[E|[]]]]]]; subst t; split;
    try reflexivity;
    unfold dec_value;
    match goal with |- context [dec_class_of ?tt] => change (dec_class_of tt) with DBin; change (bytesize tt) with (-1) end;
    cbn [Z.eqb negb andb]; rewrite Hn; reflexivity.
Qed.

(* ---------- (8) NULL ---------- *)
Definition null_ok (t : Z) : bool :=
  implb (nullable t) (match dec_value t [] with Ok v => is_null v | _ => false end).

Lemma null_sweep : forallb null_ok (zrange 0 255) = true.
Proof. vm_compute. reflexivity. Qed.

Lemma lookup_In {A} k (tab : list (Z * A)) v : lookup k tab = Some v -> In k (map fst tab).
Proof.
  induction tab as [|[k' v'] tab IH]; intros H; [discriminate|].
  cbn [lookup] in H. destruct (k =? k') eqn:E.
  - apply Z.eqb_eq in E. left. symmetry. exact E.
  - right. apply IH. exact H.
Qed.

Lemma table_keys : forallb (fun k => (0 <=? k) && (k <=? 255)) (map fst dt_table) = true.
Proof. vm_compute. reflexivity. Qed.

Lemma nullable_code t : nullable t = true -> 0 <= t <= 255.
Proof.
  intros H. unfold nullable, lengthbytes, dt_row in H.
  destruct (lookup t dt_table) as [r|] eqn:E.
  - apply lookup_In in E. pose proof table_keys as K. rewrite forallb_forall in K.
    specialize (K t E). apply andb_true_iff in K. destruct K as [K1 K2].
    apply Z.leb_le in K1. apply Z.leb_le in K2. lia.
  - cbn in H. discriminate.
Qed.

Lemma null_roundtrip : forall t len, nullable t = true ->
  enc_value t VNull len = Ok [] /\ exists v, dec_value t [] = Ok v /\ is_null v = true.
Proof.
  intros t len Hn. split; [reflexivity|].
  pose proof (forallb_zrange null_ok 0 255 null_sweep t (nullable_code t Hn)) as H.
  unfold null_ok in H. rewrite Hn in H. cbn [implb] in H.
  destruct (dec_value t []) as [v| |]; try discriminate. exists v. split; [reflexivity|exact H].
Qed.

(* the library's own NULL of MONEYN / DECN / NUMN (a Decimal without a value) is encoded as NULL again *)
Lemma null_decimal_roundtrip : forall t p s len, (t = t_MONEYN \/ t = t_DECN \/ t = t_NUMN) ->
  dec_value t [] = Ok (VDec 0 0 None) /\ enc_value t (VDec p s None) len = Ok [].
Proof.
  intros t p s len Ht. destruct Ht as [E|[E|E]]; subst t; split; reflexivity.
Qed.
