(* The reference day number ref_index is exactly the number of next_day steps from 0001-01-01
   (for every date ever reached by walking: no bound on the year). *)
From Coq Require Import ZArith List Bool Lia.
Import ListNotations.
From V Require Import C04.RefCalendar.
Open Scope Z_scope.

Lemma leap_cases y : (leap y = true /\ (y mod 4 = 0 /\ (y mod 100 <> 0 \/ y mod 400 = 0))) \/
                     (leap y = false /\ (y mod 4 <> 0 \/ (y mod 100 = 0 /\ y mod 400 <> 0))).
Proof.
  unfold leap.
  destruct (y mod 4 =? 0) eqn:E4; destruct (y mod 100 =? 0) eqn:E100; destruct (y mod 400 =? 0) eqn:E400;
    rewrite ?Z.eqb_eq, ?Z.eqb_neq in *; cbn; tauto.
Qed.

Lemma dby_succ y : days_before_year (y + 1) = days_before_year y + 365 + (if leap y then 1 else 0).
Proof.
  unfold days_before_year. replace (y + 1 - 1) with y by lia.
  destruct (leap_cases y) as [[L H]|[L H]]; rewrite L; Z.div_mod_to_equations; lia.
Qed.

Lemma dbm_succ y m : 1 <= m -> days_before_month y (m + 1) = days_before_month y m + month_len y m.
Proof.
  intros Hm. unfold days_before_month.
  replace (Z.to_nat (m + 1 - 1)) with (S (Z.to_nat (m - 1))) by lia.
  cbn [days_before_month_n]. f_equal. f_equal. lia.
Qed.

Lemma dbm_1 y : days_before_month y 1 = 0.
Proof. reflexivity. Qed.

Lemma dbm_13 y : days_before_month y 13 = 365 + (if leap y then 1 else 0).
Proof.
  unfold days_before_month. change (Z.to_nat (13 - 1)) with 12%nat.
  cbn [days_before_month_n]. unfold month_len.
  cbn [Z.of_nat Pos.of_succ_nat Pos.succ Z.eqb Pos.eqb orb]. destruct (leap y); reflexivity.
Qed.

Lemma valid_date_iff y m d : valid_date (y, m, d) = true <-> (1 <= m <= 12 /\ 1 <= d <= month_len y m).
Proof. unfold valid_date. rewrite !andb_true_iff, !Z.leb_le. lia. Qed.

Lemma month_len_pos y m : 28 <= month_len y m <= 31.
Proof. unfold month_len. destruct (m =? 2); [destruct (leap y); lia|]. destruct (_ || _); lia. Qed.

Lemma ref_index_next dt : valid_date dt = true ->
  ref_index (next_day dt) = ref_index dt + 1 /\ valid_date (next_day dt) = true.
Proof.
  destruct dt as [[y m] d]. intros V. apply valid_date_iff in V. destruct V as [Hm Hd].
  unfold next_day. destruct (d <? month_len y m) eqn:E1.
  - apply Z.ltb_lt in E1. split; [unfold ref_index; lia|apply valid_date_iff; lia].
  - apply Z.ltb_ge in E1. assert (d = month_len y m) by lia. subst d.
    destruct (m <? 12) eqn:E2.
    + apply Z.ltb_lt in E2. split.
      * unfold ref_index. rewrite dbm_succ by lia. lia.
      * apply valid_date_iff. pose proof (month_len_pos y (m + 1)). lia.
    + apply Z.ltb_ge in E2. assert (m = 12) by lia. subst m. split.
      * unfold ref_index. rewrite dby_succ, dbm_1.
        pose proof (dbm_succ y 12 ltac:(lia)) as S. change (12 + 1) with 13 in S. rewrite dbm_13 in S. lia.
      * apply valid_date_iff. pose proof (month_len_pos (y + 1) 1). lia.
Qed.

Theorem ref_index_walk : forall n, ref_index (walk n (1, 1, 1)) = Z.of_nat n /\ valid_date (walk n (1, 1, 1)) = true.
Proof.
  induction n as [|n [IH V]].
  - split; reflexivity.
  - cbn [walk]. destruct (ref_index_next _ V) as [E V']. split; [rewrite E, IH; lia|exact V'].
Qed.

(* more generally from any valid start *)
Lemma ref_index_walk_from : forall n dt, valid_date dt = true ->
  ref_index (walk n dt) = ref_index dt + Z.of_nat n /\ valid_date (walk n dt) = true.
Proof.
  induction n as [|n IH]; intros dt V.
  - split; [cbn [walk]; lia|exact V].
  - cbn [walk]. destruct (IH dt V) as [E V']. destruct (ref_index_next _ V') as [E2 V2].
    split; [rewrite E2, E; lia|exact V2].
Qed.

(* 400-year period of the reference calendar *)
Lemma leap_period400 y k : leap (y + 400 * k) = leap y.
Proof.
  unfold leap.
  replace (y + 400 * k) with (y + (100 * k) * 4) at 1 by lia. rewrite Z_mod_plus_full.
  replace (y + 400 * k) with (y + (4 * k) * 100) at 1 by lia. rewrite Z_mod_plus_full.
  replace (y + 400 * k) with (y + k * 400) by lia. rewrite Z_mod_plus_full. reflexivity.
Qed.

Lemma dbm_period y k m : days_before_month (y + 400 * k) m = days_before_month y m.
Proof.
  unfold days_before_month. induction (Z.to_nat (m - 1)) as [|j IH]; [reflexivity|].
  cbn [days_before_month_n]. rewrite IH. unfold month_len. rewrite leap_period400. reflexivity.
Qed.

Lemma ref_index_period y k m d : ref_index (y + 400 * k, m, d) = ref_index (y, m, d) + 146097 * k.
Proof.
  unfold ref_index. rewrite dbm_period. unfold days_before_year.
  Z.div_mod_to_equations. lia.
Qed.
