(* Agreement of the calendar formulas of the model with the reference calendar:
   - Julian-day formula (jdn, truncating division) and days_of_civil vs ref_index: per-month sweep over
     the years 1..10000 (vm_compute) + linearity in the day;
   - Fliegel / Van Flandern date (MicrosecondsToTime): one 400-year window sweep + 400-year periodicity,
     valid for every year >= 1. *)
From Coq Require Import ZArith List Bool Lia.
Import ListNotations.
From V Require Import Base.Range C04.GoInt C04.Calendar C04.RefCalendar C04.RefCalFacts C04.CalFacts.
Open Scope Z_scope.

Definition sweep2 (f : Z -> Z -> bool) (a_lo a_hi b_lo b_hi : Z) : bool :=
  forallb (fun a => forallb (f a) (zrange b_lo b_hi)) (zrange a_lo a_hi).
Lemma sweep2_spec f a_lo a_hi b_lo b_hi : sweep2 f a_lo a_hi b_lo b_hi = true ->
  forall a b, a_lo <= a <= a_hi -> b_lo <= b <= b_hi -> f a b = true.
Proof.
  intros S a b Ha Hb. unfold sweep2 in S.
  pose proof (forallb_zrange _ _ _ S a Ha) as S1. cbv beta in S1.
  exact (forallb_zrange _ _ _ S1 b Hb).
Qed.

Definition month_ok (y m : Z) : bool :=
  (jdn y m 1 - 1721426 =? ref_index (y, m, 1)) && (days_of_civil y m 1 - day0001 =? ref_index (y, m, 1)).

Lemma month_sweep : sweep2 month_ok 1 10000 1 12 = true.
Proof. vm_compute. reflexivity. Qed.

Lemma jdn_linear y m d : jdn y m d = jdn y m 1 + (d - 1).
Proof. unfold jdn. lia. Qed.
Lemma days_of_civil_linear y m d : days_of_civil y m d = days_of_civil y m 1 + (d - 1).
Proof. unfold days_of_civil, doe_of. lia. Qed.
Lemma ref_index_linear y m d : ref_index (y, m, d) = ref_index (y, m, 1) + (d - 1).
Proof. unfold ref_index. lia. Qed.

(* the Julian-day expression of DurationFromDateTime / TimeToMicroseconds counts days like the reference calendar *)
Theorem jdn_ref : forall y m d, 1 <= y <= 10000 -> 1 <= m <= 12 -> jdn y m d = 1721426 + ref_index (y, m, d).
Proof.
  intros y m d Hy Hm. pose proof (sweep2_spec _ _ _ _ _ month_sweep y m Hy Hm) as S.
  unfold month_ok in S. apply andb_true_iff in S. destruct S as [S _]. apply Z.eqb_eq in S.
  rewrite jdn_linear, (ref_index_linear y m d). lia.
Qed.

Theorem days_of_civil_ref : forall y m d, 1 <= y <= 10000 -> 1 <= m <= 12 ->
  days_of_civil y m d = day0001 + ref_index (y, m, d).
Proof.
  intros y m d Hy Hm. pose proof (sweep2_spec _ _ _ _ _ month_sweep y m Hy Hm) as S.
  unfold month_ok in S. apply andb_true_iff in S. destruct S as [_ S]. apply Z.eqb_eq in S.
  rewrite days_of_civil_linear, (ref_index_linear y m d). lia.
Qed.

(* ---------- Fliegel / Van Flandern ---------- *)
Definition shift_year (k : Z) (dt : Z * Z * Z) : Z * Z * Z := let '(y, m, d) := dt in (y + k, m, d).

Lemma fliegel_period jD : 0 <= jD + 2483590 -> fliegel_date (jD + 146097) = shift_year 400 (fliegel_date jD).
Proof.
  intros H. unfold fliegel_date, shift_year.
  replace (jD + 146097 + 68569 + 2415021) with (jD + 68569 + 2415021 + 146097) by lia.
  set (l0 := jD + 68569 + 2415021). assert (L0 : 0 <= l0) by (unfold l0; lia).
  assert (N : Z.quot (4 * (l0 + 146097)) 146097 = Z.quot (4 * l0) 146097 + 4).
  { rewrite !Z.quot_div_nonneg by lia. replace (4 * (l0 + 146097)) with (4 * l0 + 4 * 146097) by lia.
    apply Z.div_add. lia. }
  rewrite N. set (n := Z.quot (4 * l0) 146097).
  assert (Nn : 0 <= n) by (unfold n; rewrite Z.quot_div_nonneg by lia; apply Z.div_pos; lia).
  assert (L1 : Z.quot (146097 * (n + 4) + 3) 4 = Z.quot (146097 * n + 3) 4 + 146097).
  { rewrite !Z.quot_div_nonneg by lia. replace (146097 * (n + 4) + 3) with (146097 * n + 3 + 146097 * 4) by lia.
    apply Z.div_add. lia. }
  rewrite L1.
  replace (l0 + 146097 - (Z.quot (146097 * n + 3) 4 + 146097)) with (l0 - Z.quot (146097 * n + 3) 4) by lia.
  f_equal. f_equal. lia.
Qed.

Lemma fliegel_period_k : forall k, 0 <= k -> forall jD, 0 <= jD + 2483590 ->
  fliegel_date (jD + 146097 * k) = shift_year (400 * k) (fliegel_date jD).
Proof.
  intros k Hk. pattern k. apply natlike_ind; [| |exact Hk].
  - intros jD H. rewrite Z.mul_0_r, Z.add_0_r. destruct (fliegel_date jD) as [[y m] d]. cbn [shift_year]. f_equal. f_equal. lia.
  - intros j Hj IH jD H.
    replace (jD + 146097 * Z.succ j) with (jD + 146097 * j + 146097) by lia.
    rewrite fliegel_period by lia. rewrite IH by exact H.
    destruct (fliegel_date jD) as [[y m] d]. cbn [shift_year]. f_equal. f_equal. lia.
Qed.

Definition fl_ok (y m d : Z) : bool := eq3 (fliegel_date (ref_index (y, m, d) + 366 - 693961)) (y, m, d).
Lemma fliegel_window : sweep3 fl_ok month_len 1 400 1 12 = true.
Proof. vm_compute. reflexivity. Qed.

(* MicrosecondsToTime's date of day number (reference index + 366 days of year 0) is the date, every year >= 1 *)
Theorem fliegel_ref : forall y m d, 1 <= y -> 1 <= m <= 12 -> 1 <= d <= month_len y m ->
  fliegel_date (ref_index (y, m, d) + 366 - 693961) = (y, m, d).
Proof.
  intros y m d Hy Hm Hd.
  set (k := (y - 1) / 400). set (y0 := y - 400 * k).
  assert (K : 0 <= k) by (unfold k; apply Z.div_pos; lia).
  assert (Y0 : 1 <= y0 <= 400).
  { unfold y0, k. pose proof (Z.div_mod (y - 1) 400 ltac:(lia)). pose proof (Z.mod_pos_bound (y - 1) 400 ltac:(lia)). lia. }
  assert (E : y = y0 + 400 * k) by (unfold y0; lia).
  assert (ML : month_len y m = month_len y0 m) by (rewrite E; apply month_len_period).
  rewrite E at 1. rewrite ref_index_period.
  replace (ref_index (y0, m, d) + 146097 * k + 366 - 693961) with (ref_index (y0, m, d) + 366 - 693961 + 146097 * k) by lia.
  assert (P : 0 <= ref_index (y0, m, d)).
  { unfold ref_index, days_before_year. assert (0 <= days_before_month y0 m).
    { unfold days_before_month. induction (Z.to_nat (m - 1)) as [|j IH]; [cbn; lia|].
      cbn [days_before_month_n]. pose proof (month_len_pos y0 (Z.of_nat (S j))). lia. }
    Z.div_mod_to_equations. lia. }
  rewrite fliegel_period_k by lia.
  pose proof (sweep3_spec _ _ _ _ _ _ fliegel_window y0 m d Y0 Hm ltac:(rewrite <- ML; exact Hd)) as S.
  unfold fl_ok in S. apply eq3_eq in S. rewrite S. cbn [shift_year]. f_equal. f_equal. lia.
Qed.
