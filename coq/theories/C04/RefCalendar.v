(* Reference calendar, written from the definition of the proleptic Gregorian calendar and NOT from
   the Go code: leap years, month lengths, the successor of a date (next_day) and the number of a
   day counted from 0001-01-01.  The day number is given as the usual count of elapsed years,
   leap days and months; C05 proves that it is exactly the number of next_day steps from
   0001-01-01 (C05_ref_index_is_walk).  Used by the specifications of C04 (distance between two
   instants) and C05 (reference layouts).  No proofs here. *)
From Coq Require Import ZArith List Bool.
Import ListNotations.
Open Scope Z_scope.

Definition date := (Z * Z * Z)%type.   (* year, month, day *)

Definition leap (y : Z) : bool := (y mod 4 =? 0) && (negb (y mod 100 =? 0) || (y mod 400 =? 0)).

Definition month_len (y m : Z) : Z :=
  if m =? 2 then (if leap y then 29 else 28)
  else if (m =? 4) || (m =? 6) || (m =? 9) || (m =? 11) then 30 else 31.

Definition valid_date (dt : date) : bool :=
  let '(y, m, d) := dt in (1 <=? m) && (m <=? 12) && (1 <=? d) && (d <=? month_len y m).

Definition next_day (dt : date) : date :=
  let '(y, m, d) := dt in
  if d <? month_len y m then (y, m, d + 1)
  else if m <? 12 then (y, m + 1, 1) else (y + 1, 1, 1).

Fixpoint walk (n : nat) (dt : date) : date :=
  match n with O => dt | S k => next_day (walk k dt) end.

(* days of the months before month m in year y *)
Fixpoint days_before_month_n (y : Z) (k : nat) : Z :=
  match k with O => 0 | S j => days_before_month_n y j + month_len y (Z.of_nat k) end.
Definition days_before_month (y m : Z) : Z := days_before_month_n y (Z.to_nat (m - 1)).

(* days of the years 1 .. y-1: 365 each plus one per leap year *)
Definition days_before_year (y : Z) : Z :=
  let p := y - 1 in 365 * p + p / 4 - p / 100 + p / 400.

(* number of the day, 0001-01-01 = 0 *)
Definition ref_index (dt : date) : Z :=
  let '(y, m, d) := dt in days_before_year y + days_before_month y m + (d - 1).

Definition ref_index_1900 : Z := ref_index (1900, 1, 1).
Definition ref_index_0000 : Z := ref_index (0, 1, 1).

(* nanoseconds since 0001-01-01 00:00 of a civil time given by its fields *)
Definition ref_abs_ns (y m d h mi s ns : Z) : Z :=
  ref_index (y, m, d) * 86400000000000 + h * 3600000000000 + mi * 60000000000 + s * 1000000000 + ns.
