(* C04 proofs: UNITEXT (UTF-16LE) round trip for all lists of Unicode scalar values. *)
From Coq Require Import ZArith List Bool Lia.
Import ListNotations.
From V Require Import Base.Tree Base.Bytes Base.BytesFacts Gen.GenC04
  C04.GoInt C04.GoIntFacts C04.Calendar C04.Utf16 C04.Model C04.Exchange C04.RefCalendar C04.Spec.
Open Scope Z_scope.

Definition unit_ok (u : Z) : Prop := 0 <= u < 65536.

Lemma is_scalar_iff r : is_scalar r = true <-> (0 <= r < 55296 \/ 57344 <= r <= 1114111).
Proof.
  unfold is_scalar, surr1, surr3, max_rune.
  rewrite orb_true_iff, !andb_true_iff, !Z.leb_le, !Z.ltb_lt. reflexivity.
Qed.

Lemma le_to_units_to_le us : Forall unit_ok us -> le_to_units (units_to_le us) = us.
Proof.
  induction us as [|u us IH]; intros H; [reflexivity|].
  inversion H as [|u' us' Hu Hus]; subst.
  cbn [units_to_le flat_map app le_to_units]. fold (units_to_le us). rewrite IH by exact Hus.
  f_equal. unfold unit_ok in Hu.
  rewrite (Z.mod_small (u / 256)) by (split; [apply Z.div_pos; lia|apply Z.div_lt_upper_bound; lia]).
  pose proof (Z.div_mod u 256 ltac:(lia)). lia.
Qed.

Lemma zlen_units_to_le us : zlen (units_to_le us) = 2 * zlen us.
Proof.
  induction us as [|u us IH]; [reflexivity|].
  cbn [units_to_le flat_map app]. fold (units_to_le us). rewrite !zlen_cons, IH. lia.
Qed.

Lemma enc1_units r : is_scalar r = true -> Forall unit_ok (utf16_enc1 r).
Proof.
  intros H. apply is_scalar_iff in H. unfold utf16_enc1, surr1, surr2, surr3, surr_self, max_rune.
  destruct (((0 <=? r) && (r <? 55296)) || ((57344 <=? r) && (r <? 65536))) eqn:E.
  - constructor; [|constructor]. unfold unit_ok.
    rewrite orb_true_iff, !andb_true_iff, !Z.leb_le, !Z.ltb_lt in E. lia.
  - assert (R : 65536 <= r <= 1114111).
    { rewrite orb_false_iff, !andb_false_iff, !Z.leb_gt, !Z.ltb_ge in E. lia. }
    replace ((65536 <=? r) && (r <=? 1114111)) with true
      by (symmetry; apply andb_true_iff; rewrite !Z.leb_le; lia).
    pose proof (Z.mod_pos_bound ((r - 65536) / 1024) 1024 ltac:(lia)).
    pose proof (Z.mod_pos_bound (r - 65536) 1024 ltac:(lia)).
    constructor; [unfold unit_ok; lia|]. constructor; [unfold unit_ok; lia|]. constructor.
Qed.

Lemma encode_units rs : forallb is_scalar rs = true -> Forall unit_ok (utf16_encode rs).
Proof.
  induction rs as [|r rs IH]; intros H; [constructor|].
  cbn [forallb] in H. apply andb_true_iff in H. destruct H as [H1 H2].
  unfold utf16_encode. cbn [flat_map]. apply Forall_app. split; [apply enc1_units; exact H1|apply IH; exact H2].
Qed.

Lemma decode_encode rs : forallb is_scalar rs = true -> utf16_decode (utf16_encode rs) = rs.
Proof.
  induction rs as [|r rs IH]; intros H; [reflexivity|].
  cbn [forallb] in H. apply andb_true_iff in H. destruct H as [H1 H2].
  unfold utf16_encode. cbn [flat_map]. fold (utf16_encode rs).
  apply is_scalar_iff in H1. unfold utf16_enc1, surr1, surr2, surr3, surr_self, max_rune.
  destruct (((0 <=? r) && (r <? 55296)) || ((57344 <=? r) && (r <? 65536))) eqn:E.
  - cbn [app utf16_decode]. unfold surr1, surr3.
    replace ((r <? 55296) || (57344 <=? r)) with true.
    + rewrite IH by exact H2. reflexivity.
    + symmetry. rewrite orb_true_iff, !andb_true_iff, !Z.leb_le, !Z.ltb_lt in E.
      rewrite orb_true_iff, Z.ltb_lt, Z.leb_le. lia.
  - assert (R : 65536 <= r <= 1114111).
    { rewrite orb_false_iff, !andb_false_iff, !Z.leb_gt, !Z.ltb_ge in E. lia. }
    replace ((65536 <=? r) && (r <=? 1114111)) with true
      by (symmetry; apply andb_true_iff; rewrite !Z.leb_le; lia).
    set (v := r - 65536).
    assert (V : 0 <= v < 1048576) by (unfold v; lia).
    assert (Q : 0 <= v / 1024 < 1024) by (split; [apply Z.div_pos; lia|apply Z.div_lt_upper_bound; lia]).
    pose proof (Z.mod_pos_bound v 1024 ltac:(lia)) as M.
    rewrite (Z.mod_small (v / 1024)) by exact Q.
    cbn [app utf16_decode]. unfold surr1, surr2, surr3, surr_self.
    replace ((55296 + v / 1024 <? 55296) || (57344 <=? 55296 + v / 1024)) with false
      by (symmetry; rewrite orb_false_iff, Z.ltb_ge, Z.leb_gt; lia).
    replace ((55296 <=? 55296 + v / 1024) && (55296 + v / 1024 <? 56320)) with true
      by (symmetry; rewrite andb_true_iff, Z.leb_le, Z.ltb_lt; lia).
    replace ((56320 <=? 56320 + v mod 1024) && (56320 + v mod 1024 <? 57344)) with true
      by (symmetry; rewrite andb_true_iff, Z.leb_le, Z.ltb_lt; lia).
    rewrite IH by exact H2. f_equal.
    pose proof (Z.div_mod v 1024 ltac:(lia)). unfold v in *. lia.
Qed.

Lemma string_of_runes_scalar rs : forallb is_scalar rs = true -> string_of_runes rs = rs.
Proof.
  induction rs as [|r rs IH]; intros H; [reflexivity|].
  cbn [forallb] in H. apply andb_true_iff in H. destruct H as [H1 H2].
  unfold string_of_runes. cbn [map]. rewrite H1. fold (string_of_runes rs). rewrite IH by exact H2. reflexivity.
Qed.

Lemma last_nonzero_split l : last_nonzero l = true -> exists l' x, l = l' ++ [x] /\ x <> 0.
Proof.
  induction l as [|a l IH]; intros H; [discriminate|].
  destruct l as [|b l].
  - exists [], a. split; [reflexivity|]. cbn in H. apply negb_true_iff, Z.eqb_neq in H. exact H.
  - change (last_nonzero (b :: l) = true) in H. destruct (IH H) as [l' [x [E N]]].
    exists (a :: l'), x. split; [rewrite E; reflexivity|exact N].
Qed.

Lemma trim_nul_id l : last_nonzero l = true -> trim_nul l = l.
Proof.
  intros H. destruct (last_nonzero_split l H) as [l' [x [E N]]]. subst l.
  unfold trim_nul. rewrite !rev_append_rev, !app_nil_r. rewrite rev_app_distr. cbn [rev app drop_nul].
  apply Z.eqb_neq in N. rewrite N. change (x :: rev l') with (rev [x] ++ rev l').
  rewrite <- rev_app_distr. apply rev_involutive.
Qed.

Lemma utf16_encode_nonempty rs : rs <> [] -> utf16_encode rs <> [].
Proof.
  destruct rs as [|r rs]; intros H; [congruence|].
  unfold utf16_encode. cbn [flat_map]. unfold utf16_enc1.
  destruct (_ || _); [discriminate|]. destruct (_ && _); discriminate.
Qed.

Lemma unitext_roundtrip : forall cps len, cps <> [] -> forallb is_scalar cps = true -> last_nonzero cps = true ->
  enc_value t_UNITEXT (VText cps) len = Ok (units_to_le (utf16_encode cps)) /\
  dec_value t_UNITEXT (units_to_le (utf16_encode cps)) = Ok (VText cps).
Proof.
  intros cps len Hne Hs Hl. split; [reflexivity|].
  unfold dec_value. change (bytesize t_UNITEXT) with (-1). change (dec_class_of t_UNITEXT) with DUnitext.
  cbn [Z.eqb negb andb]. rewrite zlen_units_to_le.
  assert (P : 0 < zlen (utf16_encode cps)).
  { pose proof (zlen_nonneg (utf16_encode cps)) as N.
    destruct (Z.eq_dec (zlen (utf16_encode cps)) 0) as [E|E]; [|lia].
    exfalso. apply (utf16_encode_nonempty cps Hne). apply zlen_zero_nil. exact E. }
  replace (2 * zlen (utf16_encode cps) =? 0) with false by (symmetry; apply Z.eqb_neq; lia).
  replace ((2 * zlen (utf16_encode cps)) mod 2 =? 0) with true
    by (symmetry; apply Z.eqb_eq; rewrite Z.mul_comm; apply Z.mod_mul; lia).
  cbn [negb].
  rewrite le_to_units_to_le by (apply encode_units; exact Hs).
  rewrite decode_encode by exact Hs. rewrite string_of_runes_scalar by exact Hs.
  rewrite trim_nul_id by exact Hl. reflexivity.
Qed.
