(* C04, package leg: "The same holds when the value travels inside a parameter or row package
   together with its format."
   Composition of the value codec (C04/Model.v: enc_value / dec_value, the model of asetypes Bytes / GoValue)
   with the field-data and PARAMS/ROW codec of the package layer (Pkg/Field.v, Pkg/Fmts.v, the model of
   tds/field.go and tds/packageParams.go):

     column = (format, status, [text pointer, timestamp,] Go value)
     leg_write : what ParamsPackage.WriteTo produces for columns whose FieldData carry the Go values
                 (fieldDataBase.writeTo: Bytes(endian, value, fmt.MaxLength()), length prefix, data).
                 For text-pointer columns (TEXT/IMAGE/UNITEXT/XML), which a client never sends, leg_write is the
                 layout of a reference-encoded row field (pointer, timestamp, 4-byte length, enc_value of the value),
                 NOT a model of fieldDataTxtPtr.WriteTo; the harness never runs the client direction on them.
     leg_read  : LookupPackage + LastPkg(format package) + ReadFrom on the bytes after the token, then
                 FieldData.Value() of every field (fieldDataBase.readFrom runs GoValue on the data;
                 fieldDataPrecisionScale.ReadFrom copies precision/scale from the format;
                 fieldDataTxtPtr.ReadFrom stores the RAW data bytes as the value)
     leg_judge : the executable specification applied to what the IMPLEMENTATION produced
                 (Spec.roundtrip_ok on the values that come out, all bytes consumed, status bytes,
                 precision/scale from the format, NULL <-> zero length on the wire)

   Dispatch: fn 20 client direction (value -> WriteTo -> ReadFrom -> Value), fn 21 decode direction from a
   reference-encoded body (strict: Value() must be the Go value), fn 22 decode direction judged by the part that
   holds for the text-pointer family (the delivered bytes are the reference encoding of the value).
   No proofs here. *)
From Coq Require Import ZArith List Bool.
Import ListNotations.
From V Require Import Base.Tree Base.Bytes Base.Parser Pkg.GenTypes Gen.GenPkg Pkg.Field Pkg.Fmts
  Gen.GenC04 C04.Model C04.Exchange C04.Spec.
Open Scope Z_scope.

Record col := { c_fmt : ffmt; c_status : Z; c_txtptr : bytes; c_ts : bytes; c_val : value }.

(* number of values a length prefix of lb bytes can express (readLengthBytes / writeLengthBytes: 4, 2, else 1 byte) *)
Definition len_bound (lb : Z) : Z := if lb =? 4 then 4294967296 else if lb =? 2 then 65536 else 256.

(* ------------------------------------------------------------------ write *)
(* fieldDataBase.writeTo: the value is encoded with the format's maximum length as the 'length' argument *)
Definition col_fdata (c : col) : outcome fdata :=
  match enc_value (f_dt (c_fmt c)) (c_val c) (f_maxlen (c_fmt c)) with
  | Ok bs => Ok {| v_status := c_status c; v_data := bs; v_txtptr := c_txtptr c; v_timestamp := c_ts c;
                   v_serial := 0; v_subclass := []; v_locator := [] |}
  | Err => Err
  | Panic => Panic
  end.

(* fields are written in order; the first failure ends WriteTo *)
Fixpoint cols_fdata (cs : list col) : outcome (list fdata) :=
  match cs with
  | [] => Ok []
  | c :: r =>
      match col_fdata c with
      | Ok d => match cols_fdata r with Ok ds => Ok (d :: ds) | Err => Err | Panic => Panic end
      | Err => Err
      | Panic => Panic
      end
  end.

Definition leg_write (tok : Z) (cs : list col) : outcome bytes :=
  match cols_fdata cs with
  | Ok ds => Ok (enc_params tok (map c_fmt cs) ds)
  | Err => Err
  | Panic => Panic
  end.

(* ------------------------------------------------------------------ read *)
(* FieldData.Value() after ReadFrom *)
Definition field_value (f : ffmt) (d : fdata) : outcome value :=
  let t := f_dt f in
  if data_class t =? 4 then Ok (VBytes (v_data d))                 (* fieldDataTxtPtr: field.value = ch.Bytes(dataLen) *)
  else if data_class t =? 2 then
    match dec_value t (v_data d) with
    | Ok (VDec _ _ x) => Ok (VDec (f_prec f) (f_scale f) x)         (* dec.Precision / dec.Scale from the format *)
    | Ok _ => Err                                                   (* "%T is not of type decimal" *)
    | Err => Err
    | Panic => Panic
    end
  else dec_value t (v_data d).

Fixpoint field_values (fs : list ffmt) (ds : list fdata) : option (list (Z * value)) :=
  match fs, ds with
  | [], [] => Some []
  | f :: fr, d :: dr =>
      match field_value f d, field_values fr dr with
      | Ok v, Some r => Some ((v_status d, v) :: r)
      | _, _ => None
      end
  | _, _ => None
  end.

Record rd := { r_class : Z; r_consumed : Z; r_vals : list (Z * value) }.

Definition leg_read (fs : list ffmt) (body : bytes) : rd :=
  match dec_params (Some fs) body with
  | POk ds r =>
      match field_values fs ds with
      | Some vs => {| r_class := 0; r_consumed := zlen body - zlen r; r_vals := vs |}
      | None => {| r_class := 2; r_consumed := 0; r_vals := [] |}   (* cannot happen while the GoValue table and dec_value agree *)
      end
  | PNeb => {| r_class := 1; r_consumed := 0; r_vals := [] |}
  | PErr _ _ => {| r_class := 2; r_consumed := 0; r_vals := [] |}
  | PPanic => {| r_class := -1; r_consumed := 0; r_vals := [] |}
  end.

(* ------------------------------------------------------------------ domain of the package leg *)
Definition null_in (t : Z) (v : value) : bool := match v with VNull => nullable t | _ => false end.

(* the value lies in the property's domain for its format, and every length fits the width of its prefix *)
Definition col_claim (c : col) : bool :=
  let f := c_fmt c in let t := f_dt f in let v := c_val c in
  (0 <=? t) && (t <? 256) &&
  (in_domain t v (f_maxlen f) || null_in t v) &&
  (if has_colstatus f then (0 <=? c_status c) && (c_status c <? 256) else c_status c =? 0) &&
  (match v with
   | VDec p s (Some _) => if data_class t =? 2 then (p =? f_prec f) && (s =? f_scale f) else true
   | _ => true
   end) &&
  match enc_value t v (f_maxlen f) with
  | Ok bs =>
      if (data_class t =? 1) || (data_class t =? 2)
      then (zlen (c_txtptr c) =? 0) && (zlen (c_ts c) =? 0) && (is_fixed t || (zlen bs <? len_bound (length_bytes t)))
      else if data_class t =? 4
      then (zlen (c_txtptr c) <? 256) && (zlen (c_ts c) =? 8) && (zlen bs <? 4294967296)
      else false
  | _ => false
  end.

Definition col_plain (c : col) : bool := let t := f_dt (c_fmt c) in (data_class t =? 1) || (data_class t =? 2).

(* "the declared max length admits the encoded value" *)
Definition maxlen_admits (c : col) : bool :=
  let f := c_fmt c in
  match enc_value (f_dt f) (c_val c) (f_maxlen f) with
  | Ok bs => (zlen bs <=? f_maxlen f) && (f_maxlen f <? len_bound (length_bytes (f_dt f)))
  | _ => false
  end.

(* ------------------------------------------------------------------ specification *)
(* one column: d is the field as it stands on the wire (decoded by the layout), sv what Value()/Status() gave *)
Definition val_ok (c : col) (d : fdata) (sv : Z * value) : bool :=
  let f := c_fmt c in let t := f_dt f in
  roundtrip_ok t (f_maxlen f) (c_val c) (Ok (v_data d)) (Some (Ok (snd sv))) &&
  (fst sv =? c_status c) &&
  (if data_class t =? 2
   then match snd sv with VDec p s (Some _) => (p =? f_prec f) && (s =? f_scale f) | _ => true end
   else true).

(* the part that holds for text-pointer columns: Value() is exactly the data on the wire, and those bytes decode to
   the value; other columns as val_ok *)
Definition val_raw_ok (c : col) (d : fdata) (sv : Z * value) : bool :=
  let f := c_fmt c in let t := f_dt f in
  if data_class t =? 4 then
    (fst sv =? c_status c) &&
    (match snd sv with VBytes raw => list_Z_eqb raw (v_data d) | _ => false end) &&
    roundtrip_ok t (f_maxlen f) (c_val c) (Ok (v_data d)) (Some (dec_value t (v_data d)))
  else val_ok c d sv.

Fixpoint vals_ok (ok1 : col -> fdata -> Z * value -> bool) (cs : list col) (ds : list fdata) (svs : list (Z * value)) : bool :=
  match cs, ds, svs with
  | [], [], [] => true
  | c :: cr, d :: dr, sv :: sr => ok1 c d sv && vals_ok ok1 cr dr sr
  | _, _, _ => false
  end.

(* wire = everything written, token included.  The framing is judged with the layout decoder of the package
   layer: all bytes belong to the fields, in order. *)
Definition leg_judge (ok1 : col -> fdata -> Z * value -> bool) (tok : Z) (cs : list col) (wire : bytes) (r : rd) : bool :=
  match wire with
  | tok' :: body =>
      (tok' =? tok) &&
      match dec_params (Some (map c_fmt cs)) body with
      | POk ds [] => (r_class r =? 0) && (r_consumed r =? zlen body) && vals_ok ok1 cs ds (r_vals r)
      | _ => false
      end
  | [] => false
  end.

(* ------------------------------------------------------------------ trees *)
Definition col_of_tree (t : tree) : option col :=
  match value_of_tree (t_nth 4 t) with
  | Some v => Some {| c_fmt := ffmt_of_tree (t_nth 0 t); c_status := t_int (t_nth 1 t);
                      c_txtptr := t_bytes (t_nth 2 t); c_ts := t_bytes (t_nth 3 t); c_val := v |}
  | None => None
  end.
Fixpoint cols_of_trees (l : list tree) : option (list col) :=
  match l with
  | [] => Some []
  | t :: r => match col_of_tree t, cols_of_trees r with Some c, Some cs => Some (c :: cs) | _, _ => None end
  end.

Definition rd_tree (r : rd) : tree :=
  TL [TI (r_class r); TI (r_consumed r); TL (map (fun sv : Z * value => TL [TI (fst sv); tree_of_value (snd sv)]) (r_vals r))].

Fixpoint svs_of_trees (l : list tree) : option (list (Z * value)) :=
  match l with
  | [] => Some []
  | t :: r => match value_of_tree (t_nth 1 t), svs_of_trees r with
              | Some v, Some vs => Some ((t_int (t_nth 0 t), v) :: vs)
              | _, _ => None
              end
  end.
Definition rd_of_tree (t : tree) : option rd :=
  match t with
  | TL [TI c; TI n; TL vs] =>
      match svs_of_trees vs with
      | Some l => Some {| r_class := c; r_consumed := n; r_vals := l |}
      | None => None
      end
  | _ => None
  end.

(* input: fn 20 (tok (col ...))   fn 21/22 (tok (col ...) #body)   col = (fmt status #txtptr #timestamp value)
   output: fn 20 ((0 #wire) (class consumed ((status value) ...))) | ((2) ()) | ((-1) ())
           fn 21/22 (class consumed ((status value) ...)) *)
Definition leg_run (fn : Z) (i : tree) : tree :=
  let tok := t_int (t_nth 0 i) in
  match cols_of_trees (t_list (t_nth 1 i)) with
  | None => tbad
  | Some cs =>
      if fn =? 20 then
        match leg_write tok cs with
        | Ok wire => TL [TL [TI 0; TB wire]; rd_tree (leg_read (map c_fmt cs) (tl wire))]
        | Err => TL [TL [TI 2]; TL []]
        | Panic => TL [TL [TI (-1)]; TL []]
        end
      else if (fn =? 21) || (fn =? 22) then rd_tree (leg_read (map c_fmt cs) (t_bytes (t_nth 2 i)))
      else tbad
  end.

Definition leg_spec (fn : Z) (i o : tree) : bool :=
  let tok := t_int (t_nth 0 i) in
  match cols_of_trees (t_list (t_nth 1 i)) with
  | None => false
  | Some cs =>
      if negb (forallb col_claim cs) then true           (* outside the domain: compared with the model only *)
      else if fn =? 20 then
        negb (forallb col_plain cs) ||                     (* a client never sends text-pointer data *)
        match t_nth 0 o, rd_of_tree (t_nth 1 o) with
        | TL [TI 0; TB wire], Some r => leg_judge val_ok tok cs wire r
        | _, _ => false
        end
      else if (fn =? 21) || (fn =? 22) then
        (* the body handed to the implementation is the layout of these columns (checks the harness' reference encoder) *)
        match leg_write tok cs, rd_of_tree o with
        | Ok wire, Some r =>
            list_Z_eqb wire (tok :: t_bytes (t_nth 2 i)) &&
            leg_judge (if fn =? 21 then val_ok else val_raw_ok) tok cs wire r
        | _, _ => false
        end
      else false
  end.

(* dispatch of the whole property: value level (C04/Spec.v) and package leg *)
Definition run_all (fn : Z) (i : tree) : tree := if fn <? 20 then value_run fn i else leg_run fn i.
Definition spec_all (fn : Z) (i o : tree) : bool := if fn <? 20 then value_spec fn i o else leg_spec fn i o.
