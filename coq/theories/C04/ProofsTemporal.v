(* C04 proofs: temporal types. *)
From Coq Require Import ZArith List Bool Lia ZifyBool.
Import ListNotations.
From V Require Import Base.Tree Base.Bytes Base.BytesFacts Base.Range Gen.GenC04
  C04.GoInt C04.GoIntFacts C04.Calendar C04.Utf16 C04.Model C04.Exchange C04.RefCalendar C04.Spec
  C04.RefCalFacts C04.CalFacts C04.CalSweep C04.ProofsScalar.
Open Scope Z_scope.

Ltac Zify.zify_post_hook ::= Z.to_euclidean_division_equations.

(* ---------- validity ---------- *)
Lemma valid_time_iff tm : valid_time tm = true <->
  (1 <= cmo tm <= 12 /\ 1 <= cd tm <= month_len (cy tm) (cmo tm)) /\
  0 <= ch tm < 24 /\ 0 <= cmi tm < 60 /\ 0 <= cs tm < 60 /\ 0 <= cns tm < 1000000000.
Proof.
  unfold valid_time. rewrite !andb_true_iff, !in_range_iff, valid_date_iff. tauto.
Qed.

Definition tod_us (tm : ctime) : Z := ch tm * 3600000000 + cmi tm * 60000000 + cs tm * 1000000 + cns tm / 1000.

Lemma tod_us_bounds tm : valid_time tm = true -> 0 <= tod_us tm < 86400000000.
Proof. intros V. apply valid_time_iff in V. unfold tod_us. lia. Qed.

Lemma tod_ns_bounds tm : valid_time tm = true -> 0 <= tod_ns tm < 86400000000000 /\ tod_us tm = tod_ns tm / 1000.
Proof. intros V. apply valid_time_iff in V. unfold tod_us, tod_ns. lia. Qed.

Lemma dur_from_time_eq tm : valid_time tm = true -> dur_from_time tm = tod_us tm.
Proof.
  intros V. apply valid_time_iff in V. unfold dur_from_time, tod_us.
  rewrite !Z.quot_div_nonneg by lia. lia.
Qed.

Lemma dbm_n_bounds y j : 0 <= days_before_month_n y j <= 31 * Z.of_nat j.
Proof.
  induction j as [|j IH]; [cbn; lia|].
  cbn [days_before_month_n]. pose proof (month_len_pos y (Z.of_nat (S j))). lia.
Qed.
Lemma dbm_bounds y m : 1 <= m -> 0 <= days_before_month y m <= 31 * (m - 1).
Proof.
  intros Hm. unfold days_before_month. pose proof (dbm_n_bounds y (Z.to_nat (m - 1))). lia.
Qed.

Lemma ref_index_bounds y m d : 1 <= y <= 10000 -> 1 <= m <= 12 -> 1 <= d <= 31 -> 0 <= ref_index (y, m, d) <= 3652800.
Proof.
  intros Hy Hm Hd. unfold ref_index, days_before_year. pose proof (dbm_bounds y m ltac:(lia)). lia.
Qed.

Lemma valid_day_le_31 tm : valid_time tm = true -> 1 <= cd tm <= 31.
Proof. intros V. apply valid_time_iff in V. pose proof (month_len_pos (cy tm) (cmo tm)). lia. Qed.

(* DurationFromDateTime counts microseconds from 0000-01-01 = reference day -366 *)
Lemma dur_from_datetime_eq tm : valid_time tm = true -> 1 <= cy tm <= 10000 ->
  dur_from_datetime tm = (ref_index (cy tm, cmo tm, cd tm) + 366) * 86400000000 + tod_us tm.
Proof.
  intros V Hy. pose proof (tod_us_bounds tm V) as B. pose proof (valid_day_le_31 tm V) as D.
  pose proof V as V'. apply valid_time_iff in V'.
  unfold dur_from_datetime. rewrite dur_from_time_eq by exact V. rewrite jdn_ref by lia.
  pose proof (ref_index_bounds (cy tm) (cmo tm) (cd tm) Hy ltac:(lia) D) as R.
  unfold i64. rewrite wraps_small; [lia|lia|]. change (2 ^ (64 - 1)) with 9223372036854775808. lia.
Qed.

Lemma dur_epoch1900_eq : dur_epoch1900 = (693595 + 366) * 86400000000.
Proof. vm_compute. reflexivity. Qed.
Lemma ref_index_1900_eq : ref_index_1900 = 693595.
Proof. vm_compute. reflexivity. Qed.
Lemma day1900_eq : day1900 = day0001 + 693595.
Proof. vm_compute. reflexivity. Qed.
Lemma day0000_eq : day0000 = day0001 - 366.
Proof. vm_compute. reflexivity. Qed.

Lemma split_days_spec q r : 0 <= r < 86400000000 -> split_days (q * 86400000000 + r) = (q, r).
Proof.
  intros Hr. unfold split_days, dur_days, day_us.
  set (d := q * 86400000000 + r).
  destruct (d - Z.quot d 86400000000 * 86400000000 <? 0) eqn:E.
  - apply Z.ltb_lt in E. f_equal; unfold d in *; lia.
  - apply Z.ltb_ge in E. f_equal; unfold d in *; lia.
Qed.

(* ---------- time_of ---------- *)
Lemma time_of_small day ns : 0 <= ns < 86400000000000 ->
  time_of day ns = let '(y, m, d) := civil_of_days day in
                   CT y m d (ns / 3600000000000) (ns / 60000000000 mod 60) (ns / 1000000000 mod 60) (ns mod 1000000000).
Proof.
  intros H. unfold time_of, day_ns.
  replace ((0 <=? ns) && (ns <? 86400000000000)) with true by lia.
  rewrite Z.add_0_r. replace (ns - 0 * 86400000000000) with ns by lia.
  destruct (civil_of_days day) as [[y m] d]. f_equal; lia.
Qed.

Lemma time_of_carry day ns : time_of day ns = time_of (day + ns / 86400000000000) (ns mod 86400000000000).
Proof.
  unfold time_of, day_ns.
  pose proof (Z.mod_pos_bound ns 86400000000000 ltac:(lia)) as B.
  replace ((0 <=? ns mod 86400000000000) && (ns mod 86400000000000 <? 86400000000000)) with true by lia.
  destruct ((0 <=? ns) && (ns <? 86400000000000)) eqn:E.
  - assert (ns / 86400000000000 = 0) by lia. assert (ns mod 86400000000000 = ns) by lia.
    rewrite H, H0, !Z.add_0_r. reflexivity.
  - rewrite !Z.add_0_r. replace (ns mod 86400000000000 - 0 * 86400000000000) with (ns - ns / 86400000000000 * 86400000000000) by lia.
    reflexivity.
Qed.

(* the reference measure of a decoded instant *)
Lemma abs_ns_time_of y m d day ns : civil_of_days day = (y, m, d) -> 0 <= ns < 86400000000000 ->
  abs_ns (time_of day ns) = ref_index (y, m, d) * 86400000000000 + ns /\
  tod_ns (time_of day ns) = ns /\
  (valid_date (y, m, d) = true -> valid_time (time_of day ns) = true).
Proof.
  intros C H. rewrite time_of_small by exact H. rewrite C. unfold abs_ns, ref_abs_ns, tod_ns. cbn [cy cmo cd ch cmi cs cns].
  split; [lia|]. split; [lia|]. intros V. apply valid_time_iff. cbn [cy cmo cd ch cmi cs cns].
  apply valid_date_iff in V. lia.
Qed.

(* civil date of a reference day number inside years 1..10000 *)
Lemma civil_of_ref y m d : 1 <= y <= 10000 -> 1 <= m <= 12 -> 1 <= d <= month_len y m ->
  civil_of_days (day0001 + ref_index (y, m, d)) = (y, m, d).
Proof.
  intros Hy Hm Hd. rewrite <- days_of_civil_ref by lia. apply civil_of_days_of_civil; lia.
Qed.

(* ---------- common pieces of the temporal arms ---------- *)
Definition days1900 (tm : ctime) : Z := ref_index (cy tm, cmo tm, cd tm) - 693595.

Lemma days1900_bounds tm : valid_time tm = true -> 1 <= cy tm <= 10000 -> -693595 <= days1900 tm <= 2959205.
Proof.
  intros V Hy. pose proof V as V'. apply valid_time_iff in V'. pose proof (valid_day_le_31 tm V).
  pose proof (ref_index_bounds (cy tm) (cmo tm) (cd tm) Hy ltac:(lia) ltac:(lia)). unfold days1900. lia.
Qed.

(* the day/rest split the DATE and DATETIME arms compute *)
Lemma enc_split tm : valid_time tm = true -> 1 <= cy tm <= 10000 ->
  split_days (i64 (dur_from_datetime tm - dur_epoch1900)) = (days1900 tm, tod_us tm).
Proof.
  intros V Hy. rewrite dur_from_datetime_eq, dur_epoch1900_eq by assumption.
  pose proof (days1900_bounds tm V Hy) as B. pose proof (tod_us_bounds tm V) as T. unfold days1900 in *.
  replace ((ref_index (cy tm, cmo tm, cd tm) + 366) * 86400000000 + tod_us tm - (693595 + 366) * 86400000000)
    with ((ref_index (cy tm, cmo tm, cd tm) - 693595) * 86400000000 + tod_us tm) by lia.
  unfold i64. rewrite wraps_small; [apply split_days_spec; exact T|lia|].
  change (2 ^ (64 - 1)) with 9223372036854775808. lia.
Qed.

Lemma put_front_exact len w : zlen w = len -> put_front len w = Ok w.
Proof.
  intros H. unfold put_front. rewrite H, Z.ltb_irrefl, Z.sub_diag. unfold zeros. cbn [Z.to_nat repeat]. rewrite app_nil_r. reflexivity.
Qed.

(* the day field read back: int32, times Day, divided by Day *)
Lemma days_field_le_put x : -100000000 <= x <= 100000000 -> days_field (i32 (le_of_bytes (le_put 4 x))) = x.
Proof.
  intros H. rewrite le_of_le_put_u. unfold i32. change (8 * Z.of_nat 4) with 32.
  rewrite wraps_wrapu; [|lia|change (2 ^ (32 - 1)) with 2147483648; lia].
  unfold days_field, i64, dur_days, day_us. rewrite wraps_small; [|lia|change (2 ^ (64 - 1)) with 9223372036854775808; lia].
  apply Z.quot_mul. lia.
Qed.

(* the decoded date of day number days1900 *)
Lemma civil_of_days1900 tm : valid_time tm = true -> 1 <= cy tm <= 10000 ->
  civil_of_days (day1900 + days1900 tm) = (cy tm, cmo tm, cd tm).
Proof.
  intros V Hy. apply valid_time_iff in V. rewrite day1900_eq. unfold days1900.
  replace (day0001 + 693595 + (ref_index (cy tm, cmo tm, cd tm) - 693595)) with (day0001 + ref_index (cy tm, cmo tm, cd tm)) by lia.
  apply civil_of_ref; lia.
Qed.

(* ---------- (9) DATE / DATEN: every day of the years 1..9999 (10000), whatever the time part ---------- *)
Theorem date_roundtrip : forall t tm, (t = t_DATE \/ t = t_DATEN) -> valid_time tm = true -> 1 <= cy tm <= 10000 ->
  enc_value t (VTime tm) 4 = Ok (le_put 4 (days1900 tm)) /\
  dec_value t (le_put 4 (days1900 tm)) = Ok (VTime (CT (cy tm) (cmo tm) (cd tm) 0 0 0 0)).
Proof.
  intros t tm Ht V Hy. pose proof (days1900_bounds tm V Hy) as B.
  split.
  - assert (E : enc_class_of t = EDate) by (destruct Ht; subst t; reflexivity).
    unfold enc_value. rewrite E, enc_split by assumption.
    change (4 <? 0) with false. cbv iota. apply put_front_exact. apply zlen_le_put.
  - assert (C : dec_class_of t = DDate) by (destruct Ht; subst t; reflexivity).
    assert (S : bytesize t = 4 \/ bytesize t = -1) by (destruct Ht; subst t; [left|right]; reflexivity).
    unfold dec_value. rewrite C, zlen_le_put. change (Z.of_nat 4) with 4.
    replace (negb (bytesize t =? -1) && negb (4 =? bytesize t)) with false by (destruct S as [S|S]; rewrite S; reflexivity).
    change (4 =? 0) with false. change (4 =? 4) with true. cbn [negb].
    rewrite days_field_le_put by lia.
    rewrite time_of_small by lia. rewrite (civil_of_days1900 tm) by assumption. reflexivity.
Qed.

(* ---------- ticks ---------- *)
Lemma us_to_frac_eq us : 0 <= us -> us_to_frac us = (6 * us + 10000) / 20000.
Proof.
  intros H. unfold us_to_frac, round_half_away. replace (0 <=? 3 * us) with true by lia.
  f_equal; lia.
Qed.

Lemma frac_to_us_eq s : 0 <= s -> frac_to_us s = (s * 1000 / 300) * 1000.
Proof. intros H. unfold frac_to_us. rewrite Z.quot_div_nonneg by lia. reflexivity. Qed.

Lemma on_tick_iff ns : on_tick ns = true <->
  (ns mod 1000000 = 0 /\ (10 * ((3 * (ns / 1000000) + 5) / 10)) / 3 = ns / 1000000).
Proof.
  unfold on_tick, Z.modulo, Z.div. destruct (Z.div_eucl ns 1000000) as [q r].
  rewrite andb_true_iff, !Z.eqb_eq. reflexivity.
Qed.

Lemma next_day_year y m d y' m' d' : next_day (y, m, d) = (y', m', d') -> y <= y' <= y + 1.
Proof.
  unfold next_day. destruct (d <? month_len y m); [|destruct (m <? 12)]; intros E; inversion E; lia.
Qed.

Lemma ctime_eta tm : tm = CT (cy tm) (cmo tm) (cd tm) (ch tm) (cmi tm) (cs tm) (cns tm).
Proof. destruct tm; reflexivity. Qed.

(* ---------- (10) DATETIME / DATETIMEN(8): every nanosecond of every day of the years 1..9999 ---------- *)
Definition datetime_bytes (tm : ctime) : bytes :=
  let s := us_to_frac (tod_us tm) in
  if s =? 25920000 then le_put 4 (days1900 tm + 1) ++ le_put 4 0 else le_put 4 (days1900 tm) ++ le_put 4 s.

Lemma enc_datetime t tm : (t = t_DATETIME \/ t = t_DATETIMEN) -> valid_time tm = true -> 1 <= cy tm <= 10000 ->
  enc_value t (VTime tm) 8 = Ok (datetime_bytes tm).
Proof.
  intros Ht V Hy.
  assert (E : enc_class_of t = EDateTime) by (destruct Ht; subst t; reflexivity).
  unfold enc_value. rewrite E, enc_split by assumption.
  change (8 <? 0) with false. change (8 =? 4) with false. change (8 =? 8) with true. cbv iota.
  unfold datetime_bytes. destruct (us_to_frac (tod_us tm) =? 25920000); reflexivity.
Qed.

Lemma dec_datetime8 t a b : (t = t_DATETIME \/ t = t_DATETIMEN) -> -100000000 <= a <= 100000000 -> 0 <= b < 4294967296 ->
  dec_value t (le_put 4 a ++ le_put 4 b) = Ok (VTime (time_of (day1900 + a) (frac_to_us b * 1000))).
Proof.
  intros Ht Ha Hb.
  assert (C : dec_class_of t = DDateTime) by (destruct Ht; subst t; reflexivity).
  assert (S : bytesize t = 8 \/ bytesize t = -1) by (destruct Ht; subst t; [left|right]; reflexivity).
  unfold dec_value. rewrite C, zlen_app, !zlen_le_put. change (Z.of_nat 4 + Z.of_nat 4) with 8.
  replace (negb (bytesize t =? -1) && negb (8 =? bytesize t)) with false by (destruct S as [S|S]; rewrite S; reflexivity).
  change (8 =? 0) with false. change (8 =? 4) with false. change (8 =? 8) with true. cbv iota.
  rewrite (ztake_app_len 4) by apply zlen_le_put. rewrite (zdrop_app_len 4) by apply zlen_le_put.
  rewrite days_field_le_put by exact Ha.
  rewrite (le_of_le_put_u 4 b). change (8 * Z.of_nat 4) with 32. rewrite wrapu_small; [reflexivity|lia|change (2 ^ 32) with 4294967296; exact Hb].
Qed.

(* the instant the bytes of tm denote, measured with the reference calendar *)
Definition datetime_abs (tm : ctime) : Z :=
  let s := us_to_frac (tod_us tm) in
  if s =? 25920000 then (ref_index (cy tm, cmo tm, cd tm) + 1) * 86400000000000
  else ref_index (cy tm, cmo tm, cd tm) * 86400000000000 + s * 1000 / 300 * 1000 * 1000.

Theorem datetime_roundtrip_abs : forall t tm, (t = t_DATETIME \/ t = t_DATETIMEN) -> valid_time tm = true -> 1 <= cy tm <= 9999 ->
  enc_value t (VTime tm) 8 = Ok (datetime_bytes tm) /\ zlen (datetime_bytes tm) = 8 /\
  exists tm', dec_value t (datetime_bytes tm) = Ok (VTime tm') /\ valid_time tm' = true /\
              within_tick (abs_ns tm') (abs_ns tm) = true /\ (on_tick (tod_ns tm) = true -> tm' = tm) /\
              abs_ns tm' = datetime_abs tm /\ 1 <= cy tm' <= 10000.
Proof.
  intros t tm Ht V Hy.
  split; [apply enc_datetime; [exact Ht|exact V|lia]|].
  split. { unfold datetime_bytes. destruct (_ =? _); rewrite zlen_app, !zlen_le_put; reflexivity. }
  pose proof (days1900_bounds tm V ltac:(lia)) as B.
  destruct (tod_ns_bounds tm V) as [TB TU]. pose proof (tod_us_bounds tm V) as UB.
  pose proof V as V'. apply valid_time_iff in V'. destruct V' as [[Vm Vd] [Vh [Vmi [Vs Vn]]]].
  assert (ABS : abs_ns tm = ref_index (cy tm, cmo tm, cd tm) * 86400000000000 + tod_ns tm)
    by (unfold abs_ns, ref_abs_ns, tod_ns; lia).
  unfold datetime_bytes. rewrite (us_to_frac_eq (tod_us tm)) by lia.
  set (s := (6 * tod_us tm + 10000) / 20000).
  assert (Sb : 0 <= s <= 25920000) by (unfold s; lia).
  destruct (s =? 25920000) eqn:Es.
  - (* rounded up to the next day *)
    apply Z.eqb_eq in Es.
    rewrite dec_datetime8; [|exact Ht|lia|lia].
    change (frac_to_us 0 * 1000) with 0.
    destruct (next_day (cy tm, cmo tm, cd tm)) as [[y' m'] d'] eqn:N.
    assert (VD : valid_date (cy tm, cmo tm, cd tm) = true) by (apply valid_date_iff; lia).
    destruct (ref_index_next _ VD) as [RI VN]. rewrite N in RI, VN.
    pose proof (next_day_year _ _ _ _ _ _ N) as NY. pose proof VN as VN'. apply valid_date_iff in VN'.
    assert (C : civil_of_days (day1900 + (days1900 tm + 1)) = (y', m', d')).
    { rewrite day1900_eq. unfold days1900.
      replace (day0001 + 693595 + (ref_index (cy tm, cmo tm, cd tm) - 693595 + 1)) with (day0001 + ref_index (y', m', d')) by lia.
      apply civil_of_ref; lia. }
    destruct (abs_ns_time_of y' m' d' _ 0 C ltac:(lia)) as [A [T VT]].
    assert (Y' : cy (time_of (day1900 + (days1900 tm + 1)) 0) = y') by (rewrite time_of_small by lia; rewrite C; reflexivity).
    eexists. split; [reflexivity|]. split; [apply VT; exact VN|]. split; [|split; [|split]].
    + unfold within_tick. rewrite A, ABS, RI. unfold s in Es. lia.
    + intros OT. exfalso. apply on_tick_iff in OT. unfold s in Es. lia.
    + rewrite A. unfold datetime_abs. rewrite (us_to_frac_eq (tod_us tm)) by lia. fold s. rewrite Es. change (25920000 =? 25920000) with true. cbv iota. rewrite RI. lia.
    + rewrite Y'. lia.
  - apply Z.eqb_neq in Es.
    rewrite dec_datetime8; [|exact Ht|lia|lia].
    rewrite frac_to_us_eq by lia.
    set (ns := s * 1000 / 300 * 1000 * 1000).
    assert (NB : 0 <= ns < 86400000000000) by (unfold ns; lia).
    pose proof (civil_of_days1900 tm V ltac:(lia)) as C.
    destruct (abs_ns_time_of _ _ _ _ ns C NB) as [A [T VT]].
    assert (Y' : cy (time_of (day1900 + days1900 tm) ns) = cy tm) by (rewrite time_of_small by exact NB; rewrite C; reflexivity).
    eexists. split; [reflexivity|]. split; [apply VT; apply valid_date_iff; lia|]. split; [|split; [|split; [|rewrite Y'; lia]]].
    + unfold within_tick. rewrite A, ABS. unfold ns, s. lia.
    + intros OT. apply on_tick_iff in OT.
      assert (E : ns = tod_ns tm) by (unfold ns, s; lia).
      rewrite time_of_small by exact NB. rewrite C, E.
      clear - Vh Vmi Vs Vn. destruct tm as [y0 m0 d0 h0 mi0 s0 n0]. unfold tod_ns.
      cbn [cy cmo cd ch cmi cs cns] in *. f_equal; lia.
    + rewrite A. unfold datetime_abs. rewrite (us_to_frac_eq (tod_us tm)) by lia. fold s.
      replace (s =? 25920000) with false by lia. unfold ns. lia.
Qed.

Theorem datetime_roundtrip : forall t tm, (t = t_DATETIME \/ t = t_DATETIMEN) -> valid_time tm = true -> 1 <= cy tm <= 9999 ->
  enc_value t (VTime tm) 8 = Ok (datetime_bytes tm) /\ zlen (datetime_bytes tm) = 8 /\
  exists tm', dec_value t (datetime_bytes tm) = Ok (VTime tm') /\ valid_time tm' = true /\
              within_tick (abs_ns tm') (abs_ns tm) = true /\ (on_tick (tod_ns tm) = true -> tm' = tm).
Proof.
  intros t tm Ht V Hy. destruct (datetime_roundtrip_abs t tm Ht V Hy) as [E [L [tm' [D [V' [W [O _]]]]]]].
  split; [exact E|]. split; [exact L|]. exists tm'. repeat split; assumption.
Qed.

(* ---------- (11) SHORTDATE / DATETIMEN(4): days 0..65535 since 1900-01-01, to the minute ---------- *)
Definition small_bytes (tm : ctime) : bytes := le_put 2 (days1900 tm) ++ le_put 2 (tod_us tm / 60000000).

Theorem small_roundtrip : forall t tm, (t = t_SHORTDATE \/ t = t_DATETIMEN) -> valid_time tm = true -> 1 <= cy tm <= 9999 ->
  0 <= days1900 tm <= 65535 ->
  enc_value t (VTime tm) 4 = Ok (small_bytes tm) /\ zlen (small_bytes tm) = 4 /\
  dec_value t (small_bytes tm) = Ok (VTime (CT (cy tm) (cmo tm) (cd tm) (ch tm) (cmi tm) 0 0)).
Proof.
  intros t tm Ht V Hy Hd.
  pose proof (tod_us_bounds tm V) as UB.
  pose proof V as V'. apply valid_time_iff in V'. destruct V' as [[Vm Vd] [Vh [Vmi [Vs Vn]]]].
  assert (MB : 0 <= tod_us tm / 60000000 < 1440) by lia.
  split.
  - assert (E : enc_class_of t = EDateTime) by (destruct Ht; subst t; reflexivity).
    unfold enc_value. rewrite E, enc_split; [|exact V|lia].
    change (4 <? 0) with false. change (4 =? 4) with true. cbv iota.
    unfold small_bytes, dur_minutes. rewrite Z.quot_div_nonneg by lia. reflexivity.
  - split. { unfold small_bytes. rewrite zlen_app, !zlen_le_put. reflexivity. }
    assert (C : dec_class_of t = DDateTime) by (destruct Ht; subst t; reflexivity).
    assert (S : bytesize t = 4 \/ bytesize t = -1) by (destruct Ht; subst t; [left|right]; reflexivity).
    unfold dec_value, small_bytes. rewrite C, zlen_app, !zlen_le_put. change (Z.of_nat 2 + Z.of_nat 2) with 4.
    replace (negb (bytesize t =? -1) && negb (4 =? bytesize t)) with false by (destruct S as [S|S]; rewrite S; reflexivity).
    change (4 =? 0) with false. change (4 =? 4) with true. cbv iota.
    rewrite (ztake_app_len 2) by apply zlen_le_put. rewrite (zdrop_app_len 2) by apply zlen_le_put.
    rewrite !le_of_le_put_u. change (8 * Z.of_nat 2) with 16.
    rewrite !wrapu_small; [|lia|change (2 ^ 16) with 65536; lia|lia|change (2 ^ 16) with 65536; lia].
    rewrite time_of_small by lia. rewrite civil_of_days1900; [|exact V|lia].
    unfold tod_us in *. do 2 f_equal. f_equal; lia.
Qed.

(* ---------- (12) BIGDATETIMEN / BIGTIMEN: exact to the microsecond ---------- *)
Lemma i64_le_put8 x : 0 <= x < 9223372036854775808 -> i64 (le_of_bytes (le_put 8 x)) = x.
Proof.
  intros H. rewrite le_of_le_put_u. change (8 * Z.of_nat 8) with 64. unfold i64.
  rewrite wrapu_small; [|lia|change (2 ^ 64) with 18446744073709551616; lia].
  apply wraps_small; [lia|]. change (2 ^ (64 - 1)) with 9223372036854775808. lia.
Qed.

Definition bigdatetime_us (tm : ctime) : Z := (ref_index (cy tm, cmo tm, cd tm) + 366) * 86400000000 + tod_us tm.

Theorem bigdatetime_roundtrip : forall tm, valid_time tm = true -> 1 <= cy tm <= 10000 ->
  enc_value t_BIGDATETIMEN (VTime tm) 8 = Ok (le_put 8 (bigdatetime_us tm)) /\
  dec_value t_BIGDATETIMEN (le_put 8 (bigdatetime_us tm)) =
    Ok (VTime (CT (cy tm) (cmo tm) (cd tm) (ch tm) (cmi tm) (cs tm) (cns tm / 1000 * 1000))).
Proof.
  intros tm V Hy.
  pose proof (tod_us_bounds tm V) as UB. pose proof (valid_day_le_31 tm V) as D31.
  pose proof V as V'. apply valid_time_iff in V'. destruct V' as [[Vm Vd] [Vh [Vmi [Vs Vn]]]].
  pose proof (ref_index_bounds (cy tm) (cmo tm) (cd tm) Hy Vm D31) as RB.
  split.
  - unfold enc_value. change (enc_class_of t_BIGDATETIMEN) with EBigDateTime. cbv iota.
    change (8 <? 0) with false. cbv iota. rewrite dur_from_datetime_eq by assumption.
    apply put_front_exact. apply zlen_le_put.
  - unfold dec_value. change (dec_class_of t_BIGDATETIMEN) with DBigDateTime. change (bytesize t_BIGDATETIMEN) with (-1).
    rewrite zlen_le_put. change (Z.of_nat 8) with 8. cbn [Z.eqb negb andb Pos.eqb].
    unfold bigdatetime_us. rewrite i64_le_put8 by lia.
    set (r := ref_index (cy tm, cmo tm, cd tm)) in *.
    assert (Q : dur_days ((r + 366) * 86400000000 + tod_us tm) = r + 366).
    { unfold dur_days, day_us. rewrite Z.quot_div_nonneg by lia. lia. }
    rewrite Q. unfold day_us. rewrite day0000_eq.
    replace (day0001 - 366 + (r + 366)) with (day0001 + r) by lia.
    replace (((r + 366) * 86400000000 + tod_us tm - (r + 366) * 86400000000) * 1000) with (tod_us tm * 1000) by lia.
    rewrite time_of_small by lia. unfold r. rewrite civil_of_ref by lia.
    unfold tod_us in *. do 2 f_equal. f_equal; lia.
Qed.

Lemma civil_day0001 : civil_of_days day0001 = (1, 1, 1).
Proof. vm_compute. reflexivity. Qed.

Theorem bigtime_roundtrip : forall tm, valid_time tm = true ->
  enc_value t_BIGTIMEN (VTime tm) 8 = Ok (le_put 8 (tod_us tm)) /\
  dec_value t_BIGTIMEN (le_put 8 (tod_us tm)) =
    Ok (VTime (CT 1 1 1 (ch tm) (cmi tm) (cs tm) (cns tm / 1000 * 1000))).
Proof.
  intros tm V.
  pose proof (tod_us_bounds tm V) as UB.
  pose proof V as V'. apply valid_time_iff in V'. destruct V' as [[Vm Vd] [Vh [Vmi [Vs Vn]]]].
  split.
  - unfold enc_value. change (enc_class_of t_BIGTIMEN) with EBigTime. cbv iota.
    change (8 <? 0) with false. cbv iota. rewrite dur_from_time_eq by assumption.
    apply put_front_exact. apply zlen_le_put.
  - unfold dec_value. change (dec_class_of t_BIGTIMEN) with DTime. change (bytesize t_BIGTIMEN) with (-1).
    rewrite zlen_le_put. change (Z.of_nat 8) with 8. cbn [Z.eqb negb andb Pos.eqb].
    rewrite i64_le_put8 by lia. unfold i64. rewrite wraps_small; [|lia|change (2 ^ (64 - 1)) with 9223372036854775808; lia].
    rewrite time_of_small by lia. rewrite civil_day0001.
    unfold tod_us in *. do 2 f_equal. f_equal; lia.
Qed.

(* ---------- (13) TIME / TIMEN: 1/300 s ticks, the last half tick of the day saturates ---------- *)
Definition time_ticks (tm : ctime) : Z :=
  let f := us_to_frac (tod_us tm) in if f =? 25920000 then f - 1 else f.

Theorem time_roundtrip : forall t tm, (t = t_TIME \/ t = t_TIMEN) -> valid_time tm = true ->
  enc_value t (VTime tm) 4 = Ok (le_put 4 (time_ticks tm)) /\ 0 <= time_ticks tm < 25920000 /\
  exists tm', dec_value t (le_put 4 (time_ticks tm)) = Ok (VTime tm') /\ valid_time tm' = true /\
    (cy tm', cmo tm', cd tm') = (1, 1, 1) /\
    (tod_us tm < 86399998334 -> within_tick (tod_ns tm') (tod_ns tm) = true) /\
    (86399998334 <= tod_us tm -> tod_ns tm' = 86399996000000) /\
    (on_tick (tod_ns tm) = true -> tod_ns tm' = tod_ns tm) /\
    tod_ns tm' = time_ticks tm * 1000 / 300 * 1000000.
Proof.
  intros t tm Ht V.
  destruct (tod_ns_bounds tm V) as [TB TU]. pose proof (tod_us_bounds tm V) as UB.
  assert (TT : time_ticks tm = (if (6 * tod_us tm + 10000) / 20000 =? 25920000 then 25919999 else (6 * tod_us tm + 10000) / 20000)).
  { unfold time_ticks. rewrite us_to_frac_eq by lia. destruct (_ =? _) eqn:E; [apply Z.eqb_eq in E; rewrite E|]; reflexivity. }
  assert (KB : 0 <= time_ticks tm < 25920000) by (rewrite TT; destruct (_ =? _) eqn:E; lia).
  split.
  - assert (E : enc_class_of t = ETime) by (destruct Ht; subst t; reflexivity).
    unfold enc_value. rewrite E. cbv iota. rewrite dur_from_time_eq by exact V.
    change (4 <? 0) with false. cbv iota. fold (time_ticks tm). apply put_front_exact. apply zlen_le_put.
  - split; [exact KB|].
    assert (C : dec_class_of t = DTime) by (destruct Ht; subst t; reflexivity).
    assert (S : bytesize t = 4 \/ bytesize t = -1) by (destruct Ht; subst t; [left|right]; reflexivity).
    unfold dec_value. rewrite C, zlen_le_put. change (Z.of_nat 4) with 4.
    replace (negb (bytesize t =? -1) && negb (4 =? bytesize t)) with false by (destruct S as [S|S]; rewrite S; reflexivity).
    change (4 =? 0) with false. change (4 =? 4) with true. cbv iota.
    rewrite le_of_le_put_u. change (8 * Z.of_nat 4) with 32. unfold i32.
    rewrite wraps_wrapu; [|lia|change (2 ^ (32 - 1)) with 2147483648; lia].
    rewrite frac_to_us_eq by lia. unfold dur_millis. rewrite Z.quot_div_nonneg by lia.
    set (k := time_ticks tm) in *.
    set (ns := k * 1000 / 300 * 1000 / 1000 * 1000000).
    assert (NB : 0 <= ns < 86400000000000) by (unfold ns; lia).
    destruct (abs_ns_time_of 1 1 1 day0001 ns civil_day0001 NB) as [A [T VT]].
    eexists. split; [reflexivity|]. split; [apply VT; reflexivity|].
    split. { rewrite time_of_small by exact NB. rewrite civil_day0001. reflexivity. }
    rewrite T. split; [|split; [|split]].
    + intros H. unfold within_tick. unfold ns. rewrite TT. destruct (_ =? _) eqn:E; lia.
    + intros H. unfold ns. rewrite TT. destruct (_ =? _) eqn:E; lia.
    + intros OT. apply on_tick_iff in OT. unfold ns. rewrite TT. destruct (_ =? _) eqn:E; lia.
    + unfold ns. lia.
Qed.
