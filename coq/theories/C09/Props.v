(* C09 placeholder; replaced below *)
From Coq Require Import ZArith List Bool.
From V Require Import Login.Model Login.Spec.
Theorem C09_placeholder : True. Proof. exact I. Qed.
Print Assumptions C09_placeholder.
