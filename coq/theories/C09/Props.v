(* C09 — passwords never cross the wire in clear when encryption is negotiated.  Property theorems only.
   Model: Login/Model.v ([wire_of]: every packet login writes, through the tx model of C01; [decide]: how it ends).
   RSA-OAEP is a parameter [enc : key -> plaintext -> call number -> ciphertext]; its strength and crypto/rand are
   outside the model.  The harness owns the private key: it decrypts what was sent and compares the rest of the bytes
   with the model run on the BLINDED configuration (every secret replaced by zeros of the same length). *)
From Coq Require Import ZArith List Bool.
Import ListNotations.
From V Require Import Base.Tree Base.Bytes Gen.GenLogin Pkg.Fmts Pkg.LoginRec C15.Model C01.Model C01.Spec Rx.Model Login.Model Login.Spec Login.Secrecy Login.WireProofs.
Open Scope Z_scope.

(* Non-interference.  Two encrypted logins whose configurations agree on everything but the CONTENTS of the account
   password and the remote-server passwords (same lengths), facing the same replies, and whose ciphertexts coincide, write
   exactly the same bytes: no byte written depends on a secret except through enc.  The k-th plaintext handed to enc is
   nonce ++ secret_at c symkey k: the password, the password of every server, the session key. *)
Theorem C09_noninterference : forall keycap enc1 enc2 sym1 sym2 c1 c2 order rounds,
  with_encryption (lc_encrypt c1) = true -> same_public c1 c2 ->
  (forall pem nonce k, enc1 pem (nonce ++ secret_at c1 sym1 k) k = enc2 pem (nonce ++ secret_at c2 sym2 k) k) ->
  wire_of enc1 keycap sym1 c1 order (decide keycap c1 rounds) = wire_of enc2 keycap sym2 c2 order (decide keycap c2 rounds).
Proof. exact wire_public. Qed.

(* How the login ends - success, which class of error (hence every error text, which interpolates only server data),
   capabilities, packet size - depends on the secrets through their lengths only. *)
Theorem C09_outcome_independent_of_secrets : forall keycap c rounds, decide keycap c rounds = decide keycap (blind c) rounds.
Proof. exact decide_blind. Qed.

(* The complete second message: password, remote passwords and session key travel as enc (nonce ++ secret) only. *)
Theorem C09_second_message_shape : forall keycap enc sym c pem nonce pkgs,
  second_message enc keycap sym c pem nonce = (pkgs, true) ->
  exists rs, remote_cts enc keycap pem nonce 1 (servers c) = Some rs /\
  pkgs = [msg_pkg g_msg_logpwd3; paramfmt_pkg [fmt_longbinary]; longbinary_param (enc pem (nonce ++ secret_at c sym O) O);
          msg_pkg g_msg_rempwd3; paramfmt_pkg (concat (map (fun _ => [fmt_varchar; fmt_longbinary]) rs));
          tok_params :: concat (map (fun r => bytes_of_le 1 (zlen (fst r)) ++ fst r ++ bytes_of_le 4 (zlen (snd r)) ++ snd r) rs);
          msg_pkg g_msg_symkey; paramfmt_pkg [fmt_longbinary];
          longbinary_param (enc pem (nonce ++ secret_at c sym (S (length (servers c)))) (S (length (servers c))))].
Proof. exact second_message_plaintexts. Qed.

(* The login record of every encrypted mode, decoded by the independent TDS 5.0 layout decoder: the password slot and
   the remote-password slot are empty. *)
Theorem C09_record_slots_empty : forall c, enc_mode (lc_encrypt c) = true -> fields_fit c ->
  exists bs f, enc_login c = Some bs /\ parse_login_record bs = Some f /\ lf_password f = [] /\ lf_rempw f = [].
Proof. exact record_slots_empty. Qed.

(* ... and it is what the first message carries: well-formed packets (C01) whose payload is record ++ capabilities *)
Theorem C09_first_message : forall c order, fields_fit c ->
  exists rec w1 st', enc_login c = Some rec /\
    send_message 512 0 g_buf_login (pkgs_chunks [rec; caps_pkg order]) tx0 = Some (w1, st') /\
    tx_ok 512 g_buf_login 0 0 (rec ++ caps_pkg order) w1 = true.
Proof. exact first_message_wire. Qed.

(* The second message is written under a legal packet size (the channel refuses announcements outside 9..65535) and,
   when complete, goes out as well-formed packets (C01) whose payload is exactly the queued packages. *)
Theorem C09_second_message_size : forall keycap c rounds pem nonce ps1,
  d_key (decide keycap c rounds) = Some (pem, nonce, ps1) -> 9 <= ps1 <= 65535.
Proof. exact second_message_size_ok. Qed.
Theorem C09_second_message_wire : forall enc keycap symkey c pem nonce pkgs ps1 st,
  second_message enc keycap symkey c pem nonce = (pkgs, true) -> 9 <= ps1 <= 65535 -> 0 <= tnr st < 256 -> tq st = empty_pq ->
  exists w2 st', send_message ps1 0 g_buf_normal (pkgs_chunks pkgs) st = Some (w2, st') /\
    tx_ok ps1 g_buf_normal 0 (tnr st) (concat pkgs) w2 = true.
Proof. exact second_message_wire. Qed.

(* Control (so that the oracle cannot pass vacuously): without encryption the password IS in its slot. *)
Theorem C09_control_plain_password : forall c, enc_mode (lc_encrypt c) = false -> fields_fit c ->
  exists bs f, enc_login c = Some bs /\ parse_login_record bs = Some f /\ lf_password f = lc_password c.
Proof. exact record_plain_password. Qed.

(* "(the default configuration)": for EVERY combination of the settings of a connection description (TLS enforced or
   not, validation skipped, debug logging, port, network, host, timeouts, database: the 2^10 kinds of lg.InfoOf) the
   configuration tds.NewLoginConfig returns asks for password encryption, so that the theorems above apply to it. *)
Theorem C09_default_config_encrypts : forall mask e, In (mask, e) g_default_encrypt -> with_encryption e = true.
Proof. exact default_config_encrypts. Qed.
Theorem C09_default_config_table_complete : map fst g_default_encrypt = map Z.of_nat (seq 0 1024).
Proof. exact default_config_table_complete. Qed.

Print Assumptions C09_noninterference.
Print Assumptions C09_outcome_independent_of_secrets.
Print Assumptions C09_second_message_shape.
Print Assumptions C09_record_slots_empty.
Print Assumptions C09_first_message.
Print Assumptions C09_control_plain_password.
Print Assumptions C09_second_message_size.
Print Assumptions C09_second_message_wire.
Print Assumptions C09_default_config_encrypts.
Print Assumptions C09_default_config_table_complete.
