(* C03 — each response is delimited by exactly one final DONE and fully drained.  Property theorems only. *)
From Coq Require Import ZArith List Bool.
Import ListNotations.
From V Require Import Base.Tree Base.Bytes Rx.Model Rx.Generic Rx.Proofs Rx.Semantics Rx.Consumer Rx.ConsumerProofs.
Open Scope Z_scope.

(* Producer side, for every history of responses by induction over it: a complete message received in a state that
   remembers no DONE delivers its own packages followed by the synthetic final DONE exactly when its last delivery is
   not a final DONE — also when the message delivers nothing at all — and leaves a state that again remembers no
   DONE and buffers nothing: the invariant under which the next response is received. *)
Theorem C03_message_final_done : forall need nenv l b ess l2, no_done_last l -> parses need nenv l b ess l2 ->
  let own := delivered (concat ess) in
  let ends_final := match rev own with p :: _ => final_pkg p | [] => false end in
  run (rx_step need nenv) l b true =
    (concat ess ++ (if ends_final then [] else [EvSynthDone]),
     {| buf := []; eom := false; lastp := forget_done l2 |}) /\
  no_done_last (forget_done l2).
Proof. exact message_final_done. Qed.

(* Consumer side.  A queue holding a response (packages none of which is a final DONE, then the final DONE)
   followed by anything (the next responses): reading up to the final DONE without callback consumes exactly that
   response. *)
Theorem C03_drain_exactly_one_response : forall pre d rest errs wait fuel eeds, resp_ok pre d -> (S (length pre) < fuel)%nat ->
  exists r, until fuel (pre ++ d :: rest) errs wait None O eeds = (r, rest, errs) /\ (r = UNil \/ r = UNilEof).
Proof. exact until_nil_resp. Qed.

(* When the callback aborts with an error at any package of the response (also at the final DONE itself), the rest
   of the response — and nothing of the next one — is consumed. *)
Theorem C03_callback_error_drains : forall a x b d rest cb errs wait fuel nc eeds,
  resp_ok (a ++ x :: b) d \/ (b = [] /\ x = d /\ resp_ok a d) ->
  is_eed x = false -> continues cb nc a -> cb (nc + shown a)%nat x = CbErr ->
  (2 * (length a + length b) + 4 < fuel)%nat ->
  until fuel (a ++ x :: (match b with [] => (if is_done_final x then [] else [d]) | _ => b ++ [d] end) ++ rest) errs wait (Some cb) nc eeds
  = (UCbError (eeds ++ eeds_of a), rest, errs).
Proof. exact until_cb_error. Qed.

Print Assumptions C03_message_final_done.
Print Assumptions C03_drain_exactly_one_response.
Print Assumptions C03_callback_error_drains.
