(* C18 — pooled names are unique among concurrent holders.
   Property theorems only.  The model (C18/Model.v: atomic steps Get / mint / build name / release / GC drop as
   data, a history = a list of steps issued by any number of threads) is tied to namepool/pool.go + name.go by
   replaying recorded concurrent histories on every run.  `run_steps s ls` = fold_left step ls s. *)
From Coq Require Import ZArith List Bool Lia.
Import ListNotations.
From V Require Import Base.Tree C18.Model C18.Spec C18.Proofs.
Open Scope Z_scope.

(* (1) The invariant (pooled, in-flight and held ids pairwise distinct and so pairwise disjoint, all in
   1..counter, Name objects distinct and non-nil) holds initially ... *)
Theorem C18_invariant_init : inv init.
Proof. exact inv_init. Qed.

(* ... is preserved by EVERY step from every state (a mint needs the uint64 counter not to wrap) ... *)
Theorem C18_invariant_step : forall s l, inv s -> (l = SGet None -> counter s + 1 < two64) -> inv (step s l).
Proof. exact inv_step. Qed.

(* ... hence holds in every state reachable by ANY interleaving of the steps of any number of threads. *)
Theorem C18_invariant_reachable : forall ls, mints ls < two64 -> inv (fold_left step ls init).
Proof. exact inv_reachable. Qed.

(* (2) No two names held at the same time have the same id or the same text; ids are never 0; a held id is
   neither pooled nor in flight; text = format applied to id is how the model builds a Name (name_text). *)
Theorem C18_unique_holders : forall fmt ls h1 h2 id1 id2, mints ls < two64 ->
  In (h1, id1) (live (fold_left step ls init)) -> In (h2, id2) (live (fold_left step ls init)) -> h1 <> h2 ->
  id1 <> id2 /\ name_text fmt id1 <> name_text fmt id2 /\ id1 <> 0 /\ id2 <> 0 /\
  ~ In id1 (free (fold_left step ls init)) /\ ~ In id1 (taken (fold_left step ls init)).
Proof. exact unique_holders_full. Qed.

(* the text determines the id for every format of the modelled class (also without a verb: Sprintf appends
   %!(EXTRA uint64=id)) *)
Theorem C18_text_injective : forall fmt a b, 0 <= a -> 0 <= b -> name_text fmt a = name_text fmt b -> a = b.
Proof. exact name_text_inj. Qed.

(* (2') Format-independent form: whatever the format (any verbs, any length - nothing bounds the text), as long
   as "format applied to id" is injective on the ids a pool can hand out (1 .. 2^64-1), two names held at the
   same time have different texts.  C18_text_injective shows that every format made of literal text, %d and %%
   (the class name_text renders as fmt.Sprintf does) is of this kind. *)
Theorem C18_unique_texts_any_format : forall (rend : Z -> list Z) ls h1 h2 id1 id2,
  (forall a b, 1 <= a < two64 -> 1 <= b < two64 -> rend a = rend b -> a = b) ->
  mints ls < two64 ->
  In (h1, id1) (live (fold_left step ls init)) -> In (h2, id2) (live (fold_left step ls init)) -> h1 <> h2 ->
  rend id1 <> rend id2.
Proof. exact unique_texts_any_render. Qed.

(* (3) Acquire = Get; build: the new Name holds an id that was pooled or is exactly counter+1, never 0, and the
   id is no longer available *)
Theorem C18_acquire : forall s pick h, inv s -> h <> 0 -> hask h (live s) = false -> counter s + 1 < two64 ->
  let id := match pick with Some i => i | None => counter s + 1 end in
  (pick = None \/ In id (free s)) ->
  let s' := fold_left step (acquire_labels pick h id) s in
  live s' = (h, id) :: live s /\ lookup h (live s') = id /\ 1 <= id /\ ~ In id (free s') /\ inv s'.
Proof. exact acquire_spec. Qed.

(* (4) Releasing a held name makes its id available again, clears the name, touches no other name *)
Theorem C18_release : forall s h, inv s -> h <> 0 -> lookup h (live s) <> 0 ->
  let s' := step s (SRelease h) in
  In (lookup h (live s)) (free s') /\ lookup h (live s') = 0 /\
  (forall h', h' <> h -> lookup h' (live s') = lookup h' (live s)) /\
  counter s' = counter s /\ taken s' = taken s /\ inv s'.
Proof. exact release_spec. Qed.

(* (5) Releasing twice is releasing once; releasing nil or a cleared name changes nothing.  (That no id reaches
   two holders through such releases is (1)+(2): the histories there contain any releases whatsoever.) *)
Theorem C18_release_idempotent : forall s h, step (step s (SRelease h)) (SRelease h) = step s (SRelease h).
Proof. exact release_idempotent. Qed.
Theorem C18_release_nil : forall s h, h = 0 \/ lookup h (live s) = 0 -> step s (SRelease h) = s.
Proof. exact release_nil_or_cleared. Qed.

(* (6) A recorded history that the replay accepts is a run of the model and ends in an invariant state *)
Theorem C18_replay_sound : forall strict fmt evs s', replay strict fmt init 0 evs = (None, s') ->
  inv s' /\ exists ls, s' = fold_left step ls init.
Proof. intros strict fmt evs s' H. exact (replay_sound strict fmt evs init 0 s' inv_init H). Qed.

Theorem C18_invb_sound : forall s, invb s = true -> inv s.
Proof. exact invb_sound. Qed.

(* ---- counter-models: what the theorems rest on (none of these is the code) *)

(* without the guard in Release a double release pools the nil id pointer and Get hands it out *)
Example C18_noguard_refuted :
  let s := fold_left step_noguard [SGet None; SBuild 1 1; SRelease 1; SRelease 1; SGet (Some 0)] init in
  In 0 (taken s) /\ ~ inv s.
Proof.
  split; [vm_compute; left; reflexivity|].
  intros I. destruct I as [_ [R _]].
  assert (H : 1 <= 0 <= 1) by (apply R; vm_compute; right; left; reflexivity). lia.
Qed.

(* without clearing the Name: A acquires and releases, B acquires, A releases its stale Name again, C acquires:
   B (Name 2) and C (Name 3) hold the same id *)
Example C18_noclear_refuted :
  let s := fold_left step_noclear
    [SGet None; SBuild 1 1; SRelease 1; SGet (Some 1); SBuild 2 1; SRelease 1; SGet (Some 1); SBuild 3 1] init in
  lookup 2 (live s) = 1 /\ lookup 3 (live s) = 1.
Proof. vm_compute. split; reflexivity. Qed.
(* the same history in the model of the code: C gets a fresh id *)
Example C18_stale_release_ok :
  let s := fold_left step
    [SGet None; SBuild 1 1; SRelease 1; SGet (Some 1); SBuild 2 1; SRelease 1; SGet None; SBuild 3 2] init in
  lookup 2 (live s) = 1 /\ lookup 3 (live s) = 2 /\ free s = [].
Proof. vm_compute. repeat split; reflexivity. Qed.

(* one Name released by two goroutines at the same time (excluded by the ownership assumption; Release is not
   atomic on a shared Name): both pass the guard before either clears *)
Example C18_shared_name_refuted :
  let s := fold_left step_shared
    [L1 (SGet None); L1 (SBuild 1 1); PutOnly 1; PutOnly 1; ClearOnly 1; ClearOnly 1;
     L1 (SGet (Some 1)); L1 (SBuild 2 1); L1 (SGet (Some 1)); L1 (SBuild 3 1)] init in
  lookup 2 (live s) = 1 /\ lookup 3 (live s) = 1.
Proof. vm_compute. split; reflexivity. Qed.

(* the hypothesis on the number of mints is needed: atomic.AddUint64 wraps to 0 *)
Example C18_wrap_refuted :
  taken (step {| counter := two64 - 1; free := []; taken := []; live := [] |} (SGet None)) = [0].
Proof. vm_compute. reflexivity. Qed.

(* non-vacuity: a reachable state with two holders, one pooled id and one id in flight; ids dropped by the GC *)
Example C18_reachable_example :
  let ls := [SGet None; SGet None; SBuild 7 2; SBuild 5 1; SGet None; SBuild 9 3; SRelease 5; SRelease 5; SGet None] in
  let s := fold_left step ls init in
  inv s /\ live s = [(9, 3); (7, 2)] /\ free s = [1] /\ taken s = [4] /\ counter s = 4 /\
  free (step s (SDrop [1])) = [] /\ invb s = true.
Proof.
  cbv zeta. split; [apply C18_invariant_reachable; vm_compute; reflexivity|].
  vm_compute. repeat split; reflexivity.
Qed.
Example C18_text_examples :
  name_text [115; 116; 109; 116; 37; 100] 42 = [115; 116; 109; 116; 52; 50] /\
  name_text [120] 7 = [120; 37; 33; 40; 69; 88; 84; 82; 65; 32; 117; 105; 110; 116; 54; 52; 61; 55; 41].
Proof. vm_compute. split; reflexivity. Qed.

(* a text longer than 255 code points: 254 literal 'a' + %d applied to the two-digit id 10 keeps both digits *)
Example C18_long_format_example :
  length (name_text (repeat 97 254 ++ [37; 100]) 10) = 256%nat /\
  name_text (repeat 97 254 ++ [37; 100]) 10 = repeat 97 254 ++ [49; 48] /\
  name_text (repeat 97 254 ++ [37; 100]) 10 <> name_text (repeat 97 254 ++ [37; 100]) 1.
Proof.
  split; [vm_compute; reflexivity|]. split; [vm_compute; reflexivity|].
  intros H. apply C18_text_injective in H; lia.
Qed.

Print Assumptions C18_invariant_init.
Print Assumptions C18_invariant_step.
Print Assumptions C18_invariant_reachable.
Print Assumptions C18_unique_holders.
Print Assumptions C18_text_injective.
Print Assumptions C18_unique_texts_any_format.
Print Assumptions C18_acquire.
Print Assumptions C18_release.
Print Assumptions C18_release_idempotent.
Print Assumptions C18_release_nil.
Print Assumptions C18_replay_sound.
Print Assumptions C18_invb_sound.
