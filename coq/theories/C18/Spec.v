(* C18 — specification: the invariant of the pool, the independent history monitor, and the dispatch.

   Property text: "Under any interleaving of acquisitions and releases from any number of goroutines, no two
   names held at the same time have the same id or the same text, every name's text is the pool's format
   applied to its id, and ids are never zero.  Releasing a name clears it and makes its id available again;
   releasing it twice, or releasing nil, is harmless and never lets one id be handed to two holders."

   Part 1 (sp_*, written from the property text only, does not use the model): a monitor over a recorded
   history of events  (kind handle id text aux)  in the order of ONE atomic clock.  An Acquire is stamped after
   it returned, a Release before it is called, so the interval in which the monitor considers a name held
   lies inside the interval in which the goroutine really holds it: two monitor-holders of one id are two real
   simultaneous holders.
     kind 1  Acquire returned the Name `handle` (a fresh number) with ID() = id, Name() = text
     kind 2  pool.Release(handle) is about to be called; id/text = what the Name shows now (0 / empty when it is
             cleared or nil); aux = 1 when after the call the Name is cleared (Name() = "", id pointer nil)
     kind 3  handle.Release(), same fields
     kind 5  runtime.GC() marker
     kind 9  a call panicked (never allowed)
   Part 2: the invariant of the model state (inv) and its executable form (invb).
   Part 3: run = replay of the history in the model (every observed Acquire must be explained by ENABLED model
   steps), spec = the monitor. *)
From Coq Require Import ZArith List Bool.
Import ListNotations.
From V Require Import Base.Tree C18.Model.
Open Scope Z_scope.

(* ------------------------------------------------------------------ part 1: independent monitor *)

Definition sp_two64 : Z := 2 ^ 64.

(* decimal digits by repeated division (uint64 has at most 20 digits) *)
Fixpoint sp_dec_aux (fuel : nat) (n : Z) (acc : list Z) : list Z :=
  match fuel with
  | O => acc
  | S f =>
      let acc' := (48 + n mod 10) :: acc in
      if n <? 10 then acc' else sp_dec_aux f (n / 10) acc'
  end.
Definition sp_dec (n : Z) : list Z := sp_dec_aux 25 n [].

Inductive tok : Type := KLit (c : Z) | KVerbD | KPct | KNoVerb | KBad.

Fixpoint tokens (f : list Z) : list tok :=
  match f with
  | [] => []
  | c :: r =>
      if c =? 37 then
        match r with
        | [] => [KNoVerb]
        | v :: r' => (if v =? 100 then KVerbD else if v =? 37 then KPct else KBad) :: tokens r'
        end
      else KLit c :: tokens r
  end.

Definition sp_missing : list Z := [37; 33; 100; 40; 77; 73; 83; 83; 73; 78; 71; 41].
Definition sp_noverb : list Z := [37; 33; 40; 78; 79; 86; 69; 82; 66; 41].
Definition sp_extra : list Z := [37; 33; 40; 69; 88; 84; 82; 65; 32; 117; 105; 110; 116; 54; 52; 61].

Fixpoint emit (ts : list tok) (first : bool) (d : list Z) : list Z :=
  match ts with
  | [] => []
  | KLit c :: r => c :: emit r first d
  | KVerbD :: r => (if first then d else sp_missing) ++ emit r false d
  | KPct :: r => 37 :: emit r first d
  | KNoVerb :: r => sp_noverb ++ emit r first d
  | KBad :: r => (-1) :: emit r first d
  end.

Definition is_verbd (t : tok) : bool := match t with KVerbD => true | _ => false end.

(* "the pool's format applied to the id" *)
Definition spec_text (fmt : list Z) (id : Z) : list Z :=
  let ts := tokens fmt in
  let d := sp_dec id in
  emit ts true d ++ (if existsb is_verbd ts then [] else sp_extra ++ d ++ [41]).

(* holders: (handle, id, text), most recent first *)
Definition holder : Type := (Z * Z * list Z)%type.

Fixpoint sp_find (h : Z) (hs : list holder) : option (Z * list Z) :=
  match hs with
  | [] => None
  | (h', id, t) :: r => if h =? h' then Some (id, t) else sp_find h r
  end.

Definition sp_remove (h : Z) (hs : list holder) : list holder :=
  filter (fun x => match x with (h', _, _) => negb (h' =? h) end) hs.

(* strict = single-goroutine history: the clock order is the exact order of the calls, so a new id is either
   one that was handed out before and is not held (recycled) or exactly one more than every id seen so far *)
Definition sp_acquire_ok (strict : bool) (fmt : list Z) (hs : list holder) (maxid h id : Z) (text : list Z) : bool :=
  (1 <=? id) && (id <? sp_two64) && negb (h =? 0) &&
  forallb (fun x => match x with (h', id', t') => negb (h' =? h) && negb (id' =? id) && negb (list_Z_eqb t' text) end) hs &&
  list_Z_eqb text (spec_text fmt id) &&
  (if strict then id <=? maxid + 1 else true).

Definition sp_release_ok (hs : list holder) (h id : Z) (text : list Z) (aux : Z) : bool :=
  (aux =? 1) &&
  match sp_find h hs with
  | Some (id', t') => negb (h =? 0) && (id =? id') && list_Z_eqb text t'
  | None => (id =? 0) && list_Z_eqb text []
  end.

Fixpoint sp_monitor (strict : bool) (fmt : list Z) (hs : list holder) (maxid : Z) (evs : list tree) : option (list holder) :=
  match evs with
  | [] => Some hs
  | TL [TI k; TI h; TI id; TB text; TI aux] :: r =>
      match k with
      | 1 => if sp_acquire_ok strict fmt hs maxid h id text && (aux =? 0)
             then sp_monitor strict fmt ((h, id, text) :: hs) (Z.max maxid id) r else None
      | 2 | 3 => if sp_release_ok hs h id text aux
             then sp_monitor strict fmt (sp_remove h hs) maxid r else None
      | 5 => sp_monitor strict fmt hs maxid r
      | _ => None
      end
  | _ => None
  end.

Definition holder_tree (x : holder) : tree :=
  match x with (h, id, t) => TL [TI h; TI id; TB t] end.

(* the names still held at the end, read back from the objects by the harness, must be the monitor's holders *)
Definition sp_check (strict : bool) (i o : tree) : bool :=
  match sp_monitor strict (t_bytes (t_nth 0 i)) [] 0 (t_list (t_nth 1 i)) with
  | None => false
  | Some hs => tree_eqb o (TL [TI 1; TL (map holder_tree (rev hs)); TL []])
  end.

(* ------------------------------------------------------------------ part 2: the invariant *)

Definition ids_of (s : pstate) : list Z := free s ++ taken s ++ map snd (live s).

(* pooled, in-flight and held ids are pairwise distinct (hence pairwise disjoint), all in 1..counter (never 0),
   Name objects are distinct and never nil *)
Definition inv (s : pstate) : Prop :=
  NoDup (ids_of s) /\
  (forall x, In x (ids_of s) -> 1 <= x <= counter s) /\
  NoDup (map fst (live s)) /\
  ~ In 0 (map fst (live s)) /\
  0 <= counter s < two64.

Fixpoint nodupb (l : list Z) : bool :=
  match l with
  | [] => true
  | x :: r => negb (memz x r) && nodupb r
  end.

Definition invb (s : pstate) : bool :=
  nodupb (ids_of s) &&
  forallb (fun x => (1 <=? x) && (x <=? counter s)) (ids_of s) &&
  nodupb (map fst (live s)) &&
  negb (memz 0 (map fst (live s))) &&
  (0 <=? counter s) && (counter s <? two64).

(* ------------------------------------------------------------------ part 3: replay in the model *)

Record event : Type := mkE { ek : Z; eh : Z; eid : Z; etext : list Z; eaux : Z }.

Definition ev_of_tree (t : tree) : event :=
  match t with
  | TL [TI k; TI h; TI id; TB tx; TI a] => mkE k h id tx a
  | _ => mkE (-1) 0 0 [] 0
  end.

Definition max_inflight : Z := 100000.

(* the model steps that explain an observed event; strict = sequential history (no call is in flight when
   another returns): a new id must be pooled or exactly counter+1.  In a concurrent history mints may be
   stamped out of order: an id above the counter means the ids in between were minted by Acquire calls that
   have not returned yet (they stay in `taken` until their own event arrives). *)
Definition explain (strict : bool) (s : pstate) (e : event) : option (list label) :=
  match ek e with
  | 1 =>
      let id := eid e in
      if memz id (taken s) then (if strict then None else Some [SBuild (eh e) id])
      else if memz id (free s) then Some (acquire_labels (Some id) (eh e) id)
      else if strict then (if id =? counter s + 1 then Some (acquire_labels None (eh e) id) else None)
      else if (counter s <? id) && (id - counter s <=? max_inflight)
           then Some (repeat (SGet None) (Z.to_nat (id - counter s)) ++ [SBuild (eh e) id])
           else None
  | 2 | 3 => Some (release_labels (eh e))
  | 5 => Some []
  | _ => None
  end.

Fixpoint exec_checked (s : pstate) (ls : list label) : option pstate :=
  match ls with
  | [] => Some s
  | l :: r => if enabled s l then exec_checked (step s l) r else None
  end.

(* what the model predicts the goroutine observes at this event (s before, s' after) *)
Definition obs_ok (fmt : list Z) (s s' : pstate) (e : event) : bool :=
  match ek e with
  | 1 => (lookup (eh e) (live s') =? eid e) && list_Z_eqb (etext e) (name_text fmt (eid e)) && (eaux e =? 0)
  | 2 | 3 =>
      let id := if eh e =? 0 then 0 else lookup (eh e) (live s) in
      (eid e =? id) &&
      list_Z_eqb (etext e) (if id =? 0 then [] else name_text fmt id) &&
      (eaux e =? (if lookup (eh e) (live s') =? 0 then 1 else 0))
  | _ => true
  end.

Fixpoint replay (strict : bool) (fmt : list Z) (s : pstate) (n : Z) (evs : list event) : option (Z * event) * pstate :=
  match evs with
  | [] => (None, s)
  | e :: r =>
      match explain strict s e with
      | None => (Some (n, e), s)
      | Some ls =>
          match exec_checked s ls with
          | None => (Some (n, e), s)
          | Some s' => if obs_ok fmt s s' e then replay strict fmt s' (n + 1) r else (Some (n, e), s)
          end
      end
  end.

Definition run_history (strict : bool) (i : tree) : tree :=
  let fmt := t_bytes (t_nth 0 i) in
  match replay strict fmt init 0 (map ev_of_tree (t_list (t_nth 1 i))) with
  | (None, s) =>
      TL [TI 1;
          TL (map (fun p => TL [TI (fst p); TI (snd p); TB (name_text fmt (snd p))]) (rev (live s)));
          TL (map TI (taken s))]
  | (Some (n, e), _) => TL [TI 0; TL [TI n; TI (ek e); TI (eh e); TI (eid e)]]
  end.

(* fn 1: history recorded from 1..64 goroutines     input (format events)  output (1 held-names ())
   fn 2: history of a single goroutine (strict replay, strict monitor)
   fn 3: Sprintf only: input (format id), output text *)
Definition run (fn : Z) (i : tree) : tree :=
  match fn with
  | 1 => run_history false i
  | 2 => run_history true i
  | 3 => TB (name_text (t_bytes (t_nth 0 i)) (t_int (t_nth 1 i)))
  | _ => tbad
  end.

Definition spec (fn : Z) (i o : tree) : bool :=
  match fn with
  | 1 => sp_check false i o
  | 2 => sp_check true i o
  | 3 => tree_eqb o (TB (spec_text (t_bytes (t_nth 0 i)) (t_int (t_nth 1 i))))
  | _ => false
  end.
