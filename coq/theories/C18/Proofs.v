(* C18 — lemmas: the invariant is preserved by every step; release / double release; text injectivity;
   replay soundness; counter-models. *)
From Coq Require Import ZArith List Bool Lia Permutation DecimalZ.
Import ListNotations.
From V Require Import Base.Tree C18.Model C18.Spec.
Open Scope Z_scope.

(* ------------------------------------------------------------------ list facts *)

Lemma memz_In : forall x l, memz x l = true <-> In x l.
Proof.
  intros x l. induction l as [|y r IH]; cbn [memz In].
  - split; [discriminate | intros H; destruct H].
  - destruct (Z.eqb_spec x y) as [E|N].
    + split; [intros _; left; symmetry; exact E | reflexivity].
    + rewrite IH. split; [intros H; right; exact H | intros H; destruct H as [H|H]; [congruence | exact H]].
Qed.

Lemma memz_false : forall x l, memz x l = false -> ~ In x l.
Proof. intros x l H I. apply memz_In in I. congruence. Qed.

Lemma remove1_perm : forall x l, In x l -> Permutation l (x :: remove1 x l).
Proof.
  intros x l. induction l as [|y r IH]; intros H; cbn [remove1].
  - destruct H.
  - destruct (Z.eqb_spec x y) as [E|N].
    + subst y. apply Permutation_refl.
    + destruct H as [H|H]; [congruence|].
      apply perm_trans with (y :: x :: remove1 x r); [apply perm_skip, IH, H | apply perm_swap].
Qed.

Lemma del_notin : forall h l, ~ In h (map fst l) -> del h l = l.
Proof.
  intros h l. induction l as [|[k v] r IH]; intros NI; cbn [del filter fst]; [reflexivity|].
  cbn [map fst In] in NI.
  destruct (Z.eqb_spec k h) as [E|N]; cbn [negb].
  - exfalso. apply NI. left. exact E.
  - f_equal. apply IH. intros I. apply NI. right. exact I.
Qed.

Lemma lookup_del_same : forall h l, lookup h (del h l) = 0.
Proof.
  intros h l. induction l as [|[k v] r IH]; cbn [del filter fst lookup]; [reflexivity|].
  destruct (Z.eqb_spec k h) as [E|N]; cbn [negb]; [exact IH|].
  cbn [lookup]. destruct (Z.eqb_spec h k) as [E'|N']; [congruence | exact IH].
Qed.

Lemma lookup_del_other : forall h h' l, h' <> h -> lookup h' (del h l) = lookup h' l.
Proof.
  intros h h' l NE. induction l as [|[k v] r IH]; cbn [del filter fst lookup]; [reflexivity|].
  destruct (Z.eqb_spec k h) as [E|N]; cbn [negb].
  - destruct (Z.eqb_spec h' k) as [E'|N']; [congruence | exact IH].
  - cbn [lookup]. destruct (Z.eqb_spec h' k) as [E'|N']; [reflexivity | exact IH].
Qed.

Lemma lookup_In : forall h l, lookup h l <> 0 -> In (h, lookup h l) l.
Proof.
  intros h l. induction l as [|[k v] r IH]; cbn [lookup In]; intros NZ; [congruence|].
  destruct (Z.eqb_spec h k) as [E|N]; [left; subst k; reflexivity | right; apply IH; exact NZ].
Qed.

Lemma In_lookup : forall h v l, NoDup (map fst l) -> In (h, v) l -> lookup h l = v.
Proof.
  intros h v l. induction l as [|[k w] r IH]; cbn [lookup In map fst]; intros ND I; [destruct I|].
  inversion ND as [|k' r' NI ND']; subst k' r'.
  destruct I as [I|I].
  - inversion I; subst k w. rewrite Z.eqb_refl. reflexivity.
  - destruct (Z.eqb_spec h k) as [E|N].
    + subst k. exfalso. apply NI. change h with (fst (h, v)). apply in_map. exact I.
    + apply IH; assumption.
Qed.

Lemma map_fst_del_In : forall x h l, In x (map fst (del h l)) -> In x (map fst l).
Proof.
  intros x h l. induction l as [|[k v] r IH]; cbn [del filter fst map In]; intros I; [exact I|].
  destruct (Z.eqb_spec k h) as [E|N]; cbn [negb] in I.
  - right. apply IH. exact I.
  - cbn [map fst In] in I. destruct I as [I|I]; [left; exact I | right; apply IH; exact I].
Qed.

Lemma NoDup_map_fst_del : forall h l, NoDup (map fst l) -> NoDup (map fst (del h l)).
Proof.
  intros h l. induction l as [|[k v] r IH]; cbn [del filter fst map]; intros ND; [exact ND|].
  inversion ND as [|k' r' NI ND']; subst k' r'.
  destruct (Z.eqb_spec k h) as [E|N]; cbn [negb].
  - apply IH. exact ND'.
  - cbn [map fst]. constructor; [intros I; apply NI; eapply map_fst_del_In; exact I | apply IH; exact ND'].
Qed.

Lemma del_perm : forall h l, NoDup (map fst l) -> lookup h l <> 0 ->
  Permutation (map snd l) (lookup h l :: map snd (del h l)).
Proof.
  intros h l. induction l as [|[k v] r IH]; cbn [lookup del filter fst map snd]; intros ND NZ; [congruence|].
  inversion ND as [|k' r' NI ND']; subst k' r'.
  rewrite (Z.eqb_sym k h).
  destruct (Z.eqb_spec h k) as [E|N]; cbn [negb].
  - subst k. fold (del h r). rewrite (del_notin h r NI). apply Permutation_refl.
  - cbn [map snd]. fold (del h r).
    apply perm_trans with (v :: lookup h r :: map snd (del h r)); [apply perm_skip, IH; assumption | apply perm_swap].
Qed.

Lemma NoDup_filter_app : forall (f : Z -> bool) a b, NoDup (a ++ b) -> NoDup (filter f a ++ b).
Proof.
  intros f a b. induction a as [|x r IH]; cbn [filter app]; intros ND; [exact ND|].
  inversion ND as [|x' r' NI ND']; subst x' r'.
  destruct (f x).
  - cbn [app]. constructor; [|apply IH; exact ND'].
    intros I. apply NI. apply in_app_or in I. apply in_or_app.
    destruct I as [I|I]; [left; apply filter_In in I; destruct I as [I _]; exact I | right; exact I].
  - apply IH. exact ND'.
Qed.

Lemma In_filter_app : forall (f : Z -> bool) a b x, In x (filter f a ++ b) -> In x (a ++ b).
Proof.
  intros f a b x I. apply in_app_or in I. apply in_or_app.
  destruct I as [I|I]; [left; apply filter_In in I; destruct I as [I _]; exact I | right; exact I].
Qed.

Lemma nodup_snd_inj : forall (l : list (Z * Z)) a b x, NoDup (map snd l) -> In (a, x) l -> In (b, x) l -> a = b.
Proof.
  intros l. induction l as [|[k v] r IH]; intros a b x ND Ha Hb; cbn [In map snd] in *; [destruct Ha|].
  inversion ND as [|v' r' NI ND']; subst v' r'.
  destruct Ha as [Ha|Ha]; destruct Hb as [Hb|Hb].
  - inversion Ha. inversion Hb. congruence.
  - inversion Ha; subst k v. exfalso. apply NI. change x with (snd (b, x)). apply in_map. exact Hb.
  - inversion Hb; subst k v. exfalso. apply NI. change x with (snd (a, x)). apply in_map. exact Ha.
  - eapply IH; eassumption.
Qed.

(* ------------------------------------------------------------------ the invariant *)

Lemma inv_init : inv init.
Proof.
  unfold inv, ids_of, init; cbn [free taken live counter map app].
  split; [constructor|]. split; [intros x H; destruct H|]. split; [constructor|].
  split; [intros H; destruct H|]. unfold two64. lia.
Qed.

Lemma mints_nonneg : forall ls, 0 <= mints ls.
Proof.
  intros ls. induction ls as [|l r IH]; cbn [mints]; [lia|].
  destruct l as [[id|]|h id|h|ids]; lia.
Qed.

Lemma inv_step : forall s l, inv s -> (l = SGet None -> counter s + 1 < two64) -> inv (step s l).
Proof.
  intros s l Hinv HM. pose proof Hinv as [N [R [F [Z0 C]]]].
  destruct l as [[id|]|h id|h|ids]; cbn [step].
  - (* Get takes a pooled id *)
    destruct (memz id (free s)) eqn:M; [|exact Hinv].
    apply memz_In in M.
    assert (P : Permutation (remove1 id (free s) ++ (id :: taken s) ++ map snd (live s))
                            (free s ++ taken s ++ map snd (live s))).
    { cbn [app].
      apply perm_trans with ((id :: remove1 id (free s)) ++ taken s ++ map snd (live s)).
      - cbn [app]. apply Permutation_sym, Permutation_middle.
      - apply Permutation_app_tail, Permutation_sym, remove1_perm. exact M. }
    unfold inv, ids_of; cbn [counter free taken live].
    split; [eapply Permutation_NoDup; [apply Permutation_sym; exact P | exact N]|].
    split; [intros x Hx; apply R; eapply Permutation_in; [exact P | exact Hx]|].
    split; [exact F|]. split; [exact Z0 | exact C].
  - (* Get mints *)
    assert (B : counter s + 1 < two64) by (apply HM; reflexivity).
    assert (E : (counter s + 1) mod two64 = counter s + 1) by (apply Z.mod_small; lia).
    rewrite E.
    assert (P : Permutation ((counter s + 1) :: free s ++ taken s ++ map snd (live s))
                            (free s ++ ((counter s + 1) :: taken s) ++ map snd (live s))).
    { cbn [app]. apply Permutation_middle. }
    unfold inv, ids_of; cbn [counter free taken live].
    split.
    { eapply Permutation_NoDup; [exact P|]. constructor; [|exact N].
      intros I. apply R in I. lia. }
    split.
    { intros x Hx. apply Permutation_sym in P. eapply Permutation_in in Hx; [|exact P].
      destruct Hx as [Hx|Hx]; [lia|]. apply R in Hx. lia. }
    split; [exact F|]. split; [exact Z0 | lia].
  - (* build the Name *)
    destruct (memz id (taken s) && negb (h =? 0) && negb (hask h (live s))) eqn:B; [|exact Hinv].
    apply andb_prop in B. destruct B as [B B3]. apply andb_prop in B. destruct B as [B1 B2].
    apply memz_In in B1.
    apply negb_true_iff in B2. apply Z.eqb_neq in B2.
    apply negb_true_iff in B3. unfold hask in B3. apply memz_false in B3.
    assert (P : Permutation (free s ++ remove1 id (taken s) ++ map snd ((h, id) :: live s))
                            (free s ++ taken s ++ map snd (live s))).
    { apply Permutation_app_head. cbn [map snd].
      apply perm_trans with ((id :: remove1 id (taken s)) ++ map snd (live s)).
      - cbn [app]. apply Permutation_sym, Permutation_middle.
      - apply Permutation_app_tail, Permutation_sym, remove1_perm. exact B1. }
    unfold inv, ids_of; cbn [counter free taken live].
    split; [eapply Permutation_NoDup; [apply Permutation_sym; exact P | exact N]|].
    split; [intros x Hx; apply R; eapply Permutation_in; [exact P | exact Hx]|].
    cbn [map fst].
    split; [constructor; [exact B3 | exact F]|].
    split; [|exact C].
    intros I. destruct I as [I|I]; [congruence | exact (Z0 I)].
  - (* release *)
    destruct ((h =? 0) || (lookup h (live s) =? 0)) eqn:G; [exact Hinv|].
    apply orb_false_elim in G. destruct G as [G1 G2]. apply Z.eqb_neq in G1. apply Z.eqb_neq in G2.
    assert (P : Permutation ((lookup h (live s) :: free s) ++ taken s ++ map snd (del h (live s)))
                            (free s ++ taken s ++ map snd (live s))).
    { apply Permutation_sym.
      apply perm_trans with (free s ++ taken s ++ lookup h (live s) :: map snd (del h (live s))).
      - apply Permutation_app_head, Permutation_app_head, del_perm; assumption.
      - cbn [app]. rewrite !app_assoc. apply Permutation_sym, Permutation_middle. }
    unfold inv, ids_of; cbn [counter free taken live].
    split; [eapply Permutation_NoDup; [apply Permutation_sym; exact P | exact N]|].
    split; [intros x Hx; apply R; eapply Permutation_in; [exact P | exact Hx]|].
    split; [apply NoDup_map_fst_del; exact F|].
    split; [|exact C].
    intros I. apply Z0. eapply map_fst_del_In. exact I.
  - (* drop *)
    unfold inv, ids_of; cbn [counter free taken live].
    split; [apply NoDup_filter_app; exact N|].
    split; [intros x Hx; apply R; eapply In_filter_app; exact Hx|].
    split; [exact F|]. split; [exact Z0 | exact C].
Qed.

Lemma counter_step : forall s l r, 0 <= counter s -> counter s + mints (l :: r) < two64 ->
  0 <= counter (step s l) /\ counter (step s l) + mints r < two64.
Proof.
  intros s l r C M. pose proof (mints_nonneg r) as P.
  destruct l as [[id|]|h id|h|ids]; cbn [mints] in M; cbn [step].
  - destruct (memz id (free s)); cbn [counter]; lia.
  - cbn [counter]. rewrite Z.mod_small by lia. lia.
  - destruct (memz id (taken s) && negb (h =? 0) && negb (hask h (live s))); cbn [counter]; lia.
  - destruct ((h =? 0) || (lookup h (live s) =? 0)); cbn [counter]; lia.
  - cbn [counter]. lia.
Qed.

Lemma inv_run : forall ls s, inv s -> counter s + mints ls < two64 -> inv (run_steps s ls).
Proof.
  intros ls. induction ls as [|l r IH]; intros s I M; unfold run_steps; cbn [fold_left]; [exact I|].
  pose proof I as [_ [_ [_ [_ C]]]].
  destruct (counter_step s l r) as [C1 C2]; [lia | exact M|].
  apply IH; [|exact C2].
  apply inv_step; [exact I|].
  intros E. subst l. cbn [mints] in M. pose proof (mints_nonneg r) as P. lia.
Qed.

Lemma inv_reachable : forall ls, mints ls < two64 -> inv (run_steps init ls).
Proof. intros ls M. apply inv_run; [exact inv_init | cbn [init counter]; lia]. Qed.

Lemma NoDup_app_r : forall (a b : list Z), NoDup (a ++ b) -> NoDup b.
Proof.
  intros a b. induction a as [|x r IH]; cbn [app]; intros ND; [exact ND|].
  inversion ND as [|x' r' NI ND']; subst x' r'. apply IH. exact ND'.
Qed.

Lemma inv_live_nodup : forall s, inv s -> NoDup (map snd (live s)).
Proof.
  intros s [N _]. unfold ids_of in N.
  apply NoDup_app_r in N. apply NoDup_app_r in N. exact N.
Qed.

Lemma unique_holders : forall s h1 h2 id, inv s -> In (h1, id) (live s) -> In (h2, id) (live s) -> h1 = h2.
Proof. intros s h1 h2 id I A B. eapply nodup_snd_inj; [apply inv_live_nodup; exact I | exact A | exact B]. Qed.

Lemma live_id_range : forall s h id, inv s -> In (h, id) (live s) -> 1 <= id <= counter s.
Proof.
  intros s h id [_ [R _]] I. apply R. unfold ids_of. apply in_or_app. right. apply in_or_app. right.
  change id with (snd (h, id)). apply in_map. exact I.
Qed.

Lemma NoDup_app_disj : forall (a b : list Z) x, NoDup (a ++ b) -> In x a -> In x b -> False.
Proof.
  intros a b x. induction a as [|y r IH]; intros ND Ia Ib; [destruct Ia|].
  cbn [app] in ND. inversion ND as [|y' r' NI ND']; subst y' r'.
  destruct Ia as [Ia|Ia]; [subst y; apply NI; apply in_or_app; right; exact Ib | exact (IH ND' Ia Ib)].
Qed.

Lemma held_not_pooled : forall s h id, inv s -> In (h, id) (live s) -> ~ In id (free s) /\ ~ In id (taken s).
Proof.
  intros s h id [N _] I. unfold ids_of in N.
  assert (L : In id (map snd (live s))) by (change id with (snd (h, id)); apply in_map; exact I).
  split.
  - intros Fr. eapply NoDup_app_disj; [exact N | exact Fr | apply in_or_app; right; exact L].
  - intros Tk. apply NoDup_app_r in N. eapply NoDup_app_disj; [exact N | exact Tk | exact L].
Qed.

(* ------------------------------------------------------------------ release *)

Lemma release_spec : forall s h, inv s -> h <> 0 -> lookup h (live s) <> 0 ->
  let s' := step s (SRelease h) in
  In (lookup h (live s)) (free s') /\ lookup h (live s') = 0 /\
  (forall h', h' <> h -> lookup h' (live s') = lookup h' (live s)) /\
  counter s' = counter s /\ taken s' = taken s /\ inv s'.
Proof.
  intros s h I H0 L0 s'.
  assert (Is' : inv s') by (apply inv_step; [exact I | intros E; discriminate E]).
  revert Is'. unfold s'. cbn [step].
  apply Z.eqb_neq in H0. apply Z.eqb_neq in L0. rewrite H0, L0. cbn [orb free live counter taken].
  intros Is'.
  split; [left; reflexivity|]. split; [apply lookup_del_same|].
  split; [intros h' NE; apply lookup_del_other; exact NE|].
  split; [reflexivity|]. split; [reflexivity | exact Is'].
Qed.

Lemma release_cleared_noop : forall s h, lookup h (live s) = 0 -> step s (SRelease h) = s.
Proof. intros s h L. cbn [step]. rewrite L. rewrite Z.eqb_refl, orb_true_r. reflexivity. Qed.

Lemma release_nil_noop : forall s, step s (SRelease 0) = s.
Proof. intros s. reflexivity. Qed.

Lemma release_idempotent : forall s h, step (step s (SRelease h)) (SRelease h) = step s (SRelease h).
Proof.
  intros s h. cbn [step].
  destruct ((h =? 0) || (lookup h (live s) =? 0)) eqn:G.
  - rewrite G. reflexivity.
  - cbn [live]. rewrite lookup_del_same. rewrite Z.eqb_refl, orb_true_r. reflexivity.
Qed.

(* ------------------------------------------------------------------ acquire *)

Lemma acquire_spec : forall s pick h, inv s -> h <> 0 -> hask h (live s) = false -> counter s + 1 < two64 ->
  let id := match pick with Some i => i | None => counter s + 1 end in
  (pick = None \/ In id (free s)) ->
  let s' := run_steps s (acquire_labels pick h id) in
  live s' = (h, id) :: live s /\ lookup h (live s') = id /\ 1 <= id /\ ~ In id (free s') /\ inv s'.
Proof.
  intros s pick h I H0 HK B id En s'.
  assert (Is' : inv s').
  { unfold s', acquire_labels. apply inv_run; [exact I|].
    destruct pick as [i|]; cbn [mints]; lia. }
  assert (L : live s' = (h, id) :: live s).
  { unfold s', acquire_labels, run_steps. cbn [fold_left].
    apply Z.eqb_neq in H0.
    destruct pick as [i|].
    - destruct En as [En|En]; [discriminate En|]. apply memz_In in En.
      unfold id in *. cbn [step]. rewrite En. cbn [taken live memz]. rewrite Z.eqb_refl, H0, HK. reflexivity.
    - cbn [step]. rewrite Z.mod_small by (pose proof I as [_ [_ [_ [_ C]]]]; lia).
      cbn [taken live memz]. unfold id. rewrite Z.eqb_refl, H0, HK. reflexivity. }
  split; [exact L|].
  assert (In1 : In (h, id) (live s')) by (rewrite L; left; reflexivity).
  split; [rewrite L; cbn [lookup]; rewrite Z.eqb_refl; reflexivity|].
  split; [apply (live_id_range s' h id Is' In1)|].
  split; [apply (held_not_pooled s' h id Is' In1) | exact Is'].
Qed.

(* ------------------------------------------------------------------ text *)

Lemma codes_inj : forall u v, codes u = codes v -> u = v.
Proof.
  intros u. induction u as [|u IH|u IH|u IH|u IH|u IH|u IH|u IH|u IH|u IH|u IH];
    intros v H; destruct v as [|v|v|v|v|v|v|v|v|v|v]; cbn [codes] in H;
    try discriminate H; try reflexivity;
    injection H as H; f_equal; apply IH; exact H.
Qed.

Lemma dec_inj : forall a b, 0 <= a -> 0 <= b -> dec a = dec b -> a = b.
Proof.
  intros a b Ha Hb H.
  rewrite <- (DecimalZ.of_to a), <- (DecimalZ.of_to b). f_equal.
  unfold dec in H.
  destruct a as [|p|p]; [| |lia]; (destruct b as [|q|q]; [| |lia]);
    cbn [Z.to_int] in *; f_equal; apply codes_inj; exact H.
Qed.

Lemma render_used : forall f pct d1 d2, render f pct true d1 = render f pct true d2.
Proof.
  intros f. induction f as [|c r IH]; intros pct d1 d2; cbn [render]; [reflexivity|].
  destruct pct.
  - destruct (c =? 100); [rewrite (IH false d1 d2); reflexivity|].
    destruct (c =? 37); rewrite (IH false d1 d2); reflexivity.
  - destruct (c =? 37); [apply IH | rewrite (IH false d1 d2); reflexivity].
Qed.

Lemma render_shape : forall f pct, exists pre post, forall d, render f pct false d = pre ++ d ++ post.
Proof.
  intros f. induction f as [|c r IH]; intros pct.
  - exists ((if pct then s_noverb else []) ++ s_extra), [41]. intros d. cbn [render]. rewrite <- app_assoc. reflexivity.
  - destruct pct.
    + destruct (c =? 100) eqn:E1.
      * exists [], (render r false true []). intros d. cbn [render]. rewrite E1. cbn [app]. f_equal. apply render_used.
      * destruct (IH false) as [pre [post E]].
        destruct (c =? 37) eqn:E2.
        -- exists (37 :: pre), post. intros d. cbn [render]. rewrite E1, E2, E. reflexivity.
        -- exists ((-1) :: pre), post. intros d. cbn [render]. rewrite E1, E2, E. reflexivity.
    + destruct (c =? 37) eqn:E2.
      * destruct (IH true) as [pre [post E]]. exists pre, post. intros d. cbn [render]. rewrite E2. apply E.
      * destruct (IH false) as [pre [post E]]. exists (c :: pre), post. intros d. cbn [render]. rewrite E2, E. reflexivity.
Qed.

Lemma name_text_inj : forall fmt a b, 0 <= a -> 0 <= b -> name_text fmt a = name_text fmt b -> a = b.
Proof.
  intros fmt a b Ha Hb H. unfold name_text in H.
  destruct (render_shape fmt false) as [pre [post E]]. rewrite !E in H.
  apply app_inv_head in H. apply app_inv_tail in H. apply dec_inj; assumption.
Qed.

Lemma unique_holders_full : forall fmt ls h1 h2 id1 id2, mints ls < two64 ->
  In (h1, id1) (live (fold_left step ls init)) -> In (h2, id2) (live (fold_left step ls init)) -> h1 <> h2 ->
  id1 <> id2 /\ name_text fmt id1 <> name_text fmt id2 /\ id1 <> 0 /\ id2 <> 0 /\
  ~ In id1 (free (fold_left step ls init)) /\ ~ In id1 (taken (fold_left step ls init)).
Proof.
  intros fmt ls h1 h2 id1 id2 M A B NE.
  pose proof (inv_reachable ls M) as I. unfold run_steps in I.
  pose proof (live_id_range _ _ _ I A) as R1. pose proof (live_id_range _ _ _ I B) as R2.
  assert (D : id1 <> id2).
  { intros E. subst id2. apply NE. eapply unique_holders; [exact I | exact A | exact B]. }
  split; [exact D|].
  split; [intros T; apply D; apply (name_text_inj fmt); [lia | lia | exact T]|].
  split; [lia|]. split; [lia|]. exact (held_not_pooled _ _ _ I A).
Qed.

(* the same for ANY way of rendering the text that is injective on the ids a pool can hand out (1 .. 2^64-1):
   nothing about the shape or the length of the format is used *)
Lemma unique_texts_any_render : forall (rend : Z -> list Z) ls h1 h2 id1 id2,
  (forall a b, 1 <= a < two64 -> 1 <= b < two64 -> rend a = rend b -> a = b) ->
  mints ls < two64 ->
  In (h1, id1) (live (fold_left step ls init)) -> In (h2, id2) (live (fold_left step ls init)) -> h1 <> h2 ->
  rend id1 <> rend id2.
Proof.
  intros rend ls h1 h2 id1 id2 Inj M A B NE T.
  pose proof (inv_reachable ls M) as I. unfold run_steps in I.
  pose proof (live_id_range _ _ _ I A) as R1. pose proof (live_id_range _ _ _ I B) as R2.
  assert (C : 0 <= counter (fold_left step ls init) < two64) by (destruct I as [_ [_ [_ [_ C]]]]; exact C).
  assert (E : id1 = id2) by (apply Inj; [lia | lia | exact T]).
  subst id2. apply NE. eapply unique_holders; [exact I | exact A | exact B].
Qed.

Lemma release_nil_or_cleared : forall s h, h = 0 \/ lookup h (live s) = 0 -> step s (SRelease h) = s.
Proof.
  intros s h H. destruct H as [H|H]; [subst h; apply release_nil_noop | apply release_cleared_noop; exact H].
Qed.

(* ------------------------------------------------------------------ replay *)

Lemma exec_checked_sound : forall ls s s', inv s -> exec_checked s ls = Some s' -> inv s' /\ s' = run_steps s ls.
Proof.
  intros ls. induction ls as [|l r IH]; intros s s' I E; cbn [exec_checked] in E.
  - inversion E; subst s'. split; [exact I | reflexivity].
  - destruct (enabled s l) eqn:En; [|discriminate E].
    unfold run_steps. cbn [fold_left]. apply IH; [|exact E].
    apply inv_step; [exact I|]. intros El. subst l. cbn [enabled] in En. apply Z.ltb_lt in En. exact En.
Qed.

Lemma replay_sound : forall strict fmt evs s n s', inv s -> replay strict fmt s n evs = (None, s') ->
  inv s' /\ exists ls, s' = run_steps s ls.
Proof.
  intros strict fmt evs. induction evs as [|e r IH]; intros s n s' I E; cbn [replay] in E.
  - inversion E; subst s'. split; [exact I | exists []; reflexivity].
  - destruct (explain strict s e) as [ls|] eqn:X; [|discriminate E].
    destruct (exec_checked s ls) as [s1|] eqn:C; [|discriminate E].
    destruct (obs_ok fmt s s1 e); [|discriminate E].
    destruct (exec_checked_sound ls s s1 I C) as [I1 R1].
    destruct (IH s1 (n + 1) s' I1 E) as [I' [ls' R']].
    split; [exact I'|]. exists (ls ++ ls'). unfold run_steps in *. rewrite fold_left_app. rewrite <- R1. exact R'.
Qed.

(* ------------------------------------------------------------------ executable invariant *)

Lemma nodupb_sound : forall l, nodupb l = true -> NoDup l.
Proof.
  intros l. induction l as [|x r IH]; cbn [nodupb]; intros H; [constructor|].
  apply andb_prop in H. destruct H as [H1 H2]. apply negb_true_iff in H1.
  constructor; [apply memz_false; exact H1 | apply IH; exact H2].
Qed.

Lemma invb_sound : forall s, invb s = true -> inv s.
Proof.
  intros s H. unfold invb in H.
  apply andb_prop in H. destruct H as [H H6]. apply andb_prop in H. destruct H as [H H5].
  apply andb_prop in H. destruct H as [H H4]. apply andb_prop in H. destruct H as [H H3].
  apply andb_prop in H. destruct H as [H1 H2].
  unfold inv.
  split; [apply nodupb_sound; exact H1|].
  split.
  { intros x Hx. rewrite forallb_forall in H2. apply H2 in Hx. apply andb_prop in Hx. destruct Hx as [A B].
    apply Z.leb_le in A. apply Z.leb_le in B. lia. }
  split; [apply nodupb_sound; exact H3|].
  split; [apply memz_false; apply negb_true_iff; exact H4|].
  apply Z.leb_le in H5. apply Z.ltb_lt in H6. lia.
Qed.

(* ------------------------------------------------------------------ counter-models (NOT the code) *)

(* Release without the guard `name == nil || name.id == nil`: the nil id pointer (0) of a cleared Name is pooled *)
Definition step_noguard (s : pstate) (l : label) : pstate :=
  match l with
  | SRelease h => {| counter := counter s; free := lookup h (live s) :: free s; taken := taken s; live := del h (live s) |}
  | _ => step s l
  end.

(* Release that pools the id but does not clear the Name *)
Definition step_noclear (s : pstate) (l : label) : pstate :=
  match l with
  | SRelease h =>
      if (h =? 0) || (lookup h (live s) =? 0) then s
      else {| counter := counter s; free := lookup h (live s) :: free s; taken := taken s; live := live s |}
  | _ => step s l
  end.

(* Release split into its two memory operations, for one Name shared by two goroutines (excluded by the
   ownership assumption): guard+Put, then clear *)
Inductive label2 : Type := L1 (l : label) | PutOnly (h : Z) | ClearOnly (h : Z).
Definition step_shared (s : pstate) (l : label2) : pstate :=
  match l with
  | L1 l => step s l
  | PutOnly h =>
      if (h =? 0) || (lookup h (live s) =? 0) then s
      else {| counter := counter s; free := lookup h (live s) :: free s; taken := taken s; live := live s |}
  | ClearOnly h => {| counter := counter s; free := free s; taken := taken s; live := del h (live s) |}
  end.
