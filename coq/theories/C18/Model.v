(* C18 — model of namepool/pool.go + namepool/name.go as an interleaving system.

   Go code mirrored (unchanged tree):

     Pool(format)      : pool{format, idCounter: 0, idPool: &sync.Pool{New: mint}}
     mint              : newId := atomic.AddUint64(&pool.idCounter, 1); return &newId
     Acquire()         : id := pool.idPool.Get() as ptr-to-uint64                      -- step SGet
                         return &Name{pool, name: fmt.Sprintf(format, *id), id} -- step SBuild
     Release(name)     : if name == nil || name.id == nil { return }            -- the guard
                         pool.idPool.Put(name.id); *name = Name{}               -- step SRelease
     Name.Release()    : name.pool.Release(name)   (on a cleared Name the pool is nil, the guard returns first)

   State.  counter = idCounter; free = the ids sitting in sync.Pool (a multiset, kept as a list);
   taken = ids returned by Get to a goroutine that has not yet returned its Name (in flight);
   live = the Names whose id field is non-nil, as (handle, id); a handle is the identity of one Name
   object (Acquire allocates a fresh one each time); an absent handle is the zero Name{} (id = nil),
   handle 0 is the nil *Name.  The nil id pointer is represented by the id 0.

   Steps are data (type label); a history is a list of labels, a thread is merely who issues a label.
   sync.Pool.Get may return ANY pooled item or call New although items are pooled (per-P caches), so
   SGet carries the choice; the garbage collector (and, in race builds, Put itself) may drop pooled
   items at any time: SDrop.  A label that is not enabled leaves the state unchanged.

   Atomicity assumptions of this model are listed in props/c18.py (sync.Pool and sync/atomic are
   linearizable; one Name object is used by one goroutine at a time).
   No proofs in this file. *)
From Coq Require Import ZArith List Bool.
Import ListNotations.
Open Scope Z_scope.

Definition two64 : Z := 18446744073709551616.

Record pstate : Type := mkP {
  counter : Z;
  free : list Z;
  taken : list Z;
  live : list (Z * Z)
}.

Definition init : pstate := {| counter := 0; free := []; taken := []; live := [] |}.

Fixpoint memz (x : Z) (l : list Z) : bool :=
  match l with
  | [] => false
  | y :: r => if x =? y then true else memz x r
  end.

(* remove one occurrence *)
Fixpoint remove1 (x : Z) (l : list Z) : list Z :=
  match l with
  | [] => []
  | y :: r => if x =? y then r else y :: remove1 x r
  end.

(* the id field of the Name with handle h; 0 = nil (zero Name / unknown handle) *)
Fixpoint lookup (h : Z) (l : list (Z * Z)) : Z :=
  match l with
  | [] => 0
  | (k, v) :: r => if h =? k then v else lookup h r
  end.

Definition hask (h : Z) (l : list (Z * Z)) : bool := memz h (map fst l).

(* *name = Name{} *)
Definition del (h : Z) (l : list (Z * Z)) : list (Z * Z) :=
  filter (fun p => negb (fst p =? h)) l.

Inductive label : Type :=
| SGet (pick : option Z)     (* sync.Pool.Get: Some id = take that pooled id, None = New (mint) *)
| SBuild (h id : Z)          (* Acquire returns the fresh Name h holding the id it took *)
| SRelease (h : Z)           (* pool.Release(h) / h.Release() *)
| SDrop (ids : list Z).      (* pooled ids lost (GC clears sync.Pool partly or completely) *)

Definition step (s : pstate) (l : label) : pstate :=
  match l with
  | SGet (Some id) =>
      if memz id (free s)
      then {| counter := counter s; free := remove1 id (free s); taken := id :: taken s; live := live s |}
      else s
  | SGet None =>
      let c := (counter s + 1) mod two64 in      (* atomic.AddUint64 wraps *)
      {| counter := c; free := free s; taken := c :: taken s; live := live s |}
  | SBuild h id =>
      if memz id (taken s) && negb (h =? 0) && negb (hask h (live s))
      then {| counter := counter s; free := free s; taken := remove1 id (taken s); live := (h, id) :: live s |}
      else s
  | SRelease h =>
      if (h =? 0) || (lookup h (live s) =? 0)      (* name == nil || name.id == nil *)
      then s
      else {| counter := counter s; free := lookup h (live s) :: free s; taken := taken s; live := del h (live s) |}
  | SDrop ids =>
      {| counter := counter s; free := filter (fun x => negb (memz x ids)) (free s); taken := taken s; live := live s |}
  end.

Definition run_steps (s : pstate) (ls : list label) : pstate := fold_left step ls s.

(* is the label's effect available in s (Release and Drop are always possible) *)
Definition enabled (s : pstate) (l : label) : bool :=
  match l with
  | SGet (Some id) => memz id (free s)
  | SGet None => counter s + 1 <? two64
  | SBuild h id => memz id (taken s) && negb (h =? 0) && negb (hask h (live s))
  | SRelease _ => true
  | SDrop _ => true
  end.

(* the number of mints in a history (the theorems need it to stay below 2^64) *)
Fixpoint mints (ls : list label) : Z :=
  match ls with
  | [] => 0
  | SGet None :: r => 1 + mints r
  | _ :: r => mints r
  end.

(* Acquire and Release as the Go functions perform them *)
Definition acquire_labels (pick : option Z) (h id : Z) : list label := [SGet pick; SBuild h id].
Definition release_labels (h : Z) : list label := [SRelease h].

(* ---------- the text of a Name: fmt.Sprintf(format, id) with id : uint64 ----------
   Modelled for formats made of literal code points, "%d" and "%%" (what the package documents);
   any other verb renders as the invalid code point -1 (outside the modelled domain).
   Go's behaviour mirrored: the first %d prints the id in decimal, further %d print "%!d(MISSING)",
   a trailing "%" prints "%!(NOVERB)", an unused argument appends "%!(EXTRA uint64=<id>)". *)
Fixpoint codes (u : Decimal.uint) : list Z :=
  match u with
  | Decimal.Nil => []
  | Decimal.D0 r => 48 :: codes r
  | Decimal.D1 r => 49 :: codes r
  | Decimal.D2 r => 50 :: codes r
  | Decimal.D3 r => 51 :: codes r
  | Decimal.D4 r => 52 :: codes r
  | Decimal.D5 r => 53 :: codes r
  | Decimal.D6 r => 54 :: codes r
  | Decimal.D7 r => 55 :: codes r
  | Decimal.D8 r => 56 :: codes r
  | Decimal.D9 r => 57 :: codes r
  end.

Definition dec (z : Z) : list Z :=
  match Z.to_int z with
  | Decimal.Pos u => codes u
  | Decimal.Neg u => 45 :: codes u
  end.

Definition s_missing : list Z := [37; 33; 100; 40; 77; 73; 83; 83; 73; 78; 71; 41].           (* %!d(MISSING) *)
Definition s_noverb : list Z := [37; 33; 40; 78; 79; 86; 69; 82; 66; 41].                      (* %!(NOVERB) *)
Definition s_extra : list Z := [37; 33; 40; 69; 88; 84; 82; 65; 32; 117; 105; 110; 116; 54; 52; 61]. (* %!(EXTRA uint64= *)

(* pct: the previous code point was an unfinished '%'; used: the argument has been consumed *)
Fixpoint render (f : list Z) (pct used : bool) (d : list Z) : list Z :=
  match f with
  | [] => (if pct then s_noverb else []) ++ (if used then [] else s_extra ++ d ++ [41])
  | c :: r =>
      if pct then
        if c =? 100 then (if used then s_missing else d) ++ render r false true d
        else if c =? 37 then 37 :: render r false used d
        else (-1) :: render r false used d
      else if c =? 37 then render r true used d
      else c :: render r false used d
  end.

Definition name_text (fmt : list Z) (id : Z) : list Z := render fmt false false (dec id).
