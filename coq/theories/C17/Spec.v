(* C17: independent executable specification (written from the property text and the DECLARED struct tags of
   Gen/GenC17.v decl_tab, which the harness obtains by its own reflection walk, not through dsn.TagToField), the
   tree encodings and the dispatch functions for the driver.  No proofs here. *)
From Coq Require Import ZArith List Bool.
From Coq Require String.
Import String.StringSyntax.
Import ListNotations.
From V Require Import Base.Tree Gen.GenC17 C17.Model.
Local Open Scope string_scope.
Open Scope Z_scope.

(* ------------------------------------------------------------------ reference semantics from the declared tags *)
Definition decl (k : nat) : list (nat * list Z * list (list Z)) := nth k decl_tab [].

(* the member a key names: its json name or one of its multiref aliases; the empty key names nothing *)
Definition decl_lookup (k : nat) (key : str) : option nat :=
  match key with
  | [] => None
  | _ :: _ =>
    fold_left (fun acc e => match e with
                            | (i, name, aliases) => if str_eqb key name || existsb (str_eqb key) aliases then Some i else acc
                            end) (decl k) None
  end.

(* typed assignment, from the documentation of strconv.ParseBool and ParseInt(s, 10, 64) *)
Definition ref_bool (s : str) : option bool :=
  if existsb (str_eqb s) [L "1"; L "t"; L "T"; L "TRUE"; L "true"; L "True"] then Some true
  else if existsb (str_eqb s) [L "0"; L "f"; L "F"; L "FALSE"; L "false"; L "False"] then Some false
  else None.
Fixpoint ref_digits (s : str) (acc : Z) : option Z :=
  match s with
  | [] => Some acc
  | c :: r => if (48 <=? c) && (c <=? 57) then ref_digits r (10 * acc + (c - 48)) else None
  end.
Definition ref_int (s : str) : option Z :=
  let '(neg, d) := match s with 45 :: d => (true, d) | 43 :: d => (false, d) | _ => (false, s) end in
  match d with
  | [] => None
  | _ :: _ =>
    match ref_digits d 0 with
    | Some n => let z := if neg then - n else n in
                if (-9223372036854775808 <=? z) && (z <=? 9223372036854775807) then Some z else None
    | None => None
    end
  end.
Definition ref_assign (st : list value) (i : nat) (text : str) : option (list value) :=
  match nth_error st i with
  | Some (VS _) => Some (upd i (VS text) st)
  | Some (VB _) => match ref_bool text with Some b => Some (upd i (VB b) st) | None => None end
  | Some (VI _) => match ref_int text with Some z => Some (upd i (VI z) st) | None => None end
  | None => None
  end.

(* simple form, structured: tokens key=value applied in order, later ones overriding earlier ones; a key that
   names no member or a value of the wrong type is an error *)
Fixpoint ref_tokens (k : nat) (toks : list (str * str)) (st : list value) : option (list value) :=
  match toks with
  | [] => Some st
  | (key, text) :: r =>
      match decl_lookup k key with
      | None => None
      | Some i => match ref_assign st i text with Some st' => ref_tokens k r st' | None => None end
      end
  end.

(* simple form written out: json-name="text" / json-name=true / json-name=123, sorted, joined by one space *)
Definition ref_text (v : value) : str :=
  match v with VS s => [34] ++ s ++ [34] | VB true => L "true" | VB false => L "false" | VI z => itoa z end.
Definition ref_format (k : nat) (v : list value) : str :=
  join32 (sort_by str_leb
    (map (fun e => match e with (i, name, _) => name ++ [61] ++ ref_text (nth i v (VS [])) end) (decl k))).

Definition value_eqb (a b : value) : bool :=
  match a, b with
  | VS x, VS y => str_eqb x y
  | VB x, VB y => Bool.eqb x y
  | VI x, VI y => x =? y
  | _, _ => false
  end.
Fixpoint values_eqb (a b : list value) : bool :=
  match a, b with
  | [], [] => true
  | x :: a', y :: b' => value_eqb x y && values_eqb a' b'
  | _, _ => false
  end.
Definition value_plain (v : value) : bool := match v with VS s => forallb plain s | _ => true end.
Definition int_ok (v : value) : bool := match v with VI z => (- 2 ^ 63 <=? z) && (z <? 2 ^ 63) | _ => true end.
Definition shape_ok (k : nat) (v : list value) : bool :=
  (length v =? length (kinds k))%nat && forallb (fun p => (kind_of (fst p) =? snd p)%nat) (combine v (kinds k)).

(* ------------------------------------------------------------------ trees *)
Definition value_of_tree (t : tree) : value :=
  match t with TB s => VS s | TL [TI b] => VB (negb (b =? 0)) | TI z => VI z | _ => VS [] end.
Definition tree_of_value (v : value) : tree :=
  match v with VS s => TB s | VB b => TL [of_bool b] | VI z => TI z end.
Definition values_of_tree (t : tree) : list value := map value_of_tree (t_list t).
Definition out_tree (o : out (list value)) : tree :=
  match o with
  | Ok st => TL [TI 0; TL (map tree_of_value st)]
  | Err => TL [TI 2; TL []]
  | Panic => TL [TI (-1); TL []]
  | Fuel => TL [TI (-2); TL []]
  end.
Definition out_class (t : tree) : Z := t_int (t_nth 0 t).
Definition out_fields (t : tree) : list value := values_of_tree (t_nth 1 t).
Definition knat (t : tree) : nat := Z.to_nat (t_int t).

(* url record: () = url.Parse failed; ((user pass)|() host port path ((key value)...)) *)
Definition pair_of_tree (t : tree) : str * str := (t_bytes (t_nth 0 t), t_bytes (t_nth 1 t)).
Definition wurl_of_tree (t : tree) : option wurl :=
  match t with
  | TL [u; TB h; TB p; TB path; TL q] =>
      Some {| w_scheme := [];
              w_user := match u with TL [TB a; TB b] => Some (a, b) | _ => None end;
              w_host := h; w_port := p; w_path := path; w_query := map pair_of_tree q |}
  | _ => None
  end.
Definition tree_of_wurl (u : wurl) : tree :=
  TL [match w_user u with Some (a, b) => TL [TB a; TB b] | None => TL [] end;
      TB (w_host u); TB (w_port u); TB (w_path u);
      TL (map (fun kv => TL [TB (fst kv); TB (snd kv)]) (w_query u))].

Definition ident (s : str) : str := s.

(* strings.Contains(s, "://") *)
Fixpoint has_sep (s : str) : bool :=
  match s with
  | 58 :: ((47 :: 47 :: _) as r) => true
  | _ :: r => has_sep r
  | [] => false
  end.

(* the text of a structured token list: style 0 key=value, 1 key="value", 2 key='value' *)
Definition tok_text (t : tree) : str :=
  let key := t_bytes (t_nth 0 t) in
  let v := t_bytes (t_nth 2 t) in
  match t_int (t_nth 1 t) with
  | 1 => key ++ [61; 34] ++ v ++ [34]
  | 2 => key ++ [61; 39] ++ v ++ [39]
  | _ => key ++ [61] ++ v
  end.

(* ------------------------------------------------------------------ reference semantics of the URI form (fn 5) *)
(* given what net/url made of the string: members set from host, port, userinfo, path and the LAST value of
   every query key; a query key naming no member is an error (None).  Queries in which two DIFFERENT keys name the
   same member are not generated (the property does not say which one wins; the code leaves it to map order). *)
Fixpoint ref_last (key : str) (q : list (str * str)) : option str :=
  match q with
  | [] => None
  | (k, v) :: r => match ref_last key r with Some x => Some x | None => if str_eqb k key then Some v else None end
  end.
Fixpoint ref_query (k : nat) (q all : list (str * str)) (st : list value) : option (list value) :=
  match q with
  | [] => Some st
  | (key, _) :: r =>
      match decl_lookup k key, ref_last key all with
      | Some i, Some v => match ref_assign st i v with Some st' => ref_query k r all st' | None => None end
      | _, _ => None
      end
  end.
Definition ref_set (k : nat) (tag : str) (s : str) (st : list value) : list value :=
  match decl_lookup k tag with Some i => upd i (VS s) st | None => st end.
Definition ref_uri (k : nat) (u : wurl) (init : list value) : option (list value) :=
  let st := ref_set k (L "port") (w_port u) (ref_set k (L "hostname") (w_host u) init) in
  let st := match w_user u with
            | Some (a, b) => ref_set k (L "password") b (ref_set k (L "username") a st)
            | None => st
            end in
  let st := ref_set k (L "database") (match w_path u with 47 :: r => r | p => p end) st in
  ref_query k (w_query u) (w_query u) st.

(* the domain of the URI round trip: host of letters, digits, '.', '-'; port of digits; KeyInfo-like structs excluded *)
Definition host_char (c : Z) : bool :=
  ((97 <=? c) && (c <=? 122)) || ((65 <=? c) && (c <=? 90)) || ((48 <=? c) && (c <=? 57)) || (c =? 45) || (c =? 46).
Definition digit_char (c : Z) : bool := (48 <=? c) && (c <=? 57).
Definition uri_domain (k : nat) (v : list value) : bool :=
  (k <? 3)%nat && shape_ok k v && forallb int_ok v &&
  match nth_error v 0, nth_error v 1 with      (* members 0 and 1 are host and port in every struct kind *)
  | Some (VS h), Some (VS p) => forallb host_char h && forallb digit_char p
  | _, _ => false
  end.

(* ------------------------------------------------------------------ dispatch
   fn 1  ParseSimple(text) into a struct of kind k holding init      input (k text init)        output (class members)
   fn 2  FormatSimple(values)                                        input (k values)           output text
   fn 3  ParseSimple(FormatSimple(values)) into the zero struct      input (k values)           output (class members)
   fn 4  ParseURI(FormatURI(values)) into the zero struct            input (k values)           output (urlrec (class members))
   fn 5  ParseURI(text), Parse(text) into the zero struct            input (k text urlrec)      output ((class members) (class members))
   fn 6  ParseSimple of a structured token list                      input (k init (key style value)...) output (class members)
   class: 0 ok, 2 error, -1 panic *)
Definition run (fn : Z) (i : tree) : tree :=
  let k := knat (t_nth 0 i) in
  match fn with
  | 1 => out_tree (parse_simple k (t_bytes (t_nth 1 i)) (values_of_tree (t_nth 2 i)))
  | 2 => match format_simple k (values_of_tree (t_nth 1 i)) with Some s => TB s | None => TL [TI 9] end
  | 3 => match format_simple k (values_of_tree (t_nth 1 i)) with
         | Some s => out_tree (parse_simple k s (zero_struct k))
         | None => TL [TI 9]
         end
  | 4 => match format_uri ident k (values_of_tree (t_nth 1 i)) with
         | Some u =>
             (* net/url: "://?..." (KEY form without a scheme) is rejected by url.Parse: missing protocol scheme *)
             match w_user u, w_path u, w_scheme u with
             | None, [], [] => TL [TL []; out_tree Err]
             | _, _, _ => TL [tree_of_wurl u; out_tree (parse_uri ident k u (zero_struct k))]
             end
         | None => TL [TI 9]
         end
  | 5 => let text := t_bytes (t_nth 1 i) in
         let ou := match wurl_of_tree (t_nth 2 i) with
                   | Some u => parse_uri ident k u (zero_struct k)
                   | None => Err
                   end in
         TL [out_tree ou; out_tree (if has_sep text then ou else parse_simple k text (zero_struct k))]
  | 6 => out_tree (parse_simple k (join32 (map tok_text (t_list (t_nth 2 i)))) (values_of_tree (t_nth 1 i)))
  | _ => tbad
  end.

Definition class_ok (c : Z) : bool := (c =? 0) || (c =? 2).

Definition spec (fn : Z) (i o : tree) : bool :=
  let k := knat (t_nth 0 i) in
  match fn with
  | 1 => class_ok (out_class o) &&
         (if out_class o =? 0 then shape_ok k (out_fields o) else true)
  | 2 => match o with TB s => str_eqb s (ref_format k (values_of_tree (t_nth 1 i))) | _ => false end
  | 3 => let v := values_of_tree (t_nth 1 i) in
         if shape_ok k v && forallb value_plain v && forallb int_ok v
         then (out_class o =? 0) && values_eqb (out_fields o) v
         else class_ok (out_class o)
  | 4 => let v := values_of_tree (t_nth 1 i) in
         let r := t_nth 1 o in
         if uri_domain k v then (out_class r =? 0) && values_eqb (out_fields r) v
         else class_ok (out_class r)
  | 5 => let ru := t_nth 0 o in
         let rp := t_nth 1 o in
         class_ok (out_class ru) && class_ok (out_class rp) &&
         match wurl_of_tree (t_nth 2 i) with
         | None => out_class ru =? 2
         | Some u =>
             match ref_uri k u (zero_struct k) with
             | Some st => (out_class ru =? 0) && values_eqb (out_fields ru) st
             | None => out_class ru =? 2
             end
         end
  | 6 => let toks := map (fun t => (t_bytes (t_nth 0 t), t_bytes (t_nth 2 t))) (t_list (t_nth 2 i)) in
         match ref_tokens k toks (values_of_tree (t_nth 1 i)) with
         | Some st => (out_class o =? 0) && values_eqb (out_fields o) st
         | None => out_class o =? 2
         end
  | _ => false
  end.

(* ------------------------------------------------------------------ vocabulary of the theorems (Props.v) *)
Definition key_char (c : Z) : Prop := c <> 32 /\ c <> 61 /\ c <> 34 /\ c <> 39.
Definition key_ok (key : str) : Prop := Forall key_char key.                       (* no space, '=', quotation mark *)
Definition noquote (s : str) : Prop := Forall (fun c => c <> 34 /\ c <> 39) s.     (* any text without quotation marks *)
Definition bare_ok (s : str) : Prop := Forall (fun c => c <> 32 /\ c <> 34 /\ c <> 39) s.

(* one key=value token of the simple form: quoted with q (either quotation mark) or unquoted *)
Inductive token := Quoted (key : str) (q : Z) (s : str) | Bare (key : str) (w : str).
Definition tok_key (t : token) : str := match t with Quoted key _ _ => key | Bare key _ => key end.
Definition tok_payload (t : token) : str := match t with Quoted _ _ s => s | Bare _ w => w end.
Definition tok_str (t : token) : str :=
  match t with Quoted key q s => key ++ 61 :: q :: s ++ [q] | Bare key w => key ++ 61 :: w end.
Definition tok_wf (t : token) : Prop :=
  match t with
  | Quoted key q s => key_ok key /\ (q = 34 \/ q = 39) /\ noquote s
  | Bare key w => key_ok key /\ bare_ok w
  end.

(* sequential assignment: what a list of tokens means *)
Fixpoint run_toks (tab : list (str * nat)) (toks : list token) (st : list value) : out (list value) :=
  match toks with
  | [] => Ok st
  | t :: r =>
      match lookup (tok_key t) tab with
      | None => Err
      | Some i => bind (set_value st i (tok_payload t)) (fun st' => run_toks tab r st')
      end
  end.

Definition shape (v : list value) : list nat := map kind_of v.
Definition plain_vals (v : list value) : Prop := forall s, In (VS s) v -> forallb plain s = true.
Definition ints_ok (v : list value) : Prop := forall z, In (VI z) v -> - 2 ^ 63 <= z < 2 ^ 63.

(* facts about the generated tables that the theorems rely on; re-checked by vm_compute on every run *)
Definition key_char_b (c : Z) : bool := negb (c =? 32) && negb (c =? 61) && negb (c =? 34) && negb (c =? 39).
Definition table_ok (k : nat) : bool :=
  negb (length (jtab k) =? 0)%nat &&
  forallb (fun e => forallb key_char_b (fst e)) (mtab k) &&
  forallb (fun e => forallb key_char_b (fst e)) (jtab k) &&
  forallb (fun e => match lookup (fst e) (mtab k) with Some i => (i =? snd e)%nat | None => false end) (jtab k) &&
  forallb (fun j => existsb (fun e => (snd e =? j)%nat) (jtab k)) (seq 0 (length (kinds k))) &&
  forallb (fun e => (snd e <? length (kinds k))%nat) (mtab k).

(* the tables of dsn.TagToField agree with the declared tags: every entry of the Multiref table is a declared
   json name or alias of that member, every declared name is in the table, the OnlyJSON table holds exactly the
   declared json names *)
Definition decl_pairs (k : nat) : list (str * nat) :=
  flat_map (fun e => match e with (i, name, aliases) => (name, i) :: map (fun a => (a, i)) aliases end) (decl k).
Definition opt_nat_eqb (a : option nat) (b : nat) : bool := match a with Some x => (x =? b)%nat | None => false end.
Definition tables_agree (k : nat) : bool :=
  forallb (fun e => opt_nat_eqb (decl_lookup k (fst e)) (snd e)) (mtab k) &&
  forallb (fun e => opt_nat_eqb (lookup (fst e) (mtab k)) (snd e)) (decl_pairs k) &&
  (length (mtab k) =? length (decl_pairs k))%nat &&
  forallb (fun e => match e with (i, name, _) => opt_nat_eqb (lookup name (jtab k)) i end) (decl k) &&
  (length (jtab k) =? length (decl k))%nat &&
  (length (decl k) =? length (kinds k))%nat.
