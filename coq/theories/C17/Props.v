(* C17 — connection descriptions round-trip and never crash the parser.
   Property theorems only.  The model (C17/Model.v) mirrors dsn/parse.go, dsn/format.go, dsn/util.go and is compared
   with the Go code on every run; the tag tables (Gen/GenC17.v) are re-tabulated from dsn.TagToField on every run.
   Struct kinds k: 0 dsn.Info, 1 tds.Info, 2 a test struct with an embedded and a named struct member, 3 KeyInfo. *)
From Coq Require Import ZArith List Bool.
From Coq Require String.
Import String.StringSyntax.
Import ListNotations.
Local Open Scope string_scope.
From V Require Import Base.Tree Gen.GenC17 C17.Model C17.Spec C17.Proofs C17.ProofsTok C17.ProofsFmt C17.ProofsURI.
Open Scope Z_scope.

(* (a) Simple form round trip, for ALL member values: strings over the documented alphabet (printable, no quotation
   mark, no backslash; spaces anywhere - leading, trailing, runs -, '=' signs allowed), all booleans, all int64.
   [init] is whatever the target struct held before. *)
Theorem C17_simple_roundtrip : forall k v init, (k < nkinds)%nat ->
  shape v = kinds k -> shape init = kinds k -> plain_vals v -> ints_ok v ->
  exists text, format_simple k v = Some text /\ parse_simple k text init = Ok v.
Proof. exact simple_roundtrip_all. Qed.

(* (b) A space-joined list of key=value / key="value" / key='value' tokens (values with any text but quotation marks)
   means: assign in order ... *)
Theorem C17_sequential : forall k toks init, toks <> [] -> Forall tok_wf toks ->
  parse_simple k (join32 (map tok_str toks)) init = run_toks (mtab k) toks init.
Proof. intros k toks init. apply sequential. Qed.

(* ... hence a later occurrence of a key or of any alias of the same member overrides every earlier one. *)
Theorem C17_later_wins : forall k pre t post init r i,
  Forall tok_wf (pre ++ t :: post) ->
  parse_simple k (join32 (map tok_str (pre ++ t :: post))) init = Ok r ->
  lookup (tok_key t) (mtab k) = Some i ->
  (forall t', In t' post -> lookup (tok_key t') (mtab k) <> Some i) ->
  exists kd x, nth_error (shape init) i = Some kd /\ typed (zero_of kd) (tok_payload t) = Some x /\ nth_error r i = Some x.
Proof. exact later_wins_text. Qed.

(* (c) A key that matches no member is an error, whatever follows the '=' and whatever precedes the token. *)
Theorem C17_unknown_key : forall k toks key s init, Forall tok_wf toks -> key_ok key -> lookup key (mtab k) = None ->
  parse_simple k (join32 (map tok_str toks ++ [key ++ 61 :: s])) init = Err.
Proof. intros k toks key s init. apply unknown_key. Qed.

(* the table of dsn.TagToField is the declared one; in particular the empty key matches no member (fix a412744) *)
Theorem C17_tables_agree : forall k, (k < nkinds)%nat -> tables_agree k = true /\ lookup [] (mtab k) = None.
Proof. intros k H. split; [apply tables_agree_all; exact H|apply empty_key_unknown; exact H]. Qed.

(* (d) No string whatsoever makes ParseSimple panic (and the model's loop fuel always suffices). *)
Theorem C17_no_panic : forall k s init, parse_simple k s init <> Panic /\ parse_simple k s init <> Fuel.
Proof. intros k s init. apply parse_simple_safe. Qed.

(* (e) URI form, the library's own logic (which member goes to userinfo / host / port / query, empty members are not
   written, the query is read back key by key); net/url is represented by esc/unesc with the single assumption
   unesc (esc s) = s.  Proved for dsn.Info and ALL five texts - including empty user name with non-empty password,
   empty members, texts made of URI metacharacters.  In reality host and port must be acceptable to net/url as they
   are (FormatURI writes them unescaped into Host): the harness uses host names of letters, digits, '.', '-' and
   numeric ports.  The same statement for tds.Info and the embedding test struct (full statement below) is NOT
   proved (2^9 * 2^3 emptiness/boolean cases by evaluation, or a generic proof over the tables); it is checked by
   the harness only (fn 4: model = implementation and members read back = members written). *)
Definition C17_uri_statement (k : nat) : Prop :=
  forall (esc unesc : str -> str), (forall s, unesc (esc s) = s) ->
  forall v, shape v = kinds k -> ints_ok v ->
  exists w, format_uri esc k v = Some w /\ parse_uri unesc k w (zero_struct k) = Ok v.
Theorem C17_uri_roundtrip_partial : forall (esc unesc : str -> str), (forall s, unesc (esc s) = s) ->
  forall h p u pw db,
  exists w, format_uri esc 0 [VS h; VS p; VS u; VS pw; VS db] = Some w /\
            parse_uri unesc 0 w (zero_struct 0) = Ok [VS h; VS p; VS u; VS pw; VS db].
Proof. exact uri_roundtrip_info. Qed.

(* URI form: the last value of a repeated query key wins, an unknown query key is an error (on the record net/url
   produces; keys and values already unescaped) *)
Example C17_uri_last_value_wins :
  parse_uri ident 0 {| w_scheme := []; w_user := None; w_host := [104]; w_port := [49]; w_path := [47];
                       w_query := [(L "db", L "one"); (L "user", L "x"); (L "db", L "two")] |} (zero_struct 0)
  = Ok [VS [104]; VS [49]; VS (L "x"); VS []; VS (L "two")] /\
  parse_uri ident 0 {| w_scheme := []; w_user := None; w_host := [104]; w_port := [49]; w_path := [47];
                       w_query := [(L "db", L "one"); (L "nokey", L "x")] |} (zero_struct 0) = Err.
Proof. vm_compute. split; reflexivity. Qed.
(* the model's URI round trip on tds.Info and the test struct, concrete members (esc = identity) *)
Example C17_uri_examples :
  (let v := [VS (L "h"); VS (L "1"); VS []; VS (L "p w"); VS (L "a/b?c"); VS (L "tcp"); VS []; VB true; VS []; VB false; VS (L "/x y"); VI (-5); VI 0; VB false] in
   match format_uri ident 1 v with Some w => parse_uri ident 1 w (zero_struct 1) = Ok v | None => False end) /\
  (let v := [VS (L "h"); VS []; VS (L "u"); VS []; VS (L "d"); VS (L "=&"); VB true; VI 7; VS []; VI (-1); VB false] in
   match format_uri ident 2 v with Some w => parse_uri ident 2 w (zero_struct 2) = Ok v | None => False end).
Proof. vm_compute. split; reflexivity. Qed.
(* the userstore-key form drops host and credentials by design (documented in FormatURI) *)
Example C17_uri_key_form :
  format_uri ident 3 [VS (L "h"); VS (L "1"); VS (L "u"); VS (L "p"); VS (L "d"); VS (L "ase"); VS (L "k"); VS []]
  = Some {| w_scheme := L "ase"; w_user := None; w_host := []; w_port := []; w_path := [];
            w_query := [(L "KEY", L "k"); (L "database", L "d")] |}.
Proof. vm_compute. reflexivity. Qed.

(* non-vacuity *)
Example C17_roundtrip_example :
  let v := [VS [32; 97; 32; 32; 98; 32; 61; 32]; VS []; VS [117]; VS [61; 61]; VS [233; 8364]] in
  shape v = kinds 0 /\ plain_vals v /\ ints_ok v /\
  format_simple 0 v = Some (L "database=""" ++ [233; 8364] ++ L """ host="" a  b = "" password=""=="" port="""" username=""u""") /\
  parse_simple 0 (L "database=""" ++ [233; 8364] ++ L """ host="" a  b = "" password=""=="" port="""" username=""u""") (zero_struct 0) = Ok v.
Proof.
  cbv zeta. split; [reflexivity|]. split; [|split; [|split; vm_compute; reflexivity]].
  - intros s H. repeat (destruct H as [H|H]; [inversion H; vm_compute; reflexivity|]). destruct H.
  - intros z H. repeat (destruct H as [H|H]; [discriminate H|]). destruct H.
Qed.
Example C17_later_wins_example :
  parse_simple 0 (L "host=a hostname='b  c' pass=x passwd=""y z"" password=w") (zero_struct 0)
  = Ok [VS (L "b  c"); VS []; VS []; VS (L "w"); VS []].
Proof. vm_compute. reflexivity. Qed.
Example C17_fixed_inputs :
  parse_simple 0 (L "host=""a") (zero_struct 0) = Err /\ parse_simple 0 (L "host=""") (zero_struct 0) = Err /\
  parse_simple 0 (L "host="" x""") (zero_struct 0) = Ok [VS (L " x"); VS []; VS []; VS []; VS []] /\
  parse_simple 0 (L "=x") (zero_struct 0) = Err.
Proof. vm_compute. repeat split. Qed.

Print Assumptions C17_simple_roundtrip.
Print Assumptions C17_sequential.
Print Assumptions C17_later_wins.
Print Assumptions C17_unknown_key.
Print Assumptions C17_tables_agree.
Print Assumptions C17_no_panic.
Print Assumptions C17_uri_roundtrip_partial.
