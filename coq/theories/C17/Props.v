From Coq Require Import ZArith List.
From V Require Import C17.Spec.
Example C17_placeholder : True. Proof. exact I. Qed.
