(* C17 lemmas, part 1: Go index/slice facts, ParseSimple never panics and never runs out of fuel. *)
From Coq Require Import ZArith List Bool Lia Arith.
Import ListNotations.
From V Require Import Base.Tree Gen.GenC17 C17.Model.
Open Scope Z_scope.

Lemma str_eqb_eq : forall a b, str_eqb a b = true <-> a = b.
Proof.
  induction a as [|x a IH]; intros [|y b]; simpl; split; intros H; try reflexivity; try discriminate.
  - apply andb_true_iff in H. destruct H as [H1 H2]. apply Z.eqb_eq in H1. apply IH in H2. subst. reflexivity.
  - inversion H as [[H1 H2]]. subst. rewrite Z.eqb_refl. simpl. apply IH. reflexivity.
Qed.
Lemma str_eqb_refl : forall a, str_eqb a a = true.
Proof. intros a. apply str_eqb_eq. reflexivity. Qed.
Lemma str_eqb_neq : forall a b, a <> b -> str_eqb a b = false.
Proof.
  intros a b H. destruct (str_eqb a b) eqn:E; [|reflexivity]. apply str_eqb_eq in E. contradiction.
Qed.

(* ---------------------------------------------------------------- idx / slice *)
Lemma idx_lt : forall {A} (l : list A) i, (i < length l)%nat -> exists a, idx l i = Ok a /\ nth_error l i = Some a.
Proof.
  intros A l i H. unfold idx. destruct (nth_error l i) as [a|] eqn:E.
  - exists a. split; reflexivity.
  - apply nth_error_None in E. lia.
Qed.

Lemma slice_ok : forall {A} (l : list A) lo hi, (lo <= hi)%nat -> (hi <= length l)%nat ->
  slice l lo hi = Ok (firstn (hi - lo) (skipn lo l)).
Proof.
  intros A l lo hi H1 H2. unfold slice.
  apply Nat.leb_le in H1. apply Nat.leb_le in H2. rewrite H1, H2. reflexivity.
Qed.

Lemma uncons : forall {A} (l : list A), (length l =? 0)%nat = false ->
  exists x r, l = x :: r /\ idx l 0 = Ok x /\ slice l 1 (length l) = Ok r.
Proof.
  intros A l H. destruct l as [|x r]; [discriminate|].
  exists x, r. split; [reflexivity|]. split; [reflexivity|].
  rewrite slice_ok; cbn [length]; try lia.
  replace (S (length r) - 1)%nat with (length r) by lia.
  cbn [skipn]. rewrite firstn_all. reflexivity.
Qed.

Lemma idx_last : forall {A} (l : list A) x, idx (l ++ [x]) (length (l ++ [x]) - 1) = Ok x.
Proof.
  intros A l x. rewrite app_length. cbn [length]. replace (length l + 1 - 1)%nat with (length l) by lia.
  unfold idx. rewrite nth_error_app2 by lia. rewrite Nat.sub_diag. reflexivity.
Qed.

(* ---------------------------------------------------------------- unfolding equations *)
Lemma rejoin_S : forall f q start part dsnS,
  rejoin (S f) q start part dsnS =
  bind (if (length part <? start + 3)%nat then Ok true
        else bind (idx part (length part - 1)) (fun c => Ok (negb (c =? q))))
    (fun go =>
       if go then
         if (length dsnS =? 0)%nat then Err
         else bind (idx dsnS 0) (fun nx =>
              bind (slice dsnS 1 (length dsnS)) (fun rest =>
              rejoin f q start (part ++ 32 :: nx) rest))
       else Ok (part, dsnS)).
Proof. reflexivity. Qed.

Lemma ps_loop_S : forall f tab dsnS st,
  ps_loop (S f) tab dsnS st =
  if (length dsnS =? 0)%nat then Ok st
  else
    bind (idx dsnS 0) (fun part =>
    bind (slice dsnS 1 (length dsnS)) (fun rest =>
    bind (requote (S (length rest)) quotations part rest) (fun pr =>
    let partS := splitn2 (fst pr) in
    if negb (length partS =? 2)%nat then Err
    else
      bind (idx partS 0) (fun key =>
      bind (idx partS 1) (fun value =>
      bind (strip value) (fun value' =>
      match lookup key tab with
      | None => Err
      | Some i => bind (set_value st i value') (fun st' => ps_loop f tab (snd pr) st')
      end)))))).
Proof. reflexivity. Qed.

(* ---------------------------------------------------------------- no panic, no fuel exhaustion *)
Definition shrinks (n : nat) (o : out (str * list str)) : Prop :=
  match o with Ok pr => (length (snd pr) <= n)%nat | Err => True | Panic => False | Fuel => False end.

Lemma go_total : forall part start q,
  exists b, (if (length part <? start + 3)%nat then Ok true
             else bind (idx part (length part - 1)) (fun c => Ok (negb (c =? q)))) = Ok b.
Proof.
  intros part start q. destruct (length part <? start + 3)%nat eqn:E.
  - exists true. reflexivity.
  - apply Nat.ltb_ge in E.
    destruct (idx_lt part (length part - 1)) as [c [Hc _]]; [lia|].
    rewrite Hc. cbn [bind]. eexists. reflexivity.
Qed.

Lemma rejoin_safe : forall fuel q start part dsnS, (length dsnS < fuel)%nat ->
  shrinks (length dsnS) (rejoin fuel q start part dsnS).
Proof.
  induction fuel as [|f IH]; intros q start part dsnS H; [lia|].
  rewrite rejoin_S. destruct (go_total part start q) as [b Hb]. rewrite Hb. cbn [bind].
  destruct b.
  - destruct (length dsnS =? 0)%nat eqn:E; [exact I|].
    destruct (uncons dsnS E) as [x [r [El [Ei Es]]]]. rewrite Ei, Es. cbn [bind].
    subst dsnS. cbn [length] in H.
    pose proof (IH q start (part ++ 32 :: x) r ltac:(lia)) as S1.
    destruct (rejoin f q start (part ++ 32 :: x) r) as [pr| | |]; cbn [shrinks] in *; try exact S1.
    cbn [length]. lia.
  - cbn [shrinks snd]. lia.
Qed.

Lemma requote_safe : forall qs fuel part dsnS, (length dsnS < fuel)%nat ->
  shrinks (length dsnS) (requote fuel qs part dsnS).
Proof.
  induction qs as [|q qs IH]; intros fuel part dsnS H; cbn [requote].
  - cbn [shrinks snd]. lia.
  - destruct (find2 61 q part) as [start|].
    + apply rejoin_safe. exact H.
    + apply IH. exact H.
Qed.

Lemma strip1_total : forall q v, exists v', strip1 q v = Ok v'.
Proof.
  intros q v. unfold strip1. destruct (2 <=? length v)%nat eqn:E; [|eexists; reflexivity].
  apply Nat.leb_le in E.
  destruct (idx_lt v 0) as [a [Ha _]]; [lia|]. rewrite Ha. cbn [bind].
  destruct (a =? q); [|eexists; reflexivity].
  destruct (idx_lt v (length v - 1)) as [b [Hb _]]; [lia|]. rewrite Hb. cbn [bind].
  destruct (b =? q); [|eexists; reflexivity].
  rewrite slice_ok by lia. eexists. reflexivity.
Qed.

Lemma strip_total : forall v, exists v', strip v = Ok v'.
Proof.
  intros v. unfold strip. destruct (length v =? 0)%nat; [eexists; reflexivity|].
  unfold quotations. cbn [fold_left bind].
  destruct (strip1_total 39 v) as [v1 H1]. rewrite H1. cbn [bind]. apply strip1_total.
Qed.

Lemma splitn2_cases : forall s, (exists k v, splitn2 s = [k; v] /\ split_eq s = Some (k, v)) \/ (splitn2 s = [s] /\ split_eq s = None).
Proof.
  intros s. unfold splitn2. destruct (split_eq s) as [[k v]|].
  - left. exists k, v. split; reflexivity.
  - right. split; reflexivity.
Qed.

Lemma set_value_safe : forall st i t, set_value st i t <> Panic /\ set_value st i t <> Fuel.
Proof.
  intros st i t. unfold set_value. destruct (nth_error st i) as [old|]; [|split; discriminate].
  destruct (typed old t); split; discriminate.
Qed.

Lemma ps_loop_safe : forall fuel tab dsnS st, (length dsnS < fuel)%nat ->
  ps_loop fuel tab dsnS st <> Panic /\ ps_loop fuel tab dsnS st <> Fuel.
Proof.
  induction fuel as [|f IH]; intros tab dsnS st H; [lia|].
  rewrite ps_loop_S. destruct (length dsnS =? 0)%nat eqn:E; [split; discriminate|].
  destruct (uncons dsnS E) as [part [rest [El [Ei Es]]]]. rewrite Ei, Es. cbn [bind].
  subst dsnS. cbn [length] in H.
  pose proof (requote_safe quotations (S (length rest)) part rest ltac:(lia)) as S1.
  destruct (requote (S (length rest)) quotations part rest) as [pr| | |]; cbn [shrinks] in S1; try contradiction;
    cbn [bind]; [|split; discriminate].
  cbv zeta.
  destruct (splitn2_cases (fst pr)) as [[k [v [E2 _]]]|[E2 _]]; rewrite E2; cbn [length Nat.eqb negb];
    [|split; discriminate].
  cbn [idx nth_error bind].
  destruct (strip_total v) as [v' Hv]. rewrite Hv. cbn [bind].
  destruct (lookup k tab) as [i|]; [|split; discriminate].
  pose proof (set_value_safe st i v') as [P1 P2].
  destruct (set_value st i v') as [st'| | |]; try contradiction; cbn [bind]; [|split; discriminate].
  apply IH. lia.
Qed.

Lemma parts_length : forall s, (1 <= length (parts s))%nat.
Proof. intros s. unfold parts. destruct (split_sp s) as [p ps]. cbn [length]. lia. Qed.

Lemma parse_simple_safe : forall tab s init,
  parse_simple_tab tab s init <> Panic /\ parse_simple_tab tab s init <> Fuel.
Proof.
  intros tab s init. unfold parse_simple_tab. apply ps_loop_safe. lia.
Qed.
